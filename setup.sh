#!/bin/sh
# Build the Coq development (full .vo build) and the extracted OCaml driver from files on disk.
cd "$(dirname "$0")" || exit 2
export PYTHONHASHSEED=0 PYTHONPATH=/repo PYTHONDONTWRITEBYTECODE=1
exec /venv/bin/python -W ignore -c "
import sys; sys.path.insert(0,'harness')
import corr
b = corr.build_all()
print(b.log[-2000:])
print('setup ok' if b.ok else 'setup FAILED at %s' % b.stage)
sys.exit(0 if b.ok else 1)
"
