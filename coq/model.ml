
(** val negb : bool -> bool **)

let negb = function
| true -> false
| false -> true

type nat =
| O
| S of nat

(** val length : 'a1 list -> nat **)

let rec length = function
| [] -> O
| _ :: l' -> S (length l')

(** val app : 'a1 list -> 'a1 list -> 'a1 list **)

let rec app l m =
  match l with
  | [] -> m
  | a :: l1 -> a :: (app l1 m)

type comparison =
| Eq
| Lt
| Gt

(** val compOpp : comparison -> comparison **)

let compOpp = function
| Eq -> Eq
| Lt -> Gt
| Gt -> Lt

(** val add : nat -> nat -> nat **)

let rec add n0 m =
  match n0 with
  | O -> m
  | S p -> S (add p m)

(** val mul : nat -> nat -> nat **)

let rec mul n0 m =
  match n0 with
  | O -> O
  | S p -> add m (mul p m)

(** val sub : nat -> nat -> nat **)

let rec sub n0 m =
  match n0 with
  | O -> n0
  | S k -> (match m with
            | O -> n0
            | S l -> sub k l)

module Nat =
 struct
  (** val leb : nat -> nat -> bool **)

  let rec leb n0 m =
    match n0 with
    | O -> true
    | S n' -> (match m with
               | O -> false
               | S m' -> leb n' m')

  (** val ltb : nat -> nat -> bool **)

  let ltb n0 m =
    leb (S n0) m

  (** val max : nat -> nat -> nat **)

  let rec max n0 m =
    match n0 with
    | O -> m
    | S n' -> (match m with
               | O -> n0
               | S m' -> S (max n' m'))

  (** val min : nat -> nat -> nat **)

  let rec min n0 m =
    match n0 with
    | O -> O
    | S n' -> (match m with
               | O -> O
               | S m' -> S (min n' m'))
 end

(** val nth_error : 'a1 list -> nat -> 'a1 option **)

let rec nth_error l = function
| O -> (match l with
        | [] -> None
        | x :: _ -> Some x)
| S n1 -> (match l with
           | [] -> None
           | _ :: l0 -> nth_error l0 n1)

(** val rev : 'a1 list -> 'a1 list **)

let rec rev = function
| [] -> []
| x :: l' -> app (rev l') (x :: [])

(** val concat : 'a1 list list -> 'a1 list **)

let rec concat = function
| [] -> []
| x :: l0 -> app x (concat l0)

(** val map : ('a1 -> 'a2) -> 'a1 list -> 'a2 list **)

let rec map f = function
| [] -> []
| a :: t -> (f a) :: (map f t)

(** val fold_right : ('a2 -> 'a1 -> 'a1) -> 'a1 -> 'a2 list -> 'a1 **)

let rec fold_right f a0 = function
| [] -> a0
| b :: t -> f b (fold_right f a0 t)

(** val existsb : ('a1 -> bool) -> 'a1 list -> bool **)

let rec existsb f = function
| [] -> false
| a :: l0 -> (||) (f a) (existsb f l0)

(** val firstn : nat -> 'a1 list -> 'a1 list **)

let rec firstn n0 l =
  match n0 with
  | O -> []
  | S n1 -> (match l with
             | [] -> []
             | a :: l0 -> a :: (firstn n1 l0))

(** val skipn : nat -> 'a1 list -> 'a1 list **)

let rec skipn n0 l =
  match n0 with
  | O -> l
  | S n1 -> (match l with
             | [] -> []
             | _ :: l0 -> skipn n1 l0)

type positive =
| XI of positive
| XO of positive
| XH

type n =
| N0
| Npos of positive

type z =
| Z0
| Zpos of positive
| Zneg of positive

module Pos =
 struct
  (** val succ : positive -> positive **)

  let rec succ = function
  | XI p -> XO (succ p)
  | XO p -> XI p
  | XH -> XO XH

  (** val add : positive -> positive -> positive **)

  let rec add x y =
    match x with
    | XI p ->
      (match y with
       | XI q -> XO (add_carry p q)
       | XO q -> XI (add p q)
       | XH -> XO (succ p))
    | XO p ->
      (match y with
       | XI q -> XI (add p q)
       | XO q -> XO (add p q)
       | XH -> XI p)
    | XH -> (match y with
             | XI q -> XO (succ q)
             | XO q -> XI q
             | XH -> XO XH)

  (** val add_carry : positive -> positive -> positive **)

  and add_carry x y =
    match x with
    | XI p ->
      (match y with
       | XI q -> XI (add_carry p q)
       | XO q -> XO (add_carry p q)
       | XH -> XI (succ p))
    | XO p ->
      (match y with
       | XI q -> XO (add_carry p q)
       | XO q -> XI (add p q)
       | XH -> XO (succ p))
    | XH ->
      (match y with
       | XI q -> XI (succ q)
       | XO q -> XO (succ q)
       | XH -> XI XH)

  (** val pred_double : positive -> positive **)

  let rec pred_double = function
  | XI p -> XI (XO p)
  | XO p -> XI (pred_double p)
  | XH -> XH

  (** val compare_cont : comparison -> positive -> positive -> comparison **)

  let rec compare_cont r x y =
    match x with
    | XI p ->
      (match y with
       | XI q -> compare_cont r p q
       | XO q -> compare_cont Gt p q
       | XH -> Gt)
    | XO p ->
      (match y with
       | XI q -> compare_cont Lt p q
       | XO q -> compare_cont r p q
       | XH -> Gt)
    | XH -> (match y with
             | XH -> r
             | _ -> Lt)

  (** val compare : positive -> positive -> comparison **)

  let compare =
    compare_cont Eq

  (** val eqb : positive -> positive -> bool **)

  let rec eqb p q =
    match p with
    | XI p0 -> (match q with
                | XI q0 -> eqb p0 q0
                | _ -> false)
    | XO p0 -> (match q with
                | XO q0 -> eqb p0 q0
                | _ -> false)
    | XH -> (match q with
             | XH -> true
             | _ -> false)

  (** val of_succ_nat : nat -> positive **)

  let rec of_succ_nat = function
  | O -> XH
  | S x -> succ (of_succ_nat x)
 end

module N =
 struct
  (** val eqb : n -> n -> bool **)

  let eqb n0 m =
    match n0 with
    | N0 -> (match m with
             | N0 -> true
             | Npos _ -> false)
    | Npos p -> (match m with
                 | N0 -> false
                 | Npos q -> Pos.eqb p q)
 end

module Z =
 struct
  (** val double : z -> z **)

  let double = function
  | Z0 -> Z0
  | Zpos p -> Zpos (XO p)
  | Zneg p -> Zneg (XO p)

  (** val succ_double : z -> z **)

  let succ_double = function
  | Z0 -> Zpos XH
  | Zpos p -> Zpos (XI p)
  | Zneg p -> Zneg (Pos.pred_double p)

  (** val pred_double : z -> z **)

  let pred_double = function
  | Z0 -> Zneg XH
  | Zpos p -> Zpos (Pos.pred_double p)
  | Zneg p -> Zneg (XI p)

  (** val pos_sub : positive -> positive -> z **)

  let rec pos_sub x y =
    match x with
    | XI p ->
      (match y with
       | XI q -> double (pos_sub p q)
       | XO q -> succ_double (pos_sub p q)
       | XH -> Zpos (XO p))
    | XO p ->
      (match y with
       | XI q -> pred_double (pos_sub p q)
       | XO q -> double (pos_sub p q)
       | XH -> Zpos (Pos.pred_double p))
    | XH ->
      (match y with
       | XI q -> Zneg (XO q)
       | XO q -> Zneg (Pos.pred_double q)
       | XH -> Z0)

  (** val add : z -> z -> z **)

  let add x y =
    match x with
    | Z0 -> y
    | Zpos x' ->
      (match y with
       | Z0 -> x
       | Zpos y' -> Zpos (Pos.add x' y')
       | Zneg y' -> pos_sub x' y')
    | Zneg x' ->
      (match y with
       | Z0 -> x
       | Zpos y' -> pos_sub y' x'
       | Zneg y' -> Zneg (Pos.add x' y'))

  (** val opp : z -> z **)

  let opp = function
  | Z0 -> Z0
  | Zpos x0 -> Zneg x0
  | Zneg x0 -> Zpos x0

  (** val sub : z -> z -> z **)

  let sub m n0 =
    add m (opp n0)

  (** val compare : z -> z -> comparison **)

  let compare x y =
    match x with
    | Z0 -> (match y with
             | Z0 -> Eq
             | Zpos _ -> Lt
             | Zneg _ -> Gt)
    | Zpos x' -> (match y with
                  | Zpos y' -> Pos.compare x' y'
                  | _ -> Gt)
    | Zneg x' ->
      (match y with
       | Zneg y' -> compOpp (Pos.compare x' y')
       | _ -> Lt)

  (** val ltb : z -> z -> bool **)

  let ltb x y =
    match compare x y with
    | Lt -> true
    | _ -> false

  (** val eqb : z -> z -> bool **)

  let eqb x y =
    match x with
    | Z0 -> (match y with
             | Z0 -> true
             | _ -> false)
    | Zpos p -> (match y with
                 | Zpos q -> Pos.eqb p q
                 | _ -> false)
    | Zneg p -> (match y with
                 | Zneg q -> Pos.eqb p q
                 | _ -> false)

  (** val of_nat : nat -> z **)

  let of_nat = function
  | O -> Z0
  | S n1 -> Zpos (Pos.of_succ_nat n1)
 end

type cc =
| CEscape
| CGroupBegin
| CGroupEnd
| CMathSwitch
| CAlignment
| CEndOfLine
| CMacro
| CSuperscript
| CSubscript
| CIgnored
| CSpacer
| CLetter
| COther
| CActive
| CComment
| CInvalid
| CMathGroupBegin
| CMathGroupEnd
| CBracketBegin
| CBracketEnd
| CParenBegin
| CParenEnd

type tc =
| TEscape
| TGroupBegin
| TGroupEnd
| TComment
| TMergedSpacer
| TEscapedComment
| TMathSwitch
| TDisplayMathSwitch
| TMathGroupBegin
| TMathGroupEnd
| TDisplayMathGroupBegin
| TDisplayMathGroupEnd
| TLineBreak
| TCommandName
| TText
| TBracketBegin
| TBracketEnd
| TParenBegin
| TParenEnd
| TPunctuationCommandName
| TSizeCommand
| TSpacer

type rule_id =
| R_escaped_symbols
| R_comment
| R_math_sym_switch
| R_math_asym_switch
| R_line_break
| R_ignore
| R_spacers
| R_symbols
| R_punctuation_command_name
| R_command_name
| R_string

type mathkind =
| MInline
| MDisplay
| MParen
| MBracket

type groupkind =
| GBrace
| GBracket

(** val cc_beq : cc -> cc -> bool **)

let cc_beq x y =
  match x with
  | CEscape -> (match y with
                | CEscape -> true
                | _ -> false)
  | CGroupBegin -> (match y with
                    | CGroupBegin -> true
                    | _ -> false)
  | CGroupEnd -> (match y with
                  | CGroupEnd -> true
                  | _ -> false)
  | CMathSwitch -> (match y with
                    | CMathSwitch -> true
                    | _ -> false)
  | CAlignment -> (match y with
                   | CAlignment -> true
                   | _ -> false)
  | CEndOfLine -> (match y with
                   | CEndOfLine -> true
                   | _ -> false)
  | CMacro -> (match y with
               | CMacro -> true
               | _ -> false)
  | CSuperscript -> (match y with
                     | CSuperscript -> true
                     | _ -> false)
  | CSubscript -> (match y with
                   | CSubscript -> true
                   | _ -> false)
  | CIgnored -> (match y with
                 | CIgnored -> true
                 | _ -> false)
  | CSpacer -> (match y with
                | CSpacer -> true
                | _ -> false)
  | CLetter -> (match y with
                | CLetter -> true
                | _ -> false)
  | COther -> (match y with
               | COther -> true
               | _ -> false)
  | CActive -> (match y with
                | CActive -> true
                | _ -> false)
  | CComment -> (match y with
                 | CComment -> true
                 | _ -> false)
  | CInvalid -> (match y with
                 | CInvalid -> true
                 | _ -> false)
  | CMathGroupBegin -> (match y with
                        | CMathGroupBegin -> true
                        | _ -> false)
  | CMathGroupEnd -> (match y with
                      | CMathGroupEnd -> true
                      | _ -> false)
  | CBracketBegin -> (match y with
                      | CBracketBegin -> true
                      | _ -> false)
  | CBracketEnd -> (match y with
                    | CBracketEnd -> true
                    | _ -> false)
  | CParenBegin -> (match y with
                    | CParenBegin -> true
                    | _ -> false)
  | CParenEnd -> (match y with
                  | CParenEnd -> true
                  | _ -> false)

(** val tc_beq : tc -> tc -> bool **)

let tc_beq x y =
  match x with
  | TEscape -> (match y with
                | TEscape -> true
                | _ -> false)
  | TGroupBegin -> (match y with
                    | TGroupBegin -> true
                    | _ -> false)
  | TGroupEnd -> (match y with
                  | TGroupEnd -> true
                  | _ -> false)
  | TComment -> (match y with
                 | TComment -> true
                 | _ -> false)
  | TMergedSpacer -> (match y with
                      | TMergedSpacer -> true
                      | _ -> false)
  | TEscapedComment -> (match y with
                        | TEscapedComment -> true
                        | _ -> false)
  | TMathSwitch -> (match y with
                    | TMathSwitch -> true
                    | _ -> false)
  | TDisplayMathSwitch ->
    (match y with
     | TDisplayMathSwitch -> true
     | _ -> false)
  | TMathGroupBegin -> (match y with
                        | TMathGroupBegin -> true
                        | _ -> false)
  | TMathGroupEnd -> (match y with
                      | TMathGroupEnd -> true
                      | _ -> false)
  | TDisplayMathGroupBegin ->
    (match y with
     | TDisplayMathGroupBegin -> true
     | _ -> false)
  | TDisplayMathGroupEnd ->
    (match y with
     | TDisplayMathGroupEnd -> true
     | _ -> false)
  | TLineBreak -> (match y with
                   | TLineBreak -> true
                   | _ -> false)
  | TCommandName -> (match y with
                     | TCommandName -> true
                     | _ -> false)
  | TText -> (match y with
              | TText -> true
              | _ -> false)
  | TBracketBegin -> (match y with
                      | TBracketBegin -> true
                      | _ -> false)
  | TBracketEnd -> (match y with
                    | TBracketEnd -> true
                    | _ -> false)
  | TParenBegin -> (match y with
                    | TParenBegin -> true
                    | _ -> false)
  | TParenEnd -> (match y with
                  | TParenEnd -> true
                  | _ -> false)
  | TPunctuationCommandName ->
    (match y with
     | TPunctuationCommandName -> true
     | _ -> false)
  | TSizeCommand -> (match y with
                     | TSizeCommand -> true
                     | _ -> false)
  | TSpacer -> (match y with
                | TSpacer -> true
                | _ -> false)

(** val mathkind_beq : mathkind -> mathkind -> bool **)

let mathkind_beq x y =
  match x with
  | MInline -> (match y with
                | MInline -> true
                | _ -> false)
  | MDisplay -> (match y with
                 | MDisplay -> true
                 | _ -> false)
  | MParen -> (match y with
               | MParen -> true
               | _ -> false)
  | MBracket -> (match y with
                 | MBracket -> true
                 | _ -> false)

(** val groupkind_beq : groupkind -> groupkind -> bool **)

let groupkind_beq x y =
  match x with
  | GBrace -> (match y with
               | GBrace -> true
               | GBracket -> false)
  | GBracket -> (match y with
                 | GBrace -> false
                 | GBracket -> true)

type str = n list

(** val str_eqb : str -> str -> bool **)

let rec str_eqb a b =
  match a with
  | [] -> (match b with
           | [] -> true
           | _ :: _ -> false)
  | x :: a' ->
    (match b with
     | [] -> false
     | y :: b' -> (&&) (N.eqb x y) (str_eqb a' b'))

(** val mem_cc : cc -> cc list -> bool **)

let mem_cc c l =
  existsb (cc_beq c) l

(** val mem_N : n -> n list -> bool **)

let mem_N c l =
  existsb (N.eqb c) l

(** val mem_str : str -> str list -> bool **)

let mem_str s l =
  existsb (str_eqb s) l

(** val starts_with : str -> str -> bool **)

let rec starts_with s = function
| [] -> true
| y :: p' ->
  (match s with
   | [] -> false
   | x :: s' -> (&&) (N.eqb x y) (starts_with s' p'))

(** val assoc_str : str -> (str * 'a1) list -> 'a1 option **)

let rec assoc_str k = function
| [] -> None
| p :: l' ->
  let (k', v) = p in if str_eqb k k' then Some v else assoc_str k l'

module Tables =
 struct
  (** val category_table : (cc * n list) list **)

  let category_table =
    (CEscape, ((Npos (XO (XO (XI (XI (XI (XO
      XH))))))) :: [])) :: ((CGroupBegin, ((Npos (XI (XI (XO (XI (XI (XI
      XH))))))) :: [])) :: ((CGroupEnd, ((Npos (XI (XO (XI (XI (XI (XI
      XH))))))) :: [])) :: ((CMathSwitch, ((Npos (XO (XO (XI (XO (XO
      XH)))))) :: [])) :: ((CAlignment, ((Npos (XO (XI (XI (XO (XO
      XH)))))) :: [])) :: ((CEndOfLine, ((Npos (XO (XI (XO XH)))) :: ((Npos
      (XI (XO (XI XH)))) :: []))) :: ((CMacro, ((Npos (XI (XI (XO (XO (XO
      XH)))))) :: [])) :: ((CSuperscript, ((Npos (XO (XI (XI (XI (XI (XO
      XH))))))) :: [])) :: ((CSubscript, ((Npos (XI (XI (XI (XI (XI (XO
      XH))))))) :: [])) :: ((CIgnored, (N0 :: [])) :: ((CSpacer, ((Npos (XI
      (XO (XO XH)))) :: ((Npos (XO (XO (XO (XO (XO
      XH)))))) :: []))) :: ((CLetter, ((Npos (XI (XO (XO (XO (XO (XO
      XH))))))) :: ((Npos (XO (XI (XO (XO (XO (XO XH))))))) :: ((Npos (XI (XI
      (XO (XO (XO (XO XH))))))) :: ((Npos (XO (XO (XI (XO (XO (XO
      XH))))))) :: ((Npos (XI (XO (XI (XO (XO (XO XH))))))) :: ((Npos (XO (XI
      (XI (XO (XO (XO XH))))))) :: ((Npos (XI (XI (XI (XO (XO (XO
      XH))))))) :: ((Npos (XO (XO (XO (XI (XO (XO XH))))))) :: ((Npos (XI (XO
      (XO (XI (XO (XO XH))))))) :: ((Npos (XO (XI (XO (XI (XO (XO
      XH))))))) :: ((Npos (XI (XI (XO (XI (XO (XO XH))))))) :: ((Npos (XO (XO
      (XI (XI (XO (XO XH))))))) :: ((Npos (XI (XO (XI (XI (XO (XO
      XH))))))) :: ((Npos (XO (XI (XI (XI (XO (XO XH))))))) :: ((Npos (XI (XI
      (XI (XI (XO (XO XH))))))) :: ((Npos (XO (XO (XO (XO (XI (XO
      XH))))))) :: ((Npos (XI (XO (XO (XO (XI (XO XH))))))) :: ((Npos (XO (XI
      (XO (XO (XI (XO XH))))))) :: ((Npos (XI (XI (XO (XO (XI (XO
      XH))))))) :: ((Npos (XO (XO (XI (XO (XI (XO XH))))))) :: ((Npos (XI (XO
      (XI (XO (XI (XO XH))))))) :: ((Npos (XO (XI (XI (XO (XI (XO
      XH))))))) :: ((Npos (XI (XI (XI (XO (XI (XO XH))))))) :: ((Npos (XO (XO
      (XO (XI (XI (XO XH))))))) :: ((Npos (XI (XO (XO (XI (XI (XO
      XH))))))) :: ((Npos (XO (XI (XO (XI (XI (XO XH))))))) :: ((Npos (XI (XO
      (XO (XO (XO (XI XH))))))) :: ((Npos (XO (XI (XO (XO (XO (XI
      XH))))))) :: ((Npos (XI (XI (XO (XO (XO (XI XH))))))) :: ((Npos (XO (XO
      (XI (XO (XO (XI XH))))))) :: ((Npos (XI (XO (XI (XO (XO (XI
      XH))))))) :: ((Npos (XO (XI (XI (XO (XO (XI XH))))))) :: ((Npos (XI (XI
      (XI (XO (XO (XI XH))))))) :: ((Npos (XO (XO (XO (XI (XO (XI
      XH))))))) :: ((Npos (XI (XO (XO (XI (XO (XI XH))))))) :: ((Npos (XO (XI
      (XO (XI (XO (XI XH))))))) :: ((Npos (XI (XI (XO (XI (XO (XI
      XH))))))) :: ((Npos (XO (XO (XI (XI (XO (XI XH))))))) :: ((Npos (XI (XO
      (XI (XI (XO (XI XH))))))) :: ((Npos (XO (XI (XI (XI (XO (XI
      XH))))))) :: ((Npos (XI (XI (XI (XI (XO (XI XH))))))) :: ((Npos (XO (XO
      (XO (XO (XI (XI XH))))))) :: ((Npos (XI (XO (XO (XO (XI (XI
      XH))))))) :: ((Npos (XO (XI (XO (XO (XI (XI XH))))))) :: ((Npos (XI (XI
      (XO (XO (XI (XI XH))))))) :: ((Npos (XO (XO (XI (XO (XI (XI
      XH))))))) :: ((Npos (XI (XO (XI (XO (XI (XI XH))))))) :: ((Npos (XO (XI
      (XI (XO (XI (XI XH))))))) :: ((Npos (XI (XI (XI (XO (XI (XI
      XH))))))) :: ((Npos (XO (XO (XO (XI (XI (XI XH))))))) :: ((Npos (XI (XO
      (XO (XI (XI (XI XH))))))) :: ((Npos (XO (XI (XO (XI (XI (XI
      XH))))))) :: []))))))))))))))))))))))))))))))))))))))))))))))))))))) :: ((COther,
      ((Npos (XI (XI (XO XH)))) :: ((Npos (XO (XO (XI XH)))) :: ((Npos (XI
      (XO (XO (XO (XO XH)))))) :: ((Npos (XO (XI (XO (XO (XO
      XH)))))) :: ((Npos (XI (XI (XI (XO (XO XH)))))) :: ((Npos (XO (XI (XO
      (XI (XO XH)))))) :: ((Npos (XI (XI (XO (XI (XO XH)))))) :: ((Npos (XO
      (XO (XI (XI (XO XH)))))) :: ((Npos (XI (XO (XI (XI (XO
      XH)))))) :: ((Npos (XO (XI (XI (XI (XO XH)))))) :: ((Npos (XI (XI (XI
      (XI (XO XH)))))) :: ((Npos (XO (XO (XO (XO (XI XH)))))) :: ((Npos (XI
      (XO (XO (XO (XI XH)))))) :: ((Npos (XO (XI (XO (XO (XI
      XH)))))) :: ((Npos (XI (XI (XO (XO (XI XH)))))) :: ((Npos (XO (XO (XI
      (XO (XI XH)))))) :: ((Npos (XI (XO (XI (XO (XI XH)))))) :: ((Npos (XO
      (XI (XI (XO (XI XH)))))) :: ((Npos (XI (XI (XI (XO (XI
      XH)))))) :: ((Npos (XO (XO (XO (XI (XI XH)))))) :: ((Npos (XI (XO (XO
      (XI (XI XH)))))) :: ((Npos (XO (XI (XO (XI (XI XH)))))) :: ((Npos (XI
      (XI (XO (XI (XI XH)))))) :: ((Npos (XO (XO (XI (XI (XI
      XH)))))) :: ((Npos (XI (XO (XI (XI (XI XH)))))) :: ((Npos (XO (XI (XI
      (XI (XI XH)))))) :: ((Npos (XI (XI (XI (XI (XI XH)))))) :: ((Npos (XO
      (XO (XO (XO (XO (XO XH))))))) :: ((Npos (XO (XO (XO (XO (XO (XI
      XH))))))) :: ((Npos (XO (XO (XI (XI (XI (XI
      XH))))))) :: []))))))))))))))))))))))))))))))) :: ((CActive, ((Npos (XO
      (XI (XI (XI (XI (XI XH))))))) :: [])) :: ((CComment, ((Npos (XI (XO (XI
      (XO (XO XH)))))) :: [])) :: ((CInvalid, ((Npos (XI (XI (XI (XI (XI (XI
      XH))))))) :: [])) :: ((CBracketBegin, ((Npos (XI (XI (XO (XI (XI (XO
      XH))))))) :: [])) :: ((CBracketEnd, ((Npos (XI (XO (XI (XI (XI (XO
      XH))))))) :: [])) :: ((CParenBegin, ((Npos (XO (XO (XO (XI (XO
      XH)))))) :: [])) :: ((CParenEnd, ((Npos (XI (XO (XO (XI (XO
      XH)))))) :: [])) :: [])))))))))))))))))))

  (** val cc_value : cc -> n **)

  let cc_value = function
  | CEscape -> Npos XH
  | CGroupBegin -> Npos (XO XH)
  | CGroupEnd -> Npos (XI XH)
  | CMathSwitch -> Npos (XO (XO XH))
  | CAlignment -> Npos (XI (XO XH))
  | CEndOfLine -> Npos (XO (XI XH))
  | CMacro -> Npos (XI (XI XH))
  | CSuperscript -> Npos (XO (XO (XO XH)))
  | CSubscript -> Npos (XI (XO (XO XH)))
  | CIgnored -> Npos (XO (XI (XO XH)))
  | CSpacer -> Npos (XI (XI (XO XH)))
  | CLetter -> Npos (XO (XO (XI XH)))
  | COther -> Npos (XI (XO (XI XH)))
  | CActive -> Npos (XO (XI (XI XH)))
  | CComment -> Npos (XI (XI (XI XH)))
  | CInvalid -> Npos (XO (XO (XO (XO XH))))
  | CMathGroupBegin -> Npos (XI (XO (XO (XO XH))))
  | CMathGroupEnd -> Npos (XO (XI (XO (XO XH))))
  | CBracketBegin -> Npos (XI (XI (XO (XO XH))))
  | CBracketEnd -> Npos (XO (XO (XI (XO XH))))
  | CParenBegin -> Npos (XI (XO (XI (XO XH))))
  | CParenEnd -> Npos (XO (XI (XI (XO XH))))

  (** val tc_value : tc -> n **)

  let tc_value = function
  | TEscape -> Npos (XO (XI (XI (XO XH))))
  | TGroupBegin -> Npos (XI (XI (XI (XO XH))))
  | TGroupEnd -> Npos (XO (XO (XO (XI XH))))
  | TComment -> Npos (XI (XO (XO (XI XH))))
  | TMergedSpacer -> Npos (XO (XI (XO (XI XH))))
  | TEscapedComment -> Npos (XI (XI (XO (XI XH))))
  | TMathSwitch -> Npos (XO (XO (XI (XI XH))))
  | TDisplayMathSwitch -> Npos (XI (XO (XI (XI XH))))
  | TMathGroupBegin -> Npos (XO (XI (XI (XI XH))))
  | TMathGroupEnd -> Npos (XI (XI (XI (XI XH))))
  | TDisplayMathGroupBegin -> Npos (XO (XO (XO (XO (XO XH)))))
  | TDisplayMathGroupEnd -> Npos (XI (XO (XO (XO (XO XH)))))
  | TLineBreak -> Npos (XO (XI (XO (XO (XO XH)))))
  | TCommandName -> Npos (XI (XI (XO (XO (XO XH)))))
  | TText -> Npos (XO (XO (XI (XO (XO XH)))))
  | TBracketBegin -> Npos (XI (XO (XI (XO (XO XH)))))
  | TBracketEnd -> Npos (XO (XI (XI (XO (XO XH)))))
  | TParenBegin -> Npos (XI (XI (XI (XO (XO XH)))))
  | TParenEnd -> Npos (XO (XO (XO (XI (XO XH)))))
  | TPunctuationCommandName -> Npos (XI (XO (XO (XI (XO XH)))))
  | TSizeCommand -> Npos (XO (XI (XO (XI (XO XH)))))
  | TSpacer -> Npos (XI (XI (XO (XI (XO XH)))))

  (** val rule_order : rule_id list **)

  let rule_order =
    R_escaped_symbols :: (R_comment :: (R_math_sym_switch :: (R_math_asym_switch :: (R_line_break :: (R_ignore :: (R_spacers :: (R_symbols :: (R_punctuation_command_name :: (R_command_name :: (R_string :: []))))))))))

  (** val escaped_second_cats : cc list **)

  let escaped_second_cats =
    CEscape :: (CGroupBegin :: (CGroupEnd :: (CMathSwitch :: (CAlignment :: (CEndOfLine :: (CMacro :: (CSuperscript :: (CSubscript :: (CSpacer :: (CActive :: (CComment :: (COther :: []))))))))))))

  (** val asym_map : ((cc * cc) * tc) list **)

  let asym_map =
    ((CEscape, CBracketBegin), TDisplayMathGroupBegin) :: (((CEscape,
      CBracketEnd), TDisplayMathGroupEnd) :: (((CEscape, CParenBegin),
      TMathGroupBegin) :: (((CEscape, CParenEnd), TMathGroupEnd) :: [])))

  (** val ignore_cats : cc list **)

  let ignore_cats =
    CIgnored :: (CInvalid :: [])

  (** val spacer_rollback_cats : cc list **)

  let spacer_rollback_cats =
    CLetter :: (COther :: [])

  (** val symbols_map : (cc * tc) list **)

  let symbols_map =
    (CEscape, TEscape) :: ((CGroupBegin, TGroupBegin) :: ((CGroupEnd,
      TGroupEnd) :: ((CBracketBegin, TBracketBegin) :: ((CBracketEnd,
      TBracketEnd) :: []))))

  (** val string_stop_cats : cc list **)

  let string_stop_cats =
    CEscape :: (CGroupBegin :: (CGroupEnd :: (CMathSwitch :: (CBracketBegin :: (CBracketEnd :: (CComment :: []))))))

  (** val skip_env_names : n list list **)

  let skip_env_names =
    ((Npos (XO (XO (XI (XI (XO (XI XH))))))) :: ((Npos (XI (XI (XO (XO (XI
      (XI XH))))))) :: ((Npos (XO (XO (XI (XO (XI (XI XH))))))) :: ((Npos (XO
      (XO (XI (XI (XO (XI XH))))))) :: ((Npos (XI (XO (XO (XI (XO (XI
      XH))))))) :: ((Npos (XI (XI (XO (XO (XI (XI XH))))))) :: ((Npos (XO (XO
      (XI (XO (XI (XI XH))))))) :: ((Npos (XI (XO (XO (XI (XO (XI
      XH))))))) :: ((Npos (XO (XI (XI (XI (XO (XI XH))))))) :: ((Npos (XI (XI
      (XI (XO (XO (XI XH))))))) :: [])))))))))) :: (((Npos (XO (XI (XI (XO
      (XI (XI XH))))))) :: ((Npos (XI (XO (XI (XO (XO (XI XH))))))) :: ((Npos
      (XO (XI (XO (XO (XI (XI XH))))))) :: ((Npos (XO (XI (XO (XO (XO (XI
      XH))))))) :: ((Npos (XI (XO (XO (XO (XO (XI XH))))))) :: ((Npos (XO (XO
      (XI (XO (XI (XI XH))))))) :: ((Npos (XI (XO (XO (XI (XO (XI
      XH))))))) :: ((Npos (XI (XO (XI (XI (XO (XI
      XH))))))) :: [])))))))) :: (((Npos (XO (XI (XI (XO (XI (XI
      XH))))))) :: ((Npos (XI (XO (XI (XO (XO (XI XH))))))) :: ((Npos (XO (XI
      (XO (XO (XI (XI XH))))))) :: ((Npos (XO (XI (XO (XO (XO (XI
      XH))))))) :: ((Npos (XI (XO (XO (XO (XO (XI XH))))))) :: ((Npos (XO (XO
      (XI (XO (XI (XI XH))))))) :: ((Npos (XI (XO (XO (XI (XO (XI
      XH))))))) :: ((Npos (XI (XO (XI (XI (XO (XI XH))))))) :: ((Npos (XO (XO
      (XI (XO (XI (XI XH))))))) :: ((Npos (XI (XO (XO (XO (XO (XI
      XH))))))) :: ((Npos (XO (XI (XO (XO (XO (XI
      XH))))))) :: []))))))))))) :: (((Npos (XO (XI (XI (XO (XI (XO
      XH))))))) :: ((Npos (XI (XO (XI (XO (XO (XI XH))))))) :: ((Npos (XO (XI
      (XO (XO (XI (XI XH))))))) :: ((Npos (XO (XI (XO (XO (XO (XI
      XH))))))) :: ((Npos (XI (XO (XO (XO (XO (XI XH))))))) :: ((Npos (XO (XO
      (XI (XO (XI (XI XH))))))) :: ((Npos (XI (XO (XO (XI (XO (XI
      XH))))))) :: ((Npos (XI (XO (XI (XI (XO (XI
      XH))))))) :: [])))))))) :: (((Npos (XO (XO (XI (XI (XO (XI
      XH))))))) :: ((Npos (XI (XO (XO (XI (XO (XI XH))))))) :: ((Npos (XI (XI
      (XO (XO (XI (XI XH))))))) :: ((Npos (XO (XO (XI (XO (XI (XI
      XH))))))) :: ((Npos (XI (XO (XO (XI (XO (XI XH))))))) :: ((Npos (XO (XI
      (XI (XI (XO (XI XH))))))) :: ((Npos (XI (XI (XI (XO (XO (XI
      XH))))))) :: []))))))) :: []))))

  (** val math_env_names : n list list **)

  let math_env_names =
    ((Npos (XI (XO (XO (XO (XO (XI XH))))))) :: ((Npos (XO (XO (XI (XI (XO
      (XI XH))))))) :: ((Npos (XI (XO (XO (XI (XO (XI XH))))))) :: ((Npos (XI
      (XI (XI (XO (XO (XI XH))))))) :: ((Npos (XO (XI (XI (XI (XO (XI
      XH))))))) :: []))))) :: (((Npos (XI (XO (XO (XO (XO (XI
      XH))))))) :: ((Npos (XO (XO (XI (XI (XO (XI XH))))))) :: ((Npos (XI (XO
      (XO (XI (XO (XI XH))))))) :: ((Npos (XI (XI (XI (XO (XO (XI
      XH))))))) :: ((Npos (XO (XI (XI (XI (XO (XI XH))))))) :: ((Npos (XO (XI
      (XO (XI (XO XH)))))) :: [])))))) :: (((Npos (XI (XO (XO (XO (XO (XI
      XH))))))) :: ((Npos (XO (XO (XI (XI (XO (XI XH))))))) :: ((Npos (XI (XO
      (XO (XI (XO (XI XH))))))) :: ((Npos (XI (XI (XI (XO (XO (XI
      XH))))))) :: ((Npos (XO (XI (XI (XI (XO (XI XH))))))) :: ((Npos (XI (XO
      (XO (XO (XO (XI XH))))))) :: ((Npos (XO (XO (XI (XO (XI (XI
      XH))))))) :: []))))))) :: (((Npos (XI (XO (XO (XO (XO (XI
      XH))))))) :: ((Npos (XO (XI (XO (XO (XI (XI XH))))))) :: ((Npos (XO (XI
      (XO (XO (XI (XI XH))))))) :: ((Npos (XI (XO (XO (XO (XO (XI
      XH))))))) :: ((Npos (XI (XO (XO (XI (XI (XI
      XH))))))) :: []))))) :: (((Npos (XO (XO (XI (XO (XO (XI
      XH))))))) :: ((Npos (XI (XO (XO (XI (XO (XI XH))))))) :: ((Npos (XI (XI
      (XO (XO (XI (XI XH))))))) :: ((Npos (XO (XO (XO (XO (XI (XI
      XH))))))) :: ((Npos (XO (XO (XI (XI (XO (XI XH))))))) :: ((Npos (XI (XO
      (XO (XO (XO (XI XH))))))) :: ((Npos (XI (XO (XO (XI (XI (XI
      XH))))))) :: ((Npos (XI (XO (XI (XI (XO (XI XH))))))) :: ((Npos (XI (XO
      (XO (XO (XO (XI XH))))))) :: ((Npos (XO (XO (XI (XO (XI (XI
      XH))))))) :: ((Npos (XO (XO (XO (XI (XO (XI
      XH))))))) :: []))))))))))) :: (((Npos (XI (XO (XI (XO (XO (XI
      XH))))))) :: ((Npos (XI (XO (XO (XO (XI (XI XH))))))) :: ((Npos (XO (XI
      (XI (XI (XO (XI XH))))))) :: ((Npos (XI (XO (XO (XO (XO (XI
      XH))))))) :: ((Npos (XO (XI (XO (XO (XI (XI XH))))))) :: ((Npos (XO (XI
      (XO (XO (XI (XI XH))))))) :: ((Npos (XI (XO (XO (XO (XO (XI
      XH))))))) :: ((Npos (XI (XO (XO (XI (XI (XI
      XH))))))) :: [])))))))) :: (((Npos (XI (XO (XI (XO (XO (XI
      XH))))))) :: ((Npos (XI (XO (XO (XO (XI (XI XH))))))) :: ((Npos (XO (XI
      (XI (XI (XO (XI XH))))))) :: ((Npos (XI (XO (XO (XO (XO (XI
      XH))))))) :: ((Npos (XO (XI (XO (XO (XI (XI XH))))))) :: ((Npos (XO (XI
      (XO (XO (XI (XI XH))))))) :: ((Npos (XI (XO (XO (XO (XO (XI
      XH))))))) :: ((Npos (XI (XO (XO (XI (XI (XI XH))))))) :: ((Npos (XO (XI
      (XO (XI (XO XH)))))) :: []))))))))) :: (((Npos (XI (XO (XI (XO (XO (XI
      XH))))))) :: ((Npos (XI (XO (XO (XO (XI (XI XH))))))) :: ((Npos (XI (XO
      (XI (XO (XI (XI XH))))))) :: ((Npos (XI (XO (XO (XO (XO (XI
      XH))))))) :: ((Npos (XO (XO (XI (XO (XI (XI XH))))))) :: ((Npos (XI (XO
      (XO (XI (XO (XI XH))))))) :: ((Npos (XI (XI (XI (XI (XO (XI
      XH))))))) :: ((Npos (XO (XI (XI (XI (XO (XI
      XH))))))) :: [])))))))) :: (((Npos (XI (XO (XI (XO (XO (XI
      XH))))))) :: ((Npos (XI (XO (XO (XO (XI (XI XH))))))) :: ((Npos (XI (XO
      (XI (XO (XI (XI XH))))))) :: ((Npos (XI (XO (XO (XO (XO (XI
      XH))))))) :: ((Npos (XO (XO (XI (XO (XI (XI XH))))))) :: ((Npos (XI (XO
      (XO (XI (XO (XI XH))))))) :: ((Npos (XI (XI (XI (XI (XO (XI
      XH))))))) :: ((Npos (XO (XI (XI (XI (XO (XI XH))))))) :: ((Npos (XO (XI
      (XO (XI (XO XH)))))) :: []))))))))) :: (((Npos (XO (XI (XI (XO (XO (XI
      XH))))))) :: ((Npos (XO (XO (XI (XI (XO (XI XH))))))) :: ((Npos (XI (XO
      (XO (XO (XO (XI XH))))))) :: ((Npos (XO (XO (XI (XI (XO (XI
      XH))))))) :: ((Npos (XI (XO (XO (XI (XO (XI XH))))))) :: ((Npos (XI (XI
      (XI (XO (XO (XI XH))))))) :: ((Npos (XO (XI (XI (XI (XO (XI
      XH))))))) :: []))))))) :: (((Npos (XO (XI (XI (XO (XO (XI
      XH))))))) :: ((Npos (XO (XO (XI (XI (XO (XI XH))))))) :: ((Npos (XI (XO
      (XO (XO (XO (XI XH))))))) :: ((Npos (XO (XO (XI (XI (XO (XI
      XH))))))) :: ((Npos (XI (XO (XO (XI (XO (XI XH))))))) :: ((Npos (XI (XI
      (XI (XO (XO (XI XH))))))) :: ((Npos (XO (XI (XI (XI (XO (XI
      XH))))))) :: ((Npos (XO (XI (XO (XI (XO
      XH)))))) :: [])))))))) :: (((Npos (XI (XI (XI (XO (XO (XI
      XH))))))) :: ((Npos (XI (XO (XO (XO (XO (XI XH))))))) :: ((Npos (XO (XO
      (XI (XO (XI (XI XH))))))) :: ((Npos (XO (XO (XO (XI (XO (XI
      XH))))))) :: ((Npos (XI (XO (XI (XO (XO (XI XH))))))) :: ((Npos (XO (XI
      (XO (XO (XI (XI XH))))))) :: [])))))) :: (((Npos (XI (XI (XI (XO (XO
      (XI XH))))))) :: ((Npos (XI (XO (XO (XO (XO (XI XH))))))) :: ((Npos (XO
      (XO (XI (XO (XI (XI XH))))))) :: ((Npos (XO (XO (XO (XI (XO (XI
      XH))))))) :: ((Npos (XI (XO (XI (XO (XO (XI XH))))))) :: ((Npos (XO (XI
      (XO (XO (XI (XI XH))))))) :: ((Npos (XO (XI (XO (XI (XO
      XH)))))) :: []))))))) :: (((Npos (XI (XO (XI (XI (XO (XI
      XH))))))) :: ((Npos (XI (XO (XO (XO (XO (XI XH))))))) :: ((Npos (XO (XO
      (XI (XO (XI (XI XH))))))) :: ((Npos (XO (XO (XO (XI (XO (XI
      XH))))))) :: [])))) :: (((Npos (XI (XO (XI (XI (XO (XI
      XH))))))) :: ((Npos (XI (XO (XI (XO (XI (XI XH))))))) :: ((Npos (XO (XO
      (XI (XI (XO (XI XH))))))) :: ((Npos (XO (XO (XI (XO (XI (XI
      XH))))))) :: ((Npos (XO (XO (XI (XI (XO (XI XH))))))) :: ((Npos (XI (XO
      (XO (XI (XO (XI XH))))))) :: ((Npos (XO (XI (XI (XI (XO (XI
      XH))))))) :: ((Npos (XI (XO (XI (XO (XO (XI
      XH))))))) :: [])))))))) :: (((Npos (XI (XO (XI (XI (XO (XI
      XH))))))) :: ((Npos (XI (XO (XI (XO (XI (XI XH))))))) :: ((Npos (XO (XO
      (XI (XI (XO (XI XH))))))) :: ((Npos (XO (XO (XI (XO (XI (XI
      XH))))))) :: ((Npos (XO (XO (XI (XI (XO (XI XH))))))) :: ((Npos (XI (XO
      (XO (XI (XO (XI XH))))))) :: ((Npos (XO (XI (XI (XI (XO (XI
      XH))))))) :: ((Npos (XI (XO (XI (XO (XO (XI XH))))))) :: ((Npos (XO (XI
      (XO (XI (XO XH)))))) :: []))))))))) :: (((Npos (XI (XI (XO (XO (XI (XI
      XH))))))) :: ((Npos (XO (XO (XO (XO (XI (XI XH))))))) :: ((Npos (XO (XO
      (XI (XI (XO (XI XH))))))) :: ((Npos (XI (XO (XO (XI (XO (XI
      XH))))))) :: ((Npos (XO (XO (XI (XO (XI (XI
      XH))))))) :: []))))) :: []))))))))))))))))

  (** val special_commands : n list list **)

  let special_commands =
    ((Npos (XO (XI (XI (XI (XO (XI XH))))))) :: ((Npos (XI (XO (XI (XO (XO
      (XI XH))))))) :: ((Npos (XI (XI (XI (XO (XI (XI XH))))))) :: ((Npos (XI
      (XI (XO (XO (XO (XI XH))))))) :: ((Npos (XI (XI (XI (XI (XO (XI
      XH))))))) :: ((Npos (XI (XO (XI (XI (XO (XI XH))))))) :: ((Npos (XI (XO
      (XI (XI (XO (XI XH))))))) :: ((Npos (XI (XO (XO (XO (XO (XI
      XH))))))) :: ((Npos (XO (XI (XI (XI (XO (XI XH))))))) :: ((Npos (XO (XO
      (XI (XO (XO (XI XH))))))) :: [])))))))))) :: (((Npos (XO (XO (XO (XO
      (XI (XI XH))))))) :: ((Npos (XO (XI (XO (XO (XI (XI XH))))))) :: ((Npos
      (XI (XI (XI (XI (XO (XI XH))))))) :: ((Npos (XO (XI (XI (XO (XI (XI
      XH))))))) :: ((Npos (XI (XO (XO (XI (XO (XI XH))))))) :: ((Npos (XO (XO
      (XI (XO (XO (XI XH))))))) :: ((Npos (XI (XO (XI (XO (XO (XI
      XH))))))) :: ((Npos (XI (XI (XO (XO (XO (XI XH))))))) :: ((Npos (XI (XI
      (XI (XI (XO (XI XH))))))) :: ((Npos (XI (XO (XI (XI (XO (XI
      XH))))))) :: ((Npos (XI (XO (XI (XI (XO (XI XH))))))) :: ((Npos (XI (XO
      (XO (XO (XO (XI XH))))))) :: ((Npos (XO (XI (XI (XI (XO (XI
      XH))))))) :: ((Npos (XO (XO (XI (XO (XO (XI
      XH))))))) :: [])))))))))))))) :: (((Npos (XO (XI (XO (XO (XI (XI
      XH))))))) :: ((Npos (XI (XO (XI (XO (XO (XI XH))))))) :: ((Npos (XO (XI
      (XI (XI (XO (XI XH))))))) :: ((Npos (XI (XO (XI (XO (XO (XI
      XH))))))) :: ((Npos (XI (XI (XI (XO (XI (XI XH))))))) :: ((Npos (XI (XI
      (XO (XO (XO (XI XH))))))) :: ((Npos (XI (XI (XI (XI (XO (XI
      XH))))))) :: ((Npos (XI (XO (XI (XI (XO (XI XH))))))) :: ((Npos (XI (XO
      (XI (XI (XO (XI XH))))))) :: ((Npos (XI (XO (XO (XO (XO (XI
      XH))))))) :: ((Npos (XO (XI (XI (XI (XO (XI XH))))))) :: ((Npos (XO (XO
      (XI (XO (XO (XI XH))))))) :: [])))))))))))) :: []))

  (** val punctuation_commands : n list list **)

  let punctuation_commands =
    ((Npos (XO (XI (XO (XO (XO (XO XH))))))) :: ((Npos (XI (XO (XO (XI (XO
      (XI XH))))))) :: ((Npos (XI (XI (XI (XO (XO (XI XH))))))) :: ((Npos (XO
      (XO (XO (XI (XO XH)))))) :: [])))) :: (((Npos (XO (XI (XO (XO (XO (XO
      XH))))))) :: ((Npos (XI (XO (XO (XI (XO (XI XH))))))) :: ((Npos (XI (XI
      (XI (XO (XO (XI XH))))))) :: ((Npos (XI (XO (XO (XI (XO
      XH)))))) :: [])))) :: (((Npos (XO (XI (XO (XO (XO (XO
      XH))))))) :: ((Npos (XI (XO (XO (XI (XO (XI XH))))))) :: ((Npos (XI (XI
      (XI (XO (XO (XI XH))))))) :: ((Npos (XO (XI (XI (XI (XO
      XH)))))) :: [])))) :: (((Npos (XO (XI (XO (XO (XO (XO
      XH))))))) :: ((Npos (XI (XO (XO (XI (XO (XI XH))))))) :: ((Npos (XI (XI
      (XI (XO (XO (XI XH))))))) :: ((Npos (XO (XO (XI (XI (XI
      XH)))))) :: [])))) :: (((Npos (XO (XI (XO (XO (XO (XO
      XH))))))) :: ((Npos (XI (XO (XO (XI (XO (XI XH))))))) :: ((Npos (XI (XI
      (XI (XO (XO (XI XH))))))) :: ((Npos (XO (XI (XI (XI (XI
      XH)))))) :: [])))) :: (((Npos (XO (XI (XO (XO (XO (XO
      XH))))))) :: ((Npos (XI (XO (XO (XI (XO (XI XH))))))) :: ((Npos (XI (XI
      (XI (XO (XO (XI XH))))))) :: ((Npos (XI (XI (XO (XI (XI (XO
      XH))))))) :: [])))) :: (((Npos (XO (XI (XO (XO (XO (XO
      XH))))))) :: ((Npos (XI (XO (XO (XI (XO (XI XH))))))) :: ((Npos (XI (XI
      (XI (XO (XO (XI XH))))))) :: ((Npos (XO (XO (XI (XI (XI (XO
      XH))))))) :: ((Npos (XO (XO (XI (XI (XO (XI XH))))))) :: ((Npos (XI (XO
      (XO (XO (XO (XI XH))))))) :: ((Npos (XO (XI (XI (XI (XO (XI
      XH))))))) :: ((Npos (XI (XI (XI (XO (XO (XI XH))))))) :: ((Npos (XO (XO
      (XI (XI (XO (XI XH))))))) :: ((Npos (XI (XO (XI (XO (XO (XI
      XH))))))) :: [])))))))))) :: (((Npos (XO (XI (XO (XO (XO (XO
      XH))))))) :: ((Npos (XI (XO (XO (XI (XO (XI XH))))))) :: ((Npos (XI (XI
      (XI (XO (XO (XI XH))))))) :: ((Npos (XO (XO (XI (XI (XI (XO
      XH))))))) :: ((Npos (XO (XO (XI (XI (XO (XI XH))))))) :: ((Npos (XO (XI
      (XO (XO (XO (XI XH))))))) :: ((Npos (XO (XI (XO (XO (XI (XI
      XH))))))) :: ((Npos (XI (XO (XO (XO (XO (XI XH))))))) :: ((Npos (XI (XI
      (XO (XO (XO (XI XH))))))) :: ((Npos (XI (XI (XO (XI (XO (XI
      XH))))))) :: [])))))))))) :: (((Npos (XO (XI (XO (XO (XO (XO
      XH))))))) :: ((Npos (XI (XO (XO (XI (XO (XI XH))))))) :: ((Npos (XI (XI
      (XI (XO (XO (XI XH))))))) :: ((Npos (XO (XO (XI (XI (XI (XO
      XH))))))) :: ((Npos (XO (XO (XI (XI (XO (XI XH))))))) :: ((Npos (XI (XI
      (XO (XO (XO (XI XH))))))) :: ((Npos (XI (XO (XI (XO (XO (XI
      XH))))))) :: ((Npos (XI (XO (XO (XI (XO (XI XH))))))) :: ((Npos (XO (XO
      (XI (XI (XO (XI XH))))))) :: []))))))))) :: (((Npos (XO (XI (XO (XO (XO
      (XO XH))))))) :: ((Npos (XI (XO (XO (XI (XO (XI XH))))))) :: ((Npos (XI
      (XI (XI (XO (XO (XI XH))))))) :: ((Npos (XO (XO (XI (XI (XI (XO
      XH))))))) :: ((Npos (XO (XO (XI (XI (XO (XI XH))))))) :: ((Npos (XO (XI
      (XI (XO (XO (XI XH))))))) :: ((Npos (XO (XO (XI (XI (XO (XI
      XH))))))) :: ((Npos (XI (XI (XI (XI (XO (XI XH))))))) :: ((Npos (XI (XI
      (XI (XI (XO (XI XH))))))) :: ((Npos (XO (XI (XO (XO (XI (XI
      XH))))))) :: [])))))))))) :: (((Npos (XO (XI (XO (XO (XO (XO
      XH))))))) :: ((Npos (XI (XO (XO (XI (XO (XI XH))))))) :: ((Npos (XI (XI
      (XI (XO (XO (XI XH))))))) :: ((Npos (XO (XO (XI (XI (XI (XO
      XH))))))) :: ((Npos (XO (XI (XO (XO (XI (XI XH))))))) :: ((Npos (XI (XO
      (XO (XO (XO (XI XH))))))) :: ((Npos (XO (XI (XI (XI (XO (XI
      XH))))))) :: ((Npos (XI (XI (XI (XO (XO (XI XH))))))) :: ((Npos (XO (XO
      (XI (XI (XO (XI XH))))))) :: ((Npos (XI (XO (XI (XO (XO (XI
      XH))))))) :: [])))))))))) :: (((Npos (XO (XI (XO (XO (XO (XO
      XH))))))) :: ((Npos (XI (XO (XO (XI (XO (XI XH))))))) :: ((Npos (XI (XI
      (XI (XO (XO (XI XH))))))) :: ((Npos (XO (XO (XI (XI (XI (XO
      XH))))))) :: ((Npos (XO (XI (XO (XO (XI (XI XH))))))) :: ((Npos (XO (XI
      (XO (XO (XO (XI XH))))))) :: ((Npos (XO (XI (XO (XO (XI (XI
      XH))))))) :: ((Npos (XI (XO (XO (XO (XO (XI XH))))))) :: ((Npos (XI (XI
      (XO (XO (XO (XI XH))))))) :: ((Npos (XI (XI (XO (XI (XO (XI
      XH))))))) :: [])))))))))) :: (((Npos (XO (XI (XO (XO (XO (XO
      XH))))))) :: ((Npos (XI (XO (XO (XI (XO (XI XH))))))) :: ((Npos (XI (XI
      (XI (XO (XO (XI XH))))))) :: ((Npos (XO (XO (XI (XI (XI (XO
      XH))))))) :: ((Npos (XO (XI (XO (XO (XI (XI XH))))))) :: ((Npos (XI (XI
      (XO (XO (XO (XI XH))))))) :: ((Npos (XI (XO (XI (XO (XO (XI
      XH))))))) :: ((Npos (XI (XO (XO (XI (XO (XI XH))))))) :: ((Npos (XO (XO
      (XI (XI (XO (XI XH))))))) :: []))))))))) :: (((Npos (XO (XI (XO (XO (XO
      (XO XH))))))) :: ((Npos (XI (XO (XO (XI (XO (XI XH))))))) :: ((Npos (XI
      (XI (XI (XO (XO (XI XH))))))) :: ((Npos (XO (XO (XI (XI (XI (XO
      XH))))))) :: ((Npos (XO (XI (XO (XO (XI (XI XH))))))) :: ((Npos (XO (XI
      (XI (XO (XO (XI XH))))))) :: ((Npos (XO (XO (XI (XI (XO (XI
      XH))))))) :: ((Npos (XI (XI (XI (XI (XO (XI XH))))))) :: ((Npos (XI (XI
      (XI (XI (XO (XI XH))))))) :: ((Npos (XO (XI (XO (XO (XI (XI
      XH))))))) :: [])))))))))) :: (((Npos (XO (XI (XO (XO (XO (XO
      XH))))))) :: ((Npos (XI (XO (XO (XI (XO (XI XH))))))) :: ((Npos (XI (XI
      (XI (XO (XO (XI XH))))))) :: ((Npos (XO (XO (XI (XI (XI (XO
      XH))))))) :: ((Npos (XI (XO (XI (XO (XI (XI XH))))))) :: ((Npos (XO (XO
      (XI (XI (XO (XI XH))))))) :: ((Npos (XI (XI (XO (XO (XO (XI
      XH))))))) :: ((Npos (XI (XI (XI (XI (XO (XI XH))))))) :: ((Npos (XO (XI
      (XO (XO (XI (XI XH))))))) :: ((Npos (XO (XI (XI (XI (XO (XI
      XH))))))) :: ((Npos (XI (XO (XI (XO (XO (XI XH))))))) :: ((Npos (XO (XI
      (XO (XO (XI (XI XH))))))) :: [])))))))))))) :: (((Npos (XO (XI (XO (XO
      (XO (XO XH))))))) :: ((Npos (XI (XO (XO (XI (XO (XI XH))))))) :: ((Npos
      (XI (XI (XI (XO (XO (XI XH))))))) :: ((Npos (XO (XO (XI (XI (XI (XO
      XH))))))) :: ((Npos (XI (XO (XI (XO (XI (XI XH))))))) :: ((Npos (XO (XI
      (XO (XO (XI (XI XH))))))) :: ((Npos (XI (XI (XO (XO (XO (XI
      XH))))))) :: ((Npos (XI (XI (XI (XI (XO (XI XH))))))) :: ((Npos (XO (XI
      (XO (XO (XI (XI XH))))))) :: ((Npos (XO (XI (XI (XI (XO (XI
      XH))))))) :: ((Npos (XI (XO (XI (XO (XO (XI XH))))))) :: ((Npos (XO (XI
      (XO (XO (XI (XI XH))))))) :: [])))))))))))) :: (((Npos (XO (XI (XO (XO
      (XO (XO XH))))))) :: ((Npos (XI (XO (XO (XI (XO (XI XH))))))) :: ((Npos
      (XI (XI (XI (XO (XO (XI XH))))))) :: ((Npos (XO (XO (XI (XI (XI (XO
      XH))))))) :: ((Npos (XI (XI (XO (XI (XI (XI
      XH))))))) :: []))))) :: (((Npos (XO (XI (XO (XO (XO (XO
      XH))))))) :: ((Npos (XI (XO (XO (XI (XO (XI XH))))))) :: ((Npos (XI (XI
      (XI (XO (XO (XI XH))))))) :: ((Npos (XO (XO (XI (XI (XI (XO
      XH))))))) :: ((Npos (XI (XO (XI (XI (XI (XI
      XH))))))) :: []))))) :: (((Npos (XO (XI (XO (XO (XO (XO
      XH))))))) :: ((Npos (XI (XO (XO (XI (XO (XI XH))))))) :: ((Npos (XI (XI
      (XI (XO (XO (XI XH))))))) :: ((Npos (XI (XO (XI (XI (XI (XO
      XH))))))) :: [])))) :: (((Npos (XO (XI (XO (XO (XO (XO
      XH))))))) :: ((Npos (XI (XO (XO (XI (XO (XI XH))))))) :: ((Npos (XI (XI
      (XI (XO (XO (XI XH))))))) :: ((Npos (XI (XI (XI (XO (XO (XI
      XH))))))) :: ((Npos (XO (XO (XO (XI (XO XH)))))) :: []))))) :: (((Npos
      (XO (XI (XO (XO (XO (XO XH))))))) :: ((Npos (XI (XO (XO (XI (XO (XI
      XH))))))) :: ((Npos (XI (XI (XI (XO (XO (XI XH))))))) :: ((Npos (XI (XI
      (XI (XO (XO (XI XH))))))) :: ((Npos (XI (XO (XO (XI (XO
      XH)))))) :: []))))) :: (((Npos (XO (XI (XO (XO (XO (XO
      XH))))))) :: ((Npos (XI (XO (XO (XI (XO (XI XH))))))) :: ((Npos (XI (XI
      (XI (XO (XO (XI XH))))))) :: ((Npos (XI (XI (XI (XO (XO (XI
      XH))))))) :: ((Npos (XO (XI (XI (XI (XO XH)))))) :: []))))) :: (((Npos
      (XO (XI (XO (XO (XO (XO XH))))))) :: ((Npos (XI (XO (XO (XI (XO (XI
      XH))))))) :: ((Npos (XI (XI (XI (XO (XO (XI XH))))))) :: ((Npos (XI (XI
      (XI (XO (XO (XI XH))))))) :: ((Npos (XO (XO (XI (XI (XI
      XH)))))) :: []))))) :: (((Npos (XO (XI (XO (XO (XO (XO
      XH))))))) :: ((Npos (XI (XO (XO (XI (XO (XI XH))))))) :: ((Npos (XI (XI
      (XI (XO (XO (XI XH))))))) :: ((Npos (XI (XI (XI (XO (XO (XI
      XH))))))) :: ((Npos (XO (XI (XI (XI (XI XH)))))) :: []))))) :: (((Npos
      (XO (XI (XO (XO (XO (XO XH))))))) :: ((Npos (XI (XO (XO (XI (XO (XI
      XH))))))) :: ((Npos (XI (XI (XI (XO (XO (XI XH))))))) :: ((Npos (XI (XI
      (XI (XO (XO (XI XH))))))) :: ((Npos (XI (XI (XO (XI (XI (XO
      XH))))))) :: []))))) :: (((Npos (XO (XI (XO (XO (XO (XO
      XH))))))) :: ((Npos (XI (XO (XO (XI (XO (XI XH))))))) :: ((Npos (XI (XI
      (XI (XO (XO (XI XH))))))) :: ((Npos (XI (XI (XI (XO (XO (XI
      XH))))))) :: ((Npos (XO (XO (XI (XI (XI (XO XH))))))) :: ((Npos (XO (XO
      (XI (XI (XO (XI XH))))))) :: ((Npos (XI (XO (XO (XO (XO (XI
      XH))))))) :: ((Npos (XO (XI (XI (XI (XO (XI XH))))))) :: ((Npos (XI (XI
      (XI (XO (XO (XI XH))))))) :: ((Npos (XO (XO (XI (XI (XO (XI
      XH))))))) :: ((Npos (XI (XO (XI (XO (XO (XI
      XH))))))) :: []))))))))))) :: (((Npos (XO (XI (XO (XO (XO (XO
      XH))))))) :: ((Npos (XI (XO (XO (XI (XO (XI XH))))))) :: ((Npos (XI (XI
      (XI (XO (XO (XI XH))))))) :: ((Npos (XI (XI (XI (XO (XO (XI
      XH))))))) :: ((Npos (XO (XO (XI (XI (XI (XO XH))))))) :: ((Npos (XO (XO
      (XI (XI (XO (XI XH))))))) :: ((Npos (XO (XI (XO (XO (XO (XI
      XH))))))) :: ((Npos (XO (XI (XO (XO (XI (XI XH))))))) :: ((Npos (XI (XO
      (XO (XO (XO (XI XH))))))) :: ((Npos (XI (XI (XO (XO (XO (XI
      XH))))))) :: ((Npos (XI (XI (XO (XI (XO (XI
      XH))))))) :: []))))))))))) :: (((Npos (XO (XI (XO (XO (XO (XO
      XH))))))) :: ((Npos (XI (XO (XO (XI (XO (XI XH))))))) :: ((Npos (XI (XI
      (XI (XO (XO (XI XH))))))) :: ((Npos (XI (XI (XI (XO (XO (XI
      XH))))))) :: ((Npos (XO (XO (XI (XI (XI (XO XH))))))) :: ((Npos (XO (XO
      (XI (XI (XO (XI XH))))))) :: ((Npos (XI (XI (XO (XO (XO (XI
      XH))))))) :: ((Npos (XI (XO (XI (XO (XO (XI XH))))))) :: ((Npos (XI (XO
      (XO (XI (XO (XI XH))))))) :: ((Npos (XO (XO (XI (XI (XO (XI
      XH))))))) :: [])))))))))) :: (((Npos (XO (XI (XO (XO (XO (XO
      XH))))))) :: ((Npos (XI (XO (XO (XI (XO (XI XH))))))) :: ((Npos (XI (XI
      (XI (XO (XO (XI XH))))))) :: ((Npos (XI (XI (XI (XO (XO (XI
      XH))))))) :: ((Npos (XO (XO (XI (XI (XI (XO XH))))))) :: ((Npos (XO (XO
      (XI (XI (XO (XI XH))))))) :: ((Npos (XO (XI (XI (XO (XO (XI
      XH))))))) :: ((Npos (XO (XO (XI (XI (XO (XI XH))))))) :: ((Npos (XI (XI
      (XI (XI (XO (XI XH))))))) :: ((Npos (XI (XI (XI (XI (XO (XI
      XH))))))) :: ((Npos (XO (XI (XO (XO (XI (XI
      XH))))))) :: []))))))))))) :: (((Npos (XO (XI (XO (XO (XO (XO
      XH))))))) :: ((Npos (XI (XO (XO (XI (XO (XI XH))))))) :: ((Npos (XI (XI
      (XI (XO (XO (XI XH))))))) :: ((Npos (XI (XI (XI (XO (XO (XI
      XH))))))) :: ((Npos (XO (XO (XI (XI (XI (XO XH))))))) :: ((Npos (XO (XI
      (XO (XO (XI (XI XH))))))) :: ((Npos (XI (XO (XO (XO (XO (XI
      XH))))))) :: ((Npos (XO (XI (XI (XI (XO (XI XH))))))) :: ((Npos (XI (XI
      (XI (XO (XO (XI XH))))))) :: ((Npos (XO (XO (XI (XI (XO (XI
      XH))))))) :: ((Npos (XI (XO (XI (XO (XO (XI
      XH))))))) :: []))))))))))) :: (((Npos (XO (XI (XO (XO (XO (XO
      XH))))))) :: ((Npos (XI (XO (XO (XI (XO (XI XH))))))) :: ((Npos (XI (XI
      (XI (XO (XO (XI XH))))))) :: ((Npos (XI (XI (XI (XO (XO (XI
      XH))))))) :: ((Npos (XO (XO (XI (XI (XI (XO XH))))))) :: ((Npos (XO (XI
      (XO (XO (XI (XI XH))))))) :: ((Npos (XO (XI (XO (XO (XO (XI
      XH))))))) :: ((Npos (XO (XI (XO (XO (XI (XI XH))))))) :: ((Npos (XI (XO
      (XO (XO (XO (XI XH))))))) :: ((Npos (XI (XI (XO (XO (XO (XI
      XH))))))) :: ((Npos (XI (XI (XO (XI (XO (XI
      XH))))))) :: []))))))))))) :: (((Npos (XO (XI (XO (XO (XO (XO
      XH))))))) :: ((Npos (XI (XO (XO (XI (XO (XI XH))))))) :: ((Npos (XI (XI
      (XI (XO (XO (XI XH))))))) :: ((Npos (XI (XI (XI (XO (XO (XI
      XH))))))) :: ((Npos (XO (XO (XI (XI (XI (XO XH))))))) :: ((Npos (XO (XI
      (XO (XO (XI (XI XH))))))) :: ((Npos (XI (XI (XO (XO (XO (XI
      XH))))))) :: ((Npos (XI (XO (XI (XO (XO (XI XH))))))) :: ((Npos (XI (XO
      (XO (XI (XO (XI XH))))))) :: ((Npos (XO (XO (XI (XI (XO (XI
      XH))))))) :: [])))))))))) :: (((Npos (XO (XI (XO (XO (XO (XO
      XH))))))) :: ((Npos (XI (XO (XO (XI (XO (XI XH))))))) :: ((Npos (XI (XI
      (XI (XO (XO (XI XH))))))) :: ((Npos (XI (XI (XI (XO (XO (XI
      XH))))))) :: ((Npos (XO (XO (XI (XI (XI (XO XH))))))) :: ((Npos (XO (XI
      (XO (XO (XI (XI XH))))))) :: ((Npos (XO (XI (XI (XO (XO (XI
      XH))))))) :: ((Npos (XO (XO (XI (XI (XO (XI XH))))))) :: ((Npos (XI (XI
      (XI (XI (XO (XI XH))))))) :: ((Npos (XI (XI (XI (XI (XO (XI
      XH))))))) :: ((Npos (XO (XI (XO (XO (XI (XI
      XH))))))) :: []))))))))))) :: (((Npos (XO (XI (XO (XO (XO (XO
      XH))))))) :: ((Npos (XI (XO (XO (XI (XO (XI XH))))))) :: ((Npos (XI (XI
      (XI (XO (XO (XI XH))))))) :: ((Npos (XI (XI (XI (XO (XO (XI
      XH))))))) :: ((Npos (XO (XO (XI (XI (XI (XO XH))))))) :: ((Npos (XI (XO
      (XI (XO (XI (XI XH))))))) :: ((Npos (XO (XO (XI (XI (XO (XI
      XH))))))) :: ((Npos (XI (XI (XO (XO (XO (XI XH))))))) :: ((Npos (XI (XI
      (XI (XI (XO (XI XH))))))) :: ((Npos (XO (XI (XO (XO (XI (XI
      XH))))))) :: ((Npos (XO (XI (XI (XI (XO (XI XH))))))) :: ((Npos (XI (XO
      (XI (XO (XO (XI XH))))))) :: ((Npos (XO (XI (XO (XO (XI (XI
      XH))))))) :: []))))))))))))) :: (((Npos (XO (XI (XO (XO (XO (XO
      XH))))))) :: ((Npos (XI (XO (XO (XI (XO (XI XH))))))) :: ((Npos (XI (XI
      (XI (XO (XO (XI XH))))))) :: ((Npos (XI (XI (XI (XO (XO (XI
      XH))))))) :: ((Npos (XO (XO (XI (XI (XI (XO XH))))))) :: ((Npos (XI (XO
      (XI (XO (XI (XI XH))))))) :: ((Npos (XO (XI (XO (XO (XI (XI
      XH))))))) :: ((Npos (XI (XI (XO (XO (XO (XI XH))))))) :: ((Npos (XI (XI
      (XI (XI (XO (XI XH))))))) :: ((Npos (XO (XI (XO (XO (XI (XI
      XH))))))) :: ((Npos (XO (XI (XI (XI (XO (XI XH))))))) :: ((Npos (XI (XO
      (XI (XO (XO (XI XH))))))) :: ((Npos (XO (XI (XO (XO (XI (XI
      XH))))))) :: []))))))))))))) :: (((Npos (XO (XI (XO (XO (XO (XO
      XH))))))) :: ((Npos (XI (XO (XO (XI (XO (XI XH))))))) :: ((Npos (XI (XI
      (XI (XO (XO (XI XH))))))) :: ((Npos (XI (XI (XI (XO (XO (XI
      XH))))))) :: ((Npos (XO (XO (XI (XI (XI (XO XH))))))) :: ((Npos (XI (XI
      (XO (XI (XI (XI XH))))))) :: [])))))) :: (((Npos (XO (XI (XO (XO (XO
      (XO XH))))))) :: ((Npos (XI (XO (XO (XI (XO (XI XH))))))) :: ((Npos (XI
      (XI (XI (XO (XO (XI XH))))))) :: ((Npos (XI (XI (XI (XO (XO (XI
      XH))))))) :: ((Npos (XO (XO (XI (XI (XI (XO XH))))))) :: ((Npos (XI (XO
      (XI (XI (XI (XI XH))))))) :: [])))))) :: (((Npos (XO (XI (XO (XO (XO
      (XO XH))))))) :: ((Npos (XI (XO (XO (XI (XO (XI XH))))))) :: ((Npos (XI
      (XI (XI (XO (XO (XI XH))))))) :: ((Npos (XI (XI (XI (XO (XO (XI
      XH))))))) :: ((Npos (XI (XO (XI (XI (XI (XO
      XH))))))) :: []))))) :: (((Npos (XO (XI (XO (XO (XO (XO
      XH))))))) :: ((Npos (XI (XO (XO (XI (XO (XI XH))))))) :: ((Npos (XI (XI
      (XI (XO (XO (XI XH))))))) :: ((Npos (XI (XI (XI (XO (XO (XI
      XH))))))) :: ((Npos (XI (XI (XO (XI (XI (XI
      XH))))))) :: []))))) :: (((Npos (XO (XI (XO (XO (XO (XO
      XH))))))) :: ((Npos (XI (XO (XO (XI (XO (XI XH))))))) :: ((Npos (XI (XI
      (XI (XO (XO (XI XH))))))) :: ((Npos (XI (XI (XI (XO (XO (XI
      XH))))))) :: ((Npos (XO (XO (XI (XI (XI (XI
      XH))))))) :: []))))) :: (((Npos (XO (XI (XO (XO (XO (XO
      XH))))))) :: ((Npos (XI (XO (XO (XI (XO (XI XH))))))) :: ((Npos (XI (XI
      (XI (XO (XO (XI XH))))))) :: ((Npos (XI (XI (XI (XO (XO (XI
      XH))))))) :: ((Npos (XI (XO (XI (XI (XI (XI
      XH))))))) :: []))))) :: (((Npos (XO (XI (XO (XO (XO (XO
      XH))))))) :: ((Npos (XI (XO (XO (XI (XO (XI XH))))))) :: ((Npos (XI (XI
      (XI (XO (XO (XI XH))))))) :: ((Npos (XI (XI (XO (XI (XI (XI
      XH))))))) :: [])))) :: (((Npos (XO (XI (XO (XO (XO (XO
      XH))))))) :: ((Npos (XI (XO (XO (XI (XO (XI XH))))))) :: ((Npos (XI (XI
      (XI (XO (XO (XI XH))))))) :: ((Npos (XO (XO (XI (XI (XI (XI
      XH))))))) :: [])))) :: (((Npos (XO (XI (XO (XO (XO (XO
      XH))))))) :: ((Npos (XI (XO (XO (XI (XO (XI XH))))))) :: ((Npos (XI (XI
      (XI (XO (XO (XI XH))))))) :: ((Npos (XI (XO (XI (XI (XI (XI
      XH))))))) :: [])))) :: (((Npos (XO (XI (XO (XO (XO (XI
      XH))))))) :: ((Npos (XI (XO (XO (XI (XO (XI XH))))))) :: ((Npos (XI (XI
      (XI (XO (XO (XI XH))))))) :: ((Npos (XO (XO (XO (XI (XO
      XH)))))) :: [])))) :: (((Npos (XO (XI (XO (XO (XO (XI
      XH))))))) :: ((Npos (XI (XO (XO (XI (XO (XI XH))))))) :: ((Npos (XI (XI
      (XI (XO (XO (XI XH))))))) :: ((Npos (XI (XO (XO (XI (XO
      XH)))))) :: [])))) :: (((Npos (XO (XI (XO (XO (XO (XI
      XH))))))) :: ((Npos (XI (XO (XO (XI (XO (XI XH))))))) :: ((Npos (XI (XI
      (XI (XO (XO (XI XH))))))) :: ((Npos (XO (XI (XI (XI (XO
      XH)))))) :: [])))) :: (((Npos (XO (XI (XO (XO (XO (XI
      XH))))))) :: ((Npos (XI (XO (XO (XI (XO (XI XH))))))) :: ((Npos (XI (XI
      (XI (XO (XO (XI XH))))))) :: ((Npos (XO (XO (XI (XI (XI
      XH)))))) :: [])))) :: (((Npos (XO (XI (XO (XO (XO (XI
      XH))))))) :: ((Npos (XI (XO (XO (XI (XO (XI XH))))))) :: ((Npos (XI (XI
      (XI (XO (XO (XI XH))))))) :: ((Npos (XO (XI (XI (XI (XI
      XH)))))) :: [])))) :: (((Npos (XO (XI (XO (XO (XO (XI
      XH))))))) :: ((Npos (XI (XO (XO (XI (XO (XI XH))))))) :: ((Npos (XI (XI
      (XI (XO (XO (XI XH))))))) :: ((Npos (XI (XI (XO (XI (XI (XO
      XH))))))) :: [])))) :: (((Npos (XO (XI (XO (XO (XO (XI
      XH))))))) :: ((Npos (XI (XO (XO (XI (XO (XI XH))))))) :: ((Npos (XI (XI
      (XI (XO (XO (XI XH))))))) :: ((Npos (XO (XO (XI (XI (XI (XO
      XH))))))) :: ((Npos (XO (XO (XI (XI (XO (XI XH))))))) :: ((Npos (XI (XO
      (XO (XO (XO (XI XH))))))) :: ((Npos (XO (XI (XI (XI (XO (XI
      XH))))))) :: ((Npos (XI (XI (XI (XO (XO (XI XH))))))) :: ((Npos (XO (XO
      (XI (XI (XO (XI XH))))))) :: ((Npos (XI (XO (XI (XO (XO (XI
      XH))))))) :: [])))))))))) :: (((Npos (XO (XI (XO (XO (XO (XI
      XH))))))) :: ((Npos (XI (XO (XO (XI (XO (XI XH))))))) :: ((Npos (XI (XI
      (XI (XO (XO (XI XH))))))) :: ((Npos (XO (XO (XI (XI (XI (XO
      XH))))))) :: ((Npos (XO (XO (XI (XI (XO (XI XH))))))) :: ((Npos (XO (XI
      (XO (XO (XO (XI XH))))))) :: ((Npos (XO (XI (XO (XO (XI (XI
      XH))))))) :: ((Npos (XI (XO (XO (XO (XO (XI XH))))))) :: ((Npos (XI (XI
      (XO (XO (XO (XI XH))))))) :: ((Npos (XI (XI (XO (XI (XO (XI
      XH))))))) :: [])))))))))) :: (((Npos (XO (XI (XO (XO (XO (XI
      XH))))))) :: ((Npos (XI (XO (XO (XI (XO (XI XH))))))) :: ((Npos (XI (XI
      (XI (XO (XO (XI XH))))))) :: ((Npos (XO (XO (XI (XI (XI (XO
      XH))))))) :: ((Npos (XO (XO (XI (XI (XO (XI XH))))))) :: ((Npos (XI (XI
      (XO (XO (XO (XI XH))))))) :: ((Npos (XI (XO (XI (XO (XO (XI
      XH))))))) :: ((Npos (XI (XO (XO (XI (XO (XI XH))))))) :: ((Npos (XO (XO
      (XI (XI (XO (XI XH))))))) :: []))))))))) :: (((Npos (XO (XI (XO (XO (XO
      (XI XH))))))) :: ((Npos (XI (XO (XO (XI (XO (XI XH))))))) :: ((Npos (XI
      (XI (XI (XO (XO (XI XH))))))) :: ((Npos (XO (XO (XI (XI (XI (XO
      XH))))))) :: ((Npos (XO (XO (XI (XI (XO (XI XH))))))) :: ((Npos (XO (XI
      (XI (XO (XO (XI XH))))))) :: ((Npos (XO (XO (XI (XI (XO (XI
      XH))))))) :: ((Npos (XI (XI (XI (XI (XO (XI XH))))))) :: ((Npos (XI (XI
      (XI (XI (XO (XI XH))))))) :: ((Npos (XO (XI (XO (XO (XI (XI
      XH))))))) :: [])))))))))) :: (((Npos (XO (XI (XO (XO (XO (XI
      XH))))))) :: ((Npos (XI (XO (XO (XI (XO (XI XH))))))) :: ((Npos (XI (XI
      (XI (XO (XO (XI XH))))))) :: ((Npos (XO (XO (XI (XI (XI (XO
      XH))))))) :: ((Npos (XO (XI (XO (XO (XI (XI XH))))))) :: ((Npos (XI (XO
      (XO (XO (XO (XI XH))))))) :: ((Npos (XO (XI (XI (XI (XO (XI
      XH))))))) :: ((Npos (XI (XI (XI (XO (XO (XI XH))))))) :: ((Npos (XO (XO
      (XI (XI (XO (XI XH))))))) :: ((Npos (XI (XO (XI (XO (XO (XI
      XH))))))) :: [])))))))))) :: (((Npos (XO (XI (XO (XO (XO (XI
      XH))))))) :: ((Npos (XI (XO (XO (XI (XO (XI XH))))))) :: ((Npos (XI (XI
      (XI (XO (XO (XI XH))))))) :: ((Npos (XO (XO (XI (XI (XI (XO
      XH))))))) :: ((Npos (XO (XI (XO (XO (XI (XI XH))))))) :: ((Npos (XO (XI
      (XO (XO (XO (XI XH))))))) :: ((Npos (XO (XI (XO (XO (XI (XI
      XH))))))) :: ((Npos (XI (XO (XO (XO (XO (XI XH))))))) :: ((Npos (XI (XI
      (XO (XO (XO (XI XH))))))) :: ((Npos (XI (XI (XO (XI (XO (XI
      XH))))))) :: [])))))))))) :: (((Npos (XO (XI (XO (XO (XO (XI
      XH))))))) :: ((Npos (XI (XO (XO (XI (XO (XI XH))))))) :: ((Npos (XI (XI
      (XI (XO (XO (XI XH))))))) :: ((Npos (XO (XO (XI (XI (XI (XO
      XH))))))) :: ((Npos (XO (XI (XO (XO (XI (XI XH))))))) :: ((Npos (XI (XI
      (XO (XO (XO (XI XH))))))) :: ((Npos (XI (XO (XI (XO (XO (XI
      XH))))))) :: ((Npos (XI (XO (XO (XI (XO (XI XH))))))) :: ((Npos (XO (XO
      (XI (XI (XO (XI XH))))))) :: []))))))))) :: (((Npos (XO (XI (XO (XO (XO
      (XI XH))))))) :: ((Npos (XI (XO (XO (XI (XO (XI XH))))))) :: ((Npos (XI
      (XI (XI (XO (XO (XI XH))))))) :: ((Npos (XO (XO (XI (XI (XI (XO
      XH))))))) :: ((Npos (XO (XI (XO (XO (XI (XI XH))))))) :: ((Npos (XO (XI
      (XI (XO (XO (XI XH))))))) :: ((Npos (XO (XO (XI (XI (XO (XI
      XH))))))) :: ((Npos (XI (XI (XI (XI (XO (XI XH))))))) :: ((Npos (XI (XI
      (XI (XI (XO (XI XH))))))) :: ((Npos (XO (XI (XO (XO (XI (XI
      XH))))))) :: [])))))))))) :: (((Npos (XO (XI (XO (XO (XO (XI
      XH))))))) :: ((Npos (XI (XO (XO (XI (XO (XI XH))))))) :: ((Npos (XI (XI
      (XI (XO (XO (XI XH))))))) :: ((Npos (XO (XO (XI (XI (XI (XO
      XH))))))) :: ((Npos (XI (XO (XI (XO (XI (XI XH))))))) :: ((Npos (XO (XO
      (XI (XI (XO (XI XH))))))) :: ((Npos (XI (XI (XO (XO (XO (XI
      XH))))))) :: ((Npos (XI (XI (XI (XI (XO (XI XH))))))) :: ((Npos (XO (XI
      (XO (XO (XI (XI XH))))))) :: ((Npos (XO (XI (XI (XI (XO (XI
      XH))))))) :: ((Npos (XI (XO (XI (XO (XO (XI XH))))))) :: ((Npos (XO (XI
      (XO (XO (XI (XI XH))))))) :: [])))))))))))) :: (((Npos (XO (XI (XO (XO
      (XO (XI XH))))))) :: ((Npos (XI (XO (XO (XI (XO (XI XH))))))) :: ((Npos
      (XI (XI (XI (XO (XO (XI XH))))))) :: ((Npos (XO (XO (XI (XI (XI (XO
      XH))))))) :: ((Npos (XI (XO (XI (XO (XI (XI XH))))))) :: ((Npos (XO (XI
      (XO (XO (XI (XI XH))))))) :: ((Npos (XI (XI (XO (XO (XO (XI
      XH))))))) :: ((Npos (XI (XI (XI (XI (XO (XI XH))))))) :: ((Npos (XO (XI
      (XO (XO (XI (XI XH))))))) :: ((Npos (XO (XI (XI (XI (XO (XI
      XH))))))) :: ((Npos (XI (XO (XI (XO (XO (XI XH))))))) :: ((Npos (XO (XI
      (XO (XO (XI (XI XH))))))) :: [])))))))))))) :: (((Npos (XO (XI (XO (XO
      (XO (XI XH))))))) :: ((Npos (XI (XO (XO (XI (XO (XI XH))))))) :: ((Npos
      (XI (XI (XI (XO (XO (XI XH))))))) :: ((Npos (XO (XO (XI (XI (XI (XO
      XH))))))) :: ((Npos (XI (XI (XO (XI (XI (XI
      XH))))))) :: []))))) :: (((Npos (XO (XI (XO (XO (XO (XI
      XH))))))) :: ((Npos (XI (XO (XO (XI (XO (XI XH))))))) :: ((Npos (XI (XI
      (XI (XO (XO (XI XH))))))) :: ((Npos (XO (XO (XI (XI (XI (XO
      XH))))))) :: ((Npos (XI (XO (XI (XI (XI (XI
      XH))))))) :: []))))) :: (((Npos (XO (XI (XO (XO (XO (XI
      XH))))))) :: ((Npos (XI (XO (XO (XI (XO (XI XH))))))) :: ((Npos (XI (XI
      (XI (XO (XO (XI XH))))))) :: ((Npos (XI (XO (XI (XI (XI (XO
      XH))))))) :: [])))) :: (((Npos (XO (XI (XO (XO (XO (XI
      XH))))))) :: ((Npos (XI (XO (XO (XI (XO (XI XH))))))) :: ((Npos (XI (XI
      (XI (XO (XO (XI XH))))))) :: ((Npos (XI (XI (XI (XO (XO (XI
      XH))))))) :: ((Npos (XO (XO (XO (XI (XO XH)))))) :: []))))) :: (((Npos
      (XO (XI (XO (XO (XO (XI XH))))))) :: ((Npos (XI (XO (XO (XI (XO (XI
      XH))))))) :: ((Npos (XI (XI (XI (XO (XO (XI XH))))))) :: ((Npos (XI (XI
      (XI (XO (XO (XI XH))))))) :: ((Npos (XI (XO (XO (XI (XO
      XH)))))) :: []))))) :: (((Npos (XO (XI (XO (XO (XO (XI
      XH))))))) :: ((Npos (XI (XO (XO (XI (XO (XI XH))))))) :: ((Npos (XI (XI
      (XI (XO (XO (XI XH))))))) :: ((Npos (XI (XI (XI (XO (XO (XI
      XH))))))) :: ((Npos (XO (XI (XI (XI (XO XH)))))) :: []))))) :: (((Npos
      (XO (XI (XO (XO (XO (XI XH))))))) :: ((Npos (XI (XO (XO (XI (XO (XI
      XH))))))) :: ((Npos (XI (XI (XI (XO (XO (XI XH))))))) :: ((Npos (XI (XI
      (XI (XO (XO (XI XH))))))) :: ((Npos (XO (XO (XI (XI (XI
      XH)))))) :: []))))) :: (((Npos (XO (XI (XO (XO (XO (XI
      XH))))))) :: ((Npos (XI (XO (XO (XI (XO (XI XH))))))) :: ((Npos (XI (XI
      (XI (XO (XO (XI XH))))))) :: ((Npos (XI (XI (XI (XO (XO (XI
      XH))))))) :: ((Npos (XO (XI (XI (XI (XI XH)))))) :: []))))) :: (((Npos
      (XO (XI (XO (XO (XO (XI XH))))))) :: ((Npos (XI (XO (XO (XI (XO (XI
      XH))))))) :: ((Npos (XI (XI (XI (XO (XO (XI XH))))))) :: ((Npos (XI (XI
      (XI (XO (XO (XI XH))))))) :: ((Npos (XI (XI (XO (XI (XI (XO
      XH))))))) :: []))))) :: (((Npos (XO (XI (XO (XO (XO (XI
      XH))))))) :: ((Npos (XI (XO (XO (XI (XO (XI XH))))))) :: ((Npos (XI (XI
      (XI (XO (XO (XI XH))))))) :: ((Npos (XI (XI (XI (XO (XO (XI
      XH))))))) :: ((Npos (XO (XO (XI (XI (XI (XO XH))))))) :: ((Npos (XO (XO
      (XI (XI (XO (XI XH))))))) :: ((Npos (XI (XO (XO (XO (XO (XI
      XH))))))) :: ((Npos (XO (XI (XI (XI (XO (XI XH))))))) :: ((Npos (XI (XI
      (XI (XO (XO (XI XH))))))) :: ((Npos (XO (XO (XI (XI (XO (XI
      XH))))))) :: ((Npos (XI (XO (XI (XO (XO (XI
      XH))))))) :: []))))))))))) :: (((Npos (XO (XI (XO (XO (XO (XI
      XH))))))) :: ((Npos (XI (XO (XO (XI (XO (XI XH))))))) :: ((Npos (XI (XI
      (XI (XO (XO (XI XH))))))) :: ((Npos (XI (XI (XI (XO (XO (XI
      XH))))))) :: ((Npos (XO (XO (XI (XI (XI (XO XH))))))) :: ((Npos (XO (XO
      (XI (XI (XO (XI XH))))))) :: ((Npos (XO (XI (XO (XO (XO (XI
      XH))))))) :: ((Npos (XO (XI (XO (XO (XI (XI XH))))))) :: ((Npos (XI (XO
      (XO (XO (XO (XI XH))))))) :: ((Npos (XI (XI (XO (XO (XO (XI
      XH))))))) :: ((Npos (XI (XI (XO (XI (XO (XI
      XH))))))) :: []))))))))))) :: (((Npos (XO (XI (XO (XO (XO (XI
      XH))))))) :: ((Npos (XI (XO (XO (XI (XO (XI XH))))))) :: ((Npos (XI (XI
      (XI (XO (XO (XI XH))))))) :: ((Npos (XI (XI (XI (XO (XO (XI
      XH))))))) :: ((Npos (XO (XO (XI (XI (XI (XO XH))))))) :: ((Npos (XO (XO
      (XI (XI (XO (XI XH))))))) :: ((Npos (XI (XI (XO (XO (XO (XI
      XH))))))) :: ((Npos (XI (XO (XI (XO (XO (XI XH))))))) :: ((Npos (XI (XO
      (XO (XI (XO (XI XH))))))) :: ((Npos (XO (XO (XI (XI (XO (XI
      XH))))))) :: [])))))))))) :: (((Npos (XO (XI (XO (XO (XO (XI
      XH))))))) :: ((Npos (XI (XO (XO (XI (XO (XI XH))))))) :: ((Npos (XI (XI
      (XI (XO (XO (XI XH))))))) :: ((Npos (XI (XI (XI (XO (XO (XI
      XH))))))) :: ((Npos (XO (XO (XI (XI (XI (XO XH))))))) :: ((Npos (XO (XO
      (XI (XI (XO (XI XH))))))) :: ((Npos (XO (XI (XI (XO (XO (XI
      XH))))))) :: ((Npos (XO (XO (XI (XI (XO (XI XH))))))) :: ((Npos (XI (XI
      (XI (XI (XO (XI XH))))))) :: ((Npos (XI (XI (XI (XI (XO (XI
      XH))))))) :: ((Npos (XO (XI (XO (XO (XI (XI
      XH))))))) :: []))))))))))) :: (((Npos (XO (XI (XO (XO (XO (XI
      XH))))))) :: ((Npos (XI (XO (XO (XI (XO (XI XH))))))) :: ((Npos (XI (XI
      (XI (XO (XO (XI XH))))))) :: ((Npos (XI (XI (XI (XO (XO (XI
      XH))))))) :: ((Npos (XO (XO (XI (XI (XI (XO XH))))))) :: ((Npos (XO (XI
      (XO (XO (XI (XI XH))))))) :: ((Npos (XI (XO (XO (XO (XO (XI
      XH))))))) :: ((Npos (XO (XI (XI (XI (XO (XI XH))))))) :: ((Npos (XI (XI
      (XI (XO (XO (XI XH))))))) :: ((Npos (XO (XO (XI (XI (XO (XI
      XH))))))) :: ((Npos (XI (XO (XI (XO (XO (XI
      XH))))))) :: []))))))))))) :: (((Npos (XO (XI (XO (XO (XO (XI
      XH))))))) :: ((Npos (XI (XO (XO (XI (XO (XI XH))))))) :: ((Npos (XI (XI
      (XI (XO (XO (XI XH))))))) :: ((Npos (XI (XI (XI (XO (XO (XI
      XH))))))) :: ((Npos (XO (XO (XI (XI (XI (XO XH))))))) :: ((Npos (XO (XI
      (XO (XO (XI (XI XH))))))) :: ((Npos (XO (XI (XO (XO (XO (XI
      XH))))))) :: ((Npos (XO (XI (XO (XO (XI (XI XH))))))) :: ((Npos (XI (XO
      (XO (XO (XO (XI XH))))))) :: ((Npos (XI (XI (XO (XO (XO (XI
      XH))))))) :: ((Npos (XI (XI (XO (XI (XO (XI
      XH))))))) :: []))))))))))) :: (((Npos (XO (XI (XO (XO (XO (XI
      XH))))))) :: ((Npos (XI (XO (XO (XI (XO (XI XH))))))) :: ((Npos (XI (XI
      (XI (XO (XO (XI XH))))))) :: ((Npos (XI (XI (XI (XO (XO (XI
      XH))))))) :: ((Npos (XO (XO (XI (XI (XI (XO XH))))))) :: ((Npos (XO (XI
      (XO (XO (XI (XI XH))))))) :: ((Npos (XI (XI (XO (XO (XO (XI
      XH))))))) :: ((Npos (XI (XO (XI (XO (XO (XI XH))))))) :: ((Npos (XI (XO
      (XO (XI (XO (XI XH))))))) :: ((Npos (XO (XO (XI (XI (XO (XI
      XH))))))) :: [])))))))))) :: (((Npos (XO (XI (XO (XO (XO (XI
      XH))))))) :: ((Npos (XI (XO (XO (XI (XO (XI XH))))))) :: ((Npos (XI (XI
      (XI (XO (XO (XI XH))))))) :: ((Npos (XI (XI (XI (XO (XO (XI
      XH))))))) :: ((Npos (XO (XO (XI (XI (XI (XO XH))))))) :: ((Npos (XO (XI
      (XO (XO (XI (XI XH))))))) :: ((Npos (XO (XI (XI (XO (XO (XI
      XH))))))) :: ((Npos (XO (XO (XI (XI (XO (XI XH))))))) :: ((Npos (XI (XI
      (XI (XI (XO (XI XH))))))) :: ((Npos (XI (XI (XI (XI (XO (XI
      XH))))))) :: ((Npos (XO (XI (XO (XO (XI (XI
      XH))))))) :: []))))))))))) :: (((Npos (XO (XI (XO (XO (XO (XI
      XH))))))) :: ((Npos (XI (XO (XO (XI (XO (XI XH))))))) :: ((Npos (XI (XI
      (XI (XO (XO (XI XH))))))) :: ((Npos (XI (XI (XI (XO (XO (XI
      XH))))))) :: ((Npos (XO (XO (XI (XI (XI (XO XH))))))) :: ((Npos (XI (XO
      (XI (XO (XI (XI XH))))))) :: ((Npos (XO (XO (XI (XI (XO (XI
      XH))))))) :: ((Npos (XI (XI (XO (XO (XO (XI XH))))))) :: ((Npos (XI (XI
      (XI (XI (XO (XI XH))))))) :: ((Npos (XO (XI (XO (XO (XI (XI
      XH))))))) :: ((Npos (XO (XI (XI (XI (XO (XI XH))))))) :: ((Npos (XI (XO
      (XI (XO (XO (XI XH))))))) :: ((Npos (XO (XI (XO (XO (XI (XI
      XH))))))) :: []))))))))))))) :: (((Npos (XO (XI (XO (XO (XO (XI
      XH))))))) :: ((Npos (XI (XO (XO (XI (XO (XI XH))))))) :: ((Npos (XI (XI
      (XI (XO (XO (XI XH))))))) :: ((Npos (XI (XI (XI (XO (XO (XI
      XH))))))) :: ((Npos (XO (XO (XI (XI (XI (XO XH))))))) :: ((Npos (XI (XO
      (XI (XO (XI (XI XH))))))) :: ((Npos (XO (XI (XO (XO (XI (XI
      XH))))))) :: ((Npos (XI (XI (XO (XO (XO (XI XH))))))) :: ((Npos (XI (XI
      (XI (XI (XO (XI XH))))))) :: ((Npos (XO (XI (XO (XO (XI (XI
      XH))))))) :: ((Npos (XO (XI (XI (XI (XO (XI XH))))))) :: ((Npos (XI (XO
      (XI (XO (XO (XI XH))))))) :: ((Npos (XO (XI (XO (XO (XI (XI
      XH))))))) :: []))))))))))))) :: (((Npos (XO (XI (XO (XO (XO (XI
      XH))))))) :: ((Npos (XI (XO (XO (XI (XO (XI XH))))))) :: ((Npos (XI (XI
      (XI (XO (XO (XI XH))))))) :: ((Npos (XI (XI (XI (XO (XO (XI
      XH))))))) :: ((Npos (XO (XO (XI (XI (XI (XO XH))))))) :: ((Npos (XI (XI
      (XO (XI (XI (XI XH))))))) :: [])))))) :: (((Npos (XO (XI (XO (XO (XO
      (XI XH))))))) :: ((Npos (XI (XO (XO (XI (XO (XI XH))))))) :: ((Npos (XI
      (XI (XI (XO (XO (XI XH))))))) :: ((Npos (XI (XI (XI (XO (XO (XI
      XH))))))) :: ((Npos (XO (XO (XI (XI (XI (XO XH))))))) :: ((Npos (XI (XO
      (XI (XI (XI (XI XH))))))) :: [])))))) :: (((Npos (XO (XI (XO (XO (XO
      (XI XH))))))) :: ((Npos (XI (XO (XO (XI (XO (XI XH))))))) :: ((Npos (XI
      (XI (XI (XO (XO (XI XH))))))) :: ((Npos (XI (XI (XI (XO (XO (XI
      XH))))))) :: ((Npos (XI (XO (XI (XI (XI (XO
      XH))))))) :: []))))) :: (((Npos (XO (XI (XO (XO (XO (XI
      XH))))))) :: ((Npos (XI (XO (XO (XI (XO (XI XH))))))) :: ((Npos (XI (XI
      (XI (XO (XO (XI XH))))))) :: ((Npos (XI (XI (XI (XO (XO (XI
      XH))))))) :: ((Npos (XI (XI (XO (XI (XI (XI
      XH))))))) :: []))))) :: (((Npos (XO (XI (XO (XO (XO (XI
      XH))))))) :: ((Npos (XI (XO (XO (XI (XO (XI XH))))))) :: ((Npos (XI (XI
      (XI (XO (XO (XI XH))))))) :: ((Npos (XI (XI (XI (XO (XO (XI
      XH))))))) :: ((Npos (XO (XO (XI (XI (XI (XI
      XH))))))) :: []))))) :: (((Npos (XO (XI (XO (XO (XO (XI
      XH))))))) :: ((Npos (XI (XO (XO (XI (XO (XI XH))))))) :: ((Npos (XI (XI
      (XI (XO (XO (XI XH))))))) :: ((Npos (XI (XI (XI (XO (XO (XI
      XH))))))) :: ((Npos (XI (XO (XI (XI (XI (XI
      XH))))))) :: []))))) :: (((Npos (XO (XI (XO (XO (XO (XI
      XH))))))) :: ((Npos (XI (XO (XO (XI (XO (XI XH))))))) :: ((Npos (XI (XI
      (XI (XO (XO (XI XH))))))) :: ((Npos (XI (XI (XO (XI (XI (XI
      XH))))))) :: [])))) :: (((Npos (XO (XI (XO (XO (XO (XI
      XH))))))) :: ((Npos (XI (XO (XO (XI (XO (XI XH))))))) :: ((Npos (XI (XI
      (XI (XO (XO (XI XH))))))) :: ((Npos (XO (XO (XI (XI (XI (XI
      XH))))))) :: [])))) :: (((Npos (XO (XI (XO (XO (XO (XI
      XH))))))) :: ((Npos (XI (XO (XO (XI (XO (XI XH))))))) :: ((Npos (XI (XI
      (XI (XO (XO (XI XH))))))) :: ((Npos (XI (XO (XI (XI (XI (XI
      XH))))))) :: [])))) :: (((Npos (XO (XO (XI (XI (XO (XI
      XH))))))) :: ((Npos (XI (XO (XI (XO (XO (XI XH))))))) :: ((Npos (XO (XI
      (XI (XO (XO (XI XH))))))) :: ((Npos (XO (XO (XI (XO (XI (XI
      XH))))))) :: ((Npos (XO (XO (XO (XI (XO XH)))))) :: []))))) :: (((Npos
      (XO (XO (XI (XI (XO (XI XH))))))) :: ((Npos (XI (XO (XI (XO (XO (XI
      XH))))))) :: ((Npos (XO (XI (XI (XO (XO (XI XH))))))) :: ((Npos (XO (XO
      (XI (XO (XI (XI XH))))))) :: ((Npos (XI (XO (XO (XI (XO
      XH)))))) :: []))))) :: (((Npos (XO (XO (XI (XI (XO (XI
      XH))))))) :: ((Npos (XI (XO (XI (XO (XO (XI XH))))))) :: ((Npos (XO (XI
      (XI (XO (XO (XI XH))))))) :: ((Npos (XO (XO (XI (XO (XI (XI
      XH))))))) :: ((Npos (XO (XI (XI (XI (XO XH)))))) :: []))))) :: (((Npos
      (XO (XO (XI (XI (XO (XI XH))))))) :: ((Npos (XI (XO (XI (XO (XO (XI
      XH))))))) :: ((Npos (XO (XI (XI (XO (XO (XI XH))))))) :: ((Npos (XO (XO
      (XI (XO (XI (XI XH))))))) :: ((Npos (XO (XO (XI (XI (XI
      XH)))))) :: []))))) :: (((Npos (XO (XO (XI (XI (XO (XI
      XH))))))) :: ((Npos (XI (XO (XI (XO (XO (XI XH))))))) :: ((Npos (XO (XI
      (XI (XO (XO (XI XH))))))) :: ((Npos (XO (XO (XI (XO (XI (XI
      XH))))))) :: ((Npos (XO (XI (XI (XI (XI XH)))))) :: []))))) :: (((Npos
      (XO (XO (XI (XI (XO (XI XH))))))) :: ((Npos (XI (XO (XI (XO (XO (XI
      XH))))))) :: ((Npos (XO (XI (XI (XO (XO (XI XH))))))) :: ((Npos (XO (XO
      (XI (XO (XI (XI XH))))))) :: ((Npos (XI (XI (XO (XI (XI (XO
      XH))))))) :: []))))) :: (((Npos (XO (XO (XI (XI (XO (XI
      XH))))))) :: ((Npos (XI (XO (XI (XO (XO (XI XH))))))) :: ((Npos (XO (XI
      (XI (XO (XO (XI XH))))))) :: ((Npos (XO (XO (XI (XO (XI (XI
      XH))))))) :: ((Npos (XO (XO (XI (XI (XI (XO XH))))))) :: ((Npos (XO (XO
      (XI (XI (XO (XI XH))))))) :: ((Npos (XI (XO (XO (XO (XO (XI
      XH))))))) :: ((Npos (XO (XI (XI (XI (XO (XI XH))))))) :: ((Npos (XI (XI
      (XI (XO (XO (XI XH))))))) :: ((Npos (XO (XO (XI (XI (XO (XI
      XH))))))) :: ((Npos (XI (XO (XI (XO (XO (XI
      XH))))))) :: []))))))))))) :: (((Npos (XO (XO (XI (XI (XO (XI
      XH))))))) :: ((Npos (XI (XO (XI (XO (XO (XI XH))))))) :: ((Npos (XO (XI
      (XI (XO (XO (XI XH))))))) :: ((Npos (XO (XO (XI (XO (XI (XI
      XH))))))) :: ((Npos (XO (XO (XI (XI (XI (XO XH))))))) :: ((Npos (XO (XO
      (XI (XI (XO (XI XH))))))) :: ((Npos (XO (XI (XO (XO (XO (XI
      XH))))))) :: ((Npos (XO (XI (XO (XO (XI (XI XH))))))) :: ((Npos (XI (XO
      (XO (XO (XO (XI XH))))))) :: ((Npos (XI (XI (XO (XO (XO (XI
      XH))))))) :: ((Npos (XI (XI (XO (XI (XO (XI
      XH))))))) :: []))))))))))) :: (((Npos (XO (XO (XI (XI (XO (XI
      XH))))))) :: ((Npos (XI (XO (XI (XO (XO (XI XH))))))) :: ((Npos (XO (XI
      (XI (XO (XO (XI XH))))))) :: ((Npos (XO (XO (XI (XO (XI (XI
      XH))))))) :: ((Npos (XO (XO (XI (XI (XI (XO XH))))))) :: ((Npos (XO (XO
      (XI (XI (XO (XI XH))))))) :: ((Npos (XI (XI (XO (XO (XO (XI
      XH))))))) :: ((Npos (XI (XO (XI (XO (XO (XI XH))))))) :: ((Npos (XI (XO
      (XO (XI (XO (XI XH))))))) :: ((Npos (XO (XO (XI (XI (XO (XI
      XH))))))) :: [])))))))))) :: (((Npos (XO (XO (XI (XI (XO (XI
      XH))))))) :: ((Npos (XI (XO (XI (XO (XO (XI XH))))))) :: ((Npos (XO (XI
      (XI (XO (XO (XI XH))))))) :: ((Npos (XO (XO (XI (XO (XI (XI
      XH))))))) :: ((Npos (XO (XO (XI (XI (XI (XO XH))))))) :: ((Npos (XO (XO
      (XI (XI (XO (XI XH))))))) :: ((Npos (XO (XI (XI (XO (XO (XI
      XH))))))) :: ((Npos (XO (XO (XI (XI (XO (XI XH))))))) :: ((Npos (XI (XI
      (XI (XI (XO (XI XH))))))) :: ((Npos (XI (XI (XI (XI (XO (XI
      XH))))))) :: ((Npos (XO (XI (XO (XO (XI (XI
      XH))))))) :: []))))))))))) :: (((Npos (XO (XO (XI (XI (XO (XI
      XH))))))) :: ((Npos (XI (XO (XI (XO (XO (XI XH))))))) :: ((Npos (XO (XI
      (XI (XO (XO (XI XH))))))) :: ((Npos (XO (XO (XI (XO (XI (XI
      XH))))))) :: ((Npos (XO (XO (XI (XI (XI (XO XH))))))) :: ((Npos (XO (XI
      (XO (XO (XI (XI XH))))))) :: ((Npos (XI (XO (XO (XO (XO (XI
      XH))))))) :: ((Npos (XO (XI (XI (XI (XO (XI XH))))))) :: ((Npos (XI (XI
      (XI (XO (XO (XI XH))))))) :: ((Npos (XO (XO (XI (XI (XO (XI
      XH))))))) :: ((Npos (XI (XO (XI (XO (XO (XI
      XH))))))) :: []))))))))))) :: (((Npos (XO (XO (XI (XI (XO (XI
      XH))))))) :: ((Npos (XI (XO (XI (XO (XO (XI XH))))))) :: ((Npos (XO (XI
      (XI (XO (XO (XI XH))))))) :: ((Npos (XO (XO (XI (XO (XI (XI
      XH))))))) :: ((Npos (XO (XO (XI (XI (XI (XO XH))))))) :: ((Npos (XO (XI
      (XO (XO (XI (XI XH))))))) :: ((Npos (XO (XI (XO (XO (XO (XI
      XH))))))) :: ((Npos (XO (XI (XO (XO (XI (XI XH))))))) :: ((Npos (XI (XO
      (XO (XO (XO (XI XH))))))) :: ((Npos (XI (XI (XO (XO (XO (XI
      XH))))))) :: ((Npos (XI (XI (XO (XI (XO (XI
      XH))))))) :: []))))))))))) :: (((Npos (XO (XO (XI (XI (XO (XI
      XH))))))) :: ((Npos (XI (XO (XI (XO (XO (XI XH))))))) :: ((Npos (XO (XI
      (XI (XO (XO (XI XH))))))) :: ((Npos (XO (XO (XI (XO (XI (XI
      XH))))))) :: ((Npos (XO (XO (XI (XI (XI (XO XH))))))) :: ((Npos (XO (XI
      (XO (XO (XI (XI XH))))))) :: ((Npos (XI (XI (XO (XO (XO (XI
      XH))))))) :: ((Npos (XI (XO (XI (XO (XO (XI XH))))))) :: ((Npos (XI (XO
      (XO (XI (XO (XI XH))))))) :: ((Npos (XO (XO (XI (XI (XO (XI
      XH))))))) :: [])))))))))) :: (((Npos (XO (XO (XI (XI (XO (XI
      XH))))))) :: ((Npos (XI (XO (XI (XO (XO (XI XH))))))) :: ((Npos (XO (XI
      (XI (XO (XO (XI XH))))))) :: ((Npos (XO (XO (XI (XO (XI (XI
      XH))))))) :: ((Npos (XO (XO (XI (XI (XI (XO XH))))))) :: ((Npos (XO (XI
      (XO (XO (XI (XI XH))))))) :: ((Npos (XO (XI (XI (XO (XO (XI
      XH))))))) :: ((Npos (XO (XO (XI (XI (XO (XI XH))))))) :: ((Npos (XI (XI
      (XI (XI (XO (XI XH))))))) :: ((Npos (XI (XI (XI (XI (XO (XI
      XH))))))) :: ((Npos (XO (XI (XO (XO (XI (XI
      XH))))))) :: []))))))))))) :: (((Npos (XO (XO (XI (XI (XO (XI
      XH))))))) :: ((Npos (XI (XO (XI (XO (XO (XI XH))))))) :: ((Npos (XO (XI
      (XI (XO (XO (XI XH))))))) :: ((Npos (XO (XO (XI (XO (XI (XI
      XH))))))) :: ((Npos (XO (XO (XI (XI (XI (XO XH))))))) :: ((Npos (XI (XO
      (XI (XO (XI (XI XH))))))) :: ((Npos (XO (XO (XI (XI (XO (XI
      XH))))))) :: ((Npos (XI (XI (XO (XO (XO (XI XH))))))) :: ((Npos (XI (XI
      (XI (XI (XO (XI XH))))))) :: ((Npos (XO (XI (XO (XO (XI (XI
      XH))))))) :: ((Npos (XO (XI (XI (XI (XO (XI XH))))))) :: ((Npos (XI (XO
      (XI (XO (XO (XI XH))))))) :: ((Npos (XO (XI (XO (XO (XI (XI
      XH))))))) :: []))))))))))))) :: (((Npos (XO (XO (XI (XI (XO (XI
      XH))))))) :: ((Npos (XI (XO (XI (XO (XO (XI XH))))))) :: ((Npos (XO (XI
      (XI (XO (XO (XI XH))))))) :: ((Npos (XO (XO (XI (XO (XI (XI
      XH))))))) :: ((Npos (XO (XO (XI (XI (XI (XO XH))))))) :: ((Npos (XI (XO
      (XI (XO (XI (XI XH))))))) :: ((Npos (XO (XI (XO (XO (XI (XI
      XH))))))) :: ((Npos (XI (XI (XO (XO (XO (XI XH))))))) :: ((Npos (XI (XI
      (XI (XI (XO (XI XH))))))) :: ((Npos (XO (XI (XO (XO (XI (XI
      XH))))))) :: ((Npos (XO (XI (XI (XI (XO (XI XH))))))) :: ((Npos (XI (XO
      (XI (XO (XO (XI XH))))))) :: ((Npos (XO (XI (XO (XO (XI (XI
      XH))))))) :: []))))))))))))) :: (((Npos (XO (XO (XI (XI (XO (XI
      XH))))))) :: ((Npos (XI (XO (XI (XO (XO (XI XH))))))) :: ((Npos (XO (XI
      (XI (XO (XO (XI XH))))))) :: ((Npos (XO (XO (XI (XO (XI (XI
      XH))))))) :: ((Npos (XO (XO (XI (XI (XI (XO XH))))))) :: ((Npos (XI (XI
      (XO (XI (XI (XI XH))))))) :: [])))))) :: (((Npos (XO (XO (XI (XI (XO
      (XI XH))))))) :: ((Npos (XI (XO (XI (XO (XO (XI XH))))))) :: ((Npos (XO
      (XI (XI (XO (XO (XI XH))))))) :: ((Npos (XO (XO (XI (XO (XI (XI
      XH))))))) :: ((Npos (XO (XO (XI (XI (XI (XO XH))))))) :: ((Npos (XI (XO
      (XI (XI (XI (XI XH))))))) :: [])))))) :: (((Npos (XO (XO (XI (XI (XO
      (XI XH))))))) :: ((Npos (XI (XO (XI (XO (XO (XI XH))))))) :: ((Npos (XO
      (XI (XI (XO (XO (XI XH))))))) :: ((Npos (XO (XO (XI (XO (XI (XI
      XH))))))) :: ((Npos (XI (XO (XI (XI (XI (XO
      XH))))))) :: []))))) :: (((Npos (XO (XO (XI (XI (XO (XI
      XH))))))) :: ((Npos (XI (XO (XI (XO (XO (XI XH))))))) :: ((Npos (XO (XI
      (XI (XO (XO (XI XH))))))) :: ((Npos (XO (XO (XI (XO (XI (XI
      XH))))))) :: ((Npos (XI (XI (XO (XI (XI (XI
      XH))))))) :: []))))) :: (((Npos (XO (XO (XI (XI (XO (XI
      XH))))))) :: ((Npos (XI (XO (XI (XO (XO (XI XH))))))) :: ((Npos (XO (XI
      (XI (XO (XO (XI XH))))))) :: ((Npos (XO (XO (XI (XO (XI (XI
      XH))))))) :: ((Npos (XO (XO (XI (XI (XI (XI
      XH))))))) :: []))))) :: (((Npos (XO (XO (XI (XI (XO (XI
      XH))))))) :: ((Npos (XI (XO (XI (XO (XO (XI XH))))))) :: ((Npos (XO (XI
      (XI (XO (XO (XI XH))))))) :: ((Npos (XO (XO (XI (XO (XI (XI
      XH))))))) :: ((Npos (XI (XO (XI (XI (XI (XI
      XH))))))) :: []))))) :: (((Npos (XO (XI (XO (XO (XI (XI
      XH))))))) :: ((Npos (XI (XO (XO (XI (XO (XI XH))))))) :: ((Npos (XI (XI
      (XI (XO (XO (XI XH))))))) :: ((Npos (XO (XO (XO (XI (XO (XI
      XH))))))) :: ((Npos (XO (XO (XI (XO (XI (XI XH))))))) :: ((Npos (XO (XO
      (XO (XI (XO XH)))))) :: [])))))) :: (((Npos (XO (XI (XO (XO (XI (XI
      XH))))))) :: ((Npos (XI (XO (XO (XI (XO (XI XH))))))) :: ((Npos (XI (XI
      (XI (XO (XO (XI XH))))))) :: ((Npos (XO (XO (XO (XI (XO (XI
      XH))))))) :: ((Npos (XO (XO (XI (XO (XI (XI XH))))))) :: ((Npos (XI (XO
      (XO (XI (XO XH)))))) :: [])))))) :: (((Npos (XO (XI (XO (XO (XI (XI
      XH))))))) :: ((Npos (XI (XO (XO (XI (XO (XI XH))))))) :: ((Npos (XI (XI
      (XI (XO (XO (XI XH))))))) :: ((Npos (XO (XO (XO (XI (XO (XI
      XH))))))) :: ((Npos (XO (XO (XI (XO (XI (XI XH))))))) :: ((Npos (XO (XI
      (XI (XI (XO XH)))))) :: [])))))) :: (((Npos (XO (XI (XO (XO (XI (XI
      XH))))))) :: ((Npos (XI (XO (XO (XI (XO (XI XH))))))) :: ((Npos (XI (XI
      (XI (XO (XO (XI XH))))))) :: ((Npos (XO (XO (XO (XI (XO (XI
      XH))))))) :: ((Npos (XO (XO (XI (XO (XI (XI XH))))))) :: ((Npos (XO (XO
      (XI (XI (XI XH)))))) :: [])))))) :: (((Npos (XO (XI (XO (XO (XI (XI
      XH))))))) :: ((Npos (XI (XO (XO (XI (XO (XI XH))))))) :: ((Npos (XI (XI
      (XI (XO (XO (XI XH))))))) :: ((Npos (XO (XO (XO (XI (XO (XI
      XH))))))) :: ((Npos (XO (XO (XI (XO (XI (XI XH))))))) :: ((Npos (XO (XI
      (XI (XI (XI XH)))))) :: [])))))) :: (((Npos (XO (XI (XO (XO (XI (XI
      XH))))))) :: ((Npos (XI (XO (XO (XI (XO (XI XH))))))) :: ((Npos (XI (XI
      (XI (XO (XO (XI XH))))))) :: ((Npos (XO (XO (XO (XI (XO (XI
      XH))))))) :: ((Npos (XO (XO (XI (XO (XI (XI XH))))))) :: ((Npos (XI (XI
      (XO (XI (XI (XO XH))))))) :: [])))))) :: (((Npos (XO (XI (XO (XO (XI
      (XI XH))))))) :: ((Npos (XI (XO (XO (XI (XO (XI XH))))))) :: ((Npos (XI
      (XI (XI (XO (XO (XI XH))))))) :: ((Npos (XO (XO (XO (XI (XO (XI
      XH))))))) :: ((Npos (XO (XO (XI (XO (XI (XI XH))))))) :: ((Npos (XO (XO
      (XI (XI (XI (XO XH))))))) :: ((Npos (XO (XO (XI (XI (XO (XI
      XH))))))) :: ((Npos (XI (XO (XO (XO (XO (XI XH))))))) :: ((Npos (XO (XI
      (XI (XI (XO (XI XH))))))) :: ((Npos (XI (XI (XI (XO (XO (XI
      XH))))))) :: ((Npos (XO (XO (XI (XI (XO (XI XH))))))) :: ((Npos (XI (XO
      (XI (XO (XO (XI XH))))))) :: [])))))))))))) :: (((Npos (XO (XI (XO (XO
      (XI (XI XH))))))) :: ((Npos (XI (XO (XO (XI (XO (XI XH))))))) :: ((Npos
      (XI (XI (XI (XO (XO (XI XH))))))) :: ((Npos (XO (XO (XO (XI (XO (XI
      XH))))))) :: ((Npos (XO (XO (XI (XO (XI (XI XH))))))) :: ((Npos (XO (XO
      (XI (XI (XI (XO XH))))))) :: ((Npos (XO (XO (XI (XI (XO (XI
      XH))))))) :: ((Npos (XO (XI (XO (XO (XO (XI XH))))))) :: ((Npos (XO (XI
      (XO (XO (XI (XI XH))))))) :: ((Npos (XI (XO (XO (XO (XO (XI
      XH))))))) :: ((Npos (XI (XI (XO (XO (XO (XI XH))))))) :: ((Npos (XI (XI
      (XO (XI (XO (XI XH))))))) :: [])))))))))))) :: (((Npos (XO (XI (XO (XO
      (XI (XI XH))))))) :: ((Npos (XI (XO (XO (XI (XO (XI XH))))))) :: ((Npos
      (XI (XI (XI (XO (XO (XI XH))))))) :: ((Npos (XO (XO (XO (XI (XO (XI
      XH))))))) :: ((Npos (XO (XO (XI (XO (XI (XI XH))))))) :: ((Npos (XO (XO
      (XI (XI (XI (XO XH))))))) :: ((Npos (XO (XO (XI (XI (XO (XI
      XH))))))) :: ((Npos (XI (XI (XO (XO (XO (XI XH))))))) :: ((Npos (XI (XO
      (XI (XO (XO (XI XH))))))) :: ((Npos (XI (XO (XO (XI (XO (XI
      XH))))))) :: ((Npos (XO (XO (XI (XI (XO (XI
      XH))))))) :: []))))))))))) :: (((Npos (XO (XI (XO (XO (XI (XI
      XH))))))) :: ((Npos (XI (XO (XO (XI (XO (XI XH))))))) :: ((Npos (XI (XI
      (XI (XO (XO (XI XH))))))) :: ((Npos (XO (XO (XO (XI (XO (XI
      XH))))))) :: ((Npos (XO (XO (XI (XO (XI (XI XH))))))) :: ((Npos (XO (XO
      (XI (XI (XI (XO XH))))))) :: ((Npos (XO (XO (XI (XI (XO (XI
      XH))))))) :: ((Npos (XO (XI (XI (XO (XO (XI XH))))))) :: ((Npos (XO (XO
      (XI (XI (XO (XI XH))))))) :: ((Npos (XI (XI (XI (XI (XO (XI
      XH))))))) :: ((Npos (XI (XI (XI (XI (XO (XI XH))))))) :: ((Npos (XO (XI
      (XO (XO (XI (XI XH))))))) :: [])))))))))))) :: (((Npos (XO (XI (XO (XO
      (XI (XI XH))))))) :: ((Npos (XI (XO (XO (XI (XO (XI XH))))))) :: ((Npos
      (XI (XI (XI (XO (XO (XI XH))))))) :: ((Npos (XO (XO (XO (XI (XO (XI
      XH))))))) :: ((Npos (XO (XO (XI (XO (XI (XI XH))))))) :: ((Npos (XO (XO
      (XI (XI (XI (XO XH))))))) :: ((Npos (XO (XI (XO (XO (XI (XI
      XH))))))) :: ((Npos (XI (XO (XO (XO (XO (XI XH))))))) :: ((Npos (XO (XI
      (XI (XI (XO (XI XH))))))) :: ((Npos (XI (XI (XI (XO (XO (XI
      XH))))))) :: ((Npos (XO (XO (XI (XI (XO (XI XH))))))) :: ((Npos (XI (XO
      (XI (XO (XO (XI XH))))))) :: [])))))))))))) :: (((Npos (XO (XI (XO (XO
      (XI (XI XH))))))) :: ((Npos (XI (XO (XO (XI (XO (XI XH))))))) :: ((Npos
      (XI (XI (XI (XO (XO (XI XH))))))) :: ((Npos (XO (XO (XO (XI (XO (XI
      XH))))))) :: ((Npos (XO (XO (XI (XO (XI (XI XH))))))) :: ((Npos (XO (XO
      (XI (XI (XI (XO XH))))))) :: ((Npos (XO (XI (XO (XO (XI (XI
      XH))))))) :: ((Npos (XO (XI (XO (XO (XO (XI XH))))))) :: ((Npos (XO (XI
      (XO (XO (XI (XI XH))))))) :: ((Npos (XI (XO (XO (XO (XO (XI
      XH))))))) :: ((Npos (XI (XI (XO (XO (XO (XI XH))))))) :: ((Npos (XI (XI
      (XO (XI (XO (XI XH))))))) :: [])))))))))))) :: (((Npos (XO (XI (XO (XO
      (XI (XI XH))))))) :: ((Npos (XI (XO (XO (XI (XO (XI XH))))))) :: ((Npos
      (XI (XI (XI (XO (XO (XI XH))))))) :: ((Npos (XO (XO (XO (XI (XO (XI
      XH))))))) :: ((Npos (XO (XO (XI (XO (XI (XI XH))))))) :: ((Npos (XO (XO
      (XI (XI (XI (XO XH))))))) :: ((Npos (XO (XI (XO (XO (XI (XI
      XH))))))) :: ((Npos (XI (XI (XO (XO (XO (XI XH))))))) :: ((Npos (XI (XO
      (XI (XO (XO (XI XH))))))) :: ((Npos (XI (XO (XO (XI (XO (XI
      XH))))))) :: ((Npos (XO (XO (XI (XI (XO (XI
      XH))))))) :: []))))))))))) :: (((Npos (XO (XI (XO (XO (XI (XI
      XH))))))) :: ((Npos (XI (XO (XO (XI (XO (XI XH))))))) :: ((Npos (XI (XI
      (XI (XO (XO (XI XH))))))) :: ((Npos (XO (XO (XO (XI (XO (XI
      XH))))))) :: ((Npos (XO (XO (XI (XO (XI (XI XH))))))) :: ((Npos (XO (XO
      (XI (XI (XI (XO XH))))))) :: ((Npos (XO (XI (XO (XO (XI (XI
      XH))))))) :: ((Npos (XO (XI (XI (XO (XO (XI XH))))))) :: ((Npos (XO (XO
      (XI (XI (XO (XI XH))))))) :: ((Npos (XI (XI (XI (XI (XO (XI
      XH))))))) :: ((Npos (XI (XI (XI (XI (XO (XI XH))))))) :: ((Npos (XO (XI
      (XO (XO (XI (XI XH))))))) :: [])))))))))))) :: (((Npos (XO (XI (XO (XO
      (XI (XI XH))))))) :: ((Npos (XI (XO (XO (XI (XO (XI XH))))))) :: ((Npos
      (XI (XI (XI (XO (XO (XI XH))))))) :: ((Npos (XO (XO (XO (XI (XO (XI
      XH))))))) :: ((Npos (XO (XO (XI (XO (XI (XI XH))))))) :: ((Npos (XO (XO
      (XI (XI (XI (XO XH))))))) :: ((Npos (XI (XO (XI (XO (XI (XI
      XH))))))) :: ((Npos (XO (XO (XI (XI (XO (XI XH))))))) :: ((Npos (XI (XI
      (XO (XO (XO (XI XH))))))) :: ((Npos (XI (XI (XI (XI (XO (XI
      XH))))))) :: ((Npos (XO (XI (XO (XO (XI (XI XH))))))) :: ((Npos (XO (XI
      (XI (XI (XO (XI XH))))))) :: ((Npos (XI (XO (XI (XO (XO (XI
      XH))))))) :: ((Npos (XO (XI (XO (XO (XI (XI
      XH))))))) :: [])))))))))))))) :: (((Npos (XO (XI (XO (XO (XI (XI
      XH))))))) :: ((Npos (XI (XO (XO (XI (XO (XI XH))))))) :: ((Npos (XI (XI
      (XI (XO (XO (XI XH))))))) :: ((Npos (XO (XO (XO (XI (XO (XI
      XH))))))) :: ((Npos (XO (XO (XI (XO (XI (XI XH))))))) :: ((Npos (XO (XO
      (XI (XI (XI (XO XH))))))) :: ((Npos (XI (XO (XI (XO (XI (XI
      XH))))))) :: ((Npos (XO (XI (XO (XO (XI (XI XH))))))) :: ((Npos (XI (XI
      (XO (XO (XO (XI XH))))))) :: ((Npos (XI (XI (XI (XI (XO (XI
      XH))))))) :: ((Npos (XO (XI (XO (XO (XI (XI XH))))))) :: ((Npos (XO (XI
      (XI (XI (XO (XI XH))))))) :: ((Npos (XI (XO (XI (XO (XO (XI
      XH))))))) :: ((Npos (XO (XI (XO (XO (XI (XI
      XH))))))) :: [])))))))))))))) :: (((Npos (XO (XI (XO (XO (XI (XI
      XH))))))) :: ((Npos (XI (XO (XO (XI (XO (XI XH))))))) :: ((Npos (XI (XI
      (XI (XO (XO (XI XH))))))) :: ((Npos (XO (XO (XO (XI (XO (XI
      XH))))))) :: ((Npos (XO (XO (XI (XO (XI (XI XH))))))) :: ((Npos (XO (XO
      (XI (XI (XI (XO XH))))))) :: ((Npos (XI (XI (XO (XI (XI (XI
      XH))))))) :: []))))))) :: (((Npos (XO (XI (XO (XO (XI (XI
      XH))))))) :: ((Npos (XI (XO (XO (XI (XO (XI XH))))))) :: ((Npos (XI (XI
      (XI (XO (XO (XI XH))))))) :: ((Npos (XO (XO (XO (XI (XO (XI
      XH))))))) :: ((Npos (XO (XO (XI (XO (XI (XI XH))))))) :: ((Npos (XO (XO
      (XI (XI (XI (XO XH))))))) :: ((Npos (XI (XO (XI (XI (XI (XI
      XH))))))) :: []))))))) :: (((Npos (XO (XI (XO (XO (XI (XI
      XH))))))) :: ((Npos (XI (XO (XO (XI (XO (XI XH))))))) :: ((Npos (XI (XI
      (XI (XO (XO (XI XH))))))) :: ((Npos (XO (XO (XO (XI (XO (XI
      XH))))))) :: ((Npos (XO (XO (XI (XO (XI (XI XH))))))) :: ((Npos (XI (XO
      (XI (XI (XI (XO XH))))))) :: [])))))) :: (((Npos (XO (XI (XO (XO (XI
      (XI XH))))))) :: ((Npos (XI (XO (XO (XI (XO (XI XH))))))) :: ((Npos (XI
      (XI (XI (XO (XO (XI XH))))))) :: ((Npos (XO (XO (XO (XI (XO (XI
      XH))))))) :: ((Npos (XO (XO (XI (XO (XI (XI XH))))))) :: ((Npos (XI (XI
      (XO (XI (XI (XI XH))))))) :: [])))))) :: (((Npos (XO (XI (XO (XO (XI
      (XI XH))))))) :: ((Npos (XI (XO (XO (XI (XO (XI XH))))))) :: ((Npos (XI
      (XI (XI (XO (XO (XI XH))))))) :: ((Npos (XO (XO (XO (XI (XO (XI
      XH))))))) :: ((Npos (XO (XO (XI (XO (XI (XI XH))))))) :: ((Npos (XO (XO
      (XI (XI (XI (XI XH))))))) :: [])))))) :: (((Npos (XO (XI (XO (XO (XI
      (XI XH))))))) :: ((Npos (XI (XO (XO (XI (XO (XI XH))))))) :: ((Npos (XI
      (XI (XI (XO (XO (XI XH))))))) :: ((Npos (XO (XO (XO (XI (XO (XI
      XH))))))) :: ((Npos (XO (XO (XI (XO (XI (XI XH))))))) :: ((Npos (XI (XO
      (XI (XI (XI (XI
      XH))))))) :: [])))))) :: [])))))))))))))))))))))))))))))))))))))))))))))))))))))))))))))))))))))))))))))))))))))))))))))))))))))))))))))))))))))))))))))))))))

  (** val signatures : (n list * (z * z)) list **)

  let signatures =
    (((Npos (XO (XO (XI (XO (XO (XI XH))))))) :: ((Npos (XI (XO (XI (XO (XO
      (XI XH))))))) :: ((Npos (XO (XI (XI (XO (XO (XI XH))))))) :: []))),
      ((Zpos (XO XH)), Z0)) :: ((((Npos (XO (XO (XI (XO (XI (XI
      XH))))))) :: ((Npos (XI (XO (XI (XO (XO (XI XH))))))) :: ((Npos (XO (XO
      (XO (XI (XI (XI XH))))))) :: ((Npos (XO (XO (XI (XO (XI (XI
      XH))))))) :: ((Npos (XO (XI (XO (XO (XO (XI XH))))))) :: ((Npos (XO (XI
      (XI (XO (XO (XI XH))))))) :: [])))))), ((Zpos XH), Z0)) :: ((((Npos (XI
      (XI (XO (XO (XI (XI XH))))))) :: ((Npos (XI (XO (XI (XO (XO (XI
      XH))))))) :: ((Npos (XI (XI (XO (XO (XO (XI XH))))))) :: ((Npos (XO (XO
      (XI (XO (XI (XI XH))))))) :: ((Npos (XI (XO (XO (XI (XO (XI
      XH))))))) :: ((Npos (XI (XI (XI (XI (XO (XI XH))))))) :: ((Npos (XO (XI
      (XI (XI (XO (XI XH))))))) :: []))))))), ((Zpos XH), (Zpos
      XH))) :: ((((Npos (XO (XO (XI (XI (XO (XI XH))))))) :: ((Npos (XI (XO
      (XO (XO (XO (XI XH))))))) :: ((Npos (XO (XI (XO (XO (XO (XI
      XH))))))) :: ((Npos (XI (XO (XI (XO (XO (XI XH))))))) :: ((Npos (XO (XO
      (XI (XI (XO (XI XH))))))) :: []))))), ((Zpos XH), Z0)) :: ((((Npos (XI
      (XI (XO (XO (XO (XI XH))))))) :: ((Npos (XI (XO (XO (XO (XO (XI
      XH))))))) :: ((Npos (XO (XO (XO (XO (XI (XI XH))))))) :: []))), (Z0,
      Z0)) :: ((((Npos (XI (XI (XO (XO (XO (XI XH))))))) :: ((Npos (XI (XO
      (XI (XO (XI (XI XH))))))) :: ((Npos (XO (XO (XO (XO (XI (XI
      XH))))))) :: []))), (Z0, Z0)) :: ((((Npos (XI (XO (XO (XI (XO (XI
      XH))))))) :: ((Npos (XO (XI (XI (XI (XO (XI XH))))))) :: [])), (Z0,
      Z0)) :: ((((Npos (XO (XI (XI (XI (XO (XI XH))))))) :: ((Npos (XI (XI
      (XI (XI (XO (XI XH))))))) :: ((Npos (XO (XO (XI (XO (XI (XI
      XH))))))) :: ((Npos (XI (XO (XO (XI (XO (XI XH))))))) :: ((Npos (XO (XI
      (XI (XI (XO (XI XH))))))) :: []))))), (Z0, Z0)) :: ((((Npos (XI (XO (XO
      (XI (XO (XI XH))))))) :: ((Npos (XO (XI (XI (XI (XO (XI
      XH))))))) :: ((Npos (XO (XI (XI (XO (XO (XI XH))))))) :: ((Npos (XO (XO
      (XI (XO (XI (XI XH))))))) :: ((Npos (XI (XO (XO (XI (XI (XI
      XH))))))) :: []))))), (Z0, Z0)) :: ((((Npos (XO (XI (XI (XI (XO (XI
      XH))))))) :: ((Npos (XI (XI (XI (XI (XO (XI XH))))))) :: ((Npos (XI (XO
      (XO (XI (XO (XI XH))))))) :: ((Npos (XO (XI (XI (XI (XO (XI
      XH))))))) :: ((Npos (XO (XO (XI (XO (XO (XI XH))))))) :: ((Npos (XI (XO
      (XI (XO (XO (XI XH))))))) :: ((Npos (XO (XI (XI (XI (XO (XI
      XH))))))) :: ((Npos (XO (XO (XI (XO (XI (XI XH))))))) :: [])))))))),
      (Z0, Z0)) :: [])))))))))

  (** val math_classes :
      (mathkind * ((tc * tc) * ((n list * n list) * n list))) list **)

  let math_classes =
    (MDisplay, ((TDisplayMathSwitch, TDisplayMathSwitch), ((((Npos (XO (XO
      (XI (XO (XO XH)))))) :: ((Npos (XO (XO (XI (XO (XO XH)))))) :: [])),
      ((Npos (XO (XO (XI (XO (XO XH)))))) :: ((Npos (XO (XO (XI (XO (XO
      XH)))))) :: []))), ((Npos (XO (XO (XI (XO (XO XH)))))) :: ((Npos (XO
      (XO (XI (XO (XO XH)))))) :: []))))) :: ((MInline, ((TMathSwitch,
      TMathSwitch), ((((Npos (XO (XO (XI (XO (XO XH)))))) :: []), ((Npos (XO
      (XO (XI (XO (XO XH)))))) :: [])), ((Npos (XO (XO (XI (XO (XO
      XH)))))) :: [])))) :: ((MBracket, ((TDisplayMathGroupBegin,
      TDisplayMathGroupEnd), ((((Npos (XO (XO (XI (XI (XI (XO
      XH))))))) :: ((Npos (XI (XI (XO (XI (XI (XO XH))))))) :: [])), ((Npos
      (XO (XO (XI (XI (XI (XO XH))))))) :: ((Npos (XI (XO (XI (XI (XI (XO
      XH))))))) :: []))), ((Npos (XO (XO (XI (XO (XO (XI XH))))))) :: ((Npos
      (XI (XO (XO (XI (XO (XI XH))))))) :: ((Npos (XI (XI (XO (XO (XI (XI
      XH))))))) :: ((Npos (XO (XO (XO (XO (XI (XI XH))))))) :: ((Npos (XO (XO
      (XI (XI (XO (XI XH))))))) :: ((Npos (XI (XO (XO (XO (XO (XI
      XH))))))) :: ((Npos (XI (XO (XO (XI (XI (XI XH))))))) :: ((Npos (XI (XO
      (XI (XI (XO (XI XH))))))) :: ((Npos (XI (XO (XO (XO (XO (XI
      XH))))))) :: ((Npos (XO (XO (XI (XO (XI (XI XH))))))) :: ((Npos (XO (XO
      (XO (XI (XO (XI XH))))))) :: [])))))))))))))) :: ((MParen,
      ((TMathGroupBegin, TMathGroupEnd), ((((Npos (XO (XO (XI (XI (XI (XO
      XH))))))) :: ((Npos (XO (XO (XO (XI (XO XH)))))) :: [])), ((Npos (XO
      (XO (XI (XI (XI (XO XH))))))) :: ((Npos (XI (XO (XO (XI (XO
      XH)))))) :: []))), ((Npos (XI (XO (XI (XI (XO (XI XH))))))) :: ((Npos
      (XI (XO (XO (XO (XO (XI XH))))))) :: ((Npos (XO (XO (XI (XO (XI (XI
      XH))))))) :: ((Npos (XO (XO (XO (XI (XO (XI
      XH))))))) :: []))))))) :: [])))

  (** val group_classes :
      (groupkind * ((tc * tc) * ((n list * n list) * n list))) list **)

  let group_classes =
    (GBracket, ((TBracketBegin, TBracketEnd), ((((Npos (XI (XI (XO (XI (XI
      (XO XH))))))) :: []), ((Npos (XI (XO (XI (XI (XI (XO XH))))))) :: [])),
      ((Npos (XO (XI (XO (XO (XO (XO XH))))))) :: ((Npos (XO (XI (XO (XO (XI
      (XI XH))))))) :: ((Npos (XI (XO (XO (XO (XO (XI XH))))))) :: ((Npos (XI
      (XI (XO (XO (XO (XI XH))))))) :: ((Npos (XI (XI (XO (XI (XO (XI
      XH))))))) :: ((Npos (XI (XO (XI (XO (XO (XI XH))))))) :: ((Npos (XO (XO
      (XI (XO (XI (XI XH))))))) :: ((Npos (XI (XI (XI (XO (XO (XO
      XH))))))) :: ((Npos (XO (XI (XO (XO (XI (XI XH))))))) :: ((Npos (XI (XI
      (XI (XI (XO (XI XH))))))) :: ((Npos (XI (XO (XI (XO (XI (XI
      XH))))))) :: ((Npos (XO (XO (XO (XO (XI (XI
      XH))))))) :: []))))))))))))))) :: ((GBrace, ((TGroupBegin, TGroupEnd),
      ((((Npos (XI (XI (XO (XI (XI (XI XH))))))) :: []), ((Npos (XI (XO (XI
      (XI (XI (XI XH))))))) :: [])), ((Npos (XO (XI (XO (XO (XO (XO
      XH))))))) :: ((Npos (XO (XI (XO (XO (XI (XI XH))))))) :: ((Npos (XI (XO
      (XO (XO (XO (XI XH))))))) :: ((Npos (XI (XI (XO (XO (XO (XI
      XH))))))) :: ((Npos (XI (XO (XI (XO (XO (XI XH))))))) :: ((Npos (XI (XI
      (XI (XO (XO (XO XH))))))) :: ((Npos (XO (XI (XO (XO (XI (XI
      XH))))))) :: ((Npos (XI (XI (XI (XI (XO (XI XH))))))) :: ((Npos (XI (XO
      (XI (XO (XI (XI XH))))))) :: ((Npos (XO (XO (XO (XO (XI (XI
      XH))))))) :: []))))))))))))) :: [])

  (** val py_whitespace : n list **)

  let py_whitespace =
    (Npos (XI (XO (XO XH)))) :: ((Npos (XO (XI (XO XH)))) :: ((Npos (XI (XI
      (XO XH)))) :: ((Npos (XO (XO (XI XH)))) :: ((Npos (XI (XO (XI
      XH)))) :: ((Npos (XO (XO (XI (XI XH))))) :: ((Npos (XI (XO (XI (XI
      XH))))) :: ((Npos (XO (XI (XI (XI XH))))) :: ((Npos (XI (XI (XI (XI
      XH))))) :: ((Npos (XO (XO (XO (XO (XO XH)))))) :: ((Npos (XI (XO (XI
      (XO (XO (XO (XO XH)))))))) :: ((Npos (XO (XO (XO (XO (XO (XI (XO
      XH)))))))) :: ((Npos (XO (XO (XO (XO (XO (XO (XO (XI (XO (XI (XI (XO
      XH))))))))))))) :: ((Npos (XO (XO (XO (XO (XO (XO (XO (XO (XO (XO (XO
      (XO (XO XH)))))))))))))) :: ((Npos (XI (XO (XO (XO (XO (XO (XO (XO (XO
      (XO (XO (XO (XO XH)))))))))))))) :: ((Npos (XO (XI (XO (XO (XO (XO (XO
      (XO (XO (XO (XO (XO (XO XH)))))))))))))) :: ((Npos (XI (XI (XO (XO (XO
      (XO (XO (XO (XO (XO (XO (XO (XO XH)))))))))))))) :: ((Npos (XO (XO (XI
      (XO (XO (XO (XO (XO (XO (XO (XO (XO (XO XH)))))))))))))) :: ((Npos (XI
      (XO (XI (XO (XO (XO (XO (XO (XO (XO (XO (XO (XO
      XH)))))))))))))) :: ((Npos (XO (XI (XI (XO (XO (XO (XO (XO (XO (XO (XO
      (XO (XO XH)))))))))))))) :: ((Npos (XI (XI (XI (XO (XO (XO (XO (XO (XO
      (XO (XO (XO (XO XH)))))))))))))) :: ((Npos (XO (XO (XO (XI (XO (XO (XO
      (XO (XO (XO (XO (XO (XO XH)))))))))))))) :: ((Npos (XI (XO (XO (XI (XO
      (XO (XO (XO (XO (XO (XO (XO (XO XH)))))))))))))) :: ((Npos (XO (XI (XO
      (XI (XO (XO (XO (XO (XO (XO (XO (XO (XO XH)))))))))))))) :: ((Npos (XO
      (XO (XO (XI (XO (XI (XO (XO (XO (XO (XO (XO (XO
      XH)))))))))))))) :: ((Npos (XI (XO (XO (XI (XO (XI (XO (XO (XO (XO (XO
      (XO (XO XH)))))))))))))) :: ((Npos (XI (XI (XI (XI (XO (XI (XO (XO (XO
      (XO (XO (XO (XO XH)))))))))))))) :: ((Npos (XI (XI (XI (XI (XI (XO (XI
      (XO (XO (XO (XO (XO (XO XH)))))))))))))) :: ((Npos (XO (XO (XO (XO (XO
      (XO (XO (XO (XO (XO (XO (XO (XI
      XH)))))))))))))) :: []))))))))))))))))))))))))))))
 end

type cchar = { ch : n; cpos : z; ccat : cc }

(** val lookup_cat : (cc * n list) list -> n -> cc option **)

let rec lookup_cat tbl c =
  match tbl with
  | [] -> None
  | p :: tbl' ->
    let (k, vs) = p in if mem_N c vs then Some k else lookup_cat tbl' c

(** val categorize_char : n -> cc **)

let categorize_char c =
  match lookup_cat Tables.category_table c with
  | Some k -> k
  | None -> COther

(** val categorize_from : z -> str -> cchar list **)

let rec categorize_from p = function
| [] -> []
| c :: s' ->
  { ch = c; cpos = p; ccat =
    (categorize_char c) } :: (categorize_from (Z.add p (Zpos XH)) s')

(** val categorize : str -> cchar list **)

let categorize s =
  categorize_from Z0 s

(** val chars_of : cchar list -> str **)

let chars_of cs =
  map (fun c -> c.ch) cs

type token = { ttext : str; tpos : z; tcat : tc }

type rres =
| RNone
| RTok of token * cchar list
| RSkip of cchar list
| RErr

(** val take_while :
    (cchar -> bool) -> cchar list -> cchar list * cchar list **)

let rec take_while p l = match l with
| [] -> ([], [])
| c :: l' ->
  if p c then let (a, b) = take_while p l' in ((c :: a), b) else ([], l)

(** val is_cat : cc -> cchar -> bool **)

let is_cat k c =
  cc_beq c.ccat k

(** val mk_tok : cchar list -> z -> tc -> token **)

let mk_tok cs idx k =
  { ttext = (chars_of cs); tpos =
    (match cs with
     | [] -> idx
     | c :: _ -> c.cpos); tcat = k }

(** val rule_escaped_symbols : cchar list -> rres **)

let rule_escaped_symbols = function
| [] -> RErr
| c0 :: rest1 ->
  if is_cat CEscape c0
  then (match rest1 with
        | [] -> RNone
        | c1 :: rest2 ->
          if mem_cc c1.ccat Tables.escaped_second_cats
          then RTok ({ ttext = (c0.ch :: (c1.ch :: [])); tpos = c0.cpos;
                 tcat = TEscapedComment }, rest2)
          else RNone)
  else RNone

(** val comment_allowed : token option -> bool **)

let comment_allowed = function
| Some t -> negb (N.eqb (Tables.tc_value t.tcat) (Tables.cc_value CComment))
| None -> true

(** val rule_comment : token option -> cchar list -> rres **)

let rule_comment prev = function
| [] -> RErr
| c0 :: rest1 ->
  if (&&) (is_cat CComment c0) (comment_allowed prev)
  then let (body, rest2) =
         take_while (fun c -> negb (is_cat CEndOfLine c)) rest1
       in
       RTok ({ ttext = (c0.ch :: (chars_of body)); tpos = c0.cpos; tcat =
       TComment }, rest2)
  else RNone

(** val rule_math_sym_switch : cchar list -> rres **)

let rule_math_sym_switch = function
| [] -> RErr
| c0 :: rest1 ->
  if is_cat CMathSwitch c0
  then (match rest1 with
        | [] ->
          RTok ({ ttext = (c0.ch :: []); tpos = c0.cpos; tcat =
            TMathSwitch }, rest1)
        | c1 :: rest2 ->
          if is_cat CMathSwitch c1
          then RTok ({ ttext = (c0.ch :: (c1.ch :: [])); tpos = c0.cpos;
                 tcat = TDisplayMathSwitch }, rest2)
          else RTok ({ ttext = (c0.ch :: []); tpos = c0.cpos; tcat =
                 TMathSwitch }, rest1))
  else RNone

(** val lookup_asym : ((cc * cc) * tc) list -> cc -> cc -> tc option **)

let rec lookup_asym m a b =
  match m with
  | [] -> None
  | p :: m' ->
    let (p0, t) = p in
    let (x, y) = p0 in
    if (&&) (cc_beq a x) (cc_beq b y) then Some t else lookup_asym m' a b

(** val rule_math_asym_switch : cchar list -> rres **)

let rule_math_asym_switch = function
| [] -> RNone
| c0 :: l ->
  (match l with
   | [] -> RNone
   | c1 :: rest2 ->
     (match lookup_asym Tables.asym_map c0.ccat c1.ccat with
      | Some t ->
        RTok ({ ttext = (c0.ch :: (c1.ch :: [])); tpos = c0.cpos; tcat = t },
          rest2)
      | None -> RNone))

(** val rule_line_break : cchar list -> rres **)

let rule_line_break = function
| [] -> RErr
| c0 :: rest1 ->
  if is_cat CEscape c0
  then (match rest1 with
        | [] -> RNone
        | c1 :: rest2 ->
          if is_cat CEscape c1
          then RTok ({ ttext = (c0.ch :: (c1.ch :: [])); tpos = c0.cpos;
                 tcat = TLineBreak }, rest2)
          else RNone)
  else RNone

(** val rule_ignore : cchar list -> rres **)

let rule_ignore rest =
  let (skipped, rest') =
    take_while (fun c -> mem_cc c.ccat Tables.ignore_cats) rest
  in
  (match skipped with
   | [] -> RNone
   | _ :: _ -> RSkip rest')

(** val rule_spacers : z -> cchar list -> rres **)

let rule_spacers idx rest =
  let (s1, r1) = take_while (is_cat CSpacer) rest in
  (match r1 with
   | [] ->
     let e = [] in
     let (s2, r3) = take_while (is_cat CSpacer) r1 in
     let consumed = app s1 (app e s2) in
     (match r3 with
      | [] ->
        (match consumed with
         | [] -> RNone
         | _ :: _ -> RTok ((mk_tok consumed idx TMergedSpacer), r3))
      | c :: _ ->
        if mem_cc c.ccat Tables.spacer_rollback_cats
        then RNone
        else (match consumed with
              | [] -> RNone
              | _ :: _ -> RTok ((mk_tok consumed idx TMergedSpacer), r3)))
   | c :: r' ->
     if is_cat CEndOfLine c
     then let e = c :: [] in
          let (s2, r3) = take_while (is_cat CSpacer) r' in
          let consumed = app s1 (app e s2) in
          (match r3 with
           | [] ->
             (match consumed with
              | [] -> RNone
              | _ :: _ -> RTok ((mk_tok consumed idx TMergedSpacer), r3))
           | c0 :: _ ->
             if mem_cc c0.ccat Tables.spacer_rollback_cats
             then RNone
             else (match consumed with
                   | [] -> RNone
                   | _ :: _ -> RTok ((mk_tok consumed idx TMergedSpacer), r3)))
     else let e = [] in
          let (s2, r3) = take_while (is_cat CSpacer) r1 in
          let consumed = app s1 (app e s2) in
          (match r3 with
           | [] ->
             (match consumed with
              | [] -> RNone
              | _ :: _ -> RTok ((mk_tok consumed idx TMergedSpacer), r3))
           | c0 :: _ ->
             if mem_cc c0.ccat Tables.spacer_rollback_cats
             then RNone
             else (match consumed with
                   | [] -> RNone
                   | _ :: _ -> RTok ((mk_tok consumed idx TMergedSpacer), r3))))

(** val lookup_sym : (cc * tc) list -> cc -> tc option **)

let rec lookup_sym m a =
  match m with
  | [] -> None
  | p :: m' ->
    let (x, t) = p in if cc_beq a x then Some t else lookup_sym m' a

(** val rule_symbols : cchar list -> rres **)

let rule_symbols = function
| [] -> RErr
| c0 :: rest1 ->
  (match lookup_sym Tables.symbols_map c0.ccat with
   | Some t ->
     RTok ({ ttext = (c0.ch :: []); tpos = c0.cpos; tcat = t }, rest1)
   | None -> RNone)

(** val prev_is_escape : cchar option -> bool **)

let prev_is_escape = function
| Some p -> is_cat CEscape p
| None -> false

(** val find_point : str list -> str -> str option **)

let rec find_point points s =
  match points with
  | [] -> None
  | p :: ps ->
    if str_eqb (firstn (length p) s) p then Some p else find_point ps s

(** val rule_punctuation : str list -> cchar option -> cchar list -> rres **)

let rule_punctuation points prevc rest =
  if prev_is_escape prevc
  then (match find_point points (chars_of rest) with
        | Some p ->
          let k = length p in
          (match firstn k rest with
           | [] -> RNone
           | c0 :: _ ->
             RTok ({ ttext = p; tpos = c0.cpos; tcat =
               TPunctuationCommandName }, (skipn k rest)))
        | None -> RNone)
  else RNone

(** val star : n **)

let star =
  Npos (XO (XI (XO (XI (XO XH)))))

(** val rule_command_name : cchar option -> cchar list -> rres **)

let rule_command_name prevc rest =
  if prev_is_escape prevc
  then (match rest with
        | [] -> RErr
        | c0 :: rest1 ->
          if is_cat CLetter c0
          then let (more, rest2) =
                 take_while (fun c ->
                   (||) (is_cat CLetter c) (N.eqb c.ch star)) rest1
               in
               RTok ({ ttext = (c0.ch :: (chars_of more)); tpos = c0.cpos;
               tcat = TCommandName }, rest2)
          else RNone)
  else RNone

(** val rule_string : z -> cchar list -> rres **)

let rule_string idx rest =
  let (body, rest') =
    take_while (fun c -> negb (mem_cc c.ccat Tables.string_stop_cats)) rest
  in
  RTok ((mk_tok body idx TText), rest')

type rctx = { cx_idx : z; cx_prev : token option;
              cx_prevc_punct : cchar option; cx_prevc_cmd : cchar option;
              cx_points : str list }

(** val run_rule : rule_id -> rctx -> cchar list -> rres **)

let run_rule r cx rest =
  match r with
  | R_escaped_symbols -> rule_escaped_symbols rest
  | R_comment -> rule_comment cx.cx_prev rest
  | R_math_sym_switch -> rule_math_sym_switch rest
  | R_math_asym_switch -> rule_math_asym_switch rest
  | R_line_break -> rule_line_break rest
  | R_ignore -> rule_ignore rest
  | R_spacers -> rule_spacers cx.cx_idx rest
  | R_symbols -> rule_symbols rest
  | R_punctuation_command_name ->
    rule_punctuation cx.cx_points cx.cx_prevc_punct rest
  | R_command_name -> rule_command_name cx.cx_prevc_cmd rest
  | R_string -> rule_string cx.cx_idx rest

(** val run_rules : rule_id list -> rctx -> cchar list -> rres **)

let rec run_rules rules cx rest =
  match rules with
  | [] -> RNone
  | r :: rs ->
    (match run_rule r cx rest with
     | RNone -> run_rules rs cx rest
     | x -> x)

(** val max_point_len : str list -> nat **)

let max_point_len points =
  fold_right (fun p m -> Nat.max (length p) m) O points

(** val start_prev_punct : cchar list -> cchar option **)

let start_prev_punct = function
| [] -> None
| c0 :: l -> (match l with
              | [] -> Some c0
              | c1 :: _ -> Some c1)

(** val start_prev_cmd : str list -> cchar list -> cchar option **)

let start_prev_cmd points cs =
  if prev_is_escape (start_prev_punct cs)
  then nth_error cs
         (sub (Nat.min (length cs) (S (max_point_len points))) (S O))
  else start_prev_punct cs

type tok_end =
| TEnd
| TEndErr
| TEndHang
| TEndFuel

(** val last_consumed : cchar list -> cchar list -> cchar option **)

let last_consumed rest rest' =
  nth_error rest (sub (sub (length rest) (length rest')) (S O))

(** val tokenize_loop :
    nat -> str list -> z -> cchar option -> cchar option -> token option ->
    cchar list -> token list * tok_end **)

let rec tokenize_loop fuel points idx pp pc prev rest =
  match fuel with
  | O -> ([], TEndFuel)
  | S f ->
    (match rest with
     | [] -> ([], TEnd)
     | _ :: _ ->
       (match run_rules Tables.rule_order { cx_idx = idx; cx_prev = prev;
                cx_prevc_punct = pp; cx_prevc_cmd = pc; cx_points = points }
                rest with
        | RNone -> ([], TEndHang)
        | RTok (t, rest') ->
          let k = Z.of_nat (sub (length rest) (length rest')) in
          let lc = last_consumed rest rest' in
          let (ts, e) =
            tokenize_loop f points (Z.add idx k) lc lc (Some t) rest'
          in
          ((t :: ts), e)
        | RSkip rest' ->
          let k = Z.of_nat (sub (length rest) (length rest')) in
          let lc = last_consumed rest rest' in
          tokenize_loop f points (Z.add idx k) lc lc prev rest'
        | RErr -> ([], TEndErr)))

(** val tokenize_with : str list -> cchar list -> token list * tok_end **)

let tokenize_with points cs =
  tokenize_loop (S (length cs)) points Z0 (start_prev_punct cs)
    (start_prev_cmd points cs) None cs

(** val tokenize : cchar list -> token list * tok_end **)

let tokenize cs =
  tokenize_with Tables.punctuation_commands cs

(** val tokens_of_string : str -> token list * tok_end **)

let tokens_of_string s =
  tokenize (categorize s)

type expr =
| EText of token
| ERaw of str * z
| EStr of str
| ECmd of str * expr list * expr list * z
| ENamed of str * expr list * expr list * z
| EMath of mathkind * expr list * z
| EGroup of groupkind * expr list * z
| ERoot of expr list

(** val lookup_mk : mathkind -> (mathkind * 'a1) list -> 'a1 option **)

let rec lookup_mk k = function
| [] -> None
| p :: l' ->
  let (k', v) = p in if mathkind_beq k k' then Some v else lookup_mk k l'

(** val lookup_gk : groupkind -> (groupkind * 'a1) list -> 'a1 option **)

let rec lookup_gk k = function
| [] -> None
| p :: l' ->
  let (k', v) = p in if groupkind_beq k k' then Some v else lookup_gk k l'

(** val math_begin : mathkind -> str **)

let math_begin k =
  match lookup_mk k Tables.math_classes with
  | Some p -> let (_, p1) = p in let (p2, _) = p1 in let (b, _) = p2 in b
  | None -> []

(** val math_end : mathkind -> str **)

let math_end k =
  match lookup_mk k Tables.math_classes with
  | Some p -> let (_, p1) = p in let (p2, _) = p1 in let (_, e) = p2 in e
  | None -> []

(** val math_tok_end : mathkind -> tc option **)

let math_tok_end k =
  match lookup_mk k Tables.math_classes with
  | Some p -> let (p0, _) = p in let (_, e) = p0 in Some e
  | None -> None

(** val group_begin : groupkind -> str **)

let group_begin k =
  match lookup_gk k Tables.group_classes with
  | Some p -> let (_, p1) = p in let (p2, _) = p1 in let (b, _) = p2 in b
  | None -> []

(** val group_end : groupkind -> str **)

let group_end k =
  match lookup_gk k Tables.group_classes with
  | Some p -> let (_, p1) = p in let (p2, _) = p1 in let (_, e) = p2 in e
  | None -> []

(** val group_tok_end : groupkind -> tc option **)

let group_tok_end k =
  match lookup_gk k Tables.group_classes with
  | Some p -> let (p0, _) = p in let (_, e) = p0 in Some e
  | None -> None

(** val backslash : n **)

let backslash =
  Npos (XO (XO (XI (XI (XI (XO XH))))))

(** val s_begin_open : str **)

let s_begin_open =
  (Npos (XO (XO (XI (XI (XI (XO XH))))))) :: ((Npos (XO (XI (XO (XO (XO (XI
    XH))))))) :: ((Npos (XI (XO (XI (XO (XO (XI XH))))))) :: ((Npos (XI (XI
    (XI (XO (XO (XI XH))))))) :: ((Npos (XI (XO (XO (XI (XO (XI
    XH))))))) :: ((Npos (XO (XI (XI (XI (XO (XI XH))))))) :: ((Npos (XI (XI
    (XO (XI (XI (XI XH))))))) :: []))))))

(** val s_end_open : str **)

let s_end_open =
  (Npos (XO (XO (XI (XI (XI (XO XH))))))) :: ((Npos (XI (XO (XI (XO (XO (XI
    XH))))))) :: ((Npos (XO (XI (XI (XI (XO (XI XH))))))) :: ((Npos (XO (XO
    (XI (XO (XO (XI XH))))))) :: ((Npos (XI (XI (XO (XI (XI (XI
    XH))))))) :: []))))

(** val s_close : str **)

let s_close =
  (Npos (XI (XO (XI (XI (XI (XI XH))))))) :: []

(** val env_begin : str -> str **)

let env_begin name =
  app s_begin_open (app name s_close)

(** val env_end : str -> str **)

let env_end name =
  app s_end_open (app name s_close)

(** val estr : expr -> str **)

let rec estr = function
| EText t -> t.ttext
| ERaw (s, _) -> s
| EStr s -> s
| ECmd (n0, a, b, _) ->
  backslash :: (app n0 (app (concat (map estr a)) (concat (map estr b))))
| ENamed (n0, a, b, _) ->
  app (env_begin n0)
    (app (concat (map estr a)) (app (concat (map estr b)) (env_end n0)))
| EMath (k, b, _) ->
  app (math_begin k) (app (concat (map estr b)) (math_end k))
| EGroup (k, b, _) ->
  app (group_begin k) (app (concat (map estr b)) (group_end k))
| ERoot b -> concat (map estr b)

(** val estr_list : expr list -> str **)

let estr_list l =
  concat (map estr l)

(** val arg_string : expr -> str **)

let arg_string = function
| EText t -> t.ttext
| ERaw (s, _) -> s
| EStr s -> s
| ECmd (_, _, b, _) -> estr_list b
| ENamed (_, _, b, _) -> estr_list b
| EMath (_, b, _) -> estr_list b
| EGroup (_, b, _) -> estr_list b
| ERoot b -> estr_list b

(** val is_ws : n -> bool **)

let is_ws c =
  mem_N c Tables.py_whitespace

(** val lstrip : str -> str **)

let rec lstrip s = match s with
| [] -> []
| c :: s' -> if is_ws c then lstrip s' else s

(** val strip : str -> str **)

let strip s =
  rev (lstrip (rev (lstrip s)))

type err =
| EOFError
| TypeError
| AssertionError
| StopIteration
| KeyError
| TokenizerError
| OutOfFuel

type 'a res =
| Ok of 'a
| Err of err

(** val bind : 'a1 res -> ('a1 -> 'a2 res) -> 'a2 res **)

let bind r f =
  match r with
  | Ok a -> f a
  | Err e -> Err e

type mode =
| MNonMath
| MMath
| MSpecial

(** val mode_is_math : mode -> bool **)

let mode_is_math = function
| MMath -> true
| _ -> false

(** val mode_is_special : mode -> bool **)

let mode_is_special = function
| MSpecial -> true
| _ -> false

(** val s_item : str **)

let s_item =
  (Npos (XI (XO (XO (XI (XO (XI XH))))))) :: ((Npos (XO (XO (XI (XO (XI (XI
    XH))))))) :: ((Npos (XI (XO (XI (XO (XO (XI XH))))))) :: ((Npos (XI (XO
    (XI (XI (XO (XI XH))))))) :: [])))

(** val s_begin : str **)

let s_begin =
  (Npos (XO (XI (XO (XO (XO (XI XH))))))) :: ((Npos (XI (XO (XI (XO (XO (XI
    XH))))))) :: ((Npos (XI (XI (XI (XO (XO (XI XH))))))) :: ((Npos (XI (XO
    (XO (XI (XO (XI XH))))))) :: ((Npos (XO (XI (XI (XI (XO (XI
    XH))))))) :: []))))

(** val s_end : str **)

let s_end =
  (Npos (XI (XO (XI (XO (XO (XI XH))))))) :: ((Npos (XO (XI (XI (XI (XO (XI
    XH))))))) :: ((Npos (XO (XO (XI (XO (XO (XI XH))))))) :: []))

(** val is_tc : tc -> token -> bool **)

let is_tc k t =
  tc_beq t.tcat k

(** val math_kind_of_begin_in :
    (mathkind * ((tc * tc) * ((str * str) * str))) list -> tc -> mathkind
    option **)

let rec math_kind_of_begin_in l c =
  match l with
  | [] -> None
  | p :: l' ->
    let (k, p0) = p in
    let (p1, _) = p0 in
    let (b, _) = p1 in
    if tc_beq c b then Some k else math_kind_of_begin_in l' c

(** val math_kind_of_begin : tc -> mathkind option **)

let math_kind_of_begin c =
  math_kind_of_begin_in Tables.math_classes c

(** val group_kind_of_begin_in :
    (groupkind * ((tc * tc) * ((str * str) * str))) list -> tc -> groupkind
    option **)

let rec group_kind_of_begin_in l c =
  match l with
  | [] -> None
  | p :: l' ->
    let (k, p0) = p in
    let (p1, _) = p0 in
    let (b, _) = p1 in
    if tc_beq c b then Some k else group_kind_of_begin_in l' c

(** val group_kind_of_begin : tc -> groupkind option **)

let group_kind_of_begin c =
  group_kind_of_begin_in Tables.group_classes c

(** val is_group_end : groupkind -> token -> bool **)

let is_group_end k t =
  match group_tok_end k with
  | Some e -> is_tc e t
  | None -> false

(** val is_math_end : mathkind -> token -> bool **)

let is_math_end k t =
  match math_tok_end k with
  | Some e -> is_tc e t
  | None -> false

(** val read_spacer : token list -> bool * token list **)

let read_spacer toks = match toks with
| [] -> (false, toks)
| t :: rest -> if is_tc TMergedSpacer t then (true, rest) else (false, toks)

(** val signature_of : str -> z * z **)

let signature_of name =
  match assoc_str name Tables.signatures with
  | Some s -> s
  | None -> ((Zneg XH), (Zneg XH))

(** val texts : token list -> str **)

let texts toks =
  concat (map (fun t -> t.ttext) toks)

(** val skip_scan : str -> str -> token list -> str * token list **)

let rec skip_scan target acc toks = match toks with
| [] -> (acc, [])
| t :: rest ->
  if starts_with (texts (firstn (length target) toks)) target
  then (acc, toks)
  else skip_scan target (app acc t.ttext) rest

(** val read_skip_env :
    str -> expr list -> z -> token list -> (expr * token list) res **)

let read_skip_env name args pos toks =
  let target = env_end name in
  let (body, rest) = skip_scan target [] toks in
  (match toks with
   | [] -> Err EOFError
   | t0 :: _ ->
     (match rest with
      | [] -> Err EOFError
      | _ :: _ ->
        if starts_with (texts (firstn (length target) rest)) target
        then Ok ((ENamed (name, args, ((ERaw (body, t0.tpos)) :: []), pos)),
               (skipn (S (S (S (S (S O))))) rest))
        else Err EOFError))

(** val read_expr :
    nat -> str list -> bool -> mode -> token list -> (expr * token list) res **)

let rec read_expr fuel skip strict m toks =
  match fuel with
  | O -> Err OutOfFuel
  | S f ->
    (match toks with
     | [] -> Err StopIteration
     | c :: src ->
       (match math_kind_of_begin c.tcat with
        | Some k -> read_math_loop f k c.tpos strict [] src
        | None ->
          if is_tc TEscape c
          then bind (read_command f (Zneg XH) (Zneg XH) O strict m src)
                 (fun pat ->
                 let (p, src1) = pat in
                 let (name, args) = p in
                 if str_eqb name s_item
                 then if mode_is_math m
                      then Err AssertionError
                      else bind (read_item_loop f [] src1) (fun pat0 ->
                             let (contents, src2) = pat0 in
                             Ok ((ECmd ((strip name), args, contents,
                             c.tpos)), src2))
                 else if (&&) (str_eqb name s_begin)
                           (negb (mode_is_special m))
                      then (match args with
                            | [] -> Err AssertionError
                            | a0 :: args' ->
                              let ename = strip (arg_string a0) in
                              let m' =
                                if mem_str ename Tables.math_env_names
                                then MMath
                                else m
                              in
                              if mem_str ename skip
                              then read_skip_env ename args' c.tpos src1
                              else read_env_loop f ename args' c.tpos skip
                                     strict m' [] src1)
                      else Ok ((ECmd ((strip name), args, [], c.tpos)), src1))
          else if is_tc TGroupBegin c
               then read_arg f c strict MNonMath src
               else Ok ((EText c), src)))

(** val read_item_loop :
    nat -> expr list -> token list -> (expr list * token list) res **)

and read_item_loop fuel acc toks =
  match fuel with
  | O -> Err OutOfFuel
  | S f ->
    (match toks with
     | [] -> Ok (acc, toks)
     | t :: _ ->
       let step =
         bind (read_expr f [] true MNonMath toks) (fun pat ->
           let (e, src1) = pat in read_item_loop f (app acc (e :: [])) src1)
       in
       if is_tc TEscape t
       then bind
              (read_command f (Zneg XH) (Zneg XH) (S O) true MNonMath toks)
              (fun pat ->
              let (p, _) = pat in
              let (cname, _) = p in
              if (||) (str_eqb cname s_end) (str_eqb cname s_item)
              then Ok (acc, toks)
              else step)
       else if is_tc TGroupEnd t then Ok (acc, toks) else step)

(** val read_math_loop :
    nat -> mathkind -> z -> bool -> expr list -> token list -> (expr * token
    list) res **)

and read_math_loop fuel k pos strict acc toks =
  match fuel with
  | O -> Err OutOfFuel
  | S f ->
    (match toks with
     | [] -> Err EOFError
     | t :: src ->
       if is_math_end k t
       then Ok ((EMath (k, acc, pos)), src)
       else bind (read_expr f [] strict MMath toks) (fun pat ->
              let (e, src1) = pat in
              read_math_loop f k pos strict (app acc (e :: [])) src1))

(** val read_env_loop :
    nat -> str -> expr list -> z -> str list -> bool -> mode -> expr list ->
    token list -> (expr * token list) res **)

and read_env_loop fuel name args pos skip strict m acc toks =
  match fuel with
  | O -> Err OutOfFuel
  | S f ->
    let finish = fun eargs ->
      let error =
        match toks with
        | [] -> true
        | _ :: _ ->
          (match eargs with
           | Some l0 ->
             (match l0 with
              | [] -> true
              | a0 :: _ -> negb (str_eqb (arg_string a0) name))
           | None -> true)
      in
      if error
      then if strict
           then Err EOFError
           else Ok ((ENamed (name, args, acc, pos)), toks)
      else let (_, src2) = read_spacer (skipn (S (S O)) toks) in
           (match src2 with
            | [] -> Err StopIteration
            | c :: src3 ->
              bind (read_arg f c strict m src3) (fun pat ->
                let (_, rest) = pat in
                Ok ((ENamed (name, args, acc, pos)), rest)))
    in
    (match toks with
     | [] -> finish None
     | t :: _ ->
       let step =
         bind (read_expr f skip strict m toks) (fun pat ->
           let (e, src1) = pat in
           read_env_loop f name args pos skip strict m (app acc (e :: []))
             src1)
       in
       if is_tc TEscape t
       then bind (read_command f (Zneg XH) (Zneg XH) (S O) strict m toks)
              (fun pat ->
              let (p, _) = pat in
              let (cname, cargs) = p in
              if str_eqb cname s_end then finish (Some cargs) else step)
       else step)

(** val read_command :
    nat -> z -> z -> nat -> bool -> mode -> token list -> ((str * expr
    list) * token list) res **)

and read_command fuel nreq nopt skip strict m toks =
  match fuel with
  | O -> Err OutOfFuel
  | S f ->
    if Nat.ltb (length toks) skip
    then Err StopIteration
    else (match skipn skip toks with
          | [] -> Ok (([], []), [])
          | name :: src ->
            let m' =
              if mem_str name.ttext Tables.special_commands
              then MSpecial
              else m
            in
            let (nreq', nopt') =
              if (&&) (Z.ltb nreq Z0) (Z.ltb nopt Z0)
              then signature_of name.ttext
              else (nreq, nopt)
            in
            bind (read_args f nreq' nopt' strict m' src) (fun pat ->
              let (args, src1) = pat in Ok ((name.ttext, args), src1)))

(** val read_args :
    nat -> z -> z -> bool -> mode -> token list -> (expr list * token list)
    res **)

and read_args fuel nreq nopt strict m toks =
  match fuel with
  | O -> Err OutOfFuel
  | S f ->
    if (&&) (Z.eqb nreq Z0) (Z.eqb nopt Z0)
    then Ok ([], toks)
    else bind (read_arg_optional f [] nopt strict m toks) (fun pat ->
           let (p, src1) = pat in
           let (args1, nopt1) = p in
           bind (read_arg_required f args1 nreq strict m src1) (fun pat0 ->
             let (p0, src2) = pat0 in
             let (args2, nreq1) = p0 in
             bind
               (match src2 with
                | [] -> Ok ((args2, nopt1), src2)
                | t :: _ ->
                  if is_tc TBracketBegin t
                  then read_arg_optional f args2 nopt1 strict m src2
                  else Ok ((args2, nopt1), src2)) (fun pat1 ->
               let (p1, src3) = pat1 in
               let (args3, _) = p1 in
               bind
                 (match src3 with
                  | [] -> Ok ((args3, nreq1), src3)
                  | t :: _ ->
                    if is_tc TGroupBegin t
                    then read_arg_required f args3 nreq1 strict m src3
                    else Ok ((args3, nreq1), src3)) (fun pat2 ->
                 let (p2, src4) = pat2 in
                 let (args4, _) = p2 in Ok (args4, src4)))))

(** val read_arg_optional :
    nat -> expr list -> z -> bool -> mode -> token list -> ((expr
    list * z) * token list) res **)

and read_arg_optional fuel args nopt strict m toks =
  match fuel with
  | O -> Err OutOfFuel
  | S f ->
    if Z.eqb nopt Z0
    then Ok ((args, nopt), toks)
    else let (_, src1) = read_spacer toks in
         (match src1 with
          | [] -> Ok ((args, nopt), toks)
          | c :: src2 ->
            if is_tc TBracketBegin c
            then bind (read_arg f c strict m src2) (fun pat ->
                   let (g, src3) = pat in
                   read_arg_optional f (app args (g :: []))
                     (Z.sub nopt (Zpos XH)) strict m src3)
            else Ok ((args, nopt), toks))

(** val read_arg_required :
    nat -> expr list -> z -> bool -> mode -> token list -> ((expr
    list * z) * token list) res **)

and read_arg_required fuel args nreq strict m toks =
  match fuel with
  | O -> Err OutOfFuel
  | S f ->
    if Z.eqb nreq Z0
    then Ok ((args, nreq), toks)
    else (match toks with
          | [] -> Ok ((args, nreq), toks)
          | _ :: _ ->
            let (_, src1) = read_spacer toks in
            (match src1 with
             | [] -> Ok ((args, nreq), toks)
             | c :: src2 ->
               if is_tc TGroupBegin c
               then bind (read_arg f c strict m src2) (fun pat ->
                      let (g, src3) = pat in
                      read_arg_required f (app args (g :: []))
                        (Z.sub nreq (Zpos XH)) strict m src3)
               else if Z.ltb Z0 nreq
                    then if is_tc TEscape c
                         then bind (read_command f Z0 Z0 O strict m src2)
                                (fun pat ->
                                let (p, src3) = pat in
                                let (name, _) = p in
                                read_arg_required f
                                  (app args ((ECmd ((strip name), [], [],
                                    c.tpos)) :: [])) (Z.sub nreq (Zpos XH))
                                  strict m src3)
                         else read_arg_required f
                                (app args ((EGroup (GBrace, ((EStr
                                  c.ttext) :: []), (Zneg XH))) :: []))
                                (Z.sub nreq (Zpos XH)) strict m src2
                    else Ok ((args, nreq), toks)))

(** val read_arg :
    nat -> token -> bool -> mode -> token list -> (expr * token list) res **)

and read_arg fuel c strict m toks =
  match fuel with
  | O -> Err OutOfFuel
  | S f ->
    (match group_kind_of_begin c.tcat with
     | Some k -> read_arg_loop f k c.tpos strict m [] toks
     | None -> Err KeyError)

(** val read_arg_loop :
    nat -> groupkind -> z -> bool -> mode -> expr list -> token list ->
    (expr * token list) res **)

and read_arg_loop fuel k pos strict m acc toks =
  match fuel with
  | O -> Err OutOfFuel
  | S f ->
    (match toks with
     | [] ->
       if strict then Err TypeError else Ok ((EGroup (k, acc, pos)), toks)
     | t :: src ->
       if is_group_end k t
       then Ok ((EGroup (k, acc, pos)), src)
       else bind (read_expr f [] strict m toks) (fun pat ->
              let (e, src1) = pat in
              read_arg_loop f k pos strict m (app acc (e :: [])) src1))

(** val read_tex_loop :
    nat -> nat -> str list -> bool -> expr list -> token list -> expr list res **)

let rec read_tex_loop fuel efuel skip strict acc toks =
  match fuel with
  | O -> Err OutOfFuel
  | S f ->
    (match toks with
     | [] -> Ok acc
     | _ :: _ ->
       bind (read_expr efuel skip strict MNonMath toks) (fun pat ->
         let (e, rest) = pat in
         read_tex_loop f efuel skip strict (app acc (e :: [])) rest))

(** val fuel_for : token list -> nat **)

let fuel_for toks =
  add (mul (S (S (S (S O)))) (length toks)) (S (S (S (S (S (S (S (S O))))))))

(** val parse_tokens : token list -> bool -> str list -> expr res **)

let parse_tokens toks strict user_skip =
  bind
    (read_tex_loop (S (length toks)) (fuel_for toks)
      (app Tables.skip_env_names user_skip) strict [] toks) (fun body -> Ok
    (ERoot body))

(** val parse : str -> bool -> str list -> expr res **)

let parse s strict user_skip =
  let (toks, t) = tokens_of_string s in
  (match t with
   | TEnd -> parse_tokens toks strict user_skip
   | _ -> Err TokenizerError)

(** val run_clo : z list -> z list **)

let run_clo _ =
  []

(** val run_buf : z list -> z list **)

let run_buf _ =
  []

(** val run_args : z list -> z list **)

let run_args _ =
  []

(** val run_view : z list -> z list **)

let run_view _ =
  []

(** val run_edit : z list -> z list **)

let run_edit _ =
  []
