
(** val negb : bool -> bool **)

let negb = function
| true -> false
| false -> true

type nat =
| O
| S of nat

(** val option_map : ('a1 -> 'a2) -> 'a1 option -> 'a2 option **)

let option_map f = function
| Some a -> Some (f a)
| None -> None

(** val fst : ('a1 * 'a2) -> 'a1 **)

let fst = function
| (x, _) -> x

(** val snd : ('a1 * 'a2) -> 'a2 **)

let snd = function
| (_, y) -> y

(** val length : 'a1 list -> nat **)

let rec length = function
| [] -> O
| _ :: l' -> S (length l')

(** val app : 'a1 list -> 'a1 list -> 'a1 list **)

let rec app l m =
  match l with
  | [] -> m
  | a :: l1 -> a :: (app l1 m)

type comparison =
| Eq
| Lt
| Gt

(** val compOpp : comparison -> comparison **)

let compOpp = function
| Eq -> Eq
| Lt -> Gt
| Gt -> Lt

(** val pred : nat -> nat **)

let pred n0 = match n0 with
| O -> n0
| S u -> u

module Coq__1 = struct
 (** val add : nat -> nat -> nat **)
 let rec add n0 m =
   match n0 with
   | O -> m
   | S p -> S (add p m)
end
include Coq__1

(** val mul : nat -> nat -> nat **)

let rec mul n0 m =
  match n0 with
  | O -> O
  | S p -> add m (mul p m)

(** val sub : nat -> nat -> nat **)

let rec sub n0 m =
  match n0 with
  | O -> n0
  | S k -> (match m with
            | O -> n0
            | S l -> sub k l)

module Nat =
 struct
  (** val eqb : nat -> nat -> bool **)

  let rec eqb n0 m =
    match n0 with
    | O -> (match m with
            | O -> true
            | S _ -> false)
    | S n' -> (match m with
               | O -> false
               | S m' -> eqb n' m')

  (** val leb : nat -> nat -> bool **)

  let rec leb n0 m =
    match n0 with
    | O -> true
    | S n' -> (match m with
               | O -> false
               | S m' -> leb n' m')

  (** val ltb : nat -> nat -> bool **)

  let ltb n0 m =
    leb (S n0) m

  (** val max : nat -> nat -> nat **)

  let rec max n0 m =
    match n0 with
    | O -> m
    | S n' -> (match m with
               | O -> n0
               | S m' -> S (max n' m'))

  (** val min : nat -> nat -> nat **)

  let rec min n0 m =
    match n0 with
    | O -> O
    | S n' -> (match m with
               | O -> O
               | S m' -> S (min n' m'))
 end

(** val nth : nat -> 'a1 list -> 'a1 -> 'a1 **)

let rec nth n0 l default =
  match n0 with
  | O -> (match l with
          | [] -> default
          | x :: _ -> x)
  | S m -> (match l with
            | [] -> default
            | _ :: t -> nth m t default)

(** val nth_error : 'a1 list -> nat -> 'a1 option **)

let rec nth_error l = function
| O -> (match l with
        | [] -> None
        | x :: _ -> Some x)
| S n1 -> (match l with
           | [] -> None
           | _ :: l0 -> nth_error l0 n1)

(** val last : 'a1 list -> 'a1 -> 'a1 **)

let rec last l d =
  match l with
  | [] -> d
  | a :: l0 -> (match l0 with
                | [] -> a
                | _ :: _ -> last l0 d)

(** val removelast : 'a1 list -> 'a1 list **)

let rec removelast = function
| [] -> []
| a :: l0 -> (match l0 with
              | [] -> []
              | _ :: _ -> a :: (removelast l0))

(** val rev : 'a1 list -> 'a1 list **)

let rec rev = function
| [] -> []
| x :: l' -> app (rev l') (x :: [])

(** val concat : 'a1 list list -> 'a1 list **)

let rec concat = function
| [] -> []
| x :: l0 -> app x (concat l0)

(** val map : ('a1 -> 'a2) -> 'a1 list -> 'a2 list **)

let rec map f = function
| [] -> []
| a :: t -> (f a) :: (map f t)

(** val flat_map : ('a1 -> 'a2 list) -> 'a1 list -> 'a2 list **)

let rec flat_map f = function
| [] -> []
| x :: t -> app (f x) (flat_map f t)

(** val fold_left : ('a1 -> 'a2 -> 'a1) -> 'a2 list -> 'a1 -> 'a1 **)

let rec fold_left f l a0 =
  match l with
  | [] -> a0
  | b :: t -> fold_left f t (f a0 b)

(** val fold_right : ('a2 -> 'a1 -> 'a1) -> 'a1 -> 'a2 list -> 'a1 **)

let rec fold_right f a0 = function
| [] -> a0
| b :: t -> f b (fold_right f a0 t)

(** val existsb : ('a1 -> bool) -> 'a1 list -> bool **)

let rec existsb f = function
| [] -> false
| a :: l0 -> (||) (f a) (existsb f l0)

(** val forallb : ('a1 -> bool) -> 'a1 list -> bool **)

let rec forallb f = function
| [] -> true
| a :: l0 -> (&&) (f a) (forallb f l0)

(** val filter : ('a1 -> bool) -> 'a1 list -> 'a1 list **)

let rec filter f = function
| [] -> []
| x :: l0 -> if f x then x :: (filter f l0) else filter f l0

(** val find : ('a1 -> bool) -> 'a1 list -> 'a1 option **)

let rec find f = function
| [] -> None
| x :: tl -> if f x then Some x else find f tl

(** val firstn : nat -> 'a1 list -> 'a1 list **)

let rec firstn n0 l =
  match n0 with
  | O -> []
  | S n1 -> (match l with
             | [] -> []
             | a :: l0 -> a :: (firstn n1 l0))

(** val skipn : nat -> 'a1 list -> 'a1 list **)

let rec skipn n0 l =
  match n0 with
  | O -> l
  | S n1 -> (match l with
             | [] -> []
             | _ :: l0 -> skipn n1 l0)

type positive =
| XI of positive
| XO of positive
| XH

type n =
| N0
| Npos of positive

type z =
| Z0
| Zpos of positive
| Zneg of positive

module Pos =
 struct
  (** val succ : positive -> positive **)

  let rec succ = function
  | XI p -> XO (succ p)
  | XO p -> XI p
  | XH -> XO XH

  (** val add : positive -> positive -> positive **)

  let rec add x y =
    match x with
    | XI p ->
      (match y with
       | XI q -> XO (add_carry p q)
       | XO q -> XI (add p q)
       | XH -> XO (succ p))
    | XO p ->
      (match y with
       | XI q -> XI (add p q)
       | XO q -> XO (add p q)
       | XH -> XI p)
    | XH -> (match y with
             | XI q -> XO (succ q)
             | XO q -> XI q
             | XH -> XO XH)

  (** val add_carry : positive -> positive -> positive **)

  and add_carry x y =
    match x with
    | XI p ->
      (match y with
       | XI q -> XI (add_carry p q)
       | XO q -> XO (add_carry p q)
       | XH -> XI (succ p))
    | XO p ->
      (match y with
       | XI q -> XO (add_carry p q)
       | XO q -> XI (add p q)
       | XH -> XO (succ p))
    | XH ->
      (match y with
       | XI q -> XI (succ q)
       | XO q -> XO (succ q)
       | XH -> XI XH)

  (** val pred_double : positive -> positive **)

  let rec pred_double = function
  | XI p -> XI (XO p)
  | XO p -> XI (pred_double p)
  | XH -> XH

  (** val compare_cont : comparison -> positive -> positive -> comparison **)

  let rec compare_cont r x y =
    match x with
    | XI p ->
      (match y with
       | XI q -> compare_cont r p q
       | XO q -> compare_cont Gt p q
       | XH -> Gt)
    | XO p ->
      (match y with
       | XI q -> compare_cont Lt p q
       | XO q -> compare_cont r p q
       | XH -> Gt)
    | XH -> (match y with
             | XH -> r
             | _ -> Lt)

  (** val compare : positive -> positive -> comparison **)

  let compare =
    compare_cont Eq

  (** val eqb : positive -> positive -> bool **)

  let rec eqb p q =
    match p with
    | XI p0 -> (match q with
                | XI q0 -> eqb p0 q0
                | _ -> false)
    | XO p0 -> (match q with
                | XO q0 -> eqb p0 q0
                | _ -> false)
    | XH -> (match q with
             | XH -> true
             | _ -> false)

  (** val iter_op : ('a1 -> 'a1 -> 'a1) -> positive -> 'a1 -> 'a1 **)

  let rec iter_op op1 p a =
    match p with
    | XI p0 -> op1 a (iter_op op1 p0 (op1 a a))
    | XO p0 -> iter_op op1 p0 (op1 a a)
    | XH -> a

  (** val to_nat : positive -> nat **)

  let to_nat x =
    iter_op Coq__1.add x (S O)

  (** val of_succ_nat : nat -> positive **)

  let rec of_succ_nat = function
  | O -> XH
  | S x -> succ (of_succ_nat x)
 end

module N =
 struct
  (** val eqb : n -> n -> bool **)

  let eqb n0 m =
    match n0 with
    | N0 -> (match m with
             | N0 -> true
             | Npos _ -> false)
    | Npos p -> (match m with
                 | N0 -> false
                 | Npos q -> Pos.eqb p q)
 end

module Z =
 struct
  (** val double : z -> z **)

  let double = function
  | Z0 -> Z0
  | Zpos p -> Zpos (XO p)
  | Zneg p -> Zneg (XO p)

  (** val succ_double : z -> z **)

  let succ_double = function
  | Z0 -> Zpos XH
  | Zpos p -> Zpos (XI p)
  | Zneg p -> Zneg (Pos.pred_double p)

  (** val pred_double : z -> z **)

  let pred_double = function
  | Z0 -> Zneg XH
  | Zpos p -> Zpos (Pos.pred_double p)
  | Zneg p -> Zneg (XI p)

  (** val pos_sub : positive -> positive -> z **)

  let rec pos_sub x y =
    match x with
    | XI p ->
      (match y with
       | XI q -> double (pos_sub p q)
       | XO q -> succ_double (pos_sub p q)
       | XH -> Zpos (XO p))
    | XO p ->
      (match y with
       | XI q -> pred_double (pos_sub p q)
       | XO q -> double (pos_sub p q)
       | XH -> Zpos (Pos.pred_double p))
    | XH ->
      (match y with
       | XI q -> Zneg (XO q)
       | XO q -> Zneg (Pos.pred_double q)
       | XH -> Z0)

  (** val add : z -> z -> z **)

  let add x y =
    match x with
    | Z0 -> y
    | Zpos x' ->
      (match y with
       | Z0 -> x
       | Zpos y' -> Zpos (Pos.add x' y')
       | Zneg y' -> pos_sub x' y')
    | Zneg x' ->
      (match y with
       | Z0 -> x
       | Zpos y' -> pos_sub y' x'
       | Zneg y' -> Zneg (Pos.add x' y'))

  (** val opp : z -> z **)

  let opp = function
  | Z0 -> Z0
  | Zpos x0 -> Zneg x0
  | Zneg x0 -> Zpos x0

  (** val sub : z -> z -> z **)

  let sub m n0 =
    add m (opp n0)

  (** val compare : z -> z -> comparison **)

  let compare x y =
    match x with
    | Z0 -> (match y with
             | Z0 -> Eq
             | Zpos _ -> Lt
             | Zneg _ -> Gt)
    | Zpos x' -> (match y with
                  | Zpos y' -> Pos.compare x' y'
                  | _ -> Gt)
    | Zneg x' ->
      (match y with
       | Zneg y' -> compOpp (Pos.compare x' y')
       | _ -> Lt)

  (** val leb : z -> z -> bool **)

  let leb x y =
    match compare x y with
    | Gt -> false
    | _ -> true

  (** val ltb : z -> z -> bool **)

  let ltb x y =
    match compare x y with
    | Lt -> true
    | _ -> false

  (** val eqb : z -> z -> bool **)

  let eqb x y =
    match x with
    | Z0 -> (match y with
             | Z0 -> true
             | _ -> false)
    | Zpos p -> (match y with
                 | Zpos q -> Pos.eqb p q
                 | _ -> false)
    | Zneg p -> (match y with
                 | Zneg q -> Pos.eqb p q
                 | _ -> false)

  (** val max : z -> z -> z **)

  let max n0 m =
    match compare n0 m with
    | Lt -> m
    | _ -> n0

  (** val min : z -> z -> z **)

  let min n0 m =
    match compare n0 m with
    | Gt -> m
    | _ -> n0

  (** val to_nat : z -> nat **)

  let to_nat = function
  | Zpos p -> Pos.to_nat p
  | _ -> O

  (** val to_N : z -> n **)

  let to_N = function
  | Zpos p -> Npos p
  | _ -> N0

  (** val of_nat : nat -> z **)

  let of_nat = function
  | O -> Z0
  | S n1 -> Zpos (Pos.of_succ_nat n1)

  (** val of_N : n -> z **)

  let of_N = function
  | N0 -> Z0
  | Npos p -> Zpos p
 end

type cc =
| CEscape
| CGroupBegin
| CGroupEnd
| CMathSwitch
| CAlignment
| CEndOfLine
| CMacro
| CSuperscript
| CSubscript
| CIgnored
| CSpacer
| CLetter
| COther
| CActive
| CComment
| CInvalid
| CMathGroupBegin
| CMathGroupEnd
| CBracketBegin
| CBracketEnd
| CParenBegin
| CParenEnd

type tc =
| TEscape
| TGroupBegin
| TGroupEnd
| TComment
| TMergedSpacer
| TEscapedComment
| TMathSwitch
| TDisplayMathSwitch
| TMathGroupBegin
| TMathGroupEnd
| TDisplayMathGroupBegin
| TDisplayMathGroupEnd
| TLineBreak
| TCommandName
| TText
| TBracketBegin
| TBracketEnd
| TParenBegin
| TParenEnd
| TPunctuationCommandName
| TSizeCommand
| TSpacer

type rule_id =
| R_escaped_symbols
| R_comment
| R_math_sym_switch
| R_math_asym_switch
| R_line_break
| R_ignore
| R_spacers
| R_symbols
| R_punctuation_command_name
| R_command_name
| R_string

type mathkind =
| MInline
| MDisplay
| MParen
| MBracket

type groupkind =
| GBrace
| GBracket

(** val cc_beq : cc -> cc -> bool **)

let cc_beq x y =
  match x with
  | CEscape -> (match y with
                | CEscape -> true
                | _ -> false)
  | CGroupBegin -> (match y with
                    | CGroupBegin -> true
                    | _ -> false)
  | CGroupEnd -> (match y with
                  | CGroupEnd -> true
                  | _ -> false)
  | CMathSwitch -> (match y with
                    | CMathSwitch -> true
                    | _ -> false)
  | CAlignment -> (match y with
                   | CAlignment -> true
                   | _ -> false)
  | CEndOfLine -> (match y with
                   | CEndOfLine -> true
                   | _ -> false)
  | CMacro -> (match y with
               | CMacro -> true
               | _ -> false)
  | CSuperscript -> (match y with
                     | CSuperscript -> true
                     | _ -> false)
  | CSubscript -> (match y with
                   | CSubscript -> true
                   | _ -> false)
  | CIgnored -> (match y with
                 | CIgnored -> true
                 | _ -> false)
  | CSpacer -> (match y with
                | CSpacer -> true
                | _ -> false)
  | CLetter -> (match y with
                | CLetter -> true
                | _ -> false)
  | COther -> (match y with
               | COther -> true
               | _ -> false)
  | CActive -> (match y with
                | CActive -> true
                | _ -> false)
  | CComment -> (match y with
                 | CComment -> true
                 | _ -> false)
  | CInvalid -> (match y with
                 | CInvalid -> true
                 | _ -> false)
  | CMathGroupBegin -> (match y with
                        | CMathGroupBegin -> true
                        | _ -> false)
  | CMathGroupEnd -> (match y with
                      | CMathGroupEnd -> true
                      | _ -> false)
  | CBracketBegin -> (match y with
                      | CBracketBegin -> true
                      | _ -> false)
  | CBracketEnd -> (match y with
                    | CBracketEnd -> true
                    | _ -> false)
  | CParenBegin -> (match y with
                    | CParenBegin -> true
                    | _ -> false)
  | CParenEnd -> (match y with
                  | CParenEnd -> true
                  | _ -> false)

(** val tc_beq : tc -> tc -> bool **)

let tc_beq x y =
  match x with
  | TEscape -> (match y with
                | TEscape -> true
                | _ -> false)
  | TGroupBegin -> (match y with
                    | TGroupBegin -> true
                    | _ -> false)
  | TGroupEnd -> (match y with
                  | TGroupEnd -> true
                  | _ -> false)
  | TComment -> (match y with
                 | TComment -> true
                 | _ -> false)
  | TMergedSpacer -> (match y with
                      | TMergedSpacer -> true
                      | _ -> false)
  | TEscapedComment -> (match y with
                        | TEscapedComment -> true
                        | _ -> false)
  | TMathSwitch -> (match y with
                    | TMathSwitch -> true
                    | _ -> false)
  | TDisplayMathSwitch ->
    (match y with
     | TDisplayMathSwitch -> true
     | _ -> false)
  | TMathGroupBegin -> (match y with
                        | TMathGroupBegin -> true
                        | _ -> false)
  | TMathGroupEnd -> (match y with
                      | TMathGroupEnd -> true
                      | _ -> false)
  | TDisplayMathGroupBegin ->
    (match y with
     | TDisplayMathGroupBegin -> true
     | _ -> false)
  | TDisplayMathGroupEnd ->
    (match y with
     | TDisplayMathGroupEnd -> true
     | _ -> false)
  | TLineBreak -> (match y with
                   | TLineBreak -> true
                   | _ -> false)
  | TCommandName -> (match y with
                     | TCommandName -> true
                     | _ -> false)
  | TText -> (match y with
              | TText -> true
              | _ -> false)
  | TBracketBegin -> (match y with
                      | TBracketBegin -> true
                      | _ -> false)
  | TBracketEnd -> (match y with
                    | TBracketEnd -> true
                    | _ -> false)
  | TParenBegin -> (match y with
                    | TParenBegin -> true
                    | _ -> false)
  | TParenEnd -> (match y with
                  | TParenEnd -> true
                  | _ -> false)
  | TPunctuationCommandName ->
    (match y with
     | TPunctuationCommandName -> true
     | _ -> false)
  | TSizeCommand -> (match y with
                     | TSizeCommand -> true
                     | _ -> false)
  | TSpacer -> (match y with
                | TSpacer -> true
                | _ -> false)

(** val mathkind_beq : mathkind -> mathkind -> bool **)

let mathkind_beq x y =
  match x with
  | MInline -> (match y with
                | MInline -> true
                | _ -> false)
  | MDisplay -> (match y with
                 | MDisplay -> true
                 | _ -> false)
  | MParen -> (match y with
               | MParen -> true
               | _ -> false)
  | MBracket -> (match y with
                 | MBracket -> true
                 | _ -> false)

(** val groupkind_beq : groupkind -> groupkind -> bool **)

let groupkind_beq x y =
  match x with
  | GBrace -> (match y with
               | GBrace -> true
               | GBracket -> false)
  | GBracket -> (match y with
                 | GBrace -> false
                 | GBracket -> true)

type str = n list

(** val str_eqb : str -> str -> bool **)

let rec str_eqb a b =
  match a with
  | [] -> (match b with
           | [] -> true
           | _ :: _ -> false)
  | x :: a' ->
    (match b with
     | [] -> false
     | y :: b' -> (&&) (N.eqb x y) (str_eqb a' b'))

(** val mem_cc : cc -> cc list -> bool **)

let mem_cc c l =
  existsb (cc_beq c) l

(** val mem_N : n -> n list -> bool **)

let mem_N c l =
  existsb (N.eqb c) l

(** val mem_str : str -> str list -> bool **)

let mem_str s l =
  existsb (str_eqb s) l

(** val starts_with : str -> str -> bool **)

let rec starts_with s = function
| [] -> true
| y :: p' ->
  (match s with
   | [] -> false
   | x :: s' -> (&&) (N.eqb x y) (starts_with s' p'))

(** val assoc_str : str -> (str * 'a1) list -> 'a1 option **)

let rec assoc_str k = function
| [] -> None
| p :: l' ->
  let (k', v) = p in if str_eqb k k' then Some v else assoc_str k l'

module Tables =
 struct
  (** val category_table : (cc * n list) list **)

  let category_table =
    (CEscape, ((Npos (XO (XO (XI (XI (XI (XO
      XH))))))) :: [])) :: ((CGroupBegin, ((Npos (XI (XI (XO (XI (XI (XI
      XH))))))) :: [])) :: ((CGroupEnd, ((Npos (XI (XO (XI (XI (XI (XI
      XH))))))) :: [])) :: ((CMathSwitch, ((Npos (XO (XO (XI (XO (XO
      XH)))))) :: [])) :: ((CAlignment, ((Npos (XO (XI (XI (XO (XO
      XH)))))) :: [])) :: ((CEndOfLine, ((Npos (XO (XI (XO XH)))) :: ((Npos
      (XI (XO (XI XH)))) :: []))) :: ((CMacro, ((Npos (XI (XI (XO (XO (XO
      XH)))))) :: [])) :: ((CSuperscript, ((Npos (XO (XI (XI (XI (XI (XO
      XH))))))) :: [])) :: ((CSubscript, ((Npos (XI (XI (XI (XI (XI (XO
      XH))))))) :: [])) :: ((CIgnored, (N0 :: [])) :: ((CSpacer, ((Npos (XI
      (XO (XO XH)))) :: ((Npos (XO (XO (XO (XO (XO
      XH)))))) :: []))) :: ((CLetter, ((Npos (XI (XO (XO (XO (XO (XO
      XH))))))) :: ((Npos (XO (XI (XO (XO (XO (XO XH))))))) :: ((Npos (XI (XI
      (XO (XO (XO (XO XH))))))) :: ((Npos (XO (XO (XI (XO (XO (XO
      XH))))))) :: ((Npos (XI (XO (XI (XO (XO (XO XH))))))) :: ((Npos (XO (XI
      (XI (XO (XO (XO XH))))))) :: ((Npos (XI (XI (XI (XO (XO (XO
      XH))))))) :: ((Npos (XO (XO (XO (XI (XO (XO XH))))))) :: ((Npos (XI (XO
      (XO (XI (XO (XO XH))))))) :: ((Npos (XO (XI (XO (XI (XO (XO
      XH))))))) :: ((Npos (XI (XI (XO (XI (XO (XO XH))))))) :: ((Npos (XO (XO
      (XI (XI (XO (XO XH))))))) :: ((Npos (XI (XO (XI (XI (XO (XO
      XH))))))) :: ((Npos (XO (XI (XI (XI (XO (XO XH))))))) :: ((Npos (XI (XI
      (XI (XI (XO (XO XH))))))) :: ((Npos (XO (XO (XO (XO (XI (XO
      XH))))))) :: ((Npos (XI (XO (XO (XO (XI (XO XH))))))) :: ((Npos (XO (XI
      (XO (XO (XI (XO XH))))))) :: ((Npos (XI (XI (XO (XO (XI (XO
      XH))))))) :: ((Npos (XO (XO (XI (XO (XI (XO XH))))))) :: ((Npos (XI (XO
      (XI (XO (XI (XO XH))))))) :: ((Npos (XO (XI (XI (XO (XI (XO
      XH))))))) :: ((Npos (XI (XI (XI (XO (XI (XO XH))))))) :: ((Npos (XO (XO
      (XO (XI (XI (XO XH))))))) :: ((Npos (XI (XO (XO (XI (XI (XO
      XH))))))) :: ((Npos (XO (XI (XO (XI (XI (XO XH))))))) :: ((Npos (XI (XO
      (XO (XO (XO (XI XH))))))) :: ((Npos (XO (XI (XO (XO (XO (XI
      XH))))))) :: ((Npos (XI (XI (XO (XO (XO (XI XH))))))) :: ((Npos (XO (XO
      (XI (XO (XO (XI XH))))))) :: ((Npos (XI (XO (XI (XO (XO (XI
      XH))))))) :: ((Npos (XO (XI (XI (XO (XO (XI XH))))))) :: ((Npos (XI (XI
      (XI (XO (XO (XI XH))))))) :: ((Npos (XO (XO (XO (XI (XO (XI
      XH))))))) :: ((Npos (XI (XO (XO (XI (XO (XI XH))))))) :: ((Npos (XO (XI
      (XO (XI (XO (XI XH))))))) :: ((Npos (XI (XI (XO (XI (XO (XI
      XH))))))) :: ((Npos (XO (XO (XI (XI (XO (XI XH))))))) :: ((Npos (XI (XO
      (XI (XI (XO (XI XH))))))) :: ((Npos (XO (XI (XI (XI (XO (XI
      XH))))))) :: ((Npos (XI (XI (XI (XI (XO (XI XH))))))) :: ((Npos (XO (XO
      (XO (XO (XI (XI XH))))))) :: ((Npos (XI (XO (XO (XO (XI (XI
      XH))))))) :: ((Npos (XO (XI (XO (XO (XI (XI XH))))))) :: ((Npos (XI (XI
      (XO (XO (XI (XI XH))))))) :: ((Npos (XO (XO (XI (XO (XI (XI
      XH))))))) :: ((Npos (XI (XO (XI (XO (XI (XI XH))))))) :: ((Npos (XO (XI
      (XI (XO (XI (XI XH))))))) :: ((Npos (XI (XI (XI (XO (XI (XI
      XH))))))) :: ((Npos (XO (XO (XO (XI (XI (XI XH))))))) :: ((Npos (XI (XO
      (XO (XI (XI (XI XH))))))) :: ((Npos (XO (XI (XO (XI (XI (XI
      XH))))))) :: []))))))))))))))))))))))))))))))))))))))))))))))))))))) :: ((COther,
      ((Npos (XI (XI (XO XH)))) :: ((Npos (XO (XO (XI XH)))) :: ((Npos (XI
      (XO (XO (XO (XO XH)))))) :: ((Npos (XO (XI (XO (XO (XO
      XH)))))) :: ((Npos (XI (XI (XI (XO (XO XH)))))) :: ((Npos (XO (XI (XO
      (XI (XO XH)))))) :: ((Npos (XI (XI (XO (XI (XO XH)))))) :: ((Npos (XO
      (XO (XI (XI (XO XH)))))) :: ((Npos (XI (XO (XI (XI (XO
      XH)))))) :: ((Npos (XO (XI (XI (XI (XO XH)))))) :: ((Npos (XI (XI (XI
      (XI (XO XH)))))) :: ((Npos (XO (XO (XO (XO (XI XH)))))) :: ((Npos (XI
      (XO (XO (XO (XI XH)))))) :: ((Npos (XO (XI (XO (XO (XI
      XH)))))) :: ((Npos (XI (XI (XO (XO (XI XH)))))) :: ((Npos (XO (XO (XI
      (XO (XI XH)))))) :: ((Npos (XI (XO (XI (XO (XI XH)))))) :: ((Npos (XO
      (XI (XI (XO (XI XH)))))) :: ((Npos (XI (XI (XI (XO (XI
      XH)))))) :: ((Npos (XO (XO (XO (XI (XI XH)))))) :: ((Npos (XI (XO (XO
      (XI (XI XH)))))) :: ((Npos (XO (XI (XO (XI (XI XH)))))) :: ((Npos (XI
      (XI (XO (XI (XI XH)))))) :: ((Npos (XO (XO (XI (XI (XI
      XH)))))) :: ((Npos (XI (XO (XI (XI (XI XH)))))) :: ((Npos (XO (XI (XI
      (XI (XI XH)))))) :: ((Npos (XI (XI (XI (XI (XI XH)))))) :: ((Npos (XO
      (XO (XO (XO (XO (XO XH))))))) :: ((Npos (XO (XO (XO (XO (XO (XI
      XH))))))) :: ((Npos (XO (XO (XI (XI (XI (XI
      XH))))))) :: []))))))))))))))))))))))))))))))) :: ((CActive, ((Npos (XO
      (XI (XI (XI (XI (XI XH))))))) :: [])) :: ((CComment, ((Npos (XI (XO (XI
      (XO (XO XH)))))) :: [])) :: ((CInvalid, ((Npos (XI (XI (XI (XI (XI (XI
      XH))))))) :: [])) :: ((CBracketBegin, ((Npos (XI (XI (XO (XI (XI (XO
      XH))))))) :: [])) :: ((CBracketEnd, ((Npos (XI (XO (XI (XI (XI (XO
      XH))))))) :: [])) :: ((CParenBegin, ((Npos (XO (XO (XO (XI (XO
      XH)))))) :: [])) :: ((CParenEnd, ((Npos (XI (XO (XO (XI (XO
      XH)))))) :: [])) :: [])))))))))))))))))))

  (** val cc_value : cc -> n **)

  let cc_value = function
  | CEscape -> Npos XH
  | CGroupBegin -> Npos (XO XH)
  | CGroupEnd -> Npos (XI XH)
  | CMathSwitch -> Npos (XO (XO XH))
  | CAlignment -> Npos (XI (XO XH))
  | CEndOfLine -> Npos (XO (XI XH))
  | CMacro -> Npos (XI (XI XH))
  | CSuperscript -> Npos (XO (XO (XO XH)))
  | CSubscript -> Npos (XI (XO (XO XH)))
  | CIgnored -> Npos (XO (XI (XO XH)))
  | CSpacer -> Npos (XI (XI (XO XH)))
  | CLetter -> Npos (XO (XO (XI XH)))
  | COther -> Npos (XI (XO (XI XH)))
  | CActive -> Npos (XO (XI (XI XH)))
  | CComment -> Npos (XI (XI (XI XH)))
  | CInvalid -> Npos (XO (XO (XO (XO XH))))
  | CMathGroupBegin -> Npos (XI (XO (XO (XO XH))))
  | CMathGroupEnd -> Npos (XO (XI (XO (XO XH))))
  | CBracketBegin -> Npos (XI (XI (XO (XO XH))))
  | CBracketEnd -> Npos (XO (XO (XI (XO XH))))
  | CParenBegin -> Npos (XI (XO (XI (XO XH))))
  | CParenEnd -> Npos (XO (XI (XI (XO XH))))

  (** val tc_value : tc -> n **)

  let tc_value = function
  | TEscape -> Npos (XO (XI (XI (XO XH))))
  | TGroupBegin -> Npos (XI (XI (XI (XO XH))))
  | TGroupEnd -> Npos (XO (XO (XO (XI XH))))
  | TComment -> Npos (XI (XO (XO (XI XH))))
  | TMergedSpacer -> Npos (XO (XI (XO (XI XH))))
  | TEscapedComment -> Npos (XI (XI (XO (XI XH))))
  | TMathSwitch -> Npos (XO (XO (XI (XI XH))))
  | TDisplayMathSwitch -> Npos (XI (XO (XI (XI XH))))
  | TMathGroupBegin -> Npos (XO (XI (XI (XI XH))))
  | TMathGroupEnd -> Npos (XI (XI (XI (XI XH))))
  | TDisplayMathGroupBegin -> Npos (XO (XO (XO (XO (XO XH)))))
  | TDisplayMathGroupEnd -> Npos (XI (XO (XO (XO (XO XH)))))
  | TLineBreak -> Npos (XO (XI (XO (XO (XO XH)))))
  | TCommandName -> Npos (XI (XI (XO (XO (XO XH)))))
  | TText -> Npos (XO (XO (XI (XO (XO XH)))))
  | TBracketBegin -> Npos (XI (XO (XI (XO (XO XH)))))
  | TBracketEnd -> Npos (XO (XI (XI (XO (XO XH)))))
  | TParenBegin -> Npos (XI (XI (XI (XO (XO XH)))))
  | TParenEnd -> Npos (XO (XO (XO (XI (XO XH)))))
  | TPunctuationCommandName -> Npos (XI (XO (XO (XI (XO XH)))))
  | TSizeCommand -> Npos (XO (XI (XO (XI (XO XH)))))
  | TSpacer -> Npos (XI (XI (XO (XI (XO XH)))))

  (** val rule_order : rule_id list **)

  let rule_order =
    R_escaped_symbols :: (R_comment :: (R_math_sym_switch :: (R_math_asym_switch :: (R_line_break :: (R_ignore :: (R_spacers :: (R_symbols :: (R_punctuation_command_name :: (R_command_name :: (R_string :: []))))))))))

  (** val escaped_second_cats : cc list **)

  let escaped_second_cats =
    CEscape :: (CGroupBegin :: (CGroupEnd :: (CMathSwitch :: (CAlignment :: (CEndOfLine :: (CMacro :: (CSuperscript :: (CSubscript :: (CSpacer :: (CActive :: (CComment :: (COther :: []))))))))))))

  (** val asym_map : ((cc * cc) * tc) list **)

  let asym_map =
    ((CEscape, CBracketBegin), TDisplayMathGroupBegin) :: (((CEscape,
      CBracketEnd), TDisplayMathGroupEnd) :: (((CEscape, CParenBegin),
      TMathGroupBegin) :: (((CEscape, CParenEnd), TMathGroupEnd) :: [])))

  (** val ignore_cats : cc list **)

  let ignore_cats =
    CIgnored :: (CInvalid :: [])

  (** val spacer_rollback_cats : cc list **)

  let spacer_rollback_cats =
    CLetter :: (COther :: [])

  (** val symbols_map : (cc * tc) list **)

  let symbols_map =
    (CEscape, TEscape) :: ((CGroupBegin, TGroupBegin) :: ((CGroupEnd,
      TGroupEnd) :: ((CBracketBegin, TBracketBegin) :: ((CBracketEnd,
      TBracketEnd) :: []))))

  (** val string_stop_cats : cc list **)

  let string_stop_cats =
    CEscape :: (CGroupBegin :: (CGroupEnd :: (CMathSwitch :: (CBracketBegin :: (CBracketEnd :: (CComment :: []))))))

  (** val skip_env_names : n list list **)

  let skip_env_names =
    ((Npos (XO (XO (XI (XI (XO (XI XH))))))) :: ((Npos (XI (XI (XO (XO (XI
      (XI XH))))))) :: ((Npos (XO (XO (XI (XO (XI (XI XH))))))) :: ((Npos (XO
      (XO (XI (XI (XO (XI XH))))))) :: ((Npos (XI (XO (XO (XI (XO (XI
      XH))))))) :: ((Npos (XI (XI (XO (XO (XI (XI XH))))))) :: ((Npos (XO (XO
      (XI (XO (XI (XI XH))))))) :: ((Npos (XI (XO (XO (XI (XO (XI
      XH))))))) :: ((Npos (XO (XI (XI (XI (XO (XI XH))))))) :: ((Npos (XI (XI
      (XI (XO (XO (XI XH))))))) :: [])))))))))) :: (((Npos (XO (XI (XI (XO
      (XI (XI XH))))))) :: ((Npos (XI (XO (XI (XO (XO (XI XH))))))) :: ((Npos
      (XO (XI (XO (XO (XI (XI XH))))))) :: ((Npos (XO (XI (XO (XO (XO (XI
      XH))))))) :: ((Npos (XI (XO (XO (XO (XO (XI XH))))))) :: ((Npos (XO (XO
      (XI (XO (XI (XI XH))))))) :: ((Npos (XI (XO (XO (XI (XO (XI
      XH))))))) :: ((Npos (XI (XO (XI (XI (XO (XI
      XH))))))) :: [])))))))) :: (((Npos (XO (XI (XI (XO (XI (XI
      XH))))))) :: ((Npos (XI (XO (XI (XO (XO (XI XH))))))) :: ((Npos (XO (XI
      (XO (XO (XI (XI XH))))))) :: ((Npos (XO (XI (XO (XO (XO (XI
      XH))))))) :: ((Npos (XI (XO (XO (XO (XO (XI XH))))))) :: ((Npos (XO (XO
      (XI (XO (XI (XI XH))))))) :: ((Npos (XI (XO (XO (XI (XO (XI
      XH))))))) :: ((Npos (XI (XO (XI (XI (XO (XI XH))))))) :: ((Npos (XO (XO
      (XI (XO (XI (XI XH))))))) :: ((Npos (XI (XO (XO (XO (XO (XI
      XH))))))) :: ((Npos (XO (XI (XO (XO (XO (XI
      XH))))))) :: []))))))))))) :: (((Npos (XO (XI (XI (XO (XI (XO
      XH))))))) :: ((Npos (XI (XO (XI (XO (XO (XI XH))))))) :: ((Npos (XO (XI
      (XO (XO (XI (XI XH))))))) :: ((Npos (XO (XI (XO (XO (XO (XI
      XH))))))) :: ((Npos (XI (XO (XO (XO (XO (XI XH))))))) :: ((Npos (XO (XO
      (XI (XO (XI (XI XH))))))) :: ((Npos (XI (XO (XO (XI (XO (XI
      XH))))))) :: ((Npos (XI (XO (XI (XI (XO (XI
      XH))))))) :: [])))))))) :: (((Npos (XO (XO (XI (XI (XO (XI
      XH))))))) :: ((Npos (XI (XO (XO (XI (XO (XI XH))))))) :: ((Npos (XI (XI
      (XO (XO (XI (XI XH))))))) :: ((Npos (XO (XO (XI (XO (XI (XI
      XH))))))) :: ((Npos (XI (XO (XO (XI (XO (XI XH))))))) :: ((Npos (XO (XI
      (XI (XI (XO (XI XH))))))) :: ((Npos (XI (XI (XI (XO (XO (XI
      XH))))))) :: []))))))) :: []))))

  (** val math_env_names : n list list **)

  let math_env_names =
    ((Npos (XI (XO (XO (XO (XO (XI XH))))))) :: ((Npos (XO (XO (XI (XI (XO
      (XI XH))))))) :: ((Npos (XI (XO (XO (XI (XO (XI XH))))))) :: ((Npos (XI
      (XI (XI (XO (XO (XI XH))))))) :: ((Npos (XO (XI (XI (XI (XO (XI
      XH))))))) :: []))))) :: (((Npos (XI (XO (XO (XO (XO (XI
      XH))))))) :: ((Npos (XO (XO (XI (XI (XO (XI XH))))))) :: ((Npos (XI (XO
      (XO (XI (XO (XI XH))))))) :: ((Npos (XI (XI (XI (XO (XO (XI
      XH))))))) :: ((Npos (XO (XI (XI (XI (XO (XI XH))))))) :: ((Npos (XO (XI
      (XO (XI (XO XH)))))) :: [])))))) :: (((Npos (XI (XO (XO (XO (XO (XI
      XH))))))) :: ((Npos (XO (XO (XI (XI (XO (XI XH))))))) :: ((Npos (XI (XO
      (XO (XI (XO (XI XH))))))) :: ((Npos (XI (XI (XI (XO (XO (XI
      XH))))))) :: ((Npos (XO (XI (XI (XI (XO (XI XH))))))) :: ((Npos (XI (XO
      (XO (XO (XO (XI XH))))))) :: ((Npos (XO (XO (XI (XO (XI (XI
      XH))))))) :: []))))))) :: (((Npos (XI (XO (XO (XO (XO (XI
      XH))))))) :: ((Npos (XO (XI (XO (XO (XI (XI XH))))))) :: ((Npos (XO (XI
      (XO (XO (XI (XI XH))))))) :: ((Npos (XI (XO (XO (XO (XO (XI
      XH))))))) :: ((Npos (XI (XO (XO (XI (XI (XI
      XH))))))) :: []))))) :: (((Npos (XO (XO (XI (XO (XO (XI
      XH))))))) :: ((Npos (XI (XO (XO (XI (XO (XI XH))))))) :: ((Npos (XI (XI
      (XO (XO (XI (XI XH))))))) :: ((Npos (XO (XO (XO (XO (XI (XI
      XH))))))) :: ((Npos (XO (XO (XI (XI (XO (XI XH))))))) :: ((Npos (XI (XO
      (XO (XO (XO (XI XH))))))) :: ((Npos (XI (XO (XO (XI (XI (XI
      XH))))))) :: ((Npos (XI (XO (XI (XI (XO (XI XH))))))) :: ((Npos (XI (XO
      (XO (XO (XO (XI XH))))))) :: ((Npos (XO (XO (XI (XO (XI (XI
      XH))))))) :: ((Npos (XO (XO (XO (XI (XO (XI
      XH))))))) :: []))))))))))) :: (((Npos (XI (XO (XI (XO (XO (XI
      XH))))))) :: ((Npos (XI (XO (XO (XO (XI (XI XH))))))) :: ((Npos (XO (XI
      (XI (XI (XO (XI XH))))))) :: ((Npos (XI (XO (XO (XO (XO (XI
      XH))))))) :: ((Npos (XO (XI (XO (XO (XI (XI XH))))))) :: ((Npos (XO (XI
      (XO (XO (XI (XI XH))))))) :: ((Npos (XI (XO (XO (XO (XO (XI
      XH))))))) :: ((Npos (XI (XO (XO (XI (XI (XI
      XH))))))) :: [])))))))) :: (((Npos (XI (XO (XI (XO (XO (XI
      XH))))))) :: ((Npos (XI (XO (XO (XO (XI (XI XH))))))) :: ((Npos (XO (XI
      (XI (XI (XO (XI XH))))))) :: ((Npos (XI (XO (XO (XO (XO (XI
      XH))))))) :: ((Npos (XO (XI (XO (XO (XI (XI XH))))))) :: ((Npos (XO (XI
      (XO (XO (XI (XI XH))))))) :: ((Npos (XI (XO (XO (XO (XO (XI
      XH))))))) :: ((Npos (XI (XO (XO (XI (XI (XI XH))))))) :: ((Npos (XO (XI
      (XO (XI (XO XH)))))) :: []))))))))) :: (((Npos (XI (XO (XI (XO (XO (XI
      XH))))))) :: ((Npos (XI (XO (XO (XO (XI (XI XH))))))) :: ((Npos (XI (XO
      (XI (XO (XI (XI XH))))))) :: ((Npos (XI (XO (XO (XO (XO (XI
      XH))))))) :: ((Npos (XO (XO (XI (XO (XI (XI XH))))))) :: ((Npos (XI (XO
      (XO (XI (XO (XI XH))))))) :: ((Npos (XI (XI (XI (XI (XO (XI
      XH))))))) :: ((Npos (XO (XI (XI (XI (XO (XI
      XH))))))) :: [])))))))) :: (((Npos (XI (XO (XI (XO (XO (XI
      XH))))))) :: ((Npos (XI (XO (XO (XO (XI (XI XH))))))) :: ((Npos (XI (XO
      (XI (XO (XI (XI XH))))))) :: ((Npos (XI (XO (XO (XO (XO (XI
      XH))))))) :: ((Npos (XO (XO (XI (XO (XI (XI XH))))))) :: ((Npos (XI (XO
      (XO (XI (XO (XI XH))))))) :: ((Npos (XI (XI (XI (XI (XO (XI
      XH))))))) :: ((Npos (XO (XI (XI (XI (XO (XI XH))))))) :: ((Npos (XO (XI
      (XO (XI (XO XH)))))) :: []))))))))) :: (((Npos (XO (XI (XI (XO (XO (XI
      XH))))))) :: ((Npos (XO (XO (XI (XI (XO (XI XH))))))) :: ((Npos (XI (XO
      (XO (XO (XO (XI XH))))))) :: ((Npos (XO (XO (XI (XI (XO (XI
      XH))))))) :: ((Npos (XI (XO (XO (XI (XO (XI XH))))))) :: ((Npos (XI (XI
      (XI (XO (XO (XI XH))))))) :: ((Npos (XO (XI (XI (XI (XO (XI
      XH))))))) :: []))))))) :: (((Npos (XO (XI (XI (XO (XO (XI
      XH))))))) :: ((Npos (XO (XO (XI (XI (XO (XI XH))))))) :: ((Npos (XI (XO
      (XO (XO (XO (XI XH))))))) :: ((Npos (XO (XO (XI (XI (XO (XI
      XH))))))) :: ((Npos (XI (XO (XO (XI (XO (XI XH))))))) :: ((Npos (XI (XI
      (XI (XO (XO (XI XH))))))) :: ((Npos (XO (XI (XI (XI (XO (XI
      XH))))))) :: ((Npos (XO (XI (XO (XI (XO
      XH)))))) :: [])))))))) :: (((Npos (XI (XI (XI (XO (XO (XI
      XH))))))) :: ((Npos (XI (XO (XO (XO (XO (XI XH))))))) :: ((Npos (XO (XO
      (XI (XO (XI (XI XH))))))) :: ((Npos (XO (XO (XO (XI (XO (XI
      XH))))))) :: ((Npos (XI (XO (XI (XO (XO (XI XH))))))) :: ((Npos (XO (XI
      (XO (XO (XI (XI XH))))))) :: [])))))) :: (((Npos (XI (XI (XI (XO (XO
      (XI XH))))))) :: ((Npos (XI (XO (XO (XO (XO (XI XH))))))) :: ((Npos (XO
      (XO (XI (XO (XI (XI XH))))))) :: ((Npos (XO (XO (XO (XI (XO (XI
      XH))))))) :: ((Npos (XI (XO (XI (XO (XO (XI XH))))))) :: ((Npos (XO (XI
      (XO (XO (XI (XI XH))))))) :: ((Npos (XO (XI (XO (XI (XO
      XH)))))) :: []))))))) :: (((Npos (XI (XO (XI (XI (XO (XI
      XH))))))) :: ((Npos (XI (XO (XO (XO (XO (XI XH))))))) :: ((Npos (XO (XO
      (XI (XO (XI (XI XH))))))) :: ((Npos (XO (XO (XO (XI (XO (XI
      XH))))))) :: [])))) :: (((Npos (XI (XO (XI (XI (XO (XI
      XH))))))) :: ((Npos (XI (XO (XI (XO (XI (XI XH))))))) :: ((Npos (XO (XO
      (XI (XI (XO (XI XH))))))) :: ((Npos (XO (XO (XI (XO (XI (XI
      XH))))))) :: ((Npos (XO (XO (XI (XI (XO (XI XH))))))) :: ((Npos (XI (XO
      (XO (XI (XO (XI XH))))))) :: ((Npos (XO (XI (XI (XI (XO (XI
      XH))))))) :: ((Npos (XI (XO (XI (XO (XO (XI
      XH))))))) :: [])))))))) :: (((Npos (XI (XO (XI (XI (XO (XI
      XH))))))) :: ((Npos (XI (XO (XI (XO (XI (XI XH))))))) :: ((Npos (XO (XO
      (XI (XI (XO (XI XH))))))) :: ((Npos (XO (XO (XI (XO (XI (XI
      XH))))))) :: ((Npos (XO (XO (XI (XI (XO (XI XH))))))) :: ((Npos (XI (XO
      (XO (XI (XO (XI XH))))))) :: ((Npos (XO (XI (XI (XI (XO (XI
      XH))))))) :: ((Npos (XI (XO (XI (XO (XO (XI XH))))))) :: ((Npos (XO (XI
      (XO (XI (XO XH)))))) :: []))))))))) :: (((Npos (XI (XI (XO (XO (XI (XI
      XH))))))) :: ((Npos (XO (XO (XO (XO (XI (XI XH))))))) :: ((Npos (XO (XO
      (XI (XI (XO (XI XH))))))) :: ((Npos (XI (XO (XO (XI (XO (XI
      XH))))))) :: ((Npos (XO (XO (XI (XO (XI (XI
      XH))))))) :: []))))) :: []))))))))))))))))

  (** val special_commands : n list list **)

  let special_commands =
    ((Npos (XO (XI (XI (XI (XO (XI XH))))))) :: ((Npos (XI (XO (XI (XO (XO
      (XI XH))))))) :: ((Npos (XI (XI (XI (XO (XI (XI XH))))))) :: ((Npos (XI
      (XI (XO (XO (XO (XI XH))))))) :: ((Npos (XI (XI (XI (XI (XO (XI
      XH))))))) :: ((Npos (XI (XO (XI (XI (XO (XI XH))))))) :: ((Npos (XI (XO
      (XI (XI (XO (XI XH))))))) :: ((Npos (XI (XO (XO (XO (XO (XI
      XH))))))) :: ((Npos (XO (XI (XI (XI (XO (XI XH))))))) :: ((Npos (XO (XO
      (XI (XO (XO (XI XH))))))) :: [])))))))))) :: (((Npos (XO (XO (XO (XO
      (XI (XI XH))))))) :: ((Npos (XO (XI (XO (XO (XI (XI XH))))))) :: ((Npos
      (XI (XI (XI (XI (XO (XI XH))))))) :: ((Npos (XO (XI (XI (XO (XI (XI
      XH))))))) :: ((Npos (XI (XO (XO (XI (XO (XI XH))))))) :: ((Npos (XO (XO
      (XI (XO (XO (XI XH))))))) :: ((Npos (XI (XO (XI (XO (XO (XI
      XH))))))) :: ((Npos (XI (XI (XO (XO (XO (XI XH))))))) :: ((Npos (XI (XI
      (XI (XI (XO (XI XH))))))) :: ((Npos (XI (XO (XI (XI (XO (XI
      XH))))))) :: ((Npos (XI (XO (XI (XI (XO (XI XH))))))) :: ((Npos (XI (XO
      (XO (XO (XO (XI XH))))))) :: ((Npos (XO (XI (XI (XI (XO (XI
      XH))))))) :: ((Npos (XO (XO (XI (XO (XO (XI
      XH))))))) :: [])))))))))))))) :: (((Npos (XO (XI (XO (XO (XI (XI
      XH))))))) :: ((Npos (XI (XO (XI (XO (XO (XI XH))))))) :: ((Npos (XO (XI
      (XI (XI (XO (XI XH))))))) :: ((Npos (XI (XO (XI (XO (XO (XI
      XH))))))) :: ((Npos (XI (XI (XI (XO (XI (XI XH))))))) :: ((Npos (XI (XI
      (XO (XO (XO (XI XH))))))) :: ((Npos (XI (XI (XI (XI (XO (XI
      XH))))))) :: ((Npos (XI (XO (XI (XI (XO (XI XH))))))) :: ((Npos (XI (XO
      (XI (XI (XO (XI XH))))))) :: ((Npos (XI (XO (XO (XO (XO (XI
      XH))))))) :: ((Npos (XO (XI (XI (XI (XO (XI XH))))))) :: ((Npos (XO (XO
      (XI (XO (XO (XI XH))))))) :: [])))))))))))) :: []))

  (** val punctuation_commands : n list list **)

  let punctuation_commands =
    ((Npos (XO (XI (XO (XO (XO (XO XH))))))) :: ((Npos (XI (XO (XO (XI (XO
      (XI XH))))))) :: ((Npos (XI (XI (XI (XO (XO (XI XH))))))) :: ((Npos (XO
      (XO (XO (XI (XO XH)))))) :: [])))) :: (((Npos (XO (XI (XO (XO (XO (XO
      XH))))))) :: ((Npos (XI (XO (XO (XI (XO (XI XH))))))) :: ((Npos (XI (XI
      (XI (XO (XO (XI XH))))))) :: ((Npos (XI (XO (XO (XI (XO
      XH)))))) :: [])))) :: (((Npos (XO (XI (XO (XO (XO (XO
      XH))))))) :: ((Npos (XI (XO (XO (XI (XO (XI XH))))))) :: ((Npos (XI (XI
      (XI (XO (XO (XI XH))))))) :: ((Npos (XO (XI (XI (XI (XO
      XH)))))) :: [])))) :: (((Npos (XO (XI (XO (XO (XO (XO
      XH))))))) :: ((Npos (XI (XO (XO (XI (XO (XI XH))))))) :: ((Npos (XI (XI
      (XI (XO (XO (XI XH))))))) :: ((Npos (XO (XO (XI (XI (XI
      XH)))))) :: [])))) :: (((Npos (XO (XI (XO (XO (XO (XO
      XH))))))) :: ((Npos (XI (XO (XO (XI (XO (XI XH))))))) :: ((Npos (XI (XI
      (XI (XO (XO (XI XH))))))) :: ((Npos (XO (XI (XI (XI (XI
      XH)))))) :: [])))) :: (((Npos (XO (XI (XO (XO (XO (XO
      XH))))))) :: ((Npos (XI (XO (XO (XI (XO (XI XH))))))) :: ((Npos (XI (XI
      (XI (XO (XO (XI XH))))))) :: ((Npos (XI (XI (XO (XI (XI (XO
      XH))))))) :: [])))) :: (((Npos (XO (XI (XO (XO (XO (XO
      XH))))))) :: ((Npos (XI (XO (XO (XI (XO (XI XH))))))) :: ((Npos (XI (XI
      (XI (XO (XO (XI XH))))))) :: ((Npos (XO (XO (XI (XI (XI (XO
      XH))))))) :: ((Npos (XO (XO (XI (XI (XO (XI XH))))))) :: ((Npos (XI (XO
      (XO (XO (XO (XI XH))))))) :: ((Npos (XO (XI (XI (XI (XO (XI
      XH))))))) :: ((Npos (XI (XI (XI (XO (XO (XI XH))))))) :: ((Npos (XO (XO
      (XI (XI (XO (XI XH))))))) :: ((Npos (XI (XO (XI (XO (XO (XI
      XH))))))) :: [])))))))))) :: (((Npos (XO (XI (XO (XO (XO (XO
      XH))))))) :: ((Npos (XI (XO (XO (XI (XO (XI XH))))))) :: ((Npos (XI (XI
      (XI (XO (XO (XI XH))))))) :: ((Npos (XO (XO (XI (XI (XI (XO
      XH))))))) :: ((Npos (XO (XO (XI (XI (XO (XI XH))))))) :: ((Npos (XO (XI
      (XO (XO (XO (XI XH))))))) :: ((Npos (XO (XI (XO (XO (XI (XI
      XH))))))) :: ((Npos (XI (XO (XO (XO (XO (XI XH))))))) :: ((Npos (XI (XI
      (XO (XO (XO (XI XH))))))) :: ((Npos (XI (XI (XO (XI (XO (XI
      XH))))))) :: [])))))))))) :: (((Npos (XO (XI (XO (XO (XO (XO
      XH))))))) :: ((Npos (XI (XO (XO (XI (XO (XI XH))))))) :: ((Npos (XI (XI
      (XI (XO (XO (XI XH))))))) :: ((Npos (XO (XO (XI (XI (XI (XO
      XH))))))) :: ((Npos (XO (XO (XI (XI (XO (XI XH))))))) :: ((Npos (XI (XI
      (XO (XO (XO (XI XH))))))) :: ((Npos (XI (XO (XI (XO (XO (XI
      XH))))))) :: ((Npos (XI (XO (XO (XI (XO (XI XH))))))) :: ((Npos (XO (XO
      (XI (XI (XO (XI XH))))))) :: []))))))))) :: (((Npos (XO (XI (XO (XO (XO
      (XO XH))))))) :: ((Npos (XI (XO (XO (XI (XO (XI XH))))))) :: ((Npos (XI
      (XI (XI (XO (XO (XI XH))))))) :: ((Npos (XO (XO (XI (XI (XI (XO
      XH))))))) :: ((Npos (XO (XO (XI (XI (XO (XI XH))))))) :: ((Npos (XO (XI
      (XI (XO (XO (XI XH))))))) :: ((Npos (XO (XO (XI (XI (XO (XI
      XH))))))) :: ((Npos (XI (XI (XI (XI (XO (XI XH))))))) :: ((Npos (XI (XI
      (XI (XI (XO (XI XH))))))) :: ((Npos (XO (XI (XO (XO (XI (XI
      XH))))))) :: [])))))))))) :: (((Npos (XO (XI (XO (XO (XO (XO
      XH))))))) :: ((Npos (XI (XO (XO (XI (XO (XI XH))))))) :: ((Npos (XI (XI
      (XI (XO (XO (XI XH))))))) :: ((Npos (XO (XO (XI (XI (XI (XO
      XH))))))) :: ((Npos (XO (XI (XO (XO (XI (XI XH))))))) :: ((Npos (XI (XO
      (XO (XO (XO (XI XH))))))) :: ((Npos (XO (XI (XI (XI (XO (XI
      XH))))))) :: ((Npos (XI (XI (XI (XO (XO (XI XH))))))) :: ((Npos (XO (XO
      (XI (XI (XO (XI XH))))))) :: ((Npos (XI (XO (XI (XO (XO (XI
      XH))))))) :: [])))))))))) :: (((Npos (XO (XI (XO (XO (XO (XO
      XH))))))) :: ((Npos (XI (XO (XO (XI (XO (XI XH))))))) :: ((Npos (XI (XI
      (XI (XO (XO (XI XH))))))) :: ((Npos (XO (XO (XI (XI (XI (XO
      XH))))))) :: ((Npos (XO (XI (XO (XO (XI (XI XH))))))) :: ((Npos (XO (XI
      (XO (XO (XO (XI XH))))))) :: ((Npos (XO (XI (XO (XO (XI (XI
      XH))))))) :: ((Npos (XI (XO (XO (XO (XO (XI XH))))))) :: ((Npos (XI (XI
      (XO (XO (XO (XI XH))))))) :: ((Npos (XI (XI (XO (XI (XO (XI
      XH))))))) :: [])))))))))) :: (((Npos (XO (XI (XO (XO (XO (XO
      XH))))))) :: ((Npos (XI (XO (XO (XI (XO (XI XH))))))) :: ((Npos (XI (XI
      (XI (XO (XO (XI XH))))))) :: ((Npos (XO (XO (XI (XI (XI (XO
      XH))))))) :: ((Npos (XO (XI (XO (XO (XI (XI XH))))))) :: ((Npos (XI (XI
      (XO (XO (XO (XI XH))))))) :: ((Npos (XI (XO (XI (XO (XO (XI
      XH))))))) :: ((Npos (XI (XO (XO (XI (XO (XI XH))))))) :: ((Npos (XO (XO
      (XI (XI (XO (XI XH))))))) :: []))))))))) :: (((Npos (XO (XI (XO (XO (XO
      (XO XH))))))) :: ((Npos (XI (XO (XO (XI (XO (XI XH))))))) :: ((Npos (XI
      (XI (XI (XO (XO (XI XH))))))) :: ((Npos (XO (XO (XI (XI (XI (XO
      XH))))))) :: ((Npos (XO (XI (XO (XO (XI (XI XH))))))) :: ((Npos (XO (XI
      (XI (XO (XO (XI XH))))))) :: ((Npos (XO (XO (XI (XI (XO (XI
      XH))))))) :: ((Npos (XI (XI (XI (XI (XO (XI XH))))))) :: ((Npos (XI (XI
      (XI (XI (XO (XI XH))))))) :: ((Npos (XO (XI (XO (XO (XI (XI
      XH))))))) :: [])))))))))) :: (((Npos (XO (XI (XO (XO (XO (XO
      XH))))))) :: ((Npos (XI (XO (XO (XI (XO (XI XH))))))) :: ((Npos (XI (XI
      (XI (XO (XO (XI XH))))))) :: ((Npos (XO (XO (XI (XI (XI (XO
      XH))))))) :: ((Npos (XI (XO (XI (XO (XI (XI XH))))))) :: ((Npos (XO (XO
      (XI (XI (XO (XI XH))))))) :: ((Npos (XI (XI (XO (XO (XO (XI
      XH))))))) :: ((Npos (XI (XI (XI (XI (XO (XI XH))))))) :: ((Npos (XO (XI
      (XO (XO (XI (XI XH))))))) :: ((Npos (XO (XI (XI (XI (XO (XI
      XH))))))) :: ((Npos (XI (XO (XI (XO (XO (XI XH))))))) :: ((Npos (XO (XI
      (XO (XO (XI (XI XH))))))) :: [])))))))))))) :: (((Npos (XO (XI (XO (XO
      (XO (XO XH))))))) :: ((Npos (XI (XO (XO (XI (XO (XI XH))))))) :: ((Npos
      (XI (XI (XI (XO (XO (XI XH))))))) :: ((Npos (XO (XO (XI (XI (XI (XO
      XH))))))) :: ((Npos (XI (XO (XI (XO (XI (XI XH))))))) :: ((Npos (XO (XI
      (XO (XO (XI (XI XH))))))) :: ((Npos (XI (XI (XO (XO (XO (XI
      XH))))))) :: ((Npos (XI (XI (XI (XI (XO (XI XH))))))) :: ((Npos (XO (XI
      (XO (XO (XI (XI XH))))))) :: ((Npos (XO (XI (XI (XI (XO (XI
      XH))))))) :: ((Npos (XI (XO (XI (XO (XO (XI XH))))))) :: ((Npos (XO (XI
      (XO (XO (XI (XI XH))))))) :: [])))))))))))) :: (((Npos (XO (XI (XO (XO
      (XO (XO XH))))))) :: ((Npos (XI (XO (XO (XI (XO (XI XH))))))) :: ((Npos
      (XI (XI (XI (XO (XO (XI XH))))))) :: ((Npos (XO (XO (XI (XI (XI (XO
      XH))))))) :: ((Npos (XI (XI (XO (XI (XI (XI
      XH))))))) :: []))))) :: (((Npos (XO (XI (XO (XO (XO (XO
      XH))))))) :: ((Npos (XI (XO (XO (XI (XO (XI XH))))))) :: ((Npos (XI (XI
      (XI (XO (XO (XI XH))))))) :: ((Npos (XO (XO (XI (XI (XI (XO
      XH))))))) :: ((Npos (XI (XO (XI (XI (XI (XI
      XH))))))) :: []))))) :: (((Npos (XO (XI (XO (XO (XO (XO
      XH))))))) :: ((Npos (XI (XO (XO (XI (XO (XI XH))))))) :: ((Npos (XI (XI
      (XI (XO (XO (XI XH))))))) :: ((Npos (XI (XO (XI (XI (XI (XO
      XH))))))) :: [])))) :: (((Npos (XO (XI (XO (XO (XO (XO
      XH))))))) :: ((Npos (XI (XO (XO (XI (XO (XI XH))))))) :: ((Npos (XI (XI
      (XI (XO (XO (XI XH))))))) :: ((Npos (XI (XI (XI (XO (XO (XI
      XH))))))) :: ((Npos (XO (XO (XO (XI (XO XH)))))) :: []))))) :: (((Npos
      (XO (XI (XO (XO (XO (XO XH))))))) :: ((Npos (XI (XO (XO (XI (XO (XI
      XH))))))) :: ((Npos (XI (XI (XI (XO (XO (XI XH))))))) :: ((Npos (XI (XI
      (XI (XO (XO (XI XH))))))) :: ((Npos (XI (XO (XO (XI (XO
      XH)))))) :: []))))) :: (((Npos (XO (XI (XO (XO (XO (XO
      XH))))))) :: ((Npos (XI (XO (XO (XI (XO (XI XH))))))) :: ((Npos (XI (XI
      (XI (XO (XO (XI XH))))))) :: ((Npos (XI (XI (XI (XO (XO (XI
      XH))))))) :: ((Npos (XO (XI (XI (XI (XO XH)))))) :: []))))) :: (((Npos
      (XO (XI (XO (XO (XO (XO XH))))))) :: ((Npos (XI (XO (XO (XI (XO (XI
      XH))))))) :: ((Npos (XI (XI (XI (XO (XO (XI XH))))))) :: ((Npos (XI (XI
      (XI (XO (XO (XI XH))))))) :: ((Npos (XO (XO (XI (XI (XI
      XH)))))) :: []))))) :: (((Npos (XO (XI (XO (XO (XO (XO
      XH))))))) :: ((Npos (XI (XO (XO (XI (XO (XI XH))))))) :: ((Npos (XI (XI
      (XI (XO (XO (XI XH))))))) :: ((Npos (XI (XI (XI (XO (XO (XI
      XH))))))) :: ((Npos (XO (XI (XI (XI (XI XH)))))) :: []))))) :: (((Npos
      (XO (XI (XO (XO (XO (XO XH))))))) :: ((Npos (XI (XO (XO (XI (XO (XI
      XH))))))) :: ((Npos (XI (XI (XI (XO (XO (XI XH))))))) :: ((Npos (XI (XI
      (XI (XO (XO (XI XH))))))) :: ((Npos (XI (XI (XO (XI (XI (XO
      XH))))))) :: []))))) :: (((Npos (XO (XI (XO (XO (XO (XO
      XH))))))) :: ((Npos (XI (XO (XO (XI (XO (XI XH))))))) :: ((Npos (XI (XI
      (XI (XO (XO (XI XH))))))) :: ((Npos (XI (XI (XI (XO (XO (XI
      XH))))))) :: ((Npos (XO (XO (XI (XI (XI (XO XH))))))) :: ((Npos (XO (XO
      (XI (XI (XO (XI XH))))))) :: ((Npos (XI (XO (XO (XO (XO (XI
      XH))))))) :: ((Npos (XO (XI (XI (XI (XO (XI XH))))))) :: ((Npos (XI (XI
      (XI (XO (XO (XI XH))))))) :: ((Npos (XO (XO (XI (XI (XO (XI
      XH))))))) :: ((Npos (XI (XO (XI (XO (XO (XI
      XH))))))) :: []))))))))))) :: (((Npos (XO (XI (XO (XO (XO (XO
      XH))))))) :: ((Npos (XI (XO (XO (XI (XO (XI XH))))))) :: ((Npos (XI (XI
      (XI (XO (XO (XI XH))))))) :: ((Npos (XI (XI (XI (XO (XO (XI
      XH))))))) :: ((Npos (XO (XO (XI (XI (XI (XO XH))))))) :: ((Npos (XO (XO
      (XI (XI (XO (XI XH))))))) :: ((Npos (XO (XI (XO (XO (XO (XI
      XH))))))) :: ((Npos (XO (XI (XO (XO (XI (XI XH))))))) :: ((Npos (XI (XO
      (XO (XO (XO (XI XH))))))) :: ((Npos (XI (XI (XO (XO (XO (XI
      XH))))))) :: ((Npos (XI (XI (XO (XI (XO (XI
      XH))))))) :: []))))))))))) :: (((Npos (XO (XI (XO (XO (XO (XO
      XH))))))) :: ((Npos (XI (XO (XO (XI (XO (XI XH))))))) :: ((Npos (XI (XI
      (XI (XO (XO (XI XH))))))) :: ((Npos (XI (XI (XI (XO (XO (XI
      XH))))))) :: ((Npos (XO (XO (XI (XI (XI (XO XH))))))) :: ((Npos (XO (XO
      (XI (XI (XO (XI XH))))))) :: ((Npos (XI (XI (XO (XO (XO (XI
      XH))))))) :: ((Npos (XI (XO (XI (XO (XO (XI XH))))))) :: ((Npos (XI (XO
      (XO (XI (XO (XI XH))))))) :: ((Npos (XO (XO (XI (XI (XO (XI
      XH))))))) :: [])))))))))) :: (((Npos (XO (XI (XO (XO (XO (XO
      XH))))))) :: ((Npos (XI (XO (XO (XI (XO (XI XH))))))) :: ((Npos (XI (XI
      (XI (XO (XO (XI XH))))))) :: ((Npos (XI (XI (XI (XO (XO (XI
      XH))))))) :: ((Npos (XO (XO (XI (XI (XI (XO XH))))))) :: ((Npos (XO (XO
      (XI (XI (XO (XI XH))))))) :: ((Npos (XO (XI (XI (XO (XO (XI
      XH))))))) :: ((Npos (XO (XO (XI (XI (XO (XI XH))))))) :: ((Npos (XI (XI
      (XI (XI (XO (XI XH))))))) :: ((Npos (XI (XI (XI (XI (XO (XI
      XH))))))) :: ((Npos (XO (XI (XO (XO (XI (XI
      XH))))))) :: []))))))))))) :: (((Npos (XO (XI (XO (XO (XO (XO
      XH))))))) :: ((Npos (XI (XO (XO (XI (XO (XI XH))))))) :: ((Npos (XI (XI
      (XI (XO (XO (XI XH))))))) :: ((Npos (XI (XI (XI (XO (XO (XI
      XH))))))) :: ((Npos (XO (XO (XI (XI (XI (XO XH))))))) :: ((Npos (XO (XI
      (XO (XO (XI (XI XH))))))) :: ((Npos (XI (XO (XO (XO (XO (XI
      XH))))))) :: ((Npos (XO (XI (XI (XI (XO (XI XH))))))) :: ((Npos (XI (XI
      (XI (XO (XO (XI XH))))))) :: ((Npos (XO (XO (XI (XI (XO (XI
      XH))))))) :: ((Npos (XI (XO (XI (XO (XO (XI
      XH))))))) :: []))))))))))) :: (((Npos (XO (XI (XO (XO (XO (XO
      XH))))))) :: ((Npos (XI (XO (XO (XI (XO (XI XH))))))) :: ((Npos (XI (XI
      (XI (XO (XO (XI XH))))))) :: ((Npos (XI (XI (XI (XO (XO (XI
      XH))))))) :: ((Npos (XO (XO (XI (XI (XI (XO XH))))))) :: ((Npos (XO (XI
      (XO (XO (XI (XI XH))))))) :: ((Npos (XO (XI (XO (XO (XO (XI
      XH))))))) :: ((Npos (XO (XI (XO (XO (XI (XI XH))))))) :: ((Npos (XI (XO
      (XO (XO (XO (XI XH))))))) :: ((Npos (XI (XI (XO (XO (XO (XI
      XH))))))) :: ((Npos (XI (XI (XO (XI (XO (XI
      XH))))))) :: []))))))))))) :: (((Npos (XO (XI (XO (XO (XO (XO
      XH))))))) :: ((Npos (XI (XO (XO (XI (XO (XI XH))))))) :: ((Npos (XI (XI
      (XI (XO (XO (XI XH))))))) :: ((Npos (XI (XI (XI (XO (XO (XI
      XH))))))) :: ((Npos (XO (XO (XI (XI (XI (XO XH))))))) :: ((Npos (XO (XI
      (XO (XO (XI (XI XH))))))) :: ((Npos (XI (XI (XO (XO (XO (XI
      XH))))))) :: ((Npos (XI (XO (XI (XO (XO (XI XH))))))) :: ((Npos (XI (XO
      (XO (XI (XO (XI XH))))))) :: ((Npos (XO (XO (XI (XI (XO (XI
      XH))))))) :: [])))))))))) :: (((Npos (XO (XI (XO (XO (XO (XO
      XH))))))) :: ((Npos (XI (XO (XO (XI (XO (XI XH))))))) :: ((Npos (XI (XI
      (XI (XO (XO (XI XH))))))) :: ((Npos (XI (XI (XI (XO (XO (XI
      XH))))))) :: ((Npos (XO (XO (XI (XI (XI (XO XH))))))) :: ((Npos (XO (XI
      (XO (XO (XI (XI XH))))))) :: ((Npos (XO (XI (XI (XO (XO (XI
      XH))))))) :: ((Npos (XO (XO (XI (XI (XO (XI XH))))))) :: ((Npos (XI (XI
      (XI (XI (XO (XI XH))))))) :: ((Npos (XI (XI (XI (XI (XO (XI
      XH))))))) :: ((Npos (XO (XI (XO (XO (XI (XI
      XH))))))) :: []))))))))))) :: (((Npos (XO (XI (XO (XO (XO (XO
      XH))))))) :: ((Npos (XI (XO (XO (XI (XO (XI XH))))))) :: ((Npos (XI (XI
      (XI (XO (XO (XI XH))))))) :: ((Npos (XI (XI (XI (XO (XO (XI
      XH))))))) :: ((Npos (XO (XO (XI (XI (XI (XO XH))))))) :: ((Npos (XI (XO
      (XI (XO (XI (XI XH))))))) :: ((Npos (XO (XO (XI (XI (XO (XI
      XH))))))) :: ((Npos (XI (XI (XO (XO (XO (XI XH))))))) :: ((Npos (XI (XI
      (XI (XI (XO (XI XH))))))) :: ((Npos (XO (XI (XO (XO (XI (XI
      XH))))))) :: ((Npos (XO (XI (XI (XI (XO (XI XH))))))) :: ((Npos (XI (XO
      (XI (XO (XO (XI XH))))))) :: ((Npos (XO (XI (XO (XO (XI (XI
      XH))))))) :: []))))))))))))) :: (((Npos (XO (XI (XO (XO (XO (XO
      XH))))))) :: ((Npos (XI (XO (XO (XI (XO (XI XH))))))) :: ((Npos (XI (XI
      (XI (XO (XO (XI XH))))))) :: ((Npos (XI (XI (XI (XO (XO (XI
      XH))))))) :: ((Npos (XO (XO (XI (XI (XI (XO XH))))))) :: ((Npos (XI (XO
      (XI (XO (XI (XI XH))))))) :: ((Npos (XO (XI (XO (XO (XI (XI
      XH))))))) :: ((Npos (XI (XI (XO (XO (XO (XI XH))))))) :: ((Npos (XI (XI
      (XI (XI (XO (XI XH))))))) :: ((Npos (XO (XI (XO (XO (XI (XI
      XH))))))) :: ((Npos (XO (XI (XI (XI (XO (XI XH))))))) :: ((Npos (XI (XO
      (XI (XO (XO (XI XH))))))) :: ((Npos (XO (XI (XO (XO (XI (XI
      XH))))))) :: []))))))))))))) :: (((Npos (XO (XI (XO (XO (XO (XO
      XH))))))) :: ((Npos (XI (XO (XO (XI (XO (XI XH))))))) :: ((Npos (XI (XI
      (XI (XO (XO (XI XH))))))) :: ((Npos (XI (XI (XI (XO (XO (XI
      XH))))))) :: ((Npos (XO (XO (XI (XI (XI (XO XH))))))) :: ((Npos (XI (XI
      (XO (XI (XI (XI XH))))))) :: [])))))) :: (((Npos (XO (XI (XO (XO (XO
      (XO XH))))))) :: ((Npos (XI (XO (XO (XI (XO (XI XH))))))) :: ((Npos (XI
      (XI (XI (XO (XO (XI XH))))))) :: ((Npos (XI (XI (XI (XO (XO (XI
      XH))))))) :: ((Npos (XO (XO (XI (XI (XI (XO XH))))))) :: ((Npos (XI (XO
      (XI (XI (XI (XI XH))))))) :: [])))))) :: (((Npos (XO (XI (XO (XO (XO
      (XO XH))))))) :: ((Npos (XI (XO (XO (XI (XO (XI XH))))))) :: ((Npos (XI
      (XI (XI (XO (XO (XI XH))))))) :: ((Npos (XI (XI (XI (XO (XO (XI
      XH))))))) :: ((Npos (XI (XO (XI (XI (XI (XO
      XH))))))) :: []))))) :: (((Npos (XO (XI (XO (XO (XO (XO
      XH))))))) :: ((Npos (XI (XO (XO (XI (XO (XI XH))))))) :: ((Npos (XI (XI
      (XI (XO (XO (XI XH))))))) :: ((Npos (XI (XI (XI (XO (XO (XI
      XH))))))) :: ((Npos (XI (XI (XO (XI (XI (XI
      XH))))))) :: []))))) :: (((Npos (XO (XI (XO (XO (XO (XO
      XH))))))) :: ((Npos (XI (XO (XO (XI (XO (XI XH))))))) :: ((Npos (XI (XI
      (XI (XO (XO (XI XH))))))) :: ((Npos (XI (XI (XI (XO (XO (XI
      XH))))))) :: ((Npos (XO (XO (XI (XI (XI (XI
      XH))))))) :: []))))) :: (((Npos (XO (XI (XO (XO (XO (XO
      XH))))))) :: ((Npos (XI (XO (XO (XI (XO (XI XH))))))) :: ((Npos (XI (XI
      (XI (XO (XO (XI XH))))))) :: ((Npos (XI (XI (XI (XO (XO (XI
      XH))))))) :: ((Npos (XI (XO (XI (XI (XI (XI
      XH))))))) :: []))))) :: (((Npos (XO (XI (XO (XO (XO (XO
      XH))))))) :: ((Npos (XI (XO (XO (XI (XO (XI XH))))))) :: ((Npos (XI (XI
      (XI (XO (XO (XI XH))))))) :: ((Npos (XI (XI (XO (XI (XI (XI
      XH))))))) :: [])))) :: (((Npos (XO (XI (XO (XO (XO (XO
      XH))))))) :: ((Npos (XI (XO (XO (XI (XO (XI XH))))))) :: ((Npos (XI (XI
      (XI (XO (XO (XI XH))))))) :: ((Npos (XO (XO (XI (XI (XI (XI
      XH))))))) :: [])))) :: (((Npos (XO (XI (XO (XO (XO (XO
      XH))))))) :: ((Npos (XI (XO (XO (XI (XO (XI XH))))))) :: ((Npos (XI (XI
      (XI (XO (XO (XI XH))))))) :: ((Npos (XI (XO (XI (XI (XI (XI
      XH))))))) :: [])))) :: (((Npos (XO (XI (XO (XO (XO (XI
      XH))))))) :: ((Npos (XI (XO (XO (XI (XO (XI XH))))))) :: ((Npos (XI (XI
      (XI (XO (XO (XI XH))))))) :: ((Npos (XO (XO (XO (XI (XO
      XH)))))) :: [])))) :: (((Npos (XO (XI (XO (XO (XO (XI
      XH))))))) :: ((Npos (XI (XO (XO (XI (XO (XI XH))))))) :: ((Npos (XI (XI
      (XI (XO (XO (XI XH))))))) :: ((Npos (XI (XO (XO (XI (XO
      XH)))))) :: [])))) :: (((Npos (XO (XI (XO (XO (XO (XI
      XH))))))) :: ((Npos (XI (XO (XO (XI (XO (XI XH))))))) :: ((Npos (XI (XI
      (XI (XO (XO (XI XH))))))) :: ((Npos (XO (XI (XI (XI (XO
      XH)))))) :: [])))) :: (((Npos (XO (XI (XO (XO (XO (XI
      XH))))))) :: ((Npos (XI (XO (XO (XI (XO (XI XH))))))) :: ((Npos (XI (XI
      (XI (XO (XO (XI XH))))))) :: ((Npos (XO (XO (XI (XI (XI
      XH)))))) :: [])))) :: (((Npos (XO (XI (XO (XO (XO (XI
      XH))))))) :: ((Npos (XI (XO (XO (XI (XO (XI XH))))))) :: ((Npos (XI (XI
      (XI (XO (XO (XI XH))))))) :: ((Npos (XO (XI (XI (XI (XI
      XH)))))) :: [])))) :: (((Npos (XO (XI (XO (XO (XO (XI
      XH))))))) :: ((Npos (XI (XO (XO (XI (XO (XI XH))))))) :: ((Npos (XI (XI
      (XI (XO (XO (XI XH))))))) :: ((Npos (XI (XI (XO (XI (XI (XO
      XH))))))) :: [])))) :: (((Npos (XO (XI (XO (XO (XO (XI
      XH))))))) :: ((Npos (XI (XO (XO (XI (XO (XI XH))))))) :: ((Npos (XI (XI
      (XI (XO (XO (XI XH))))))) :: ((Npos (XO (XO (XI (XI (XI (XO
      XH))))))) :: ((Npos (XO (XO (XI (XI (XO (XI XH))))))) :: ((Npos (XI (XO
      (XO (XO (XO (XI XH))))))) :: ((Npos (XO (XI (XI (XI (XO (XI
      XH))))))) :: ((Npos (XI (XI (XI (XO (XO (XI XH))))))) :: ((Npos (XO (XO
      (XI (XI (XO (XI XH))))))) :: ((Npos (XI (XO (XI (XO (XO (XI
      XH))))))) :: [])))))))))) :: (((Npos (XO (XI (XO (XO (XO (XI
      XH))))))) :: ((Npos (XI (XO (XO (XI (XO (XI XH))))))) :: ((Npos (XI (XI
      (XI (XO (XO (XI XH))))))) :: ((Npos (XO (XO (XI (XI (XI (XO
      XH))))))) :: ((Npos (XO (XO (XI (XI (XO (XI XH))))))) :: ((Npos (XO (XI
      (XO (XO (XO (XI XH))))))) :: ((Npos (XO (XI (XO (XO (XI (XI
      XH))))))) :: ((Npos (XI (XO (XO (XO (XO (XI XH))))))) :: ((Npos (XI (XI
      (XO (XO (XO (XI XH))))))) :: ((Npos (XI (XI (XO (XI (XO (XI
      XH))))))) :: [])))))))))) :: (((Npos (XO (XI (XO (XO (XO (XI
      XH))))))) :: ((Npos (XI (XO (XO (XI (XO (XI XH))))))) :: ((Npos (XI (XI
      (XI (XO (XO (XI XH))))))) :: ((Npos (XO (XO (XI (XI (XI (XO
      XH))))))) :: ((Npos (XO (XO (XI (XI (XO (XI XH))))))) :: ((Npos (XI (XI
      (XO (XO (XO (XI XH))))))) :: ((Npos (XI (XO (XI (XO (XO (XI
      XH))))))) :: ((Npos (XI (XO (XO (XI (XO (XI XH))))))) :: ((Npos (XO (XO
      (XI (XI (XO (XI XH))))))) :: []))))))))) :: (((Npos (XO (XI (XO (XO (XO
      (XI XH))))))) :: ((Npos (XI (XO (XO (XI (XO (XI XH))))))) :: ((Npos (XI
      (XI (XI (XO (XO (XI XH))))))) :: ((Npos (XO (XO (XI (XI (XI (XO
      XH))))))) :: ((Npos (XO (XO (XI (XI (XO (XI XH))))))) :: ((Npos (XO (XI
      (XI (XO (XO (XI XH))))))) :: ((Npos (XO (XO (XI (XI (XO (XI
      XH))))))) :: ((Npos (XI (XI (XI (XI (XO (XI XH))))))) :: ((Npos (XI (XI
      (XI (XI (XO (XI XH))))))) :: ((Npos (XO (XI (XO (XO (XI (XI
      XH))))))) :: [])))))))))) :: (((Npos (XO (XI (XO (XO (XO (XI
      XH))))))) :: ((Npos (XI (XO (XO (XI (XO (XI XH))))))) :: ((Npos (XI (XI
      (XI (XO (XO (XI XH))))))) :: ((Npos (XO (XO (XI (XI (XI (XO
      XH))))))) :: ((Npos (XO (XI (XO (XO (XI (XI XH))))))) :: ((Npos (XI (XO
      (XO (XO (XO (XI XH))))))) :: ((Npos (XO (XI (XI (XI (XO (XI
      XH))))))) :: ((Npos (XI (XI (XI (XO (XO (XI XH))))))) :: ((Npos (XO (XO
      (XI (XI (XO (XI XH))))))) :: ((Npos (XI (XO (XI (XO (XO (XI
      XH))))))) :: [])))))))))) :: (((Npos (XO (XI (XO (XO (XO (XI
      XH))))))) :: ((Npos (XI (XO (XO (XI (XO (XI XH))))))) :: ((Npos (XI (XI
      (XI (XO (XO (XI XH))))))) :: ((Npos (XO (XO (XI (XI (XI (XO
      XH))))))) :: ((Npos (XO (XI (XO (XO (XI (XI XH))))))) :: ((Npos (XO (XI
      (XO (XO (XO (XI XH))))))) :: ((Npos (XO (XI (XO (XO (XI (XI
      XH))))))) :: ((Npos (XI (XO (XO (XO (XO (XI XH))))))) :: ((Npos (XI (XI
      (XO (XO (XO (XI XH))))))) :: ((Npos (XI (XI (XO (XI (XO (XI
      XH))))))) :: [])))))))))) :: (((Npos (XO (XI (XO (XO (XO (XI
      XH))))))) :: ((Npos (XI (XO (XO (XI (XO (XI XH))))))) :: ((Npos (XI (XI
      (XI (XO (XO (XI XH))))))) :: ((Npos (XO (XO (XI (XI (XI (XO
      XH))))))) :: ((Npos (XO (XI (XO (XO (XI (XI XH))))))) :: ((Npos (XI (XI
      (XO (XO (XO (XI XH))))))) :: ((Npos (XI (XO (XI (XO (XO (XI
      XH))))))) :: ((Npos (XI (XO (XO (XI (XO (XI XH))))))) :: ((Npos (XO (XO
      (XI (XI (XO (XI XH))))))) :: []))))))))) :: (((Npos (XO (XI (XO (XO (XO
      (XI XH))))))) :: ((Npos (XI (XO (XO (XI (XO (XI XH))))))) :: ((Npos (XI
      (XI (XI (XO (XO (XI XH))))))) :: ((Npos (XO (XO (XI (XI (XI (XO
      XH))))))) :: ((Npos (XO (XI (XO (XO (XI (XI XH))))))) :: ((Npos (XO (XI
      (XI (XO (XO (XI XH))))))) :: ((Npos (XO (XO (XI (XI (XO (XI
      XH))))))) :: ((Npos (XI (XI (XI (XI (XO (XI XH))))))) :: ((Npos (XI (XI
      (XI (XI (XO (XI XH))))))) :: ((Npos (XO (XI (XO (XO (XI (XI
      XH))))))) :: [])))))))))) :: (((Npos (XO (XI (XO (XO (XO (XI
      XH))))))) :: ((Npos (XI (XO (XO (XI (XO (XI XH))))))) :: ((Npos (XI (XI
      (XI (XO (XO (XI XH))))))) :: ((Npos (XO (XO (XI (XI (XI (XO
      XH))))))) :: ((Npos (XI (XO (XI (XO (XI (XI XH))))))) :: ((Npos (XO (XO
      (XI (XI (XO (XI XH))))))) :: ((Npos (XI (XI (XO (XO (XO (XI
      XH))))))) :: ((Npos (XI (XI (XI (XI (XO (XI XH))))))) :: ((Npos (XO (XI
      (XO (XO (XI (XI XH))))))) :: ((Npos (XO (XI (XI (XI (XO (XI
      XH))))))) :: ((Npos (XI (XO (XI (XO (XO (XI XH))))))) :: ((Npos (XO (XI
      (XO (XO (XI (XI XH))))))) :: [])))))))))))) :: (((Npos (XO (XI (XO (XO
      (XO (XI XH))))))) :: ((Npos (XI (XO (XO (XI (XO (XI XH))))))) :: ((Npos
      (XI (XI (XI (XO (XO (XI XH))))))) :: ((Npos (XO (XO (XI (XI (XI (XO
      XH))))))) :: ((Npos (XI (XO (XI (XO (XI (XI XH))))))) :: ((Npos (XO (XI
      (XO (XO (XI (XI XH))))))) :: ((Npos (XI (XI (XO (XO (XO (XI
      XH))))))) :: ((Npos (XI (XI (XI (XI (XO (XI XH))))))) :: ((Npos (XO (XI
      (XO (XO (XI (XI XH))))))) :: ((Npos (XO (XI (XI (XI (XO (XI
      XH))))))) :: ((Npos (XI (XO (XI (XO (XO (XI XH))))))) :: ((Npos (XO (XI
      (XO (XO (XI (XI XH))))))) :: [])))))))))))) :: (((Npos (XO (XI (XO (XO
      (XO (XI XH))))))) :: ((Npos (XI (XO (XO (XI (XO (XI XH))))))) :: ((Npos
      (XI (XI (XI (XO (XO (XI XH))))))) :: ((Npos (XO (XO (XI (XI (XI (XO
      XH))))))) :: ((Npos (XI (XI (XO (XI (XI (XI
      XH))))))) :: []))))) :: (((Npos (XO (XI (XO (XO (XO (XI
      XH))))))) :: ((Npos (XI (XO (XO (XI (XO (XI XH))))))) :: ((Npos (XI (XI
      (XI (XO (XO (XI XH))))))) :: ((Npos (XO (XO (XI (XI (XI (XO
      XH))))))) :: ((Npos (XI (XO (XI (XI (XI (XI
      XH))))))) :: []))))) :: (((Npos (XO (XI (XO (XO (XO (XI
      XH))))))) :: ((Npos (XI (XO (XO (XI (XO (XI XH))))))) :: ((Npos (XI (XI
      (XI (XO (XO (XI XH))))))) :: ((Npos (XI (XO (XI (XI (XI (XO
      XH))))))) :: [])))) :: (((Npos (XO (XI (XO (XO (XO (XI
      XH))))))) :: ((Npos (XI (XO (XO (XI (XO (XI XH))))))) :: ((Npos (XI (XI
      (XI (XO (XO (XI XH))))))) :: ((Npos (XI (XI (XI (XO (XO (XI
      XH))))))) :: ((Npos (XO (XO (XO (XI (XO XH)))))) :: []))))) :: (((Npos
      (XO (XI (XO (XO (XO (XI XH))))))) :: ((Npos (XI (XO (XO (XI (XO (XI
      XH))))))) :: ((Npos (XI (XI (XI (XO (XO (XI XH))))))) :: ((Npos (XI (XI
      (XI (XO (XO (XI XH))))))) :: ((Npos (XI (XO (XO (XI (XO
      XH)))))) :: []))))) :: (((Npos (XO (XI (XO (XO (XO (XI
      XH))))))) :: ((Npos (XI (XO (XO (XI (XO (XI XH))))))) :: ((Npos (XI (XI
      (XI (XO (XO (XI XH))))))) :: ((Npos (XI (XI (XI (XO (XO (XI
      XH))))))) :: ((Npos (XO (XI (XI (XI (XO XH)))))) :: []))))) :: (((Npos
      (XO (XI (XO (XO (XO (XI XH))))))) :: ((Npos (XI (XO (XO (XI (XO (XI
      XH))))))) :: ((Npos (XI (XI (XI (XO (XO (XI XH))))))) :: ((Npos (XI (XI
      (XI (XO (XO (XI XH))))))) :: ((Npos (XO (XO (XI (XI (XI
      XH)))))) :: []))))) :: (((Npos (XO (XI (XO (XO (XO (XI
      XH))))))) :: ((Npos (XI (XO (XO (XI (XO (XI XH))))))) :: ((Npos (XI (XI
      (XI (XO (XO (XI XH))))))) :: ((Npos (XI (XI (XI (XO (XO (XI
      XH))))))) :: ((Npos (XO (XI (XI (XI (XI XH)))))) :: []))))) :: (((Npos
      (XO (XI (XO (XO (XO (XI XH))))))) :: ((Npos (XI (XO (XO (XI (XO (XI
      XH))))))) :: ((Npos (XI (XI (XI (XO (XO (XI XH))))))) :: ((Npos (XI (XI
      (XI (XO (XO (XI XH))))))) :: ((Npos (XI (XI (XO (XI (XI (XO
      XH))))))) :: []))))) :: (((Npos (XO (XI (XO (XO (XO (XI
      XH))))))) :: ((Npos (XI (XO (XO (XI (XO (XI XH))))))) :: ((Npos (XI (XI
      (XI (XO (XO (XI XH))))))) :: ((Npos (XI (XI (XI (XO (XO (XI
      XH))))))) :: ((Npos (XO (XO (XI (XI (XI (XO XH))))))) :: ((Npos (XO (XO
      (XI (XI (XO (XI XH))))))) :: ((Npos (XI (XO (XO (XO (XO (XI
      XH))))))) :: ((Npos (XO (XI (XI (XI (XO (XI XH))))))) :: ((Npos (XI (XI
      (XI (XO (XO (XI XH))))))) :: ((Npos (XO (XO (XI (XI (XO (XI
      XH))))))) :: ((Npos (XI (XO (XI (XO (XO (XI
      XH))))))) :: []))))))))))) :: (((Npos (XO (XI (XO (XO (XO (XI
      XH))))))) :: ((Npos (XI (XO (XO (XI (XO (XI XH))))))) :: ((Npos (XI (XI
      (XI (XO (XO (XI XH))))))) :: ((Npos (XI (XI (XI (XO (XO (XI
      XH))))))) :: ((Npos (XO (XO (XI (XI (XI (XO XH))))))) :: ((Npos (XO (XO
      (XI (XI (XO (XI XH))))))) :: ((Npos (XO (XI (XO (XO (XO (XI
      XH))))))) :: ((Npos (XO (XI (XO (XO (XI (XI XH))))))) :: ((Npos (XI (XO
      (XO (XO (XO (XI XH))))))) :: ((Npos (XI (XI (XO (XO (XO (XI
      XH))))))) :: ((Npos (XI (XI (XO (XI (XO (XI
      XH))))))) :: []))))))))))) :: (((Npos (XO (XI (XO (XO (XO (XI
      XH))))))) :: ((Npos (XI (XO (XO (XI (XO (XI XH))))))) :: ((Npos (XI (XI
      (XI (XO (XO (XI XH))))))) :: ((Npos (XI (XI (XI (XO (XO (XI
      XH))))))) :: ((Npos (XO (XO (XI (XI (XI (XO XH))))))) :: ((Npos (XO (XO
      (XI (XI (XO (XI XH))))))) :: ((Npos (XI (XI (XO (XO (XO (XI
      XH))))))) :: ((Npos (XI (XO (XI (XO (XO (XI XH))))))) :: ((Npos (XI (XO
      (XO (XI (XO (XI XH))))))) :: ((Npos (XO (XO (XI (XI (XO (XI
      XH))))))) :: [])))))))))) :: (((Npos (XO (XI (XO (XO (XO (XI
      XH))))))) :: ((Npos (XI (XO (XO (XI (XO (XI XH))))))) :: ((Npos (XI (XI
      (XI (XO (XO (XI XH))))))) :: ((Npos (XI (XI (XI (XO (XO (XI
      XH))))))) :: ((Npos (XO (XO (XI (XI (XI (XO XH))))))) :: ((Npos (XO (XO
      (XI (XI (XO (XI XH))))))) :: ((Npos (XO (XI (XI (XO (XO (XI
      XH))))))) :: ((Npos (XO (XO (XI (XI (XO (XI XH))))))) :: ((Npos (XI (XI
      (XI (XI (XO (XI XH))))))) :: ((Npos (XI (XI (XI (XI (XO (XI
      XH))))))) :: ((Npos (XO (XI (XO (XO (XI (XI
      XH))))))) :: []))))))))))) :: (((Npos (XO (XI (XO (XO (XO (XI
      XH))))))) :: ((Npos (XI (XO (XO (XI (XO (XI XH))))))) :: ((Npos (XI (XI
      (XI (XO (XO (XI XH))))))) :: ((Npos (XI (XI (XI (XO (XO (XI
      XH))))))) :: ((Npos (XO (XO (XI (XI (XI (XO XH))))))) :: ((Npos (XO (XI
      (XO (XO (XI (XI XH))))))) :: ((Npos (XI (XO (XO (XO (XO (XI
      XH))))))) :: ((Npos (XO (XI (XI (XI (XO (XI XH))))))) :: ((Npos (XI (XI
      (XI (XO (XO (XI XH))))))) :: ((Npos (XO (XO (XI (XI (XO (XI
      XH))))))) :: ((Npos (XI (XO (XI (XO (XO (XI
      XH))))))) :: []))))))))))) :: (((Npos (XO (XI (XO (XO (XO (XI
      XH))))))) :: ((Npos (XI (XO (XO (XI (XO (XI XH))))))) :: ((Npos (XI (XI
      (XI (XO (XO (XI XH))))))) :: ((Npos (XI (XI (XI (XO (XO (XI
      XH))))))) :: ((Npos (XO (XO (XI (XI (XI (XO XH))))))) :: ((Npos (XO (XI
      (XO (XO (XI (XI XH))))))) :: ((Npos (XO (XI (XO (XO (XO (XI
      XH))))))) :: ((Npos (XO (XI (XO (XO (XI (XI XH))))))) :: ((Npos (XI (XO
      (XO (XO (XO (XI XH))))))) :: ((Npos (XI (XI (XO (XO (XO (XI
      XH))))))) :: ((Npos (XI (XI (XO (XI (XO (XI
      XH))))))) :: []))))))))))) :: (((Npos (XO (XI (XO (XO (XO (XI
      XH))))))) :: ((Npos (XI (XO (XO (XI (XO (XI XH))))))) :: ((Npos (XI (XI
      (XI (XO (XO (XI XH))))))) :: ((Npos (XI (XI (XI (XO (XO (XI
      XH))))))) :: ((Npos (XO (XO (XI (XI (XI (XO XH))))))) :: ((Npos (XO (XI
      (XO (XO (XI (XI XH))))))) :: ((Npos (XI (XI (XO (XO (XO (XI
      XH))))))) :: ((Npos (XI (XO (XI (XO (XO (XI XH))))))) :: ((Npos (XI (XO
      (XO (XI (XO (XI XH))))))) :: ((Npos (XO (XO (XI (XI (XO (XI
      XH))))))) :: [])))))))))) :: (((Npos (XO (XI (XO (XO (XO (XI
      XH))))))) :: ((Npos (XI (XO (XO (XI (XO (XI XH))))))) :: ((Npos (XI (XI
      (XI (XO (XO (XI XH))))))) :: ((Npos (XI (XI (XI (XO (XO (XI
      XH))))))) :: ((Npos (XO (XO (XI (XI (XI (XO XH))))))) :: ((Npos (XO (XI
      (XO (XO (XI (XI XH))))))) :: ((Npos (XO (XI (XI (XO (XO (XI
      XH))))))) :: ((Npos (XO (XO (XI (XI (XO (XI XH))))))) :: ((Npos (XI (XI
      (XI (XI (XO (XI XH))))))) :: ((Npos (XI (XI (XI (XI (XO (XI
      XH))))))) :: ((Npos (XO (XI (XO (XO (XI (XI
      XH))))))) :: []))))))))))) :: (((Npos (XO (XI (XO (XO (XO (XI
      XH))))))) :: ((Npos (XI (XO (XO (XI (XO (XI XH))))))) :: ((Npos (XI (XI
      (XI (XO (XO (XI XH))))))) :: ((Npos (XI (XI (XI (XO (XO (XI
      XH))))))) :: ((Npos (XO (XO (XI (XI (XI (XO XH))))))) :: ((Npos (XI (XO
      (XI (XO (XI (XI XH))))))) :: ((Npos (XO (XO (XI (XI (XO (XI
      XH))))))) :: ((Npos (XI (XI (XO (XO (XO (XI XH))))))) :: ((Npos (XI (XI
      (XI (XI (XO (XI XH))))))) :: ((Npos (XO (XI (XO (XO (XI (XI
      XH))))))) :: ((Npos (XO (XI (XI (XI (XO (XI XH))))))) :: ((Npos (XI (XO
      (XI (XO (XO (XI XH))))))) :: ((Npos (XO (XI (XO (XO (XI (XI
      XH))))))) :: []))))))))))))) :: (((Npos (XO (XI (XO (XO (XO (XI
      XH))))))) :: ((Npos (XI (XO (XO (XI (XO (XI XH))))))) :: ((Npos (XI (XI
      (XI (XO (XO (XI XH))))))) :: ((Npos (XI (XI (XI (XO (XO (XI
      XH))))))) :: ((Npos (XO (XO (XI (XI (XI (XO XH))))))) :: ((Npos (XI (XO
      (XI (XO (XI (XI XH))))))) :: ((Npos (XO (XI (XO (XO (XI (XI
      XH))))))) :: ((Npos (XI (XI (XO (XO (XO (XI XH))))))) :: ((Npos (XI (XI
      (XI (XI (XO (XI XH))))))) :: ((Npos (XO (XI (XO (XO (XI (XI
      XH))))))) :: ((Npos (XO (XI (XI (XI (XO (XI XH))))))) :: ((Npos (XI (XO
      (XI (XO (XO (XI XH))))))) :: ((Npos (XO (XI (XO (XO (XI (XI
      XH))))))) :: []))))))))))))) :: (((Npos (XO (XI (XO (XO (XO (XI
      XH))))))) :: ((Npos (XI (XO (XO (XI (XO (XI XH))))))) :: ((Npos (XI (XI
      (XI (XO (XO (XI XH))))))) :: ((Npos (XI (XI (XI (XO (XO (XI
      XH))))))) :: ((Npos (XO (XO (XI (XI (XI (XO XH))))))) :: ((Npos (XI (XI
      (XO (XI (XI (XI XH))))))) :: [])))))) :: (((Npos (XO (XI (XO (XO (XO
      (XI XH))))))) :: ((Npos (XI (XO (XO (XI (XO (XI XH))))))) :: ((Npos (XI
      (XI (XI (XO (XO (XI XH))))))) :: ((Npos (XI (XI (XI (XO (XO (XI
      XH))))))) :: ((Npos (XO (XO (XI (XI (XI (XO XH))))))) :: ((Npos (XI (XO
      (XI (XI (XI (XI XH))))))) :: [])))))) :: (((Npos (XO (XI (XO (XO (XO
      (XI XH))))))) :: ((Npos (XI (XO (XO (XI (XO (XI XH))))))) :: ((Npos (XI
      (XI (XI (XO (XO (XI XH))))))) :: ((Npos (XI (XI (XI (XO (XO (XI
      XH))))))) :: ((Npos (XI (XO (XI (XI (XI (XO
      XH))))))) :: []))))) :: (((Npos (XO (XI (XO (XO (XO (XI
      XH))))))) :: ((Npos (XI (XO (XO (XI (XO (XI XH))))))) :: ((Npos (XI (XI
      (XI (XO (XO (XI XH))))))) :: ((Npos (XI (XI (XI (XO (XO (XI
      XH))))))) :: ((Npos (XI (XI (XO (XI (XI (XI
      XH))))))) :: []))))) :: (((Npos (XO (XI (XO (XO (XO (XI
      XH))))))) :: ((Npos (XI (XO (XO (XI (XO (XI XH))))))) :: ((Npos (XI (XI
      (XI (XO (XO (XI XH))))))) :: ((Npos (XI (XI (XI (XO (XO (XI
      XH))))))) :: ((Npos (XO (XO (XI (XI (XI (XI
      XH))))))) :: []))))) :: (((Npos (XO (XI (XO (XO (XO (XI
      XH))))))) :: ((Npos (XI (XO (XO (XI (XO (XI XH))))))) :: ((Npos (XI (XI
      (XI (XO (XO (XI XH))))))) :: ((Npos (XI (XI (XI (XO (XO (XI
      XH))))))) :: ((Npos (XI (XO (XI (XI (XI (XI
      XH))))))) :: []))))) :: (((Npos (XO (XI (XO (XO (XO (XI
      XH))))))) :: ((Npos (XI (XO (XO (XI (XO (XI XH))))))) :: ((Npos (XI (XI
      (XI (XO (XO (XI XH))))))) :: ((Npos (XI (XI (XO (XI (XI (XI
      XH))))))) :: [])))) :: (((Npos (XO (XI (XO (XO (XO (XI
      XH))))))) :: ((Npos (XI (XO (XO (XI (XO (XI XH))))))) :: ((Npos (XI (XI
      (XI (XO (XO (XI XH))))))) :: ((Npos (XO (XO (XI (XI (XI (XI
      XH))))))) :: [])))) :: (((Npos (XO (XI (XO (XO (XO (XI
      XH))))))) :: ((Npos (XI (XO (XO (XI (XO (XI XH))))))) :: ((Npos (XI (XI
      (XI (XO (XO (XI XH))))))) :: ((Npos (XI (XO (XI (XI (XI (XI
      XH))))))) :: [])))) :: (((Npos (XO (XO (XI (XI (XO (XI
      XH))))))) :: ((Npos (XI (XO (XI (XO (XO (XI XH))))))) :: ((Npos (XO (XI
      (XI (XO (XO (XI XH))))))) :: ((Npos (XO (XO (XI (XO (XI (XI
      XH))))))) :: ((Npos (XO (XO (XO (XI (XO XH)))))) :: []))))) :: (((Npos
      (XO (XO (XI (XI (XO (XI XH))))))) :: ((Npos (XI (XO (XI (XO (XO (XI
      XH))))))) :: ((Npos (XO (XI (XI (XO (XO (XI XH))))))) :: ((Npos (XO (XO
      (XI (XO (XI (XI XH))))))) :: ((Npos (XI (XO (XO (XI (XO
      XH)))))) :: []))))) :: (((Npos (XO (XO (XI (XI (XO (XI
      XH))))))) :: ((Npos (XI (XO (XI (XO (XO (XI XH))))))) :: ((Npos (XO (XI
      (XI (XO (XO (XI XH))))))) :: ((Npos (XO (XO (XI (XO (XI (XI
      XH))))))) :: ((Npos (XO (XI (XI (XI (XO XH)))))) :: []))))) :: (((Npos
      (XO (XO (XI (XI (XO (XI XH))))))) :: ((Npos (XI (XO (XI (XO (XO (XI
      XH))))))) :: ((Npos (XO (XI (XI (XO (XO (XI XH))))))) :: ((Npos (XO (XO
      (XI (XO (XI (XI XH))))))) :: ((Npos (XO (XO (XI (XI (XI
      XH)))))) :: []))))) :: (((Npos (XO (XO (XI (XI (XO (XI
      XH))))))) :: ((Npos (XI (XO (XI (XO (XO (XI XH))))))) :: ((Npos (XO (XI
      (XI (XO (XO (XI XH))))))) :: ((Npos (XO (XO (XI (XO (XI (XI
      XH))))))) :: ((Npos (XO (XI (XI (XI (XI XH)))))) :: []))))) :: (((Npos
      (XO (XO (XI (XI (XO (XI XH))))))) :: ((Npos (XI (XO (XI (XO (XO (XI
      XH))))))) :: ((Npos (XO (XI (XI (XO (XO (XI XH))))))) :: ((Npos (XO (XO
      (XI (XO (XI (XI XH))))))) :: ((Npos (XI (XI (XO (XI (XI (XO
      XH))))))) :: []))))) :: (((Npos (XO (XO (XI (XI (XO (XI
      XH))))))) :: ((Npos (XI (XO (XI (XO (XO (XI XH))))))) :: ((Npos (XO (XI
      (XI (XO (XO (XI XH))))))) :: ((Npos (XO (XO (XI (XO (XI (XI
      XH))))))) :: ((Npos (XO (XO (XI (XI (XI (XO XH))))))) :: ((Npos (XO (XO
      (XI (XI (XO (XI XH))))))) :: ((Npos (XI (XO (XO (XO (XO (XI
      XH))))))) :: ((Npos (XO (XI (XI (XI (XO (XI XH))))))) :: ((Npos (XI (XI
      (XI (XO (XO (XI XH))))))) :: ((Npos (XO (XO (XI (XI (XO (XI
      XH))))))) :: ((Npos (XI (XO (XI (XO (XO (XI
      XH))))))) :: []))))))))))) :: (((Npos (XO (XO (XI (XI (XO (XI
      XH))))))) :: ((Npos (XI (XO (XI (XO (XO (XI XH))))))) :: ((Npos (XO (XI
      (XI (XO (XO (XI XH))))))) :: ((Npos (XO (XO (XI (XO (XI (XI
      XH))))))) :: ((Npos (XO (XO (XI (XI (XI (XO XH))))))) :: ((Npos (XO (XO
      (XI (XI (XO (XI XH))))))) :: ((Npos (XO (XI (XO (XO (XO (XI
      XH))))))) :: ((Npos (XO (XI (XO (XO (XI (XI XH))))))) :: ((Npos (XI (XO
      (XO (XO (XO (XI XH))))))) :: ((Npos (XI (XI (XO (XO (XO (XI
      XH))))))) :: ((Npos (XI (XI (XO (XI (XO (XI
      XH))))))) :: []))))))))))) :: (((Npos (XO (XO (XI (XI (XO (XI
      XH))))))) :: ((Npos (XI (XO (XI (XO (XO (XI XH))))))) :: ((Npos (XO (XI
      (XI (XO (XO (XI XH))))))) :: ((Npos (XO (XO (XI (XO (XI (XI
      XH))))))) :: ((Npos (XO (XO (XI (XI (XI (XO XH))))))) :: ((Npos (XO (XO
      (XI (XI (XO (XI XH))))))) :: ((Npos (XI (XI (XO (XO (XO (XI
      XH))))))) :: ((Npos (XI (XO (XI (XO (XO (XI XH))))))) :: ((Npos (XI (XO
      (XO (XI (XO (XI XH))))))) :: ((Npos (XO (XO (XI (XI (XO (XI
      XH))))))) :: [])))))))))) :: (((Npos (XO (XO (XI (XI (XO (XI
      XH))))))) :: ((Npos (XI (XO (XI (XO (XO (XI XH))))))) :: ((Npos (XO (XI
      (XI (XO (XO (XI XH))))))) :: ((Npos (XO (XO (XI (XO (XI (XI
      XH))))))) :: ((Npos (XO (XO (XI (XI (XI (XO XH))))))) :: ((Npos (XO (XO
      (XI (XI (XO (XI XH))))))) :: ((Npos (XO (XI (XI (XO (XO (XI
      XH))))))) :: ((Npos (XO (XO (XI (XI (XO (XI XH))))))) :: ((Npos (XI (XI
      (XI (XI (XO (XI XH))))))) :: ((Npos (XI (XI (XI (XI (XO (XI
      XH))))))) :: ((Npos (XO (XI (XO (XO (XI (XI
      XH))))))) :: []))))))))))) :: (((Npos (XO (XO (XI (XI (XO (XI
      XH))))))) :: ((Npos (XI (XO (XI (XO (XO (XI XH))))))) :: ((Npos (XO (XI
      (XI (XO (XO (XI XH))))))) :: ((Npos (XO (XO (XI (XO (XI (XI
      XH))))))) :: ((Npos (XO (XO (XI (XI (XI (XO XH))))))) :: ((Npos (XO (XI
      (XO (XO (XI (XI XH))))))) :: ((Npos (XI (XO (XO (XO (XO (XI
      XH))))))) :: ((Npos (XO (XI (XI (XI (XO (XI XH))))))) :: ((Npos (XI (XI
      (XI (XO (XO (XI XH))))))) :: ((Npos (XO (XO (XI (XI (XO (XI
      XH))))))) :: ((Npos (XI (XO (XI (XO (XO (XI
      XH))))))) :: []))))))))))) :: (((Npos (XO (XO (XI (XI (XO (XI
      XH))))))) :: ((Npos (XI (XO (XI (XO (XO (XI XH))))))) :: ((Npos (XO (XI
      (XI (XO (XO (XI XH))))))) :: ((Npos (XO (XO (XI (XO (XI (XI
      XH))))))) :: ((Npos (XO (XO (XI (XI (XI (XO XH))))))) :: ((Npos (XO (XI
      (XO (XO (XI (XI XH))))))) :: ((Npos (XO (XI (XO (XO (XO (XI
      XH))))))) :: ((Npos (XO (XI (XO (XO (XI (XI XH))))))) :: ((Npos (XI (XO
      (XO (XO (XO (XI XH))))))) :: ((Npos (XI (XI (XO (XO (XO (XI
      XH))))))) :: ((Npos (XI (XI (XO (XI (XO (XI
      XH))))))) :: []))))))))))) :: (((Npos (XO (XO (XI (XI (XO (XI
      XH))))))) :: ((Npos (XI (XO (XI (XO (XO (XI XH))))))) :: ((Npos (XO (XI
      (XI (XO (XO (XI XH))))))) :: ((Npos (XO (XO (XI (XO (XI (XI
      XH))))))) :: ((Npos (XO (XO (XI (XI (XI (XO XH))))))) :: ((Npos (XO (XI
      (XO (XO (XI (XI XH))))))) :: ((Npos (XI (XI (XO (XO (XO (XI
      XH))))))) :: ((Npos (XI (XO (XI (XO (XO (XI XH))))))) :: ((Npos (XI (XO
      (XO (XI (XO (XI XH))))))) :: ((Npos (XO (XO (XI (XI (XO (XI
      XH))))))) :: [])))))))))) :: (((Npos (XO (XO (XI (XI (XO (XI
      XH))))))) :: ((Npos (XI (XO (XI (XO (XO (XI XH))))))) :: ((Npos (XO (XI
      (XI (XO (XO (XI XH))))))) :: ((Npos (XO (XO (XI (XO (XI (XI
      XH))))))) :: ((Npos (XO (XO (XI (XI (XI (XO XH))))))) :: ((Npos (XO (XI
      (XO (XO (XI (XI XH))))))) :: ((Npos (XO (XI (XI (XO (XO (XI
      XH))))))) :: ((Npos (XO (XO (XI (XI (XO (XI XH))))))) :: ((Npos (XI (XI
      (XI (XI (XO (XI XH))))))) :: ((Npos (XI (XI (XI (XI (XO (XI
      XH))))))) :: ((Npos (XO (XI (XO (XO (XI (XI
      XH))))))) :: []))))))))))) :: (((Npos (XO (XO (XI (XI (XO (XI
      XH))))))) :: ((Npos (XI (XO (XI (XO (XO (XI XH))))))) :: ((Npos (XO (XI
      (XI (XO (XO (XI XH))))))) :: ((Npos (XO (XO (XI (XO (XI (XI
      XH))))))) :: ((Npos (XO (XO (XI (XI (XI (XO XH))))))) :: ((Npos (XI (XO
      (XI (XO (XI (XI XH))))))) :: ((Npos (XO (XO (XI (XI (XO (XI
      XH))))))) :: ((Npos (XI (XI (XO (XO (XO (XI XH))))))) :: ((Npos (XI (XI
      (XI (XI (XO (XI XH))))))) :: ((Npos (XO (XI (XO (XO (XI (XI
      XH))))))) :: ((Npos (XO (XI (XI (XI (XO (XI XH))))))) :: ((Npos (XI (XO
      (XI (XO (XO (XI XH))))))) :: ((Npos (XO (XI (XO (XO (XI (XI
      XH))))))) :: []))))))))))))) :: (((Npos (XO (XO (XI (XI (XO (XI
      XH))))))) :: ((Npos (XI (XO (XI (XO (XO (XI XH))))))) :: ((Npos (XO (XI
      (XI (XO (XO (XI XH))))))) :: ((Npos (XO (XO (XI (XO (XI (XI
      XH))))))) :: ((Npos (XO (XO (XI (XI (XI (XO XH))))))) :: ((Npos (XI (XO
      (XI (XO (XI (XI XH))))))) :: ((Npos (XO (XI (XO (XO (XI (XI
      XH))))))) :: ((Npos (XI (XI (XO (XO (XO (XI XH))))))) :: ((Npos (XI (XI
      (XI (XI (XO (XI XH))))))) :: ((Npos (XO (XI (XO (XO (XI (XI
      XH))))))) :: ((Npos (XO (XI (XI (XI (XO (XI XH))))))) :: ((Npos (XI (XO
      (XI (XO (XO (XI XH))))))) :: ((Npos (XO (XI (XO (XO (XI (XI
      XH))))))) :: []))))))))))))) :: (((Npos (XO (XO (XI (XI (XO (XI
      XH))))))) :: ((Npos (XI (XO (XI (XO (XO (XI XH))))))) :: ((Npos (XO (XI
      (XI (XO (XO (XI XH))))))) :: ((Npos (XO (XO (XI (XO (XI (XI
      XH))))))) :: ((Npos (XO (XO (XI (XI (XI (XO XH))))))) :: ((Npos (XI (XI
      (XO (XI (XI (XI XH))))))) :: [])))))) :: (((Npos (XO (XO (XI (XI (XO
      (XI XH))))))) :: ((Npos (XI (XO (XI (XO (XO (XI XH))))))) :: ((Npos (XO
      (XI (XI (XO (XO (XI XH))))))) :: ((Npos (XO (XO (XI (XO (XI (XI
      XH))))))) :: ((Npos (XO (XO (XI (XI (XI (XO XH))))))) :: ((Npos (XI (XO
      (XI (XI (XI (XI XH))))))) :: [])))))) :: (((Npos (XO (XO (XI (XI (XO
      (XI XH))))))) :: ((Npos (XI (XO (XI (XO (XO (XI XH))))))) :: ((Npos (XO
      (XI (XI (XO (XO (XI XH))))))) :: ((Npos (XO (XO (XI (XO (XI (XI
      XH))))))) :: ((Npos (XI (XO (XI (XI (XI (XO
      XH))))))) :: []))))) :: (((Npos (XO (XO (XI (XI (XO (XI
      XH))))))) :: ((Npos (XI (XO (XI (XO (XO (XI XH))))))) :: ((Npos (XO (XI
      (XI (XO (XO (XI XH))))))) :: ((Npos (XO (XO (XI (XO (XI (XI
      XH))))))) :: ((Npos (XI (XI (XO (XI (XI (XI
      XH))))))) :: []))))) :: (((Npos (XO (XO (XI (XI (XO (XI
      XH))))))) :: ((Npos (XI (XO (XI (XO (XO (XI XH))))))) :: ((Npos (XO (XI
      (XI (XO (XO (XI XH))))))) :: ((Npos (XO (XO (XI (XO (XI (XI
      XH))))))) :: ((Npos (XO (XO (XI (XI (XI (XI
      XH))))))) :: []))))) :: (((Npos (XO (XO (XI (XI (XO (XI
      XH))))))) :: ((Npos (XI (XO (XI (XO (XO (XI XH))))))) :: ((Npos (XO (XI
      (XI (XO (XO (XI XH))))))) :: ((Npos (XO (XO (XI (XO (XI (XI
      XH))))))) :: ((Npos (XI (XO (XI (XI (XI (XI
      XH))))))) :: []))))) :: (((Npos (XO (XI (XO (XO (XI (XI
      XH))))))) :: ((Npos (XI (XO (XO (XI (XO (XI XH))))))) :: ((Npos (XI (XI
      (XI (XO (XO (XI XH))))))) :: ((Npos (XO (XO (XO (XI (XO (XI
      XH))))))) :: ((Npos (XO (XO (XI (XO (XI (XI XH))))))) :: ((Npos (XO (XO
      (XO (XI (XO XH)))))) :: [])))))) :: (((Npos (XO (XI (XO (XO (XI (XI
      XH))))))) :: ((Npos (XI (XO (XO (XI (XO (XI XH))))))) :: ((Npos (XI (XI
      (XI (XO (XO (XI XH))))))) :: ((Npos (XO (XO (XO (XI (XO (XI
      XH))))))) :: ((Npos (XO (XO (XI (XO (XI (XI XH))))))) :: ((Npos (XI (XO
      (XO (XI (XO XH)))))) :: [])))))) :: (((Npos (XO (XI (XO (XO (XI (XI
      XH))))))) :: ((Npos (XI (XO (XO (XI (XO (XI XH))))))) :: ((Npos (XI (XI
      (XI (XO (XO (XI XH))))))) :: ((Npos (XO (XO (XO (XI (XO (XI
      XH))))))) :: ((Npos (XO (XO (XI (XO (XI (XI XH))))))) :: ((Npos (XO (XI
      (XI (XI (XO XH)))))) :: [])))))) :: (((Npos (XO (XI (XO (XO (XI (XI
      XH))))))) :: ((Npos (XI (XO (XO (XI (XO (XI XH))))))) :: ((Npos (XI (XI
      (XI (XO (XO (XI XH))))))) :: ((Npos (XO (XO (XO (XI (XO (XI
      XH))))))) :: ((Npos (XO (XO (XI (XO (XI (XI XH))))))) :: ((Npos (XO (XO
      (XI (XI (XI XH)))))) :: [])))))) :: (((Npos (XO (XI (XO (XO (XI (XI
      XH))))))) :: ((Npos (XI (XO (XO (XI (XO (XI XH))))))) :: ((Npos (XI (XI
      (XI (XO (XO (XI XH))))))) :: ((Npos (XO (XO (XO (XI (XO (XI
      XH))))))) :: ((Npos (XO (XO (XI (XO (XI (XI XH))))))) :: ((Npos (XO (XI
      (XI (XI (XI XH)))))) :: [])))))) :: (((Npos (XO (XI (XO (XO (XI (XI
      XH))))))) :: ((Npos (XI (XO (XO (XI (XO (XI XH))))))) :: ((Npos (XI (XI
      (XI (XO (XO (XI XH))))))) :: ((Npos (XO (XO (XO (XI (XO (XI
      XH))))))) :: ((Npos (XO (XO (XI (XO (XI (XI XH))))))) :: ((Npos (XI (XI
      (XO (XI (XI (XO XH))))))) :: [])))))) :: (((Npos (XO (XI (XO (XO (XI
      (XI XH))))))) :: ((Npos (XI (XO (XO (XI (XO (XI XH))))))) :: ((Npos (XI
      (XI (XI (XO (XO (XI XH))))))) :: ((Npos (XO (XO (XO (XI (XO (XI
      XH))))))) :: ((Npos (XO (XO (XI (XO (XI (XI XH))))))) :: ((Npos (XO (XO
      (XI (XI (XI (XO XH))))))) :: ((Npos (XO (XO (XI (XI (XO (XI
      XH))))))) :: ((Npos (XI (XO (XO (XO (XO (XI XH))))))) :: ((Npos (XO (XI
      (XI (XI (XO (XI XH))))))) :: ((Npos (XI (XI (XI (XO (XO (XI
      XH))))))) :: ((Npos (XO (XO (XI (XI (XO (XI XH))))))) :: ((Npos (XI (XO
      (XI (XO (XO (XI XH))))))) :: [])))))))))))) :: (((Npos (XO (XI (XO (XO
      (XI (XI XH))))))) :: ((Npos (XI (XO (XO (XI (XO (XI XH))))))) :: ((Npos
      (XI (XI (XI (XO (XO (XI XH))))))) :: ((Npos (XO (XO (XO (XI (XO (XI
      XH))))))) :: ((Npos (XO (XO (XI (XO (XI (XI XH))))))) :: ((Npos (XO (XO
      (XI (XI (XI (XO XH))))))) :: ((Npos (XO (XO (XI (XI (XO (XI
      XH))))))) :: ((Npos (XO (XI (XO (XO (XO (XI XH))))))) :: ((Npos (XO (XI
      (XO (XO (XI (XI XH))))))) :: ((Npos (XI (XO (XO (XO (XO (XI
      XH))))))) :: ((Npos (XI (XI (XO (XO (XO (XI XH))))))) :: ((Npos (XI (XI
      (XO (XI (XO (XI XH))))))) :: [])))))))))))) :: (((Npos (XO (XI (XO (XO
      (XI (XI XH))))))) :: ((Npos (XI (XO (XO (XI (XO (XI XH))))))) :: ((Npos
      (XI (XI (XI (XO (XO (XI XH))))))) :: ((Npos (XO (XO (XO (XI (XO (XI
      XH))))))) :: ((Npos (XO (XO (XI (XO (XI (XI XH))))))) :: ((Npos (XO (XO
      (XI (XI (XI (XO XH))))))) :: ((Npos (XO (XO (XI (XI (XO (XI
      XH))))))) :: ((Npos (XI (XI (XO (XO (XO (XI XH))))))) :: ((Npos (XI (XO
      (XI (XO (XO (XI XH))))))) :: ((Npos (XI (XO (XO (XI (XO (XI
      XH))))))) :: ((Npos (XO (XO (XI (XI (XO (XI
      XH))))))) :: []))))))))))) :: (((Npos (XO (XI (XO (XO (XI (XI
      XH))))))) :: ((Npos (XI (XO (XO (XI (XO (XI XH))))))) :: ((Npos (XI (XI
      (XI (XO (XO (XI XH))))))) :: ((Npos (XO (XO (XO (XI (XO (XI
      XH))))))) :: ((Npos (XO (XO (XI (XO (XI (XI XH))))))) :: ((Npos (XO (XO
      (XI (XI (XI (XO XH))))))) :: ((Npos (XO (XO (XI (XI (XO (XI
      XH))))))) :: ((Npos (XO (XI (XI (XO (XO (XI XH))))))) :: ((Npos (XO (XO
      (XI (XI (XO (XI XH))))))) :: ((Npos (XI (XI (XI (XI (XO (XI
      XH))))))) :: ((Npos (XI (XI (XI (XI (XO (XI XH))))))) :: ((Npos (XO (XI
      (XO (XO (XI (XI XH))))))) :: [])))))))))))) :: (((Npos (XO (XI (XO (XO
      (XI (XI XH))))))) :: ((Npos (XI (XO (XO (XI (XO (XI XH))))))) :: ((Npos
      (XI (XI (XI (XO (XO (XI XH))))))) :: ((Npos (XO (XO (XO (XI (XO (XI
      XH))))))) :: ((Npos (XO (XO (XI (XO (XI (XI XH))))))) :: ((Npos (XO (XO
      (XI (XI (XI (XO XH))))))) :: ((Npos (XO (XI (XO (XO (XI (XI
      XH))))))) :: ((Npos (XI (XO (XO (XO (XO (XI XH))))))) :: ((Npos (XO (XI
      (XI (XI (XO (XI XH))))))) :: ((Npos (XI (XI (XI (XO (XO (XI
      XH))))))) :: ((Npos (XO (XO (XI (XI (XO (XI XH))))))) :: ((Npos (XI (XO
      (XI (XO (XO (XI XH))))))) :: [])))))))))))) :: (((Npos (XO (XI (XO (XO
      (XI (XI XH))))))) :: ((Npos (XI (XO (XO (XI (XO (XI XH))))))) :: ((Npos
      (XI (XI (XI (XO (XO (XI XH))))))) :: ((Npos (XO (XO (XO (XI (XO (XI
      XH))))))) :: ((Npos (XO (XO (XI (XO (XI (XI XH))))))) :: ((Npos (XO (XO
      (XI (XI (XI (XO XH))))))) :: ((Npos (XO (XI (XO (XO (XI (XI
      XH))))))) :: ((Npos (XO (XI (XO (XO (XO (XI XH))))))) :: ((Npos (XO (XI
      (XO (XO (XI (XI XH))))))) :: ((Npos (XI (XO (XO (XO (XO (XI
      XH))))))) :: ((Npos (XI (XI (XO (XO (XO (XI XH))))))) :: ((Npos (XI (XI
      (XO (XI (XO (XI XH))))))) :: [])))))))))))) :: (((Npos (XO (XI (XO (XO
      (XI (XI XH))))))) :: ((Npos (XI (XO (XO (XI (XO (XI XH))))))) :: ((Npos
      (XI (XI (XI (XO (XO (XI XH))))))) :: ((Npos (XO (XO (XO (XI (XO (XI
      XH))))))) :: ((Npos (XO (XO (XI (XO (XI (XI XH))))))) :: ((Npos (XO (XO
      (XI (XI (XI (XO XH))))))) :: ((Npos (XO (XI (XO (XO (XI (XI
      XH))))))) :: ((Npos (XI (XI (XO (XO (XO (XI XH))))))) :: ((Npos (XI (XO
      (XI (XO (XO (XI XH))))))) :: ((Npos (XI (XO (XO (XI (XO (XI
      XH))))))) :: ((Npos (XO (XO (XI (XI (XO (XI
      XH))))))) :: []))))))))))) :: (((Npos (XO (XI (XO (XO (XI (XI
      XH))))))) :: ((Npos (XI (XO (XO (XI (XO (XI XH))))))) :: ((Npos (XI (XI
      (XI (XO (XO (XI XH))))))) :: ((Npos (XO (XO (XO (XI (XO (XI
      XH))))))) :: ((Npos (XO (XO (XI (XO (XI (XI XH))))))) :: ((Npos (XO (XO
      (XI (XI (XI (XO XH))))))) :: ((Npos (XO (XI (XO (XO (XI (XI
      XH))))))) :: ((Npos (XO (XI (XI (XO (XO (XI XH))))))) :: ((Npos (XO (XO
      (XI (XI (XO (XI XH))))))) :: ((Npos (XI (XI (XI (XI (XO (XI
      XH))))))) :: ((Npos (XI (XI (XI (XI (XO (XI XH))))))) :: ((Npos (XO (XI
      (XO (XO (XI (XI XH))))))) :: [])))))))))))) :: (((Npos (XO (XI (XO (XO
      (XI (XI XH))))))) :: ((Npos (XI (XO (XO (XI (XO (XI XH))))))) :: ((Npos
      (XI (XI (XI (XO (XO (XI XH))))))) :: ((Npos (XO (XO (XO (XI (XO (XI
      XH))))))) :: ((Npos (XO (XO (XI (XO (XI (XI XH))))))) :: ((Npos (XO (XO
      (XI (XI (XI (XO XH))))))) :: ((Npos (XI (XO (XI (XO (XI (XI
      XH))))))) :: ((Npos (XO (XO (XI (XI (XO (XI XH))))))) :: ((Npos (XI (XI
      (XO (XO (XO (XI XH))))))) :: ((Npos (XI (XI (XI (XI (XO (XI
      XH))))))) :: ((Npos (XO (XI (XO (XO (XI (XI XH))))))) :: ((Npos (XO (XI
      (XI (XI (XO (XI XH))))))) :: ((Npos (XI (XO (XI (XO (XO (XI
      XH))))))) :: ((Npos (XO (XI (XO (XO (XI (XI
      XH))))))) :: [])))))))))))))) :: (((Npos (XO (XI (XO (XO (XI (XI
      XH))))))) :: ((Npos (XI (XO (XO (XI (XO (XI XH))))))) :: ((Npos (XI (XI
      (XI (XO (XO (XI XH))))))) :: ((Npos (XO (XO (XO (XI (XO (XI
      XH))))))) :: ((Npos (XO (XO (XI (XO (XI (XI XH))))))) :: ((Npos (XO (XO
      (XI (XI (XI (XO XH))))))) :: ((Npos (XI (XO (XI (XO (XI (XI
      XH))))))) :: ((Npos (XO (XI (XO (XO (XI (XI XH))))))) :: ((Npos (XI (XI
      (XO (XO (XO (XI XH))))))) :: ((Npos (XI (XI (XI (XI (XO (XI
      XH))))))) :: ((Npos (XO (XI (XO (XO (XI (XI XH))))))) :: ((Npos (XO (XI
      (XI (XI (XO (XI XH))))))) :: ((Npos (XI (XO (XI (XO (XO (XI
      XH))))))) :: ((Npos (XO (XI (XO (XO (XI (XI
      XH))))))) :: [])))))))))))))) :: (((Npos (XO (XI (XO (XO (XI (XI
      XH))))))) :: ((Npos (XI (XO (XO (XI (XO (XI XH))))))) :: ((Npos (XI (XI
      (XI (XO (XO (XI XH))))))) :: ((Npos (XO (XO (XO (XI (XO (XI
      XH))))))) :: ((Npos (XO (XO (XI (XO (XI (XI XH))))))) :: ((Npos (XO (XO
      (XI (XI (XI (XO XH))))))) :: ((Npos (XI (XI (XO (XI (XI (XI
      XH))))))) :: []))))))) :: (((Npos (XO (XI (XO (XO (XI (XI
      XH))))))) :: ((Npos (XI (XO (XO (XI (XO (XI XH))))))) :: ((Npos (XI (XI
      (XI (XO (XO (XI XH))))))) :: ((Npos (XO (XO (XO (XI (XO (XI
      XH))))))) :: ((Npos (XO (XO (XI (XO (XI (XI XH))))))) :: ((Npos (XO (XO
      (XI (XI (XI (XO XH))))))) :: ((Npos (XI (XO (XI (XI (XI (XI
      XH))))))) :: []))))))) :: (((Npos (XO (XI (XO (XO (XI (XI
      XH))))))) :: ((Npos (XI (XO (XO (XI (XO (XI XH))))))) :: ((Npos (XI (XI
      (XI (XO (XO (XI XH))))))) :: ((Npos (XO (XO (XO (XI (XO (XI
      XH))))))) :: ((Npos (XO (XO (XI (XO (XI (XI XH))))))) :: ((Npos (XI (XO
      (XI (XI (XI (XO XH))))))) :: [])))))) :: (((Npos (XO (XI (XO (XO (XI
      (XI XH))))))) :: ((Npos (XI (XO (XO (XI (XO (XI XH))))))) :: ((Npos (XI
      (XI (XI (XO (XO (XI XH))))))) :: ((Npos (XO (XO (XO (XI (XO (XI
      XH))))))) :: ((Npos (XO (XO (XI (XO (XI (XI XH))))))) :: ((Npos (XI (XI
      (XO (XI (XI (XI XH))))))) :: [])))))) :: (((Npos (XO (XI (XO (XO (XI
      (XI XH))))))) :: ((Npos (XI (XO (XO (XI (XO (XI XH))))))) :: ((Npos (XI
      (XI (XI (XO (XO (XI XH))))))) :: ((Npos (XO (XO (XO (XI (XO (XI
      XH))))))) :: ((Npos (XO (XO (XI (XO (XI (XI XH))))))) :: ((Npos (XO (XO
      (XI (XI (XI (XI XH))))))) :: [])))))) :: (((Npos (XO (XI (XO (XO (XI
      (XI XH))))))) :: ((Npos (XI (XO (XO (XI (XO (XI XH))))))) :: ((Npos (XI
      (XI (XI (XO (XO (XI XH))))))) :: ((Npos (XO (XO (XO (XI (XO (XI
      XH))))))) :: ((Npos (XO (XO (XI (XO (XI (XI XH))))))) :: ((Npos (XI (XO
      (XI (XI (XI (XI
      XH))))))) :: [])))))) :: [])))))))))))))))))))))))))))))))))))))))))))))))))))))))))))))))))))))))))))))))))))))))))))))))))))))))))))))))))))))))))))))))))))

  (** val signatures : (n list * (z * z)) list **)

  let signatures =
    (((Npos (XO (XO (XI (XO (XO (XI XH))))))) :: ((Npos (XI (XO (XI (XO (XO
      (XI XH))))))) :: ((Npos (XO (XI (XI (XO (XO (XI XH))))))) :: []))),
      ((Zpos (XO XH)), Z0)) :: ((((Npos (XO (XO (XI (XO (XI (XI
      XH))))))) :: ((Npos (XI (XO (XI (XO (XO (XI XH))))))) :: ((Npos (XO (XO
      (XO (XI (XI (XI XH))))))) :: ((Npos (XO (XO (XI (XO (XI (XI
      XH))))))) :: ((Npos (XO (XI (XO (XO (XO (XI XH))))))) :: ((Npos (XO (XI
      (XI (XO (XO (XI XH))))))) :: [])))))), ((Zpos XH), Z0)) :: ((((Npos (XI
      (XI (XO (XO (XI (XI XH))))))) :: ((Npos (XI (XO (XI (XO (XO (XI
      XH))))))) :: ((Npos (XI (XI (XO (XO (XO (XI XH))))))) :: ((Npos (XO (XO
      (XI (XO (XI (XI XH))))))) :: ((Npos (XI (XO (XO (XI (XO (XI
      XH))))))) :: ((Npos (XI (XI (XI (XI (XO (XI XH))))))) :: ((Npos (XO (XI
      (XI (XI (XO (XI XH))))))) :: []))))))), ((Zpos XH), (Zpos
      XH))) :: ((((Npos (XO (XO (XI (XI (XO (XI XH))))))) :: ((Npos (XI (XO
      (XO (XO (XO (XI XH))))))) :: ((Npos (XO (XI (XO (XO (XO (XI
      XH))))))) :: ((Npos (XI (XO (XI (XO (XO (XI XH))))))) :: ((Npos (XO (XO
      (XI (XI (XO (XI XH))))))) :: []))))), ((Zpos XH), Z0)) :: ((((Npos (XI
      (XI (XO (XO (XO (XI XH))))))) :: ((Npos (XI (XO (XO (XO (XO (XI
      XH))))))) :: ((Npos (XO (XO (XO (XO (XI (XI XH))))))) :: []))), (Z0,
      Z0)) :: ((((Npos (XI (XI (XO (XO (XO (XI XH))))))) :: ((Npos (XI (XO
      (XI (XO (XI (XI XH))))))) :: ((Npos (XO (XO (XO (XO (XI (XI
      XH))))))) :: []))), (Z0, Z0)) :: ((((Npos (XI (XO (XO (XI (XO (XI
      XH))))))) :: ((Npos (XO (XI (XI (XI (XO (XI XH))))))) :: [])), (Z0,
      Z0)) :: ((((Npos (XO (XI (XI (XI (XO (XI XH))))))) :: ((Npos (XI (XI
      (XI (XI (XO (XI XH))))))) :: ((Npos (XO (XO (XI (XO (XI (XI
      XH))))))) :: ((Npos (XI (XO (XO (XI (XO (XI XH))))))) :: ((Npos (XO (XI
      (XI (XI (XO (XI XH))))))) :: []))))), (Z0, Z0)) :: ((((Npos (XI (XO (XO
      (XI (XO (XI XH))))))) :: ((Npos (XO (XI (XI (XI (XO (XI
      XH))))))) :: ((Npos (XO (XI (XI (XO (XO (XI XH))))))) :: ((Npos (XO (XO
      (XI (XO (XI (XI XH))))))) :: ((Npos (XI (XO (XO (XI (XI (XI
      XH))))))) :: []))))), (Z0, Z0)) :: ((((Npos (XO (XI (XI (XI (XO (XI
      XH))))))) :: ((Npos (XI (XI (XI (XI (XO (XI XH))))))) :: ((Npos (XI (XO
      (XO (XI (XO (XI XH))))))) :: ((Npos (XO (XI (XI (XI (XO (XI
      XH))))))) :: ((Npos (XO (XO (XI (XO (XO (XI XH))))))) :: ((Npos (XI (XO
      (XI (XO (XO (XI XH))))))) :: ((Npos (XO (XI (XI (XI (XO (XI
      XH))))))) :: ((Npos (XO (XO (XI (XO (XI (XI XH))))))) :: [])))))))),
      (Z0, Z0)) :: [])))))))))

  (** val math_classes :
      (mathkind * ((tc * tc) * ((n list * n list) * n list))) list **)

  let math_classes =
    (MDisplay, ((TDisplayMathSwitch, TDisplayMathSwitch), ((((Npos (XO (XO
      (XI (XO (XO XH)))))) :: ((Npos (XO (XO (XI (XO (XO XH)))))) :: [])),
      ((Npos (XO (XO (XI (XO (XO XH)))))) :: ((Npos (XO (XO (XI (XO (XO
      XH)))))) :: []))), ((Npos (XO (XO (XI (XO (XO XH)))))) :: ((Npos (XO
      (XO (XI (XO (XO XH)))))) :: []))))) :: ((MInline, ((TMathSwitch,
      TMathSwitch), ((((Npos (XO (XO (XI (XO (XO XH)))))) :: []), ((Npos (XO
      (XO (XI (XO (XO XH)))))) :: [])), ((Npos (XO (XO (XI (XO (XO
      XH)))))) :: [])))) :: ((MBracket, ((TDisplayMathGroupBegin,
      TDisplayMathGroupEnd), ((((Npos (XO (XO (XI (XI (XI (XO
      XH))))))) :: ((Npos (XI (XI (XO (XI (XI (XO XH))))))) :: [])), ((Npos
      (XO (XO (XI (XI (XI (XO XH))))))) :: ((Npos (XI (XO (XI (XI (XI (XO
      XH))))))) :: []))), ((Npos (XO (XO (XI (XO (XO (XI XH))))))) :: ((Npos
      (XI (XO (XO (XI (XO (XI XH))))))) :: ((Npos (XI (XI (XO (XO (XI (XI
      XH))))))) :: ((Npos (XO (XO (XO (XO (XI (XI XH))))))) :: ((Npos (XO (XO
      (XI (XI (XO (XI XH))))))) :: ((Npos (XI (XO (XO (XO (XO (XI
      XH))))))) :: ((Npos (XI (XO (XO (XI (XI (XI XH))))))) :: ((Npos (XI (XO
      (XI (XI (XO (XI XH))))))) :: ((Npos (XI (XO (XO (XO (XO (XI
      XH))))))) :: ((Npos (XO (XO (XI (XO (XI (XI XH))))))) :: ((Npos (XO (XO
      (XO (XI (XO (XI XH))))))) :: [])))))))))))))) :: ((MParen,
      ((TMathGroupBegin, TMathGroupEnd), ((((Npos (XO (XO (XI (XI (XI (XO
      XH))))))) :: ((Npos (XO (XO (XO (XI (XO XH)))))) :: [])), ((Npos (XO
      (XO (XI (XI (XI (XO XH))))))) :: ((Npos (XI (XO (XO (XI (XO
      XH)))))) :: []))), ((Npos (XI (XO (XI (XI (XO (XI XH))))))) :: ((Npos
      (XI (XO (XO (XO (XO (XI XH))))))) :: ((Npos (XO (XO (XI (XO (XI (XI
      XH))))))) :: ((Npos (XO (XO (XO (XI (XO (XI
      XH))))))) :: []))))))) :: [])))

  (** val group_classes :
      (groupkind * ((tc * tc) * ((n list * n list) * n list))) list **)

  let group_classes =
    (GBracket, ((TBracketBegin, TBracketEnd), ((((Npos (XI (XI (XO (XI (XI
      (XO XH))))))) :: []), ((Npos (XI (XO (XI (XI (XI (XO XH))))))) :: [])),
      ((Npos (XO (XI (XO (XO (XO (XO XH))))))) :: ((Npos (XO (XI (XO (XO (XI
      (XI XH))))))) :: ((Npos (XI (XO (XO (XO (XO (XI XH))))))) :: ((Npos (XI
      (XI (XO (XO (XO (XI XH))))))) :: ((Npos (XI (XI (XO (XI (XO (XI
      XH))))))) :: ((Npos (XI (XO (XI (XO (XO (XI XH))))))) :: ((Npos (XO (XO
      (XI (XO (XI (XI XH))))))) :: ((Npos (XI (XI (XI (XO (XO (XO
      XH))))))) :: ((Npos (XO (XI (XO (XO (XI (XI XH))))))) :: ((Npos (XI (XI
      (XI (XI (XO (XI XH))))))) :: ((Npos (XI (XO (XI (XO (XI (XI
      XH))))))) :: ((Npos (XO (XO (XO (XO (XI (XI
      XH))))))) :: []))))))))))))))) :: ((GBrace, ((TGroupBegin, TGroupEnd),
      ((((Npos (XI (XI (XO (XI (XI (XI XH))))))) :: []), ((Npos (XI (XO (XI
      (XI (XI (XI XH))))))) :: [])), ((Npos (XO (XI (XO (XO (XO (XO
      XH))))))) :: ((Npos (XO (XI (XO (XO (XI (XI XH))))))) :: ((Npos (XI (XO
      (XO (XO (XO (XI XH))))))) :: ((Npos (XI (XI (XO (XO (XO (XI
      XH))))))) :: ((Npos (XI (XO (XI (XO (XO (XI XH))))))) :: ((Npos (XI (XI
      (XI (XO (XO (XO XH))))))) :: ((Npos (XO (XI (XO (XO (XI (XI
      XH))))))) :: ((Npos (XI (XI (XI (XI (XO (XI XH))))))) :: ((Npos (XI (XO
      (XI (XO (XI (XI XH))))))) :: ((Npos (XO (XO (XO (XO (XI (XI
      XH))))))) :: []))))))))))))) :: [])

  (** val py_whitespace : n list **)

  let py_whitespace =
    (Npos (XI (XO (XO XH)))) :: ((Npos (XO (XI (XO XH)))) :: ((Npos (XI (XI
      (XO XH)))) :: ((Npos (XO (XO (XI XH)))) :: ((Npos (XI (XO (XI
      XH)))) :: ((Npos (XO (XO (XI (XI XH))))) :: ((Npos (XI (XO (XI (XI
      XH))))) :: ((Npos (XO (XI (XI (XI XH))))) :: ((Npos (XI (XI (XI (XI
      XH))))) :: ((Npos (XO (XO (XO (XO (XO XH)))))) :: ((Npos (XI (XO (XI
      (XO (XO (XO (XO XH)))))))) :: ((Npos (XO (XO (XO (XO (XO (XI (XO
      XH)))))))) :: ((Npos (XO (XO (XO (XO (XO (XO (XO (XI (XO (XI (XI (XO
      XH))))))))))))) :: ((Npos (XO (XO (XO (XO (XO (XO (XO (XO (XO (XO (XO
      (XO (XO XH)))))))))))))) :: ((Npos (XI (XO (XO (XO (XO (XO (XO (XO (XO
      (XO (XO (XO (XO XH)))))))))))))) :: ((Npos (XO (XI (XO (XO (XO (XO (XO
      (XO (XO (XO (XO (XO (XO XH)))))))))))))) :: ((Npos (XI (XI (XO (XO (XO
      (XO (XO (XO (XO (XO (XO (XO (XO XH)))))))))))))) :: ((Npos (XO (XO (XI
      (XO (XO (XO (XO (XO (XO (XO (XO (XO (XO XH)))))))))))))) :: ((Npos (XI
      (XO (XI (XO (XO (XO (XO (XO (XO (XO (XO (XO (XO
      XH)))))))))))))) :: ((Npos (XO (XI (XI (XO (XO (XO (XO (XO (XO (XO (XO
      (XO (XO XH)))))))))))))) :: ((Npos (XI (XI (XI (XO (XO (XO (XO (XO (XO
      (XO (XO (XO (XO XH)))))))))))))) :: ((Npos (XO (XO (XO (XI (XO (XO (XO
      (XO (XO (XO (XO (XO (XO XH)))))))))))))) :: ((Npos (XI (XO (XO (XI (XO
      (XO (XO (XO (XO (XO (XO (XO (XO XH)))))))))))))) :: ((Npos (XO (XI (XO
      (XI (XO (XO (XO (XO (XO (XO (XO (XO (XO XH)))))))))))))) :: ((Npos (XO
      (XO (XO (XI (XO (XI (XO (XO (XO (XO (XO (XO (XO
      XH)))))))))))))) :: ((Npos (XI (XO (XO (XI (XO (XI (XO (XO (XO (XO (XO
      (XO (XO XH)))))))))))))) :: ((Npos (XI (XI (XI (XI (XO (XI (XO (XO (XO
      (XO (XO (XO (XO XH)))))))))))))) :: ((Npos (XI (XI (XI (XI (XI (XO (XI
      (XO (XO (XO (XO (XO (XO XH)))))))))))))) :: ((Npos (XO (XO (XO (XO (XO
      (XO (XO (XO (XO (XO (XO (XO (XI
      XH)))))))))))))) :: []))))))))))))))))))))))))))))

  (** val dir_texnode : n list list **)

  let dir_texnode =
    ((Npos (XI (XI (XI (XI (XI (XO XH))))))) :: ((Npos (XO (XO (XI (XO (XI
      (XO XH))))))) :: ((Npos (XI (XO (XI (XO (XO (XI XH))))))) :: ((Npos (XO
      (XO (XO (XI (XI (XI XH))))))) :: ((Npos (XO (XI (XI (XI (XO (XO
      XH))))))) :: ((Npos (XI (XI (XI (XI (XO (XI XH))))))) :: ((Npos (XO (XO
      (XI (XO (XO (XI XH))))))) :: ((Npos (XI (XO (XI (XO (XO (XI
      XH))))))) :: ((Npos (XI (XI (XI (XI (XI (XO XH))))))) :: ((Npos (XI (XI
      (XI (XI (XI (XO XH))))))) :: ((Npos (XO (XO (XI (XO (XO (XI
      XH))))))) :: ((Npos (XI (XO (XI (XO (XO (XI XH))))))) :: ((Npos (XI (XI
      (XO (XO (XI (XI XH))))))) :: ((Npos (XI (XI (XO (XO (XO (XI
      XH))))))) :: ((Npos (XI (XO (XI (XO (XO (XI XH))))))) :: ((Npos (XO (XI
      (XI (XI (XO (XI XH))))))) :: ((Npos (XO (XO (XI (XO (XO (XI
      XH))))))) :: ((Npos (XI (XO (XO (XO (XO (XI XH))))))) :: ((Npos (XO (XI
      (XI (XI (XO (XI XH))))))) :: ((Npos (XO (XO (XI (XO (XI (XI
      XH))))))) :: ((Npos (XI (XI (XO (XO (XI (XI
      XH))))))) :: []))))))))))))))))))))) :: (((Npos (XI (XI (XI (XI (XI (XO
      XH))))))) :: ((Npos (XI (XI (XI (XI (XI (XO XH))))))) :: ((Npos (XI (XI
      (XO (XO (XO (XI XH))))))) :: ((Npos (XO (XO (XI (XI (XO (XI
      XH))))))) :: ((Npos (XI (XO (XO (XO (XO (XI XH))))))) :: ((Npos (XI (XI
      (XO (XO (XI (XI XH))))))) :: ((Npos (XI (XI (XO (XO (XI (XI
      XH))))))) :: ((Npos (XI (XI (XI (XI (XI (XO XH))))))) :: ((Npos (XI (XI
      (XI (XI (XI (XO XH))))))) :: []))))))))) :: (((Npos (XI (XI (XI (XI (XI
      (XO XH))))))) :: ((Npos (XI (XI (XI (XI (XI (XO XH))))))) :: ((Npos (XI
      (XI (XO (XO (XO (XI XH))))))) :: ((Npos (XI (XI (XI (XI (XO (XI
      XH))))))) :: ((Npos (XO (XI (XI (XI (XO (XI XH))))))) :: ((Npos (XO (XO
      (XI (XO (XI (XI XH))))))) :: ((Npos (XI (XO (XO (XO (XO (XI
      XH))))))) :: ((Npos (XI (XO (XO (XI (XO (XI XH))))))) :: ((Npos (XO (XI
      (XI (XI (XO (XI XH))))))) :: ((Npos (XI (XI (XO (XO (XI (XI
      XH))))))) :: ((Npos (XI (XI (XI (XI (XI (XO XH))))))) :: ((Npos (XI (XI
      (XI (XI (XI (XO XH))))))) :: [])))))))))))) :: (((Npos (XI (XI (XI (XI
      (XI (XO XH))))))) :: ((Npos (XI (XI (XI (XI (XI (XO XH))))))) :: ((Npos
      (XO (XO (XI (XO (XO (XI XH))))))) :: ((Npos (XI (XO (XI (XO (XO (XI
      XH))))))) :: ((Npos (XO (XO (XI (XI (XO (XI XH))))))) :: ((Npos (XI (XO
      (XO (XO (XO (XI XH))))))) :: ((Npos (XO (XO (XI (XO (XI (XI
      XH))))))) :: ((Npos (XO (XO (XI (XO (XI (XI XH))))))) :: ((Npos (XO (XI
      (XO (XO (XI (XI XH))))))) :: ((Npos (XI (XI (XI (XI (XI (XO
      XH))))))) :: ((Npos (XI (XI (XI (XI (XI (XO
      XH))))))) :: []))))))))))) :: (((Npos (XI (XI (XI (XI (XI (XO
      XH))))))) :: ((Npos (XI (XI (XI (XI (XI (XO XH))))))) :: ((Npos (XO (XO
      (XI (XO (XO (XI XH))))))) :: ((Npos (XI (XO (XO (XI (XO (XI
      XH))))))) :: ((Npos (XI (XI (XO (XO (XO (XI XH))))))) :: ((Npos (XO (XO
      (XI (XO (XI (XI XH))))))) :: ((Npos (XI (XI (XI (XI (XI (XO
      XH))))))) :: ((Npos (XI (XI (XI (XI (XI (XO
      XH))))))) :: [])))))))) :: (((Npos (XI (XI (XI (XI (XI (XO
      XH))))))) :: ((Npos (XI (XI (XI (XI (XI (XO XH))))))) :: ((Npos (XO (XO
      (XI (XO (XO (XI XH))))))) :: ((Npos (XI (XO (XO (XI (XO (XI
      XH))))))) :: ((Npos (XO (XI (XO (XO (XI (XI XH))))))) :: ((Npos (XI (XI
      (XI (XI (XI (XO XH))))))) :: ((Npos (XI (XI (XI (XI (XI (XO
      XH))))))) :: []))))))) :: (((Npos (XI (XI (XI (XI (XI (XO
      XH))))))) :: ((Npos (XI (XI (XI (XI (XI (XO XH))))))) :: ((Npos (XO (XO
      (XI (XO (XO (XI XH))))))) :: ((Npos (XI (XI (XI (XI (XO (XI
      XH))))))) :: ((Npos (XI (XI (XO (XO (XO (XI XH))))))) :: ((Npos (XI (XI
      (XI (XI (XI (XO XH))))))) :: ((Npos (XI (XI (XI (XI (XI (XO
      XH))))))) :: []))))))) :: (((Npos (XI (XI (XI (XI (XI (XO
      XH))))))) :: ((Npos (XI (XI (XI (XI (XI (XO XH))))))) :: ((Npos (XI (XO
      (XI (XO (XO (XI XH))))))) :: ((Npos (XI (XO (XO (XO (XI (XI
      XH))))))) :: ((Npos (XI (XI (XI (XI (XI (XO XH))))))) :: ((Npos (XI (XI
      (XI (XI (XI (XO XH))))))) :: [])))))) :: (((Npos (XI (XI (XI (XI (XI
      (XO XH))))))) :: ((Npos (XI (XI (XI (XI (XI (XO XH))))))) :: ((Npos (XO
      (XI (XI (XO (XO (XI XH))))))) :: ((Npos (XI (XI (XI (XI (XO (XI
      XH))))))) :: ((Npos (XO (XI (XO (XO (XI (XI XH))))))) :: ((Npos (XI (XO
      (XI (XI (XO (XI XH))))))) :: ((Npos (XI (XO (XO (XO (XO (XI
      XH))))))) :: ((Npos (XO (XO (XI (XO (XI (XI XH))))))) :: ((Npos (XI (XI
      (XI (XI (XI (XO XH))))))) :: ((Npos (XI (XI (XI (XI (XI (XO
      XH))))))) :: [])))))))))) :: (((Npos (XI (XI (XI (XI (XI (XO
      XH))))))) :: ((Npos (XI (XI (XI (XI (XI (XO XH))))))) :: ((Npos (XI (XI
      (XI (XO (XO (XI XH))))))) :: ((Npos (XI (XO (XI (XO (XO (XI
      XH))))))) :: ((Npos (XI (XI (XI (XI (XI (XO XH))))))) :: ((Npos (XI (XI
      (XI (XI (XI (XO XH))))))) :: [])))))) :: (((Npos (XI (XI (XI (XI (XI
      (XO XH))))))) :: ((Npos (XI (XI (XI (XI (XI (XO XH))))))) :: ((Npos (XI
      (XI (XI (XO (XO (XI XH))))))) :: ((Npos (XI (XO (XI (XO (XO (XI
      XH))))))) :: ((Npos (XO (XO (XI (XO (XI (XI XH))))))) :: ((Npos (XI (XO
      (XO (XO (XO (XI XH))))))) :: ((Npos (XO (XO (XI (XO (XI (XI
      XH))))))) :: ((Npos (XO (XO (XI (XO (XI (XI XH))))))) :: ((Npos (XO (XI
      (XO (XO (XI (XI XH))))))) :: ((Npos (XI (XI (XI (XI (XI (XO
      XH))))))) :: ((Npos (XI (XI (XI (XI (XI (XO
      XH))))))) :: []))))))))))) :: (((Npos (XI (XI (XI (XI (XI (XO
      XH))))))) :: ((Npos (XI (XI (XI (XI (XI (XO XH))))))) :: ((Npos (XI (XI
      (XI (XO (XO (XI XH))))))) :: ((Npos (XI (XO (XI (XO (XO (XI
      XH))))))) :: ((Npos (XO (XO (XI (XO (XI (XI XH))))))) :: ((Npos (XI (XO
      (XO (XO (XO (XI XH))))))) :: ((Npos (XO (XO (XI (XO (XI (XI
      XH))))))) :: ((Npos (XO (XO (XI (XO (XI (XI XH))))))) :: ((Npos (XO (XI
      (XO (XO (XI (XI XH))))))) :: ((Npos (XI (XO (XO (XI (XO (XI
      XH))))))) :: ((Npos (XO (XI (XO (XO (XO (XI XH))))))) :: ((Npos (XI (XO
      (XI (XO (XI (XI XH))))))) :: ((Npos (XO (XO (XI (XO (XI (XI
      XH))))))) :: ((Npos (XI (XO (XI (XO (XO (XI XH))))))) :: ((Npos (XI (XI
      (XI (XI (XI (XO XH))))))) :: ((Npos (XI (XI (XI (XI (XI (XO
      XH))))))) :: [])))))))))))))))) :: (((Npos (XI (XI (XI (XI (XI (XO
      XH))))))) :: ((Npos (XI (XI (XI (XI (XI (XO XH))))))) :: ((Npos (XI (XI
      (XI (XO (XO (XI XH))))))) :: ((Npos (XI (XO (XI (XO (XO (XI
      XH))))))) :: ((Npos (XO (XO (XI (XO (XI (XI XH))))))) :: ((Npos (XI (XO
      (XO (XI (XO (XI XH))))))) :: ((Npos (XO (XO (XI (XO (XI (XI
      XH))))))) :: ((Npos (XI (XO (XI (XO (XO (XI XH))))))) :: ((Npos (XI (XO
      (XI (XI (XO (XI XH))))))) :: ((Npos (XI (XI (XI (XI (XI (XO
      XH))))))) :: ((Npos (XI (XI (XI (XI (XI (XO
      XH))))))) :: []))))))))))) :: (((Npos (XI (XI (XI (XI (XI (XO
      XH))))))) :: ((Npos (XI (XI (XI (XI (XI (XO XH))))))) :: ((Npos (XI (XI
      (XI (XO (XO (XI XH))))))) :: ((Npos (XI (XO (XI (XO (XO (XI
      XH))))))) :: ((Npos (XO (XO (XI (XO (XI (XI XH))))))) :: ((Npos (XI (XI
      (XO (XO (XI (XI XH))))))) :: ((Npos (XO (XO (XI (XO (XI (XI
      XH))))))) :: ((Npos (XI (XO (XO (XO (XO (XI XH))))))) :: ((Npos (XO (XO
      (XI (XO (XI (XI XH))))))) :: ((Npos (XI (XO (XI (XO (XO (XI
      XH))))))) :: ((Npos (XI (XI (XI (XI (XI (XO XH))))))) :: ((Npos (XI (XI
      (XI (XI (XI (XO XH))))))) :: [])))))))))))) :: (((Npos (XI (XI (XI (XI
      (XI (XO XH))))))) :: ((Npos (XI (XI (XI (XI (XI (XO XH))))))) :: ((Npos
      (XI (XI (XI (XO (XO (XI XH))))))) :: ((Npos (XO (XO (XI (XO (XI (XI
      XH))))))) :: ((Npos (XI (XI (XI (XI (XI (XO XH))))))) :: ((Npos (XI (XI
      (XI (XI (XI (XO XH))))))) :: [])))))) :: (((Npos (XI (XI (XI (XI (XI
      (XO XH))))))) :: ((Npos (XI (XI (XI (XI (XI (XO XH))))))) :: ((Npos (XO
      (XO (XO (XI (XO (XI XH))))))) :: ((Npos (XI (XO (XO (XO (XO (XI
      XH))))))) :: ((Npos (XI (XI (XO (XO (XI (XI XH))))))) :: ((Npos (XO (XO
      (XO (XI (XO (XI XH))))))) :: ((Npos (XI (XI (XI (XI (XI (XO
      XH))))))) :: ((Npos (XI (XI (XI (XI (XI (XO
      XH))))))) :: [])))))))) :: (((Npos (XI (XI (XI (XI (XI (XO
      XH))))))) :: ((Npos (XI (XI (XI (XI (XI (XO XH))))))) :: ((Npos (XI (XO
      (XO (XI (XO (XI XH))))))) :: ((Npos (XO (XI (XI (XI (XO (XI
      XH))))))) :: ((Npos (XI (XO (XO (XI (XO (XI XH))))))) :: ((Npos (XO (XO
      (XI (XO (XI (XI XH))))))) :: ((Npos (XI (XI (XI (XI (XI (XO
      XH))))))) :: ((Npos (XI (XI (XI (XI (XI (XO
      XH))))))) :: [])))))))) :: (((Npos (XI (XI (XI (XI (XI (XO
      XH))))))) :: ((Npos (XI (XI (XI (XI (XI (XO XH))))))) :: ((Npos (XI (XO
      (XO (XI (XO (XI XH))))))) :: ((Npos (XO (XI (XI (XI (XO (XI
      XH))))))) :: ((Npos (XI (XO (XO (XI (XO (XI XH))))))) :: ((Npos (XO (XO
      (XI (XO (XI (XI XH))))))) :: ((Npos (XI (XI (XI (XI (XI (XO
      XH))))))) :: ((Npos (XI (XI (XO (XO (XI (XI XH))))))) :: ((Npos (XI (XO
      (XI (XO (XI (XI XH))))))) :: ((Npos (XO (XI (XO (XO (XO (XI
      XH))))))) :: ((Npos (XI (XI (XO (XO (XO (XI XH))))))) :: ((Npos (XO (XO
      (XI (XI (XO (XI XH))))))) :: ((Npos (XI (XO (XO (XO (XO (XI
      XH))))))) :: ((Npos (XI (XI (XO (XO (XI (XI XH))))))) :: ((Npos (XI (XI
      (XO (XO (XI (XI XH))))))) :: ((Npos (XI (XI (XI (XI (XI (XO
      XH))))))) :: ((Npos (XI (XI (XI (XI (XI (XO
      XH))))))) :: []))))))))))))))))) :: (((Npos (XI (XI (XI (XI (XI (XO
      XH))))))) :: ((Npos (XI (XI (XI (XI (XI (XO XH))))))) :: ((Npos (XI (XO
      (XO (XI (XO (XI XH))))))) :: ((Npos (XO (XO (XI (XO (XI (XI
      XH))))))) :: ((Npos (XI (XO (XI (XO (XO (XI XH))))))) :: ((Npos (XO (XI
      (XO (XO (XI (XI XH))))))) :: ((Npos (XI (XI (XI (XI (XI (XO
      XH))))))) :: ((Npos (XI (XI (XI (XI (XI (XO
      XH))))))) :: [])))))))) :: (((Npos (XI (XI (XI (XI (XI (XO
      XH))))))) :: ((Npos (XI (XI (XI (XI (XI (XO XH))))))) :: ((Npos (XO (XO
      (XI (XI (XO (XI XH))))))) :: ((Npos (XI (XO (XI (XO (XO (XI
      XH))))))) :: ((Npos (XI (XI (XI (XI (XI (XO XH))))))) :: ((Npos (XI (XI
      (XI (XI (XI (XO XH))))))) :: [])))))) :: (((Npos (XI (XI (XI (XI (XI
      (XO XH))))))) :: ((Npos (XI (XI (XI (XI (XI (XO XH))))))) :: ((Npos (XO
      (XO (XI (XI (XO (XI XH))))))) :: ((Npos (XO (XO (XI (XO (XI (XI
      XH))))))) :: ((Npos (XI (XI (XI (XI (XI (XO XH))))))) :: ((Npos (XI (XI
      (XI (XI (XI (XO XH))))))) :: [])))))) :: (((Npos (XI (XI (XI (XI (XI
      (XO XH))))))) :: ((Npos (XI (XI (XI (XI (XI (XO XH))))))) :: ((Npos (XI
      (XO (XI (XI (XO (XI XH))))))) :: ((Npos (XI (XO (XO (XO (XO (XI
      XH))))))) :: ((Npos (XO (XO (XI (XO (XI (XI XH))))))) :: ((Npos (XI (XI
      (XO (XO (XO (XI XH))))))) :: ((Npos (XO (XO (XO (XI (XO (XI
      XH))))))) :: ((Npos (XI (XI (XI (XI (XI (XO XH))))))) :: ((Npos (XI (XI
      (XI (XI (XI (XO XH))))))) :: []))))))))) :: (((Npos (XI (XI (XI (XI (XI
      (XO XH))))))) :: ((Npos (XI (XI (XI (XI (XI (XO XH))))))) :: ((Npos (XI
      (XO (XI (XI (XO (XI XH))))))) :: ((Npos (XI (XI (XI (XI (XO (XI
      XH))))))) :: ((Npos (XO (XO (XI (XO (XO (XI XH))))))) :: ((Npos (XI (XO
      (XI (XO (XI (XI XH))))))) :: ((Npos (XO (XO (XI (XI (XO (XI
      XH))))))) :: ((Npos (XI (XO (XI (XO (XO (XI XH))))))) :: ((Npos (XI (XI
      (XI (XI (XI (XO XH))))))) :: ((Npos (XI (XI (XI (XI (XI (XO
      XH))))))) :: [])))))))))) :: (((Npos (XI (XI (XI (XI (XI (XO
      XH))))))) :: ((Npos (XI (XI (XI (XI (XI (XO XH))))))) :: ((Npos (XO (XI
      (XI (XI (XO (XI XH))))))) :: ((Npos (XI (XO (XI (XO (XO (XI
      XH))))))) :: ((Npos (XI (XI (XI (XI (XI (XO XH))))))) :: ((Npos (XI (XI
      (XI (XI (XI (XO XH))))))) :: [])))))) :: (((Npos (XI (XI (XI (XI (XI
      (XO XH))))))) :: ((Npos (XI (XI (XI (XI (XI (XO XH))))))) :: ((Npos (XO
      (XI (XI (XI (XO (XI XH))))))) :: ((Npos (XI (XO (XI (XO (XO (XI
      XH))))))) :: ((Npos (XI (XI (XI (XO (XI (XI XH))))))) :: ((Npos (XI (XI
      (XI (XI (XI (XO XH))))))) :: ((Npos (XI (XI (XI (XI (XI (XO
      XH))))))) :: []))))))) :: (((Npos (XI (XI (XI (XI (XI (XO
      XH))))))) :: ((Npos (XI (XI (XI (XI (XI (XO XH))))))) :: ((Npos (XO (XI
      (XO (XO (XI (XI XH))))))) :: ((Npos (XI (XO (XI (XO (XO (XI
      XH))))))) :: ((Npos (XO (XO (XI (XO (XO (XI XH))))))) :: ((Npos (XI (XO
      (XI (XO (XI (XI XH))))))) :: ((Npos (XI (XI (XO (XO (XO (XI
      XH))))))) :: ((Npos (XI (XO (XI (XO (XO (XI XH))))))) :: ((Npos (XI (XI
      (XI (XI (XI (XO XH))))))) :: ((Npos (XI (XI (XI (XI (XI (XO
      XH))))))) :: [])))))))))) :: (((Npos (XI (XI (XI (XI (XI (XO
      XH))))))) :: ((Npos (XI (XI (XI (XI (XI (XO XH))))))) :: ((Npos (XO (XI
      (XO (XO (XI (XI XH))))))) :: ((Npos (XI (XO (XI (XO (XO (XI
      XH))))))) :: ((Npos (XO (XO (XI (XO (XO (XI XH))))))) :: ((Npos (XI (XO
      (XI (XO (XI (XI XH))))))) :: ((Npos (XI (XI (XO (XO (XO (XI
      XH))))))) :: ((Npos (XI (XO (XI (XO (XO (XI XH))))))) :: ((Npos (XI (XI
      (XI (XI (XI (XO XH))))))) :: ((Npos (XI (XO (XI (XO (XO (XI
      XH))))))) :: ((Npos (XO (XO (XO (XI (XI (XI XH))))))) :: ((Npos (XI (XI
      (XI (XI (XI (XO XH))))))) :: ((Npos (XI (XI (XI (XI (XI (XO
      XH))))))) :: []))))))))))))) :: (((Npos (XI (XI (XI (XI (XI (XO
      XH))))))) :: ((Npos (XI (XI (XI (XI (XI (XO XH))))))) :: ((Npos (XO (XI
      (XO (XO (XI (XI XH))))))) :: ((Npos (XI (XO (XI (XO (XO (XI
      XH))))))) :: ((Npos (XO (XO (XO (XO (XI (XI XH))))))) :: ((Npos (XO (XI
      (XO (XO (XI (XI XH))))))) :: ((Npos (XI (XI (XI (XI (XI (XO
      XH))))))) :: ((Npos (XI (XI (XI (XI (XI (XO
      XH))))))) :: [])))))))) :: (((Npos (XI (XI (XI (XI (XI (XO
      XH))))))) :: ((Npos (XI (XI (XI (XI (XI (XO XH))))))) :: ((Npos (XI (XI
      (XO (XO (XI (XI XH))))))) :: ((Npos (XI (XO (XI (XO (XO (XI
      XH))))))) :: ((Npos (XO (XO (XI (XO (XI (XI XH))))))) :: ((Npos (XI (XO
      (XO (XO (XO (XI XH))))))) :: ((Npos (XO (XO (XI (XO (XI (XI
      XH))))))) :: ((Npos (XO (XO (XI (XO (XI (XI XH))))))) :: ((Npos (XO (XI
      (XO (XO (XI (XI XH))))))) :: ((Npos (XI (XI (XI (XI (XI (XO
      XH))))))) :: ((Npos (XI (XI (XI (XI (XI (XO
      XH))))))) :: []))))))))))) :: (((Npos (XI (XI (XI (XI (XI (XO
      XH))))))) :: ((Npos (XI (XI (XI (XI (XI (XO XH))))))) :: ((Npos (XI (XI
      (XO (XO (XI (XI XH))))))) :: ((Npos (XI (XO (XO (XI (XO (XI
      XH))))))) :: ((Npos (XO (XI (XO (XI (XI (XI XH))))))) :: ((Npos (XI (XO
      (XI (XO (XO (XI XH))))))) :: ((Npos (XI (XI (XI (XI (XO (XI
      XH))))))) :: ((Npos (XO (XI (XI (XO (XO (XI XH))))))) :: ((Npos (XI (XI
      (XI (XI (XI (XO XH))))))) :: ((Npos (XI (XI (XI (XI (XI (XO
      XH))))))) :: [])))))))))) :: (((Npos (XI (XI (XI (XI (XI (XO
      XH))))))) :: ((Npos (XI (XI (XI (XI (XI (XO XH))))))) :: ((Npos (XI (XI
      (XO (XO (XI (XI XH))))))) :: ((Npos (XO (XO (XI (XO (XI (XI
      XH))))))) :: ((Npos (XO (XI (XO (XO (XI (XI XH))))))) :: ((Npos (XI (XI
      (XI (XI (XI (XO XH))))))) :: ((Npos (XI (XI (XI (XI (XI (XO
      XH))))))) :: []))))))) :: (((Npos (XI (XI (XI (XI (XI (XO
      XH))))))) :: ((Npos (XI (XI (XI (XI (XI (XO XH))))))) :: ((Npos (XI (XI
      (XO (XO (XI (XI XH))))))) :: ((Npos (XI (XO (XI (XO (XI (XI
      XH))))))) :: ((Npos (XO (XI (XO (XO (XO (XI XH))))))) :: ((Npos (XI (XI
      (XO (XO (XO (XI XH))))))) :: ((Npos (XO (XO (XI (XI (XO (XI
      XH))))))) :: ((Npos (XI (XO (XO (XO (XO (XI XH))))))) :: ((Npos (XI (XI
      (XO (XO (XI (XI XH))))))) :: ((Npos (XI (XI (XO (XO (XI (XI
      XH))))))) :: ((Npos (XO (XO (XO (XI (XO (XI XH))))))) :: ((Npos (XI (XI
      (XI (XI (XO (XI XH))))))) :: ((Npos (XI (XI (XI (XI (XO (XI
      XH))))))) :: ((Npos (XI (XI (XO (XI (XO (XI XH))))))) :: ((Npos (XI (XI
      (XI (XI (XI (XO XH))))))) :: ((Npos (XI (XI (XI (XI (XI (XO
      XH))))))) :: [])))))))))))))))) :: (((Npos (XI (XI (XI (XI (XI (XO
      XH))))))) :: ((Npos (XI (XI (XI (XI (XI (XO XH))))))) :: ((Npos (XI (XI
      (XI (XO (XI (XI XH))))))) :: ((Npos (XI (XO (XI (XO (XO (XI
      XH))))))) :: ((Npos (XI (XO (XO (XO (XO (XI XH))))))) :: ((Npos (XI (XI
      (XO (XI (XO (XI XH))))))) :: ((Npos (XO (XI (XO (XO (XI (XI
      XH))))))) :: ((Npos (XI (XO (XI (XO (XO (XI XH))))))) :: ((Npos (XO (XI
      (XI (XO (XO (XI XH))))))) :: ((Npos (XI (XI (XI (XI (XI (XO
      XH))))))) :: ((Npos (XI (XI (XI (XI (XI (XO
      XH))))))) :: []))))))))))) :: (((Npos (XI (XO (XO (XO (XO (XI
      XH))))))) :: ((Npos (XO (XO (XI (XI (XO (XI XH))))))) :: ((Npos (XO (XO
      (XI (XI (XO (XI XH))))))) :: []))) :: (((Npos (XI (XO (XO (XO (XO (XI
      XH))))))) :: ((Npos (XO (XO (XO (XO (XI (XI XH))))))) :: ((Npos (XO (XO
      (XO (XO (XI (XI XH))))))) :: ((Npos (XI (XO (XI (XO (XO (XI
      XH))))))) :: ((Npos (XO (XI (XI (XI (XO (XI XH))))))) :: ((Npos (XO (XO
      (XI (XO (XO (XI XH))))))) :: [])))))) :: (((Npos (XI (XO (XO (XO (XO
      (XI XH))))))) :: ((Npos (XO (XI (XO (XO (XI (XI XH))))))) :: ((Npos (XI
      (XI (XI (XO (XO (XI XH))))))) :: ((Npos (XI (XI (XO (XO (XI (XI
      XH))))))) :: [])))) :: (((Npos (XI (XI (XO (XO (XO (XI
      XH))))))) :: ((Npos (XO (XO (XO (XI (XO (XI XH))))))) :: ((Npos (XI (XO
      (XO (XO (XO (XI XH))))))) :: ((Npos (XO (XI (XO (XO (XI (XI
      XH))))))) :: ((Npos (XI (XI (XI (XI (XI (XO XH))))))) :: ((Npos (XO (XO
      (XO (XO (XI (XI XH))))))) :: ((Npos (XI (XI (XI (XI (XO (XI
      XH))))))) :: ((Npos (XI (XI (XO (XO (XI (XI XH))))))) :: ((Npos (XI (XI
      (XI (XI (XI (XO XH))))))) :: ((Npos (XO (XO (XI (XO (XI (XI
      XH))))))) :: ((Npos (XI (XI (XI (XI (XO (XI XH))))))) :: ((Npos (XI (XI
      (XI (XI (XI (XO XH))))))) :: ((Npos (XO (XO (XI (XI (XO (XI
      XH))))))) :: ((Npos (XI (XO (XO (XI (XO (XI XH))))))) :: ((Npos (XO (XI
      (XI (XI (XO (XI XH))))))) :: ((Npos (XI (XO (XI (XO (XO (XI
      XH))))))) :: [])))))))))))))))) :: (((Npos (XI (XI (XO (XO (XO (XI
      XH))))))) :: ((Npos (XO (XO (XO (XI (XO (XI XH))))))) :: ((Npos (XI (XO
      (XO (XI (XO (XI XH))))))) :: ((Npos (XO (XO (XI (XI (XO (XI
      XH))))))) :: ((Npos (XO (XO (XI (XO (XO (XI XH))))))) :: ((Npos (XO (XI
      (XO (XO (XI (XI XH))))))) :: ((Npos (XI (XO (XI (XO (XO (XI
      XH))))))) :: ((Npos (XO (XI (XI (XI (XO (XI
      XH))))))) :: [])))))))) :: (((Npos (XI (XI (XO (XO (XO (XI
      XH))))))) :: ((Npos (XI (XI (XI (XI (XO (XI XH))))))) :: ((Npos (XO (XI
      (XI (XI (XO (XI XH))))))) :: ((Npos (XO (XO (XI (XO (XI (XI
      XH))))))) :: ((Npos (XI (XO (XI (XO (XO (XI XH))))))) :: ((Npos (XO (XI
      (XI (XI (XO (XI XH))))))) :: ((Npos (XO (XO (XI (XO (XI (XI
      XH))))))) :: ((Npos (XI (XI (XO (XO (XI (XI
      XH))))))) :: [])))))))) :: (((Npos (XI (XI (XO (XO (XO (XI
      XH))))))) :: ((Npos (XI (XI (XI (XI (XO (XI XH))))))) :: ((Npos (XO (XO
      (XO (XO (XI (XI XH))))))) :: ((Npos (XI (XO (XO (XI (XI (XI
      XH))))))) :: [])))) :: (((Npos (XI (XI (XO (XO (XO (XI
      XH))))))) :: ((Npos (XI (XI (XI (XI (XO (XI XH))))))) :: ((Npos (XI (XO
      (XI (XO (XI (XI XH))))))) :: ((Npos (XO (XI (XI (XI (XO (XI
      XH))))))) :: ((Npos (XO (XO (XI (XO (XI (XI
      XH))))))) :: []))))) :: (((Npos (XO (XO (XI (XO (XO (XI
      XH))))))) :: ((Npos (XI (XO (XI (XO (XO (XI XH))))))) :: ((Npos (XO (XO
      (XI (XI (XO (XI XH))))))) :: ((Npos (XI (XO (XI (XO (XO (XI
      XH))))))) :: ((Npos (XO (XO (XI (XO (XI (XI XH))))))) :: ((Npos (XI (XO
      (XI (XO (XO (XI XH))))))) :: [])))))) :: (((Npos (XO (XO (XI (XO (XO
      (XI XH))))))) :: ((Npos (XI (XO (XI (XO (XO (XI XH))))))) :: ((Npos (XI
      (XI (XO (XO (XI (XI XH))))))) :: ((Npos (XI (XI (XO (XO (XO (XI
      XH))))))) :: ((Npos (XI (XO (XI (XO (XO (XI XH))))))) :: ((Npos (XO (XI
      (XI (XI (XO (XI XH))))))) :: ((Npos (XO (XO (XI (XO (XO (XI
      XH))))))) :: ((Npos (XI (XO (XO (XO (XO (XI XH))))))) :: ((Npos (XO (XI
      (XI (XI (XO (XI XH))))))) :: ((Npos (XO (XO (XI (XO (XI (XI
      XH))))))) :: ((Npos (XI (XI (XO (XO (XI (XI
      XH))))))) :: []))))))))))) :: (((Npos (XO (XI (XI (XO (XO (XI
      XH))))))) :: ((Npos (XI (XO (XO (XI (XO (XI XH))))))) :: ((Npos (XO (XI
      (XI (XI (XO (XI XH))))))) :: ((Npos (XO (XO (XI (XO (XO (XI
      XH))))))) :: [])))) :: (((Npos (XO (XI (XI (XO (XO (XI
      XH))))))) :: ((Npos (XI (XO (XO (XI (XO (XI XH))))))) :: ((Npos (XO (XI
      (XI (XI (XO (XI XH))))))) :: ((Npos (XO (XO (XI (XO (XO (XI
      XH))))))) :: ((Npos (XI (XI (XI (XI (XI (XO XH))))))) :: ((Npos (XI (XO
      (XO (XO (XO (XI XH))))))) :: ((Npos (XO (XO (XI (XI (XO (XI
      XH))))))) :: ((Npos (XO (XO (XI (XI (XO (XI
      XH))))))) :: [])))))))) :: (((Npos (XI (XO (XO (XI (XO (XI
      XH))))))) :: ((Npos (XO (XI (XI (XI (XO (XI XH))))))) :: ((Npos (XI (XI
      (XO (XO (XI (XI XH))))))) :: ((Npos (XI (XO (XI (XO (XO (XI
      XH))))))) :: ((Npos (XO (XI (XO (XO (XI (XI XH))))))) :: ((Npos (XO (XO
      (XI (XO (XI (XI XH))))))) :: [])))))) :: (((Npos (XO (XI (XI (XI (XO
      (XI XH))))))) :: ((Npos (XI (XO (XO (XO (XO (XI XH))))))) :: ((Npos (XI
      (XO (XI (XI (XO (XI XH))))))) :: ((Npos (XI (XO (XI (XO (XO (XI
      XH))))))) :: [])))) :: (((Npos (XO (XO (XO (XO (XI (XI
      XH))))))) :: ((Npos (XI (XI (XI (XI (XO (XI XH))))))) :: ((Npos (XI (XI
      (XO (XO (XI (XI XH))))))) :: ((Npos (XI (XO (XO (XI (XO (XI
      XH))))))) :: ((Npos (XO (XO (XI (XO (XI (XI XH))))))) :: ((Npos (XI (XO
      (XO (XI (XO (XI XH))))))) :: ((Npos (XI (XI (XI (XI (XO (XI
      XH))))))) :: ((Npos (XO (XI (XI (XI (XO (XI
      XH))))))) :: [])))))))) :: (((Npos (XO (XI (XO (XO (XI (XI
      XH))))))) :: ((Npos (XI (XO (XI (XO (XO (XI XH))))))) :: ((Npos (XI (XO
      (XI (XI (XO (XI XH))))))) :: ((Npos (XI (XI (XI (XI (XO (XI
      XH))))))) :: ((Npos (XO (XI (XI (XO (XI (XI XH))))))) :: ((Npos (XI (XO
      (XI (XO (XO (XI XH))))))) :: [])))))) :: (((Npos (XO (XI (XO (XO (XI
      (XI XH))))))) :: ((Npos (XI (XO (XI (XO (XO (XI XH))))))) :: ((Npos (XO
      (XO (XO (XO (XI (XI XH))))))) :: ((Npos (XO (XO (XI (XI (XO (XI
      XH))))))) :: ((Npos (XI (XO (XO (XO (XO (XI XH))))))) :: ((Npos (XI (XI
      (XO (XO (XO (XI XH))))))) :: ((Npos (XI (XO (XI (XO (XO (XI
      XH))))))) :: []))))))) :: (((Npos (XO (XI (XO (XO (XI (XI
      XH))))))) :: ((Npos (XI (XO (XI (XO (XO (XI XH))))))) :: ((Npos (XO (XO
      (XO (XO (XI (XI XH))))))) :: ((Npos (XO (XO (XI (XI (XO (XI
      XH))))))) :: ((Npos (XI (XO (XO (XO (XO (XI XH))))))) :: ((Npos (XI (XI
      (XO (XO (XO (XI XH))))))) :: ((Npos (XI (XO (XI (XO (XO (XI
      XH))))))) :: ((Npos (XI (XI (XI (XI (XI (XO XH))))))) :: ((Npos (XI (XI
      (XI (XO (XI (XI XH))))))) :: ((Npos (XI (XO (XO (XI (XO (XI
      XH))))))) :: ((Npos (XO (XO (XI (XO (XI (XI XH))))))) :: ((Npos (XO (XO
      (XO (XI (XO (XI XH))))))) :: [])))))))))))) :: (((Npos (XI (XI (XO (XO
      (XI (XI XH))))))) :: ((Npos (XI (XO (XI (XO (XO (XI XH))))))) :: ((Npos
      (XI (XO (XO (XO (XO (XI XH))))))) :: ((Npos (XO (XI (XO (XO (XI (XI
      XH))))))) :: ((Npos (XI (XI (XO (XO (XO (XI XH))))))) :: ((Npos (XO (XO
      (XO (XI (XO (XI XH))))))) :: ((Npos (XI (XI (XI (XI (XI (XO
      XH))))))) :: ((Npos (XO (XI (XO (XO (XI (XI XH))))))) :: ((Npos (XI (XO
      (XI (XO (XO (XI XH))))))) :: ((Npos (XI (XI (XI (XO (XO (XI
      XH))))))) :: ((Npos (XI (XO (XI (XO (XO (XI XH))))))) :: ((Npos (XO (XO
      (XO (XI (XI (XI XH))))))) :: [])))))))))))) :: (((Npos (XI (XI (XO (XO
      (XI (XI XH))))))) :: ((Npos (XO (XO (XI (XO (XI (XI XH))))))) :: ((Npos
      (XO (XI (XO (XO (XI (XI XH))))))) :: ((Npos (XI (XO (XO (XI (XO (XI
      XH))))))) :: ((Npos (XO (XI (XI (XI (XO (XI XH))))))) :: ((Npos (XI (XI
      (XI (XO (XO (XI XH))))))) :: [])))))) :: (((Npos (XO (XO (XI (XO (XI
      (XI XH))))))) :: ((Npos (XI (XO (XI (XO (XO (XI XH))))))) :: ((Npos (XO
      (XO (XO (XI (XI (XI XH))))))) :: ((Npos (XO (XO (XI (XO (XI (XI
      XH))))))) :: [])))) :: [])))))))))))))))))))))))))))))))))))))))))))))))))))))
 end

type cchar = { ch : n; cpos : z; ccat : cc }

(** val lookup_cat : (cc * n list) list -> n -> cc option **)

let rec lookup_cat tbl c =
  match tbl with
  | [] -> None
  | p :: tbl' ->
    let (k, vs) = p in if mem_N c vs then Some k else lookup_cat tbl' c

(** val categorize_char : n -> cc **)

let categorize_char c =
  match lookup_cat Tables.category_table c with
  | Some k -> k
  | None -> COther

(** val categorize_from : z -> str -> cchar list **)

let rec categorize_from p = function
| [] -> []
| c :: s' ->
  { ch = c; cpos = p; ccat =
    (categorize_char c) } :: (categorize_from (Z.add p (Zpos XH)) s')

(** val categorize : str -> cchar list **)

let categorize s =
  categorize_from Z0 s

(** val chars_of : cchar list -> str **)

let chars_of cs =
  map (fun c -> c.ch) cs

type token = { ttext : str; tpos : z; tcat : tc }

type rres =
| RNone
| RTok of token * cchar list
| RSkip of cchar list
| RErr

(** val take_while :
    (cchar -> bool) -> cchar list -> cchar list * cchar list **)

let rec take_while p l = match l with
| [] -> ([], [])
| c :: l' ->
  if p c then let (a, b) = take_while p l' in ((c :: a), b) else ([], l)

(** val is_cat : cc -> cchar -> bool **)

let is_cat k c =
  cc_beq c.ccat k

(** val mk_tok : cchar list -> z -> tc -> token **)

let mk_tok cs idx k =
  { ttext = (chars_of cs); tpos =
    (match cs with
     | [] -> idx
     | c :: _ -> c.cpos); tcat = k }

(** val rule_escaped_symbols : cchar list -> rres **)

let rule_escaped_symbols = function
| [] -> RErr
| c0 :: rest1 ->
  if is_cat CEscape c0
  then (match rest1 with
        | [] -> RNone
        | c1 :: rest2 ->
          if mem_cc c1.ccat Tables.escaped_second_cats
          then RTok ({ ttext = (c0.ch :: (c1.ch :: [])); tpos = c0.cpos;
                 tcat = TEscapedComment }, rest2)
          else RNone)
  else RNone

(** val comment_allowed : token option -> bool **)

let comment_allowed = function
| Some t -> negb (N.eqb (Tables.tc_value t.tcat) (Tables.cc_value CComment))
| None -> true

(** val rule_comment : token option -> cchar list -> rres **)

let rule_comment prev = function
| [] -> RErr
| c0 :: rest1 ->
  if (&&) (is_cat CComment c0) (comment_allowed prev)
  then let (body, rest2) =
         take_while (fun c -> negb (is_cat CEndOfLine c)) rest1
       in
       RTok ({ ttext = (c0.ch :: (chars_of body)); tpos = c0.cpos; tcat =
       TComment }, rest2)
  else RNone

(** val rule_math_sym_switch : cchar list -> rres **)

let rule_math_sym_switch = function
| [] -> RErr
| c0 :: rest1 ->
  if is_cat CMathSwitch c0
  then (match rest1 with
        | [] ->
          RTok ({ ttext = (c0.ch :: []); tpos = c0.cpos; tcat =
            TMathSwitch }, rest1)
        | c1 :: rest2 ->
          if is_cat CMathSwitch c1
          then RTok ({ ttext = (c0.ch :: (c1.ch :: [])); tpos = c0.cpos;
                 tcat = TDisplayMathSwitch }, rest2)
          else RTok ({ ttext = (c0.ch :: []); tpos = c0.cpos; tcat =
                 TMathSwitch }, rest1))
  else RNone

(** val lookup_asym : ((cc * cc) * tc) list -> cc -> cc -> tc option **)

let rec lookup_asym m a b =
  match m with
  | [] -> None
  | p :: m' ->
    let (p0, t) = p in
    let (x, y) = p0 in
    if (&&) (cc_beq a x) (cc_beq b y) then Some t else lookup_asym m' a b

(** val rule_math_asym_switch : cchar list -> rres **)

let rule_math_asym_switch = function
| [] -> RNone
| c0 :: l ->
  (match l with
   | [] -> RNone
   | c1 :: rest2 ->
     (match lookup_asym Tables.asym_map c0.ccat c1.ccat with
      | Some t ->
        RTok ({ ttext = (c0.ch :: (c1.ch :: [])); tpos = c0.cpos; tcat = t },
          rest2)
      | None -> RNone))

(** val rule_line_break : cchar list -> rres **)

let rule_line_break = function
| [] -> RErr
| c0 :: rest1 ->
  if is_cat CEscape c0
  then (match rest1 with
        | [] -> RNone
        | c1 :: rest2 ->
          if is_cat CEscape c1
          then RTok ({ ttext = (c0.ch :: (c1.ch :: [])); tpos = c0.cpos;
                 tcat = TLineBreak }, rest2)
          else RNone)
  else RNone

(** val rule_ignore : cchar list -> rres **)

let rule_ignore rest =
  let (skipped, rest') =
    take_while (fun c -> mem_cc c.ccat Tables.ignore_cats) rest
  in
  (match skipped with
   | [] -> RNone
   | _ :: _ -> RSkip rest')

(** val rule_spacers : z -> cchar list -> rres **)

let rule_spacers idx rest =
  let (s1, r1) = take_while (is_cat CSpacer) rest in
  (match r1 with
   | [] ->
     let e = [] in
     let (s2, r3) = take_while (is_cat CSpacer) r1 in
     let consumed = app s1 (app e s2) in
     (match r3 with
      | [] ->
        (match consumed with
         | [] -> RNone
         | _ :: _ -> RTok ((mk_tok consumed idx TMergedSpacer), r3))
      | c :: _ ->
        if mem_cc c.ccat Tables.spacer_rollback_cats
        then RNone
        else (match consumed with
              | [] -> RNone
              | _ :: _ -> RTok ((mk_tok consumed idx TMergedSpacer), r3)))
   | c :: r' ->
     if is_cat CEndOfLine c
     then let e = c :: [] in
          let (s2, r3) = take_while (is_cat CSpacer) r' in
          let consumed = app s1 (app e s2) in
          (match r3 with
           | [] ->
             (match consumed with
              | [] -> RNone
              | _ :: _ -> RTok ((mk_tok consumed idx TMergedSpacer), r3))
           | c0 :: _ ->
             if mem_cc c0.ccat Tables.spacer_rollback_cats
             then RNone
             else (match consumed with
                   | [] -> RNone
                   | _ :: _ -> RTok ((mk_tok consumed idx TMergedSpacer), r3)))
     else let e = [] in
          let (s2, r3) = take_while (is_cat CSpacer) r1 in
          let consumed = app s1 (app e s2) in
          (match r3 with
           | [] ->
             (match consumed with
              | [] -> RNone
              | _ :: _ -> RTok ((mk_tok consumed idx TMergedSpacer), r3))
           | c0 :: _ ->
             if mem_cc c0.ccat Tables.spacer_rollback_cats
             then RNone
             else (match consumed with
                   | [] -> RNone
                   | _ :: _ -> RTok ((mk_tok consumed idx TMergedSpacer), r3))))

(** val lookup_sym : (cc * tc) list -> cc -> tc option **)

let rec lookup_sym m a =
  match m with
  | [] -> None
  | p :: m' ->
    let (x, t) = p in if cc_beq a x then Some t else lookup_sym m' a

(** val rule_symbols : cchar list -> rres **)

let rule_symbols = function
| [] -> RErr
| c0 :: rest1 ->
  (match lookup_sym Tables.symbols_map c0.ccat with
   | Some t ->
     RTok ({ ttext = (c0.ch :: []); tpos = c0.cpos; tcat = t }, rest1)
   | None -> RNone)

(** val prev_is_escape : cchar option -> bool **)

let prev_is_escape = function
| Some p -> is_cat CEscape p
| None -> false

(** val find_point : str list -> str -> str option **)

let rec find_point points s =
  match points with
  | [] -> None
  | p :: ps ->
    if str_eqb (firstn (length p) s) p then Some p else find_point ps s

(** val rule_punctuation : str list -> cchar option -> cchar list -> rres **)

let rule_punctuation points prevc rest =
  if prev_is_escape prevc
  then (match find_point points (chars_of rest) with
        | Some p ->
          let k = length p in
          (match firstn k rest with
           | [] -> RNone
           | c0 :: _ ->
             RTok ({ ttext = p; tpos = c0.cpos; tcat =
               TPunctuationCommandName }, (skipn k rest)))
        | None -> RNone)
  else RNone

(** val star : n **)

let star =
  Npos (XO (XI (XO (XI (XO XH)))))

(** val rule_command_name : cchar option -> cchar list -> rres **)

let rule_command_name prevc rest =
  if prev_is_escape prevc
  then (match rest with
        | [] -> RErr
        | c0 :: rest1 ->
          if is_cat CLetter c0
          then let (more, rest2) =
                 take_while (fun c ->
                   (||) (is_cat CLetter c) (N.eqb c.ch star)) rest1
               in
               RTok ({ ttext = (c0.ch :: (chars_of more)); tpos = c0.cpos;
               tcat = TCommandName }, rest2)
          else RNone)
  else RNone

(** val rule_string : z -> cchar list -> rres **)

let rule_string idx rest =
  let (body, rest') =
    take_while (fun c -> negb (mem_cc c.ccat Tables.string_stop_cats)) rest
  in
  RTok ((mk_tok body idx TText), rest')

type rctx = { cx_idx : z; cx_prev : token option;
              cx_prevc_punct : cchar option; cx_prevc_cmd : cchar option;
              cx_points : str list }

(** val run_rule : rule_id -> rctx -> cchar list -> rres **)

let run_rule r cx rest =
  match r with
  | R_escaped_symbols -> rule_escaped_symbols rest
  | R_comment -> rule_comment cx.cx_prev rest
  | R_math_sym_switch -> rule_math_sym_switch rest
  | R_math_asym_switch -> rule_math_asym_switch rest
  | R_line_break -> rule_line_break rest
  | R_ignore -> rule_ignore rest
  | R_spacers -> rule_spacers cx.cx_idx rest
  | R_symbols -> rule_symbols rest
  | R_punctuation_command_name ->
    rule_punctuation cx.cx_points cx.cx_prevc_punct rest
  | R_command_name -> rule_command_name cx.cx_prevc_cmd rest
  | R_string -> rule_string cx.cx_idx rest

(** val run_rules : rule_id list -> rctx -> cchar list -> rres **)

let rec run_rules rules cx rest =
  match rules with
  | [] -> RNone
  | r :: rs ->
    (match run_rule r cx rest with
     | RNone -> run_rules rs cx rest
     | x -> x)

(** val max_point_len : str list -> nat **)

let max_point_len points =
  fold_right (fun p m -> Nat.max (length p) m) O points

(** val start_prev_punct : cchar list -> cchar option **)

let start_prev_punct = function
| [] -> None
| c0 :: l -> (match l with
              | [] -> Some c0
              | c1 :: _ -> Some c1)

(** val start_prev_cmd : str list -> cchar list -> cchar option **)

let start_prev_cmd points cs =
  if prev_is_escape (start_prev_punct cs)
  then nth_error cs
         (sub (Nat.min (length cs) (S (max_point_len points))) (S O))
  else start_prev_punct cs

type tok_end =
| TEnd
| TEndErr
| TEndHang
| TEndFuel

(** val last_consumed : cchar list -> cchar list -> cchar option **)

let last_consumed rest rest' =
  nth_error rest (sub (sub (length rest) (length rest')) (S O))

(** val tokenize_loop :
    nat -> str list -> z -> cchar option -> cchar option -> token option ->
    cchar list -> token list * tok_end **)

let rec tokenize_loop fuel points idx pp pc prev rest =
  match fuel with
  | O -> ([], TEndFuel)
  | S f ->
    (match rest with
     | [] -> ([], TEnd)
     | _ :: _ ->
       (match run_rules Tables.rule_order { cx_idx = idx; cx_prev = prev;
                cx_prevc_punct = pp; cx_prevc_cmd = pc; cx_points = points }
                rest with
        | RNone -> ([], TEndHang)
        | RTok (t, rest') ->
          let k = Z.of_nat (sub (length rest) (length rest')) in
          let lc = last_consumed rest rest' in
          let (ts, e) =
            tokenize_loop f points (Z.add idx k) lc lc (Some t) rest'
          in
          ((t :: ts), e)
        | RSkip rest' ->
          let k = Z.of_nat (sub (length rest) (length rest')) in
          let lc = last_consumed rest rest' in
          tokenize_loop f points (Z.add idx k) lc lc prev rest'
        | RErr -> ([], TEndErr)))

(** val tokenize_with : str list -> cchar list -> token list * tok_end **)

let tokenize_with points cs =
  tokenize_loop (S (length cs)) points Z0 (start_prev_punct cs)
    (start_prev_cmd points cs) None cs

(** val tokenize : cchar list -> token list * tok_end **)

let tokenize cs =
  tokenize_with Tables.punctuation_commands cs

(** val tokens_of_string : str -> token list * tok_end **)

let tokens_of_string s =
  tokenize (categorize s)

type expr =
| EText of token
| ERaw of str * z
| EStr of str
| ECmd of str * expr list * expr list * z
| ENamed of str * expr list * expr list * z
| EMath of mathkind * expr list * z
| EGroup of groupkind * expr list * z
| ERoot of expr list

(** val lookup_mk : mathkind -> (mathkind * 'a1) list -> 'a1 option **)

let rec lookup_mk k = function
| [] -> None
| p :: l' ->
  let (k', v) = p in if mathkind_beq k k' then Some v else lookup_mk k l'

(** val lookup_gk : groupkind -> (groupkind * 'a1) list -> 'a1 option **)

let rec lookup_gk k = function
| [] -> None
| p :: l' ->
  let (k', v) = p in if groupkind_beq k k' then Some v else lookup_gk k l'

(** val math_begin : mathkind -> str **)

let math_begin k =
  match lookup_mk k Tables.math_classes with
  | Some p -> let (_, p1) = p in let (p2, _) = p1 in let (b, _) = p2 in b
  | None -> []

(** val math_end : mathkind -> str **)

let math_end k =
  match lookup_mk k Tables.math_classes with
  | Some p -> let (_, p1) = p in let (p2, _) = p1 in let (_, e) = p2 in e
  | None -> []

(** val math_name : mathkind -> str **)

let math_name k =
  match lookup_mk k Tables.math_classes with
  | Some p -> let (_, p1) = p in let (_, n0) = p1 in n0
  | None -> []

(** val math_tok_end : mathkind -> tc option **)

let math_tok_end k =
  match lookup_mk k Tables.math_classes with
  | Some p -> let (p0, _) = p in let (_, e) = p0 in Some e
  | None -> None

(** val group_begin : groupkind -> str **)

let group_begin k =
  match lookup_gk k Tables.group_classes with
  | Some p -> let (_, p1) = p in let (p2, _) = p1 in let (b, _) = p2 in b
  | None -> []

(** val group_end : groupkind -> str **)

let group_end k =
  match lookup_gk k Tables.group_classes with
  | Some p -> let (_, p1) = p in let (p2, _) = p1 in let (_, e) = p2 in e
  | None -> []

(** val group_name : groupkind -> str **)

let group_name k =
  match lookup_gk k Tables.group_classes with
  | Some p -> let (_, p1) = p in let (_, n0) = p1 in n0
  | None -> []

(** val group_tok_end : groupkind -> tc option **)

let group_tok_end k =
  match lookup_gk k Tables.group_classes with
  | Some p -> let (p0, _) = p in let (_, e) = p0 in Some e
  | None -> None

(** val backslash : n **)

let backslash =
  Npos (XO (XO (XI (XI (XI (XO XH))))))

(** val s_begin_open : str **)

let s_begin_open =
  (Npos (XO (XO (XI (XI (XI (XO XH))))))) :: ((Npos (XO (XI (XO (XO (XO (XI
    XH))))))) :: ((Npos (XI (XO (XI (XO (XO (XI XH))))))) :: ((Npos (XI (XI
    (XI (XO (XO (XI XH))))))) :: ((Npos (XI (XO (XO (XI (XO (XI
    XH))))))) :: ((Npos (XO (XI (XI (XI (XO (XI XH))))))) :: ((Npos (XI (XI
    (XO (XI (XI (XI XH))))))) :: []))))))

(** val s_end_open : str **)

let s_end_open =
  (Npos (XO (XO (XI (XI (XI (XO XH))))))) :: ((Npos (XI (XO (XI (XO (XO (XI
    XH))))))) :: ((Npos (XO (XI (XI (XI (XO (XI XH))))))) :: ((Npos (XO (XO
    (XI (XO (XO (XI XH))))))) :: ((Npos (XI (XI (XO (XI (XI (XI
    XH))))))) :: []))))

(** val s_close : str **)

let s_close =
  (Npos (XI (XO (XI (XI (XI (XI XH))))))) :: []

(** val env_begin : str -> str **)

let env_begin name =
  app s_begin_open (app name s_close)

(** val env_end : str -> str **)

let env_end name =
  app s_end_open (app name s_close)

(** val estr : expr -> str **)

let rec estr = function
| EText t -> t.ttext
| ERaw (s, _) -> s
| EStr s -> s
| ECmd (n0, a, b, _) ->
  backslash :: (app n0 (app (concat (map estr a)) (concat (map estr b))))
| ENamed (n0, a, b, _) ->
  app (env_begin n0)
    (app (concat (map estr a)) (app (concat (map estr b)) (env_end n0)))
| EMath (k, b, _) ->
  app (math_begin k) (app (concat (map estr b)) (math_end k))
| EGroup (k, b, _) ->
  app (group_begin k) (app (concat (map estr b)) (group_end k))
| ERoot b -> concat (map estr b)

(** val estr_list : expr list -> str **)

let estr_list l =
  concat (map estr l)

(** val arg_string : expr -> str **)

let arg_string = function
| EText t -> t.ttext
| ERaw (s, _) -> s
| EStr s -> s
| ECmd (_, _, b, _) -> estr_list b
| ENamed (_, _, b, _) -> estr_list b
| EMath (_, b, _) -> estr_list b
| EGroup (_, b, _) -> estr_list b
| ERoot b -> estr_list b

(** val is_ws : n -> bool **)

let is_ws c =
  mem_N c Tables.py_whitespace

(** val lstrip : str -> str **)

let rec lstrip s = match s with
| [] -> []
| c :: s' -> if is_ws c then lstrip s' else s

(** val strip : str -> str **)

let strip s =
  rev (lstrip (rev (lstrip s)))

type err =
| EOFError
| TypeError
| AssertionError
| StopIteration
| KeyError
| TokenizerError
| OutOfFuel

type 'a res =
| Ok of 'a
| Err of err

(** val bind : 'a1 res -> ('a1 -> 'a2 res) -> 'a2 res **)

let bind r f =
  match r with
  | Ok a -> f a
  | Err e -> Err e

type mode =
| MNonMath
| MMath
| MSpecial

(** val mode_is_math : mode -> bool **)

let mode_is_math = function
| MMath -> true
| _ -> false

(** val mode_is_special : mode -> bool **)

let mode_is_special = function
| MSpecial -> true
| _ -> false

(** val s_item : str **)

let s_item =
  (Npos (XI (XO (XO (XI (XO (XI XH))))))) :: ((Npos (XO (XO (XI (XO (XI (XI
    XH))))))) :: ((Npos (XI (XO (XI (XO (XO (XI XH))))))) :: ((Npos (XI (XO
    (XI (XI (XO (XI XH))))))) :: [])))

(** val s_begin : str **)

let s_begin =
  (Npos (XO (XI (XO (XO (XO (XI XH))))))) :: ((Npos (XI (XO (XI (XO (XO (XI
    XH))))))) :: ((Npos (XI (XI (XI (XO (XO (XI XH))))))) :: ((Npos (XI (XO
    (XO (XI (XO (XI XH))))))) :: ((Npos (XO (XI (XI (XI (XO (XI
    XH))))))) :: []))))

(** val s_end : str **)

let s_end =
  (Npos (XI (XO (XI (XO (XO (XI XH))))))) :: ((Npos (XO (XI (XI (XI (XO (XI
    XH))))))) :: ((Npos (XO (XO (XI (XO (XO (XI XH))))))) :: []))

(** val is_tc : tc -> token -> bool **)

let is_tc k t =
  tc_beq t.tcat k

(** val math_kind_of_begin_in :
    (mathkind * ((tc * tc) * ((str * str) * str))) list -> tc -> mathkind
    option **)

let rec math_kind_of_begin_in l c =
  match l with
  | [] -> None
  | p :: l' ->
    let (k, p0) = p in
    let (p1, _) = p0 in
    let (b, _) = p1 in
    if tc_beq c b then Some k else math_kind_of_begin_in l' c

(** val math_kind_of_begin : tc -> mathkind option **)

let math_kind_of_begin c =
  math_kind_of_begin_in Tables.math_classes c

(** val group_kind_of_begin_in :
    (groupkind * ((tc * tc) * ((str * str) * str))) list -> tc -> groupkind
    option **)

let rec group_kind_of_begin_in l c =
  match l with
  | [] -> None
  | p :: l' ->
    let (k, p0) = p in
    let (p1, _) = p0 in
    let (b, _) = p1 in
    if tc_beq c b then Some k else group_kind_of_begin_in l' c

(** val group_kind_of_begin : tc -> groupkind option **)

let group_kind_of_begin c =
  group_kind_of_begin_in Tables.group_classes c

(** val is_group_end : groupkind -> token -> bool **)

let is_group_end k t =
  match group_tok_end k with
  | Some e -> is_tc e t
  | None -> false

(** val is_math_end : mathkind -> token -> bool **)

let is_math_end k t =
  match math_tok_end k with
  | Some e -> is_tc e t
  | None -> false

(** val read_spacer : token list -> bool * token list **)

let read_spacer toks = match toks with
| [] -> (false, toks)
| t :: rest -> if is_tc TMergedSpacer t then (true, rest) else (false, toks)

(** val signature_of : str -> z * z **)

let signature_of name =
  match assoc_str name Tables.signatures with
  | Some s -> s
  | None -> ((Zneg XH), (Zneg XH))

(** val texts : token list -> str **)

let texts toks =
  concat (map (fun t -> t.ttext) toks)

(** val skip_scan : str -> str -> token list -> str * token list **)

let rec skip_scan target acc toks = match toks with
| [] -> (acc, [])
| t :: rest ->
  if starts_with (texts (firstn (length target) toks)) target
  then (acc, toks)
  else skip_scan target (app acc t.ttext) rest

(** val read_skip_env :
    str -> expr list -> z -> token list -> (expr * token list) res **)

let read_skip_env name args pos toks =
  let target = env_end name in
  let (body, rest) = skip_scan target [] toks in
  (match toks with
   | [] -> Err EOFError
   | t0 :: _ ->
     (match rest with
      | [] -> Err EOFError
      | _ :: _ ->
        if starts_with (texts (firstn (length target) rest)) target
        then Ok ((ENamed (name, args, ((ERaw (body, t0.tpos)) :: []), pos)),
               (skipn (S (S (S (S (S O))))) rest))
        else Err EOFError))

(** val read_expr :
    nat -> str list -> bool -> mode -> token list -> (expr * token list) res **)

let rec read_expr fuel skip strict m toks =
  match fuel with
  | O -> Err OutOfFuel
  | S f ->
    (match toks with
     | [] -> Err StopIteration
     | c :: src ->
       (match math_kind_of_begin c.tcat with
        | Some k -> read_math_loop f k c.tpos strict [] src
        | None ->
          if is_tc TEscape c
          then bind (read_command f (Zneg XH) (Zneg XH) O strict m src)
                 (fun pat ->
                 let (p, src1) = pat in
                 let (name, args) = p in
                 if str_eqb name s_item
                 then if mode_is_math m
                      then Err AssertionError
                      else bind (read_item_loop f [] src1) (fun pat0 ->
                             let (contents0, src2) = pat0 in
                             Ok ((ECmd ((strip name), args, contents0,
                             c.tpos)), src2))
                 else if (&&) (str_eqb name s_begin)
                           (negb (mode_is_special m))
                      then (match args with
                            | [] -> Err AssertionError
                            | a0 :: args' ->
                              let ename = strip (arg_string a0) in
                              let m' =
                                if mem_str ename Tables.math_env_names
                                then MMath
                                else m
                              in
                              if mem_str ename skip
                              then read_skip_env ename args' c.tpos src1
                              else read_env_loop f ename args' c.tpos skip
                                     strict m' [] src1)
                      else Ok ((ECmd ((strip name), args, [], c.tpos)), src1))
          else if is_tc TGroupBegin c
               then read_arg f c strict MNonMath src
               else Ok ((EText c), src)))

(** val read_item_loop :
    nat -> expr list -> token list -> (expr list * token list) res **)

and read_item_loop fuel acc toks =
  match fuel with
  | O -> Err OutOfFuel
  | S f ->
    (match toks with
     | [] -> Ok (acc, toks)
     | t :: _ ->
       let step1 =
         bind (read_expr f [] true MNonMath toks) (fun pat ->
           let (e, src1) = pat in read_item_loop f (app acc (e :: [])) src1)
       in
       if is_tc TEscape t
       then bind
              (read_command f (Zneg XH) (Zneg XH) (S O) true MNonMath toks)
              (fun pat ->
              let (p, _) = pat in
              let (cname, _) = p in
              if (||) (str_eqb cname s_end) (str_eqb cname s_item)
              then Ok (acc, toks)
              else step1)
       else if is_tc TGroupEnd t then Ok (acc, toks) else step1)

(** val read_math_loop :
    nat -> mathkind -> z -> bool -> expr list -> token list -> (expr * token
    list) res **)

and read_math_loop fuel k pos strict acc toks =
  match fuel with
  | O -> Err OutOfFuel
  | S f ->
    (match toks with
     | [] -> Err EOFError
     | t :: src ->
       if is_math_end k t
       then Ok ((EMath (k, acc, pos)), src)
       else bind (read_expr f [] strict MMath toks) (fun pat ->
              let (e, src1) = pat in
              read_math_loop f k pos strict (app acc (e :: [])) src1))

(** val read_env_loop :
    nat -> str -> expr list -> z -> str list -> bool -> mode -> expr list ->
    token list -> (expr * token list) res **)

and read_env_loop fuel name args pos skip strict m acc toks =
  match fuel with
  | O -> Err OutOfFuel
  | S f ->
    let finish = fun eargs ->
      let error =
        match toks with
        | [] -> true
        | _ :: _ ->
          (match eargs with
           | Some l0 ->
             (match l0 with
              | [] -> true
              | a0 :: _ -> negb (str_eqb (arg_string a0) name))
           | None -> true)
      in
      if error
      then if strict
           then Err EOFError
           else Ok ((ENamed (name, args, acc, pos)), toks)
      else let (_, src2) = read_spacer (skipn (S (S O)) toks) in
           (match src2 with
            | [] -> Err StopIteration
            | c :: src3 ->
              bind (read_arg f c strict m src3) (fun pat ->
                let (_, rest) = pat in
                Ok ((ENamed (name, args, acc, pos)), rest)))
    in
    (match toks with
     | [] -> finish None
     | t :: _ ->
       let step1 =
         bind (read_expr f skip strict m toks) (fun pat ->
           let (e, src1) = pat in
           read_env_loop f name args pos skip strict m (app acc (e :: []))
             src1)
       in
       if is_tc TEscape t
       then bind (read_command f (Zneg XH) (Zneg XH) (S O) strict m toks)
              (fun pat ->
              let (p, _) = pat in
              let (cname, cargs) = p in
              if str_eqb cname s_end then finish (Some cargs) else step1)
       else step1)

(** val read_command :
    nat -> z -> z -> nat -> bool -> mode -> token list -> ((str * expr
    list) * token list) res **)

and read_command fuel nreq nopt skip strict m toks =
  match fuel with
  | O -> Err OutOfFuel
  | S f ->
    if Nat.ltb (length toks) skip
    then Err StopIteration
    else (match skipn skip toks with
          | [] -> Ok (([], []), [])
          | name :: src ->
            let m' =
              if mem_str name.ttext Tables.special_commands
              then MSpecial
              else m
            in
            let (nreq', nopt') =
              if (&&) (Z.ltb nreq Z0) (Z.ltb nopt Z0)
              then signature_of name.ttext
              else (nreq, nopt)
            in
            bind (read_args f nreq' nopt' strict m' src) (fun pat ->
              let (args, src1) = pat in Ok ((name.ttext, args), src1)))

(** val read_args :
    nat -> z -> z -> bool -> mode -> token list -> (expr list * token list)
    res **)

and read_args fuel nreq nopt strict m toks =
  match fuel with
  | O -> Err OutOfFuel
  | S f ->
    if (&&) (Z.eqb nreq Z0) (Z.eqb nopt Z0)
    then Ok ([], toks)
    else bind (read_arg_optional f [] nopt strict m toks) (fun pat ->
           let (p, src1) = pat in
           let (args1, nopt1) = p in
           bind (read_arg_required f args1 nreq strict m src1) (fun pat0 ->
             let (p0, src2) = pat0 in
             let (args2, nreq1) = p0 in
             bind
               (match src2 with
                | [] -> Ok ((args2, nopt1), src2)
                | t :: _ ->
                  if is_tc TBracketBegin t
                  then read_arg_optional f args2 nopt1 strict m src2
                  else Ok ((args2, nopt1), src2)) (fun pat1 ->
               let (p1, src3) = pat1 in
               let (args3, _) = p1 in
               bind
                 (match src3 with
                  | [] -> Ok ((args3, nreq1), src3)
                  | t :: _ ->
                    if is_tc TGroupBegin t
                    then read_arg_required f args3 nreq1 strict m src3
                    else Ok ((args3, nreq1), src3)) (fun pat2 ->
                 let (p2, src4) = pat2 in
                 let (args4, _) = p2 in Ok (args4, src4)))))

(** val read_arg_optional :
    nat -> expr list -> z -> bool -> mode -> token list -> ((expr
    list * z) * token list) res **)

and read_arg_optional fuel args nopt strict m toks =
  match fuel with
  | O -> Err OutOfFuel
  | S f ->
    if Z.eqb nopt Z0
    then Ok ((args, nopt), toks)
    else let (_, src1) = read_spacer toks in
         (match src1 with
          | [] -> Ok ((args, nopt), toks)
          | c :: src2 ->
            if is_tc TBracketBegin c
            then bind (read_arg f c strict m src2) (fun pat ->
                   let (g, src3) = pat in
                   read_arg_optional f (app args (g :: []))
                     (Z.sub nopt (Zpos XH)) strict m src3)
            else Ok ((args, nopt), toks))

(** val read_arg_required :
    nat -> expr list -> z -> bool -> mode -> token list -> ((expr
    list * z) * token list) res **)

and read_arg_required fuel args nreq strict m toks =
  match fuel with
  | O -> Err OutOfFuel
  | S f ->
    if Z.eqb nreq Z0
    then Ok ((args, nreq), toks)
    else (match toks with
          | [] -> Ok ((args, nreq), toks)
          | _ :: _ ->
            let (_, src1) = read_spacer toks in
            (match src1 with
             | [] -> Ok ((args, nreq), toks)
             | c :: src2 ->
               if is_tc TGroupBegin c
               then bind (read_arg f c strict m src2) (fun pat ->
                      let (g, src3) = pat in
                      read_arg_required f (app args (g :: []))
                        (Z.sub nreq (Zpos XH)) strict m src3)
               else if Z.ltb Z0 nreq
                    then if is_tc TEscape c
                         then bind (read_command f Z0 Z0 O strict m src2)
                                (fun pat ->
                                let (p, src3) = pat in
                                let (name, _) = p in
                                read_arg_required f
                                  (app args ((ECmd ((strip name), [], [],
                                    c.tpos)) :: [])) (Z.sub nreq (Zpos XH))
                                  strict m src3)
                         else read_arg_required f
                                (app args ((EGroup (GBrace, ((EStr
                                  c.ttext) :: []), (Zneg XH))) :: []))
                                (Z.sub nreq (Zpos XH)) strict m src2
                    else Ok ((args, nreq), toks)))

(** val read_arg :
    nat -> token -> bool -> mode -> token list -> (expr * token list) res **)

and read_arg fuel c strict m toks =
  match fuel with
  | O -> Err OutOfFuel
  | S f ->
    (match group_kind_of_begin c.tcat with
     | Some k -> read_arg_loop f k c.tpos strict m [] toks
     | None -> Err KeyError)

(** val read_arg_loop :
    nat -> groupkind -> z -> bool -> mode -> expr list -> token list ->
    (expr * token list) res **)

and read_arg_loop fuel k pos strict m acc toks =
  match fuel with
  | O -> Err OutOfFuel
  | S f ->
    (match toks with
     | [] ->
       if strict then Err TypeError else Ok ((EGroup (k, acc, pos)), toks)
     | t :: src ->
       if is_group_end k t
       then Ok ((EGroup (k, acc, pos)), src)
       else bind (read_expr f [] strict m toks) (fun pat ->
              let (e, src1) = pat in
              read_arg_loop f k pos strict m (app acc (e :: [])) src1))

(** val read_tex_loop :
    nat -> nat -> str list -> bool -> expr list -> token list -> expr list res **)

let rec read_tex_loop fuel efuel skip strict acc toks =
  match fuel with
  | O -> Err OutOfFuel
  | S f ->
    (match toks with
     | [] -> Ok acc
     | _ :: _ ->
       bind (read_expr efuel skip strict MNonMath toks) (fun pat ->
         let (e, rest) = pat in
         read_tex_loop f efuel skip strict (app acc (e :: [])) rest))

(** val fuel_for : token list -> nat **)

let fuel_for toks =
  add (mul (S (S (S (S O)))) (length toks)) (S (S (S (S (S (S (S (S O))))))))

(** val parse_tokens : token list -> bool -> str list -> expr res **)

let parse_tokens toks strict user_skip =
  bind
    (read_tex_loop (S (length toks)) (fuel_for toks)
      (app Tables.skip_env_names user_skip) strict [] toks) (fun body -> Ok
    (ERoot body))

(** val parse : str -> bool -> str list -> expr res **)

let parse s strict user_skip =
  let (toks, t) = tokens_of_string s in
  (match t with
   | TEnd -> parse_tokens toks strict user_skip
   | _ -> Err TokenizerError)

(** val is_lf : n -> bool **)

let is_lf c =
  N.eqb c (Npos (XO (XI (XO XH))))

(** val line_breaks_from : n list -> z -> z list **)

let rec line_breaks_from src k =
  match src with
  | [] -> []
  | c :: r ->
    if is_lf c
    then k :: (line_breaks_from r (Z.add k (Zpos XH)))
    else line_breaks_from r (Z.add k (Zpos XH))

(** val line_breaks : n list -> z list **)

let line_breaks src =
  line_breaks_from src Z0

(** val bisect_left : z list -> z -> nat **)

let rec bisect_left l x =
  match l with
  | [] -> O
  | y :: r -> if Z.ltb y x then S (bisect_left r x) else bisect_left r x

(** val py_last : z list -> z **)

let py_last l =
  last l Z0

(** val py_nth : z list -> z -> z **)

let py_nth l k =
  nth (Z.to_nat k) l Z0

(** val clo : n list -> z -> z * z **)

let clo src char_pos =
  let lbp = line_breaks src in
  let src_len = Z.of_nat (length src) in
  let line_no = Z.of_nat (bisect_left lbp char_pos) in
  if Z.eqb line_no Z0
  then (line_no, char_pos)
  else if Z.eqb line_no (Z.of_nat (length lbp))
       then let line_start = py_last lbp in
            (line_no,
            (Z.min (Z.sub (Z.sub char_pos line_start) (Zpos XH))
              (Z.sub src_len line_start)))
       else (line_no,
              (Z.sub (Z.sub char_pos (py_nth lbp (Z.sub line_no (Zpos XH))))
                (Zpos XH)))

(** val run_clo : z list -> z list **)

let run_clo = function
| [] -> []
| off :: cs -> let (l, c) = clo (map Z.to_N cs) off in l :: (c :: [])

type exn =
| StopIteration0
| IndexError
| AssertionError0
| AttributeError
| OutOfFuel0

type out =
| OItem of z
| ONone
| OItems of z list
| OBool of bool
| OInt of z
| OExc of exn

type state = { items : z list; mat : nat; cursor : z }

(** val init_state : z list -> state **)

let init_state l =
  { items = l; mat = O; cursor = Z0 }

(** val queue : state -> z list **)

let queue s =
  firstn s.mat s.items

(** val set_cursor : state -> z -> state **)

let set_cursor s c =
  { items = s.items; mat = s.mat; cursor = c }

(** val py_index : z list -> z -> out **)

let py_index l k =
  let m = Z.of_nat (length l) in
  let k' = if Z.ltb k Z0 then Z.add k m else k in
  if (||) (Z.ltb k' Z0) (Z.leb m k')
  then OExc IndexError
  else (match nth_error l (Z.to_nat k') with
        | Some x -> OItem x
        | None -> OExc IndexError)

(** val norm_idx : z -> z option -> z -> z **)

let norm_idx m o dflt =
  match o with
  | Some k -> if Z.ltb k Z0 then Z.max (Z.add k m) Z0 else Z.min k m
  | None -> dflt

(** val py_slice : z list -> z option -> z option -> z list **)

let py_slice l lo hi =
  let m = Z.of_nat (length l) in
  let a = norm_idx m lo Z0 in
  let b = norm_idx m hi m in
  firstn (Z.to_nat (Z.sub b a)) (skipn (Z.to_nat a) l)

(** val next_raw : state -> state * out **)

let next_raw s =
  let n0 = length s.items in
  let i = s.cursor in
  if Z.ltb i (Z.of_nat s.mat)
  then ({ items = s.items; mat = s.mat; cursor = (Z.add i (Zpos XH)) },
         (py_index (queue s) i))
  else if Z.leb (Z.add i (Zpos XH)) (Z.of_nat n0)
       then let s' = { items = s.items; mat = (Z.to_nat (Z.add i (Zpos XH)));
              cursor = (Z.add i (Zpos XH)) }
            in
            (s', (py_index (queue s') i))
       else ({ items = s.items; mat = n0; cursor = i }, (OExc StopIteration0))

(** val bound_ok : z -> z option -> bool **)

let bound_ok c = function
| Some j0 -> Z.leb c j0
| None -> true

(** val advance : nat -> state -> z option -> state * exn option **)

let rec advance fuel s j =
  if bound_ok s.cursor j
  then (match fuel with
        | O -> (s, (Some OutOfFuel0))
        | S f ->
          let (s', o) = next_raw s in
          (match o with
           | OExc e ->
             (match e with
              | StopIteration0 -> (s', None)
              | _ -> (s', (Some e)))
           | _ -> advance f s' j))
  else (s, None)

(** val advance_fuel : state -> nat **)

let advance_fuel s =
  add (S (length s.items)) (Z.to_nat (Z.opp s.cursor))

(** val getitem_int : state -> z -> state * out **)

let getitem_int s k =
  let old = s.cursor in
  let (s1, o) = advance (advance_fuel s) s (Some k) in
  (match o with
   | Some e -> (s1, (OExc e))
   | None -> let s2 = set_cursor s1 old in (s2, (py_index (queue s2) k)))

(** val getitem_slice : state -> z option -> z option -> state * out **)

let getitem_slice s lo hi =
  let old = s.cursor in
  let (s1, o) = advance (advance_fuel s) s hi in
  (match o with
   | Some e -> (s1, (OExc e))
   | None ->
     let s2 = set_cursor s1 old in (s2, (OItems (py_slice (queue s2) lo hi))))

(** val catch_index : (state * out) -> state * out **)

let catch_index r = match r with
| (s, o) ->
  (match o with
   | OExc e -> (match e with
                | IndexError -> (s, ONone)
                | _ -> r)
   | _ -> r)

(** val peek_int : state -> z -> state * out **)

let peek_int s j =
  catch_index (getitem_int s (Z.add s.cursor j))

(** val peek_range : state -> z -> z -> state * out **)

let peek_range s a b =
  catch_index
    (getitem_slice s (Some (Z.add s.cursor a)) (Some (Z.add s.cursor b)))

(** val truthy : out -> bool **)

let truthy = function
| OItem _ -> true
| OItems l -> (match l with
               | [] -> false
               | _ :: _ -> true)
| OBool b -> b
| OInt z0 -> negb (Z.eqb z0 Z0)
| _ -> false

(** val has_next : state -> z -> state * out **)

let has_next s n0 =
  let (s', o) = peek_int s (Z.sub n0 (Zpos XH)) in
  (match o with
   | OExc e -> (s', (OExc e))
   | _ -> (s', (OBool (truthy o))))

(** val forward_pos : state -> z -> state * out **)

let forward_pos s j =
  let s1 = set_cursor s (Z.add s.cursor j) in
  getitem_slice s1 (Some (Z.sub s1.cursor j)) (Some s1.cursor)

(** val backward_pos : state -> z -> state * out **)

let backward_pos s j =
  if Z.ltb (Z.sub s.cursor j) Z0
  then (s, (OExc AssertionError0))
  else let s1 = set_cursor s (Z.sub s.cursor j) in
       getitem_slice s1 (Some s1.cursor) (Some (Z.add s1.cursor j))

(** val forward : state -> z -> state * out **)

let forward s j =
  if Z.ltb j Z0 then backward_pos s (Z.opp j) else forward_pos s j

(** val backward : state -> z -> state * out **)

let backward s j =
  if Z.ltb j Z0 then forward_pos s (Z.opp j) else backward_pos s j

(** val is_prefix : z list -> z list -> bool **)

let rec is_prefix p l =
  match p with
  | [] -> true
  | x :: p' ->
    (match l with
     | [] -> false
     | y :: l' -> (&&) (Z.eqb x y) (is_prefix p' l'))

(** val is_suffix : z list -> z list -> bool **)

let is_suffix p l =
  is_prefix (rev p) (rev l)

(** val starts_with0 : state -> z list -> state * out **)

let starts_with0 s p =
  let (s', o) = peek_range s Z0 (Z.of_nat (length p)) in
  (match o with
   | OItems l -> (s', (OBool (is_prefix p l)))
   | OExc e -> (s', (OExc e))
   | _ -> (s', (OExc AttributeError)))

(** val ends_with : state -> z list -> state * out **)

let ends_with s p =
  let (s', o) = peek_range s (Z.opp (Z.of_nat (length p))) Z0 in
  (match o with
   | OItems l -> (s', (OBool (is_suffix p l)))
   | OExc e -> (s', (OExc e))
   | _ -> (s', (OExc AttributeError)))

(** val pred0 : z -> z -> bool **)

let pred0 k x =
  if Z.leb Z0 k then Z.eqb x k else negb (Z.eqb x (Z.opp k))

(** val pred_none : z -> bool **)

let pred_none k =
  Z.ltb k Z0

(** val cond_holds : z -> out -> bool **)

let cond_holds k = function
| OItem x -> pred0 k x
| _ -> pred_none k

(** val scan :
    nat -> state -> z -> z list -> z -> ((state * exn option) * z list) * z **)

let rec scan fuel s k acc cnt =
  match fuel with
  | O -> (((s, (Some OutOfFuel0)), acc), cnt)
  | S f ->
    let (s1, o) = has_next s (Zpos XH) in
    (match o with
     | OBool b ->
       if b
       then let (s2, pk) = peek_int s1 Z0 in
            (match pk with
             | OExc e -> (((s2, (Some e)), acc), cnt)
             | _ ->
               if cond_holds k pk
               then (((s2, None), acc), cnt)
               else let (s3, o0) = forward s2 (Zpos XH) in
                    (match o0 with
                     | OItems l ->
                       scan f s3 k (app acc l) (Z.add cnt (Zpos XH))
                     | OExc e -> (((s3, (Some e)), acc), cnt)
                     | _ -> (((s3, (Some AttributeError)), acc), cnt)))
       else (((s1, None), acc), cnt)
     | OExc e -> (((s1, (Some e)), acc), cnt)
     | _ ->
       let (s2, pk) = peek_int s1 Z0 in
       (match pk with
        | OExc e -> (((s2, (Some e)), acc), cnt)
        | _ ->
          if cond_holds k pk
          then (((s2, None), acc), cnt)
          else let (s3, o0) = forward s2 (Zpos XH) in
               (match o0 with
                | OItems l -> scan f s3 k (app acc l) (Z.add cnt (Zpos XH))
                | OExc e -> (((s3, (Some e)), acc), cnt)
                | _ -> (((s3, (Some AttributeError)), acc), cnt))))

(** val scan_fuel : state -> nat **)

let scan_fuel s =
  S (S (length s.items))

(** val forward_until : state -> z -> state * out **)

let forward_until s k =
  let (s0, o) = peek_int s Z0 in
  (match o with
   | OExc e -> (s0, (OExc e))
   | _ ->
     let (p, _) = scan (scan_fuel s0) s0 k [] Z0 in
     let (p0, acc) = p in
     let (s1, o0) = p0 in
     (match o0 with
      | Some e -> (s1, (OExc e))
      | None -> (s1, (OItems acc))))

(** val list_eqb : z list -> z list -> bool **)

let rec list_eqb a b =
  match a with
  | [] -> (match b with
           | [] -> true
           | _ :: _ -> false)
  | x :: a' ->
    (match b with
     | [] -> false
     | y :: b' -> (&&) (Z.eqb x y) (list_eqb a' b'))

(** val num_forward_until : state -> z -> state * out **)

let num_forward_until s k =
  let (p, cnt) = scan (scan_fuel s) s k [] Z0 in
  let (p0, acc) = p in
  let (s1, o) = p0 in
  (match o with
   | Some e -> (s1, (OExc e))
   | None ->
     let (s2, o0) = backward s1 cnt in
     (match o0 with
      | OItems l ->
        if list_eqb l acc
        then (s2, (OInt cnt))
        else (s2, (OExc AssertionError0))
      | OExc e -> (s2, (OExc e))
      | _ -> (s2, (OExc AssertionError0))))

type op =
| Next
| HasNext of z
| Peek of z
| PeekR of z * z
| Forward of z
| Backward of z
| Slice of z option * z option
| Getitem of z
| Startswith of z list
| Endswith of z list
| ForwardUntil of z
| NumForwardUntil of z
| Position

(** val step : state -> op -> state * out **)

let step s = function
| Next -> next_raw s
| HasNext n0 -> has_next s n0
| Peek j -> peek_int s j
| PeekR (a, b) -> peek_range s a b
| Forward j -> forward s j
| Backward j -> backward s j
| Slice (lo, hi) -> getitem_slice s lo hi
| Getitem k -> getitem_int s k
| Startswith p -> starts_with0 s p
| Endswith p -> ends_with s p
| ForwardUntil k -> forward_until s k
| NumForwardUntil k -> num_forward_until s k
| Position -> (s, (OInt s.cursor))

(** val opt_of : z -> z -> z option **)

let opt_of flag v =
  if Z.eqb flag Z0 then None else Some v

(** val decode_ops : nat -> z list -> op list **)

let rec decode_ops fuel l =
  match fuel with
  | O -> []
  | S f ->
    (match l with
     | [] -> []
     | z0 :: r ->
       (match z0 with
        | Z0 -> Next :: (decode_ops f r)
        | Zpos p ->
          (match p with
           | XI p0 ->
             (match p0 with
              | XI p1 ->
                (match p1 with
                 | XI _ -> []
                 | XO p2 ->
                   (match p2 with
                    | XH ->
                      (match r with
                       | [] -> []
                       | k :: r0 -> (NumForwardUntil k) :: (decode_ops f r0))
                    | _ -> [])
                 | XH ->
                   (match r with
                    | [] -> []
                    | k :: r0 -> (Getitem k) :: (decode_ops f r0)))
              | XO p1 ->
                (match p1 with
                 | XI _ -> []
                 | XO p2 ->
                   (match p2 with
                    | XH ->
                      (match r with
                       | [] -> []
                       | m :: r0 ->
                         (Endswith
                           (firstn (Z.to_nat m) r0)) :: (decode_ops f
                                                          (skipn (Z.to_nat m)
                                                            r0)))
                    | _ -> [])
                 | XH ->
                   (match r with
                    | [] -> []
                    | j :: r0 -> (Backward j) :: (decode_ops f r0)))
              | XH ->
                (match r with
                 | [] -> []
                 | a :: l0 ->
                   (match l0 with
                    | [] -> []
                    | b :: r0 -> (PeekR (a, b)) :: (decode_ops f r0))))
           | XO p0 ->
             (match p0 with
              | XI p1 ->
                (match p1 with
                 | XI _ -> []
                 | XO p2 ->
                   (match p2 with
                    | XH ->
                      (match r with
                       | [] -> []
                       | k :: r0 -> (ForwardUntil k) :: (decode_ops f r0))
                    | _ -> [])
                 | XH ->
                   (match r with
                    | [] -> []
                    | fl :: l0 ->
                      (match l0 with
                       | [] -> []
                       | lo :: l1 ->
                         (match l1 with
                          | [] -> []
                          | fh :: l2 ->
                            (match l2 with
                             | [] -> []
                             | hi :: r0 ->
                               (Slice ((opt_of fl lo),
                                 (opt_of fh hi))) :: (decode_ops f r0))))))
              | XO p1 ->
                (match p1 with
                 | XI p2 ->
                   (match p2 with
                    | XH -> Position :: (decode_ops f r)
                    | _ -> [])
                 | XO p2 ->
                   (match p2 with
                    | XH ->
                      (match r with
                       | [] -> []
                       | m :: r0 ->
                         (Startswith
                           (firstn (Z.to_nat m) r0)) :: (decode_ops f
                                                          (skipn (Z.to_nat m)
                                                            r0)))
                    | _ -> [])
                 | XH ->
                   (match r with
                    | [] -> []
                    | j :: r0 -> (Forward j) :: (decode_ops f r0)))
              | XH ->
                (match r with
                 | [] -> []
                 | j :: r0 -> (Peek j) :: (decode_ops f r0)))
           | XH ->
             (match r with
              | [] -> []
              | n0 :: r0 -> (HasNext n0) :: (decode_ops f r0)))
        | Zneg _ -> []))

(** val exn_code : exn -> z **)

let exn_code = function
| StopIteration0 -> Zpos XH
| IndexError -> Zpos (XO XH)
| AssertionError0 -> Zpos (XI XH)
| AttributeError -> Zpos (XO (XO XH))
| OutOfFuel0 -> Zpos (XI (XO XH))

(** val encode_out : out -> z list **)

let encode_out = function
| OItem x -> (Zpos XH) :: (x :: [])
| ONone -> (Zpos (XO XH)) :: []
| OItems l -> (Zpos (XI XH)) :: ((Z.of_nat (length l)) :: l)
| OBool b -> (Zpos (XO (XO XH))) :: ((if b then Zpos XH else Z0) :: [])
| OInt z0 -> (Zpos (XI (XO XH))) :: (z0 :: [])
| OExc e -> (Zpos (XO (XI XH))) :: ((exn_code e) :: [])

(** val run_enc : state -> op list -> z list **)

let rec run_enc s = function
| [] -> []
| o :: r ->
  let (s', x) = step s o in
  app (encode_out x)
    (app (s'.cursor :: ((Z.of_nat s'.mat) :: [])) (run_enc s' r))

(** val run_buf : z list -> z list **)

let run_buf = function
| [] -> []
| n0 :: r ->
  let its = firstn (Z.to_nat n0) r in
  let code = skipn (Z.to_nat n0) r in
  run_enc (init_state its) (decode_ops (length code) code)

type pstr = z list

(** val pstr_eqb : pstr -> pstr -> bool **)

let rec pstr_eqb a b =
  match a with
  | [] -> (match b with
           | [] -> true
           | _ :: _ -> false)
  | x :: a' ->
    (match b with
     | [] -> false
     | y :: b' -> (&&) (Z.eqb x y) (pstr_eqb a' b'))

(** val zlen : 'a1 list -> z **)

let zlen l =
  Z.of_nat (length l)

(** val is_space_char : z -> bool **)

let is_space_char c =
  (||)
    ((||)
      ((||)
        ((||)
          ((||)
            ((||)
              ((||)
                ((||)
                  ((||)
                    ((||)
                      ((&&) (Z.leb (Zpos (XI (XO (XO XH)))) c)
                        (Z.leb c (Zpos (XI (XO (XI XH))))))
                      ((&&) (Z.leb (Zpos (XO (XO (XI (XI XH))))) c)
                        (Z.leb c (Zpos (XO (XO (XO (XO (XO XH)))))))))
                    (Z.eqb c (Zpos (XI (XO (XI (XO (XO (XO (XO XH))))))))))
                  (Z.eqb c (Zpos (XO (XO (XO (XO (XO (XI (XO XH))))))))))
                (Z.eqb c (Zpos (XO (XO (XO (XO (XO (XO (XO (XI (XO (XI (XI
                  (XO XH)))))))))))))))
              ((&&)
                (Z.leb (Zpos (XO (XO (XO (XO (XO (XO (XO (XO (XO (XO (XO (XO
                  (XO XH)))))))))))))) c)
                (Z.leb c (Zpos (XO (XI (XO (XI (XO (XO (XO (XO (XO (XO (XO
                  (XO (XO XH)))))))))))))))))
            (Z.eqb c (Zpos (XO (XO (XO (XI (XO (XI (XO (XO (XO (XO (XO (XO
              (XO XH))))))))))))))))
          (Z.eqb c (Zpos (XI (XO (XO (XI (XO (XI (XO (XO (XO (XO (XO (XO (XO
            XH))))))))))))))))
        (Z.eqb c (Zpos (XI (XI (XI (XI (XO (XI (XO (XO (XO (XO (XO (XO (XO
          XH))))))))))))))))
      (Z.eqb c (Zpos (XI (XI (XI (XI (XI (XO (XI (XO (XO (XO (XO (XO (XO
        XH))))))))))))))))
    (Z.eqb c (Zpos (XO (XO (XO (XO (XO (XO (XO (XO (XO (XO (XO (XO (XI
      XH)))))))))))))))

(** val is_space : pstr -> bool **)

let is_space s = match s with
| [] -> false
| _ :: _ -> forallb is_space_char s

(** val starts_with1 : pstr -> pstr -> bool **)

let rec starts_with1 s = function
| [] -> true
| y :: p' ->
  (match s with
   | [] -> false
   | x :: s' -> (&&) (Z.eqb x y) (starts_with1 s' p'))

(** val ends_with0 : pstr -> pstr -> bool **)

let ends_with0 s p =
  starts_with1 (rev s) (rev p)

(** val py_join : pstr list -> pstr **)

let py_join parts =
  fold_left app parts []

(** val norm_insert : z -> z -> z **)

let norm_insert n0 i =
  let i0 = if Z.ltb i Z0 then Z.add i n0 else i in
  if Z.ltb i0 Z0 then Z0 else if Z.ltb n0 i0 then n0 else i0

(** val insert_at : nat -> 'a1 -> 'a1 list -> 'a1 list **)

let rec insert_at k x l =
  match k with
  | O -> x :: l
  | S k' -> (match l with
             | [] -> x :: []
             | y :: t -> y :: (insert_at k' x t))

(** val py_insert : z -> 'a1 -> 'a1 list -> 'a1 list **)

let py_insert i x l =
  insert_at (Z.to_nat (norm_insert (zlen l) i)) x l

(** val py_index0 : ('a1 -> bool) -> 'a1 list -> nat option **)

let rec py_index0 p = function
| [] -> None
| x :: t ->
  if p x then Some O else option_map (fun x0 -> S x0) (py_index0 p t)

(** val py_remove : ('a1 -> bool) -> 'a1 list -> 'a1 list option **)

let rec py_remove p = function
| [] -> None
| x :: t ->
  if p x then Some t else option_map (fun x0 -> x :: x0) (py_remove p t)

(** val pop_at : nat -> 'a1 list -> ('a1 * 'a1 list) option **)

let rec pop_at k = function
| [] -> None
| x :: t ->
  (match k with
   | O -> Some (x, t)
   | S k' ->
     (match pop_at k' t with
      | Some p -> let (y, t') = p in Some (y, (x :: t'))
      | None -> None))

(** val py_pop : z -> 'a1 list -> ('a1 * 'a1 list) option **)

let py_pop i l =
  let n0 = zlen l in
  if Z.eqb n0 Z0
  then None
  else let j = if Z.ltb i Z0 then Z.add i n0 else i in
       if (||) (Z.ltb j Z0) (Z.leb n0 j) then None else pop_at (Z.to_nat j) l

(** val py_getitem : z -> 'a1 list -> 'a1 option **)

let py_getitem i l =
  let n0 = zlen l in
  let j = if Z.ltb i Z0 then Z.add i n0 else i in
  if (||) (Z.ltb j Z0) (Z.leb n0 j) then None else nth_error l (Z.to_nat j)

(** val clamp_index : z -> z -> z **)

let clamp_index n0 v =
  let v0 = if Z.ltb v Z0 then Z.add v n0 else v in
  if Z.ltb v0 Z0 then Z0 else if Z.ltb n0 v0 then n0 else v0

(** val py_slice0 : z option -> z option -> 'a1 list -> 'a1 list **)

let py_slice0 lo hi l =
  let n0 = zlen l in
  let start = match lo with
              | Some v -> clamp_index n0 v
              | None -> Z0 in
  let stop = match hi with
             | Some v -> clamp_index n0 v
             | None -> n0 in
  if Z.ltb start stop
  then firstn (Z.to_nat (Z.sub stop start)) (skipn (Z.to_nat start) l)
  else []

type group = bool * pstr

(** val open_of : bool -> z **)

let open_of = function
| true -> Zpos (XI (XI (XO (XI (XI (XO XH))))))
| false -> Zpos (XI (XI (XO (XI (XI (XI XH))))))

(** val close_of : bool -> z **)

let close_of = function
| true -> Zpos (XI (XO (XI (XI (XI (XO XH))))))
| false -> Zpos (XI (XO (XI (XI (XI (XI XH))))))

(** val render : group -> pstr **)

let render g =
  (open_of (fst g)) :: (app (snd g) ((close_of (fst g)) :: []))

type item =
| IG of group
| IW of pstr

(** val render_item : item -> pstr **)

let render_item = function
| IG g -> render g
| IW s -> s

(** val item_eqb : item -> item -> bool **)

let item_eqb a b =
  pstr_eqb (render_item a) (render_item b)

type arg =
| AG of group
| AS of pstr

(** val parse_kind : bool -> pstr -> group option **)

let parse_kind k s =
  if (&&) (starts_with1 s ((open_of k) :: []))
       (ends_with0 s ((close_of k) :: []))
  then Some (k, (py_slice0 (Some (Zpos XH)) (Some (Zneg XH)) s))
  else None

(** val parse_group : pstr -> group option **)

let parse_group s =
  match parse_kind true s with
  | Some g -> Some g
  | None -> parse_kind false s

(** val coerce : arg -> item option **)

let coerce = function
| AG g -> Some (IG g)
| AS s ->
  if is_space s
  then Some (IW s)
  else (match parse_group s with
        | Some g -> Some (IG g)
        | None -> None)

type state0 = group list * item list

type out0 =
| ONone0
| OVal of item
| OArgs of state0
| OBool0 of bool
| ETypeError
| EValueError
| EIndexError

type op0 =
| OpAppend of arg
| OpExtend of arg list
| OpInsert of z * arg
| OpRemove of arg
| OpPop of z option
| OpReverse
| OpClear
| OpGet of z
| OpSlice of z option * z option
| OpContains of arg

(** val empty_state : state0 **)

let empty_state =
  ([], [])

(** val shadow_insert :
    group list -> item list -> z -> item -> state0 * out0 **)

let shadow_insert lst1 all i it =
  if Z.leb (zlen lst1) (Zpos XH)
  then ((lst1, (app all (it :: []))), ONone0)
  else if Z.eqb i Z0
       then ((lst1, (py_insert Z0 it all)), ONone0)
       else (match py_getitem (Z.sub i (Zpos XH)) lst1 with
             | Some before ->
               (match py_index0 (fun x -> item_eqb x (IG before)) all with
                | Some j ->
                  ((lst1, (py_insert (Z.add (Z.of_nat j) (Zpos XH)) it all)),
                    ONone0)
                | None -> ((lst1, all), EValueError))
             | None -> ((lst1, all), EIndexError))

(** val m_insert : state0 -> z -> arg -> state0 * out0 **)

let m_insert st i a =
  match coerce a with
  | Some it ->
    let (lst, all) = st in
    let n0 = zlen lst in
    let i0 = if Z.ltb i Z0 then Z.max Z0 (Z.add n0 i) else Z.min i n0 in
    let lst1 = match it with
               | IG g -> py_insert i0 g lst
               | IW _ -> lst in
    shadow_insert lst1 all i0 it
  | None -> (st, ETypeError)

(** val m_append : state0 -> arg -> state0 * out0 **)

let m_append st a =
  m_insert st (zlen (fst st)) a

(** val m_extend : state0 -> arg list -> state0 * out0 **)

let rec m_extend st = function
| [] -> (st, ONone0)
| a :: t ->
  let (st1, o) = m_append st a in
  (match o with
   | ONone0 -> m_extend st1 t
   | x -> (st1, x))

(** val m_remove : state0 -> arg -> state0 * out0 **)

let m_remove st a =
  match coerce a with
  | Some it ->
    let (lst, all) = st in
    (match py_remove (fun x -> item_eqb x it) all with
     | Some all1 ->
       (match py_remove (fun g -> item_eqb (IG g) it) lst with
        | Some lst1 -> ((lst1, all1), ONone0)
        | None -> ((lst, all1), EValueError))
     | None -> (st, EValueError))
  | None -> (st, ETypeError)

(** val m_pop : state0 -> z option -> state0 * out0 **)

let m_pop st i =
  let i0 = match i with
           | Some i0 -> i0
           | None -> Zneg XH in
  let (lst, all) = st in
  (match py_pop i0 lst with
   | Some p ->
     let (g, lst1) = p in
     (match py_index0 (fun x -> item_eqb x (IG g)) all with
      | Some j ->
        (match py_pop (Z.of_nat j) all with
         | Some p0 -> let (it, all1) = p0 in ((lst1, all1), (OVal it))
         | None -> ((lst1, all), EIndexError))
      | None -> ((lst1, all), EValueError))
   | None -> (st, EIndexError))

(** val m_new : arg list -> state0 * out0 **)

let m_new l =
  m_extend empty_state l

(** val m_contains : state0 -> arg -> bool **)

let m_contains st = function
| AG g -> existsb (fun x -> item_eqb (IG x) (IG g)) (fst st)
| AS s -> existsb (fun g -> pstr_eqb s (snd g)) (fst st)

(** val m_step : state0 -> op0 -> state0 * out0 **)

let m_step st = function
| OpAppend a -> m_append st a
| OpExtend l -> m_extend st l
| OpInsert (i, a) -> m_insert st i a
| OpRemove a -> m_remove st a
| OpPop i -> m_pop st i
| OpReverse -> (((rev (fst st)), (rev (snd st))), ONone0)
| OpClear -> (empty_state, ONone0)
| OpGet i ->
  (match py_getitem i (fst st) with
   | Some g -> (st, (OVal (IG g)))
   | None -> (st, EIndexError))
| OpSlice (lo, hi) ->
  let (st', e) = m_new (map (fun x -> AG x) (py_slice0 lo hi (fst st))) in
  (match e with
   | ONone0 -> (st, (OArgs st'))
   | _ -> (st, e))
| OpContains a -> (st, (OBool0 (m_contains st a)))

(** val m_str : state0 -> pstr **)

let m_str st =
  py_join (map render (fst st))

(** val m_len : state0 -> z **)

let m_len st =
  zlen (fst st)

(** val m_run : state0 -> op0 list -> (state0 * out0) list **)

let rec m_run st = function
| [] -> []
| o :: t -> let r = m_step st o in r :: (m_run (fst r) t)

(** val take_str : z list -> (pstr * z list) option **)

let take_str = function
| [] -> None
| n0 :: rest ->
  if (||) (Z.ltb n0 Z0) (Z.ltb (zlen rest) n0)
  then None
  else Some ((firstn (Z.to_nat n0) rest), (skipn (Z.to_nat n0) rest))

(** val take_arg : z list -> (arg * z list) option **)

let take_arg = function
| [] -> None
| z0 :: rest ->
  (match z0 with
   | Z0 ->
     (match rest with
      | [] -> None
      | k :: rest0 ->
        (match take_str rest0 with
         | Some p ->
           let (s, rest') = p in Some ((AG ((negb (Z.eqb k Z0)), s)), rest')
         | None -> None))
   | Zpos p ->
     (match p with
      | XH ->
        (match take_str rest with
         | Some p0 -> let (s, rest') = p0 in Some ((AS s), rest')
         | None -> None)
      | _ -> None)
   | Zneg _ -> None)

(** val take_args : nat -> z list -> (arg list * z list) option **)

let rec take_args n0 inp =
  match n0 with
  | O -> Some ([], inp)
  | S n' ->
    (match take_arg inp with
     | Some p ->
       let (a, rest) = p in
       (match take_args n' rest with
        | Some p0 -> let (l, rest') = p0 in Some ((a :: l), rest')
        | None -> None)
     | None -> None)

(** val take_arglist : z list -> (arg list * z list) option **)

let take_arglist = function
| [] -> None
| n0 :: rest -> if Z.ltb n0 Z0 then None else take_args (Z.to_nat n0) rest

(** val take_optz : z list -> (z option * z list) option **)

let take_optz = function
| [] -> None
| z0 :: rest ->
  (match z0 with
   | Z0 -> Some (None, rest)
   | Zpos p ->
     (match p with
      | XH ->
        (match rest with
         | [] -> None
         | v :: rest0 -> Some ((Some v), rest0))
      | _ -> None)
   | Zneg _ -> None)

(** val take_op : z list -> (op0 * z list) option **)

let take_op = function
| [] -> None
| z0 :: rest ->
  (match z0 with
   | Z0 ->
     (match take_arg rest with
      | Some p -> let (a, r) = p in Some ((OpAppend a), r)
      | None -> None)
   | Zpos p ->
     (match p with
      | XI p0 ->
        (match p0 with
         | XI p1 -> (match p1 with
                     | XH -> Some (OpClear, rest)
                     | _ -> None)
         | XO p1 ->
           (match p1 with
            | XI _ -> None
            | XO p2 ->
              (match p2 with
               | XH ->
                 (match take_optz rest with
                  | Some p3 ->
                    let (lo, r) = p3 in
                    (match take_optz r with
                     | Some p4 ->
                       let (hi, r') = p4 in Some ((OpSlice (lo, hi)), r')
                     | None -> None)
                  | None -> None)
               | _ -> None)
            | XH -> Some ((OpPop None), rest))
         | XH ->
           (match take_arg rest with
            | Some p1 -> let (a, r) = p1 in Some ((OpRemove a), r)
            | None -> None))
      | XO p0 ->
        (match p0 with
         | XI p1 ->
           (match p1 with
            | XI _ -> None
            | XO p2 ->
              (match p2 with
               | XH ->
                 (match take_arg rest with
                  | Some p3 -> let (a, r) = p3 in Some ((OpContains a), r)
                  | None -> None)
               | _ -> None)
            | XH -> Some (OpReverse, rest))
         | XO p1 ->
           (match p1 with
            | XI _ -> None
            | XO p2 ->
              (match p2 with
               | XH ->
                 (match rest with
                  | [] -> None
                  | i :: rest0 -> Some ((OpGet i), rest0))
               | _ -> None)
            | XH ->
              (match rest with
               | [] -> None
               | i :: rest0 -> Some ((OpPop (Some i)), rest0)))
         | XH ->
           (match rest with
            | [] -> None
            | i :: rest0 ->
              (match take_arg rest0 with
               | Some p1 -> let (a, r) = p1 in Some ((OpInsert (i, a)), r)
               | None -> None)))
      | XH ->
        (match take_arglist rest with
         | Some p0 -> let (l, r) = p0 in Some ((OpExtend l), r)
         | None -> None))
   | Zneg _ -> None)

(** val take_ops : nat -> z list -> op0 list option **)

let rec take_ops n0 inp =
  match n0 with
  | O -> (match inp with
          | [] -> Some []
          | _ :: _ -> None)
  | S n' ->
    (match take_op inp with
     | Some p ->
       let (o, rest) = p in
       (match take_ops n' rest with
        | Some l -> Some (o :: l)
        | None -> None)
     | None -> None)

(** val enc_str : pstr -> z list **)

let enc_str s =
  (zlen s) :: s

(** val enc_item : item -> z list **)

let enc_item it =
  (match it with
   | IG _ -> Z0
   | IW _ -> Zpos XH) :: (enc_str (render_item it))

(** val enc_state : state0 -> z list **)

let enc_state st =
  app (enc_str (m_str st))
    (app ((m_len st) :: [])
      (app
        ((zlen (fst st)) :: (flat_map (fun g -> enc_str (render g)) (fst st)))
        ((zlen (snd st)) :: (flat_map enc_item (snd st)))))

(** val enc_out : out0 -> z list **)

let enc_out = function
| ONone0 -> Z0 :: []
| OVal it -> (Zpos XH) :: (enc_item it)
| OArgs st -> (Zpos (XO XH)) :: (enc_state st)
| OBool0 b -> (Zpos (XI XH)) :: ((if b then Zpos XH else Z0) :: [])
| ETypeError -> (Zpos (XO (XI (XO XH)))) :: []
| EValueError -> (Zpos (XI (XI (XO XH)))) :: []
| EIndexError -> (Zpos (XO (XO (XI XH)))) :: []

(** val enc_result : (state0 * out0) -> z list **)

let enc_result r =
  app (enc_out (snd r)) (enc_state (fst r))

(** val run_args : z list -> z list **)

let run_args inp =
  match take_arglist inp with
  | Some p ->
    let (init, l) = p in
    (match l with
     | [] -> (Zneg XH) :: []
     | n0 :: rest ->
       if Z.ltb n0 Z0
       then (Zneg XH) :: []
       else (match take_ops (Z.to_nat n0) rest with
             | Some ops ->
               let r0 = m_new init in
               app (enc_result r0) (flat_map enc_result (m_run (fst r0) ops))
             | None -> (Zneg XH) :: []))
  | None -> (Zneg XH) :: []

(** val str_isspace : str -> bool **)

let str_isspace s = match s with
| [] -> false
| _ :: _ -> forallb is_ws s

(** val unwrap : expr -> expr **)

let unwrap e = match e with
| EText t -> ERaw (t.ttext, t.tpos)
| _ -> e

(** val is_blank : expr -> bool **)

let is_blank = function
| EText t -> str_isspace t.ttext
| ERaw (s, _) -> str_isspace s
| EStr s -> str_isspace s
| _ -> false

(** val clean : expr list -> expr list **)

let clean l =
  filter (fun x -> negb (is_blank x)) (map unwrap l)

(** val is_texexpr : expr -> bool **)

let is_texexpr = function
| ERaw (_, _) -> false
| EStr _ -> false
| _ -> true

(** val is_env_or_cmd : expr -> bool **)

let is_env_or_cmd = function
| EText _ -> false
| ERaw (_, _) -> false
| EStr _ -> false
| _ -> true

(** val is_strlike : expr -> bool **)

let is_strlike = function
| EText _ -> true
| ERaw (_, _) -> true
| EStr _ -> true
| _ -> false

(** val expr_contents : expr -> expr list **)

let rec expr_contents e =
  let over_args =
    let rec over_args = function
    | [] -> []
    | a :: l' -> app (expr_contents a) (over_args l')
    in over_args
  in
  (match e with
   | EText t -> clean ((ERaw (t.ttext, t.tpos)) :: [])
   | ECmd (_, a, b, _) -> clean (app (over_args a) b)
   | ENamed (_, a, b, _) -> clean (app (over_args a) b)
   | EMath (_, b, _) -> clean b
   | EGroup (_, b, _) -> clean b
   | ERoot b -> clean b
   | _ -> [])

(** val expr_all : expr -> expr list **)

let expr_all = function
| EText t -> (ERaw (t.ttext, t.tpos)) :: []
| ECmd (_, a, b, _) -> app (flat_map expr_contents a) b
| ENamed (_, a, b, _) -> app (flat_map expr_contents a) b
| EMath (_, b, _) -> b
| EGroup (_, b, _) -> b
| ERoot b -> b
| _ -> []

(** val edepth : expr -> nat **)

let rec edepth e =
  let mx =
    let rec mx = function
    | [] -> O
    | x :: l' -> Nat.max (edepth x) (mx l')
    in mx
  in
  (match e with
   | ECmd (_, a, b, _) -> S (Nat.max (mx a) (mx b))
   | ENamed (_, a, b, _) -> S (Nat.max (mx a) (mx b))
   | EMath (_, b, _) -> S (mx b)
   | EGroup (_, b, _) -> S (mx b)
   | ERoot b -> S (mx b)
   | _ -> O)

type path = nat list

type item0 = path * expr

(** val wrap_from : path -> nat -> expr list -> item0 list **)

let rec wrap_from p i = function
| [] -> []
| x :: l' -> ((app p (i :: [])), x) :: (wrap_from p (S i) l')

(** val contents : item0 -> item0 list **)

let contents n0 =
  wrap_from (fst n0) O (expr_contents (snd n0))

(** val children : item0 -> item0 list **)

let children n0 =
  filter (fun it -> is_env_or_cmd (snd it)) (contents n0)

(** val node_all : item0 -> expr list option **)

let node_all n0 =
  if forallb is_texexpr (expr_all (snd n0))
  then Some (expr_all (snd n0))
  else None

(** val parent_path : path -> path **)

let parent_path =
  removelast

(** val node_getitem : item0 -> z -> item0 option **)

let node_getitem n0 i =
  let l = contents n0 in
  let len = Z.of_nat (length l) in
  let j = if Z.ltb i Z0 then Z.add i len else i in
  if Z.ltb j Z0 then None else nth_error l (Z.to_nat j)

(** val descendants_f : nat -> item0 -> item0 list **)

let rec descendants_f fuel n0 =
  match fuel with
  | O -> []
  | S f -> app (contents n0) (flat_map (descendants_f f) (children n0))

(** val descendants : item0 -> item0 list **)

let descendants n0 =
  descendants_f (S (edepth (snd n0))) n0

(** val text_f : nat -> item0 -> item0 list **)

let rec text_f fuel n0 =
  match fuel with
  | O -> []
  | S f ->
    flat_map (fun it ->
      if is_strlike (snd it) then it :: [] else text_f f it) (contents n0)

(** val text : item0 -> item0 list **)

let text n0 =
  text_f (S (edepth (snd n0))) n0

type query =
| QName of str
| QList of str list

(** val c_lbrace : n **)

let c_lbrace =
  Npos (XI (XI (XO (XI (XI (XI XH))))))

(** val c_lbracket : n **)

let c_lbracket =
  Npos (XI (XI (XO (XI (XI (XO XH))))))

(** val s_text : str **)

let s_text =
  (Npos (XO (XO (XI (XO (XI (XI XH))))))) :: ((Npos (XI (XO (XI (XO (XO (XI
    XH))))))) :: ((Npos (XO (XO (XO (XI (XI (XI XH))))))) :: ((Npos (XO (XO
    (XI (XO (XI (XI XH))))))) :: [])))

(** val s_roottex : str **)

let s_roottex =
  (Npos (XI (XI (XO (XI (XI (XO XH))))))) :: ((Npos (XO (XO (XI (XO (XI (XI
    XH))))))) :: ((Npos (XI (XO (XI (XO (XO (XI XH))))))) :: ((Npos (XO (XO
    (XO (XI (XI (XI XH))))))) :: ((Npos (XI (XO (XI (XI (XI (XO
    XH))))))) :: []))))

(** val expr_name : expr -> str **)

let expr_name = function
| EText _ -> s_text
| ECmd (n0, _, _, _) -> n0
| ENamed (n0, _, _, _) -> n0
| EMath (k, _, _) -> math_name k
| EGroup (k, _, _) -> group_name k
| ERoot _ -> s_roottex
| _ -> []

(** val expr_begin : expr -> str **)

let expr_begin = function
| ENamed (n0, _, _, _) -> env_begin n0
| EMath (k, _, _) -> math_begin k
| EGroup (k, _, _) -> group_begin k
| _ -> []

(** val expr_end : expr -> str **)

let expr_end = function
| ENamed (n0, _, _, _) -> env_end n0
| EMath (k, _, _) -> math_end k
| EGroup (k, _, _) -> group_end k
| _ -> []

(** val expr_args : expr -> expr list **)

let expr_args = function
| ECmd (_, a, _, _) -> a
| ENamed (_, a, _, _) -> a
| _ -> []

(** val expr_begin_args : expr -> str **)

let expr_begin_args e =
  app (expr_begin e) (estr_list (expr_args e))

(** val query_has_brace : query -> bool **)

let query_has_brace = function
| QName s -> (||) (mem_N c_lbrace s) (mem_N c_lbracket s)
| QList l -> (||) (mem_str (c_lbrace :: []) l) (mem_str (c_lbracket :: []) l)

(** val texexpr_match : query -> expr -> bool **)

let texexpr_match q e =
  if query_has_brace q
  then (match q with
        | QName s -> str_eqb (estr e) s
        | QList _ -> false)
  else (match q with
        | QName s -> str_eqb (expr_name e) s
        | QList l -> mem_str (expr_name e) l)

(** val texenv_match : query -> expr -> bool **)

let texenv_match q e =
  match q with
  | QName s ->
    if (||)
         ((||)
           ((||) (str_eqb s (expr_name e)) (str_eqb s (expr_begin_args e)))
           (str_eqb s (expr_begin e))) (str_eqb s (expr_end e))
    then true
    else texexpr_match q e
  | QList _ -> texexpr_match q e

(** val match_item : query -> expr -> bool **)

let match_item q e = match e with
| EText _ -> texexpr_match q e
| ERaw (_, _) -> false
| EStr _ -> false
| ECmd (_, _, _, _) -> texexpr_match q e
| _ -> texenv_match q e

(** val find_all : query -> item0 -> item0 list **)

let find_all q n0 =
  filter (fun it -> match_item q (snd it)) (descendants n0)

(** val find0 : query -> item0 -> item0 option **)

let find0 q n0 =
  match find_all q n0 with
  | [] -> None
  | x :: _ -> Some x

(** val count : query -> item0 -> nat **)

let count q n0 =
  length (find_all q n0)

(** val instance_attrs : str list **)

let instance_attrs =
  ((Npos (XI (XO (XI (XO (XO (XI XH))))))) :: ((Npos (XO (XO (XO (XI (XI (XI
    XH))))))) :: ((Npos (XO (XO (XO (XO (XI (XI XH))))))) :: ((Npos (XO (XI
    (XO (XO (XI (XI XH))))))) :: [])))) :: (((Npos (XO (XO (XO (XO (XI (XI
    XH))))))) :: ((Npos (XI (XO (XO (XO (XO (XI XH))))))) :: ((Npos (XO (XI
    (XO (XO (XI (XI XH))))))) :: ((Npos (XI (XO (XI (XO (XO (XI
    XH))))))) :: ((Npos (XO (XI (XI (XI (XO (XI XH))))))) :: ((Npos (XO (XO
    (XI (XO (XI (XI XH))))))) :: [])))))) :: (((Npos (XI (XI (XO (XO (XO (XI
    XH))))))) :: ((Npos (XO (XO (XO (XI (XO (XI XH))))))) :: ((Npos (XI (XO
    (XO (XO (XO (XI XH))))))) :: ((Npos (XO (XI (XO (XO (XI (XI
    XH))))))) :: ((Npos (XI (XI (XI (XI (XI (XO XH))))))) :: ((Npos (XO (XO
    (XI (XO (XI (XI XH))))))) :: ((Npos (XI (XI (XI (XI (XO (XI
    XH))))))) :: ((Npos (XI (XI (XI (XI (XI (XO XH))))))) :: ((Npos (XO (XO
    (XI (XI (XO (XI XH))))))) :: ((Npos (XI (XO (XO (XI (XO (XI
    XH))))))) :: ((Npos (XO (XI (XI (XI (XO (XI XH))))))) :: ((Npos (XI (XO
    (XI (XO (XO (XI XH))))))) :: [])))))))))))) :: []))

(** val is_real_attr : str -> bool **)

let is_real_attr a =
  (||) (mem_str a Tables.dir_texnode) (mem_str a instance_attrs)

type attr_result =
| AReal
| AFound of item0 option

(** val getattr : str -> item0 -> attr_result **)

let getattr a n0 =
  if is_real_attr a then AReal else AFound (find0 (QName a) n0)

(** val enc_str0 : str -> z list **)

let enc_str0 s =
  (Z.of_nat (length s)) :: (map Z.of_N s)

(** val enc_path : path -> z list **)

let enc_path p =
  (Z.of_nat (length p)) :: (map Z.of_nat p)

(** val class_code : expr -> z **)

let class_code = function
| EText _ -> Z0
| ERaw (_, _) -> Zpos XH
| EStr _ -> Zpos (XO XH)
| ECmd (_, _, _, _) -> Zpos (XI XH)
| ENamed (_, _, _, _) -> Zpos (XO (XO XH))
| EMath (k, _, _) ->
  (match k with
   | MInline -> Zpos (XI (XO XH))
   | MDisplay -> Zpos (XO (XI XH))
   | MParen -> Zpos (XI (XI XH))
   | MBracket -> Zpos (XO (XO (XO XH))))
| EGroup (k, _, _) ->
  (match k with
   | GBrace -> Zpos (XI (XO (XO XH)))
   | GBracket -> Zpos (XO (XI (XO XH))))
| ERoot _ -> Zpos (XI (XI (XO XH)))

(** val epos : expr -> z **)

let epos = function
| EText t -> t.tpos
| ERaw (_, p) -> p
| EStr _ -> Z0
| ECmd (_, _, _, p) -> p
| ENamed (_, _, _, p) -> p
| EMath (_, _, p) -> p
| EGroup (_, _, p) -> p
| ERoot _ -> Zneg XH

(** val enc_expr : expr -> z list **)

let enc_expr e =
  (class_code e) :: ((epos e) :: (enc_str0 (estr e)))

(** val enc_item0 : item0 -> z list **)

let enc_item0 it =
  if is_texexpr (snd it)
  then (class_code (snd it)) :: ((epos (snd it)) :: (app (enc_path (fst it))
                                                      (app
                                                        (enc_path
                                                          (parent_path
                                                            (fst it)))
                                                        (enc_str0
                                                          (estr (snd it))))))
  else enc_expr (snd it)

(** val enc_list : ('a1 -> z list) -> 'a1 list -> z list **)

let enc_list f l =
  (Z.of_nat (length l)) :: (flat_map f l)

(** val enc_opt_item : item0 option -> z list **)

let enc_opt_item = function
| Some it -> (Zpos XH) :: (enc_item0 it)
| None -> Z0 :: []

(** val enc_query : item0 -> query -> z list **)

let enc_query n0 q =
  app ((Zneg (XO (XI (XO (XO (XI (XI (XI (XI (XI
    XH)))))))))) :: (enc_list (fun it -> enc_path (fst it)) (find_all q n0)))
    (app (enc_opt_item (find0 q n0))
      (app ((Z.of_nat (count q n0)) :: [])
        (match q with
         | QName s ->
           (match getattr s n0 with
            | AReal -> (Zpos (XO XH)) :: []
            | AFound o -> enc_opt_item o)
         | QList _ -> (Zpos (XI XH)) :: [])))

(** val enc_node : query list -> item0 -> z list **)

let enc_node qs n0 =
  app ((Zneg (XO (XI (XO (XI (XO (XI (XI (XI (XI
    XH)))))))))) :: (enc_path (fst n0)))
    (app ((class_code (snd n0)) :: ((epos (snd n0)) :: []))
      (app (enc_str0 (expr_name (snd n0)))
        (app (enc_str0 (estr (snd n0)))
          (app ((Zneg (XI (XI (XO (XI (XO (XI (XI (XI (XI
            XH)))))))))) :: (enc_list enc_expr (expr_all (snd n0))))
            (app ((Zneg (XO (XO (XI (XI (XO (XI (XI (XI (XI
              XH)))))))))) :: ((match node_all n0 with
                                | Some _ -> Zpos XH
                                | None -> Z0) :: []))
              (app ((Zneg (XI (XO (XI (XI (XO (XI (XI (XI (XI
                XH)))))))))) :: (enc_list enc_item0 (contents n0)))
                (app ((Zneg (XO (XI (XI (XI (XO (XI (XI (XI (XI
                  XH)))))))))) :: (enc_list enc_item0 (children n0)))
                  (app ((Zneg (XI (XI (XI (XI (XO (XI (XI (XI (XI
                    XH)))))))))) :: (enc_list enc_item0 (descendants n0)))
                    (app ((Zneg (XO (XO (XO (XO (XI (XI (XI (XI (XI
                      XH)))))))))) :: (enc_list enc_item0 (text n0)))
                      (app ((Zneg (XI (XO (XO (XO (XI (XI (XI (XI (XI
                        XH)))))))))) :: (app
                                          (enc_opt_item (node_getitem n0 Z0))
                                          (app
                                            (enc_opt_item
                                              (node_getitem n0 (Zneg XH)))
                                            (app
                                              (enc_opt_item
                                                (node_getitem n0 (Zpos XH)))
                                              (enc_opt_item
                                                (node_getitem n0 (Zneg (XO
                                                  XH))))))))
                        (flat_map (enc_query n0) qs)))))))))))

(** val err_code : err -> z **)

let err_code = function
| EOFError -> Zpos XH
| TypeError -> Zpos (XO XH)
| AssertionError -> Zpos (XI XH)
| StopIteration -> Zpos (XO (XO XH))
| KeyError -> Zpos (XI (XO XH))
| TokenizerError -> Zpos (XO (XI XH))
| OutOfFuel -> Zpos (XI (XI XH))

(** val take_str0 : z list -> str * z list **)

let take_str0 = function
| [] -> ([], [])
| k :: l' -> ((map Z.to_N (firstn (Z.to_nat k) l')), (skipn (Z.to_nat k) l'))

(** val take_strs : nat -> z list -> str list * z list **)

let rec take_strs k l =
  match k with
  | O -> ([], l)
  | S k' ->
    let (s, l1) = take_str0 l in
    let (ss, l2) = take_strs k' l1 in ((s :: ss), l2)

(** val take_queries : nat -> z list -> query list * z list **)

let rec take_queries k l =
  match k with
  | O -> ([], l)
  | S k' ->
    (match l with
     | [] -> ([], [])
     | kind :: l0 ->
       if Z.eqb kind Z0
       then let (s, r) = take_str0 l0 in
            let q = QName s in
            let (qs, l2) = take_queries k' r in ((q :: qs), l2)
       else (match l0 with
             | [] ->
               let q = QList [] in
               let l1 = [] in
               let (qs, l2) = take_queries k' l1 in ((q :: qs), l2)
             | m :: l0' ->
               let (ss, r) = take_strs (Z.to_nat m) l0' in
               let q = QList ss in
               let (qs, l2) = take_queries k' r in ((q :: qs), l2)))

(** val view_of_tree : query list -> expr -> z list **)

let view_of_tree qs e =
  let root = ([], e) in
  flat_map (enc_node qs)
    (root :: (filter (fun it -> is_texexpr (snd it)) (descendants root)))

(** val run_view : z list -> z list **)

let run_view = function
| [] -> (Zneg (XO XH)) :: []
| strict :: l ->
  (match l with
   | [] -> (Zneg (XO XH)) :: []
   | nq :: rest ->
     let (qs, src) = take_queries (Z.to_nat nq) rest in
     (match parse (map Z.to_N src) (negb (Z.eqb strict Z0)) [] with
      | Ok e -> view_of_tree qs e
      | Err er -> (Zneg XH) :: ((err_code er) :: [])))

type eerr =
| ETypeError0
| EValueError0
| EAssertionError
| EIndexError0
| EBadCase

type 'a outcome =
| Done of 'a
| Raise of eerr
| Partial of eerr * 'a

(** val obind : 'a1 outcome -> ('a1 -> 'a2 outcome) -> 'a2 outcome **)

let obind r f =
  match r with
  | Done a -> f a
  | Raise e -> Raise e
  | Partial (e, _) -> Raise e

type step0 =
| SArg of nat
| SBody of nat

type path0 = step0 list

(** val step_eqb : step0 -> step0 -> bool **)

let step_eqb a b =
  match a with
  | SArg i -> (match b with
               | SArg j -> Nat.eqb i j
               | SBody _ -> false)
  | SBody i -> (match b with
                | SArg _ -> false
                | SBody j -> Nat.eqb i j)

(** val path_eqb : path0 -> path0 -> bool **)

let rec path_eqb p q =
  match p with
  | [] -> (match q with
           | [] -> true
           | _ :: _ -> false)
  | a :: p' ->
    (match q with
     | [] -> false
     | b :: q' -> (&&) (step_eqb a b) (path_eqb p' q'))

(** val is_node : expr -> bool **)

let is_node = function
| EText _ -> false
| ERaw (_, _) -> false
| EStr _ -> false
| _ -> true

(** val args_of : expr -> expr list **)

let args_of = function
| ECmd (_, a, _, _) -> a
| ENamed (_, a, _, _) -> a
| _ -> []

(** val body_of : expr -> expr list **)

let body_of = function
| ECmd (_, _, b, _) -> b
| ENamed (_, _, b, _) -> b
| EMath (_, b, _) -> b
| EGroup (_, b, _) -> b
| ERoot b -> b
| _ -> []

(** val set_body : expr -> expr list -> expr **)

let set_body e b =
  match e with
  | ECmd (n0, a, _, p) -> ECmd (n0, a, b, p)
  | ENamed (n0, a, _, p) -> ENamed (n0, a, b, p)
  | EMath (k, _, p) -> EMath (k, b, p)
  | EGroup (k, _, p) -> EGroup (k, b, p)
  | ERoot _ -> ERoot b
  | _ -> e

(** val set_args_of : expr -> expr list -> expr **)

let set_args_of e a =
  match e with
  | ECmd (n0, _, b, p) -> ECmd (n0, a, b, p)
  | ENamed (n0, _, b, p) -> ENamed (n0, a, b, p)
  | _ -> e

(** val subst_nth : nat -> 'a1 -> 'a1 list -> 'a1 list **)

let subst_nth i x l =
  app (firstn i l) (x :: (skipn (S i) l))

(** val splice : nat -> nat -> 'a1 list -> 'a1 list -> 'a1 list **)

let splice i k new0 l =
  app (firstn i l) (app new0 (skipn (add i k) l))

(** val child : expr -> step0 -> expr option **)

let child e = function
| SArg i -> nth_error (args_of e) i
| SBody i -> nth_error (body_of e) i

(** val set_child : expr -> step0 -> expr -> expr **)

let set_child e s c =
  match s with
  | SArg i -> set_args_of e (subst_nth i c (args_of e))
  | SBody i -> set_body e (subst_nth i c (body_of e))

(** val get : expr -> path0 -> expr option **)

let rec get e = function
| [] -> Some e
| s :: p' -> (match child e s with
              | Some c -> get c p'
              | None -> None)

(** val put : expr -> path0 -> expr -> expr option **)

let rec put e p x =
  match p with
  | [] -> Some x
  | s :: p' ->
    (match child e s with
     | Some c ->
       (match put c p' x with
        | Some c' -> Some (set_child e s c')
        | None -> None)
     | None -> None)

(** val put_o : expr -> path0 -> expr -> expr outcome **)

let put_o root p x =
  match put root p x with
  | Some r -> Done r
  | None -> Raise EBadCase

(** val is_ws_str : str -> bool **)

let is_ws_str s = match s with
| [] -> false
| _ :: _ -> forallb is_ws s

(** val is_ws_item : expr -> bool **)

let is_ws_item = function
| EText t -> is_ws_str t.ttext
| ERaw (s, _) -> is_ws_str s
| EStr s -> is_ws_str s
| _ -> false

(** val number_from : nat -> 'a1 list -> (nat * 'a1) list **)

let rec number_from k = function
| [] -> []
| x :: l' -> (k, x) :: (number_from (S k) l')

(** val cview : expr -> ((path0 * nat) * expr) list **)

let rec cview e =
  let own = fun b ->
    map (fun ix -> (([], (fst ix)), (snd ix))) (number_from O b)
  in
  let go =
    let rec go j = function
    | [] -> []
    | a :: l' ->
      app
        (map (fun it -> ((((SArg j) :: (fst (fst it))), (snd (fst it))),
          (snd it))) (cview a)) (go (S j) l')
    in go
  in
  let keep = filter (fun it -> negb (is_ws_item (snd it))) in
  (match e with
   | ECmd (_, a, b, _) -> keep (app (go O a) (own b))
   | ENamed (_, a, b, _) -> keep (app (go O a) (own b))
   | EMath (_, b, _) -> keep (own b)
   | EGroup (_, b, _) -> keep (own b)
   | ERoot b -> keep (own b)
   | _ -> [])

(** val resolve : expr -> path0 -> nat list -> (path0 * expr) option **)

let rec resolve cur acc = function
| [] -> Some (acc, cur)
| k :: vp' ->
  (match nth_error (cview cur) k with
   | Some p0 ->
     let (p1, x) = p0 in
     let (p, i) = p1 in resolve x (app acc (app p ((SBody i) :: []))) vp'
   | None -> None)

(** val split_node_path : path0 -> (path0 * nat) option **)

let split_node_path np =
  match rev np with
  | [] -> None
  | s :: r -> (match s with
               | SArg _ -> None
               | SBody i -> Some ((rev r), i))

(** val drop_args : path0 -> path0 **)

let rec drop_args r = match r with
| [] -> r
| s :: r' -> (match s with
              | SArg _ -> drop_args r'
              | SBody _ -> r)

(** val nav_parent : path0 -> path0 **)

let nav_parent hp =
  rev (drop_args (rev hp))

(** val norm_index : nat -> z -> nat **)

let norm_index len i =
  if Z.ltb i Z0
  then Z.to_nat (Z.max Z0 (Z.add (Z.of_nat len) i))
  else Nat.min (Z.to_nat i) len

(** val list_insert : z -> 'a1 -> 'a1 list -> 'a1 list **)

let list_insert i x l =
  let k = norm_index (length l) i in app (firstn k l) (x :: (skipn k l))

(** val insert_seq : z -> 'a1 list -> 'a1 list -> 'a1 list **)

let rec insert_seq i xs l =
  match xs with
  | [] -> l
  | x :: xs' -> insert_seq (Z.add i (Zpos XH)) xs' (list_insert i x l)

(** val index_of : ('a1 -> bool) -> 'a1 list -> nat option **)

let rec index_of f = function
| [] -> None
| x :: l' ->
  if f x
  then Some O
  else (match index_of f l' with
        | Some k -> Some (S k)
        | None -> None)

(** val supports : expr -> bool **)

let supports = function
| ECmd (n0, _, b, _) ->
  (||) (str_eqb n0 s_item) (match b with
                            | [] -> false
                            | _ :: _ -> true)
| _ -> true

(** val eq_expr_item : expr -> expr -> bool **)

let eq_expr_item x c = match c with
| EText _ -> false
| _ -> str_eqb (estr c) (estr x)

(** val eq_node_item : expr -> expr -> bool **)

let eq_node_item x c =
  (&&) (is_node c) (str_eqb (estr c) (estr x))

(** val expr_remove :
    (expr -> expr -> bool) -> path0 -> expr -> path0 -> nat -> expr ->
    (nat * expr) outcome **)

let expr_remove eqf hpath h thp ti x =
  if negb (supports h)
  then Raise ETypeError0
  else let idx =
         if path_eqb hpath thp then Some ti else index_of (eqf x) (body_of h)
       in
       (match idx with
        | Some k -> Done (k, (set_body h (splice k (S O) [] (body_of h))))
        | None -> Raise EValueError0)

(** val expr_insert : expr -> z -> expr list -> expr outcome **)

let expr_insert h i new0 =
  if negb (supports h)
  then Raise ETypeError0
  else Done (set_body h (insert_seq i new0 (body_of h)))

(** val expr_append : expr -> expr list -> expr outcome **)

let expr_append h new0 =
  if negb (supports h)
  then Raise ETypeError0
  else Done (set_body h (app (body_of h) new0))

(** val number_args : path0 -> nat -> expr list -> (path0 * expr) list **)

let rec number_args pp j = function
| [] -> []
| a :: l' -> ((app pp ((SArg j) :: [])), a) :: (number_args pp (S j) l')

(** val holders : path0 -> expr -> (path0 * expr) list **)

let holders pp p =
  app (number_args pp O (args_of p)) ((pp, p) :: [])

(** val holds_object : path0 -> (path0 * expr) -> bool **)

let holds_object thp ph =
  path_eqb (fst ph) thp

(** val delete_via : expr -> path0 -> path0 -> nat -> expr outcome **)

let delete_via root pp thp ti =
  match get root pp with
  | Some p ->
    (match get root (app thp ((SBody ti) :: [])) with
     | Some x ->
       (match find (holds_object thp) (holders pp p) with
        | Some p0 ->
          let (hp, h) = p0 in
          obind (expr_remove eq_expr_item hp h thp ti x) (fun kh ->
            put_o root hp (snd kh))
        | None ->
          (match find (fun ph ->
                   existsb (fun it -> eq_node_item x (snd it))
                     (cview (snd ph))) (number_args pp O (args_of p)) with
           | Some p0 ->
             let (hp, a) = p0 in
             obind (expr_remove eq_node_item hp a thp ti x) (fun kh ->
               put_o root hp (snd kh))
           | None ->
             obind (expr_remove eq_expr_item pp p thp ti x) (fun kh ->
               put_o root pp (snd kh))))
     | None -> Raise EBadCase)
  | None -> Raise EBadCase

(** val delete : expr -> path0 -> nat -> expr outcome **)

let delete root thp ti =
  delete_via root (nav_parent thp) thp ti

(** val remove_via : expr -> path0 -> path0 -> nat -> expr outcome **)

let remove_via root pp thp ti =
  match get root pp with
  | Some p ->
    (match get root (app thp ((SBody ti) :: [])) with
     | Some x ->
       obind (expr_remove eq_expr_item pp p thp ti x) (fun kh ->
         put_o root pp (snd kh))
     | None -> Raise EBadCase)
  | None -> Raise EBadCase

(** val remove : expr -> path0 -> nat -> expr outcome **)

let remove root thp ti =
  remove_via root (nav_parent thp) thp ti

(** val replace_in :
    expr -> path0 -> expr -> path0 -> nat -> expr -> expr list -> expr outcome **)

let replace_in root hp h thp ti x new0 =
  obind (expr_remove eq_expr_item hp h thp ti x) (fun kh ->
    match expr_insert (snd kh) (Z.of_nat (fst kh)) new0 with
    | Done h'' -> put_o root hp h''
    | Raise e ->
      (match put root hp (snd kh) with
       | Some r -> Partial (e, r)
       | None -> Raise EBadCase)
    | Partial (e, _) -> Raise e)

(** val replace_via :
    expr -> path0 -> path0 -> nat -> expr list -> expr outcome **)

let replace_via root pp thp ti new0 =
  match get root pp with
  | Some p ->
    (match get root (app thp ((SBody ti) :: [])) with
     | Some x ->
       (match find (holds_object thp) (holders pp p) with
        | Some p0 -> let (hp, h) = p0 in replace_in root hp h thp ti x new0
        | None ->
          (match find (fun ph -> existsb (eq_expr_item x) (body_of (snd ph)))
                   (number_args pp O (args_of p)) with
           | Some p0 -> let (hp, a) = p0 in replace_in root hp a thp ti x new0
           | None -> replace_in root pp p thp ti x new0))
     | None -> Raise EBadCase)
  | None -> Raise EBadCase

(** val replace_with : expr -> path0 -> nat -> expr list -> expr outcome **)

let replace_with root thp ti new0 =
  replace_via root (nav_parent thp) thp ti new0

(** val insert : expr -> path0 -> z -> expr list -> expr outcome **)

let insert root np i new0 =
  match get root np with
  | Some h -> obind (expr_insert h i new0) (fun h' -> put_o root np h')
  | None -> Raise EBadCase

(** val append : expr -> path0 -> expr list -> expr outcome **)

let append root np new0 =
  match get root np with
  | Some h -> obind (expr_append h new0) (fun h' -> put_o root np h')
  | None -> Raise EBadCase

(** val copy : expr -> expr **)

let copy e =
  e

(** val rename : expr -> str -> expr outcome **)

let rename e s =
  match e with
  | ECmd (_, a, b, p) -> Done (ECmd (s, a, b, p))
  | ENamed (_, a, b, p) -> Done (ENamed (s, a, b, p))
  | _ -> Raise EBadCase

(** val set_name : expr -> path0 -> str -> expr outcome **)

let set_name root np s =
  match get root np with
  | Some h -> obind (rename h s) (fun h' -> put_o root np h')
  | None -> Raise EBadCase

(** val text_of : str -> expr **)

let text_of s =
  EText { ttext = s; tpos = (Zneg XH); tcat = TText }

(** val restring : expr -> str -> expr outcome **)

let restring e s =
  match e with
  | EText _ -> Raise EBadCase
  | ERaw (_, _) -> Raise EBadCase
  | EStr _ -> Raise EBadCase
  | ECmd (n0, a, b, p) ->
    (match a with
     | [] -> Raise EAssertionError
     | a0 :: l ->
       (match l with
        | [] ->
          Done (ECmd (n0, ((set_body a0 ((text_of s) :: [])) :: []), b, p))
        | _ :: _ -> Raise EAssertionError))
  | _ ->
    (match cview e with
     | [] -> Raise EAssertionError
     | p :: l ->
       let (_, x) = p in
       (match l with
        | [] ->
          if is_node x
          then Raise EAssertionError
          else Done (set_body e ((text_of s) :: []))
        | _ :: _ -> Raise EAssertionError))

(** val set_string : expr -> path0 -> str -> expr outcome **)

let set_string root np s =
  match get root np with
  | Some h -> obind (restring h s) (fun h' -> put_o root np h')
  | None -> Raise EBadCase

(** val select : 'a1 list -> nat list -> 'a1 list option **)

let rec select l = function
| [] -> Some []
| i :: r ->
  (match nth_error l i with
   | Some x ->
     (match select l r with
      | Some xs -> Some (x :: xs)
      | None -> None)
   | None -> None)

(** val nodup_nat : nat list -> bool **)

let rec nodup_nat = function
| [] -> true
| x :: r -> (&&) (negb (existsb (Nat.eqb x) r)) (nodup_nat r)

(** val reargs : expr -> nat list -> expr outcome **)

let reargs e idxs =
  match e with
  | ECmd (_, a, _, _) ->
    if nodup_nat idxs
    then (match select a idxs with
          | Some a' -> Done (set_args_of e a')
          | None -> Raise EIndexError0)
    else Raise EBadCase
  | ENamed (_, a, _, _) ->
    if nodup_nat idxs
    then (match select a idxs with
          | Some a' -> Done (set_args_of e a')
          | None -> Raise EIndexError0)
    else Raise EBadCase
  | _ -> Raise EBadCase

(** val set_args : expr -> path0 -> nat list -> expr outcome **)

let set_args root np idxs =
  match get root np with
  | Some h -> obind (reargs h idxs) (fun h' -> put_o root np h')
  | None -> Raise EBadCase

(** val args_insert :
    expr -> path0 -> z -> groupkind -> str -> expr outcome **)

let args_insert root np i k s =
  match get root np with
  | Some h ->
    (match h with
     | ECmd (_, a, _, _) ->
       put_o root np
         (set_args_of h
           (list_insert i (EGroup (k, ((EStr s) :: []), (Zneg XH))) a))
     | ENamed (_, a, _, _) ->
       put_o root np
         (set_args_of h
           (list_insert i (EGroup (k, ((EStr s) :: []), (Zneg XH))) a))
     | _ -> Raise EBadCase)
  | None -> Raise EBadCase

type zs = z list

(** val take : nat -> zs -> (zs * zs) option **)

let rec take n0 l =
  match n0 with
  | O -> Some ([], l)
  | S n' ->
    (match l with
     | [] -> None
     | x :: l' ->
       (match take n' l' with
        | Some p -> let (a, r) = p in Some ((x :: a), r)
        | None -> None))

(** val dec_list : zs -> (zs * zs) option **)

let dec_list = function
| [] -> None
| n0 :: l' -> if Z.ltb n0 Z0 then None else take (Z.to_nat n0) l'

(** val to_str : zs -> str **)

let to_str l =
  map Z.to_N l

(** val to_nats : zs -> nat list **)

let to_nats l =
  map Z.to_nat l

(** val split_neg1 : zs -> zs * zs **)

let rec split_neg1 = function
| [] -> ([], [])
| x :: l' ->
  if Z.eqb x (Zneg XH)
  then ([], l')
  else let (a, r) = split_neg1 l' in ((x :: a), r)

(** val dec_mats : expr -> nat -> zs -> (expr list * zs) option **)

let rec dec_mats donor n0 l =
  match n0 with
  | O -> Some ([], l)
  | S n' ->
    (match l with
     | [] -> None
     | tag :: l1 ->
       (match dec_list l1 with
        | Some p ->
          let (body, l2) = p in
          let item1 =
            if Z.eqb tag Z0
            then Some (EStr (to_str body))
            else (match resolve donor [] (to_nats body) with
                  | Some p0 ->
                    let (_, x) = p0 in
                    if is_node x then Some (copy x) else None
                  | None -> None)
          in
          (match item1 with
           | Some x ->
             (match dec_mats donor n' l2 with
              | Some p0 -> let (xs, r) = p0 in Some ((x :: xs), r)
              | None -> None)
           | None -> None)
        | None -> None))

(** val dec_matlist : expr -> zs -> (expr list * zs) option **)

let dec_matlist donor = function
| [] -> None
| n0 :: l' -> if Z.ltb n0 Z0 then None else dec_mats donor (Z.to_nat n0) l'

(** val locate :
    expr -> nat list -> ((path0 * (path0 * nat)) * expr) option **)

let locate root vp =
  match resolve root [] vp with
  | Some p ->
    let (np, x) = p in
    (match resolve root [] (removelast vp) with
     | Some p0 ->
       let (pp, _) = p0 in
       (match split_node_path np with
        | Some p1 -> Some ((pp, p1), x)
        | None -> None)
     | None -> None)
  | None -> None

(** val exec_op : expr -> expr -> zs -> (expr outcome * zs) option **)

let exec_op donor root = function
| [] -> None
| opc :: l0 ->
  if Z.eqb opc (Zpos (XO (XO XH)))
  then (match l0 with
        | [] -> None
        | k :: l0' ->
          (match dec_list l0' with
           | Some p ->
             let (vpz, l1) = p in
             (match dec_matlist donor l1 with
              | Some p0 ->
                let (new0, rest) = p0 in
                let vp = to_nats vpz in
                Some
                ((match locate root vp with
                  | Some p1 ->
                    let (p2, x) = p1 in
                    let (_, p3) = p2 in
                    let (hp, i) = p3 in
                    (match resolve root [] (firstn (Z.to_nat k) vp) with
                     | Some p4 ->
                       let (ap, _) = p4 in
                       if is_node x
                       then replace_via root ap hp i new0
                       else Raise EBadCase
                     | None -> Raise EBadCase)
                  | None -> Raise EBadCase), rest)
              | None -> None)
           | None -> None))
  else (match dec_list l0 with
        | Some p ->
          let (vpz, l1) = p in
          let vp = to_nats vpz in
          let on_target = fun f ->
            match locate root vp with
            | Some p0 ->
              let (p1, x) = p0 in
              let (pp, p2) = p1 in
              let (hp, i) = p2 in
              if (&&) (is_node x) (path_eqb (nav_parent hp) pp)
              then f hp i
              else Raise EBadCase
            | None -> Raise EBadCase
          in
          let on_node = fun f ->
            match resolve root [] vp with
            | Some p0 ->
              let (np, x) = p0 in if is_node x then f np else Raise EBadCase
            | None -> Raise EBadCase
          in
          if Z.eqb opc (Zpos XH)
          then Some ((on_target (fun hp i -> delete root hp i)), l1)
          else if Z.eqb opc (Zpos (XO XH))
               then Some ((on_target (fun hp i -> remove root hp i)), l1)
               else if Z.eqb opc (Zpos (XI XH))
                    then (match dec_matlist donor l1 with
                          | Some p0 ->
                            let (new0, rest) = p0 in
                            Some
                            ((on_target (fun hp i ->
                               replace_with root hp i new0)), rest)
                          | None -> None)
                    else if Z.eqb opc (Zpos (XI (XO XH)))
                         then (match l1 with
                               | [] -> None
                               | i :: l2 ->
                                 (match dec_matlist donor l2 with
                                  | Some p0 ->
                                    let (new0, rest) = p0 in
                                    Some
                                    ((on_node (fun np ->
                                       insert root np i new0)), rest)
                                  | None -> None))
                         else if Z.eqb opc (Zpos (XO (XI XH)))
                              then (match dec_matlist donor l1 with
                                    | Some p0 ->
                                      let (new0, rest) = p0 in
                                      Some
                                      ((on_node (fun np ->
                                         append root np new0)), rest)
                                    | None -> None)
                              else if Z.eqb opc (Zpos (XI (XI XH)))
                                   then (match dec_list l1 with
                                         | Some p0 ->
                                           let (s, rest) = p0 in
                                           Some
                                           ((on_node (fun np ->
                                              set_name root np (to_str s))),
                                           rest)
                                         | None -> None)
                                   else if Z.eqb opc (Zpos (XO (XO (XO XH))))
                                        then (match dec_list l1 with
                                              | Some p0 ->
                                                let (s, rest) = p0 in
                                                Some
                                                ((on_node (fun np ->
                                                   set_string root np
                                                     (to_str s))), rest)
                                              | None -> None)
                                        else if Z.eqb opc (Zpos (XI (XO (XO
                                                  XH))))
                                             then (match dec_list l1 with
                                                   | Some p0 ->
                                                     let (ix, rest) = p0 in
                                                     Some
                                                     ((on_node (fun np ->
                                                        set_args root np
                                                          (to_nats ix))),
                                                     rest)
                                                   | None -> None)
                                             else if Z.eqb opc (Zpos (XO (XI
                                                       (XO XH))))
                                                  then (match l1 with
                                                        | [] -> None
                                                        | i :: l3 ->
                                                          (match l3 with
                                                           | [] -> None
                                                           | kd :: l2 ->
                                                             (match dec_list
                                                                    l2 with
                                                              | Some p0 ->
                                                                let (
                                                                  s, rest) =
                                                                  p0
                                                                in
                                                                Some
                                                                ((on_node
                                                                   (fun np ->
                                                                   args_insert
                                                                    root np i
                                                                    (if 
                                                                    Z.eqb kd
                                                                    Z0
                                                                    then 
                                                                    GBrace
                                                                    else 
                                                                    GBracket)
                                                                    (to_str s))),
                                                                rest)
                                                              | None -> None)))
                                                  else None
        | None -> None)

(** val code_of : eerr -> z **)

let code_of = function
| ETypeError0 -> Zpos XH
| EValueError0 -> Zpos (XO XH)
| EAssertionError -> Zpos (XI XH)
| EIndexError0 -> Zpos (XO (XO XH))
| EBadCase -> Zpos (XI (XO (XO XH)))

(** val emit : z -> expr -> zs **)

let emit code root =
  let s = estr root in code :: ((Z.of_nat (length s)) :: (map Z.of_N s))

(** val run_loop : nat -> expr -> expr -> zs -> zs **)

let rec run_loop fuel donor root l =
  match fuel with
  | O -> []
  | S f ->
    (match l with
     | [] -> []
     | _ :: _ ->
       (match exec_op donor root l with
        | Some p ->
          let (o, rest) = p in
          (match o with
           | Done root' -> app (emit Z0 root') (run_loop f donor root' rest)
           | Raise e ->
             app (emit (code_of e) root) (run_loop f donor root rest)
           | Partial (e, root') ->
             app (emit (code_of e) root') (run_loop f donor root' rest))
        | None -> (Zneg (XO XH)) :: []))

(** val run_edit : zs -> zs **)

let run_edit inp =
  let (src, l1) = split_neg1 inp in
  let (dsrc, opsz) = split_neg1 l1 in
  (match parse (to_str src) true [] with
   | Ok root ->
     (match parse (to_str dsrc) true [] with
      | Ok donor -> run_loop (length opsz) donor root opsz
      | Err _ -> (Zneg XH) :: [])
   | Err _ -> (Zneg XH) :: [])

type res_match = str * z option

type regex_error =
| AttributeError0
| RegexTypeError

(** val token_matches :
    (str -> (nat * str) list) -> str -> z -> res_match list **)

let token_matches finditer s p =
  map (fun m -> ((snd m), (Some (Z.add p (Z.of_nat (fst m)))))) (finditer s)

(** val leaf_matches :
    (str -> (nat * str) list) -> expr -> res_match list * regex_error option **)

let leaf_matches finditer = function
| EText t -> ((token_matches finditer t.ttext (Zneg XH)), None)
| ERaw (s, p) -> ((token_matches finditer s p), None)
| EStr s ->
  (match finditer s with
   | [] -> ([], None)
   | _ :: _ -> ([], (Some AttributeError0)))
| _ -> ([], (Some RegexTypeError))

(** val search_strs :
    (str -> (nat * str) list) -> expr list -> res_match list * regex_error
    option **)

let rec search_strs finditer = function
| [] -> ([], None)
| x :: l' ->
  let (ms, o) = leaf_matches finditer x in
  (match o with
   | Some e -> (ms, (Some e))
   | None -> let (ms', r) = search_strs finditer l' in ((app ms ms'), r))

(** val search_regex :
    (str -> (nat * str) list) -> item0 -> res_match list * regex_error option **)

let search_regex finditer n0 =
  search_strs finditer (map snd (text n0))

(** val find_lit : str -> nat -> nat -> str -> (nat * str) list **)

let rec find_lit pat skip i s = match s with
| [] ->
  (match skip with
   | O -> (match pat with
           | [] -> (i, []) :: []
           | _ :: _ -> [])
   | S _ -> [])
| _ :: s' ->
  (match skip with
   | O ->
     if starts_with s pat
     then (i, pat) :: (find_lit pat (pred (length pat)) (S i) s')
     else find_lit pat O (S i) s'
   | S k -> find_lit pat k (S i) s')

(** val find_literal : str -> str -> (nat * str) list **)

let find_literal pat s =
  find_lit pat O O s

(** val enc_match : res_match -> z list **)

let enc_match m =
  app (enc_str0 (fst m))
    (match snd m with
     | Some q -> (Zpos XH) :: (q :: [])
     | None -> Z0 :: (Z0 :: []))

(** val enc_regex_error : regex_error option -> z **)

let enc_regex_error = function
| Some r ->
  (match r with
   | AttributeError0 -> Zpos XH
   | RegexTypeError -> Zpos (XO XH))
| None -> Z0

(** val run_regex : z list -> z list **)

let run_regex = function
| [] -> (Zneg (XO XH)) :: []
| strict :: rest ->
  (match rest with
   | [] -> (Zneg (XO XH)) :: []
   | _ :: _ ->
     let (pat, src) = take_str0 rest in
     (match parse (map Z.to_N src) (negb (Z.eqb strict Z0)) [] with
      | Ok e ->
        let (ms, r) = search_regex (find_literal pat) ([], e) in
        app (enc_list enc_match ms) ((enc_regex_error r) :: [])
      | Err er -> (Zneg XH) :: ((err_code er) :: [])))
