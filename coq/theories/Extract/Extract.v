(* Extraction of the executable model.  ExtrOcamlBasic only: bool, option,
   unit, list, prod, sumbool map to the OCaml types; N, Z, nat, positive keep
   their extracted datatypes.  No Extract Constant, no further Extract
   Inductive. *)
From Coq Require Import ExtrOcamlBasic.
From Coq Require Import List NArith ZArith.
From TexModel Require Import Base Tables Chars Tokenizer Tree Reader CLO Buffer Args Views Edit Regex.

Extraction "model.ml"
  categorize_char categorize tokens_of_string parse estr Tables.punctuation_commands
  run_clo run_buf run_args run_view run_edit run_regex.
