(* Model of TexSoup.utils.Buffer (utils.py:273-459), as the code is.

   Items are abstract (Z): for a string-backed buffer an item is a code point,
   for a token-backed buffer it is the (one-character) text of a token.  Items
   are assumed to be non-empty strings (bool(item) is True), as they are for
   every buffer the library builds.  Item *positions* (Token.position) are not
   part of this model.

   State: the underlying sequence `items` (what the wrapped iterator yields),
   `mat` = len(self.__queue) (the queue is always the prefix `firstn mat items`
   because items are only ever appended from the iterator, in order), and the
   cursor `self.__i`.

   Python exceptions are explicit results (OExc).  Python's negative indexing
   and slice clamping are applied to the *materialised queue* exactly as the
   code does (py_index / py_slice), which is why e.g. peek(-1) at position 0
   returns the last materialised element.  No proofs here; see
   Proofs/BufferProofs.v. *)
From Coq Require Import List ZArith Bool.
Import ListNotations.
Open Scope Z_scope.

Inductive exn := StopIteration | IndexError | AssertionError | AttributeError | OutOfFuel.

Inductive out :=
| OItem (x : Z)            (* one element of the queue *)
| ONone                    (* Python None *)
| OItems (l : list Z)      (* join(queue[a:b]): the concatenated text *)
| OBool (b : bool)
| OInt (z : Z)
| OExc (e : exn).

Record state := mkS { items : list Z; mat : nat; cursor : Z }.

Definition init_state (l : list Z) : state := mkS l O 0.
Definition queue (s : state) : list Z := firstn (mat s) (items s).
Definition set_cursor (s : state) (c : Z) : state := mkS (items s) (mat s) c.

(* ------------------------------------------------ Python list indexing *)

(* l[k] *)
Definition py_index (l : list Z) (k : Z) : out :=
  let m := Z.of_nat (length l) in
  let k' := if k <? 0 then k + m else k in
  if (k' <? 0) || (m <=? k') then OExc IndexError
  else match nth_error l (Z.to_nat k') with
       | Some x => OItem x
       | None => OExc IndexError
       end.

(* PySlice_AdjustIndices for step 1 *)
Definition norm_idx (m : Z) (o : option Z) (dflt : Z) : Z :=
  match o with
  | None => dflt
  | Some k => if k <? 0 then Z.max (k + m) 0 else Z.min k m
  end.

(* l[lo:hi] *)
Definition py_slice (l : list Z) (lo hi : option Z) : list Z :=
  let m := Z.of_nat (length l) in
  let a := norm_idx m lo 0 in
  let b := norm_idx m hi m in
  firstn (Z.to_nat (b - a)) (skipn (Z.to_nat a) l).

(* ------------------------------------------------------------ __next__
     while self.__i >= len(self.__queue):
         self.__queue.append(self.__init(next(self.__iterator), self.__i))
     self.__i += 1
     return self.__queue[self.__i - 1]
   The while loop appends until len(queue) = i + 1, or exhausts the iterator
   (then every item has been appended and StopIteration propagates with the
   cursor unchanged). *)
Definition next_raw (s : state) : state * out :=
  let n := length (items s) in
  let i := cursor s in
  if i <? Z.of_nat (mat s) then
    (mkS (items s) (mat s) (i + 1), py_index (queue s) i)
  else if i + 1 <=? Z.of_nat n then
    let s' := mkS (items s) (Z.to_nat (i + 1)) (i + 1) in
    (s', py_index (queue s') i)
  else
    (mkS (items s) n i, OExc StopIteration).

(* ---------------------------------------------------------- __getitem__
     old, j = self.__i, (i if int else i.stop)
     while j is None or self.__i <= j:
         try: next(self)
         except StopIteration: break
     self.__i = old
     return self.__queue[i]  /  self.__join(self.__queue[i])
   `advance` is the while loop, literally, one next per iteration.  An exception
   other than StopIteration leaves the loop (and __getitem__) with the cursor
   not restored. *)
Definition bound_ok (c : Z) (j : option Z) : bool :=
  match j with None => true | Some j => c <=? j end.

Fixpoint advance (fuel : nat) (s : state) (j : option Z) : state * option exn :=
  if bound_ok (cursor s) j then
    match fuel with
    | O => (s, Some OutOfFuel)
    | S f =>
      match next_raw s with
      | (s', OExc StopIteration) => (s', None)
      | (s', OExc e) => (s', Some e)
      | (s', _) => advance f s' j
      end
    end
  else (s, None).

(* enough for every iteration the loop can make: each successful next moves the
   cursor one step towards len(items), the first failing one ends the loop *)
Definition advance_fuel (s : state) : nat :=
  S (length (items s)) + Z.to_nat (- cursor s).

Definition getitem_int (s : state) (k : Z) : state * out :=
  let old := cursor s in
  match advance (advance_fuel s) s (Some k) with
  | (s1, Some e) => (s1, OExc e)
  | (s1, None) => let s2 := set_cursor s1 old in (s2, py_index (queue s2) k)
  end.

Definition getitem_slice (s : state) (lo hi : option Z) : state * out :=
  let old := cursor s in
  match advance (advance_fuel s) s hi with
  | (s1, Some e) => (s1, OExc e)
  | (s1, None) => let s2 := set_cursor s1 old in (s2, OItems (py_slice (queue s2) lo hi))
  end.

(* ----------------------------------------------------------------- peek
     try:
         if isinstance(j, int): return self[self.__i + j]
         return self[self.__i + j[0]:self.__i + j[1]]
     except IndexError: return None *)
Definition catch_index (r : state * out) : state * out :=
  match r with
  | (s, OExc IndexError) => (s, ONone)
  | _ => r
  end.

Definition peek_int (s : state) (j : Z) : state * out :=
  catch_index (getitem_int s (cursor s + j)).

Definition peek_range (s : state) (a b : Z) : state * out :=
  catch_index (getitem_slice s (Some (cursor s + a)) (Some (cursor s + b))).

(* bool(x) for what peek returns; items are non-empty strings *)
Definition truthy (o : out) : bool :=
  match o with
  | OItem _ => true
  | OItems l => match l with [] => false | _ => true end
  | OBool b => b
  | OInt z => negb (z =? 0)
  | ONone => false
  | OExc _ => false
  end.

(* hasNext(n): bool(self.peek(n - 1)) *)
Definition has_next (s : state) (n : Z) : state * out :=
  match peek_int s (n - 1) with
  | (s', OExc e) => (s', OExc e)
  | (s', o) => (s', OBool (truthy o))
  end.

(* ---------------------------------------------------- forward / backward
     forward(j):  if j < 0: return self.backward(-j)
                  self.__i += j; return self[self.__i - j:self.__i]
     backward(j): if j < 0: return self.forward(-j)
                  assert self.__i - j >= 0
                  self.__i -= j; return self[self.__i:self.__i + j] *)
Definition forward_pos (s : state) (j : Z) : state * out :=
  let s1 := set_cursor s (cursor s + j) in
  getitem_slice s1 (Some (cursor s1 - j)) (Some (cursor s1)).

Definition backward_pos (s : state) (j : Z) : state * out :=
  if cursor s - j <? 0 then (s, OExc AssertionError)
  else let s1 := set_cursor s (cursor s - j) in
       getitem_slice s1 (Some (cursor s1)) (Some (cursor s1 + j)).

Definition forward (s : state) (j : Z) : state * out :=
  if j <? 0 then backward_pos s (- j) else forward_pos s j.

Definition backward (s : state) (j : Z) : state * out :=
  if j <? 0 then forward_pos s (- j) else backward_pos s j.

(* ------------------------------------------------ startswith / endswith
     startswith(s): self.peek((0, len(s))).startswith(s)
     endswith(s):   self.peek((-len(s), 0)).endswith(s)          (str methods) *)
Fixpoint is_prefix (p l : list Z) : bool :=
  match p, l with
  | [], _ => true
  | _ :: _, [] => false
  | x :: p', y :: l' => (x =? y) && is_prefix p' l'
  end.

Definition is_suffix (p l : list Z) : bool := is_prefix (rev p) (rev l).

Definition starts_with (s : state) (p : list Z) : state * out :=
  match peek_range s 0 (Z.of_nat (length p)) with
  | (s', OItems l) => (s', OBool (is_prefix p l))
  | (s', OExc e) => (s', OExc e)
  | (s', _) => (s', OExc AttributeError)         (* None.startswith *)
  end.

Definition ends_with (s : state) (p : list Z) : state * out :=
  match peek_range s (- Z.of_nat (length p)) 0 with
  | (s', OItems l) => (s', OBool (is_suffix p l))
  | (s', OExc e) => (s', OExc e)
  | (s', _) => (s', OExc AttributeError)
  end.

(* --------------------------------- forward_until / num_forward_until
   The condition is drawn from a fixed family chosen by an integer k:
     k >= 0:  lambda x: x == item k          k < 0:  lambda x: x != item (-k)
   applied to what peek() returns (None == c is False, None != c is True). *)
Definition pred (k x : Z) : bool :=
  if 0 <=? k then x =? k else negb (x =? - k).
Definition pred_none (k : Z) : bool := k <? 0.

Definition cond_holds (k : Z) (o : out) : bool :=
  match o with
  | OItem x => pred k x
  | _ => pred_none k
  end.

(* the shared loop
     while self.hasNext() and not condition(self.peek()):
         c += self.forward(1) ; i += 1
   returns the state, the exception that left the loop (if any), c and i *)
Fixpoint scan (fuel : nat) (s : state) (k : Z) (acc : list Z) (cnt : Z)
  : state * option exn * list Z * Z :=
  match fuel with
  | O => (s, Some OutOfFuel, acc, cnt)
  | S f =>
    match has_next s 1 with
    | (s1, OExc e) => (s1, Some e, acc, cnt)
    | (s1, OBool false) => (s1, None, acc, cnt)
    | (s1, _) =>
      match peek_int s1 0 with
      | (s2, OExc e) => (s2, Some e, acc, cnt)
      | (s2, pk) =>
        if cond_holds k pk then (s2, None, acc, cnt)
        else match forward s2 1 with
             | (s3, OItems l) => scan f s3 k (acc ++ l) (cnt + 1)
             | (s3, OExc e) => (s3, Some e, acc, cnt)
             | (s3, _) => (s3, Some AttributeError, acc, cnt)
             end
      end
    end
  end.

Definition scan_fuel (s : state) : nat := S (S (length (items s))).

(* forward_until(condition):
     first = self.peek(); c = Token('', first.position or self.__i)
     while ...: c += self.forward(1)
     return c *)
Definition forward_until (s : state) (k : Z) : state * out :=
  match peek_int s 0 with
  | (s0, OExc e) => (s0, OExc e)
  | (s0, _) =>
    match scan (scan_fuel s0) s0 k [] 0 with
    | (s1, Some e, _, _) => (s1, OExc e)
    | (s1, None, acc, _) => (s1, OItems acc)
    end
  end.

(* num_forward_until(condition):
     i, c = 0, ''
     while ...: c += self.forward(1); i += 1
     assert self.backward(i) == c
     return i *)
Fixpoint list_eqb (a b : list Z) : bool :=
  match a, b with
  | [], [] => true
  | x :: a', y :: b' => (x =? y) && list_eqb a' b'
  | _, _ => false
  end.

Definition num_forward_until (s : state) (k : Z) : state * out :=
  match scan (scan_fuel s) s k [] 0 with
  | (s1, Some e, _, _) => (s1, OExc e)
  | (s1, None, acc, cnt) =>
    match backward s1 cnt with
    | (s2, OItems l) => if list_eqb l acc then (s2, OInt cnt) else (s2, OExc AssertionError)
    | (s2, OExc e) => (s2, OExc e)
    | (s2, _) => (s2, OExc AssertionError)
    end
  end.

(* ------------------------------------------------------------ operations *)

Inductive op :=
| Next
| HasNext (n : Z)
| Peek (j : Z)
| PeekR (a b : Z)
| Forward (j : Z)
| Backward (j : Z)
| Slice (lo hi : option Z)          (* b[lo:hi] *)
| Getitem (k : Z)                   (* b[k] *)
| Startswith (p : list Z)
| Endswith (p : list Z)
| ForwardUntil (k : Z)
| NumForwardUntil (k : Z)
| Position.

Definition step (s : state) (o : op) : state * out :=
  match o with
  | Next => next_raw s
  | HasNext n => has_next s n
  | Peek j => peek_int s j
  | PeekR a b => peek_range s a b
  | Forward j => forward s j
  | Backward j => backward s j
  | Slice lo hi => getitem_slice s lo hi
  | Getitem k => getitem_int s k
  | Startswith p => starts_with s p
  | Endswith p => ends_with s p
  | ForwardUntil k => forward_until s k
  | NumForwardUntil k => num_forward_until s k
  | Position => (s, OInt (cursor s))
  end.

(* outputs and cursor after every operation *)
Fixpoint run_ops (s : state) (ops : list op) : list (out * Z) :=
  match ops with
  | [] => []
  | o :: r => let (s', x) := step s o in (x, cursor s') :: run_ops s' r
  end.

(* ------------------------------------------------ generic driver entry
   input  [n; item_1 .. item_n; op codes ...]
     0 next | 1 n hasNext | 2 j peek | 3 a b peek((a,b)) | 4 j forward | 5 j backward
     6 flo lo fhi hi  b[lo:hi] (flag 0 = None) | 7 k b[k]
     8 m p_1..p_m startswith | 9 m p_1..p_m endswith
     10 k forward_until | 11 k num_forward_until | 12 position
   output, per operation: <encoded out> cursor len(queue)
     1 x item | 2 None | 3 m x_1..x_m joined items | 4 b bool | 5 z int | 6 e exception
     (1 StopIteration, 2 IndexError, 3 AssertionError, 4 AttributeError, 5 OutOfFuel) *)
Definition opt_of (flag v : Z) : option Z := if flag =? 0 then None else Some v.

Fixpoint decode_ops (fuel : nat) (l : list Z) : list op :=
  match fuel with
  | O => []
  | S f =>
    match l with
    | 0 :: r => Next :: decode_ops f r
    | 1 :: n :: r => HasNext n :: decode_ops f r
    | 2 :: j :: r => Peek j :: decode_ops f r
    | 3 :: a :: b :: r => PeekR a b :: decode_ops f r
    | 4 :: j :: r => Forward j :: decode_ops f r
    | 5 :: j :: r => Backward j :: decode_ops f r
    | 6 :: fl :: lo :: fh :: hi :: r => Slice (opt_of fl lo) (opt_of fh hi) :: decode_ops f r
    | 7 :: k :: r => Getitem k :: decode_ops f r
    | 8 :: m :: r => Startswith (firstn (Z.to_nat m) r) :: decode_ops f (skipn (Z.to_nat m) r)
    | 9 :: m :: r => Endswith (firstn (Z.to_nat m) r) :: decode_ops f (skipn (Z.to_nat m) r)
    | 10 :: k :: r => ForwardUntil k :: decode_ops f r
    | 11 :: k :: r => NumForwardUntil k :: decode_ops f r
    | 12 :: r => Position :: decode_ops f r
    | _ => []
    end
  end.

Definition exn_code (e : exn) : Z :=
  match e with
  | StopIteration => 1 | IndexError => 2 | AssertionError => 3
  | AttributeError => 4 | OutOfFuel => 5
  end.

Definition encode_out (o : out) : list Z :=
  match o with
  | OItem x => [1; x]
  | ONone => [2]
  | OItems l => 3 :: Z.of_nat (length l) :: l
  | OBool b => [4; if b then 1 else 0]
  | OInt z => [5; z]
  | OExc e => [6; exn_code e]
  end.

Fixpoint run_enc (s : state) (ops : list op) : list Z :=
  match ops with
  | [] => []
  | o :: r =>
    let (s', x) := step s o in
    encode_out x ++ [cursor s'; Z.of_nat (mat s')] ++ run_enc s' r
  end.

Definition run_buf (inp : list Z) : list Z :=
  match inp with
  | [] => []
  | n :: r =>
    let its := firstn (Z.to_nat n) r in
    let code := skipn (Z.to_nat n) r in
    run_enc (init_state its) (decode_ops (length code) code)
  end.
