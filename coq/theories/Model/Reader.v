(* Model of TexSoup.reader: one mutual fixpoint on fuel over token-list
   suffixes.  Parameters are threaded exactly as in the code: read_item is
   called without tolerance/mode/skip_envs, read_arg/read_math_env/read_item
   call read_expr without skip_envs, a brace group met by read_expr is read
   without mode, peeks are re-reads from the same suffix.  *)
From Coq Require Import List NArith ZArith Bool.
From TexModel Require Import Base Tables Chars Tokenizer Tree.
Import ListNotations.
Local Open Scope Z_scope.

Inductive err := EOFError | TypeError | AssertionError | StopIteration | KeyError
               | TokenizerError | OutOfFuel.
Inductive res (A : Type) := Ok (a : A) | Err (e : err).
Arguments Ok {A} a.
Arguments Err {A} e.

Definition bind {A B} (r : res A) (f : A -> res B) : res B :=
  match r with Ok a => f a | Err e => Err e end.

Inductive mode := MNonMath | MMath | MSpecial.
Definition mode_is_math (m : mode) : bool := match m with MMath => true | _ => false end.
Definition mode_is_special (m : mode) : bool := match m with MSpecial => true | _ => false end.

Definition s_item : str := [105; 116; 101; 109]%N.
Definition s_begin : str := [98; 101; 103; 105; 110]%N.
Definition s_end : str := [101; 110; 100]%N.

Definition is_tc (k : tc) (t : token) : bool := tc_beq (tcat t) k.

(* MATH_TOKEN_TO_ENV *)
Fixpoint math_kind_of_begin_in (l : list (mathkind * ((tc * tc) * ((str * str) * str)))) (c : tc)
  : option mathkind :=
  match l with
  | [] => None
  | (k, ((b, _), _)) :: l' => if tc_beq c b then Some k else math_kind_of_begin_in l' c
  end.
Definition math_kind_of_begin (c : tc) : option mathkind :=
  math_kind_of_begin_in Tables.math_classes c.

(* ARG_BEGIN_TO_ENV *)
Fixpoint group_kind_of_begin_in (l : list (groupkind * ((tc * tc) * ((str * str) * str)))) (c : tc)
  : option groupkind :=
  match l with
  | [] => None
  | (k, ((b, _), _)) :: l' => if tc_beq c b then Some k else group_kind_of_begin_in l' c
  end.
Definition group_kind_of_begin (c : tc) : option groupkind :=
  group_kind_of_begin_in Tables.group_classes c.

Definition is_group_end (k : groupkind) (t : token) : bool :=
  match group_tok_end k with Some e => is_tc e t | None => false end.
Definition is_math_end (k : mathkind) (t : token) : bool :=
  match math_tok_end k with Some e => is_tc e t | None => false end.

(* read_spacer: (was a spacer consumed, rest) *)
Definition read_spacer (toks : list token) : bool * list token :=
  match toks with
  | t :: rest => if is_tc TMergedSpacer t then (true, rest) else (false, toks)
  | [] => (false, toks)
  end.

Definition signature_of (name : str) : Z * Z :=
  match assoc_str name Tables.signatures with Some s => s | None => (-1, -1) end.

Definition texts (toks : list token) : str := concat (map ttext toks).

(* read_skip_env: Buffer.forward_until(startswith('\end{name}'), peek=False);
   the look-ahead joins the next len(target) *tokens* *)
Fixpoint skip_scan (target : str) (acc : str) (toks : list token) : str * list token :=
  match toks with
  | [] => (acc, [])
  | t :: rest =>
    if starts_with (texts (firstn (length target) toks)) target then (acc, toks)
    else skip_scan target (acc ++ ttext t) rest
  end.

Definition read_skip_env (name : str) (args : list expr) (pos : Z) (toks : list token)
  : res (expr * list token) :=
  let target := env_end name in
  let '(body, rest) := skip_scan target [] toks in
  match toks, rest with
  | t0 :: _, _ :: _ =>
    if starts_with (texts (firstn (length target) rest)) target
    then Ok (ENamed name args [ERaw body (tpos t0)] pos, skipn 5 rest)
    else Err EOFError
  | _, _ => Err EOFError
  end.

  Fixpoint read_expr (fuel : nat) (skip : list str) (strict : bool) (m : mode) (toks : list token)
    {struct fuel} : res (expr * list token) :=
    match fuel with
    | O => Err OutOfFuel
    | S f =>
      match toks with
      | [] => Err StopIteration
      | c :: src =>
        match math_kind_of_begin (tcat c) with
        | Some k => read_math_loop f k (tpos c) strict [] src
        | None =>
          if is_tc TEscape c then
            bind (read_command f (-1) (-1) 0 strict m src) (fun '(name, args, src1) =>
              if str_eqb name s_item then
                if mode_is_math m then Err AssertionError
                else bind (read_item_loop f [] src1) (fun '(contents, src2) =>
                       Ok (ECmd (strip name) args contents (tpos c), src2))
              else if str_eqb name s_begin && negb (mode_is_special m) then
                match args with
                | [] => Err AssertionError
                | a0 :: args' =>
                  let ename := strip (arg_string a0) in
                  let m' := if mem_str ename Tables.math_env_names then MMath else m in
                  if mem_str ename skip
                  then read_skip_env ename args' (tpos c) src1
                  else read_env_loop f ename args' (tpos c) skip strict m' [] src1
                end
              else Ok (ECmd (strip name) args [] (tpos c), src1))
          else if is_tc TGroupBegin c then read_arg f c strict MNonMath src
          else Ok (EText c, src)
        end
      end
    end

  (* read_item: stops before \item, \end, or a closing brace; always strict,
     non-math, no skip_envs *)
  with read_item_loop (fuel : nat) (acc : list expr) (toks : list token)
    {struct fuel} : res (list expr * list token) :=
    match fuel with
    | O => Err OutOfFuel
    | S f =>
      match toks with
      | [] => Ok (acc, toks)
      | t :: _ =>
        let step := bind (read_expr f [] true MNonMath toks) (fun '(e, src1) =>
                      read_item_loop f (acc ++ [e]) src1) in
        if is_tc TEscape t then
          bind (read_command f (-1) (-1) 1 true MNonMath toks) (fun '(cname, _, _) =>
            if str_eqb cname s_end || str_eqb cname s_item then Ok (acc, toks) else step)
        else if is_tc TGroupEnd t then Ok (acc, toks)
        else step
      end
    end

  with read_math_loop (fuel : nat) (k : mathkind) (pos : Z) (strict : bool) (acc : list expr)
                      (toks : list token) {struct fuel} : res (expr * list token) :=
    match fuel with
    | O => Err OutOfFuel
    | S f =>
      match toks with
      | [] => Err EOFError
      | t :: src =>
        if is_math_end k t then Ok (EMath k acc pos, src)
        else bind (read_expr f [] strict MMath toks) (fun '(e, src1) =>
               read_math_loop f k pos strict (acc ++ [e]) src1)
      end
    end

  with read_env_loop (fuel : nat) (name : str) (args : list expr) (pos : Z) (skip : list str)
                     (strict : bool) (m : mode) (acc : list expr) (toks : list token)
    {struct fuel} : res (expr * list token) :=
    match fuel with
    | O => Err OutOfFuel
    | S f =>
      let finish (eargs : option (list expr)) :=
          let error := match toks, eargs with
                       | [], _ => true
                       | _, None => true
                       | _, Some [] => true
                       | _, Some (a0 :: _) => negb (str_eqb (arg_string a0) name)
                       end in
          if error then
            if strict then Err EOFError else Ok (ENamed name args acc pos, toks)
          else
            (* src.forward(2); read_spacer(src); read_arg(src, next(src), ...) *)
            let '(_, src2) := read_spacer (skipn 2 toks) in
            match src2 with
            | [] => Err StopIteration
            | c :: src3 =>
              bind (read_arg f c strict m src3) (fun '(_, rest) =>
                Ok (ENamed name args acc pos, rest))
            end in
      match toks with
      | [] => finish None
      | t :: _ =>
        let step := bind (read_expr f skip strict m toks) (fun '(e, src1) =>
                      read_env_loop f name args pos skip strict m (acc ++ [e]) src1) in
        if is_tc TEscape t then
          bind (read_command f (-1) (-1) 1 strict m toks) (fun '(cname, cargs, _) =>
            if str_eqb cname s_end then finish (Some cargs) else step)
        else step
      end
    end

  (* read_command: (name text, args, rest); `skip` tokens are dropped first *)
  with read_command (fuel : nat) (nreq nopt : Z) (skip : nat) (strict : bool) (m : mode)
                    (toks : list token) {struct fuel} : res ((str * list expr) * list token) :=
    match fuel with
    | O => Err OutOfFuel
    | S f =>
      if Nat.ltb (length toks) skip then Err StopIteration else
      match skipn skip toks with
      | [] => Ok (([], []), [])            (* lone escape at the end of the input *)
      | name :: src =>
        let m' := if mem_str (ttext name) Tables.special_commands then MSpecial else m in
        let '(nreq', nopt') :=
            if (nreq <? 0) && (nopt <? 0) then signature_of (ttext name) else (nreq, nopt) in
        bind (read_args f nreq' nopt' strict m' src) (fun '(args, src1) =>
          Ok ((ttext name, args), src1))
      end
    end

  with read_args (fuel : nat) (nreq nopt : Z) (strict : bool) (m : mode) (toks : list token)
    {struct fuel} : res (list expr * list token) :=
    match fuel with
    | O => Err OutOfFuel
    | S f =>
      if (nreq =? 0) && (nopt =? 0) then Ok ([], toks) else
      bind (read_arg_optional f [] nopt strict m toks) (fun '(args1, nopt1, src1) =>
      bind (read_arg_required f args1 nreq strict m src1) (fun '(args2, nreq1, src2) =>
      bind (match src2 with
            | t :: _ => if is_tc TBracketBegin t
                        then read_arg_optional f args2 nopt1 strict m src2
                        else Ok (args2, nopt1, src2)
            | [] => Ok (args2, nopt1, src2)
            end) (fun '(args3, _, src3) =>
      bind (match src3 with
            | t :: _ => if is_tc TGroupBegin t
                        then read_arg_required f args3 nreq1 strict m src3
                        else Ok (args3, nreq1, src3)
            | [] => Ok (args3, nreq1, src3)
            end) (fun '(args4, _, src4) => Ok (args4, src4)))))
    end

  with read_arg_optional (fuel : nat) (args : list expr) (nopt : Z) (strict : bool) (m : mode)
                         (toks : list token) {struct fuel}
    : res ((list expr * Z) * list token) :=
    match fuel with
    | O => Err OutOfFuel
    | S f =>
      if nopt =? 0 then Ok ((args, nopt), toks) else
      let '(_, src1) := read_spacer toks in
      match src1 with
      | c :: src2 =>
        if is_tc TBracketBegin c then
          bind (read_arg f c strict m src2) (fun '(g, src3) =>
            read_arg_optional f (args ++ [g]) (nopt - 1) strict m src3)
        else Ok ((args, nopt), toks)
      | [] => Ok ((args, nopt), toks)
      end
    end

  with read_arg_required (fuel : nat) (args : list expr) (nreq : Z) (strict : bool) (m : mode)
                         (toks : list token) {struct fuel}
    : res ((list expr * Z) * list token) :=
    match fuel with
    | O => Err OutOfFuel
    | S f =>
      if nreq =? 0 then Ok ((args, nreq), toks) else
      match toks with
      | [] => Ok ((args, nreq), toks)
      | _ :: _ =>
        let '(_, src1) := read_spacer toks in
        match src1 with
        | c :: src2 =>
          if is_tc TGroupBegin c then
            bind (read_arg f c strict m src2) (fun '(g, src3) =>
              read_arg_required f (args ++ [g]) (nreq - 1) strict m src3)
          else if 0 <? nreq then
            if is_tc TEscape c then
              bind (read_command f 0 0 0 strict m src2) (fun '(name, _, src3) =>
                read_arg_required f (args ++ [ECmd (strip name) [] [] (tpos c)]) (nreq - 1)
                                  strict m src3)
            else
              (* '{%s}' % token, coerced by TexGroup.parse: a brace group
                 holding the token text as a plain string, position -1 *)
              read_arg_required f (args ++ [EGroup GBrace [EStr (ttext c)] (-1)]) (nreq - 1)
                                strict m src2
          else Ok ((args, nreq), toks)
        | [] => Ok ((args, nreq), toks)
        end
      end
    end

  (* read_arg: c is the opening token, already consumed *)
  with read_arg (fuel : nat) (c : token) (strict : bool) (m : mode) (toks : list token)
    {struct fuel} : res (expr * list token) :=
    match fuel with
    | O => Err OutOfFuel
    | S f =>
      match group_kind_of_begin (tcat c) with
      | None => Err KeyError
      | Some k => read_arg_loop f k (tpos c) strict m [] toks
      end
    end

  with read_arg_loop (fuel : nat) (k : groupkind) (pos : Z) (strict : bool) (m : mode)
                     (acc : list expr) (toks : list token) {struct fuel}
    : res (expr * list token) :=
    match fuel with
    | O => Err OutOfFuel
    | S f =>
      match toks with
      | [] => if strict then Err TypeError else Ok (EGroup k acc pos, toks)
      | t :: src =>
        if is_group_end k t then Ok (EGroup k acc pos, src)
        else bind (read_expr f [] strict m toks) (fun '(e, src1) =>
               read_arg_loop f k pos strict m (acc ++ [e]) src1)
      end
    end.

  Fixpoint read_tex_loop (fuel : nat) (efuel : nat) (skip : list str) (strict : bool)
           (acc : list expr) (toks : list token) {struct fuel} : res (list expr) :=
    match fuel with
    | O => Err OutOfFuel
    | S f =>
      match toks with
      | [] => Ok acc
      | _ :: _ =>
        bind (read_expr efuel skip strict MNonMath toks) (fun '(e, rest) =>
          read_tex_loop f efuel skip strict (acc ++ [e]) rest)
      end
    end.

Definition fuel_for (toks : list token) : nat := 4 * length toks + 8.

(* TexSoup.tex.read + the root environment *)
Definition parse_tokens (toks : list token) (strict : bool) (user_skip : list str) : res expr :=
  bind (read_tex_loop (S (length toks)) (fuel_for toks)
                      (Tables.skip_env_names ++ user_skip) strict [] toks)
       (fun body => Ok (ERoot body)).

Definition parse (s : str) (strict : bool) (user_skip : list str) : res expr :=
  match tokens_of_string s with
  | (toks, TEnd) => parse_tokens toks strict user_skip
  | (_, _) => Err TokenizerError
  end.
