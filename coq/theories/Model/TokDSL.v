(* A small imperative language for the bodies of the eleven token rules of
   TexSoup/tokens.py, and its interpreter.

   harness/gen_tokrules.py reads the Python `ast` of tokens.py on every run and
   writes each rule's body as a term of type `program` (Model/TokGen.v).
   Proofs/TokGenProofs.v shows that interpreting those terms gives exactly the
   hand-written rule functions of Model/Tokenizer.v, which all other proofs are
   about.  So what is trusted here is (a) that the translator maps each Python
   construct to the DSL construct named after it and (b) that the interpreter
   below gives that construct the meaning it has in Python for the objects
   involved (TexSoup.utils.Buffer / Token, IntEnum category codes).  Both are
   kept small and syntax-directed; every semantic decision is commented.

   ---------------------------------------------------------------- the objects
   text      a Buffer over the categorised characters; its state is the cursor.
             We keep the characters from the cursor on (`s_rest`) and the
             characters this rule call has consumed so far, most recent first
             (`s_back`), so  text.position = d_idx + length s_back,
             d_idx being text.position when the rule was called.
   a character (element of the buffer) is a Token of ONE code point carrying
             its own index (`cpos`) and its CC category (`ccat`).
   text.peek(k), k >= 0   the k-th character from the cursor, or None past the
             end (Buffer.peek catches the IndexError).
   text.peek(-1)          the character before the cursor: the last character
             consumed by this call if there is one, otherwise supplied by the
             caller (`d_prevc`).  At buffer index 0 Python indexes queue[-1],
             the last character materialised by earlier look-ahead, which is
             why Tokenizer.v carries a separate `prevc` for rule 9 and for
             rule 10; `ctx_of` below selects the one Tokenizer.v gives to the
             rule in question.  Nothing else about it is modelled here.
   truth value of text.peek(k): None is false; a Token is true iff its text is
             non-empty (Token.__bool__) and a character has one code point, so
             it is true exactly when the character exists.
   text.hasNext(n) = bool(text.peek(n - 1)), n >= 1.
   x.category on x = None raises AttributeError: the rule result RErr.
   text.forward(n), n >= 1, at least n characters left: moves the cursor by n
             and returns Token.join of the n characters: their concatenated
             text, the position and the (CC) category of the FIRST of them.
   next(text) one character left at least: moves by one, returns the character.
   Token('', text.position[, category=TC.X])  empty text, position = the
             current buffer index, category None or TC.X.
   Token(tok, anything)   tok a Token: copies tok's text, position and
             category (Token.__new__ ignores the second argument then).
   a += b    (Token.__iadd__) text a.text + b.text, position and category of
             the LEFT operand a.
   text.backward(text.position - result.position)  moves the cursor back to
             the index recorded in result.
   start = text.position   an int local (one per rule: `s_start`); then
             Token('', start[, category=TC.X]) and
             text.backward(text.position - start) use the recorded index.
   eol = text.forward(n)   a second token local next to the result (`s_tmp`);
             eol == 'x' compares its text (Token.__eq__) with a one-character
             str; result += eol as above.
   result.endswith('x')    str.endswith on the token's own str value, which is
             its text (Token.__new__ / __add__ / __iadd__ keep them equal).
   text.peek(k) is None    true exactly past the end (peek returns None there).
   lambda c: c.category <op> ...   a predicate on one character (`pred`); also a
             nested `def p(c): return c.category <op> ...`.
   text.num_forward_until(p)   the number of characters from the cursor up to
             the first one satisfying p (or the end); the cursor does not move
             (the method walks forward and back again; its assert compares the
             walked text with itself).
   text.forward_until(p)   consumes those characters; the result is built from
             Token('', first.position) -- position of the FIRST remaining
             character, or text.position at the end -- by +=, so its category
             is None.
   n = <int>; text.forward(<int>); text.backward(<int>); len(result)
             `iexpr`: a literal, the int local, num_forward_until(p),
             len(result).  forward(0) is OUnsup (shared Token.Empty), as is a
             backward beyond what this call has consumed.
   text.position as a truth value: non-zero.
   category codes are IntEnums: CC.x == CC.y iff same member; a TC member is
             compared with a CC member by integer value (only in
             `prev.category != CC.Comment`), using Tables.tc_value/cc_value.
   and / or / not  are only translated where a truth value is consumed (if,
             while, not, operand of and/or); `a and b` evaluates b only when a
             is true, `a or b` evaluates b only when a is false; an exception
             in an operand that is evaluated propagates.

   Situations the rules never reach and that the result type `rres` of the
   hand-written model cannot express (forward past the end, forward(0) which
   returns the shared Token.Empty, next() at the end = StopIteration, an
   unbound local, a KeyError, returning a token whose category is not a TC
   member, rolling back beyond the start of the call) make the interpreter
   stop with OUnsup.  Loops run with fuel = remaining characters + 1 and stop
   with OFuel when it runs out.  The connecting theorems are stated about
   `run_full`, so they also prove that neither ever happens on the generated
   programs. *)
From Coq Require Import List NArith ZArith Bool.
From TexModel Require Import Base Tables Chars Tokenizer.
Import ListNotations.

(* ------------------------------------------------------------------ syntax *)

(* text.peek(k) / text.peek(-1) *)
Inductive chr := Peek (k : nat) | PeekPrev.

(* keys of the dict literals: CC.a or (CC.a, CC.b); values are TC members *)
Inductive dkey := K1 (a : cc) | K2 (a b : cc).
Definition dict := list (dkey * tc).

(* lambda c: c.category == CC.k / != CC.k / in (..) / not in (..) *)
Inductive pred := PCatEq (k : cc) | PCatNe (k : cc) | PCatIn (ks : list cc) | PCatNotIn (ks : list cc).

(* int-valued expressions *)
Inductive iexpr :=
| INum (n : nat)             (* a literal *)
| IVar                       (* the int local *)
| INumUntil (p : pred)       (* text.num_forward_until(p) *)
| ILenRes.                   (* len(result) *)

Inductive expr :=
| ETruthy (c : chr)                  (* text.peek(k)              as a truth value *)
| ECatEq (c : chr) (k : cc)          (* text.peek(k).category == CC.k *)
| ECatNe (c : chr) (k : cc)          (* text.peek(k).category != CC.k *)
| ECatIn (c : chr) (ks : list cc)    (* text.peek(k).category in (CC.a, ...) *)
| ECatNotIn (c : chr) (ks : list cc) (* text.peek(k).category not in (CC.a, ...) *)
| ECatInKeys (c : chr)               (* text.peek(k).category in mapping.keys() *)
| EEqChar (c : chr) (x : N)          (* text.peek(k) == 'x' *)
| EHasNext (n : nat)                 (* text.hasNext(n); hasNext() is hasNext(1) *)
| ERangeEqPoint                      (* text.peek((0, len(point))) == point *)
| EPrevIsNone                        (* prev is None *)
| EPrevCatNe (k : cc)                (* prev.category != CC.k *)
| EPrevCatNeTC (k : tc)              (* prev.category != TC.k *)
| EPosTruthy                         (* text.position             as a truth value *)
| EPeekIsNone (c : chr)              (* text.peek(k) is None *)
| EResEndsWith (x : N)               (* result.endswith('x') *)
| ETmpEqChar (x : N)                 (* eol == 'x'                eol the second token local *)
| EIntEq (e : iexpr) (n : nat)       (* <int> == n *)
| EKeyInMap                          (* key in mapping *)
| EResTruthy                         (* result                    as a truth value *)
| EAnd (a b : expr)
| EOr (a b : expr)
| ENot (a : expr).

Inductive stmt :=
| SNewToken (k : option tc)  (* result = Token('', text.position[, category=TC.k]) *)
| SForward (n : nat)         (* result = text.forward(n) *)
| SWrapForward (n : nat)     (* result = Token(text.forward(n), text.position) *)
| SForwardPoint              (* result = text.forward(len(point)) *)
| SAppendForward (n : nat)   (* result += text.forward(n) *)
| SAppendNext                (* result += next(text) *)
| SSkipForward (n : nat)     (* text.forward(n)              value discarded *)
| SSetCat (k : tc)           (* result.category = TC.k *)
| SSetCatMapKey              (* result.category = mapping[key] *)
| SSetCatMapOwn              (* result.category = mapping[result.category] *)
| SSetMap (d : dict)         (* mapping = { ... } *)
| SSetKey (a b : chr)        (* key = (text.peek(a).category, text.peek(b).category) *)
| SRollback                  (* text.backward(text.position - result.position) *)
| SSetStart                  (* start = text.position *)
| SNewTokenStart (k : option tc)  (* result = Token('', start[, category=TC.k]) *)
| SRollbackStart             (* text.backward(text.position - start) *)
| STmpForward (n : nat)      (* eol = text.forward(n) *)
| SAppendTmp                 (* result += eol *)
| SSetInt (e : iexpr)        (* n = <int> *)
| SForwardI (e : iexpr)      (* result = text.forward(<int>) *)
| SAppendForwardI (e : iexpr)  (* result += text.forward(<int>) *)
| SBackwardI (e : iexpr)     (* text.backward(<int>) *)
| SForwardUntil (p : pred)   (* result = text.forward_until(p) *)
| SReturnRes                 (* return result *)
| SReturnNone                (* return *)
| SIf (c : expr) (a b : block)   (* if c: a else: b     (no else: b empty) *)
| SWhile (c : expr) (b : block)  (* while c: b *)
| SForPoints (b : block)         (* for point in PUNCTUATION_COMMANDS: b *)
with block :=
| BNil
| BCons (s : stmt) (b : block).

Fixpoint blk (l : list stmt) : block :=
  match l with
  | [] => BNil
  | s :: l' => BCons s (blk l')
  end.

Definition program := block.

(* ----------------------------------------------------------------- context *)

(* What a rule call receives from outside: text.position at the call, the
   previous token `prev`, what text.peek(-1) returns before anything is
   consumed, and the iteration order of PUNCTUATION_COMMANDS (a Python set;
   Tokenizer.v takes the order as a parameter too). *)
Record dctx := mkd { d_idx : Z; d_prev : option token;
                     d_prevc : option cchar; d_points : list str }.

Definition ctx_of (r : rule_id) (cx : rctx) : dctx :=
  mkd (cx_idx cx) (cx_prev cx)
      (match r with
       | R_command_name => cx_prevc_cmd cx
       | _ => cx_prevc_punct cx
       end)
      (cx_points cx).

(* ------------------------------------------------------------------- state *)

(* the category attribute of a Token object: None, a CC member (characters and
   what forward/next return) or a TC member (what the rules assign) *)
Inductive catv := KNone | KCC (k : cc) | KTC (k : tc).

Record tokv := mkv { v_text : str; v_pos : Z; v_cat : catv }.

(* s_res, s_map, s_key, s_point, s_start, s_tmp: the locals `result` (called `c`
   in one rule), `mapping`, `key`, `point`, an int local holding a recorded
   text.position, a second token local; None = not bound yet *)
Record state := mks { s_rest : list cchar; s_back : list cchar;
                      s_res : option tokv; s_map : option dict;
                      s_key : option dkey; s_point : option str;
                      s_start : option Z; s_tmp : option tokv; s_int : option nat }.

Definition init_state (rest : list cchar) : state :=
  mks rest [] None None None None None None None.

Definition position (cx : dctx) (st : state) : Z :=
  (d_idx cx + Z.of_nat (length (s_back st)))%Z.

Definition peekc (cx : dctx) (st : state) (c : chr) : option cchar :=
  match c with
  | Peek k => nth_error (s_rest st) k
  | PeekPrev => match s_back st with
                | b :: _ => Some b
                | [] => d_prevc cx
                end
  end.

Definition dkey_eqb (x y : dkey) : bool :=
  match x, y with
  | K1 a, K1 b => cc_beq a b
  | K2 a b, K2 c d => cc_beq a c && cc_beq b d
  | _, _ => false
  end.

(* the translator rejects dict literals with a repeated key, so "first match"
   is the dict's value *)
Fixpoint dict_get (m : dict) (k : dkey) : option tc :=
  match m with
  | [] => None
  | (k', v) :: m' => if dkey_eqb k k' then Some v else dict_get m' k
  end.

Definition dict_has (m : dict) (k : dkey) : bool :=
  match dict_get m k with Some _ => true | None => false end.

(* ------------------------------------------------------------- expressions *)

Inductive eres :=
| VB (b : bool)
| VAttr            (* AttributeError: .category of None *)
| VUnsup.          (* outside the modelled fragment, see the header *)

Definition cat_test (o : option cchar) (f : cc -> bool) : eres :=
  match o with
  | Some c => VB (f (ccat c))
  | None => VAttr
  end.

Definition nonempty {A} (l : list A) : bool :=
  match l with [] => false | _ :: _ => true end.

Definition pred_holds (p : pred) (c : cchar) : bool :=
  match p with
  | PCatEq k => cc_beq (ccat c) k
  | PCatNe k => negb (cc_beq (ccat c) k)
  | PCatIn ks => mem_cc (ccat c) ks
  | PCatNotIn ks => negb (mem_cc (ccat c) ks)
  end.

(* the characters before the first one satisfying p *)
Fixpoint until_pred (p : pred) (l : list cchar) : nat :=
  match l with
  | [] => O
  | c :: l' => if pred_holds p c then O else S (until_pred p l')
  end.

Definition ieval (e : iexpr) (st : state) : option nat :=
  match e with
  | INum n => Some n
  | IVar => s_int st
  | INumUntil p => Some (until_pred p (s_rest st))
  | ILenRes => match s_res st with Some v => Some (length (v_text v)) | None => None end
  end.

Fixpoint eval (cx : dctx) (e : expr) (st : state) : eres :=
  match e with
  | ETruthy c => VB (match peekc cx st c with Some _ => true | None => false end)
  | ECatEq c k => cat_test (peekc cx st c) (fun x => cc_beq x k)
  | ECatNe c k => cat_test (peekc cx st c) (fun x => negb (cc_beq x k))
  | ECatIn c ks => cat_test (peekc cx st c) (fun x => mem_cc x ks)
  | ECatNotIn c ks => cat_test (peekc cx st c) (fun x => negb (mem_cc x ks))
  | ECatInKeys c =>
    (* the left operand is evaluated first *)
    match peekc cx st c with
    | None => VAttr
    | Some x => match s_map st with
                | Some m => VB (dict_has m (K1 (ccat x)))
                | None => VUnsup
                end
    end
  | EEqChar c x =>
    (* None == 'x' is False; Token.__eq__ compares the text *)
    VB (match peekc cx st c with Some y => N.eqb (ch y) x | None => false end)
  | EHasNext n =>
    match n with
    | O => VUnsup
    | S k => VB (match nth_error (s_rest st) k with Some _ => true | None => false end)
    end
  | ERangeEqPoint =>
    (* a slice never fails: it is the text of the characters that exist *)
    match s_point st with
    | Some p => VB (str_eqb (firstn (length p) (chars_of (s_rest st))) p)
    | None => VUnsup
    end
  | EPrevIsNone => VB (match d_prev cx with None => true | Some _ => false end)
  | EPrevCatNe k =>
    match d_prev cx with
    | None => VAttr
    | Some t => VB (negb (N.eqb (Tables.tc_value (tcat t)) (Tables.cc_value k)))
    end
  | EPrevCatNeTC k =>
    match d_prev cx with
    | None => VAttr
    | Some t => VB (negb (N.eqb (Tables.tc_value (tcat t)) (Tables.tc_value k)))
    end
  | EPosTruthy => VB (negb (Z.eqb (position cx st) 0))
  | EPeekIsNone c => VB (match peekc cx st c with Some _ => false | None => true end)
  | EResEndsWith x =>
    match s_res st with
    | Some v => VB (match rev (v_text v) with y :: _ => N.eqb y x | [] => false end)
    | None => VUnsup
    end
  | ETmpEqChar x =>
    match s_tmp st with
    | Some v => VB (str_eqb (v_text v) [x])
    | None => VUnsup
    end
  | EIntEq e n =>
    match ieval e st with
    | Some m => VB (Nat.eqb m n)
    | None => VUnsup
    end
  | EKeyInMap =>
    match s_key st, s_map st with
    | Some k, Some m => VB (dict_has m k)
    | _, _ => VUnsup
    end
  | EResTruthy =>
    match s_res st with
    | Some v => VB (nonempty (v_text v))
    | None => VUnsup
    end
  | EAnd a b =>
    match eval cx a st with
    | VB true => eval cx b st
    | VB false => VB false
    | x => x
    end
  | EOr a b =>
    match eval cx a st with
    | VB true => VB true
    | VB false => eval cx b st
    | x => x
    end
  | ENot a =>
    match eval cx a st with
    | VB b => VB (negb b)
    | x => x
    end
  end.

(* -------------------------------------------------------------- statements *)

Inductive xres :=
| XNormal (st : state)                    (* fell through to the next statement *)
| XReturn (r : option tokv) (st : state)  (* return result / return *)
| XAttr
| XUnsup
| XFuel.

(* the first n characters and the others; None when fewer than n are left *)
Fixpoint split_n (n : nat) (l : list cchar) : option (list cchar * list cchar) :=
  match n with
  | O => Some ([], l)
  | S n' =>
    match l with
    | [] => None
    | c :: l' =>
      match split_n n' l' with
      | Some (a, b) => Some (c :: a, b)
      | None => None
      end
    end
  end.

(* text.forward(n): the joined token and the moved cursor *)
Definition forward (n : nat) (st : state) : option (tokv * state) :=
  match split_n n (s_rest st) with
  | Some (c :: a, b) =>
    Some (mkv (chars_of (c :: a)) (cpos c) (KCC (ccat c)),
          mks b (rev (c :: a) ++ s_back st) (s_res st) (s_map st) (s_key st) (s_point st)
              (s_start st) (s_tmp st) (s_int st))
  | _ => None      (* n = 0, or fewer than n characters left *)
  end.

Definition set_res (v : tokv) (st : state) : state :=
  mks (s_rest st) (s_back st) (Some v) (s_map st) (s_key st) (s_point st) (s_start st) (s_tmp st) (s_int st).

Definition set_point (p : str) (st : state) : state :=
  mks (s_rest st) (s_back st) (s_res st) (s_map st) (s_key st) (Some p) (s_start st) (s_tmp st) (s_int st).

Definition set_start (z : Z) (st : state) : state :=
  mks (s_rest st) (s_back st) (s_res st) (s_map st) (s_key st) (s_point st) (Some z) (s_tmp st) (s_int st).

Definition set_tmp (v : tokv) (st : state) : state :=
  mks (s_rest st) (s_back st) (s_res st) (s_map st) (s_key st) (s_point st) (s_start st) (Some v) (s_int st).

(* text.backward(text.position - target): back to the index `target`, which
   must lie within what this call has consumed *)
Definition rollback_to (cx : dctx) (target : Z) (st : state) : option state :=
  let n := (position cx st - target)%Z in
  if (n <? 0)%Z || (Z.of_nat (length (s_back st)) <? n)%Z then None
  else let k := Z.to_nat n in
       Some (mks (rev (firstn k (s_back st)) ++ s_rest st) (skipn k (s_back st))
                 (s_res st) (s_map st) (s_key st) (s_point st) (s_start st) (s_tmp st) (s_int st)).

(* a += b *)
Definition tok_add (a b : tokv) : tokv := mkv (v_text a ++ v_text b) (v_pos a) (v_cat a).

Definition with_res (st : state) (f : tokv -> xres) : xres :=
  match s_res st with
  | Some v => f v
  | None => XUnsup
  end.

Fixpoint while_loop (ev : state -> eres) (body : state -> xres) (fuel : nat) (st : state)
  : xres :=
  match fuel with
  | O => XFuel
  | S f =>
    match ev st with
    | VB true =>
      match body st with
      | XNormal st' => while_loop ev body f st'
      | x => x
      end
    | VB false => XNormal st
    | VAttr => XAttr
    | VUnsup => XUnsup
    end
  end.

Fixpoint for_points (body : state -> xres) (ps : list str) (st : state) : xres :=
  match ps with
  | [] => XNormal st
  | p :: ps' =>
    match body (set_point p st) with
    | XNormal st' => for_points body ps' st'
    | x => x
    end
  end.

Fixpoint exec_stmt (cx : dctx) (s : stmt) (st : state) {struct s} : xres :=
  match s with
  | SNewToken k =>
    XNormal (set_res (mkv [] (position cx st)
                          (match k with Some t => KTC t | None => KNone end)) st)
  | SForward n =>
    match forward n st with
    | Some (t, st') => XNormal (set_res t st')
    | None => XUnsup
    end
  | SWrapForward n =>
    (* Token(tok, pos) with tok a Token is a copy of tok *)
    match forward n st with
    | Some (t, st') => XNormal (set_res t st')
    | None => XUnsup
    end
  | SForwardPoint =>
    match s_point st with
    | Some p =>
      match forward (length p) st with
      | Some (t, st') => XNormal (set_res t st')
      | None => XUnsup
      end
    | None => XUnsup
    end
  | SAppendForward n =>
    with_res st (fun v =>
      match forward n st with
      | Some (t, st') => XNormal (set_res (tok_add v t) st')
      | None => XUnsup
      end)
  | SAppendNext =>
    with_res st (fun v =>
      match s_rest st with
      | c :: r =>
        XNormal (mks r (c :: s_back st) (Some (tok_add v (mkv [ch c] (cpos c) (KCC (ccat c)))))
                     (s_map st) (s_key st) (s_point st) (s_start st) (s_tmp st) (s_int st))
      | [] => XUnsup     (* StopIteration *)
      end)
  | SSkipForward n =>
    match forward n st with
    | Some (_, st') => XNormal st'
    | None => XUnsup
    end
  | SSetCat k =>
    with_res st (fun v => XNormal (set_res (mkv (v_text v) (v_pos v) (KTC k)) st))
  | SSetCatMapKey =>
    with_res st (fun v =>
      match s_map st, s_key st with
      | Some m, Some k =>
        match dict_get m k with
        | Some t => XNormal (set_res (mkv (v_text v) (v_pos v) (KTC t)) st)
        | None => XUnsup     (* KeyError *)
        end
      | _, _ => XUnsup
      end)
  | SSetCatMapOwn =>
    with_res st (fun v =>
      match s_map st, v_cat v with
      | Some m, KCC k =>
        match dict_get m (K1 k) with
        | Some t => XNormal (set_res (mkv (v_text v) (v_pos v) (KTC t)) st)
        | None => XUnsup     (* KeyError *)
        end
      | _, _ => XUnsup
      end)
  | SSetMap d =>
    XNormal (mks (s_rest st) (s_back st) (s_res st) (Some d) (s_key st) (s_point st)
                 (s_start st) (s_tmp st) (s_int st))
  | SSetKey a b =>
    match peekc cx st a with
    | None => XAttr
    | Some x =>
      match peekc cx st b with
      | None => XAttr
      | Some y =>
        XNormal (mks (s_rest st) (s_back st) (s_res st) (s_map st)
                     (Some (K2 (ccat x) (ccat y))) (s_point st) (s_start st) (s_tmp st) (s_int st))
      end
    end
  | SRollback =>
    with_res st (fun v =>
      match rollback_to cx (v_pos v) st with
      | Some st' => XNormal st'
      | None => XUnsup
      end)
  | SSetStart => XNormal (set_start (position cx st) st)
  | SNewTokenStart k =>
    match s_start st with
    | Some z => XNormal (set_res (mkv [] z (match k with Some t => KTC t | None => KNone end)) st)
    | None => XUnsup
    end
  | SRollbackStart =>
    match s_start st with
    | Some z =>
      match rollback_to cx z st with
      | Some st' => XNormal st'
      | None => XUnsup
      end
    | None => XUnsup
    end
  | STmpForward n =>
    match forward n st with
    | Some (t, st') => XNormal (set_tmp t st')
    | None => XUnsup
    end
  | SAppendTmp =>
    with_res st (fun v =>
      match s_tmp st with
      | Some t => XNormal (set_res (tok_add v t) st)
      | None => XUnsup
      end)
  | SSetInt e =>
    match ieval e st with
    | Some n => XNormal (mks (s_rest st) (s_back st) (s_res st) (s_map st) (s_key st) (s_point st)
                             (s_start st) (s_tmp st) (Some n))
    | None => XUnsup
    end
  | SForwardI e =>
    match ieval e st with
    | Some n =>
      match forward n st with
      | Some (t, st') => XNormal (set_res t st')
      | None => XUnsup
      end
    | None => XUnsup
    end
  | SAppendForwardI e =>
    with_res st (fun v =>
      match ieval e st with
      | Some n =>
        match forward n st with
        | Some (t, st') => XNormal (set_res (tok_add v t) st')
        | None => XUnsup
        end
      | None => XUnsup
      end)
  | SBackwardI e =>
    match ieval e st with
    | Some n =>
      match rollback_to cx (position cx st - Z.of_nat n)%Z st with
      | Some st' => XNormal st'
      | None => XUnsup
      end
    | None => XUnsup
    end
  | SForwardUntil p =>
    let n := until_pred p (s_rest st) in
    let pos := match s_rest st with c :: _ => cpos c | [] => position cx st end in
    match n with
    | O => XNormal (set_res (mkv [] pos KNone) st)
    | S _ =>
      match forward n st with
      | Some (t, st') => XNormal (set_res (mkv (v_text t) pos KNone) st')
      | None => XUnsup
      end
    end
  | SReturnRes => with_res st (fun v => XReturn (Some v) st)
  | SReturnNone => XReturn None st
  | SIf c a b =>
    match eval cx c st with
    | VB true => exec_block cx a st
    | VB false => exec_block cx b st
    | VAttr => XAttr
    | VUnsup => XUnsup
    end
  | SWhile c b =>
    while_loop (eval cx c) (exec_block cx b) (S (length (s_rest st))) st
  | SForPoints b =>
    for_points (exec_block cx b) (d_points cx) st
  end
with exec_block (cx : dctx) (b : block) (st : state) {struct b} : xres :=
  match b with
  | BNil => XNormal st
  | BCons s b' =>
    match exec_stmt cx s st with
    | XNormal st' => exec_block cx b' st'
    | x => x
    end
  end.

(* ------------------------------------------------------------ rule results *)

Inductive outcome :=
| ODone (r : rres)
| OUnsup
| OFuel.

(* Falling off the end of a def returns None.  A None result is RNone when the
   cursor is where it was and RSkip when it moved (what next_token tests with
   text.position != start).  A returned token must carry a TC category to be a
   `token` of the model. *)
Definition none_result (st : state) : rres :=
  match s_back st with
  | [] => RNone
  | _ :: _ => RSkip (s_rest st)
  end.

Definition finish (x : xres) : outcome :=
  match x with
  | XNormal st => ODone (none_result st)
  | XReturn None st => ODone (none_result st)
  | XReturn (Some v) st =>
    match v_cat v with
    | KTC k => ODone (RTok (mkt (v_text v) (v_pos v) k) (s_rest st))
    | _ => OUnsup
    end
  | XAttr => ODone RErr
  | XUnsup => OUnsup
  | XFuel => OFuel
  end.

Definition run_full (p : program) (cx : dctx) (rest : list cchar) : outcome :=
  finish (exec_block cx p (init_state rest)).

(* same result type as the hand-written rules; the theorems are about
   run_full, so the last two cases are proved not to occur *)
Definition run_stmts (p : program) (cx : dctx) (rest : list cchar) : rres :=
  match run_full p cx rest with
  | ODone r => r
  | OUnsup => RErr
  | OFuel => RErr
  end.

(* ------------------------------------------------------------------ driver *)

(* Tokenizer.run_rules / tokenize_loop with the rule bodies taken from a table
   of programs instead of the hand-written functions. *)
Fixpoint run_rules_g (tbl : rule_id -> program) (rules : list rule_id) (cx : rctx)
         (rest : list cchar) : rres :=
  match rules with
  | [] => RNone
  | r :: rs =>
    match run_stmts (tbl r) (ctx_of r cx) rest with
    | RNone => run_rules_g tbl rs cx rest
    | x => x
    end
  end.

Fixpoint tokenize_loop_g (tbl : rule_id -> program) (order : list rule_id)
         (fuel : nat) (points : list str) (idx : Z)
         (pp pc : option cchar) (prev : option token) (rest : list cchar)
  : list token * tok_end :=
  match fuel with
  | O => ([], TEndFuel)
  | S f =>
    match rest with
    | [] => ([], TEnd)
    | _ :: _ =>
      match run_rules_g tbl order (mkctx idx prev pp pc points) rest with
      | RTok t rest' =>
        let k := Z.of_nat (length rest - length rest') in
        let lc := last_consumed rest rest' in
        let (ts, e) := tokenize_loop_g tbl order f points (idx + k)%Z lc lc (Some t) rest' in
        (t :: ts, e)
      | RSkip rest' =>
        let k := Z.of_nat (length rest - length rest') in
        let lc := last_consumed rest rest' in
        tokenize_loop_g tbl order f points (idx + k)%Z lc lc prev rest'
      | RNone => ([], TEndHang)
      | RErr => ([], TEndErr)
      end
    end
  end.

Definition tokenize_g (tbl : rule_id -> program) (order : list rule_id) (cs : list cchar)
  : list token * tok_end :=
  tokenize_loop_g tbl order (S (length cs)) Tables.punctuation_commands 0%Z
                  (start_prev_punct cs)
                  (start_prev_cmd Tables.punctuation_commands cs) None cs.
