(* A small dynamically typed language for the method bodies of class Token
   (TexSoup/utils.py) AS WRITTEN, and its total interpreter.

   Every other translator of this development (gen_tokrules / gen_buffer /
   gen_glue / gen_reader / gen_views / gen_edit) treats `Token` as a PRIMITIVE
   whose meaning is built into its interpreter and merely pins the source text
   of the class.  Here the class itself is translated: harness/gen_token.py
   reads the Python `ast` of utils.py on every run and writes

     __new__  __repr__  __str__  __getattr__  __eq__  __hash__  __add__
     __radd__  __iadd__  join  __bool__  __contains__  __iter__  __iter (the
     private generator)  __getitem__  strip  lstrip  rstrip     and the
     module-level statement  Token.Empty = Token('', position=0)

   as terms of this language (Model/TokenGen.v).  Proofs/TokenGenProofs.v
   proves that interpreting them gives the hand-written token operations of
   Model/TokenSpec.v, and from that every reading of `Token` that the other
   interpreters build in.  Trusted: (a) the translator maps each Python
   construct to the constructor named after it, (b) the interpreter below gives
   that construct the meaning it has in Python for the values involved.  Every
   semantic decision:

   ------------------------------------------------------------------ values
   VNone VBool VInt     None, bool, int
   VStr s               a plain str (list of code points, Base.str)
   VEnum e              a member of the IntEnum CC or TC; its int is
                        Tables.cc_value / tc_value (regenerated from the source)
   VTok pay text pos cat   a Token object.  `pay` is the str value the object
                        IS (what str.__new__(cls, x) stored: every method that
                        Token inherits from str -- len, startswith, isspace, !=,
                        `tok in 'abc'`, 'sep'.join([tok]) -- works on it); text /
                        pos / cat are the instance attributes `text`, `position`,
                        `category`: None = not set yet, Some v = any value.
                        `tokval s p c` is the token the constructor builds from a
                        plain str: payload s, text s, position p, category c.
   VSlice lo hi st      a slice object
   VTuple l / VList l   tuple / list
   VKw l                the dict bound to a `**kwargs` parameter
   VIter l e            an iterator object (generator, enumerate, iter(..)): it
                        will produce the items l and then stop (e = None) or
                        raise e.  Generators are run EAGERLY when created; the
                        exception a lazy generator would raise when resumed is
                        kept in e and raised by whoever exhausts it.  This is
                        exact because (1) generator bodies and generator
                        expressions here have no side effects, (2) an iterator is
                        never consumed twice: `iterate` accepts an iterator only
                        as the value of an operand expression that CREATES it (a
                        call, a generator expression, enumerate(..), iter(..):
                        `fresh`), never one read from a variable, parameter,
                        attribute or container (OUnsup), and `return e` hands out
                        an iterator only if e is such an expression (else
                        OUnsup) -- so the value of a fresh expression is always
                        an iterator made during its evaluation and reachable
                        from nowhere else; (3) provided nobody re-assigns an
                        attribute of the token while a generator over it is alive
                        (a lazy generator reads self.text / position / category
                        at each step).
   VCls                 the class object Token (the `cls` argument; the global
                        name Token).  Subclasses of Token are not modelled.
   VBound s a           getattr(s, a) for a plain str s and the name a of a str
                        method: an opaque bound method (calling it is OUnsup)
   VHash s / VRepr s    hash(s) / repr(s) of the plain str s: opaque results
                        (an int / a str in Python; all that matters is that equal
                        strs give equal results).  Using them is OUnsup.

   ------------------------------------------------------------------ results
   RV v    a value.     RX e    one of TypeError, IndexError, AttributeError.
   RU      outside the modelled fragment (OUnsup): never a normal-looking value.
           Every Python error other than the three above, wrong arity, bool /
           IntEnum arithmetic, str ordering, slices with a step, str() of a
           non-str, hash of an int ... are RU.
   RF      call depth exhausted (a RecursionError ends up here: reading
           self.text on an object whose `text` is unset re-enters __getattr__).

   --------------------------------------------------------------- expressions
   x.a     on a Token: the instance attribute text / position / category if set;
           `Empty`: the class attribute, i.e. the value of the module-level
           statement evaluated afresh (exact while nobody mutates the shared
           object; tokens.py never does: TokDSL.v makes forward(0) OUnsup); the
           name of a Token method or of a str method: a bound method, OUnsup;
           a name that neither Token nor str defines (`str_has` = Some false:
           a fixed list, below): type(x).__getattr__(x, 'a'), the translated
           method; any other name OUnsup.
           on a plain str: VBound for a str method, AttributeError for a name
           str does not have, else OUnsup.   on a slice: start / stop / step.
           on None / bool / int / IntEnum member / tuple / list: AttributeError
           for text position category start stop step, else OUnsup.
           on the class: Empty; else OUnsup.
   getattr(x, n)   n a str (a Token: its payload): as x.n; n not a str: TypeError.
   a + b   Token + anything: type(a).__add__(a, b) (translated).  non-Token +
           Token: b.__radd__(a) (translated) -- CPython tries the reflected
           method of the right operand first when its type is a subclass of the
           left one's, and for the other left operands (None, int) their own
           __add__ is missing or answers NotImplemented.  int + int, str + str.
           None with None/int/str, int with str: TypeError.  Else OUnsup.
   a - b   ints; None with int: TypeError; else OUnsup.
   a == b  a Token on either side: the translated __eq__ of the Token with the
           other operand (reflected first for a plain str on the left, because
           Token is a subclass of str that overrides __eq__; None / int on the
           left answer NotImplemented); its result is the value of the
           comparison.  str/str by code points, None/None, int/int, bool/bool,
           IntEnum members and ints by int value; different kinds among None,
           str, int-like, bool: False (bool against int-like: OUnsup).
           a != b  is only defined without a Token operand (a Token inherits
           str.__ne__, which compares PAYLOADS; not used by the class).
   < <= > >=   ints; None or str against int: TypeError; else OUnsup.
   a in b  b a Token: bool(type(b).__contains__(b, a)) (translated).  b a plain
           str: a str -> substring test; a Token -> substring test of its
           PAYLOAD (PyUnicode_Contains takes any str instance); None / number /
           tuple / list -> TypeError.  Else OUnsup.
   a is None.   not a, a and b, a or b   Python's value semantics: `a or b` is a
           if a is truthy, else b (b evaluated only then).
   truth   None False; bool; int != 0; str / tuple / list non-empty; IntEnum
           member: its int != 0; Token: type(x).__bool__(x) (translated), which
           must return a bool (else TypeError); the class: True; else OUnsup.
   isinstance(x, Token / int / str)   Token: a VTok.  int: int, bool, IntEnum
           member.  str: str and Token.  (VHash / VRepr: OUnsup.)
   len(x)  str, tuple, list; Token: the length of its payload (str.__len__);
           None / bool / int / IntEnum / iterator: TypeError.
   str(x)  plain str: itself.  Token: type(x).__str__(x) (translated), which must
           return a str or Token (returned as it is), else TypeError.
   repr(x) plain str: VRepr.  Token: translated __repr__ (str-like result).
   hash(x) plain str: VHash.  Token: translated __hash__ (VHash result).
   iter(x), `for .. in x`, enumerate(x), generator expressions over x, sep.join(x)
           x a tuple/list: its elements; a plain str: its characters (plain
           one-character strs); a Token: type(x).__iter__(x) (translated), which
           must return an iterator; a fresh iterator: itself; None / bool / int /
           IntEnum / the class: TypeError.
   x[i]    plain str: int i -> Python indexing (negative from the end,
           IndexError out of range); slice with step None -> bounds clipped as by
           PySlice_AdjustIndices, never raises; None / str / tuple / list index:
           TypeError.  tuple/list with an int likewise.  Token: the translated
           __getitem__.  None / int: TypeError.  Else OUnsup.
   str.__new__(c, x)   c the class Token.  x a plain str: a Token object with
           payload x and NO attribute set.  x a Token: payload = the payload of
           str(x) (the translated __str__).  Other x (needs formatting): OUnsup.
   Token(a, ..)   type.__call__: Token.__new__(Token, a, ..) (translated; the
           translator has put keyword arguments into their positions using the
           parameter list it translates), then __init__, which is
           object.__init__ and ignores the arguments because __new__ is
           overridden.
   e.m(a, .., *s, **k)   receiver first, then arguments left to right.
           plain str receiver: the builtins strip / lstrip / rstrip (no argument
           or None: Python whitespace, Tables.py_whitespace as in Tree.v; a str
           or Token: that set of characters; other: TypeError; two arguments or
           any keyword: TypeError), find (one str argument: lowest index of the
           substring or -1), join (above; a non-str item: TypeError, after the
           iterable is exhausted).  Other str methods OUnsup.
           Token receiver: a method the class defines -> the translated method
           (instance method: bound to the receiver; classmethod: to the class);
           otherwise the str builtin on the payload.
           the class as receiver: Token.join(..), Token.m(obj, ..).
           None / bool / int receiver and one of these names: AttributeError.
           *s must be a tuple/list, **k a VKw.
   (elt for x in it)   `it` is evaluated at once (as Python does), elt once per
           item with x bound in its own slot; an exception in elt is kept as the
           pending exception of the resulting iterator.

   ---------------------------------------------------------------- statements
   x = e;  x.a = e  (x a local that holds the object just created by
   str.__new__ and is used for nothing but attribute access and `return x`: the
   translator checks it, so updating the VALUE of x is Python's mutation;
   a in text / position / category);  return e;  yield e;  if/elif/else;
   for x in e / for x, y in e (y.. unpacked from a tuple of that length).
   A def containing yield is a generator function: a call returns VIter.
   A def that falls off its end returns None.  Reading an unbound local is RU.
   Parameters: positional, trailing defaults (constants), *args (a tuple),
   **kwargs (always the empty dict here: callers pass keywords only to
   Token(..), which the translator resolves).
   Calls nest at most call_depth deep. *)
From Coq Require Import String Ascii.
From Coq Require Import List NArith ZArith Bool.
From TexModel Require Import Base Tables Chars Tokenizer Tree.
Import ListNotations.
Local Open Scope Z_scope.

(* an ASCII identifier or literal as a Python str *)
Definition py (s : string) : str := map N_of_ascii (list_ascii_of_string s).

(* ------------------------------------------------------------------ values *)

Inductive exn := TypeError | IndexError | AttributeError.

Inductive enumv := ECC (k : cc) | ETC (k : tc).

Definition enum_int (e : enumv) : Z :=
  match e with
  | ECC k => Z.of_N (Tables.cc_value k)
  | ETC k => Z.of_N (Tables.tc_value k)
  end.

Inductive value :=
| VNone
| VBool (b : bool)
| VInt (z : Z)
| VStr (s : str)
| VEnum (e : enumv)
| VTok (pay : str) (text pos cat : option value)
| VSlice (lo hi st : value)
| VTuple (l : list value)
| VList (l : list value)
| VKw (l : list (str * value))
| VIter (l : list value) (e : option exn)
| VCls
| VBound (s : str) (a : str)
| VHash (s : str)
| VRepr (s : str).

(* the Token built from a plain str *)
Definition tokval (s : str) (p c : value) : value := VTok s (Some (VStr s)) (Some p) (Some c).

Inductive res := RV (v : value) | RX (e : exn) | RU | RF.

(* ------------------------------------------------------------------ syntax *)

Inductive meth :=
| M_new | M_repr | M_str | M_getattr | M_eq | M_hash | M_add | M_radd | M_iadd | M_join
| M_bool | M_contains | M_iter | M_priv_iter | M_getitem | M_strip | M_lstrip | M_rstrip.

Inductive cname := KToken | KInt | KStr.
Inductive cmpop := CEq | CNe | CLt | CLe | CGt | CGe | CIn | CNotIn.

Inductive expr :=
| ENone
| EBool (b : bool)
| EInt (z : Z)
| EStr (s : str)
| EVar (x : nat)                       (* parameters 0.., *args, **kwargs, then locals in order of first binding *)
| ECls                                 (* the global name Token *)
| EAttr (e : expr) (a : str)           (* e.a *)
| EAdd (a b : expr)
| ESub (a b : expr)
| ECmp (o : cmpop) (a b : expr)
| EIsNone (a : expr)                   (* a is None;  `a is not None` is ENot (EIsNone a) *)
| ENot (a : expr)
| EAnd (a b : expr)
| EOr (a b : expr)
| EIsInstance (a : expr) (c : cname)   (* isinstance(a, Token / int / str) *)
| EBoolOf (a : expr)
| ELen (a : expr)
| EStrOf (a : expr)
| EReprOf (a : expr)
| EHashOf (a : expr)
| EIterOf (a : expr)
| EEnumerate (a : expr)
| EGetattr (a n : expr)                (* getattr(a, n) *)
| EIndex (a i : expr)                  (* a[i] *)
| ENewStr (c t : expr)                 (* str.__new__(c, t) *)
| ECallCls (xs : args)                 (* Token(xs) *)
| ECallMeth (e : expr) (m : str) (xs : args)                 (* e.m(xs) *)
| ECallMethSK (e : expr) (m : str) (xs : args) (s k : expr)  (* e.m(xs, *s, **k) *)
| EGenExp (x : nat) (elt it : expr)    (* (elt for x in it) *)
with args :=
| ANil
| ACons (e : expr) (xs : args).

Fixpoint args_of (l : list expr) : args :=
  match l with
  | [] => ANil
  | e :: l' => ACons e (args_of l')
  end.

Inductive stmt :=
| SExpr (e : expr)
| SAssign (x : nat) (e : expr)
| SSetAttr (x : nat) (a : str) (e : expr)     (* x.a = e *)
| SReturn (e : expr)
| SYield (e : expr)
| SIf (c : expr) (a b : block)
| SFor (xs : list nat) (it : expr) (b : block)
with block :=
| BNil
| BCons (s : stmt) (b : block).

Fixpoint blk (l : list stmt) : block :=
  match l with
  | [] => BNil
  | s :: l' => BCons s (blk l')
  end.

(* KInstance: the first parameter is the receiver; KClassmethod: @classmethod,
   the first parameter is the class; KStaticNew: __new__ (implicitly static) *)
Inductive mkind := KInstance | KClassmethod | KStaticNew.

(* one def: a default (or None) per parameter INCLUDING the first, *args?,
   **kwargs?, contains yield?, body *)
Record mdef := mkM { m_kind : mkind; m_params : list (option value);
                     m_vararg : bool; m_kwarg : bool; m_gen : bool; m_body : block }.

(* the class as generated; c_empty: the right-hand side of Token.Empty = ... *)
Record cls := mkC { c_meth : meth -> mdef; c_empty : expr }.

(* ------------------------------------------------------------------- names *)

Definition a_text : str := Eval vm_compute in py "text".
Definition a_position : str := Eval vm_compute in py "position".
Definition a_category : str := Eval vm_compute in py "category".
Definition a_Empty : str := Eval vm_compute in py "Empty".
Definition a_start : str := Eval vm_compute in py "start".
Definition a_stop : str := Eval vm_compute in py "stop".
Definition a_step : str := Eval vm_compute in py "step".
Definition a_strip : str := Eval vm_compute in py "strip".
Definition a_lstrip : str := Eval vm_compute in py "lstrip".
Definition a_rstrip : str := Eval vm_compute in py "rstrip".
Definition a_find : str := Eval vm_compute in py "find".
Definition a_join : str := Eval vm_compute in py "join".

(* Python name of each translated def, as written in the class body (`__iter`
   is the private generator; name mangling applies to the def and to its use
   inside the class alike) *)
Definition meth_names : list (str * meth) := Eval vm_compute in
  [(py "__new__", M_new); (py "__repr__", M_repr); (py "__str__", M_str);
   (py "__getattr__", M_getattr); (py "__eq__", M_eq); (py "__hash__", M_hash);
   (py "__add__", M_add); (py "__radd__", M_radd); (py "__iadd__", M_iadd);
   (py "join", M_join); (py "__bool__", M_bool); (py "__contains__", M_contains);
   (py "__iter__", M_iter); (py "__iter", M_priv_iter); (py "__getitem__", M_getitem);
   (py "strip", M_strip); (py "lstrip", M_lstrip); (py "rstrip", M_rstrip)].

Definition meth_of_name (a : str) : option meth := assoc_str a meth_names.

(* Attributes of the builtin type str.  Some true: a method every supported
   Python 3 has; Some false: a name str certainly does not define (the names the
   development asks about); None: not recorded here (OUnsup). *)
Definition str_methods : list str := Eval vm_compute in map py
  ["capitalize"; "casefold"; "center"; "count"; "encode"; "endswith"; "expandtabs"; "find";
   "format"; "format_map"; "index"; "isalnum"; "isalpha"; "isdecimal"; "isdigit";
   "isidentifier"; "islower"; "isnumeric"; "isprintable"; "isspace"; "istitle"; "isupper";
   "join"; "ljust"; "lower"; "lstrip"; "maketrans"; "partition"; "replace"; "rfind";
   "rindex"; "rjust"; "rpartition"; "rsplit"; "rstrip"; "split"; "splitlines";
   "startswith"; "strip"; "swapcase"; "title"; "translate"; "upper"; "zfill";
   "__len__"; "__getitem__"; "__contains__"; "__add__"; "__mul__"; "__rmul__"; "__mod__";
   "__rmod__"; "__eq__"; "__ne__"; "__lt__"; "__le__"; "__gt__"; "__ge__"; "__hash__";
   "__str__"; "__repr__"; "__iter__"; "__format__"; "__sizeof__"; "__getnewargs__";
   "__class__"; "__doc__"; "__new__"; "__init__"; "__getattribute__"; "__setattr__";
   "__delattr__"; "__dir__"; "__reduce__"; "__reduce_ex__"; "__init_subclass__";
   "__subclasshook__"]%string.

Definition str_non_attrs : list str := Eval vm_compute in map py
  ["text"; "position"; "category"; "Empty"; "start"; "stop"; "step"; "__match__";
   "name"; "args"; "contents"; "expr"; "string"; "parent"; "children"; "all"; "begin";
   "end"; "descendants"; "find_all"; "foo"]%string.

Definition str_has (a : str) : option bool :=
  if mem_str a str_methods then Some true
  else if mem_str a str_non_attrs then Some false
  else None.

(* attribute names that None, bool, int, IntEnum members, tuple and list do not have *)
Definition plain_non_attrs : list str := [a_text; a_position; a_category; a_start; a_stop; a_step].

(* ---------------------------------------------------------- str primitives *)

Definition nonempty {A} (l : list A) : bool :=
  match l with [] => false | _ :: _ => true end.

Fixpoint lstrip_by (p : N -> bool) (s : str) : str :=
  match s with
  | c :: s' => if p c then lstrip_by p s' else s
  | [] => []
  end.
Definition rstrip_by (p : N -> bool) (s : str) : str := rev (lstrip_by p (rev s)).
Definition strip_by (p : N -> bool) (s : str) : str := rstrip_by p (lstrip_by p s).

Inductive side := SBoth | SLeft | SRight.

Definition strip_side (sd : side) (p : N -> bool) (s : str) : str :=
  match sd with
  | SBoth => strip_by p s
  | SLeft => lstrip_by p s
  | SRight => rstrip_by p s
  end.

(* s.find(sub): lowest k with s[k:k+len(sub)] == sub, else -1 *)
Fixpoint find_from (k : Z) (s sub : str) {struct s} : Z :=
  match s with
  | [] => if starts_with [] sub then k else -1
  | _ :: s' => if starts_with s sub then k else find_from (k + 1) s' sub
  end.
Definition py_find (s sub : str) : Z := find_from 0 s sub.
Definition is_sub (x s : str) : bool := 0 <=? py_find s x.

(* sep.join(l) *)
Fixpoint join_with (sep : str) (l : list str) : str :=
  match l with
  | [] => []
  | [s] => s
  | s :: l' => s ++ sep ++ join_with sep l'
  end.

(* PySlice_AdjustIndices for step 1 *)
Definition clip_idx (m : Z) (o : option Z) (dflt : Z) : Z :=
  match o with
  | None => dflt
  | Some k => let k' := if k <? 0 then k + m else k in
              if k' <? 0 then 0 else if m <? k' then m else k'
  end.

Definition py_slice {A} (l : list A) (lo hi : option Z) : list A :=
  let m := Z.of_nat (length l) in
  let a := clip_idx m lo 0 in
  let b := clip_idx m hi m in
  firstn (Z.to_nat (b - a)) (skipn (Z.to_nat a) l).

(* l[k]: None = IndexError *)
Definition py_index {A} (l : list A) (k : Z) : option A :=
  let m := Z.of_nat (length l) in
  let k' := if k <? 0 then k + m else k in
  if (k' <? 0) || (m <=? k') then None else nth_error l (Z.to_nat k').

Fixpoint enum_from (k : Z) (l : list value) : list value :=
  match l with
  | [] => []
  | x :: l' => VTuple [VInt k; x] :: enum_from (k + 1) l'
  end.

(* ------------------------------------------------------- value operations *)

Definition payload (v : value) : option str :=
  match v with
  | VStr s => Some s
  | VTok p _ _ _ => Some p
  | _ => None
  end.

(* definitely not a str instance *)
Definition not_str (v : value) : bool :=
  match v with
  | VNone | VBool _ | VInt _ | VEnum _ | VSlice _ _ _ | VTuple _ | VList _ | VKw _
  | VIter _ _ | VCls | VBound _ _ | VHash _ => true
  | VStr _ | VTok _ _ _ _ | VRepr _ => false
  end.

Definition is_iter (v : value) : bool :=
  match v with VIter _ _ => true | _ => false end.

Definition isinst (c : cname) (v : value) : option bool :=
  match v with
  | VHash _ | VRepr _ => None
  | _ =>
    Some (match c, v with
          | KToken, VTok _ _ _ _ => true
          | KInt, (VInt _ | VBool _ | VEnum _) => true
          | KStr, (VStr _ | VTok _ _ _ _) => true
          | _, _ => false
          end)
  end.

Definition bound_of (v : value) : option (option Z) :=
  match v with
  | VNone => Some None
  | VInt z => Some (Some z)
  | _ => None
  end.

Definition py_sub (a b : value) : res :=
  match a, b with
  | VInt x, VInt y => RV (VInt (x - y))
  | VNone, (VNone | VInt _) | VInt _, VNone => RX TypeError
  | _, _ => RU
  end.

Definition int_cmp (o : cmpop) (x y : Z) : bool :=
  match o with
  | CLt => x <? y
  | CLe => x <=? y
  | CGt => y <? x
  | CGe => y <=? x
  | _ => false
  end.

Definition py_order (o : cmpop) (a b : value) : res :=
  match a, b with
  | VInt x, VInt y => RV (VBool (int_cmp o x y))
  | (VNone | VStr _), VInt _ | VInt _, (VNone | VStr _) | VNone, VNone => RX TypeError
  | _, _ => RU
  end.

Definition py_len (v : value) : res :=
  match v with
  | VStr s => RV (VInt (Z.of_nat (length s)))
  | VTok p _ _ _ => RV (VInt (Z.of_nat (length p)))
  | VTuple l | VList l => RV (VInt (Z.of_nat (length l)))
  | VNone | VBool _ | VInt _ | VEnum _ | VIter _ _ => RX TypeError
  | _ => RU
  end.

Definition slice_attr (lo hi st : value) (a : str) : res :=
  if str_eqb a a_start then RV lo
  else if str_eqb a a_stop then RV hi
  else if str_eqb a a_step then RV st
  else RU.

(* x[i] for x a plain str *)
Definition str_getitem (s : str) (i : value) : res :=
  match i with
  | VInt k => match py_index s k with
              | Some c => RV (VStr [c])
              | None => RX IndexError
              end
  | VSlice lo hi VNone =>
    match bound_of lo, bound_of hi with
    | Some l, Some h => RV (VStr (py_slice s l h))
    | _, _ => RU
    end
  | VNone | VStr _ | VTuple _ | VList _ => RX TypeError
  | _ => RU
  end.

Definition seq_getitem (l : list value) (i : value) : res :=
  match i with
  | VInt k => match py_index l k with
              | Some v => RV v
              | None => RX IndexError
              end
  | VNone | VStr _ => RX TypeError
  | _ => RU
  end.

(* ---------------------------------------------------------------- bindings *)

Definition env := list (option value).

Definition lookup (en : env) (x : nat) : option value :=
  match nth_error en x with
  | Some (Some v) => Some v
  | _ => None
  end.

Fixpoint set_var (en : env) (x : nat) (v : value) : env :=
  match x, en with
  | O, [] => [Some v]
  | O, _ :: r => Some v :: r
  | S x', [] => None :: set_var [] x' v
  | S x', a :: r => a :: set_var r x' v
  end.

Fixpoint set_vars (en : env) (xs : list nat) (vs : list value) : option env :=
  match xs, vs with
  | [], [] => Some en
  | x :: xs', v :: vs' => set_vars (set_var en x v) xs' vs'
  | _, _ => None
  end.

(* `for x in ..` / `for x, y in ..`: the item, or its elements *)
Definition bind_targets (en : env) (xs : list nat) (v : value) : option env :=
  match xs with
  | [] => None
  | [x] => set_vars en [x] [v]
  | _ => match v with
         | VTuple l => set_vars en xs l
         | _ => None
         end
  end.

(* positional arguments against the parameter list: defaults fill the tail; the
   arguments left over *)
Fixpoint bind_pos (ps : list (option value)) (vs : list value) : option (env * list value) :=
  match ps, vs with
  | [], _ => Some ([], vs)
  | Some dv :: ps', [] =>
    match bind_pos ps' [] with
    | Some (en, r) => Some (Some dv :: en, r)
    | None => None
    end
  | None :: _, [] => None
  | _ :: ps', v :: vs' =>
    match bind_pos ps' vs' with
    | Some (en, r) => Some (Some v :: en, r)
    | None => None
    end
  end.

Definition bind_params (m : mdef) (vs : list value) : option env :=
  match bind_pos (m_params m) vs with
  | Some (en, extra) =>
    let kw := if m_kwarg m then [Some (VKw [])] else [] in
    if m_vararg m then Some (en ++ [Some (VTuple extra)] ++ kw)
    else match extra with
         | [] => Some (en ++ kw)
         | _ :: _ => None
         end
  | None => None
  end.

(* ------------------------------------------------------------------- calls *)

(* CDirect m: the values are bound to ALL parameters, the first included.
   CBound m r: the attribute m looked up on r (a Token or the class) and
   called: an instance method gets r as its first argument when r is a Token
   (nothing when r is the class: a plain function), a classmethod gets the
   class.   CEmpty: the class attribute Empty. *)
Inductive callee := CDirect (m : meth) | CBound (m : meth) (r : value) | CEmpty.

Definition callfn := callee -> list value -> res.

Inductive xres :=
| XNormal (en : env) (ys : list value)     (* ys: what has been yielded, in order *)
| XReturn (v : value) (ys : list value)
| XExc (e : exn) (ys : list value)
| XU
| XF.

Inductive gres := GV (l : list value) (e : option exn) | GU | GF.

(* the items f produces for the items of l, until f raises *)
Fixpoint gen_map (f : value -> res) (l : list value) : gres :=
  match l with
  | [] => GV [] None
  | x :: l' =>
    match f x with
    | RV y => match gen_map f l' with
              | GV ys e => GV (y :: ys) e
              | g => g
              end
    | RX e => GV [] (Some e)
    | RU => GU
    | RF => GF
    end
  end.

Fixpoint all_payloads (l : list value) : option (list str) :=
  match l with
  | [] => Some []
  | v :: l' =>
    match payload v, all_payloads l' with
    | Some s, Some r => Some (s :: r)
    | _, _ => None
    end
  end.

(* the operand expression created the iterator it evaluates to *)
Definition fresh (e : expr) : bool :=
  match e with
  | ECallMeth _ _ _ | ECallMethSK _ _ _ _ _ | EGenExp _ _ _ | EEnumerate _ | EIterOf _ => true
  | _ => false
  end.

Section Interp.
Variable callf : callfn.

Definition truthy (v : value) : res :=
  match v with
  | VNone => RV (VBool false)
  | VBool b => RV (VBool b)
  | VInt z => RV (VBool (negb (z =? 0)))
  | VStr s => RV (VBool (nonempty s))
  | VEnum e => RV (VBool (negb (enum_int e =? 0)))
  | VTuple l | VList l => RV (VBool (nonempty l))
  | VTok _ _ _ _ =>
    match callf (CBound M_bool v) [] with
    | RV (VBool b) => RV (VBool b)
    | RV _ => RX TypeError
    | r => r
    end
  | VCls => RV (VBool true)
  | _ => RU
  end.

(* continue with the truth value of v *)
Definition if_truthy (v : value) (k : bool -> res) : res :=
  match truthy v with
  | RV (VBool b) => k b
  | RV _ => RU
  | r => r
  end.

Definition py_add (a b : value) : res :=
  match a, b with
  | VTok _ _ _ _, _ => callf (CBound M_add a) [b]
  | _, VTok _ _ _ _ => callf (CBound M_radd b) [a]
  | VInt x, VInt y => RV (VInt (x + y))
  | VStr x, VStr y => RV (VStr (x ++ y))
  | VNone, (VNone | VInt _ | VStr _) | (VInt _ | VStr _), VNone
  | VInt _, VStr _ | VStr _, VInt _ => RX TypeError
  | _, _ => RU
  end.

Definition py_eq (a b : value) : res :=
  match a, b with
  | VTok _ _ _ _, _ => callf (CBound M_eq a) [b]
  | _, VTok _ _ _ _ => callf (CBound M_eq b) [a]
  | VStr x, VStr y => RV (VBool (str_eqb x y))
  | VNone, VNone => RV (VBool true)
  | VBool x, VBool y => RV (VBool (Bool.eqb x y))
  | VInt x, VInt y => RV (VBool (x =? y))
  | VEnum x, VEnum y => RV (VBool (enum_int x =? enum_int y))
  | VEnum x, VInt y => RV (VBool (enum_int x =? y))
  | VInt x, VEnum y => RV (VBool (x =? enum_int y))
  | VNone, (VStr _ | VInt _ | VEnum _ | VBool _) | (VStr _ | VInt _ | VEnum _ | VBool _), VNone
  | VStr _, (VInt _ | VEnum _ | VBool _) | (VInt _ | VEnum _ | VBool _), VStr _ => RV (VBool false)
  | _, _ => RU
  end.

Definition py_in (a b : value) : res :=
  match b with
  | VTok _ _ _ _ =>
    match callf (CBound M_contains b) [a] with
    | RV r => truthy r
    | x => x
    end
  | VStr s =>
    match payload a with
    | Some x => RV (VBool (is_sub x s))
    | None => if not_str a then RX TypeError else RU
    end
  | _ => RU
  end.

Definition py_cmp (o : cmpop) (a b : value) : res :=
  match o with
  | CEq => py_eq a b
  | CNe =>
    match a, b with
    | VTok _ _ _ _, _ | _, VTok _ _ _ _ => RU
    | _, _ => match py_eq a b with
              | RV (VBool r) => RV (VBool (negb r))
              | RV _ => RU
              | x => x
              end
    end
  | CIn => py_in a b
  | CNotIn => match py_in a b with
              | RV (VBool r) => RV (VBool (negb r))
              | RV _ => RU
              | x => x
              end
  | _ => py_order o a b
  end.

Definition get_attr (v : value) (a : str) : res :=
  match v with
  | VTok _ t p c =>
    let inst := if str_eqb a a_text then Some t
                else if str_eqb a a_position then Some p
                else if str_eqb a a_category then Some c
                else None in
    match inst with
    | Some (Some x) => RV x
    | Some None => callf (CBound M_getattr v) [VStr a]
    | None =>
      if str_eqb a a_Empty then callf CEmpty []
      else match meth_of_name a with
           | Some _ => RU
           | None =>
             match str_has a with
             | Some false => callf (CBound M_getattr v) [VStr a]
             | _ => RU
             end
           end
    end
  | VCls => if str_eqb a a_Empty then callf CEmpty [] else RU
  | VStr s =>
    match str_has a with
    | Some true => RV (VBound s a)
    | Some false => RX AttributeError
    | None => RU
    end
  | VSlice lo hi st => slice_attr lo hi st a
  | VNone | VBool _ | VInt _ | VEnum _ | VTuple _ | VList _ =>
    if mem_str a plain_non_attrs then RX AttributeError else RU
  | _ => RU
  end.

(* iter(v); fr: v is the value of an expression that created it *)
Definition iterate (fr : bool) (v : value) : res :=
  match v with
  | VIter _ _ => if fr then RV v else RU
  | VTuple l | VList l => RV (VIter l None)
  | VStr s => RV (VIter (map (fun c => VStr [c]) s) None)
  | VTok _ _ _ _ =>
    match callf (CBound M_iter v) [] with
    | RV (VIter l e) => RV (VIter l e)
    | RV _ => RX TypeError
    | r => r
    end
  | VNone | VBool _ | VInt _ | VEnum _ | VCls => RX TypeError
  | _ => RU
  end.

Definition strip_family (m : str) : option side :=
  if str_eqb m a_strip then Some SBoth
  else if str_eqb m a_lstrip then Some SLeft
  else if str_eqb m a_rstrip then Some SRight
  else None.

Definition modelled_str_method (m : str) : bool :=
  match strip_family m with
  | Some _ => true
  | None => str_eqb m a_find || str_eqb m a_join
  end.

(* s.m(vs, **kw) for a plain str s (or the payload of a Token); itfresh: the
   single argument is a fresh iterator *)
Definition str_method (s : str) (m : str) (vs : list value) (kw : list (str * value))
           (itfresh : bool) : res :=
  match strip_family m with
  | Some sd =>
    match kw with
    | _ :: _ => RX TypeError
    | [] =>
      match vs with
      | [] | [VNone] => RV (VStr (strip_side sd is_ws s))
      | [x] =>
        match payload x with
        | Some cs => RV (VStr (strip_side sd (fun c => mem_N c cs) s))
        | None => if not_str x then RX TypeError else RU
        end
      | _ :: _ :: _ => RX TypeError
      end
    end
  | None =>
    if str_eqb m a_find then
      match kw, vs with
      | [], [x] =>
        match payload x with
        | Some sub => RV (VInt (py_find s sub))
        | None => if not_str x then RX TypeError else RU
        end
      | _, _ => RU
      end
    else if str_eqb m a_join then
      match kw, vs with
      | [], [x] =>
        match iterate itfresh x with
        | RV (VIter l pend) =>
          match pend with
          | Some e => RX e
          | None =>
            match all_payloads l with
            | Some ss => RV (VStr (join_with s ss))
            | None => if existsb (fun v => match v with VRepr _ => true | _ => false end) l
                      then RU else RX TypeError
            end
          end
        | RV _ => RU
        | r => r
        end
      | _, _ => RU
      end
    else RU
  end.

(* r.m(vs, **kw) *)
Definition call_method (r : value) (m : str) (vs : list value) (kw : list (str * value))
           (itfresh : bool) : res :=
  match r with
  | VStr s => str_method s m vs kw itfresh
  | VTok pay _ _ _ =>
    match meth_of_name m with
    | Some mm => match kw with [] => callf (CBound mm r) vs | _ :: _ => RU end
    | None => if modelled_str_method m then str_method pay m vs kw itfresh else RU
    end
  | VCls =>
    match meth_of_name m with
    | Some mm => match kw with [] => callf (CBound mm VCls) vs | _ :: _ => RU end
    | None => RU
    end
  | VNone | VBool _ | VInt _ => if modelled_str_method m then RX AttributeError else RU
  | _ => RU
  end.

Definition py_getitem (v i : value) : res :=
  match v with
  | VStr s => str_getitem s i
  | VTuple l | VList l => seq_getitem l i
  | VTok _ _ _ _ => callf (CBound M_getitem v) [i]
  | VNone | VInt _ | VBool _ => RX TypeError
  | _ => RU
  end.

Definition new_str (c t : value) : res :=
  match c with
  | VCls =>
    match t with
    | VStr s => RV (VTok s None None None)
    | VTok _ _ _ _ =>
      match callf (CBound M_str t) [] with
      | RV r => match payload r with
                | Some s => RV (VTok s None None None)
                | None => if not_str r then RX TypeError else RU
                end
      | x => x
      end
    | _ => RU
    end
  | _ => RU
  end.

Definition str_of (v : value) : res :=
  match v with
  | VStr _ | VRepr _ => RV v
  | VTok _ _ _ _ =>
    match callf (CBound M_str v) [] with
    | RV r => if not_str r then RX TypeError else RV r
    | x => x
    end
  | _ => RU
  end.

Definition repr_of (v : value) : res :=
  match v with
  | VStr s => RV (VRepr s)
  | VTok _ _ _ _ =>
    match callf (CBound M_repr v) [] with
    | RV r => if not_str r then RX TypeError else RV r
    | x => x
    end
  | _ => RU
  end.

Definition hash_of (v : value) : res :=
  match v with
  | VStr s => RV (VHash s)
  | VTok _ _ _ _ =>
    match callf (CBound M_hash v) [] with
    | RV (VHash s) => RV (VHash s)
    | RV _ => RU
    | x => x
    end
  | _ => RU
  end.

Inductive ares := AV (vs : list value) | AX (e : exn) | AU | AF.

Fixpoint eval (e : expr) (en : env) {struct e} : res :=
  let un (a : expr) (k : value -> res) : res :=
    match eval a en with
    | RV v => k v
    | x => x
    end in
  let bin (a b : expr) (k : value -> value -> res) : res :=
    match eval a en with
    | RV v1 =>
      match eval b en with
      | RV v2 => k v1 v2
      | x => x
      end
    | x => x
    end in
  match e with
  | ENone => RV VNone
  | EBool b => RV (VBool b)
  | EInt z => RV (VInt z)
  | EStr s => RV (VStr s)
  | EVar x => match lookup en x with Some v => RV v | None => RU end
  | ECls => RV VCls
  | EAttr a nm => un a (fun v => get_attr v nm)
  | EAdd a b => bin a b py_add
  | ESub a b => bin a b py_sub
  | ECmp o a b => bin a b (py_cmp o)
  | EIsNone a => un a (fun v => RV (VBool (match v with VNone => true | _ => false end)))
  | ENot a => un a (fun v => if_truthy v (fun b => RV (VBool (negb b))))
  | EAnd a b => un a (fun v => if_truthy v (fun t => if t then eval b en else RV v))
  | EOr a b => un a (fun v => if_truthy v (fun t => if t then RV v else eval b en))
  | EIsInstance a c =>
    un a (fun v => match isinst c v with Some b => RV (VBool b) | None => RU end)
  | EBoolOf a => un a truthy
  | ELen a => un a py_len
  | EStrOf a => un a str_of
  | EReprOf a => un a repr_of
  | EHashOf a => un a hash_of
  | EIterOf a => un a (iterate (fresh a))
  | EEnumerate a =>
    un a (fun v => match iterate (fresh a) v with
                   | RV (VIter l pend) => RV (VIter (enum_from 0 l) pend)
                   | RV _ => RU
                   | x => x
                   end)
  | EGetattr a n =>
    bin a n (fun v nv => match payload nv with
                         | Some nm => get_attr v nm
                         | None => if not_str nv then RX TypeError else RU
                         end)
  | EIndex a i => bin a i py_getitem
  | ENewStr c t => bin c t new_str
  | ECallCls xs =>
    match eval_args xs en with
    | AV vs => callf (CDirect M_new) (VCls :: vs)
    | AX x => RX x
    | AU => RU
    | AF => RF
    end
  | ECallMeth r m xs =>
    un r (fun rv =>
      match eval_args xs en with
      | AV vs => call_method rv m vs [] (match xs with ACons a ANil => fresh a | _ => false end)
      | AX x => RX x
      | AU => RU
      | AF => RF
      end)
  | ECallMethSK r m xs s k =>
    un r (fun rv =>
      match eval_args xs en with
      | AV vs =>
        bin s k (fun sv kv =>
          match sv, kv with
          | (VTuple l | VList l), VKw kw => call_method rv m (vs ++ l) kw false
          | _, _ => RU
          end)
      | AX x => RX x
      | AU => RU
      | AF => RF
      end)
  | EGenExp x elt it =>
    un it (fun v =>
      match iterate (fresh it) v with
      | RV (VIter l pend) =>
        match gen_map (fun item => eval elt (set_var en x item)) l with
        | GV ys (Some e') => RV (VIter ys (Some e'))
        | GV ys None => RV (VIter ys pend)
        | GU => RU
        | GF => RF
        end
      | RV _ => RU
      | r => r
      end)
  end
with eval_args (xs : args) (en : env) {struct xs} : ares :=
  match xs with
  | ANil => AV []
  | ACons e xs' =>
    match eval e en with
    | RV v =>
      match eval_args xs' en with
      | AV vs => AV (v :: vs)
      | x => x
      end
    | RX x => AX x
    | RU => AU
    | RF => AF
    end
  end.

(* -------------------------------------------------------------- statements *)

Definition set_attr (v : value) (a : str) (x : value) : option value :=
  match v with
  | VTok pay t p c =>
    if str_eqb a a_text then Some (VTok pay (Some x) p c)
    else if str_eqb a a_position then Some (VTok pay t (Some x) c)
    else if str_eqb a a_category then Some (VTok pay t p (Some x))
    else None
  | _ => None
  end.

Fixpoint for_loop (xs : list nat) (body : env -> list value -> xres)
         (l : list value) (pend : option exn) (en : env) (ys : list value) : xres :=
  match l with
  | [] => match pend with Some x => XExc x ys | None => XNormal en ys end
  | v :: l' =>
    match bind_targets en xs v with
    | Some en1 =>
      match body en1 ys with
      | XNormal en2 ys2 => for_loop xs body l' pend en2 ys2
      | x => x
      end
    | None => XU
    end
  end.

Fixpoint exec_stmt (s : stmt) (en : env) (ys : list value) {struct s} : xres :=
  match s with
  | SExpr e =>
    match eval e en with
    | RV _ => XNormal en ys
    | RX x => XExc x ys
    | RU => XU
    | RF => XF
    end
  | SAssign x e =>
    match eval e en with
    | RV v => XNormal (set_var en x v) ys
    | RX x' => XExc x' ys
    | RU => XU
    | RF => XF
    end
  | SSetAttr x a e =>
    match eval e en with
    | RV v =>
      match lookup en x with
      | Some o => match set_attr o a v with
                  | Some o' => XNormal (set_var en x o') ys
                  | None => XU
                  end
      | None => XU
      end
    | RX x' => XExc x' ys
    | RU => XU
    | RF => XF
    end
  | SReturn e =>
    match eval e en with
    | RV v => if is_iter v && negb (fresh e) then XU else XReturn v ys
    | RX x => XExc x ys
    | RU => XU
    | RF => XF
    end
  | SYield e =>
    match eval e en with
    | RV v => XNormal en (ys ++ [v])
    | RX x => XExc x ys
    | RU => XU
    | RF => XF
    end
  | SIf c a b =>
    match eval c en with
    | RV v =>
      match truthy v with
      | RV (VBool true) => exec_block a en ys
      | RV (VBool false) => exec_block b en ys
      | RV _ => XU
      | RX x => XExc x ys
      | RU => XU
      | RF => XF
      end
    | RX x => XExc x ys
    | RU => XU
    | RF => XF
    end
  | SFor xs it b =>
    match eval it en with
    | RV v =>
      match iterate (fresh it) v with
      | RV (VIter l pend) => for_loop xs (exec_block b) l pend en ys
      | RV _ => XU
      | RX x => XExc x ys
      | RU => XU
      | RF => XF
      end
    | RX x => XExc x ys
    | RU => XU
    | RF => XF
    end
  end
with exec_block (b : block) (en : env) (ys : list value) {struct b} : xres :=
  match b with
  | BNil => XNormal en ys
  | BCons s b' =>
    match exec_stmt s en ys with
    | XNormal en' ys' => exec_block b' en' ys'
    | x => x
    end
  end.

End Interp.

(* ------------------------------------------------------------------- calls *)

Definition finish (gen : bool) (x : xres) : res :=
  if gen then
    match x with
    | XNormal _ ys | XReturn _ ys => RV (VIter ys None)
    | XExc e ys => RV (VIter ys (Some e))
    | XU => RU
    | XF => RF
    end
  else
    match x with
    | XNormal _ _ => RV VNone
    | XReturn v _ => RV v
    | XExc e _ => RX e
    | XU => RU
    | XF => RF
    end.

Definition run_body (callf : callfn) (m : mdef) (vs : list value) : res :=
  match bind_params m vs with
  | Some en => finish (m_gen m) (exec_block callf (m_body m) en [])
  | None => RU
  end.

Definition call_body (c : cls) (callf : callfn) (ce : callee) (vs : list value) : res :=
  match ce with
  | CDirect m => run_body callf (c_meth c m) vs
  | CBound m r =>
    let d := c_meth c m in
    match m_kind d, r with
    | KInstance, VTok _ _ _ _ => run_body callf d (r :: vs)
    | KInstance, VCls => run_body callf d vs
    | KClassmethod, (VTok _ _ _ _ | VCls) => run_body callf d (VCls :: vs)
    | _, _ => RU
    end
  | CEmpty => match vs with [] => eval callf (c_empty c) [] | _ :: _ => RU end
  end.

Fixpoint call (n : nat) (c : cls) (ce : callee) (vs : list value) : res :=
  match n with
  | O => RF
  | S n' => call_body c (call n' c) ce vs
  end.

Definition call_depth : nat := 8.

(* type(r).m(r, vs): what an operator or a method call on the Token r runs *)
Definition run_meth (c : cls) (m : meth) (r : value) (vs : list value) : res :=
  call call_depth c (CBound m r) vs.

(* Token(vs) *)
Definition run_new (c : cls) (vs : list value) : res :=
  call call_depth c (CDirect M_new) (VCls :: vs).

(* Token.Empty *)
Definition run_empty (c : cls) : res := call call_depth c CEmpty [].

(* the operators, as the interpreter evaluates them on values *)
Definition run_add (c : cls) (a b : value) : res := py_add (call call_depth c) a b.
Definition run_eq (c : cls) (a b : value) : res := py_eq (call call_depth c) a b.
Definition run_in (c : cls) (a b : value) : res := py_in (call call_depth c) a b.
Definition run_truthy (c : cls) (v : value) : res := truthy (call call_depth c) v.
Definition run_getattr (c : cls) (v : value) (a : str) : res := get_attr (call call_depth c) v a.
Definition run_str (c : cls) (v : value) : res := str_of (call call_depth c) v.
Definition run_iter (c : cls) (v : value) : res := iterate (call call_depth c) false v.
