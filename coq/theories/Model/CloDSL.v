(* A small language for the two methods of class CharToLineOffset
   (TexSoup/utils.py) AS WRITTEN, and its total interpreter.

   harness/gen_clo.py reads the Python `ast` of utils.py on every run and
   writes __init__ and __call__ as terms of this language (Model/CloGen.v);
   Proofs/CloGenProofs.v proves that constructing the object from a source and
   calling it is exactly Model/CLO.v's `clo`.  Trusted: the translator maps each
   Python construct to the constructor named after it, and the interpreter
   gives that construct its Python meaning:

   values    int; list of ints; the source string (a list of code points, only
             ever the constructor argument); a pair of ints (the returned
             tuple).
   self      two attributes, unset (None) on a fresh object; reading an unset
             attribute is OUnsup (AttributeError).
   a + b, a - b, min(a, b)   ints only.     len(x)  list or source.
   a == b    ints only (the only comparison the translator accepts).
   l[k]      Python list indexing with negative k counting from the end; out
             of range (IndexError) is OUnsup: the result type (Z * Z) of the
             hand-written model cannot express it -- the theorem proves it is
             never raised.
   bisect.bisect_left(l, x)   the DOCUMENTED contract on a sorted list: the
             leftmost insertion point, i.e. the number of elements < x
             (CLO.bisect_left).  On a list that is not sorted (non-decreasing)
             the result of the binary search is unspecified: OUnsup.
   [i for i, c in enumerate(s) if c == 'X']   the indices, in increasing
             order, of the code points of s equal to X.
   x = e; self.f = e; if/elif/else; return a, b; return e.   A def that falls
             off its end returns None.  Reading an unbound local is OUnsup.
   No loops and no calls between the methods, hence no fuel. *)
From Coq Require Import List NArith ZArith Bool.
From TexModel Require Import CLO.
Import ListNotations.
Open Scope Z_scope.

Inductive value :=
| VInt (z : Z)
| VList (l : list Z)
| VSrc (s : list N)
| VPair (a b : Z).

Inductive fld := F_line_break_positions | F_src_len.

Record obj := mkO { o_lbp : option value; o_len : option value }.
Definition blank : obj := mkO None None.

Inductive expr :=
| EInt (z : Z)
| EVar (x : nat)                    (* parameters 0.., then locals in order of first binding *)
| EField (f : fld)                  (* self.f *)
| ELen (a : expr)
| EAdd (a b : expr)
| ESub (a b : expr)
| EMin (a b : expr)
| EIndex (a i : expr)
| EBisectLeft (a x : expr)          (* bisect.bisect_left(a, x) *)
| EEnumEq (a : expr) (ch : N).      (* [i for i, c in enumerate(a) if c == chr(ch)] *)

Inductive cond := CEq (a b : expr).

Inductive stmt :=
| SAssign (x : nat) (e : expr)
| SSetField (f : fld) (e : expr)
| SIf (c : cond) (a b : block)
| SReturn (e : expr)
| SReturnPair (a b : expr)
with block :=
| BNil
| BCons (s : stmt) (b : block).

Fixpoint blk (l : list stmt) : block :=
  match l with
  | [] => BNil
  | s :: l' => BCons s (blk l')
  end.

(* number of parameters after self, body *)
Record mdef := mkM { m_arity : nat; m_body : block }.
Record cls := mkC { c_init : mdef; c_call : mdef }.

(* ----------------------------------------------------------------- values *)

Fixpoint sorted_le (l : list Z) : bool :=
  match l with
  | [] => true
  | x :: r => match r with
              | [] => true
              | y :: _ => (x <=? y) && sorted_le r
              end
  end.

Fixpoint positions_from (s : list N) (ch : N) (k : Z) : list Z :=
  match s with
  | [] => []
  | c :: r => if N.eqb c ch then k :: positions_from r ch (k + 1)
              else positions_from r ch (k + 1)
  end.

Definition py_nth (l : list Z) (k : Z) : option Z :=
  let m := Z.of_nat (length l) in
  let k' := if k <? 0 then k + m else k in
  if (k' <? 0) || (m <=? k') then None else nth_error l (Z.to_nat k').

Definition env := list (option value).

Definition lookup (en : env) (x : nat) : option value :=
  match nth_error en x with
  | Some (Some v) => Some v
  | _ => None
  end.

Fixpoint set_var (en : env) (x : nat) (v : value) : env :=
  match x, en with
  | O, [] => [Some v]
  | O, _ :: r => Some v :: r
  | S x', [] => None :: set_var [] x' v
  | S x', a :: r => a :: set_var r x' v
  end.

Definition get_field (f : fld) (o : obj) : option value :=
  match f with
  | F_line_break_positions => o_lbp o
  | F_src_len => o_len o
  end.

Definition set_field (f : fld) (v : value) (o : obj) : obj :=
  match f with
  | F_line_break_positions => mkO (Some v) (o_len o)
  | F_src_len => mkO (o_lbp o) (Some v)
  end.

Definition int2 (f : Z -> Z -> Z) (a b : option value) : option value :=
  match a, b with
  | Some (VInt x), Some (VInt y) => Some (VInt (f x y))
  | _, _ => None
  end.

Fixpoint eval (e : expr) (en : env) (o : obj) : option value :=
  match e with
  | EInt z => Some (VInt z)
  | EVar x => lookup en x
  | EField f => get_field f o
  | ELen a =>
    match eval a en o with
    | Some (VList l) => Some (VInt (Z.of_nat (length l)))
    | Some (VSrc s) => Some (VInt (Z.of_nat (length s)))
    | _ => None
    end
  | EAdd a b => int2 Z.add (eval a en o) (eval b en o)
  | ESub a b => int2 Z.sub (eval a en o) (eval b en o)
  | EMin a b => int2 Z.min (eval a en o) (eval b en o)
  | EIndex a i =>
    match eval a en o, eval i en o with
    | Some (VList l), Some (VInt k) => option_map VInt (py_nth l k)
    | _, _ => None
    end
  | EBisectLeft a x =>
    match eval a en o, eval x en o with
    | Some (VList l), Some (VInt z) =>
      if sorted_le l then Some (VInt (Z.of_nat (bisect_left l z))) else None
    | _, _ => None
    end
  | EEnumEq a ch =>
    match eval a en o with
    | Some (VSrc s) => Some (VList (positions_from s ch 0))
    | _ => None
    end
  end.

Definition eval_cond (c : cond) (en : env) (o : obj) : option bool :=
  match c with
  | CEq a b =>
    match eval a en o, eval b en o with
    | Some (VInt x), Some (VInt y) => Some (x =? y)
    | _, _ => None
    end
  end.

Inductive xres :=
| XNormal (en : env) (o : obj)
| XReturn (v : value) (o : obj)
| XUnsup.

Fixpoint exec_stmt (s : stmt) (en : env) (o : obj) {struct s} : xres :=
  match s with
  | SAssign x e =>
    match eval e en o with
    | Some v => XNormal (set_var en x v) o
    | None => XUnsup
    end
  | SSetField f e =>
    match eval e en o with
    | Some v => XNormal en (set_field f v o)
    | None => XUnsup
    end
  | SIf c a b =>
    match eval_cond c en o with
    | Some true => exec_block a en o
    | Some false => exec_block b en o
    | None => XUnsup
    end
  | SReturn e =>
    match eval e en o with
    | Some v => XReturn v o
    | None => XUnsup
    end
  | SReturnPair a b =>
    match eval a en o, eval b en o with
    | Some (VInt x), Some (VInt y) => XReturn (VPair x y) o
    | _, _ => XUnsup
    end
  end
with exec_block (b : block) (en : env) (o : obj) {struct b} : xres :=
  match b with
  | BNil => XNormal en o
  | BCons s b' =>
    match exec_stmt s en o with
    | XNormal en' o' => exec_block b' en' o'
    | x => x
    end
  end.

Inductive outcome :=
| ODone (o : obj) (r : option value)      (* None: the def returned None *)
| OUnsup.

Definition run_def (m : mdef) (vs : list value) (o : obj) : outcome :=
  if Nat.eqb (length vs) (m_arity m) then
    match exec_block (m_body m) (map Some vs) o with
    | XNormal _ o' => ODone o' None
    | XReturn v o' => ODone o' (Some v)
    | XUnsup => OUnsup
    end
  else OUnsup.

(* CharToLineOffset(src)(char_pos) *)
Definition run_clo_gen (c : cls) (src : list N) (char_pos : Z) : outcome :=
  match run_def (c_init c) [VSrc src] blank with
  | ODone o None => run_def (c_call c) [VInt char_pos] o
  | _ => OUnsup
  end.
