(* A small imperative language for the functions of TexSoup/reader.py, and its
   interpreter.

   harness/gen_reader.py reads the Python `ast` of reader.py on every run and
   writes each function as a term of type `fundef` (Model/ReadGen.v), one DSL
   constructor per Python construct -- of the source brought into a normal
   form first by rewrites that keep Python's meaning (listed in gen_reader.py,
   section "normal form": they concern layout of control flow, annotations,
   f-strings, wrappers and named temporaries, not what is computed), so that
   sources differing only in those respects give the same term.
   Proofs/ReadGenProofs.v relates the
   interpretation of those terms to the hand-written reader of Model/Reader.v,
   which all other proofs are about.  What is trusted is (a) that the translator
   maps each Python construct to the constructor named after it and (b) that
   the interpreter below gives that construct the meaning it has in Python for
   the objects involved (utils.Buffer / Token, the TexExpr classes of data.py,
   TexArgs).  Every semantic decision is listed here.

   ------------------------------------------------------------------ values
   VNone VBool VInt VStr       None, bool, int, plain str (list of code points)
   VTok text pos cat           a utils.Token; cat = None or a TC member.
   VCat k                      a TC member (an IntEnum value)
   VExpr e                     a TexExpr object, as a tree of Model/Tree.v:
                               TexCmd = ECmd, TexNamedEnv = ENamed, the four math
                               classes = EMath k, BraceGroup/BracketGroup =
                               EGroup k, TexText(token) = EText token
   VArgs l                     a TexArgs (its list part; the shadow list `.all`
                               is not represented in Tree.v and not modelled)
   VList l / VTuple l          Python list / tuple
   VCls c                      a class object: one of the four math-environment
                               classes or one of the two group classes
   VOpq                        a value that only ever flows into the text of an
                               exception message (CharToLineOffset objects, the
                               numbers they return, formatted messages).  Using it
                               for anything else is OUnsup.

   Objects are VALUES here, not references.  Mutation (`x.append(..)`) updates
   the variable x; a mutated parameter is written back to the caller's variable
   when the call returns ("by-reference" parameters, `fd_byref`).  This equals
   Python's reference semantics as long as a mutated object is reachable through
   one variable only; the translator checks a syntactic discipline that ensures
   it (see gen_reader.py: a mutated variable never occurs as a bare name in a
   position that stores the reference; a by-reference parameter is never
   re-bound; the result of a call that returns its by-reference parameter is
   either discarded or returned at once).

   ------------------------------------------------------------------ the buffer
   One Buffer of tokens per run: all tokens `b_all` and the cursor `b_pos`
   (Buffer.__i, = src.position).  Every token of the buffer carries a TC
   category.  The first parameter of every reader function is the buffer; the
   translator checks it is passed along unchanged and drops it.
   src.hasNext()     bool(src.peek()): there is a token at the cursor AND its
                     text is non-empty (Token.__bool__).  The hand-written model
                     only tests for a token; they agree on buffers without
                     empty-text tokens, which is what the tokenizer produces
                     (TokProofs.tokens_concat).
   src.peek() / src.peek(k), k >= 0 literal   token at cursor + k, else None
   src.peek((a, b)), 0 <= a <= b literals   Token.join of tokens cursor+a ..
                     cursor+b-1 that exist: joined text, position and category of
                     the first; Token.Empty = Token('', 0) when there is none
   next(src)         token at the cursor, cursor + 1; StopIteration at the end
   src.forward(j)    cursor + j WITHOUT bound check (the cursor may pass the
                     end; everything then behaves as at the end), returns the
                     join of the tokens passed over; j < 0 is backward(-j)
   src.backward(j)   AssertionError if cursor - j < 0, else cursor - j; j < 0 is
                     forward(-j)
   src.startswith(s) the texts of the next len(s) TOKENS, joined, start with s
   src.forward_until(condition, peek=False) with
       def condition(s): return s.startswith(E)
                     [XForwardUntilStartsWith E]  E is evaluated once, before the
                     scan (Python evaluates it at every test; it is the pure
                     expression '\\end{%s}' % expr.name).  Result: Token('',
                     position of the first token, or the cursor at the end)
                     += forward(1) while hasNext() and not startswith(E):
                     category None.
   src.position      the cursor

   ------------------------------------------------------------------ expressions
   truth value       None False 0 '' [] () empty TexArgs, Token with empty text:
                     false; other None/bool/int/str/Token/list/tuple/TexArgs: true;
                     a class object: true; TexExpr objects and VOpq: OUnsup.
   a and b / a or b  Python's: the value of a if that decides, else the value
                     of b; b is only evaluated then.   not a : a bool.
   a if c else b     only the chosen branch is evaluated.
   ==  !=            str/Token among themselves: by text (Token.__eq__, str's
                     __ne__); ints; TC members; None against None/str/Token/int/
                     bool/TC member; everything else OUnsup.
   < > <= >=  + -    ints; + also concatenates two tuples.
   x in (..) / tuple first element equal to x (==, above), left to right.
   x in D.keys(), D[x], D.get(x, d)   D one of the three module-level dicts:
                     MATH_TOKEN_TO_ENV, ARG_BEGIN_TO_ENV (keys: TC members, values:
                     classes; Reader.math_kind_of_begin / group_kind_of_begin on
                     Tables.math_classes / group_classes -- the translator checks
                     the comprehensions that define them), SIGNATURES (keys by
                     text, values pairs of ints; Tables.signatures, which the
                     generated file re-derives from the dict literal).
                     D[x] on a missing key: KeyError.
   e.category .position .text   of a Token.   AttributeError (e.g. of None) is
                     not a result the hand model has: OUnsup.
   e.string          of a TexExpr: ''.join(map(str, contents)) wrapped in TexText;
                     represented by the plain string Tree.arg_string e (a TexText
                     behaves as that string under == != strip and `in`).
   e.name .end       of a TexExpr;  e.token_end of a math/group object or class.
   e[i], e[i:]       literal i >= 0 on list/tuple/TexArgs; IndexError is OUnsup.
   'pre%spost' % e   e a str or Token (its text); [XFormat]
   isinstance(e, Token)
   XOpaque es        CharToLineOffset(str(src)) and the formatted texts of
                     exception messages: the operands are evaluated, the result
                     is VOpq; formatting is assumed not to raise.
   clo(e)            [XCloCall] clo a CharToLineOffset: a pair (VOpq, VOpq).
   Token(text, pos)  text a plain str.          TexArgs()   empty.
   TexText(t)        t a Token with a TC category.
   TexCmd(name, contents, args, position=..)  name.strip() as text; contents a
                     list/tuple of TexExpr / Token (kept as a bare token: ERaw)
                     / str; args a TexArgs or ().
   TexNamedEnv(name, contents, args, position=..)  likewise, name a str/Token.
   C(contents, position=p)       C a math class.  [XNew, no star]
   C( *items, position=p)        C a group class. [XNew with star]
   f(src, ...)       call of another reader function; the translator has
                     resolved keywords and defaults (constants evaluated at
                     definition time) into one positional list.
   make_read_peek(f)(src, ...)   [XCallPeek] start = src.position; call; then
                     src.backward(src.position - start); an exception in f
                     propagates without roll-back.  The translator checks that
                     make_read_peek is literally that wrapper.
   tuple(e)          [XToTuple] of a tuple or list.
   e.strip()         [XStrip] of a str; of a Token: Token.strip (text stripped,
                     position + number of leading blanks, or + 0 when all blank).
   e.rstrip('cs')    [XRStrip] literal cs; of a Token the position is kept
                     (Token.rstrip: text.find(stripped) = 0).
   e.startswith(p)   [XStrStartsWith] e a str/Token (not the buffer); p a str/
                     Token or a tuple of them (str.startswith of a tuple).
   e is None / e is not None   [XIsNone]
   D.get(k[, d]), D[k], k in D  for a module-level dict LITERAL D of reader.py
                     (keys: string literals, values: tuples of int literals):
                     [XLitGet / XLitIndex / XLitIn]; the literal is part of the
                     term.  A literal tuple of strings is an XConst.
   f % (a, ..)       f NOT a literal [XFormatDyn]: the text of f is scanned for
                     conversions; with only %s %d %% and as many conversions as
                     operands the result is VOpq, with another number of them
                     TypeError (Python's 'not enough arguments for format string'
                     / 'not all arguments converted'); any other conversion is
                     OUnsup.  A %d operand must be an int or VOpq.  (For a
                     literal f the translator has counted, and writes XOpaque.)
   s + t             also of two plain str.
   f'..{a}..'        the translator writes it as the equivalent %-formatting.
   Evaluation is left to right; an exception or OUnsup/OFuel in an operand that
   is evaluated propagates.

   ------------------------------------------------------------------ statements
   x = e;  a, b = e (e a tuple/list of that length);  x += e, x -= e (ints)
   x.append(e)       x a list: at the end.  x a TexArgs: TexArgs.append: a group
                     or TexCmd object is appended; a non-blank str is parsed by
                     TexGroup.parse ('[..]' or '{..}' -> a group holding the inner
                     string, position -1; otherwise TypeError); anything else
                     (blank strings only go to `.all`) is OUnsup.
   x.append( *e )    x a TexExpr, e a list/tuple: TexExpr.append; a TexCmd
                     raises TypeError unless it is an \item or has contents.
   return e / return (None) / falling off the end (None)
   yield e           the function is a generator; it is run to exhaustion (it is
                     consumed by list(..) in TexExpr.__init__) and its value is
                     the list of yielded values.  StopIteration raised inside is
                     kept as StopIteration (Python turns it into RuntimeError;
                     so does the driver of the hand model).
   assert e[, msg]   AssertionError when e is false
   raise C(msg)      msg is evaluated; C one of the error classes of Reader.err
   if/elif/else  while  break  continue  for x in range(e)
   A local that is read before it is bound (UnboundLocalError) is OUnsup.

   ------------------------------------------------------------------ fuel
   `call tbl fuel f args buf`: a call uses one unit; the body then runs with
   loops limited to the remaining fuel n (iterations) and inner calls at fuel n.
   Out of fuel is OFuel.  Proofs/ReadGenEquiv.v (rel_all_holds) gives the fuel
   that suffices: twice the fuel of the hand-written function, plus 2. *)
From Coq Require Import List NArith ZArith Bool.
From TexModel Require Import Base Tables Chars Tokenizer Tree Reader.
Import ListNotations.
Local Open Scope Z_scope.

(* ------------------------------------------------------------------ syntax *)

Inductive fname :=
| F_read_tex | F_read_expr | F_read_item | F_unclosed_env_handler | F_read_math_env
| F_read_skip_env | F_read_env | F_read_args | F_read_arg_optional | F_read_arg_required
| F_read_arg | F_read_spacer | F_read_command.

Inductive cls := KMath (k : mathkind) | KGroup (k : groupkind).

Inductive value :=
| VNone
| VBool (b : bool)
| VInt (z : Z)
| VStr (s : str)
| VTok (s : str) (pos : Z) (cat : option tc)
| VCat (k : tc)
| VExpr (e : expr)
| VArgs (l : list expr)
| VList (l : list value)
| VTuple (l : list value)
| VCls (c : cls)
| VOpq.

(* tuples imported from TexSoup.tokens *)
Inductive glob := G_SKIP_ENV_NAMES | G_MATH_ENV_NAMES | G_SPECIAL_COMMANDS.
(* module-level dicts of reader.py *)
Inductive gdict := D_MATH_TOKEN_TO_ENV | D_ARG_BEGIN_TO_ENV | D_SIGNATURES.

Inductive attr := A_category | A_position | A_text | A_string | A_name | A_end | A_token_end.

Inductive binop := OEq | ONe | OLt | OGt | OLe | OGe | OAdd | OSub | OIn | ONotIn.

Inductive exp :=
| XConst (v : value)
| XVar (x : nat)
| XGlobal (g : glob)
| XAttr (e : exp) (a : attr)
| XIndex (e : exp) (i : nat)
| XSliceFrom (e : exp) (i : nat)
| XBin (o : binop) (a b : exp)
| XNot (a : exp)
| XAnd (a b : exp)
| XOr (a b : exp)
| XCond (c a b : exp)
| XTuple (l : exps)
| XList (l : exps)
| XInKeys (e : exp) (d : gdict)
| XDictIndex (d : gdict) (e : exp)
| XDictGet (d : gdict) (e dflt : exp)
| XIsToken (e : exp)
| XFormat (pre : str) (e : exp) (post : str)
| XOpaque (l : exps)
| XCloCall (f e : exp)
| XNext
| XPeek (k : nat)
| XPeekRange (a b : nat)
| XHasNext
| XPosition
| XStartsWith (e : exp)
| XForward (e : exp)
| XBackward (e : exp)
| XForwardUntilStartsWith (e : exp)
| XNewToken (text pos : exp)
| XNewArgs
| XNewText (e : exp)
| XNewCmd (name contents args pos : exp)
| XNewNamedEnv (name contents args pos : exp)
| XNew (c : exp) (items : exps) (star : option exp) (pos : exp)
| XCall (f : fname) (args : exps)
| XCallPeek (f : fname) (args : exps)
| XToTuple (e : exp)
| XStrip (e : exp)
| XRStrip (e : exp) (cs : str)
| XStrStartsWith (e p : exp)
| XIsNone (e : exp)
| XLitGet (d : list (str * value)) (key dflt : exp)
| XLitIn (key : exp) (d : list (str * value))
| XLitIndex (d : list (str * value)) (key : exp)
| XFormatDyn (fmt : exp) (args : exps)
with exps :=
| XNil
| XCons (e : exp) (l : exps).

Fixpoint xl (l : list exp) : exps :=
  match l with
  | [] => XNil
  | e :: l' => XCons e (xl l')
  end.

Inductive stmt :=
| SAssign (x : nat) (e : exp)
| SUnpack (xs : list nat) (e : exp)
| SAugAdd (x : nat) (e : exp)
| SAugSub (x : nat) (e : exp)
| SExpr (e : exp)
| SAppend (x : nat) (e : exp)
| SAppendStar (x : nat) (e : exp)
| SReturn (e : exp)
| SYield (e : exp)
| SAssert (e : exp)
| SRaise (er : err) (msg : exp)
| SBreak
| SContinue
| SIf (c : exp) (a b : block)
| SWhile (c : exp) (b : block)
| SForRange (x : nat) (e : exp) (b : block)
with block :=
| BNil
| BCons (s : stmt) (b : block).

Fixpoint blk (l : list stmt) : block :=
  match l with
  | [] => BNil
  | s :: l' => BCons s (blk l')
  end.

(* one Python def: the parameters are locals 0 .. fd_nparams-1 (the buffer
   parameter is not counted), fd_byref the parameters whose object the body
   mutates, fd_gen whether the body contains `yield` *)
Record fundef := mkfd { fd_nparams : nat; fd_nlocals : nat; fd_byref : list nat;
                        fd_gen : bool; fd_body : block }.

Definition program_table := fname -> fundef.

(* ------------------------------------------------------------------- state *)

Record buf := mkbuf { b_all : list token; b_pos : nat }.

Record frame := mkf { locals : list (option value); yields : list value }.

Definition rest_of (b : buf) : list token := skipn (b_pos b) (b_all b).

Definition nonempty {A} (l : list A) : bool :=
  match l with [] => false | _ :: _ => true end.

Definition tok_val (t : token) : value := VTok (ttext t) (tpos t) (Some (tcat t)).

(* Token.join; Token.Empty for no token *)
Definition join_tokens (ts : list token) : value :=
  match ts with
  | [] => VTok [] 0 None
  | t :: _ => VTok (texts ts) (tpos t) (Some (tcat t))
  end.

Definition has_next (b : buf) : bool :=
  match rest_of b with
  | t :: _ => nonempty (ttext t)
  | [] => false
  end.

(* the token k places after the cursor *)
Definition tok_at (b : buf) (k : nat) : option token := nth_error (b_all b) (b_pos b + k).

Definition peek_at (b : buf) (k : nat) : value :=
  match tok_at b k with
  | Some t => tok_val t
  | None => VNone
  end.

Definition peek_range (b : buf) (lo hi : nat) : value :=
  join_tokens (firstn (hi - lo) (skipn (b_pos b + lo) (b_all b))).

Definition starts_with_buf (b : buf) (s : str) : bool :=
  starts_with (texts (firstn (length s) (rest_of b))) s.

(* forward(j), j >= 0 *)
Definition fwd (b : buf) (j : nat) : value * buf :=
  (join_tokens (firstn j (rest_of b)), mkbuf (b_all b) (b_pos b + j)).

(* backward(j), j >= 0; None = AssertionError *)
Definition bwd (b : buf) (j : nat) : option (value * buf) :=
  if Nat.ltb (b_pos b) j then None
  else let b' := mkbuf (b_all b) (b_pos b - j) in
       Some (join_tokens (firstn j (rest_of b')), b').

Definition buf_forward (b : buf) (j : Z) : option (value * buf) :=
  if j <? 0 then bwd b (Z.to_nat (- j)) else Some (fwd b (Z.to_nat j)).
Definition buf_backward (b : buf) (j : Z) : option (value * buf) :=
  if j <? 0 then Some (fwd b (Z.to_nat (- j))) else bwd b (Z.to_nat j).

(* the scan of forward_until(lambda s: s.startswith(target), peek=False):
   the text collected and the number of tokens passed *)
Fixpoint until_scan (target : str) (acc : str) (toks : list token) : str * nat :=
  match toks with
  | [] => (acc, O)
  | t :: r =>
    if negb (nonempty (ttext t)) then (acc, O)
    else if starts_with (texts (firstn (length target) toks)) target then (acc, O)
    else let '(a, n) := until_scan target (acc ++ ttext t) r in (a, S n)
  end.

Definition forward_until (b : buf) (target : str) : value * buf :=
  let start := match tok_at b 0 with
               | Some t => tpos t
               | None => Z.of_nat (b_pos b)
               end in
  let '(body, n) := until_scan target [] (rest_of b) in
  (VTok body start None, mkbuf (b_all b) (b_pos b + n)).

(* ------------------------------------------------------------ value helpers *)

Definition truthy (v : value) : option bool :=
  match v with
  | VNone => Some false
  | VBool b => Some b
  | VInt z => Some (negb (z =? 0))
  | VStr s => Some (nonempty s)
  | VTok s _ _ => Some (nonempty s)
  | VArgs l => Some (nonempty l)
  | VList l => Some (nonempty l)
  | VTuple l => Some (nonempty l)
  | VCat _ => Some true      (* TC members start at 22 *)
  | VCls _ => Some true
  | VExpr _ => None
  | VOpq => None
  end.

Definition text_of (v : value) : option str :=
  match v with
  | VStr s => Some s
  | VTok s _ _ => Some s
  | _ => None
  end.

Definition py_eq (a b : value) : option bool :=
  match a, b with
  | VStr x, VStr y | VStr x, VTok y _ _ | VTok x _ _, VStr y | VTok x _ _, VTok y _ _ =>
    Some (str_eqb x y)
  | VInt x, VInt y => Some (x =? y)
  | VCat x, VCat y => Some (tc_beq x y)
  | VNone, VNone => Some true
  | VNone, (VStr _ | VTok _ _ _ | VInt _ | VBool _ | VCat _) => Some false
  | (VStr _ | VTok _ _ _ | VInt _ | VBool _ | VCat _), VNone => Some false
  | _, _ => None
  end.

Fixpoint py_in (x : value) (l : list value) : option bool :=
  match l with
  | [] => Some false
  | y :: l' =>
    match py_eq y x with
    | Some true => Some true
    | Some false => py_in x l'
    | None => None
    end
  end.

Definition bin_op (o : binop) (a b : value) : option value :=
  match o with
  | OEq => match py_eq a b with Some r => Some (VBool r) | None => None end
  | ONe => match py_eq a b with Some r => Some (VBool (negb r)) | None => None end
  | OLt => match a, b with VInt x, VInt y => Some (VBool (x <? y)) | _, _ => None end
  | OGt => match a, b with VInt x, VInt y => Some (VBool (y <? x)) | _, _ => None end
  | OLe => match a, b with VInt x, VInt y => Some (VBool (x <=? y)) | _, _ => None end
  | OGe => match a, b with VInt x, VInt y => Some (VBool (y <=? x)) | _, _ => None end
  | OAdd => match a, b with
            | VInt x, VInt y => Some (VInt (x + y))
            | VTuple x, VTuple y => Some (VTuple (x ++ y))
            | VStr x, VStr y => Some (VStr (x ++ y))
            | _, _ => None
            end
  | OSub => match a, b with VInt x, VInt y => Some (VInt (x - y)) | _, _ => None end
  | OIn => match b with
           | VTuple l => match py_in a l with Some r => Some (VBool r) | None => None end
           | _ => None
           end
  | ONotIn => match b with
              | VTuple l => match py_in a l with Some r => Some (VBool (negb r)) | None => None end
              | _ => None
              end
  end.

Definition glob_val (g : glob) : value :=
  match g with
  | G_SKIP_ENV_NAMES => VTuple (map VStr Tables.skip_env_names)
  | G_MATH_ENV_NAMES => VTuple (map VStr Tables.math_env_names)
  | G_SPECIAL_COMMANDS => VTuple (map VStr Tables.special_commands)
  end.

(* D.get(key): None = key absent or a key the dict cannot hold here *)
Inductive dres := DFound (v : value) | DMissing | DUnsup.

Definition dict_lookup (d : gdict) (key : value) : dres :=
  match d with
  | D_MATH_TOKEN_TO_ENV =>
    match key with
    | VCat c => match math_kind_of_begin c with
                | Some k => DFound (VCls (KMath k))
                | None => DMissing
                end
    | VNone => DMissing
    | _ => DUnsup
    end
  | D_ARG_BEGIN_TO_ENV =>
    match key with
    | VCat c => match group_kind_of_begin c with
                | Some k => DFound (VCls (KGroup k))
                | None => DMissing
                end
    | VNone => DMissing
    | _ => DUnsup
    end
  | D_SIGNATURES =>
    match text_of key with
    | Some s => match assoc_str s Tables.signatures with
                | Some (a, b) => DFound (VTuple [VInt a; VInt b])
                | None => DMissing
                end
    | None => DUnsup
    end
  end.

Definition cls_token_end (c : cls) : option tc :=
  match c with
  | KMath k => math_tok_end k
  | KGroup k => group_tok_end k
  end.

Definition get_attr (a : attr) (v : value) : option value :=
  match a, v with
  | A_category, VTok _ _ (Some k) => Some (VCat k)
  | A_category, VTok _ _ None => Some VNone
  | A_position, VTok _ p _ => Some (VInt p)
  | A_text, VTok s _ _ => Some (VStr s)
  | A_string, VExpr e => Some (VStr (arg_string e))
  | A_name, VExpr (ENamed n _ _ _) => Some (VStr n)
  | A_name, VExpr (ECmd n _ _ _) => Some (VStr n)
  | A_name, VExpr (EMath k _ _) => Some (VStr (math_name k))
  | A_name, VExpr (EGroup k _ _) => Some (VStr (group_name k))
  | A_end, VExpr (ENamed n _ _ _) => Some (VStr (env_end n))
  | A_end, VExpr (EMath k _ _) => Some (VStr (math_end k))
  | A_end, VExpr (EGroup k _ _) => Some (VStr (group_end k))
  | A_token_end, VExpr (EMath k _ _) =>
    match math_tok_end k with Some t => Some (VCat t) | None => None end
  | A_token_end, VExpr (EGroup k _ _) =>
    match group_tok_end k with Some t => Some (VCat t) | None => None end
  | A_token_end, VCls c =>
    match cls_token_end c with Some t => Some (VCat t) | None => None end
  | _, _ => None
  end.

Definition seq_of (v : value) : option (list value) :=
  match v with
  | VList l => Some l
  | VTuple l => Some l
  | _ => None
  end.

(* an element of a contents list *)
Definition to_content (v : value) : option expr :=
  match v with
  | VExpr e => Some e
  | VTok s p _ => Some (ERaw s p)
  | VStr s => Some (EStr s)
  | _ => None
  end.

Fixpoint to_contents (l : list value) : option (list expr) :=
  match l with
  | [] => Some []
  | v :: l' =>
    match to_content v, to_contents l' with
    | Some e, Some es => Some (e :: es)
    | _, _ => None
    end
  end.

Definition contents_of (v : value) : option (list expr) :=
  match seq_of v with
  | Some l => to_contents l
  | None => None
  end.

(* the `args` argument of a TexExpr constructor: TexArgs(args) *)
Definition args_of (v : value) : option (list expr) :=
  match v with
  | VArgs l => Some l
  | VTuple [] => Some []
  | _ => None
  end.

Definition index_value (v : value) (i : nat) : option value :=
  match v with
  | VList l | VTuple l => nth_error l i
  | VArgs l => match nth_error l i with Some e => Some (VExpr e) | None => None end
  | _ => None
  end.

Definition slice_from (v : value) (i : nat) : option value :=
  match v with
  | VList l => Some (VList (skipn i l))
  | VTuple l => Some (VTuple (skipn i l))
  | VArgs l => Some (VArgs (skipn i l))
  | _ => None
  end.

(* str.isspace() *)
Definition is_space (s : str) : bool := nonempty s && forallb is_ws s.

Definition ends_with (s p : str) : bool := starts_with (rev s) (rev p).

(* TexGroup.parse, over arg_type in its order (Tables.group_classes) *)
Fixpoint parse_group_in (l : list (groupkind * ((tc * tc) * ((str * str) * str)))) (s : str)
  : option expr :=
  match l with
  | [] => None
  | (k, (_, ((b, e), _))) :: l' =>
    if starts_with s b && ends_with s e
    then Some (EGroup k [EStr (firstn (length s - length b - length e) (skipn (length b) s))] (-1))
    else parse_group_in l' s
  end.
Definition parse_group (s : str) : option expr := parse_group_in Tables.group_classes s.

(* tuple(v) *)
Definition to_tuple (v : value) : option value :=
  match v with
  | VTuple l => Some (VTuple l)
  | VList l => Some (VTuple l)
  | _ => None
  end.

(* v.strip() *)
Definition strip_value (v : value) : option value :=
  match v with
  | VStr s => Some (VStr (strip s))
  | VTok s p k =>
    let r := strip s in
    Some (VTok r (p + match r with [] => 0 | _ :: _ => Z.of_nat (length s - length (lstrip s)) end) k)
  | _ => None
  end.

(* s.rstrip(cs) *)
Fixpoint drop_in (cs s : str) : str :=
  match s with
  | [] => []
  | c :: s' => if mem_N c cs then drop_in cs s' else s
  end.
Definition rstrip_chars (cs s : str) : str := rev (drop_in cs (rev s)).
Definition rstrip_value (cs : str) (v : value) : option value :=
  match v with
  | VStr s => Some (VStr (rstrip_chars cs s))
  | VTok s p k => Some (VTok (rstrip_chars cs s) p k)
  | _ => None
  end.

Fixpoint texts_of (l : list value) : option (list str) :=
  match l with
  | [] => Some []
  | v :: l' => match text_of v, texts_of l' with
               | Some s, Some r => Some (s :: r)
               | _, _ => None
               end
  end.

(* s.startswith(p) *)
Definition str_starts_with (v p : value) : option bool :=
  match text_of v with
  | Some s =>
    match p with
    | VTuple l => match texts_of l with
                  | Some ps => Some (existsb (starts_with s) ps)
                  | None => None
                  end
    | _ => match text_of p with
           | Some q => Some (starts_with s q)
           | None => None
           end
    end
  | None => None
  end.

(* lookup in a dict literal *)
Definition lit_lookup (d : list (str * value)) (key : value) : dres :=
  match text_of key with
  | Some s => match assoc_str s d with
              | Some v => DFound v
              | None => DMissing
              end
  | None => DUnsup
  end.

(* the conversions of a %-format string: false = %s, true = %d; '%%' is text;
   None = something else *)
Fixpoint fmt_convs (s : str) : option (list bool) :=
  match s with
  | [] => Some []
  | c :: s1 =>
    if N.eqb c 37 then
      match s1 with
      | [] => None
      | d :: s2 =>
        match fmt_convs s2 with
        | None => None
        | Some r => if N.eqb d 115 then Some (false :: r)
                    else if N.eqb d 100 then Some (true :: r)
                    else if N.eqb d 37 then Some r
                    else None
        end
      end
    else fmt_convs s1
  end.

Inductive fres := FOk | FTypeError | FUnsup.
Fixpoint fmt_check (cs : list bool) (vs : list value) : fres :=
  match cs, vs with
  | [], [] => FOk
  | c :: cs', v :: vs' =>
    if c then match v with
              | VInt _ | VOpq => fmt_check cs' vs'
              | _ => FUnsup
              end
    else fmt_check cs' vs'
  | _, _ => FTypeError
  end.
Definition fmt_dyn (f : value) (vs : list value) : fres :=
  match text_of f with
  | Some s => match fmt_convs s with
              | Some cs => fmt_check cs vs
              | None => FUnsup
              end
  | None => FUnsup
  end.

Inductive ures := UOk (v : value) | UExc (e : err) | UUnsup.

(* x.append(v) *)
Definition append_to (x v : value) : ures :=
  match x with
  | VList l => UOk (VList (l ++ [v]))
  | VArgs l =>
    match v with
    | VExpr (EGroup k b p) => UOk (VArgs (l ++ [EGroup k b p]))
    | VExpr (ECmd n a b p) => UOk (VArgs (l ++ [ECmd n a b p]))
    | VStr s =>
      if is_space s then UUnsup
      else match parse_group s with
           | Some g => UOk (VArgs (l ++ [g]))
           | None => UExc TypeError
           end
    | _ => UUnsup
    end
  | _ => UUnsup
  end.

(* x.append( *vs ) on a TexExpr *)
Definition append_star (x : value) (vs : value) : ures :=
  match x, contents_of vs with
  | VExpr e, Some cs =>
    match e with
    | ENamed n a b p => UOk (VExpr (ENamed n a (b ++ cs) p))
    | EMath k b p => UOk (VExpr (EMath k (b ++ cs) p))
    | EGroup k b p => UOk (VExpr (EGroup k (b ++ cs) p))
    | ECmd n a b p =>
      if str_eqb n s_item || nonempty b then UOk (VExpr (ECmd n a (b ++ cs) p))
      else UExc TypeError
    | _ => UUnsup
    end
  | _, _ => UUnsup
  end.

Definition new_cmd (name contents args pos : value) : option value :=
  match text_of name, contents_of contents, args_of args, pos with
  | Some n, Some cs, Some a, VInt p => Some (VExpr (ECmd (strip n) a cs p))
  | _, _, _, _ => None
  end.

Definition new_named (name contents args pos : value) : option value :=
  match text_of name, contents_of contents, args_of args, pos with
  | Some n, Some cs, Some a, VInt p => Some (VExpr (ENamed (strip n) a cs p))
  | _, _, _, _ => None
  end.

Definition new_of (c : value) (items : list value) (star : option value) (pos : value)
  : option value :=
  match c, pos with
  | VCls (KMath k), VInt p =>
    match items, star with
    | [cs], None => match contents_of cs with
                    | Some es => Some (VExpr (EMath k es p))
                    | None => None
                    end
    | _, _ => None
    end
  | VCls (KGroup k), VInt p =>
    match (match star with
           | None => Some []
           | Some s => seq_of s
           end) with
    | Some more => match to_contents (items ++ more) with
                   | Some es => Some (VExpr (EGroup k es p))
                   | None => None
                   end
    | None => None
    end
  | _, _ => None
  end.

(* ------------------------------------------------------------------ locals *)

Fixpoint set_nth {A} (n : nat) (v : A) (l : list A) : option (list A) :=
  match n, l with
  | O, _ :: l' => Some (v :: l')
  | S n', x :: l' => match set_nth n' v l' with Some r => Some (x :: r) | None => None end
  | _, [] => None
  end.

Definition get_local (x : nat) (fr : frame) : option value :=
  match nth_error (locals fr) x with
  | Some (Some v) => Some v
  | _ => None
  end.

Definition set_local (x : nat) (v : value) (fr : frame) : option frame :=
  match set_nth x (Some v) (locals fr) with
  | Some l => Some (mkf l (yields fr))
  | None => None
  end.

Fixpoint set_locals (xs : list nat) (vs : list value) (fr : frame) : option frame :=
  match xs, vs with
  | [], [] => Some fr
  | x :: xs', v :: vs' =>
    match set_local x v fr with
    | Some fr' => set_locals xs' vs' fr'
    | None => None
    end
  | _, _ => None
  end.

(* ------------------------------------------------------------- expressions *)

Inductive eres := EV (v : value) (fr : frame) (b : buf) | EX (e : err) | EU | EF.
Inductive lres := LV (vs : list value) (fr : frame) (b : buf) | LX (e : err) | LU | LF.
(* result of a call: returned value, final locals of the callee, buffer *)
Inductive cres := CDone (ret : value) (locs : list (option value)) (b : buf)
                | CExc (e : err) | CUnsup | CFuel.

Definition of_opt (o : option value) (fr : frame) (b : buf) : eres :=
  match o with Some v => EV v fr b | None => EU end.

(* write the final values of the callee's by-reference parameters back into
   the caller's variables *)
Fixpoint nth_exp (l : exps) (i : nat) : option exp :=
  match l, i with
  | XNil, _ => None
  | XCons e _, O => Some e
  | XCons _ l', S i' => nth_exp l' i'
  end.

Fixpoint writeback (byref : list nat) (args : exps) (locs : list (option value)) (fr : frame)
  : option frame :=
  match byref with
  | [] => Some fr
  | i :: byref' =>
    match nth_exp args i, nth_error locs i with
    | Some (XVar x), Some (Some v) =>
      match set_local x v fr with
      | Some fr' => writeback byref' args locs fr'
      | None => None
      end
    | _, _ => None
    end
  end.

Section Interp.
Variable tbl : program_table.
(* calls of reader functions, at the fuel left for them *)
Variable rec : fname -> list value -> buf -> cres.

Definition do_call (f : fname) (args : exps) (vs : list value) (fr : frame) (b : buf) : eres :=
  match rec f vs b with
  | CDone ret locs b' =>
    match writeback (fd_byref (tbl f)) args locs fr with
    | Some fr' => EV ret fr' b'
    | None => EU
    end
  | CExc e => EX e
  | CUnsup => EU
  | CFuel => EF
  end.

Fixpoint eval (e : exp) (fr : frame) (b : buf) {struct e} : eres :=
  match e with
  | XConst v => EV v fr b
  | XVar x => of_opt (get_local x fr) fr b
  | XGlobal g => EV (glob_val g) fr b
  | XAttr e1 a =>
    match eval e1 fr b with
    | EV v fr1 b1 => of_opt (get_attr a v) fr1 b1
    | r => r
    end
  | XIndex e1 i =>
    match eval e1 fr b with
    | EV v fr1 b1 => of_opt (index_value v i) fr1 b1
    | r => r
    end
  | XSliceFrom e1 i =>
    match eval e1 fr b with
    | EV v fr1 b1 => of_opt (slice_from v i) fr1 b1
    | r => r
    end
  | XBin o e1 e2 =>
    match eval e1 fr b with
    | EV v1 fr1 b1 =>
      match eval e2 fr1 b1 with
      | EV v2 fr2 b2 => of_opt (bin_op o v1 v2) fr2 b2
      | r => r
      end
    | r => r
    end
  | XNot e1 =>
    match eval e1 fr b with
    | EV v fr1 b1 =>
      match truthy v with
      | Some t => EV (VBool (negb t)) fr1 b1
      | None => EU
      end
    | r => r
    end
  | XAnd e1 e2 =>
    match eval e1 fr b with
    | EV v fr1 b1 =>
      match truthy v with
      | Some true => eval e2 fr1 b1
      | Some false => EV v fr1 b1
      | None => EU
      end
    | r => r
    end
  | XOr e1 e2 =>
    match eval e1 fr b with
    | EV v fr1 b1 =>
      match truthy v with
      | Some true => EV v fr1 b1
      | Some false => eval e2 fr1 b1
      | None => EU
      end
    | r => r
    end
  | XCond c e1 e2 =>
    match eval c fr b with
    | EV v fr1 b1 =>
      match truthy v with
      | Some true => eval e1 fr1 b1
      | Some false => eval e2 fr1 b1
      | None => EU
      end
    | r => r
    end
  | XTuple l =>
    match eval_list l fr b with
    | LV vs fr1 b1 => EV (VTuple vs) fr1 b1
    | LX er => EX er | LU => EU | LF => EF
    end
  | XList l =>
    match eval_list l fr b with
    | LV vs fr1 b1 => EV (VList vs) fr1 b1
    | LX er => EX er | LU => EU | LF => EF
    end
  | XInKeys e1 d =>
    match eval e1 fr b with
    | EV v fr1 b1 =>
      match dict_lookup d v with
      | DFound _ => EV (VBool true) fr1 b1
      | DMissing => EV (VBool false) fr1 b1
      | DUnsup => EU
      end
    | r => r
    end
  | XDictIndex d e1 =>
    match eval e1 fr b with
    | EV v fr1 b1 =>
      match dict_lookup d v with
      | DFound w => EV w fr1 b1
      | DMissing => EX KeyError
      | DUnsup => EU
      end
    | r => r
    end
  | XDictGet d e1 e2 =>
    match eval e1 fr b with
    | EV v fr1 b1 =>
      match eval e2 fr1 b1 with
      | EV dflt fr2 b2 =>
        match dict_lookup d v with
        | DFound w => EV w fr2 b2
        | DMissing => EV dflt fr2 b2
        | DUnsup => EU
        end
      | r => r
      end
    | r => r
    end
  | XIsToken e1 =>
    match eval e1 fr b with
    | EV v fr1 b1 =>
      match v with
      | VTok _ _ _ => EV (VBool true) fr1 b1
      | VOpq => EU
      | _ => EV (VBool false) fr1 b1
      end
    | r => r
    end
  | XFormat pre e1 post =>
    match eval e1 fr b with
    | EV v fr1 b1 =>
      match text_of v with
      | Some s => EV (VStr (pre ++ s ++ post)) fr1 b1
      | None => EU
      end
    | r => r
    end
  | XOpaque l =>
    match eval_list l fr b with
    | LV _ fr1 b1 => EV VOpq fr1 b1
    | LX er => EX er | LU => EU | LF => EF
    end
  | XCloCall f e1 =>
    match eval f fr b with
    | EV VOpq fr1 b1 =>
      match eval e1 fr1 b1 with
      | EV (VInt _) fr2 b2 => EV (VTuple [VOpq; VOpq]) fr2 b2
      | EV _ _ _ => EU
      | r => r
      end
    | EV _ _ _ => EU
    | r => r
    end
  | XNext =>
    match tok_at b 0 with
    | Some t => EV (tok_val t) fr (mkbuf (b_all b) (S (b_pos b)))
    | None => EX StopIteration
    end
  | XPeek k => EV (peek_at b k) fr b
  | XPeekRange lo hi => EV (peek_range b lo hi) fr b
  | XHasNext => EV (VBool (has_next b)) fr b
  | XPosition => EV (VInt (Z.of_nat (b_pos b))) fr b
  | XStartsWith e1 =>
    match eval e1 fr b with
    | EV v fr1 b1 =>
      match text_of v with
      | Some s => EV (VBool (starts_with_buf b1 s)) fr1 b1
      | None => EU
      end
    | r => r
    end
  | XForward e1 =>
    match eval e1 fr b with
    | EV (VInt j) fr1 b1 =>
      match buf_forward b1 j with
      | Some (v, b2) => EV v fr1 b2
      | None => EX AssertionError
      end
    | EV _ _ _ => EU
    | r => r
    end
  | XBackward e1 =>
    match eval e1 fr b with
    | EV (VInt j) fr1 b1 =>
      match buf_backward b1 j with
      | Some (v, b2) => EV v fr1 b2
      | None => EX AssertionError
      end
    | EV _ _ _ => EU
    | r => r
    end
  | XForwardUntilStartsWith e1 =>
    match eval e1 fr b with
    | EV (VStr s) fr1 b1 =>
      let '(v, b2) := forward_until b1 s in EV v fr1 b2
    | EV _ _ _ => EU
    | r => r
    end
  | XNewToken e1 e2 =>
    match eval e1 fr b with
    | EV (VStr s) fr1 b1 =>
      match eval e2 fr1 b1 with
      | EV (VInt p) fr2 b2 => EV (VTok s p None) fr2 b2
      | EV _ _ _ => EU
      | r => r
      end
    | EV _ _ _ => EU
    | r => r
    end
  | XNewArgs => EV (VArgs []) fr b
  | XNewText e1 =>
    match eval e1 fr b with
    | EV (VTok s p (Some k)) fr1 b1 => EV (VExpr (EText (mkt s p k))) fr1 b1
    | EV _ _ _ => EU
    | r => r
    end
  | XNewCmd e1 e2 e3 e4 =>
    match eval e1 fr b with
    | EV v1 fr1 b1 =>
      match eval e2 fr1 b1 with
      | EV v2 fr2 b2 =>
        match eval e3 fr2 b2 with
        | EV v3 fr3 b3 =>
          match eval e4 fr3 b3 with
          | EV v4 fr4 b4 => of_opt (new_cmd v1 v2 v3 v4) fr4 b4
          | r => r
          end
        | r => r
        end
      | r => r
      end
    | r => r
    end
  | XNewNamedEnv e1 e2 e3 e4 =>
    match eval e1 fr b with
    | EV v1 fr1 b1 =>
      match eval e2 fr1 b1 with
      | EV v2 fr2 b2 =>
        match eval e3 fr2 b2 with
        | EV v3 fr3 b3 =>
          match eval e4 fr3 b3 with
          | EV v4 fr4 b4 => of_opt (new_named v1 v2 v3 v4) fr4 b4
          | r => r
          end
        | r => r
        end
      | r => r
      end
    | r => r
    end
  | XNew c items star pos =>
    match eval c fr b with
    | EV vc fr1 b1 =>
      match eval_list items fr1 b1 with
      | LV vs fr2 b2 =>
        match star with
        | None =>
          match eval pos fr2 b2 with
          | EV vp fr3 b3 => of_opt (new_of vc vs None vp) fr3 b3
          | r => r
          end
        | Some s =>
          match eval s fr2 b2 with
          | EV vstar fr3 b3 =>
            match eval pos fr3 b3 with
            | EV vp fr4 b4 => of_opt (new_of vc vs (Some vstar) vp) fr4 b4
            | r => r
            end
          | r => r
          end
        end
      | LX er => EX er | LU => EU | LF => EF
      end
    | r => r
    end
  | XCall f args =>
    match eval_list args fr b with
    | LV vs fr1 b1 => do_call f args vs fr1 b1
    | LX er => EX er | LU => EU | LF => EF
    end
  | XCallPeek f args =>
    match eval_list args fr b with
    | LV vs fr1 b1 =>
      let start := Z.of_nat (b_pos b1) in
      match do_call f args vs fr1 b1 with
      | EV ret fr2 b2 =>
        match buf_backward b2 (Z.of_nat (b_pos b2) - start) with
        | Some (_, b3) => EV ret fr2 b3
        | None => EX AssertionError
        end
      | r => r
      end
    | LX er => EX er | LU => EU | LF => EF
    end
  | XToTuple e1 =>
    match eval e1 fr b with
    | EV v fr1 b1 => of_opt (to_tuple v) fr1 b1
    | r => r
    end
  | XStrip e1 =>
    match eval e1 fr b with
    | EV v fr1 b1 => of_opt (strip_value v) fr1 b1
    | r => r
    end
  | XRStrip e1 cs =>
    match eval e1 fr b with
    | EV v fr1 b1 => of_opt (rstrip_value cs v) fr1 b1
    | r => r
    end
  | XStrStartsWith e1 e2 =>
    match eval e1 fr b with
    | EV v1 fr1 b1 =>
      match eval e2 fr1 b1 with
      | EV v2 fr2 b2 =>
        match str_starts_with v1 v2 with
        | Some r => EV (VBool r) fr2 b2
        | None => EU
        end
      | r => r
      end
    | r => r
    end
  | XIsNone e1 =>
    match eval e1 fr b with
    | EV v fr1 b1 => EV (VBool match v with VNone => true | _ => false end) fr1 b1
    | r => r
    end
  | XLitGet d e1 e2 =>
    match eval e1 fr b with
    | EV v fr1 b1 =>
      match eval e2 fr1 b1 with
      | EV dflt fr2 b2 =>
        match lit_lookup d v with
        | DFound w => EV w fr2 b2
        | DMissing => EV dflt fr2 b2
        | DUnsup => EU
        end
      | r => r
      end
    | r => r
    end
  | XLitIn e1 d =>
    match eval e1 fr b with
    | EV v fr1 b1 =>
      match lit_lookup d v with
      | DFound _ => EV (VBool true) fr1 b1
      | DMissing => EV (VBool false) fr1 b1
      | DUnsup => EU
      end
    | r => r
    end
  | XLitIndex d e1 =>
    match eval e1 fr b with
    | EV v fr1 b1 =>
      match lit_lookup d v with
      | DFound w => EV w fr1 b1
      | DMissing => EX KeyError
      | DUnsup => EU
      end
    | r => r
    end
  | XFormatDyn e1 l =>
    match eval e1 fr b with
    | EV f fr1 b1 =>
      match eval_list l fr1 b1 with
      | LV vs fr2 b2 =>
        match fmt_dyn f vs with
        | FOk => EV VOpq fr2 b2
        | FTypeError => EX TypeError
        | FUnsup => EU
        end
      | LX er => EX er | LU => EU | LF => EF
      end
    | r => r
    end
  end
with eval_list (l : exps) (fr : frame) (b : buf) {struct l} : lres :=
  match l with
  | XNil => LV [] fr b
  | XCons e l' =>
    match eval e fr b with
    | EV v fr1 b1 =>
      match eval_list l' fr1 b1 with
      | LV vs fr2 b2 => LV (v :: vs) fr2 b2
      | r => r
      end
    | EX er => LX er
    | EU => LU
    | EF => LF
    end
  end.

(* -------------------------------------------------------------- statements *)

Inductive xres :=
| XNormal (fr : frame) (b : buf)
| XReturn (v : value) (fr : frame) (b : buf)
| XBreak (fr : frame) (b : buf)
| XContinue (fr : frame) (b : buf)
| XExc (e : err)
| XUnsup
| XFuel.

Definition assign (x : nat) (v : value) (fr : frame) (b : buf) : xres :=
  match set_local x v fr with
  | Some fr' => XNormal fr' b
  | None => XUnsup
  end.

Definition update_with (x : nat) (u : value -> ures) (fr : frame) (b : buf) : xres :=
  match get_local x fr with
  | Some old =>
    match u old with
    | UOk new => assign x new fr b
    | UExc e => XExc e
    | UUnsup => XUnsup
    end
  | None => XUnsup
  end.

Fixpoint while_loop (ev : frame -> buf -> eres) (body : frame -> buf -> xres) (fuel : nat)
         (fr : frame) (b : buf) : xres :=
  match fuel with
  | O => XFuel
  | S f =>
    match ev fr b with
    | EV v fr1 b1 =>
      match truthy v with
      | Some true =>
        match body fr1 b1 with
        | XNormal fr2 b2 => while_loop ev body f fr2 b2
        | XContinue fr2 b2 => while_loop ev body f fr2 b2
        | XBreak fr2 b2 => XNormal fr2 b2
        | x => x
        end
      | Some false => XNormal fr1 b1
      | None => XUnsup
      end
    | EX e => XExc e
    | EU => XUnsup
    | EF => XFuel
    end
  end.

(* for x in range(n): i counts up from `i` for `n` rounds *)
Fixpoint for_range (x : nat) (body : frame -> buf -> xres) (n : nat) (i : Z)
         (fr : frame) (b : buf) : xres :=
  match n with
  | O => XNormal fr b
  | S n' =>
    match set_local x (VInt i) fr with
    | Some fr1 =>
      match body fr1 b with
      | XNormal fr2 b2 => for_range x body n' (i + 1) fr2 b2
      | XContinue fr2 b2 => for_range x body n' (i + 1) fr2 b2
      | XBreak fr2 b2 => XNormal fr2 b2
      | r => r
      end
    | None => XUnsup
    end
  end.

Variable lfuel : nat.

Fixpoint exec (s : stmt) (fr : frame) (b : buf) {struct s} : xres :=
  match s with
  | SAssign x e =>
    match eval e fr b with
    | EV v fr1 b1 => assign x v fr1 b1
    | EX er => XExc er | EU => XUnsup | EF => XFuel
    end
  | SUnpack xs e =>
    match eval e fr b with
    | EV v fr1 b1 =>
      match seq_of v with
      | Some vs => match set_locals xs vs fr1 with
                   | Some fr2 => XNormal fr2 b1
                   | None => XUnsup
                   end
      | None => XUnsup
      end
    | EX er => XExc er | EU => XUnsup | EF => XFuel
    end
  | SAugAdd x e =>
    match eval e fr b with
    | EV v fr1 b1 =>
      update_with x (fun old => match old, v with
                                | VInt a, VInt c => UOk (VInt (a + c))
                                | _, _ => UUnsup
                                end) fr1 b1
    | EX er => XExc er | EU => XUnsup | EF => XFuel
    end
  | SAugSub x e =>
    match eval e fr b with
    | EV v fr1 b1 =>
      update_with x (fun old => match old, v with
                                | VInt a, VInt c => UOk (VInt (a - c))
                                | _, _ => UUnsup
                                end) fr1 b1
    | EX er => XExc er | EU => XUnsup | EF => XFuel
    end
  | SExpr e =>
    match eval e fr b with
    | EV _ fr1 b1 => XNormal fr1 b1
    | EX er => XExc er | EU => XUnsup | EF => XFuel
    end
  | SAppend x e =>
    match eval e fr b with
    | EV v fr1 b1 => update_with x (fun old => append_to old v) fr1 b1
    | EX er => XExc er | EU => XUnsup | EF => XFuel
    end
  | SAppendStar x e =>
    match eval e fr b with
    | EV v fr1 b1 => update_with x (fun old => append_star old v) fr1 b1
    | EX er => XExc er | EU => XUnsup | EF => XFuel
    end
  | SReturn e =>
    match eval e fr b with
    | EV v fr1 b1 => XReturn v fr1 b1
    | EX er => XExc er | EU => XUnsup | EF => XFuel
    end
  | SYield e =>
    match eval e fr b with
    | EV v fr1 b1 => XNormal (mkf (locals fr1) (yields fr1 ++ [v])) b1
    | EX er => XExc er | EU => XUnsup | EF => XFuel
    end
  | SAssert e =>
    match eval e fr b with
    | EV v fr1 b1 =>
      match truthy v with
      | Some true => XNormal fr1 b1
      | Some false => XExc AssertionError
      | None => XUnsup
      end
    | EX er => XExc er | EU => XUnsup | EF => XFuel
    end
  | SRaise er msg =>
    match eval msg fr b with
    | EV _ _ _ => XExc er
    | EX er' => XExc er' | EU => XUnsup | EF => XFuel
    end
  | SBreak => XBreak fr b
  | SContinue => XContinue fr b
  | SIf c s1 s2 =>
    match eval c fr b with
    | EV v fr1 b1 =>
      match truthy v with
      | Some true => exec_block s1 fr1 b1
      | Some false => exec_block s2 fr1 b1
      | None => XUnsup
      end
    | EX er => XExc er | EU => XUnsup | EF => XFuel
    end
  | SWhile c body => while_loop (eval c) (exec_block body) lfuel fr b
  | SForRange x e body =>
    match eval e fr b with
    | EV (VInt n) fr1 b1 => for_range x (exec_block body) (Z.to_nat n) 0 fr1 b1
    | EV _ _ _ => XUnsup
    | EX er => XExc er | EU => XUnsup | EF => XFuel
    end
  end
with exec_block (bl : block) (fr : frame) (b : buf) {struct bl} : xres :=
  match bl with
  | BNil => XNormal fr b
  | BCons s bl' =>
    match exec s fr b with
    | XNormal fr1 b1 => exec_block bl' fr1 b1
    | r => r
    end
  end.

End Interp.

(* -------------------------------------------------------------------- calls *)

Definition init_frame (fd : fundef) (args : list value) : option frame :=
  if Nat.eqb (length args) (fd_nparams fd)
  then Some (mkf (map Some args ++ repeat None (fd_nlocals fd - fd_nparams fd)) [])
  else None.

(* the value of a def: what it returned, None when it fell off the end; a
   generator's value is the list of what it yielded *)
Definition finish (fd : fundef) (x : xres) : cres :=
  match x with
  | XNormal fr b =>
    CDone (if fd_gen fd then VList (yields fr) else VNone) (locals fr) b
  | XReturn v fr b =>
    if fd_gen fd
    then match v with
         | VNone => CDone (VList (yields fr)) (locals fr) b
         | _ => CUnsup
         end
    else CDone v (locals fr) b
  | XBreak _ _ => CUnsup
  | XContinue _ _ => CUnsup
  | XExc e => CExc e
  | XUnsup => CUnsup
  | XFuel => CFuel
  end.

Fixpoint call (tbl : program_table) (fuel : nat) (f : fname) (args : list value) (b : buf)
  : cres :=
  match fuel with
  | O => CFuel
  | S n =>
    match init_frame (tbl f) args with
    | Some fr => finish (tbl f) (exec_block tbl (call tbl n) n (fd_body (tbl f)) fr b)
    | None => CUnsup
    end
  end.

Inductive outcome :=
| ODone (v : value) (b : buf)
| OExc (e : err)
| OUnsup
| OFuel.

Definition run (tbl : program_table) (fuel : nat) (f : fname) (args : list value) (b : buf)
  : outcome :=
  match call tbl fuel f args b with
  | CDone v _ b' => ODone v b'
  | CExc e => OExc e
  | CUnsup => OUnsup
  | CFuel => OFuel
  end.

(* ------------------------------------------------- the parameters, as values *)

(* the string constants MODE_NON_MATH / MODE_MATH / MODE_SPECIAL of reader.py
   (the generated file proves that the source still binds them to these) *)
Definition str_mode_non_math : str :=
  [109; 111; 100; 101; 58; 110; 111; 110; 45; 109; 97; 116; 104]%N.
Definition str_mode_math : str := [109; 111; 100; 101; 58; 109; 97; 116; 104]%N.
Definition str_mode_special : str :=
  [109; 111; 100; 101; 58; 115; 112; 101; 99; 105; 97; 108]%N.

Definition mode_val (m : mode) : value :=
  VStr (match m with
        | MNonMath => str_mode_non_math
        | MMath => str_mode_math
        | MSpecial => str_mode_special
        end).

(* tolerance: the hand model's `strict` is tolerance == 0 *)
Definition tol_val (strict : bool) : value := VInt (if strict then 0 else 1).
Definition skip_val (l : list str) : value := VTuple (map VStr l).

(* ------------------------------------------------------------- from the top *)

(* TexSoup.tex.read: TexEnv('[tex]', begin='', end='', contents=read_tex(buf,
   skip_envs=skip_envs, tolerance=tolerance)) -- hand-written here, as in
   Reader.parse_tokens; TexExpr.__init__ runs the generator with list(..). *)
Inductive gres := GDone (r : res expr) | GUnsup | GFuel.

Definition gen_fuel (toks : list token) : nat := 2 * fuel_for toks + 8.

Definition parse_tokens_gen_full (tbl : program_table) (toks : list token) (strict : bool)
           (user_skip : list str) : gres :=
  match run tbl (gen_fuel toks) F_read_tex [skip_val user_skip; tol_val strict] (mkbuf toks 0) with
  | ODone v _ =>
    match contents_of v with
    | Some body => GDone (Ok (ERoot body))
    | None => GUnsup
    end
  | OExc e => GDone (Err e)
  | OUnsup => GUnsup
  | OFuel => GFuel
  end.

(* same signature as Reader.parse_tokens; leaving the modelled fragment or
   running out of fuel is reported as the model's own OutOfFuel (the theorems
   are about parse_tokens_gen_full) *)
Definition parse_tokens_gen (tbl : program_table) (toks : list token) (strict : bool)
           (user_skip : list str) : res expr :=
  match parse_tokens_gen_full tbl toks strict user_skip with
  | GDone r => r
  | GUnsup => Err OutOfFuel
  | GFuel => Err OutOfFuel
  end.

Definition parse_gen (tbl : program_table) (s : str) (strict : bool) (user_skip : list str)
  : res expr :=
  match tokens_of_string s with
  | (toks, TEnd) => parse_tokens_gen tbl toks strict user_skip
  | (_, _) => Err TokenizerError
  end.
