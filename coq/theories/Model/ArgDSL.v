(* A small dynamically typed language for the method bodies of class TexArgs
   (TexSoup/data.py) AS WRITTEN, and its total interpreter.

   harness/gen_args.py reads the Python `ast` of data.py on every run and
   writes __init__, __coerce, append, extend, insert, remove, pop, reverse,
   clear, __getitem__, __contains__ and __str__ -- and the classmethod
   TexGroup.parse they rely on -- as terms of this language (Model/ArgGen.v);
   Proofs/ArgGenProofs.v proves that interpreting them gives exactly the
   hand-written operations of Model/Args.v (the model the C18 proofs are
   about).  NOT translated: __repr__ (repr of a group needs Python's
   string-literal escaping, which is not modelled).
   Trusted: the translator maps each Python construct to the constructor named
   after it, and the interpreter gives it the meaning it has in Python:

   self      a TexArgs object is Args.state = (the list itself, self.all):
             a list of groups and a list of items (groups and strings).
   values    None, bool, int, str (a list of code points), a group object
             (BraceGroup/BracketGroup built from one string, as in Args.v;
             TexCmd elements are not modelled), a plain list of groups (what
             list slicing returns), VArgs (the iterable given to extend / the
             constructor: groups and strings), a slice object with int-or-None
             bounds and no step, VObj (a newly built TexArgs), self.
   list primitives (ELop): on `super()` -- the list part of self -- and on
             `self.all`, with CPython's list semantics as written down in
             Args.v: insert (py_insert: index clipped like ins1), remove /
             index (first element == the argument, ValueError if none;
             == between groups and strings is the textual TexExpr.__eq__:
             Args.item_eqb), pop (IndexError on an empty list or an index out
             of range), __getitem__ (int: IndexError out of range; slice:
             py_slice, a plain list), append, reverse, clear, __init__ (no
             argument: nothing to do on a fresh list).  Only a group may enter
             the list itself, only a group or a str may enter self.all;
             anything else is OUnsup.
   self[x]   is type(self).__getitem__(self, x): a call of the translated
             method; self[a:b] passes slice(a, b).   self.m(...) a call of the
             translated method m; positional arguments; a missing trailing
             argument takes the default (a constant; the mutable default [] of
             __init__ is never mutated: the translator checks that the
             parameter is only read).
   TexArgs(x)  x must be a plain list of groups: the translated __init__ runs
             on a fresh empty object; its exception, if any, propagates.
   TexGroup.parse(s)   a call of the translated classmethod (M_parse; `cls` is
             not used by it: checked).  Its vocabulary: `arg_type` is the tuple
             (BracketGroup, BraceGroup) [pinned], iterated by `for`; a class
             object (VCls, true = bracket) has the class attributes begin / end
             [pinned: '[' ']' '{' '}'] and, called on one str, builds the group
             with that content; s.startswith(p), s.endswith(p) (Args.starts_with
             / ends_with), s[a:b] on a str (Args.py_slice), s.lstrip(cs) /
             s.rstrip(cs) (drop the leading / trailing characters that occur in
             cs), unary minus on an int; `assert c` (a failing assert raises
             AssertionError, which Args.out cannot express: OUnsup);
             `raise TypeError(msg)`.
   isinstance(x, str) / (x, (TexGroup, TexCmd)) / (x, list)   by value kind
             (TexArgs is a list subclass: a VObj is a list; self is not
             expected there: OUnsup).
   s.isspace()   Args.is_space on a str.   len(x)  self, str, plain list.
   getattr(x, 'all', d)   (both operands are evaluated first) a newly built
             TexArgs: its .all, as an iterable; None / bool / int / str / a plain
             list / a slice have no such attribute: d; a group object has the
             property TexExpr.all, a VArgs may or may not be a TexArgs, self.all
             is the live list: OUnsup.
   + - max min < <= == (ints)   a if c else b   and / not (truth values of
             bools only).   x = e;  return e;  if/elif/else;
   for x in e   e must be a VArgs (or arg_type); an exception in the body ends the loop.
   [p for x in self] / [p for x in self.all]   (also written as a generator
             expression or map(str, .) where it is consumed at once by any / join)
             a finite sequence of values VList, consumed by any(.) and s.join(.)
             only (len / isinstance / ... of it: OUnsup).  The elements are those
             of the list itself (groups) or of self.all AT THAT MOMENT; the element
             expression p is of the separate, effect-free type pexpr: the
             comprehension variable, an enclosing local, a.string (of a group:
             the string it was built from -- TexExpr.string, ''.join(map(str,
             _contents)) -- as Args.m_contains reads it; of anything else:
             OUnsup), str(a) (of a group: Args.render, the reading of
             TexEnv.__str__ that item_eqb relies on too; of a str: itself),
             a == b (both a group or a str: the textual TexExpr.__eq__ /
             str.__eq__ / TexText.__eq__, Args.item_eqb).  The comprehension
             variable is visible in p only.
   any(l)    l a VList of bools (anything else: OUnsup): some element is True.
   s.join(l) s a str, l a VList of strs (anything else: OUnsup).   'abc' a str constant.
   super().__contains__(x)   list membership, `e is x or e == x` for some element
             e: == as for remove / index (identity implies it).
   Exceptions are those of Args.out (TypeError, ValueError, IndexError) and
   carry the state of self at the raise; every other error is OUnsup.  No
   unbounded loops; calls nest at most call_depth deep (OFuel beyond). *)
From Coq Require Import List ZArith Bool.
From TexModel Require Import Args.
Import ListNotations.
Local Open Scope Z_scope.

Inductive exn := TypeError | ValueError | IndexError.

Inductive value :=
| VNone
| VBool (b : bool)
| VInt (z : Z)
| VStr (s : pstr)
| VGroup (g : group)
| VGList (l : list group)
| VArgs (l : list arg)
| VSlice (lo hi : option Z)
| VObj (st : state)
| VSelf
| VCls (k : bool)                    (* the class BracketGroup (true) / BraceGroup (false) *)
| VClasses (ks : list bool)          (* a tuple of such classes *)
| VList (l : list value).            (* the values of a comprehension / generator / map *)

Inductive meth :=
| M_init | M_coerce | M_append | M_extend | M_insert | M_remove | M_pop | M_reverse
| M_clear | M_getitem | M_parse | M_contains | M_str.

Inductive recv := RSuper | RAll.
Inductive lop := LInit | LInsert | LRemove | LPop | LReverse | LClear | LGetitem | LIndex | LAppend
| LContains.
Inductive cmpop := CLt | CLe | CEq.

(* what a comprehension iterates over: the list itself / self.all *)
Inductive csrc := CSelf | CAll.

(* the element expression of a comprehension: no effects, no calls of methods *)
Inductive pexpr :=
| PElem                              (* the comprehension variable *)
| PVar (x : nat)                     (* a parameter / local of the enclosing method *)
| PString (a : pexpr)                (* a.string *)
| PStr (a : pexpr)                   (* str(a) *)
| PEq (a b : pexpr).                 (* a == b *)

Inductive expr :=
| ENone
| EStr (s : pstr)                    (* a str constant *)
| EComp (p : pexpr) (s : csrc)       (* [p for x in s] *)
| EAny (a : expr)                    (* any(a) *)
| EJoin (s a : expr)                 (* s.join(a) *)
| EInt (z : Z)
| EEmptyList
| ESelf
| EVar (x : nat)
| EAdd (a b : expr)
| ESub (a b : expr)
| EMax (a b : expr)
| EMin (a b : expr)
| ECmp (o : cmpop) (a b : expr)
| EIfExp (c a b : expr)
| EAnd (a b : expr)
| ENot (a : expr)
| EIsStr (a : expr)
| EIsGroupOrCmd (a : expr)           (* isinstance(a, (TexGroup, TexCmd)) *)
| EIsList (a : expr)
| EIsSpace (a : expr)                (* a.isspace() *)
| ELen (a : expr)
| EParse (a : expr)                  (* TexGroup.parse(a) *)
| EGetAllOr (a d : expr)             (* getattr(a, 'all', d) *)
| EArgTypes                          (* arg_type *)
| EClsAttr (e : bool) (a : expr)     (* a.begin (false) / a.end (true) of a class object *)
| ENewGroup (c a : expr)             (* c(a): c a class object *)
| EStartsWith (a b : expr)           (* a.startswith(b) *)
| EEndsWith (a b : expr)
| ESliceStr (a lo hi : expr)         (* a[lo:hi] on a str *)
| EStrip (rt : bool) (a b : expr)    (* a.lstrip(b) (false) / a.rstrip(b) (true) *)
| ENeg (a : expr)                    (* -a *)
| ESliceObj (lo hi : expr)
| ENew (a : expr)                    (* TexArgs(a) *)
| ELop (r : recv) (o : lop) (xs : args)   (* super().o(xs) / self.all.o(xs) *)
| ECallMeth (m : meth) (xs : args)
with args :=
| ANil
| ACons (e : expr) (xs : args).

Fixpoint args_of (l : list expr) : args :=
  match l with
  | [] => ANil
  | e :: l' => ACons e (args_of l')
  end.

Inductive stmt :=
| SExpr (e : expr)
| SAssign (x : nat) (e : expr)
| SSetAll (e : expr)                 (* self.all = e *)
| SReturn (e : expr)
| SAssert (c : expr)
| SRaise (x : exn)
| SIf (c : expr) (a b : block)
| SFor (x : nat) (e : expr) (b : block)
with block :=
| BNil
| BCons (s : stmt) (b : block).

Fixpoint blk (l : list stmt) : block :=
  match l with
  | [] => BNil
  | s :: l' => BCons s (blk l')
  end.

Record mdef := mkM { m_params : list (option value); m_body : block }.
Definition cls := meth -> mdef.

Inductive rv := RVal (v : value) | RExc (e : exn).

Inductive outcome :=
| ODone (d : state) (r : rv)
| OUnsup
| OFuel.

Inductive eres :=
| EV (v : value) (d : state)
| EX (e : exn) (d : state)
| EUnsup
| EFuel.

Inductive ares :=
| AV (vs : list value) (d : state)
| AX (e : exn) (d : state)
| AUnsup
| AFuel.

Definition env := list (option value).

Inductive xres :=
| XNormal (en : env) (d : state)
| XReturn (v : value) (d : state)
| XExc (e : exn) (d : state)
| XUnsup
| XFuel.

Definition callfn := meth -> list value -> state -> outcome.

(* ------------------------------------------------------- value operations *)

Definition item_of (v : value) : option item :=
  match v with
  | VGroup g => Some (IG g)
  | VStr s => Some (IW s)
  | _ => None
  end.

Definition value_of_item (it : item) : value :=
  match it with IG g => VGroup g | IW s => VStr s end.

Definition value_of_arg (a : arg) : value :=
  match a with AG g => VGroup g | AS s => VStr s end.

Definition arg_of_item (it : item) : arg :=
  match it with IG g => AG g | IW s => AS s end.

(* str.lstrip(cs): drop the leading characters that occur in cs; rstrip: the trailing ones *)
Fixpoint lstrip_chars (cs s : pstr) : pstr :=
  match s with
  | [] => []
  | c :: s' => if existsb (Z.eqb c) cs then lstrip_chars cs s' else s
  end.
Definition rstrip_chars (cs s : pstr) : pstr := rev (lstrip_chars cs (rev s)).

Definition int2 (f : Z -> Z -> value) (a b : value) : option value :=
  match a, b with
  | VInt x, VInt y => Some (f x y)
  | _, _ => None
  end.

Definition bound_of (v : value) : option (option Z) :=
  match v with
  | VNone => Some None
  | VInt z => Some (Some z)
  | _ => None
  end.

(* the list primitives; None = outside the fragment *)
Definition list_op (r : recv) (o : lop) (vs : list value) (d : state) : option (state * rv) :=
  let '(lst, all) := d in
  match r, o, vs with
  | RSuper, LInit, [] => Some (d, RVal VNone)
  | RSuper, LInsert, [VInt i; VGroup g] => Some ((py_insert i g lst, all), RVal VNone)
  | RSuper, LRemove, [v] =>
    match item_of v with
    | Some it =>
      match py_remove (fun g => item_eqb (IG g) it) lst with
      | Some lst1 => Some ((lst1, all), RVal VNone)
      | None => Some (d, RExc ValueError)
      end
    | None => None
    end
  | RSuper, LPop, [VInt i] =>
    match py_pop i lst with
    | Some (g, lst1) => Some ((lst1, all), RVal (VGroup g))
    | None => Some (d, RExc IndexError)
    end
  | RSuper, LReverse, [] => Some ((rev lst, all), RVal VNone)
  | RSuper, LClear, [] => Some (([], all), RVal VNone)
  | RSuper, LGetitem, [VInt i] =>
    match py_getitem i lst with
    | Some g => Some (d, RVal (VGroup g))
    | None => Some (d, RExc IndexError)
    end
  | RSuper, LGetitem, [VSlice lo hi] => Some (d, RVal (VGList (py_slice lo hi lst)))
  | RSuper, LContains, [v] =>
    match item_of v with
    | Some it => Some (d, RVal (VBool (existsb (fun g => item_eqb (IG g) it) lst)))
    | None => None
    end
  | RAll, LAppend, [v] =>
    match item_of v with
    | Some it => Some ((lst, all ++ [it]), RVal VNone)
    | None => None
    end
  | RAll, LInsert, [VInt i; v] =>
    match item_of v with
    | Some it => Some ((lst, py_insert i it all), RVal VNone)
    | None => None
    end
  | RAll, LIndex, [v] =>
    match item_of v with
    | Some it =>
      match py_index (fun x => item_eqb x it) all with
      | Some j => Some (d, RVal (VInt (Z.of_nat j)))
      | None => Some (d, RExc ValueError)
      end
    | None => None
    end
  | RAll, LRemove, [v] =>
    match item_of v with
    | Some it =>
      match py_remove (fun x => item_eqb x it) all with
      | Some all1 => Some ((lst, all1), RVal VNone)
      | None => Some (d, RExc ValueError)
      end
    | None => None
    end
  | RAll, LPop, [VInt i] =>
    match py_pop i all with
    | Some (it, all1) => Some ((lst, all1), RVal (value_of_item it))
    | None => Some (d, RExc IndexError)
    end
  | RAll, LReverse, [] => Some ((lst, rev all), RVal VNone)
  | RAll, LClear, [] => Some ((lst, []), RVal VNone)
  | _, _, _ => None
  end.

Definition lookup (en : env) (x : nat) : option value :=
  match nth_error en x with
  | Some (Some v) => Some v
  | _ => None
  end.

Fixpoint map_opt {A B} (f : A -> option B) (l : list A) : option (list B) :=
  match l with
  | [] => Some []
  | a :: t =>
    match f a, map_opt f t with
    | Some b, Some r => Some (b :: r)
    | _, _ => None
    end
  end.

(* the element expression p with the comprehension variable bound to x *)
Fixpoint peval (p : pexpr) (en : env) (x : value) : option value :=
  match p with
  | PElem => Some x
  | PVar y => lookup en y
  | PString a =>
    match peval a en x with
    | Some (VGroup g) => Some (VStr (snd g))
    | _ => None
    end
  | PStr a =>
    match peval a en x with
    | Some (VGroup g) => Some (VStr (render g))
    | Some (VStr s) => Some (VStr s)
    | _ => None
    end
  | PEq a b =>
    match peval a en x, peval b en x with
    | Some v1, Some v2 =>
      match item_of v1, item_of v2 with
      | Some i1, Some i2 => Some (VBool (item_eqb i1 i2))
      | _, _ => None
      end
    | _, _ => None
    end
  end.

Definition comp_elems (s : csrc) (d : state) : list value :=
  match s with
  | CSelf => map VGroup (fst d)
  | CAll => map value_of_item (snd d)
  end.

Definition bool_of (v : value) : option bool := match v with VBool b => Some b | _ => None end.
Definition str_of (v : value) : option pstr := match v with VStr s => Some s | _ => None end.

(* sep.join(parts) *)
Fixpoint join_with (sep : pstr) (parts : list pstr) : pstr :=
  match parts with
  | [] => []
  | p :: t => match t with [] => p | _ :: _ => p ++ sep ++ join_with sep t end
  end.

Fixpoint set_var (en : env) (x : nat) (v : value) : env :=
  match x, en with
  | O, [] => [Some v]
  | O, _ :: r => Some v :: r
  | S x', [] => None :: set_var [] x' v
  | S x', a :: r => a :: set_var r x' v
  end.

Fixpoint bind_params (ps : list (option value)) (vs : list value) : option env :=
  match ps, vs with
  | [], [] => Some []
  | [], _ :: _ => None
  | _ :: ps', v :: vs' => option_map (cons (Some v)) (bind_params ps' vs')
  | Some dv :: ps', [] => option_map (cons (Some dv)) (bind_params ps' [])
  | None :: _, [] => None
  end.

Definition lift_v (o : option value) (d : state) : eres :=
  match o with
  | Some v => EV v d
  | None => EUnsup
  end.

Definition of_outcome (o : outcome) : eres :=
  match o with
  | ODone d (RVal v) => EV v d
  | ODone d (RExc e) => EX e d
  | OUnsup => EUnsup
  | OFuel => EFuel
  end.

Section Interp.
Variable callf : callfn.

Fixpoint eval (e : expr) (en : env) (d : state) {struct e} : eres :=
  let un (a : expr) (k : value -> state -> eres) : eres :=
    match eval a en d with
    | EV v d1 => k v d1
    | x => x
    end in
  let bin (a b : expr) (k : value -> value -> state -> eres) : eres :=
    match eval a en d with
    | EV v1 d1 =>
      match eval b en d1 with
      | EV v2 d2 => k v1 v2 d2
      | x => x
      end
    | x => x
    end in
  match e with
  | ENone => EV VNone d
  | EStr s => EV (VStr s) d
  | EComp p s => lift_v (option_map VList (map_opt (peval p en) (comp_elems s d))) d
  | EAny a =>
    un a (fun v d1 =>
      match v with
      | VList l =>
        lift_v (option_map (fun bs => VBool (existsb (fun b => b) bs)) (map_opt bool_of l)) d1
      | _ => EUnsup
      end)
  | EJoin s a =>
    bin s a (fun v1 v2 d2 =>
      match v1, v2 with
      | VStr sep, VList l =>
        lift_v (option_map (fun ps => VStr (join_with sep ps)) (map_opt str_of l)) d2
      | _, _ => EUnsup
      end)
  | EInt z => EV (VInt z) d
  | EEmptyList => EV (VGList []) d
  | ESelf => EV VSelf d
  | EVar x => lift_v (lookup en x) d
  | EAdd a b => bin a b (fun v1 v2 d2 => lift_v (int2 (fun x y => VInt (x + y)) v1 v2) d2)
  | ESub a b => bin a b (fun v1 v2 d2 => lift_v (int2 (fun x y => VInt (x - y)) v1 v2) d2)
  | EMax a b => bin a b (fun v1 v2 d2 => lift_v (int2 (fun x y => VInt (Z.max x y)) v1 v2) d2)
  | EMin a b => bin a b (fun v1 v2 d2 => lift_v (int2 (fun x y => VInt (Z.min x y)) v1 v2) d2)
  | ECmp o a b =>
    bin a b (fun v1 v2 d2 =>
      lift_v (int2 (fun x y => VBool (match o with
                                      | CLt => x <? y | CLe => x <=? y | CEq => x =? y
                                      end)) v1 v2) d2)
  | EIfExp c a b =>
    un c (fun v d1 =>
      match v with
      | VBool true => eval a en d1
      | VBool false => eval b en d1
      | _ => EUnsup
      end)
  | EAnd a b =>
    un a (fun v d1 =>
      match v with
      | VBool true => eval b en d1
      | VBool false => EV (VBool false) d1
      | _ => EUnsup
      end)
  | ENot a => un a (fun v d1 => match v with VBool b => EV (VBool (negb b)) d1 | _ => EUnsup end)
  | EIsStr a =>
    un a (fun v d1 =>
      match v with
      | VStr _ => EV (VBool true) d1
      | VNone | VBool _ | VInt _ | VGroup _ | VGList _ | VObj _ => EV (VBool false) d1
      | _ => EUnsup
      end)
  | EIsGroupOrCmd a =>
    un a (fun v d1 =>
      match v with
      | VGroup _ => EV (VBool true) d1
      | VNone | VBool _ | VInt _ | VStr _ | VGList _ | VObj _ => EV (VBool false) d1
      | _ => EUnsup
      end)
  | EIsList a =>
    un a (fun v d1 =>
      match v with
      | VGList _ | VObj _ => EV (VBool true) d1
      | VNone | VBool _ | VInt _ | VStr _ | VGroup _ => EV (VBool false) d1
      | _ => EUnsup
      end)
  | EIsSpace a => un a (fun v d1 => match v with VStr s => EV (VBool (is_space s)) d1 | _ => EUnsup end)
  | ELen a =>
    un a (fun v d1 =>
      match v with
      | VSelf => EV (VInt (zlen (fst d1))) d1
      | VStr s => EV (VInt (zlen s)) d1
      | VGList l => EV (VInt (zlen l)) d1
      | _ => EUnsup
      end)
  | EParse a => un a (fun v d1 => of_outcome (callf M_parse [v] d1))
  | EArgTypes => EV (VClasses [true; false]) d
  | EClsAttr e a =>
    un a (fun v d1 =>
      match v with
      | VCls k => EV (VStr [if e then close_of k else open_of k]) d1
      | _ => EUnsup
      end)
  | ENewGroup c a =>
    bin c a (fun v1 v2 d2 =>
      match v1, v2 with
      | VCls k, VStr s => EV (VGroup (k, s)) d2
      | _, _ => EUnsup
      end)
  | EStartsWith a b =>
    bin a b (fun v1 v2 d2 =>
      match v1, v2 with
      | VStr s, VStr p => EV (VBool (starts_with s p)) d2
      | _, _ => EUnsup
      end)
  | EEndsWith a b =>
    bin a b (fun v1 v2 d2 =>
      match v1, v2 with
      | VStr s, VStr p => EV (VBool (ends_with s p)) d2
      | _, _ => EUnsup
      end)
  | ESliceStr a lo hi =>
    un a (fun v d1 =>
      match eval lo en d1 with
      | EV v1 d2 =>
        match eval hi en d2 with
        | EV v2 d3 =>
          match v, bound_of v1, bound_of v2 with
          | VStr s, Some l, Some h => EV (VStr (py_slice l h s)) d3
          | _, _, _ => EUnsup
          end
        | x => x
        end
      | x => x
      end)
  | EStrip rt a b =>
    bin a b (fun v1 v2 d2 =>
      match v1, v2 with
      | VStr s, VStr cs => EV (VStr (if rt then rstrip_chars cs s else lstrip_chars cs s)) d2
      | _, _ => EUnsup
      end)
  | ENeg a => un a (fun v d1 => match v with VInt z => EV (VInt (- z)) d1 | _ => EUnsup end)
  | EGetAllOr a b =>
    bin a b (fun v1 v2 d2 =>
      match v1 with
      | VObj st => EV (VArgs (map arg_of_item (snd st))) d2
      | VNone | VBool _ | VInt _ | VStr _ | VGList _ | VSlice _ _ => EV v2 d2
      | VGroup _ | VArgs _ | VSelf | VCls _ | VClasses _ | VList _ => EUnsup
      end)
  | ESliceObj lo hi =>
    bin lo hi (fun v1 v2 d2 =>
      match bound_of v1, bound_of v2 with
      | Some l, Some h => EV (VSlice l h) d2
      | _, _ => EUnsup
      end)
  | ENew a =>
    un a (fun v d1 =>
      match v with
      | VGList l =>
        match callf M_init [VArgs (map AG l)] empty_state with
        | ODone st' (RVal VNone) => EV (VObj st') d1
        | ODone _ (RVal _) => EUnsup
        | ODone _ (RExc x) => EX x d1
        | OUnsup => EUnsup
        | OFuel => EFuel
        end
      | _ => EUnsup
      end)
  | ELop r o xs =>
    match eval_args xs en d with
    | AV vs d1 =>
      match list_op r o vs d1 with
      | Some (d2, RVal v) => EV v d2
      | Some (d2, RExc x) => EX x d2
      | None => EUnsup
      end
    | AX x d1 => EX x d1
    | AUnsup => EUnsup
    | AFuel => EFuel
    end
  | ECallMeth m xs =>
    match eval_args xs en d with
    | AV vs d1 => of_outcome (callf m vs d1)
    | AX x d1 => EX x d1
    | AUnsup => EUnsup
    | AFuel => EFuel
    end
  end
with eval_args (xs : args) (en : env) (d : state) {struct xs} : ares :=
  match xs with
  | ANil => AV [] d
  | ACons e xs' =>
    match eval e en d with
    | EV v d1 =>
      match eval_args xs' en d1 with
      | AV vs d2 => AV (v :: vs) d2
      | x => x
      end
    | EX x d1 => AX x d1
    | EUnsup => AUnsup
    | EFuel => AFuel
    end
  end.

Fixpoint for_loop (body : env -> state -> xres) (x : nat) (l : list value) (en : env) (d : state)
  : xres :=
  match l with
  | [] => XNormal en d
  | a :: l' =>
    match body (set_var en x a) d with
    | XNormal en' d' => for_loop body x l' en' d'
    | r => r
    end
  end.

Fixpoint exec_stmt (s : stmt) (en : env) (d : state) {struct s} : xres :=
  match s with
  | SExpr e =>
    match eval e en d with
    | EV _ d1 => XNormal en d1
    | EX x d1 => XExc x d1
    | EUnsup => XUnsup
    | EFuel => XFuel
    end
  | SAssign x e =>
    match eval e en d with
    | EV v d1 => XNormal (set_var en x v) d1
    | EX x' d1 => XExc x' d1
    | EUnsup => XUnsup
    | EFuel => XFuel
    end
  | SSetAll e =>
    match eval e en d with
    | EV (VGList []) d1 => XNormal en (fst d1, [])
    | EV _ _ => XUnsup
    | EX x d1 => XExc x d1
    | EUnsup => XUnsup
    | EFuel => XFuel
    end
  | SReturn e =>
    match eval e en d with
    | EV v d1 => XReturn v d1
    | EX x d1 => XExc x d1
    | EUnsup => XUnsup
    | EFuel => XFuel
    end
  | SAssert c =>
    match eval c en d with
    | EV (VBool true) d1 => XNormal en d1
    | EV _ _ => XUnsup
    | EX x d1 => XExc x d1
    | EUnsup => XUnsup
    | EFuel => XFuel
    end
  | SRaise x => XExc x d
  | SIf c a b =>
    match eval c en d with
    | EV (VBool true) d1 => exec_block a en d1
    | EV (VBool false) d1 => exec_block b en d1
    | EV _ _ => XUnsup
    | EX x d1 => XExc x d1
    | EUnsup => XUnsup
    | EFuel => XFuel
    end
  | SFor x e b =>
    match eval e en d with
    | EV (VArgs l) d1 => for_loop (exec_block b) x (map value_of_arg l) en d1
    | EV (VClasses ks) d1 => for_loop (exec_block b) x (map VCls ks) en d1
    | EV _ _ => XUnsup
    | EX x' d1 => XExc x' d1
    | EUnsup => XUnsup
    | EFuel => XFuel
    end
  end
with exec_block (b : block) (en : env) (d : state) {struct b} : xres :=
  match b with
  | BNil => XNormal en d
  | BCons s b' =>
    match exec_stmt s en d with
    | XNormal en' d' => exec_block b' en' d'
    | x => x
    end
  end.

End Interp.

Definition finish (x : xres) : outcome :=
  match x with
  | XNormal _ d => ODone d (RVal VNone)
  | XReturn v d => ODone d (RVal v)
  | XExc e d => ODone d (RExc e)
  | XUnsup => OUnsup
  | XFuel => OFuel
  end.

Fixpoint call (n : nat) (c : cls) (m : meth) (vs : list value) (d : state) : outcome :=
  match n with
  | O => OFuel
  | S n' =>
    match bind_params (m_params (c m)) vs with
    | Some en => finish (exec_block (call n' c) (m_body (c m)) en d)
    | None => OUnsup
    end
  end.

Definition call_depth : nat := 8.

Definition run_meth (c : cls) (m : meth) (vs : list value) (d : state) : outcome :=
  call call_depth c m vs d.

(* ------------------------------------- the hand-written model's vocabulary *)

Definition of_out (o : out) : rv :=
  match o with
  | ONone => RVal VNone
  | OVal it => RVal (value_of_item it)
  | OArgs st => RVal (VObj st)
  | OBool b => RVal (VBool b)
  | ETypeError => RExc TypeError
  | EValueError => RExc ValueError
  | EIndexError => RExc IndexError
  end.

Definition to_out (r : rv) : option out :=
  match r with
  | RVal VNone => Some ONone
  | RVal (VGroup g) => Some (OVal (IG g))
  | RVal (VStr s) => Some (OVal (IW s))
  | RVal (VObj st) => Some (OArgs st)
  | RVal (VBool b) => Some (OBool b)
  | RVal _ => None
  | RExc TypeError => Some ETypeError
  | RExc ValueError => Some EValueError
  | RExc IndexError => Some EIndexError
  end.

(* Args.op as calls of the generated methods *)
Definition gen_step (c : cls) (d : state) (o : op) : option outcome :=
  match o with
  | OpAppend a => Some (run_meth c M_append [value_of_arg a] d)
  | OpExtend l => Some (run_meth c M_extend [VArgs l] d)
  | OpInsert i a => Some (run_meth c M_insert [VInt i; value_of_arg a] d)
  | OpRemove a => Some (run_meth c M_remove [value_of_arg a] d)
  | OpPop (Some i) => Some (run_meth c M_pop [VInt i] d)
  | OpPop None => Some (run_meth c M_pop [] d)
  | OpReverse => Some (run_meth c M_reverse [] d)
  | OpClear => Some (run_meth c M_clear [] d)
  | OpGet i => Some (run_meth c M_getitem [VInt i] d)
  | OpSlice lo hi => Some (run_meth c M_getitem [VSlice lo hi] d)
  | OpContains a => Some (run_meth c M_contains [value_of_arg a] d)
  end.

(* states and outcomes after every operation, as Args.m_run; None as soon as an
   operation is not translated, leaves the fragment, or returns something the
   hand-written result type cannot express *)
Fixpoint gen_run (c : cls) (d : state) (ops : list op) : option (list (state * out)) :=
  match ops with
  | [] => Some []
  | o :: t =>
    match gen_step c d o with
    | Some (ODone d' r) =>
      match to_out r, gen_run c d' t with
      | Some x, Some rest => Some ((d', x) :: rest)
      | _, _ => None
      end
    | _ => None
    end
  end.

(* TexArgs(init) followed by ops *)
Definition gen_session (c : cls) (init : list arg) (ops : list op) : option (list (state * out)) :=
  match run_meth c M_init [VArgs init] empty_state with
  | ODone d (RVal VNone) => gen_run c d ops
  | _ => None
  end.
