(* Model of the editing API of TexSoup.data.TexNode / TexExpr:
     delete remove replace replace_with insert append copy,
     the setters of name / string / args (and TexArgs.insert of an unparsed group).

   Addressing.  In Python a node is located by *object identity*
   (`any(c is self.expr for c in holder._contents)`,
    `next((i for i, c in enumerate(self._contents) if c is expr), None)`), and only
   if the object is not found does the code fall back to the first element with equal
   text.  The model addresses an item by its *position*: the path (through argument
   indices and raw `_contents` indices) to the expression that holds it, and the index
   in that expression's raw `_contents` list.  Every object of a tree in which no object
   occurs twice (the properties stipulate fresh material) has exactly one position, so
   "the list of holder h contains the very object" is "h's path is the holder path of the
   position": with positions the identity look-up is exact.  The textual fall-backs are
   modelled as well (they are what an ill-targeted call, e.g. parent.remove(node) for a
   node that lives in an argument of parent, reaches).

   A TexText that wraps a plain str (made by the `contents` setter) is represented as
   EText with a token of position -1: `str()`, the whitespace filter of `contents` and
   all comparisons used below cannot tell the two apart. *)
From Coq Require Import List NArith ZArith Bool.
From TexModel Require Import Base Tables Chars Tokenizer Tree Reader.
Import ListNotations.
Local Open Scope Z_scope.

(* ------------------------------------------------------------------ outcomes *)
Inductive eerr := ETypeError | EValueError | EAssertionError | EIndexError | EBadCase.
(* Done a: returned normally, the tree is a.  Raise e: exception e, nothing changed.
   Partial e a: exception e raised after the tree had already been changed to a (only
   replace can do that: holder.insert(holder.remove(x), ...) removes before it inserts). *)
Inductive outcome (A : Type) := Done (a : A) | Raise (e : eerr) | Partial (e : eerr) (a : A).
Arguments Done {A} a.
Arguments Raise {A} e.
Arguments Partial {A} e a.
(* Partial is only ever produced by the last stage of an operation, never bound further *)
Definition obind {A B} (r : outcome A) (f : A -> outcome B) : outcome B :=
  match r with Done a => f a | Raise e => Raise e | Partial e _ => Raise e end.

(* ---------------------------------------------------------------- addressing *)
Inductive step := SArg (i : nat) | SBody (i : nat).
Definition path := list step.

Definition step_eqb (a b : step) : bool :=
  match a, b with
  | SArg i, SArg j => Nat.eqb i j
  | SBody i, SBody j => Nat.eqb i j
  | _, _ => false
  end.
Fixpoint path_eqb (p q : path) : bool :=
  match p, q with
  | [], [] => true
  | a :: p', b :: q' => step_eqb a b && path_eqb p' q'
  | _, _ => false
  end.

(* TexCmd / TexEnv (anything that is not text) *)
Definition is_node (e : expr) : bool :=
  match e with EText _ | ERaw _ _ | EStr _ => false | _ => true end.

Definition args_of (e : expr) : list expr :=
  match e with ECmd _ a _ _ | ENamed _ a _ _ => a | _ => [] end.
Definition body_of (e : expr) : list expr :=
  match e with
  | ECmd _ _ b _ | ENamed _ _ b _ | EMath _ b _ | EGroup _ b _ | ERoot b => b
  | _ => []
  end.
Definition set_body (e : expr) (b : list expr) : expr :=
  match e with
  | ECmd n a _ p => ECmd n a b p
  | ENamed n a _ p => ENamed n a b p
  | EMath k _ p => EMath k b p
  | EGroup k _ p => EGroup k b p
  | ERoot _ => ERoot b
  | _ => e
  end.
Definition set_args_of (e : expr) (a : list expr) : expr :=
  match e with
  | ECmd n _ b p => ECmd n a b p
  | ENamed n _ b p => ENamed n a b p
  | _ => e
  end.

Definition subst_nth {A} (i : nat) (x : A) (l : list A) : list A :=
  firstn i l ++ x :: skipn (S i) l.
(* l[i:i+k] = new *)
Definition splice {A} (i k : nat) (new l : list A) : list A :=
  firstn i l ++ new ++ skipn (i + k) l.

Definition child (e : expr) (s : step) : option expr :=
  match s with
  | SArg i => nth_error (args_of e) i
  | SBody i => nth_error (body_of e) i
  end.
Definition set_child (e : expr) (s : step) (c : expr) : expr :=
  match s with
  | SArg i => set_args_of e (subst_nth i c (args_of e))
  | SBody i => set_body e (subst_nth i c (body_of e))
  end.

Fixpoint get (e : expr) (p : path) : option expr :=
  match p with
  | [] => Some e
  | s :: p' => match child e s with Some c => get c p' | None => None end
  end.
Fixpoint put (e : expr) (p : path) (x : expr) : option expr :=
  match p with
  | [] => Some x
  | s :: p' =>
    match child e s with
    | Some c => match put c p' x with Some c' => Some (set_child e s c') | None => None end
    | None => None
    end
  end.
Definition put_o (root : expr) (p : path) (x : expr) : outcome expr :=
  match put root p x with Some r => Done r | None => Raise EBadCase end.

(* the raw list of the expression at p becomes l *)
Definition set_body_at (root : expr) (p : path) (l : list expr) : option expr :=
  match get root p with
  | Some h => put root p (set_body h l)
  | None => None
  end.
(* replace the sub-list [i, i+k) of the raw list of the expression at p by new *)
Definition splice_at (root : expr) (p : path) (i k : nat) (new : list expr) : option expr :=
  match get root p with
  | Some h => set_body_at root p (splice i k new (body_of h))
  | None => None
  end.

(* ------------------------------------------- the surrounding text of a position *)
(* what str() prints of e before its arguments, before its contents, after them *)
Definition head_of (e : expr) : str :=
  match e with
  | ECmd n _ _ _ => backslash :: n
  | ENamed n _ _ _ => env_begin n
  | EMath k _ _ => math_begin k
  | EGroup k _ _ => group_begin k
  | ERoot _ => []
  | _ => estr e
  end.
Definition open_of (e : expr) : str := head_of e ++ estr_list (args_of e).
Definition close_of (e : expr) : str :=
  match e with
  | ENamed n _ _ _ => env_end n
  | EMath k _ _ => math_end k
  | EGroup k _ _ => group_end k
  | _ => []
  end.
Definition step_pre (e : expr) (s : step) : str :=
  match s with
  | SArg i => head_of e ++ estr_list (firstn i (args_of e))
  | SBody i => open_of e ++ estr_list (firstn i (body_of e))
  end.
Definition step_post (e : expr) (s : step) : str :=
  match s with
  | SArg i => estr_list (skipn (S i) (args_of e)) ++ estr_list (body_of e) ++ close_of e
  | SBody i => estr_list (skipn (S i) (body_of e)) ++ close_of e
  end.
(* text before / after the expression at path p, inside root *)
Fixpoint ctx_pre (e : expr) (p : path) : str :=
  match p with
  | [] => []
  | s :: p' => step_pre e s ++ match child e s with Some c => ctx_pre c p' | None => [] end
  end.
Fixpoint ctx_post (e : expr) (p : path) : str :=
  match p with
  | [] => []
  | s :: p' => match child e s with Some c => ctx_post c p' | None => [] end ++ step_post e s
  end.
(* text before / after the raw content list of the expression at path p *)
Definition span_pre (root : expr) (p : path) : str :=
  ctx_pre root p ++ match get root p with Some h => open_of h | None => [] end.
Definition span_post (root : expr) (p : path) : str :=
  match get root p with Some h => close_of h | None => [] end ++ ctx_post root p.

(* ------------------------------------------------------------ the contents view *)
(* isinstance(content, str) and content.isspace(), after unwrapping TexText *)
Definition is_ws_str (s : str) : bool :=
  match s with [] => false | _ => forallb is_ws s end.
Definition is_ws_item (e : expr) : bool :=
  match e with
  | EText t => is_ws_str (ttext t)
  | ERaw s _ => is_ws_str s
  | EStr s => is_ws_str s
  | _ => false
  end.

Fixpoint number_from {A} (k : nat) (l : list A) : list (nat * A) :=
  match l with [] => [] | x :: l' => (k, x) :: number_from (S k) l' end.

(* TexExpr.contents: for every argument its own `contents`, then the raw list, whitespace
   dropped (preserve_whitespace is never set by the reader).  Every item comes with its
   position relative to e: (path from e to the holder, index in the holder's raw list). *)
Fixpoint cview (e : expr) : list ((path * nat) * expr) :=
  let own (b : list expr) := map (fun ix => (([], fst ix), snd ix)) (number_from 0 b) in
  let fix go (j : nat) (l : list expr) : list ((path * nat) * expr) :=
      match l with
      | [] => []
      | a :: l' =>
        map (fun it => ((SArg j :: fst (fst it), snd (fst it)), snd it)) (cview a) ++ go (S j) l'
      end in
  let keep := filter (fun it : (path * nat) * expr => negb (is_ws_item (snd it))) in
  match e with
  | ECmd _ a b _ => keep (go 0%nat a ++ own b)
  | ENamed _ a b _ => keep (go 0%nat a ++ own b)
  | EMath _ b _ => keep (own b)
  | EGroup _ b _ => keep (own b)
  | ERoot b => keep (own b)
  | _ => []
  end.

(* node = soup.contents[k1].contents[k2]...  ->  (raw path of the node's expression, it) *)
Fixpoint resolve (cur : expr) (acc : path) (vp : list nat) : option (path * expr) :=
  match vp with
  | [] => Some (acc, cur)
  | k :: vp' =>
    match nth_error (cview cur) k with
    | Some ((p, i), x) => resolve x (acc ++ p ++ [SBody i]) vp'
    | None => None
    end
  end.

(* a node path is holder path ++ [SBody index] *)
Definition split_node_path (np : path) : option (path * nat) :=
  match rev np with
  | SBody i :: r => Some (rev r, i)
  | _ => None
  end.

(* the TexNode through which a node at holder path hp was reached: argument steps at the
   end of hp lead into argument groups of that parent (groups are not nodes of the tree) *)
Fixpoint drop_args (r : path) : path :=
  match r with SArg _ :: r' => drop_args r' | _ => r end.
Definition nav_parent (hp : path) : path := rev (drop_args (rev hp)).
(* hp ends in at most one argument step (always so for parsed trees: arguments are groups,
   or commands without arguments) *)
Definition arg_depth_ok (hp : path) : bool :=
  match rev hp with SArg _ :: SArg _ :: _ => false | _ => true end.

(* ------------------------------------------------------------ Python list edits *)
(* list.insert(i, x): i < 0 -> max(0, len + i); i > len -> len *)
Definition norm_index (len : nat) (i : Z) : nat :=
  if i <? 0 then Z.to_nat (Z.max 0 (Z.of_nat len + i)) else Nat.min (Z.to_nat i) len.
Definition list_insert {A} (i : Z) (x : A) (l : list A) : list A :=
  let k := norm_index (length l) i in firstn k l ++ x :: skipn k l.
(* for j, x in enumerate(xs): l.insert(i + j, x)   -- each index normalised on its own *)
Fixpoint insert_seq {A} (i : Z) (xs : list A) (l : list A) : list A :=
  match xs with
  | [] => l
  | x :: xs' => insert_seq (i + 1) xs' (list_insert i x l)
  end.

Fixpoint index_of {A} (f : A -> bool) (l : list A) : option nat :=
  match l with
  | [] => None
  | x :: l' => if f x then Some O else match index_of f l' with Some k => Some (S k) | None => None end
  end.

(* -------------------------------------------------------------------- TexExpr *)
(* TexCmd._supports_contents: self.name == 'item' or bool(self._contents); every other
   class: True *)
Definition supports (e : expr) : bool :=
  match e with
  | ECmd n _ b _ => str_eqb n s_item || match b with [] => false | _ :: _ => true end
  | _ => true
  end.

(* `c == x` for an element c of a raw list and a TexCmd/TexEnv x that is another object:
   TexExpr.__eq__ compares str(); TexText.__eq__ answers False; a bare Token or str defers
   to the reflected TexExpr.__eq__, i.e. text again *)
Definition eq_expr_item (x c : expr) : bool :=
  match c with EText _ => false | _ => str_eqb (estr c) (estr x) end.
(* `c == node` for a TexNode: only another expression's __eq__ compares text *)
Definition eq_node_item (x c : expr) : bool := is_node c && str_eqb (estr c) (estr x).

(* TexExpr.remove(x) on holder h (whose path is hpath); x is the object at (thp, ti).
   Returns the index and the new holder. *)
Definition expr_remove (eqf : expr -> expr -> bool) (hpath : path) (h : expr)
           (thp : path) (ti : nat) (x : expr) : outcome (nat * expr) :=
  if negb (supports h) then Raise ETypeError else
  let idx := if path_eqb hpath thp then Some ti              (* the object itself *)
             else index_of (eqf x) (body_of h) in            (* self._contents.index(expr) *)
  match idx with
  | Some k => Done (k, set_body h (splice k 1 [] (body_of h)))
  | None => Raise EValueError
  end.

(* TexExpr.insert(i, *new): TexNodes already unwrapped to their expressions, plain strings
   stay plain *)
Definition expr_insert (h : expr) (i : Z) (new : list expr) : outcome expr :=
  if negb (supports h) then Raise ETypeError
  else Done (set_body h (insert_seq i new (body_of h))).
Definition expr_append (h : expr) (new : list expr) : outcome expr :=
  if negb (supports h) then Raise ETypeError
  else Done (set_body h (body_of h ++ new)).

(* -------------------------------------------------------------------- TexNode *)
Fixpoint number_args (pp : path) (j : nat) (l : list expr) : list (path * expr) :=
  match l with [] => [] | a :: l' => (pp ++ [SArg j], a) :: number_args pp (S j) l' end.
(* list(parent.args) + [parent.expr], each with its path *)
Definition holders (pp : path) (P : expr) : list (path * expr) :=
  number_args pp 0 (args_of P) ++ [(pp, P)].
(* any(c is x for c in holder._contents) *)
Definition holds_object (thp : path) (ph : path * expr) : bool := path_eqb (fst ph) thp.

(* node.delete(), node = the object at (thp, ti), node.parent = the node at pp *)
Definition delete_via (root : expr) (pp thp : path) (ti : nat) : outcome expr :=
  match get root pp, get root (thp ++ [SBody ti]) with
  | Some P, Some x =>
    match find (holds_object thp) (holders pp P) with
    | Some (hp, h) =>
      obind (expr_remove eq_expr_item hp h thp ti x) (fun kh => put_o root hp (snd kh))
    | None =>
      (* for arg in self.parent.args: if self in arg.contents: arg.remove(self) *)
      match find (fun ph => existsb (fun it => eq_node_item x (snd it)) (cview (snd ph)))
                 (number_args pp 0 (args_of P)) with
      | Some (hp, a) =>
        obind (expr_remove eq_node_item hp a thp ti x) (fun kh => put_o root hp (snd kh))
      | None =>
        (* self.parent.remove(self) -> self.parent.expr.remove(self.expr) *)
        obind (expr_remove eq_expr_item pp P thp ti x) (fun kh => put_o root pp (snd kh))
      end
    end
  | _, _ => Raise EBadCase
  end.
Definition delete (root : expr) (thp : path) (ti : nat) : outcome expr :=
  delete_via root (nav_parent thp) thp ti.

(* parent.remove(node): self.expr.remove(node.expr) -- the parent's own list only *)
Definition remove_via (root : expr) (pp thp : path) (ti : nat) : outcome expr :=
  match get root pp, get root (thp ++ [SBody ti]) with
  | Some P, Some x =>
    obind (expr_remove eq_expr_item pp P thp ti x) (fun kh => put_o root pp (snd kh))
  | _, _ => Raise EBadCase
  end.
Definition remove (root : expr) (thp : path) (ti : nat) : outcome expr :=
  remove_via root (nav_parent thp) thp ti.

(* parent.replace(child, *new): holder.insert(holder.remove(child.expr), *new) *)
Definition replace_in (root : expr) (hp : path) (h : expr) (thp : path) (ti : nat) (x : expr)
           (new : list expr) : outcome expr :=
  obind (expr_remove eq_expr_item hp h thp ti x) (fun kh =>
  match expr_insert (snd kh) (Z.of_nat (fst kh)) new with
  | Done h'' => put_o root hp h''
  | Raise e =>
    (* the removal has happened: a command that is not \item and whose only content was
       the child no longer supports contents when insert checks *)
    match put root hp (snd kh) with Some r => Partial e r | None => Raise EBadCase end
  | Partial e _ => Raise e
  end).
Definition replace_via (root : expr) (pp thp : path) (ti : nat) (new : list expr) : outcome expr :=
  match get root pp, get root (thp ++ [SBody ti]) with
  | Some P, Some x =>
    match find (holds_object thp) (holders pp P) with
    | Some (hp, h) => replace_in root hp h thp ti x new
    | None =>
      (* for arg in self.expr.args: if child.expr in arg._contents *)
      match find (fun ph => existsb (eq_expr_item x) (body_of (snd ph)))
                 (number_args pp 0 (args_of P)) with
      | Some (hp, a) => replace_in root hp a thp ti x new
      | None => replace_in root pp P thp ti x new
      end
    end
  | _, _ => Raise EBadCase
  end.
(* node.replace_with( *new) = node.parent.replace(node, *new) *)
Definition replace_with (root : expr) (thp : path) (ti : nat) (new : list expr) : outcome expr :=
  replace_via root (nav_parent thp) thp ti new.

(* node.insert(i, *new) / node.append( *new); node at np.  The material is fresh, so the
   `assert not node.parent` of TexNode.insert passes. *)
Definition insert (root : expr) (np : path) (i : Z) (new : list expr) : outcome expr :=
  match get root np with
  | Some h => obind (expr_insert h i new) (fun h' => put_o root np h')
  | None => Raise EBadCase
  end.
Definition append (root : expr) (np : path) (new : list expr) : outcome expr :=
  match get root np with
  | Some h => obind (expr_append h new) (fun h' => put_o root np h')
  | None => Raise EBadCase
  end.

(* node.copy(): TexNode(self.expr) -- the same expression under a new wrapper *)
Definition copy (e : expr) : expr := e.

(* node.name = s: plain attribute assignment; \begin / \end of a TexNamedEnv are derived
   from the current name.  On the delimiter classes and the root the attribute does not
   reach str(); the model has no field for it (EBadCase = outside the model). *)
Definition rename (e : expr) (s : str) : outcome expr :=
  match e with
  | ECmd _ a b p => Done (ECmd s a b p)
  | ENamed _ a b p => Done (ENamed s a b p)
  | _ => Raise EBadCase
  end.
Definition set_name (root : expr) (np : path) (s : str) : outcome expr :=
  match get root np with
  | Some h => obind (rename h s) (fun h' => put_o root np h')
  | None => Raise EBadCase
  end.

(* TexText(TexText(s)): a text whose str() is s *)
Definition text_of (s : str) : expr := EText (mkt s (-1) TText).

(* node.string = s *)
Definition restring (e : expr) (s : str) : outcome expr :=
  match e with
  | ECmd n a b p =>
    (* assert len(self.expr.args) == 1; self.expr.args[0].string = s *)
    match a with
    | [a0] => Done (ECmd n [set_body a0 [text_of s]] b p)
    | _ => Raise EAssertionError
    end
  | ENamed _ _ _ _ | EMath _ _ _ | EGroup _ _ _ | ERoot _ =>
    (* contents = list(self.contents); assert len == 1 and it is text; self.contents = [s] *)
    match cview e with
    | [(_, x)] => if is_node x then Raise EAssertionError else Done (set_body e [text_of s])
    | _ => Raise EAssertionError
    end
  | _ => Raise EBadCase
  end.
Definition set_string (root : expr) (np : path) (s : str) : outcome expr :=
  match get root np with
  | Some h => obind (restring h s) (fun h' => put_o root np h')
  | None => Raise EBadCase
  end.

(* node.args = TexArgs made of the existing groups idxs (a prefix, slice, reversal,
   permutation ...: each old group at most once, so no object is shared) *)
Fixpoint select {A} (l : list A) (idxs : list nat) : option (list A) :=
  match idxs with
  | [] => Some []
  | i :: r => match nth_error l i, select l r with
              | Some x, Some xs => Some (x :: xs)
              | _, _ => None
              end
  end.
Fixpoint nodup_nat (l : list nat) : bool :=
  match l with [] => true | x :: r => negb (existsb (Nat.eqb x) r) && nodup_nat r end.
Definition reargs (e : expr) (idxs : list nat) : outcome expr :=
  match e with
  | ECmd _ a _ _ | ENamed _ a _ _ =>
    if nodup_nat idxs then
      match select a idxs with
      | Some a' => Done (set_args_of e a')
      | None => Raise EIndexError
      end
    else Raise EBadCase
  | _ => Raise EBadCase
  end.
Definition set_args (root : expr) (np : path) (idxs : list nat) : outcome expr :=
  match get root np with
  | Some h => obind (reargs h idxs) (fun h' => put_o root np h')
  | None => Raise EBadCase
  end.

(* node.args.insert(i, '{s}' / '[s]'): TexGroup.parse makes a group holding the plain
   string; the index is normalised as list.insert does *)
Definition args_insert (root : expr) (np : path) (i : Z) (k : groupkind) (s : str) : outcome expr :=
  match get root np with
  | Some h =>
    match h with
    | ECmd _ a _ _ | ENamed _ a _ _ =>
      put_o root np (set_args_of h (list_insert i (EGroup k [EStr s] (-1)) a))
    | _ => Raise EBadCase
    end
  | None => Raise EBadCase
  end.

(* ------------------------------------------------ histories of well-addressed edits *)
Inductive op :=
| ODelete (hp : path) (i : nat)
| ORemove (hp : path) (i : nat)
| OReplaceWith (hp : path) (i : nat) (new : list expr)
| OInsert (np : path) (i : nat) (new : list expr)
| OAppend (np : path) (new : list expr)
| ORename (np : path) (s : str)
| OSetStringCmd (np : path) (s : str)
| OSetStringEnv (np : path) (s : str)
| OSetArgs (np : path) (idxs : list nat).

Definition apply_op (t : expr) (o : op) : outcome expr :=
  match o with
  | ODelete hp i => delete t hp i
  | ORemove hp i => remove t hp i
  | OReplaceWith hp i new => replace_with t hp i new
  | OInsert np i new => insert t np (Z.of_nat i) new
  | OAppend np new => append t np new
  | ORename np s => set_name t np s
  | OSetStringCmd np s => set_string t np s
  | OSetStringEnv np s => set_string t np s
  | OSetArgs np idxs => set_args t np idxs
  end.

Fixpoint run_ops (t : expr) (ops : list op) : outcome expr :=
  match ops with
  | [] => Done t
  | o :: r => obind (apply_op t o) (fun t' => run_ops t' r)
  end.

Definition is_env (e : expr) : bool :=
  match e with ENamed _ _ _ _ | EMath _ _ _ | EGroup _ _ _ | ERoot _ => true | _ => false end.
Definition has_args (e : expr) : bool :=
  match e with ECmd _ _ _ _ | ENamed _ _ _ _ => true | _ => false end.

(* the operation is aimed at something that exists and that the operation is for *)
Definition holder_ok (t : expr) (hp : path) (i : nat) : bool :=
  match get t hp with
  | Some h => (Nat.ltb i (length (body_of h))) && arg_depth_ok hp
  | None => false
  end.
Definition ends_in_arg (hp : path) : bool :=
  match rev hp with SArg _ :: _ => true | _ => false end.
Definition op_ok (t : expr) (o : op) : bool :=
  match o with
  | ODelete hp i => holder_ok t hp i
  | ORemove hp i => holder_ok t hp i && negb (ends_in_arg hp)
  | OReplaceWith hp i _ =>
    (* the holder still accepts contents once the child is taken out *)
    holder_ok t hp i
    && match get t hp with
       | Some h => supports (set_body h (splice i 1 [] (body_of h)))
       | None => false
       end
  | OInsert np i _ =>
    match get t np with
    | Some h => is_node h && supports h && Nat.leb i (length (body_of h))
    | None => false
    end
  | OAppend np _ =>
    match get t np with Some h => is_node h && supports h | None => false end
  | ORename np _ =>
    match get t np with Some (ECmd _ _ _ _) | Some (ENamed _ _ _ _) => true | _ => false end
  | OSetStringCmd np _ =>
    match get t np with Some (ECmd _ [a0] _ _) => is_node a0 | _ => false end
  | OSetStringEnv np _ =>
    (* an environment (or the root) whose `contents` is exactly one text *)
    match get t np with
    | Some h => is_env h && match cview h with [(_, x)] => negb (is_node x) | _ => false end
    | None => false
    end
  | OSetArgs np idxs =>
    match get t np with
    | Some h => has_args h && nodup_nat idxs
                && match select (args_of h) idxs with Some _ => true | None => false end
    | None => false
    end
  end.
Fixpoint ops_ok (t : expr) (ops : list op) : Prop :=
  match ops with
  | [] => True
  | o :: r => op_ok t o = true /\ forall t', apply_op t o = Done t' -> ops_ok t' r
  end.

(* decidable form of ops_ok *)
Fixpoint ops_okb (t : expr) (ops : list op) : bool :=
  match ops with
  | [] => true
  | o :: r => op_ok t o && match apply_op t o with Done t' => ops_okb t' r | _ => false end
  end.

(* ----------------------------------------------------- reference document model *)
(* A rose tree of strings.  A node has some strings in front, a list of argument
   subtrees, a list of body subtrees, some strings behind; its text is the concatenation.
   It knows nothing of expr / estr. *)
Inductive ref :=
| RLeaf (s : str)
| RNode (hd : list str) (args body : list ref) (tl : list str).

Fixpoint ref_str (r : ref) : str :=
  match r with
  | RLeaf s => s
  | RNode hd a b tl => concat hd ++ concat (map ref_str a) ++ concat (map ref_str b) ++ concat tl
  end.

Definition r_args (r : ref) : list ref := match r with RNode _ a _ _ => a | _ => [] end.
Definition r_body (r : ref) : list ref := match r with RNode _ _ b _ => b | _ => [] end.
Definition r_set_body (r : ref) (b : list ref) : ref :=
  match r with RNode hd a _ tl => RNode hd a b tl | _ => r end.
Definition r_set_args (r : ref) (a : list ref) : ref :=
  match r with RNode hd _ b tl => RNode hd a b tl | _ => r end.
Definition r_child (r : ref) (s : step) : option ref :=
  match s with SArg i => nth_error (r_args r) i | SBody i => nth_error (r_body r) i end.
Definition r_set_child (r : ref) (s : step) (c : ref) : ref :=
  match s with
  | SArg i => r_set_args r (subst_nth i c (r_args r))
  | SBody i => r_set_body r (subst_nth i c (r_body r))
  end.
Fixpoint r_get (r : ref) (p : path) : option ref :=
  match p with
  | [] => Some r
  | s :: p' => match r_child r s with Some c => r_get c p' | None => None end
  end.
Fixpoint r_put (r : ref) (p : path) (x : ref) : option ref :=
  match p with
  | [] => Some x
  | s :: p' =>
    match r_child r s with
    | Some c => match r_put c p' x with Some c' => Some (r_set_child r s c') | None => None end
    | None => None
    end
  end.
(* apply f to the subtree at p; nothing happens when p does not exist *)
Definition r_update (r : ref) (p : path) (f : ref -> ref) : ref :=
  match r_get r p with
  | Some h => match r_put r p (f h) with Some r' => r' | None => r end
  | None => r
  end.

(* the name is the second string in front and, if there are strings behind, the second
   string behind *)
Definition set_second (s : str) (l : list str) : list str :=
  match l with a :: _ :: r => a :: s :: r | _ => l end.
Definition r_rename (s : str) (r : ref) : ref :=
  match r with RNode hd a b tl => RNode (set_second s hd) a b (set_second s tl) | _ => r end.
Definition r_select (idxs : list nat) (r : ref) : ref :=
  match select (r_args r) idxs with Some a => r_set_args r a | None => r end.

Inductive rop :=
| RSplice (p : path) (i k : nat) (new : list ref)
| RAppend (p : path) (new : list ref)
| RSetName (p : path) (s : str)
| RSetBody (p : path) (new : list ref)
| RSelectArgs (p : path) (idxs : list nat).

Definition ref_step (r : ref) (o : rop) : ref :=
  match o with
  | RSplice p i k new => r_update r p (fun h => r_set_body h (splice i k new (r_body h)))
  | RAppend p new => r_update r p (fun h => r_set_body h (r_body h ++ new))
  | RSetName p s => r_update r p (r_rename s)
  | RSetBody p new => r_update r p (fun h => r_set_body h new)
  | RSelectArgs p idxs => r_update r p (r_select idxs)
  end.

Definition s_backslash : str := [backslash].

Fixpoint abs (e : expr) : ref :=
  match e with
  | EText t => RLeaf (ttext t)
  | ERaw s _ => RLeaf s
  | EStr s => RLeaf s
  | ECmd n a b _ => RNode [s_backslash; n] (map abs a) (map abs b) []
  | ENamed n a b _ =>
    RNode [s_begin_open; n; s_close] (map abs a) (map abs b) [s_end_open; n; s_close]
  | EMath k b _ => RNode [math_begin k] [] (map abs b) [math_end k]
  | EGroup k b _ => RNode [group_begin k] [] (map abs b) [group_end k]
  | ERoot b => RNode [] [] (map abs b) []
  end.

Definition op_abs (o : op) : rop :=
  match o with
  | ODelete hp i => RSplice hp i 1 []
  | ORemove hp i => RSplice hp i 1 []
  | OReplaceWith hp i new => RSplice hp i 1 (map abs new)
  | OInsert np i new => RSplice np i 0 (map abs new)
  | OAppend np new => RAppend np (map abs new)
  | ORename np s => RSetName np s
  | OSetStringCmd np s => RSetBody (np ++ [SArg 0%nat]) [RLeaf s]
  | OSetStringEnv np s => RSetBody np [RLeaf s]
  | OSetArgs np idxs => RSelectArgs np idxs
  end.

(* ------------------------------------------------------------------ the driver *)
(* Input:   source code points, -1, donor code points, -1, operations.
   list  := n x1 .. xn
   mats  := m item1 .. itemm       item := 0 list(code points)      plain string
                                         | 1 list(view path)        copy of a donor node
   op    := 1 vp                   node.delete()
          | 2 vp                   node.parent.remove(node)
          | 3 vp mats              node.replace_with( *mats)
          | 4 k vp mats            anc.replace(node, *mats), anc = the node at vp[:k]
          | 5 vp i mats            node.insert(i, *mats)            (i any integer)
          | 6 vp mats              node.append( *mats)
          | 7 vp list(name)        node.name = name
          | 8 vp list(s)           node.string = s
          | 9 vp list(idxs)        node.args = TexArgs([node.args[i] for i in idxs])
          | 10 vp i kind list(s)   node.args.insert(i, '{s}' or '[s]')   kind 0 brace 1 bracket
   vp = list of indices through the `contents` view, from the root.
   Output: per operation  code, n, the n code points of str(root) after it
           code: 0 ok, 1 TypeError, 2 ValueError, 3 AssertionError, 4 IndexError,
                 9 outside the model;  [-1] parse failure;  a trailing -2: undecodable. *)
Definition zs := list Z.

Fixpoint take (n : nat) (l : zs) : option (zs * zs) :=
  match n with
  | O => Some ([], l)
  | S n' =>
    match l with
    | [] => None
    | x :: l' => match take n' l' with Some (a, r) => Some (x :: a, r) | None => None end
    end
  end.
Definition dec_list (l : zs) : option (zs * zs) :=
  match l with
  | n :: l' => if n <? 0 then None else take (Z.to_nat n) l'
  | [] => None
  end.
Definition to_str (l : zs) : str := map Z.to_N l.
Definition to_nats (l : zs) : list nat := map Z.to_nat l.
Fixpoint split_neg1 (l : zs) : zs * zs :=
  match l with
  | [] => ([], [])
  | x :: l' => if x =? -1 then ([], l') else let '(a, r) := split_neg1 l' in (x :: a, r)
  end.

Fixpoint dec_mats (donor : expr) (n : nat) (l : zs) : option (list expr * zs) :=
  match n with
  | O => Some ([], l)
  | S n' =>
    match l with
    | tag :: l1 =>
      match dec_list l1 with
      | Some (body, l2) =>
        let item := if tag =? 0 then Some (EStr (to_str body))
                    else match resolve donor [] (to_nats body) with
                         | Some (_, x) => if is_node x then Some (copy x) else None
                         | None => None
                         end in
        match item, dec_mats donor n' l2 with
        | Some x, Some (xs, r) => Some (x :: xs, r)
        | _, _ => None
        end
      | None => None
      end
    | [] => None
    end
  end.
Definition dec_matlist (donor : expr) (l : zs) : option (list expr * zs) :=
  match l with
  | n :: l' => if n <? 0 then None else dec_mats donor (Z.to_nat n) l'
  | [] => None
  end.

(* the node at view path vp: (parent node path, holder path, index, the expression) *)
Definition locate (root : expr) (vp : list nat) : option (path * (path * nat) * expr) :=
  match resolve root [] vp, resolve root [] (removelast vp) with
  | Some (np, x), Some (pp, _) =>
    match split_node_path np with
    | Some (hp, i) => Some (pp, (hp, i), x)
    | None => None
    end
  | _, _ => None
  end.

Definition exec_op (donor root : expr) (l : zs) : option (outcome expr * zs) :=
  match l with
  | opc :: l0 =>
    if (opc =? 4) then
      match l0 with
      | k :: l0' =>
        match dec_list l0' with
        | Some (vpz, l1) =>
          match dec_matlist donor l1 with
          | Some (new, rest) =>
            let vp := to_nats vpz in
            Some (match locate root vp, resolve root [] (firstn (Z.to_nat k) vp) with
                  | Some (_, (hp, i), x), Some (ap, _) =>
                    if is_node x then replace_via root ap hp i new else Raise EBadCase
                  | _, _ => Raise EBadCase
                  end, rest)
          | None => None
          end
        | None => None
        end
      | [] => None
      end
    else
    match dec_list l0 with
    | Some (vpz, l1) =>
      let vp := to_nats vpz in
      let on_target (f : path -> nat -> outcome expr) : outcome expr :=
          match locate root vp with
          | Some (pp, (hp, i), x) =>
            if is_node x && path_eqb (nav_parent hp) pp then f hp i else Raise EBadCase
          | None => Raise EBadCase
          end in
      let on_node (f : path -> outcome expr) : outcome expr :=
          match resolve root [] vp with
          | Some (np, x) => if is_node x then f np else Raise EBadCase
          | None => Raise EBadCase
          end in
      if opc =? 1 then Some (on_target (fun hp i => delete root hp i), l1)
      else if opc =? 2 then Some (on_target (fun hp i => remove root hp i), l1)
      else if opc =? 3 then
        match dec_matlist donor l1 with
        | Some (new, rest) => Some (on_target (fun hp i => replace_with root hp i new), rest)
        | None => None
        end
      else if opc =? 5 then
        match l1 with
        | i :: l2 =>
          match dec_matlist donor l2 with
          | Some (new, rest) => Some (on_node (fun np => insert root np i new), rest)
          | None => None
          end
        | [] => None
        end
      else if opc =? 6 then
        match dec_matlist donor l1 with
        | Some (new, rest) => Some (on_node (fun np => append root np new), rest)
        | None => None
        end
      else if opc =? 7 then
        match dec_list l1 with
        | Some (s, rest) => Some (on_node (fun np => set_name root np (to_str s)), rest)
        | None => None
        end
      else if opc =? 8 then
        match dec_list l1 with
        | Some (s, rest) => Some (on_node (fun np => set_string root np (to_str s)), rest)
        | None => None
        end
      else if opc =? 9 then
        match dec_list l1 with
        | Some (ix, rest) => Some (on_node (fun np => set_args root np (to_nats ix)), rest)
        | None => None
        end
      else if opc =? 10 then
        match l1 with
        | i :: kd :: l2 =>
          match dec_list l2 with
          | Some (s, rest) =>
            Some (on_node (fun np => args_insert root np i
                                       (if kd =? 0 then GBrace else GBracket) (to_str s)), rest)
          | None => None
          end
        | _ => None
        end
      else None
    | None => None
    end
  | [] => None
  end.

Definition code_of (e : eerr) : Z :=
  match e with
  | ETypeError => 1 | EValueError => 2 | EAssertionError => 3 | EIndexError => 4 | EBadCase => 9
  end.
Definition emit (code : Z) (root : expr) : zs :=
  let s := estr root in code :: Z.of_nat (length s) :: map Z.of_N s.

Fixpoint run_loop (fuel : nat) (donor root : expr) (l : zs) : zs :=
  match fuel with
  | O => []
  | S f =>
    match l with
    | [] => []
    | _ :: _ =>
      match exec_op donor root l with
      | None => [-2]
      | Some (Done root', rest) => emit 0 root' ++ run_loop f donor root' rest
      | Some (Raise e, rest) => emit (code_of e) root ++ run_loop f donor root rest
      | Some (Partial e root', rest) => emit (code_of e) root' ++ run_loop f donor root' rest
      end
    end
  end.

Definition run_edit (inp : zs) : zs :=
  let '(src, l1) := split_neg1 inp in
  let '(dsrc, opsz) := split_neg1 l1 in
  match parse (to_str src) true [], parse (to_str dsrc) true [] with
  | Ok root, Ok donor => run_loop (length opsz) donor root opsz
  | _, _ => [-1]
  end.
