(* placeholder: model under construction *)
From Coq Require Import List ZArith.
Import ListNotations.
Definition run_edit (inp : list Z) : list Z := [].
