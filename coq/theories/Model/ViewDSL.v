(* A small dynamically typed language for the bodies of the navigation and
   search methods of TexSoup/data.py AS WRITTEN, and its total interpreter.

   harness/gen_views.py reads the Python `ast` of data.py (and of utils.py for
   the decorator `to_list` and class Token) on every run and writes

     TexExpr.all / contents / children / __match__      TexEnv.__match__
     TexNode.all / children / contents / descendants / __descendants / text /
             __iter__ / __getitem__ / __match__ / find_all / find / count /
             __getattr__
     TexNode.__init__, and __str__ of TexNode / TexEnv / TexCmd / TexText /
             TexArgs

   as terms of this language (Model/ViewGen.v).  Proofs/ViewGenProofs.v proves
   that interpreting them gives exactly the hand-written functions of
   Model/Views.v (the model the C03 / C04 proofs are about) for ALL trees, and
   that __init__ / __str__ are the primitives TNewNode / str_of used below.
   NOT translated: TexNode.search_regex (a bare generator around re.finditer;
   Model/Regex.v keeps its own hand model), TexExpr.string / TexNode.string
   (not part of Views.v), the setters and the editing methods.

   Trusted: (a) the translator maps each Python construct to the constructor
   named after it, after the normalisation described in harness/gen_views.py
   (syntactic identities of Python with checked side conditions), (b) the interpreter below gives that construct the meaning
   it has in Python for the objects involved.  Every semantic decision:

   ------------------------------------------------------------------ objects
   expression objects   `VExpr p e`: an element of a content list -- a TexExpr,
       a Token or a plain str -- is the hand model's Tree.expr e (EText =
       TexText, ECmd = TexCmd, ENamed = TexNamedEnv, EMath = the four math
       environments, EGroup = Brace/BracketGroup, ERoot = TexEnv('[tex]'),
       ERaw = Token, EStr = str) together with its NAME p, an `option path`.
       Python objects have identity; Views.v names an object by its path: the
       name of its owner extended with its index in the owner's `contents`
       list.  The interpreter does the same, in ONE place: the list returned by
       the `contents` property of an expression named p consists of its
       elements named p ++ [0], p ++ [1], ... (None if the owner's name is
       unknown).  Every other operation (`all`, `_contents`, `_text`, `args`)
       delivers objects of unknown name (None); filter / for / yield / list()
       keep the names.  Names are never tested by a translated body.
   TexNode   `VNode p e par`: the wrapper of the expression e named p whose
       `.parent` attribute is par: PNone (None) or PNode q (a TexNode whose
       expression is named q; like Views.v only the parent's name is kept).
       TexNode(x) is VNode p e PNone for x = VExpr p e a TexExpr, raises
       AssertionError for a Token / str (TexNode.__init__, pinned), OUnsup
       otherwise.  `x.parent = y` (only accepted by the translator directly
       after `x = TexNode(..)`, so that no alias of x exists) rebinds the local
       x to the node with parent PNode (name of y).
       Views.item (path, expr) corresponds to `of_item`: a TexExpr item is the
       VNode with parent = its path without the last index, a string item the
       VExpr carrying its path.
   other values   None, bool, int, str (VStr: a plain Python str -- constants,
       str(..), name/begin/end attributes, the query), VStrs (a Python list of
       str: a list query), VArgs (a TexArgs object: only iterated, str()-ed,
       len()-ed), VList (list, tuple, generator, filter/chain/iter object: the
       list of what it holds / will produce), VDict a (a dict, by address in
       the heap).
   heap   the only mutable objects are dicts (`**attrs`): heap = list of dicts
       (key -> str or list of str).  A `**kw` parameter allocates a new dict
       holding a copy of what was passed with `**e` (empty without); passing a
       dict positionally passes its address (aliasing is modelled: the
       `attrs['name'] = name` of TexExpr.__match__ is seen by find_all's later
       iterations).
   ------------------------------------------------------------ methods, calls
   A class table maps (class kind, method name) to a body; kinds: KNode
       (TexNode), KEnv (TexEnv and its subclasses), KExpr (TexExpr; TexCmd and
       TexText inherit everything).  x.m / x.m(..) dispatches on the value:
       VNode -> KNode; VExpr p e -> KEnv then KExpr if is_env e, KExpr if
       another TexExpr; a Token / str has none of the translated methods
       (OUnsup; hasattr is the only way to ask).  The translator pins the class
       hierarchy and checks that no other class defines a translated name.
       super().m(..) inside a KEnv body is the KExpr body on the same self.
       Each call consumes one unit of fuel (OFuel when exhausted); nothing
       else does -- loops run over finite lists.
       A method of TexNode / TexExpr / TexEnv that is none of the thirteen
       named ones but is used by a translated body (e.g. a private helper
       `self.__find(..)`) is translated too, under the name M_extra i, and
       dispatched in the same way.
   generators   a body containing `yield` denotes the LIST of the yielded
       values (`yield from e` appends the list e); it must be decorated with
       to_list (pinned: `list(f( *args, **kwargs))`), an undecorated generator
       is OUnsup.  A body without yield under to_list must return a VList.
       Laziness is not modelled; it is unobservable here because the parts
       that Python may evaluate lazily (filter(lambda ..), generator
       expressions; list comprehensions are treated alike) are checked to
       leave the heap unchanged (OUnsup otherwise), and no modelled exception
       can escape them unnoticed: an exception anywhere propagates.
   @property   x.m evaluates the body if m is a property of the class of x,
       x.m(..) if it is not; the other combination is OUnsup.
   parameters  positional, trailing defaults (None, ()), optional `**kw`.  A
       dict passed with `**` that has a key naming a positional parameter of
       the callee (Python binds it to that parameter, or raises TypeError) is
       OUnsup (kw_clash).
   ---------------------------------------------------------------- attributes
   .expr (VNode p e _ -> VExpr p e)   .args (a TexExpr: VArgs of expr_args)
   ._contents (a TexExpr: the body list; for a TexText the one Token it wraps)
   ._text (a TexText: its Token)   .name / .begin / .end (Views.expr_name /
       expr_begin / expr_end; begin / end only for a TexEnv)
   ._begin / ._end (a TexEnv: the delimiters stored by the pinned __init__s;
       they are expr_begin / expr_end as long as the name is not reassigned,
       and no translated body assigns an attribute of an expression)
   .preserve_whitespace   False: the hand model has no such field (the reader
       never sets it)
   getattr(x, k): k a str naming one of name / begin / end; otherwise OUnsup.
   hasattr(x, 'm'): m a translated method name.  True for a method of the
       class of x; for a property the property is EVALUATED (as Python does)
       and its exception, if any, propagates; False for a Token / str and
       m = __match__ (Token.__getattr__ delegates to the wrapped str, pinned;
       a str has no __match__; a Token HAS an attribute `text`); OUnsup
       otherwise.
   ---------------------------------------------------------------- operators
   str(x)   Tree.estr for an expression object or a TexNode (its __str__ is
       str(self.expr)), estr_list for a TexArgs; the __str__ methods are
       translated and proved to satisfy this reading (see run_plain below).
   sep.join([b for x in l]) (TJoin: l a list or a TexArgs, every b a str),
   'a%sb%s..' % (x, ..) (TFormat: only %s conversions, each is str(x)).
   a + b    str + str, int + int.   a < b, a <= b, a > b, a >= b  on ints.
   a is None, a is not None (TNot (TIsNone a)).   a == b, a != b   str/str by code points, list of
       str / list of str element-wise, str against list: unequal, None against
       None/str/list; every other mix OUnsup (in particular TexExpr.__eq__).
   a in b   str in str: substring; x in list-of-str: some element == x;
       x in (tuple / list display): some element == x, all comparisons must be
       defined.
   and / or / not / if / assert   Python value semantics with truthiness:
       None False, bool, int != 0, str / list non-empty, a TexNode True
       (pinned: TexNode defines neither __bool__ nor __len__); other OUnsup.
   isinstance(x, C) / (x, (C1, C2))  by value kind and expr constructor
       (TexText is a TexExpr and a str, a Token is a str, a VList is of
       unknown class w.r.t. `list`: OUnsup); also TexGroup, BraceGroup,
       BracketGroup (EGroup by kind) and TexNamedEnv (ENamed).
   C(..)    C a class of the library other than TexNode (TexText, TexCmd, ..,
       CharToLineOffset, Token): the arguments are evaluated, then OUnsup (no
       view of the hand model creates such an object).
   TexNode(x)   the primitive TNewNode described above; TexNode.__init__ is
       translated as well (class table entry KNode / M_init, see new_node
       below) and Proofs/ViewGenProofs.v proves that the translated
       constructor builds exactly what the primitive builds.
   s.isspace()   Views.str_isspace on a str or the text of a TexText / Token.
   list(x) a VList as it is, a TexArgs as its elements; iter(x) a VList as it
       is; len(x) of VList / str / list of str / TexArgs;
   l[i]     VList with an int: Python indexing (negative from the end),
       IndexError out of range.
   d.items()  the (key, value) pairs now in the dict (a snapshot: a loop over
       it whose body changes the heap is OUnsup);  d[k] = v  k a constant str,
       v a str or list of str: update in place or append.
   filter(lambda x: c, l), (x for x in l if c), [x for x in l if c]  all three
       are TFilter; (b for x in l), [b for x in l] are TMap (a comprehension
       with both a condition and a computed element is not translated); the
       bound variable lives in its own slot; evaluating c / b must leave the
       heap unchanged.
   itertools.chain(a, .., *l)  concatenation of the lists a .. and of the
       lists in l.
       [b for x in l if c] is TMap over TFilter with one slot for x.
   break    leaves the innermost for loop (XBreak); the translator accepts it
       only inside a loop.
   try: return e / except IndexError: ..   only this shape.
   Exceptions: AssertionError, IndexError; everything else Python would raise
   (AttributeError, TypeError, KeyError ...) is OUnsup. *)
From Coq Require Import List NArith ZArith Bool.
From TexModel Require Import Base Tables Chars Tokenizer Tree Reader Views.
Import ListNotations.

Inductive exn := XAssertion | XIndex.

Inductive sval := SStr (s : str) | SStrs (l : list str).
Definition dict := list (str * sval).
Definition heap := list dict.

Inductive parent := PNone | PNode (p : option path).

Inductive value :=
| VNone
| VBool (b : bool)
| VInt (z : Z)
| VStr (s : str)
| VStrs (l : list str)
| VExpr (p : option path) (e : expr)
| VNode (p : option path) (e : expr) (par : parent)
| VArgs (l : list expr)
| VList (l : list value)
| VDict (a : nat).

Inductive mname :=
| M_all | M_children | M_contents | M_descendants | M_priv_descendants | M_text
| M_iter | M_getitem | M_match | M_find_all | M_find | M_count | M_getattr
| M_init                 (* TexNode.__init__ *)
| M_extra (i : nat).     (* the i-th further method the translator met in a translated body *)

Inductive kind := KNode | KExpr | KEnv.

Inductive attr :=
| A_expr | A_args | A_contents_ | A_text_ | A_name | A_begin | A_end | A_preserve_whitespace
| A_begin_ | A_end_.

Inductive cname := CTexNode | CTexExpr | CTexText | CTexCmd | CTexEnv | CStr | CList
| CTexGroup | CBraceGroup | CBracketGroup | CTexNamedEnv.

Inductive cmpop := OLt | OLe | OGt | OGe.

Inductive tm :=
| TNone
| TBool (b : bool)
| TInt (z : Z)
| TStr (s : str)
| TSelf
| TVar (x : nat)
| TTuple (xs : tms)
| TAttr (a : attr) (t : tm)
| TGetattr (t k : tm)                        (* getattr(t, k) *)
| THasattr (t : tm) (m : mname)              (* hasattr(t, 'm') *)
| TProp (m : mname) (t : tm)                 (* t.m, m a property *)
| TCall (m : mname) (t : tm) (xs : tms)      (* t.m(xs) *)
| TCallKw (m : mname) (t : tm) (xs : tms) (kw : tm)   (* t.m(xs, **kw) *)
| TSuper (m : mname) (xs : tms)              (* super().m(xs) *)
| TNewNode (t : tm)                          (* TexNode(t) *)
| TNewOther (c : str) (xs : tms)             (* C(xs), C another class of the library: not modelled *)
| TIsNone (t : tm)                           (* t is None *)
| TCmp (o : cmpop) (a b : tm)                (* a < b, a <= b, a > b, a >= b *)
| TIsInst (t : tm) (cs : list cname)
| TIsSpace (t : tm)
| TStrOf (t : tm)
| TAdd (a b : tm)
| TEq (a b : tm)
| TNe (a b : tm)
| TIn (a b : tm)
| TNotIn (a b : tm)
| TAnd (a b : tm)
| TOr (a b : tm)
| TNot (a : tm)
| TList (t : tm)
| TIter (t : tm)
| TLen (t : tm)
| TIndex (t i : tm)
| TItems (t : tm)
| TFilter (x : nat) (c : tm) (t : tm)
| TMap (x : nat) (b : tm) (t : tm)
| TChain (xs : tms)
| TChainStar (xs : tms) (st : tm)
| TJoin (sep : str) (x : nat) (b : tm) (t : tm)   (* sep.join([b for x in t]) *)
| TFormat (lits : list str) (xs : tms)            (* 'l0%sl1%s..ln' % (xs) *)
with tms :=
| TNil
| TCons (t : tm) (ts : tms).

Fixpoint tms_of (l : list tm) : tms :=
  match l with
  | [] => TNil
  | t :: l' => TCons t (tms_of l')
  end.

Inductive stmt :=
| SExpr (t : tm)
| SAssign (x : nat) (t : tm)
| SSetParent (x : nat) (t : tm)              (* x.parent = t *)
| SSetItem (x : nat) (k : str) (t : tm)      (* x[k] = t *)
| SReturn (t : tm)
| SYield (t : tm)
| SYieldFrom (t : tm)
| SAssert (t : tm)
| SIf (c : tm) (a b : block)
| SFor (x : nat) (t : tm) (b : block)
| SFor2 (x y : nat) (t : tm) (b : block)     (* for x, y in t *)
| STryReturn (t : tm) (e : exn) (hd : block) (* try: return t / except e: hd *)
| SBreak
with block :=
| BNil
| BCons (s : stmt) (b : block).

Fixpoint blk (l : list stmt) : block :=
  match l with
  | [] => BNil
  | s :: l' => BCons s (blk l')
  end.

Record mdef := mkM {
  m_params : list (option value);   (* positional parameters after self: default *)
  m_pnames : list str;              (* their names *)
  m_kwargs : bool;                  (* a `**kw` parameter (next slot) *)
  m_nlocals : nat;                  (* further local slots *)
  m_gen : bool;                     (* the body contains yield *)
  m_tolist : bool;                  (* decorated with to_list *)
  m_prop : bool;                    (* decorated with property *)
  m_body : block }.

Definition cls := kind -> mname -> option mdef.

Inductive rv := RVal (v : value) | RExc (e : exn).

Inductive outcome :=
| ODone (r : rv) (h : heap)
| OUnsup
| OFuel.

Inductive eres :=
| EV (v : value) (h : heap)
| EX (e : exn) (h : heap)
| EUnsup
| EFuel.

Inductive ares :=
| AV (vs : list value) (h : heap)
| AX (e : exn) (h : heap)
| AUnsup
| AFuel.

Definition env := list (option value).

Inductive xres :=
| XNormal (en : env) (h : heap) (acc : list value)
| XReturn (v : value) (h : heap) (acc : list value)
| XBreak (en : env) (h : heap) (acc : list value)
| XExc (e : exn) (h : heap)
| XUnsup
| XFuel.

(* where the lookup starts, the method, self, positional arguments, the dict
   passed with **, the heap *)
Definition callfn := kind -> mname -> value -> list value -> option dict -> heap -> outcome.

(* ------------------------------------------------------- value operations *)

Definition exn_eqb (a b : exn) : bool :=
  match a, b with
  | XAssertion, XAssertion | XIndex, XIndex => true
  | _, _ => false
  end.

Fixpoint strs_eqb (a b : list str) : bool :=
  match a, b with
  | [], [] => true
  | x :: a', y :: b' => str_eqb x y && strs_eqb a' b'
  | _, _ => false
  end.

Definition sval_eqb (a b : sval) : bool :=
  match a, b with
  | SStr s, SStr t => str_eqb s t
  | SStrs l, SStrs m => strs_eqb l m
  | _, _ => false
  end.

Fixpoint dict_eqb (a b : dict) : bool :=
  match a, b with
  | [], [] => true
  | (k, v) :: a', (k', v') :: b' => str_eqb k k' && sval_eqb v v' && dict_eqb a' b'
  | _, _ => false
  end.

Fixpoint heap_eqb (a b : heap) : bool :=
  match a, b with
  | [], [] => true
  | d :: a', d' :: b' => dict_eqb d d' && heap_eqb a' b'
  | _, _ => false
  end.

Fixpoint dict_set (d : dict) (k : str) (v : sval) : dict :=
  match d with
  | [] => [(k, v)]
  | (k', v') :: d' => if str_eqb k' k then (k', v) :: d' else (k', v') :: dict_set d' k v
  end.

Fixpoint heap_set (h : heap) (a : nat) (d : dict) : heap :=
  match h, a with
  | [], _ => []
  | _ :: h', O => d :: h'
  | x :: h', S a' => x :: heap_set h' a' d
  end.

Definition sval_of (v : value) : option sval :=
  match v with
  | VStr s => Some (SStr s)
  | VStrs l => Some (SStrs l)
  | _ => None
  end.

Definition value_of_sval (v : sval) : value :=
  match v with
  | SStr s => VStr s
  | SStrs l => VStrs l
  end.

(* `p in s` for strs: substring *)
Fixpoint is_infix (p s : str) : bool :=
  starts_with s p || match s with
                     | [] => false
                     | _ :: s' => is_infix p s'
                     end.

(* l[i] with Python indexing; None = IndexError *)
Definition py_nth {A} (l : list A) (i : Z) : option A :=
  let len := Z.of_nat (length l) in
  let j := if (i <? 0)%Z then (i + len)%Z else i in
  if (j <? 0)%Z then None else nth_error l (Z.to_nat j).

Definition val_eqb (a b : value) : option bool :=
  match a, b with
  | VStr s, VStr t => Some (str_eqb s t)
  | VStrs l, VStrs m => Some (strs_eqb l m)
  | VStr _, VStrs _ | VStrs _, VStr _ => Some false
  | VNone, VNone => Some true
  | VNone, VStr _ | VNone, VStrs _ | VStr _, VNone | VStrs _, VNone => Some false
  | _, _ => None
  end.

Fixpoint in_vals (v : value) (l : list value) : option bool :=
  match l with
  | [] => Some false
  | x :: l' =>
    match val_eqb v x, in_vals v l' with
    | Some b, Some r => Some (b || r)
    | _, _ => None
    end
  end.

Definition val_in (a b : value) : option bool :=
  match a, b with
  | VStr s, VStr t => Some (is_infix s t)
  | VStr s, VStrs l => Some (mem_str s l)
  | VStrs _, VStrs _ => Some false
  | VNone, VStrs _ => Some false
  | _, VList l => in_vals a l
  | _, _ => None
  end.

Definition truthy (v : value) : option bool :=
  match v with
  | VNone => Some false
  | VBool b => Some b
  | VInt z => Some (negb (z =? 0)%Z)
  | VStr s => Some (match s with [] => false | _ => true end)
  | VStrs l => Some (match l with [] => false | _ => true end)
  | VList l => Some (match l with [] => false | _ => true end)
  | VNode _ _ _ => Some true
  | _ => None
  end.

Definition inst1 (v : value) (c : cname) : option bool :=
  match v with
  | VExpr _ e =>
    Some (match c with
          | CTexExpr => is_texexpr e
          | CTexText => match e with EText _ => true | _ => false end
          | CTexCmd => match e with ECmd _ _ _ _ => true | _ => false end
          | CTexEnv => is_env e
          | CStr => is_strlike e
          | CTexGroup => match e with EGroup _ _ _ => true | _ => false end
          | CBraceGroup => match e with EGroup GBrace _ _ => true | _ => false end
          | CBracketGroup => match e with EGroup GBracket _ _ => true | _ => false end
          | CTexNamedEnv => match e with ENamed _ _ _ _ => true | _ => false end
          | CList | CTexNode => false
          end)
  | VNode _ _ _ => Some (match c with CTexNode => true | _ => false end)
  | VStr _ => Some (match c with CStr => true | _ => false end)
  | VStrs _ | VArgs _ => Some (match c with CList => true | _ => false end)
  | VList _ => match c with CList => None | _ => Some false end
  | VNone | VBool _ | VInt _ => Some false
  | VDict _ => None
  end.

Fixpoint inst (v : value) (cs : list cname) : option bool :=
  match cs with
  | [] => Some false
  | c :: cs' =>
    match inst1 v c, inst v cs' with
    | Some b, Some r => Some (b || r)
    | _, _ => None
    end
  end.

(* self._contents *)
Definition raw_contents (e : expr) : list expr :=
  match e with
  | EText t => [ERaw (ttext t) (tpos t)]
  | ERaw _ _ | EStr _ => []
  | ECmd _ _ b _ | ENamed _ _ b _ | EMath _ b _ | EGroup _ b _ | ERoot b => b
  end.

Definition get_attr (a : attr) (v : value) : option value :=
  match a, v with
  | A_expr, VNode p e _ => Some (VExpr p e)
  | A_args, VExpr _ e => if is_texexpr e then Some (VArgs (expr_args e)) else None
  | A_contents_, VExpr _ e =>
    if is_texexpr e then Some (VList (map (VExpr None) (raw_contents e))) else None
  | A_text_, VExpr _ (EText t) => Some (VExpr None (ERaw (ttext t) (tpos t)))
  | A_name, VExpr _ e => if is_texexpr e then Some (VStr (expr_name e)) else None
  | A_begin, VExpr _ e => if is_env e then Some (VStr (expr_begin e)) else None
  | A_end, VExpr _ e => if is_env e then Some (VStr (expr_end e)) else None
  | A_begin_, VExpr _ e => if is_env e then Some (VStr (expr_begin e)) else None
  | A_end_, VExpr _ e => if is_env e then Some (VStr (expr_end e)) else None
  | A_preserve_whitespace, VExpr _ e => if is_texexpr e then Some (VBool false) else None
  | _, _ => None
  end.

Definition s_name : str := [110; 97; 109; 101]%N.       (* 'name' *)
Definition s_begin : str := [98; 101; 103; 105; 110]%N.  (* 'begin' *)
Definition s_end : str := [101; 110; 100]%N.             (* 'end' *)

Definition attr_of_str (s : str) : option attr :=
  if str_eqb s s_name then Some A_name
  else if str_eqb s s_begin then Some A_begin
  else if str_eqb s s_end then Some A_end
  else None.

Definition kind_of (v : value) : option kind :=
  match v with
  | VNode _ _ _ => Some KNode
  | VExpr _ e => if is_env e then Some KEnv else if is_texexpr e then Some KExpr else None
  | _ => None
  end.

Definition resolve (c : cls) (k : kind) (m : mname) : option (kind * mdef) :=
  match c k m with
  | Some d => Some (k, d)
  | None =>
    match k with
    | KEnv => match c KExpr m with Some d => Some (KExpr, d) | None => None end
    | _ => None
    end
  end.

(* a Token / str has no attribute of that name *)
Definition str_lacks (m : mname) : bool :=
  match m with
  | M_match => true
  | _ => false
  end.

Definition str_of (v : value) : option str :=
  match v with
  | VStr s => Some s
  | VExpr _ e => Some (estr e)
  | VNode _ e _ => Some (estr e)
  | VArgs l => Some (estr_list l)
  | _ => None
  end.

Definition isspace_of (v : value) : option bool :=
  match v with
  | VStr s => Some (str_isspace s)
  | VExpr _ e => if is_strlike e then Some (str_isspace (estr e)) else None
  | _ => None
  end.

(* what a for loop / list() iterates over *)
Definition iter_of (v : value) : option (list value) :=
  match v with
  | VList l => Some l
  | VArgs l => Some (map (VExpr None) l)
  | _ => None
  end.

Definition len_of (v : value) : option Z :=
  match v with
  | VList l => Some (Z.of_nat (length l))
  | VArgs l => Some (Z.of_nat (length l))
  | VStr s => Some (Z.of_nat (length s))
  | VStrs l => Some (Z.of_nat (length l))
  | _ => None
  end.

Fixpoint concat_vals (l : list value) : option (list value) :=
  match l with
  | [] => Some []
  | VList a :: l' => option_map (app a) (concat_vals l')
  | _ :: _ => None
  end.

(* sep.join(l): every element a str *)
Fixpoint join_strs (sep : str) (l : list value) : option str :=
  match l with
  | [] => Some []
  | [VStr s] => Some s
  | VStr s :: l' => option_map (fun r => s ++ sep ++ r) (join_strs sep l')
  | _ :: _ => None
  end.

(* 'l0%sl1%s..ln' % (v1, .., vn): each %s is str(v) *)
Fixpoint format_strs (lits : list str) (vs : list value) : option str :=
  match lits, vs with
  | [l], [] => Some l
  | l :: lits', v :: vs' =>
    match str_of v, format_strs lits' vs' with
    | Some s, Some r => Some (l ++ s ++ r)
    | _, _ => None
    end
  | _, _ => None
  end.

Definition items_of (d : dict) : list value :=
  map (fun kv => VList [VStr (fst kv); value_of_sval (snd kv)]) d.

(* the names given by the `contents` property of the expression named p *)
Fixpoint retag (p : option path) (i : nat) (l : list value) : option (list value) :=
  match l with
  | [] => Some []
  | VExpr _ x :: l' =>
    option_map (cons (VExpr (option_map (fun q => q ++ [i]) p) x)) (retag p (S i) l')
  | _ :: _ => None
  end.

Definition lookup (en : env) (x : nat) : option value :=
  match nth_error en x with
  | Some (Some v) => Some v
  | _ => None
  end.

Fixpoint set_var (en : env) (x : nat) (v : value) : env :=
  match x, en with
  | O, [] => [Some v]
  | O, _ :: r => Some v :: r
  | S x', [] => None :: set_var [] x' v
  | S x', a :: r => a :: set_var r x' v
  end.

Fixpoint bind_params (ps : list (option value)) (vs : list value) : option env :=
  match ps, vs with
  | [], [] => Some []
  | [], _ :: _ => None
  | _ :: ps', v :: vs' => option_map (cons (Some v)) (bind_params ps' vs')
  | Some dv :: ps', [] => option_map (cons (Some dv)) (bind_params ps' [])
  | None :: _, [] => None
  end.

(* parameters, the ** dict (newly allocated), the locals *)
(* a key of the dict passed with ** that is the name of a positional parameter
   would be bound to that parameter (or be a TypeError): not modelled *)
Definition kw_clash (d : mdef) (kw : option dict) : bool :=
  match kw with
  | Some k => existsb (fun kv => mem_str (fst kv) (m_pnames d)) k
  | None => false
  end.

Definition bind (d : mdef) (vs : list value) (kw : option dict) (h : heap) : option (env * heap) :=
  match bind_params (m_params d) vs with
  | None => None
  | Some en =>
    if kw_clash d kw then None else
    if m_kwargs d
    then Some (en ++ [Some (VDict (length h))] ++ repeat None (m_nlocals d),
               h ++ [match kw with Some k => k | None => [] end])
    else match kw with
         | None => Some (en ++ repeat None (m_nlocals d), h)
         | Some _ => None
         end
  end.

Definition lift (o : option value) (h : heap) : eres :=
  match o with
  | Some v => EV v h
  | None => EUnsup
  end.

Definition lift_b (o : option bool) (h : heap) : eres :=
  match o with
  | Some b => EV (VBool b) h
  | None => EUnsup
  end.

Definition of_outcome (o : outcome) : eres :=
  match o with
  | ODone (RVal v) h => EV v h
  | ODone (RExc e) h => EX e h
  | OUnsup => EUnsup
  | OFuel => EFuel
  end.

Definition of_ares (a : ares) (k : list value -> heap -> eres) : eres :=
  match a with
  | AV vs h => k vs h
  | AX e h => EX e h
  | AUnsup => EUnsup
  | AFuel => EFuel
  end.

(* [b for x in l] : the bound variable lives in its own slot *)
Fixpoint map_loop (ev : env -> heap -> eres) (x : nat) (l : list value) (en : env) (h : heap)
  : ares :=
  match l with
  | [] => AV [] h
  | v :: l' =>
    match ev (set_var en x v) h with
    | EV r h1 =>
      match map_loop ev x l' en h1 with
      | AV rs h2 => AV (r :: rs) h2
      | o => o
      end
    | EX e h1 => AX e h1
    | EUnsup => AUnsup
    | EFuel => AFuel
    end
  end.

Fixpoint filter_loop (ev : env -> heap -> eres) (x : nat) (l : list value) (en : env) (h : heap)
  : ares :=
  match l with
  | [] => AV [] h
  | v :: l' =>
    match ev (set_var en x v) h with
    | EV r h1 =>
      match truthy r with
      | Some b =>
        match filter_loop ev x l' en h1 with
        | AV rs h2 => AV (if b then v :: rs else rs) h2
        | o => o
        end
      | None => AUnsup
      end
    | EX e h1 => AX e h1
    | EUnsup => AUnsup
    | EFuel => AFuel
    end
  end.

Fixpoint for_loop (body : env -> heap -> list value -> xres) (x : nat) (l : list value)
         (en : env) (h : heap) (acc : list value) : xres :=
  match l with
  | [] => XNormal en h acc
  | v :: l' =>
    match body (set_var en x v) h acc with
    | XNormal en' h' acc' => for_loop body x l' en' h' acc'
    | XBreak en' h' acc' => XNormal en' h' acc'
    | r => r
    end
  end.

(* for x, y in l : every element a pair; the heap must not change while the
   dict view is iterated *)
Fixpoint for_loop2 (body : env -> heap -> list value -> xres) (x y : nat) (l : list value)
         (en : env) (h : heap) (acc : list value) : xres :=
  match l with
  | [] => XNormal en h acc
  | VList [a; b] :: l' =>
    match body (set_var (set_var en x a) y b) h acc with
    | XNormal en' h' acc' =>
      if heap_eqb h h' then for_loop2 body x y l' en' h' acc' else XUnsup
    | XBreak en' h' acc' => XNormal en' h' acc'
    | r => r
    end
  | _ :: _ => XUnsup
  end.

Section Interp.
Variable c : cls.
Variable callf : callfn.
Variable self : value.
Variable here : kind.          (* the class the running body is defined in *)

Definition call_on (m : mname) (v : value) (vs : list value) (kw : option dict)
           (as_prop : bool) (h : heap) : eres :=
  match kind_of v with
  | Some k =>
    match resolve c k m with
    | Some (_, d) =>
      if Bool.eqb (m_prop d) as_prop then of_outcome (callf k m v vs kw h) else EUnsup
    | None => EUnsup
    end
  | None => EUnsup
  end.

Definition has_attr (m : mname) (v : value) (h : heap) : eres :=
  match v with
  | VNode _ _ _ | VExpr _ _ =>
    match kind_of v with
    | None => if str_lacks m then EV (VBool false) h else EUnsup
    | Some k =>
      match resolve c k m with
      | Some (_, d) =>
        if m_prop d
        then match of_outcome (callf k m v [] None h) with
             | EV _ h1 => EV (VBool true) h1
             | o => o
             end
        else EV (VBool true) h
      | None => EUnsup
      end
    end
  | _ => EUnsup
  end.

Fixpoint eval (t : tm) (en : env) (h : heap) {struct t} : eres :=
  let un (a : tm) (k : value -> heap -> eres) : eres :=
    match eval a en h with
    | EV v h1 => k v h1
    | x => x
    end in
  let bin (a b : tm) (k : value -> value -> heap -> eres) : eres :=
    match eval a en h with
    | EV v1 h1 =>
      match eval b en h1 with
      | EV v2 h2 => k v1 v2 h2
      | x => x
      end
    | x => x
    end in
  match t with
  | TNone => EV VNone h
  | TBool b => EV (VBool b) h
  | TInt z => EV (VInt z) h
  | TStr s => EV (VStr s) h
  | TSelf => EV self h
  | TVar x => lift (lookup en x) h
  | TTuple xs => of_ares (eval_args xs en h) (fun vs h1 => EV (VList vs) h1)
  | TAttr a t1 => un t1 (fun v h1 => lift (get_attr a v) h1)
  | TGetattr t1 k =>
    bin t1 k (fun v kv h2 =>
      match kv with
      | VStr s => match attr_of_str s with
                  | Some a => lift (get_attr a v) h2
                  | None => EUnsup
                  end
      | _ => EUnsup
      end)
  | THasattr t1 m => un t1 (fun v h1 => has_attr m v h1)
  | TProp m t1 => un t1 (fun v h1 => call_on m v [] None true h1)
  | TCall m t1 xs =>
    un t1 (fun v h1 => of_ares (eval_args xs en h1) (fun vs h2 => call_on m v vs None false h2))
  | TCallKw m t1 xs kw =>
    un t1 (fun v h1 =>
      of_ares (eval_args xs en h1) (fun vs h2 =>
        match eval kw en h2 with
        | EV (VDict a) h3 =>
          match nth_error h3 a with
          | Some d => call_on m v vs (Some d) false h3
          | None => EUnsup
          end
        | EV _ _ => EUnsup
        | x => x
        end))
  | TSuper m xs =>
    match here with
    | KEnv =>
      of_ares (eval_args xs en h) (fun vs h1 =>
        match resolve c KExpr m with
        | Some (_, d) => if m_prop d then EUnsup else of_outcome (callf KExpr m self vs None h1)
        | None => EUnsup
        end)
    | _ => EUnsup
    end
  | TNewNode t1 =>
    un t1 (fun v h1 =>
      match v with
      | VExpr p e => if is_texexpr e then EV (VNode p e PNone) h1 else EX XAssertion h1
      | _ => EUnsup
      end)
  | TNewOther _ xs => of_ares (eval_args xs en h) (fun _ _ => EUnsup)
  | TIsNone t1 => un t1 (fun v h1 => EV (VBool (match v with VNone => true | _ => false end)) h1)
  | TCmp o a b =>
    bin a b (fun v1 v2 h2 =>
      match v1, v2 with
      | VInt x, VInt y =>
        EV (VBool (match o with
                   | OLt => (x <? y)%Z | OLe => (x <=? y)%Z
                   | OGt => (y <? x)%Z | OGe => (y <=? x)%Z
                   end)) h2
      | _, _ => EUnsup
      end)
  | TIsInst t1 cs => un t1 (fun v h1 => lift_b (inst v cs) h1)
  | TIsSpace t1 => un t1 (fun v h1 => lift_b (isspace_of v) h1)
  | TStrOf t1 => un t1 (fun v h1 => lift (option_map VStr (str_of v)) h1)
  | TAdd a b =>
    bin a b (fun v1 v2 h2 =>
      match v1, v2 with
      | VStr s, VStr t => EV (VStr (s ++ t)) h2
      | VInt x, VInt y => EV (VInt (x + y)) h2
      | _, _ => EUnsup
      end)
  | TEq a b => bin a b (fun v1 v2 h2 => lift_b (val_eqb v1 v2) h2)
  | TNe a b => bin a b (fun v1 v2 h2 => lift_b (option_map negb (val_eqb v1 v2)) h2)
  | TIn a b => bin a b (fun v1 v2 h2 => lift_b (val_in v1 v2) h2)
  | TNotIn a b => bin a b (fun v1 v2 h2 => lift_b (option_map negb (val_in v1 v2)) h2)
  | TAnd a b =>
    un a (fun v h1 =>
      match truthy v with
      | Some true => eval b en h1
      | Some false => EV v h1
      | None => EUnsup
      end)
  | TOr a b =>
    un a (fun v h1 =>
      match truthy v with
      | Some true => EV v h1
      | Some false => eval b en h1
      | None => EUnsup
      end)
  | TNot a => un a (fun v h1 => lift_b (option_map negb (truthy v)) h1)
  | TList t1 => un t1 (fun v h1 => lift (option_map VList (iter_of v)) h1)
  | TIter t1 => un t1 (fun v h1 => match v with VList l => EV (VList l) h1 | _ => EUnsup end)
  | TLen t1 => un t1 (fun v h1 => lift (option_map VInt (len_of v)) h1)
  | TIndex t1 i =>
    bin t1 i (fun v1 v2 h2 =>
      match v1, v2 with
      | VList l, VInt z => match py_nth l z with
                           | Some x => EV x h2
                           | None => EX XIndex h2
                           end
      | _, _ => EUnsup
      end)
  | TItems t1 =>
    un t1 (fun v h1 =>
      match v with
      | VDict a => match nth_error h1 a with
                   | Some d => EV (VList (items_of d)) h1
                   | None => EUnsup
                   end
      | _ => EUnsup
      end)
  | TFilter x cnd t1 =>
    un t1 (fun v h1 =>
      match v with
      | VList l =>
        of_ares (filter_loop (eval cnd) x l en h1) (fun vs h2 =>
          if heap_eqb h1 h2 then EV (VList vs) h2 else EUnsup)
      | _ => EUnsup
      end)
  | TMap x b t1 =>
    un t1 (fun v h1 =>
      match v with
      | VList l =>
        of_ares (map_loop (eval b) x l en h1) (fun vs h2 =>
          if heap_eqb h1 h2 then EV (VList vs) h2 else EUnsup)
      | _ => EUnsup
      end)
  | TChain xs =>
    of_ares (eval_args xs en h) (fun vs h1 => lift (option_map VList (concat_vals vs)) h1)
  | TChainStar xs st =>
    of_ares (eval_args xs en h) (fun vs h1 =>
      match eval st en h1 with
      | EV (VList ls) h2 => lift (option_map VList (concat_vals (vs ++ ls))) h2
      | EV _ _ => EUnsup
      | x => x
      end)
  | TJoin sep x b t1 =>
    un t1 (fun v h1 =>
      match iter_of v with
      | Some l =>
        of_ares (map_loop (eval b) x l en h1) (fun vs h2 =>
          if heap_eqb h1 h2 then lift (option_map VStr (join_strs sep vs)) h2 else EUnsup)
      | None => EUnsup
      end)
  | TFormat lits xs =>
    of_ares (eval_args xs en h) (fun vs h1 => lift (option_map VStr (format_strs lits vs)) h1)
  end
with eval_args (xs : tms) (en : env) (h : heap) {struct xs} : ares :=
  match xs with
  | TNil => AV [] h
  | TCons t xs' =>
    match eval t en h with
    | EV v h1 =>
      match eval_args xs' en h1 with
      | AV vs h2 => AV (v :: vs) h2
      | x => x
      end
    | EX e h1 => AX e h1
    | EUnsup => AUnsup
    | EFuel => AFuel
    end
  end.

(* evaluate, then continue with the value *)
Definition with_val (r : eres) (k : value -> heap -> xres) : xres :=
  match r with
  | EV v h => k v h
  | EX e h => XExc e h
  | EUnsup => XUnsup
  | EFuel => XFuel
  end.

Fixpoint exec_stmt (s : stmt) (en : env) (h : heap) (acc : list value) {struct s} : xres :=
  match s with
  | SExpr t => with_val (eval t en h) (fun _ h1 => XNormal en h1 acc)
  | SAssign x t => with_val (eval t en h) (fun v h1 => XNormal (set_var en x v) h1 acc)
  | SSetParent x t =>
    with_val (eval t en h) (fun v h1 =>
      match lookup en x, v with
      | Some (VNode p e _), VNode q _ _ => XNormal (set_var en x (VNode p e (PNode q))) h1 acc
      | _, _ => XUnsup
      end)
  | SSetItem x k t =>
    with_val (eval t en h) (fun v h1 =>
      match lookup en x, sval_of v with
      | Some (VDict a), Some sv =>
        match nth_error h1 a with
        | Some d => XNormal en (heap_set h1 a (dict_set d k sv)) acc
        | None => XUnsup
        end
      | _, _ => XUnsup
      end)
  | SReturn t => with_val (eval t en h) (fun v h1 => XReturn v h1 acc)
  | SYield t => with_val (eval t en h) (fun v h1 => XNormal en h1 (acc ++ [v]))
  | SYieldFrom t =>
    with_val (eval t en h) (fun v h1 =>
      match v with
      | VList l => XNormal en h1 (acc ++ l)
      | _ => XUnsup
      end)
  | SAssert t =>
    with_val (eval t en h) (fun v h1 =>
      match truthy v with
      | Some true => XNormal en h1 acc
      | Some false => XExc XAssertion h1
      | None => XUnsup
      end)
  | SIf cnd a b =>
    with_val (eval cnd en h) (fun v h1 =>
      match truthy v with
      | Some true => exec_block a en h1 acc
      | Some false => exec_block b en h1 acc
      | None => XUnsup
      end)
  | SFor x t b =>
    with_val (eval t en h) (fun v h1 =>
      match iter_of v with
      | Some l => for_loop (exec_block b) x l en h1 acc
      | None => XUnsup
      end)
  | SFor2 x y t b =>
    with_val (eval t en h) (fun v h1 =>
      match v with
      | VList l => for_loop2 (exec_block b) x y l en h1 acc
      | _ => XUnsup
      end)
  | STryReturn t e hd =>
    match eval t en h with
    | EV v h1 => XReturn v h1 acc
    | EX e' h1 => if exn_eqb e e' then exec_block hd en h1 acc else XExc e' h1
    | EUnsup => XUnsup
    | EFuel => XFuel
    end
  | SBreak => XBreak en h acc
  end
with exec_block (b : block) (en : env) (h : heap) (acc : list value) {struct b} : xres :=
  match b with
  | BNil => XNormal en h acc
  | BCons s b' =>
    match exec_stmt s en h acc with
    | XNormal en' h' acc' => exec_block b' en' h' acc'
    | x => x
    end
  end.

End Interp.

(* the value a finished body denotes *)
Definition finish (d : mdef) (x : xres) : outcome :=
  match x with
  | XNormal _ h acc =>
    if m_gen d then (if m_tolist d then ODone (RVal (VList acc)) h else OUnsup)
    else if m_tolist d then OUnsup else ODone (RVal VNone) h
  | XReturn v h acc =>
    if m_gen d
    then match v with
         | VNone => if m_tolist d then ODone (RVal (VList acc)) h else OUnsup
         | _ => OUnsup
         end
    else if m_tolist d
         then match v with
              | VList l => ODone (RVal (VList l)) h
              | _ => OUnsup
              end
         else ODone (RVal v) h
  | XBreak _ _ _ => OUnsup       (* the translator accepts break only inside a loop *)
  | XExc e h => ODone (RExc e) h
  | XUnsup => OUnsup
  | XFuel => OFuel
  end.

(* the `contents` property of an expression names its elements *)
Definition name_contents (k : kind) (m : mname) (self : value) (o : outcome) : outcome :=
  match k, m, self, o with
  | KNode, _, _, _ => o
  | _, M_contents, VExpr p _, ODone (RVal (VList l)) h =>
    match retag p O l with
    | Some l' => ODone (RVal (VList l')) h
    | None => OUnsup
    end
  | _, M_contents, _, ODone (RVal _) _ => OUnsup
  | _, _, _, _ => o
  end.

Fixpoint call (n : nat) (c : cls) (k : kind) (m : mname) (self : value) (vs : list value)
         (kw : option dict) (h : heap) : outcome :=
  match n with
  | O => OFuel
  | S n' =>
    match resolve c k m with
    | Some (k', d) =>
      match bind d vs kw h with
      | Some (en, h1) =>
        name_contents k' m self
          (finish d (exec_block c (call n' c) self k' (m_body d) en h1 []))
      | None => OUnsup
      end
    | None => OUnsup
    end
  end.

(* TexNode(x), through the translated TexNode.__init__ (class table entry
   KNode / M_init, parameters expr, src=None).  The object under construction
   is not a value: the translator maps `self.expr = ..`, `self.parent = ..`,
   `self.char_to_line = ..` to assignments of the three slots that follow the
   parameters (any other use of self inside __init__ is refused) and
   `super().__init__()` to nothing (the base class is pinned to object).  The
   finished object is the TexNode whose fields are what the slots hold: expr a
   TexExpr, parent None, char_to_line None; a field that was never assigned
   would later be answered by TexNode.__getattr__ (a search): OUnsup.
   Proofs/ViewGenProofs.v (gen_N_init_ok) proves that this is exactly what the
   primitive TNewNode of `eval` builds. *)
Definition init_fields (d : mdef) (en : env) : option value :=
  let i := length (m_params d) in
  match lookup en i, lookup en (S i), lookup en (S (S i)) with
  | Some (VExpr p e), Some VNone, Some VNone => Some (VNode p e PNone)
  | _, _, _ => None
  end.

Definition new_node (n : nat) (c : cls) (vs : list value) (h : heap) : outcome :=
  match c KNode M_init with
  | Some d =>
    match bind d vs None h with
    | Some (en, h1) =>
      if m_gen d || m_tolist d || m_prop d then OUnsup else
      match exec_block c (call n c) VNone KNode (m_body d) en h1 [] with
      | XNormal en' h' _ =>
        match init_fields d en' with
        | Some v => ODone (RVal v) h'
        | None => OUnsup
        end
      | XReturn _ _ _ | XBreak _ _ _ => OUnsup   (* the translator refuses `return` in __init__ *)
      | XExc e h' => ODone (RExc e) h'
      | XUnsup => OUnsup
      | XFuel => OFuel
      end
    | None => OUnsup
    end
  | None => OUnsup
  end.

(* The __str__ methods (TexNode, TexEnv, TexCmd, TexText, TexArgs) are
   translated too, but not put into the class table: `str(x)` stays the
   primitive Tree.estr / estr_list (str_of), and Proofs/ViewGenProofs.v proves
   for each class that its translated __str__, run on an object of that class
   with the primitive as the meaning of the str() calls it makes on the parts
   (TStrOf, %s, join), returns the primitive's value for the whole: estr is the
   solution of the equations the source consists of, so by induction on the
   tree str() of the source is estr.  run_plain runs such a body; the bodies
   call no translated method (a method call is OUnsup here). *)
Definition no_calls : callfn := fun _ _ _ _ _ _ => OUnsup.

Definition run_plain (c : cls) (d : mdef) (self : value) (h : heap) : outcome :=
  match bind d [] None h with
  | Some (en, h1) => finish d (exec_block c no_calls self KNode (m_body d) en h1 [])
  | None => OUnsup
  end.

(* ------------------------------------- the hand-written model's vocabulary *)

(* a Views.item as a value: a TexExpr item is the wrapper whose parent is the
   path without its last index, a string item the Token / str carrying its path *)
Definition of_item (it : item) : value :=
  if is_texexpr (snd it)
  then VNode (Some (fst it)) (snd it) (PNode (Some (parent_path (fst it))))
  else VExpr (Some (fst it)) (snd it).

(* an element of expr.contents of the expression named by the item's parent *)
Definition tagv (it : item) : value := VExpr (Some (fst it)) (snd it).

(* the elements l of the `contents` list of the expression named p, from index i:
   tagged (Some q) i l = map tagv (wrap_from q i l), tagged None i l = map (VExpr None) l *)
Fixpoint tagged (p : option path) (i : nat) (l : list expr) : list value :=
  match l with
  | [] => []
  | x :: l' => VExpr (option_map (fun q => q ++ [i]) p) x :: tagged p (S i) l'
  end.

Definition of_opt_item (o : option item) : value :=
  match o with
  | Some it => of_item it
  | None => VNone
  end.

Definition qval (q : query) : value :=
  match q with
  | QName s => VStr s
  | QList l => VStrs l
  end.

(* every element of an argument list, at every depth, is a TexExpr (TexArgs
   lets only groups and commands into the list) *)
Fixpoint args_ok (e : expr) : bool :=
  let fix all_ok (l : list expr) : bool :=
      match l with
      | [] => true
      | x :: l' => args_ok x && all_ok l'
      end in
  match e with
  | EText _ | ERaw _ _ | EStr _ => true
  | ECmd _ a b _ | ENamed _ a b _ => forallb is_texexpr a && all_ok a && all_ok b
  | EMath _ b _ | EGroup _ b _ | ERoot b => all_ok b
  end.

(* call depth sufficient for every translated method on a tree of depth d *)
Definition view_fuel (e : expr) : nat := 2 * edepth e + 8.

(* a method of the TexNode n = (path, expr), any parent, empty heap *)
Definition run_node (c : cls) (m : mname) (par : parent) (n : item) (vs : list value)
  : option rv :=
  match call (view_fuel (snd n)) c KNode m (VNode (Some (fst n)) (snd n) par) vs None [] with
  | ODone r _ => Some r
  | _ => None
  end.

(* x.__match__(q, attrs) with attrs the dict d, the only one of the heap: the
   returned value and the dict afterwards (call depth 3: TexNode -> TexEnv ->
   TexExpr) *)
Definition run_match (c : cls) (v : value) (q : query) (d : dict) : option (value * dict) :=
  match kind_of v with
  | Some k =>
    match call 3 c k M_match v [qval q; VDict 0] None [d] with
    | ODone (RVal r) [d'] => Some (r, d')
    | _ => None
    end
  | None => None
  end.

(* a method of the expression e named p *)
Definition run_expr (c : cls) (m : mname) (p : option path) (e : expr) (vs : list value)
  : option rv :=
  match kind_of (VExpr p e) with
  | Some k =>
    match call (view_fuel e) c k m (VExpr p e) vs None [] with
    | ODone r _ => Some r
    | _ => None
    end
  | None => None
  end.
