(* Model of TexSoup.tokens: the eleven token rules, in the registration order
   read from the source (Tables.rule_order), and the driver next_token/tokenize.

   Each rule sees the remaining characters `rest`, the buffer index `idx`
   (= text.position), the character peek(-1) would return (`prevc`) and the
   previous token (`prev`).  Results:
     RNone        the rule returned None and left the cursor where it was
     RTok t r     the rule returned token t, cursor now at r
     RSkip r      the rule returned None but moved the cursor (ignored chars)
     RErr         the rule dereferenced peek() == None (AttributeError)        *)
From Coq Require Import List NArith ZArith Bool.
From TexModel Require Import Base Tables Chars.
Import ListNotations.

Record token := mkt { ttext : str; tpos : Z; tcat : tc }.

Inductive rres :=
| RNone
| RTok (t : token) (rest : list cchar)
| RSkip (rest : list cchar)
| RErr.

Fixpoint take_while (p : cchar -> bool) (l : list cchar) : list cchar * list cchar :=
  match l with
  | [] => ([], [])
  | c :: l' => if p c then let (a, b) := take_while p l' in (c :: a, b) else ([], l)
  end.

Definition is_cat (k : cc) (c : cchar) : bool := cc_beq (ccat c) k.

Definition mk_tok (cs : list cchar) (idx : Z) (k : tc) : token :=
  mkt (chars_of cs) (match cs with c :: _ => cpos c | [] => idx end) k.

(* 1. escaped symbols *)
Definition rule_escaped_symbols (rest : list cchar) : rres :=
  match rest with
  | [] => RErr
  | c0 :: rest1 =>
    if is_cat CEscape c0 then
      match rest1 with
      | c1 :: rest2 =>
        if mem_cc (ccat c1) Tables.escaped_second_cats
        then RTok (mkt [ch c0; ch c1] (cpos c0) TEscapedComment) rest2
        else RNone
      | [] => RNone
      end
    else RNone
  end.

(* 2. line comment.  `prev.category != CC.Comment` compares a token code with
   a category code by integer value. *)
Definition comment_allowed (prev : option token) : bool :=
  match prev with
  | None => true
  | Some t => negb (N.eqb (Tables.tc_value (tcat t)) (Tables.cc_value CComment))
  end.

Definition rule_comment (prev : option token) (rest : list cchar) : rres :=
  match rest with
  | [] => RErr
  | c0 :: rest1 =>
    if is_cat CComment c0 && comment_allowed prev then
      let (body, rest2) := take_while (fun c => negb (is_cat CEndOfLine c)) rest1 in
      RTok (mkt (ch c0 :: chars_of body) (cpos c0) TComment) rest2
    else RNone
  end.

(* 3. $ and $$ *)
Definition rule_math_sym_switch (rest : list cchar) : rres :=
  match rest with
  | [] => RErr
  | c0 :: rest1 =>
    if is_cat CMathSwitch c0 then
      match rest1 with
      | c1 :: rest2 =>
        if is_cat CMathSwitch c1
        then RTok (mkt [ch c0; ch c1] (cpos c0) TDisplayMathSwitch) rest2
        else RTok (mkt [ch c0] (cpos c0) TMathSwitch) rest1
      | [] => RTok (mkt [ch c0] (cpos c0) TMathSwitch) rest1
      end
    else RNone
  end.

(* 4. \[ \] \( \) *)
Fixpoint lookup_asym (m : list ((cc * cc) * tc)) (a b : cc) : option tc :=
  match m with
  | [] => None
  | ((x, y), t) :: m' => if cc_beq a x && cc_beq b y then Some t else lookup_asym m' a b
  end.

Definition rule_math_asym_switch (rest : list cchar) : rres :=
  match rest with
  | c0 :: c1 :: rest2 =>
    match lookup_asym Tables.asym_map (ccat c0) (ccat c1) with
    | Some t => RTok (mkt [ch c0; ch c1] (cpos c0) t) rest2
    | None => RNone
    end
  | _ => RNone
  end.

(* 5. \\ (shadowed by rule 1 in the registered order, kept as written) *)
Definition rule_line_break (rest : list cchar) : rres :=
  match rest with
  | [] => RErr
  | c0 :: rest1 =>
    if is_cat CEscape c0 then
      match rest1 with
      | c1 :: rest2 =>
        if is_cat CEscape c1 then RTok (mkt [ch c0; ch c1] (cpos c0) TLineBreak) rest2 else RNone
      | [] => RNone
      end
    else RNone
  end.

(* 6. ignored / invalid characters are consumed without a token *)
Definition rule_ignore (rest : list cchar) : rres :=
  let (skipped, rest') := take_while (fun c => mem_cc (ccat c) Tables.ignore_cats) rest in
  match skipped with
  | [] => RNone
  | _ => RSkip rest'
  end.

(* 7. blanks [+ one line break [+ blanks]], rolled back before a letter/other *)
Definition rule_spacers (idx : Z) (rest : list cchar) : rres :=
  let (s1, r1) := take_while (is_cat CSpacer) rest in
  let '(e, r2) := match r1 with
                  | c :: r' => if is_cat CEndOfLine c then ([c], r') else ([], r1)
                  | [] => ([], r1)
                  end in
  let (s2, r3) := take_while (is_cat CSpacer) r2 in
  let consumed := s1 ++ e ++ s2 in
  match r3 with
  | c :: _ =>
    if mem_cc (ccat c) Tables.spacer_rollback_cats then RNone
    else match consumed with [] => RNone | _ => RTok (mk_tok consumed idx TMergedSpacer) r3 end
  | [] => match consumed with [] => RNone | _ => RTok (mk_tok consumed idx TMergedSpacer) r3 end
  end.

(* 8. single-character symbols *)
Fixpoint lookup_sym (m : list (cc * tc)) (a : cc) : option tc :=
  match m with
  | [] => None
  | (x, t) :: m' => if cc_beq a x then Some t else lookup_sym m' a
  end.

Definition rule_symbols (rest : list cchar) : rres :=
  match rest with
  | [] => RErr
  | c0 :: rest1 =>
    match lookup_sym Tables.symbols_map (ccat c0) with
    | Some t => RTok (mkt [ch c0] (cpos c0) t) rest1
    | None => RNone
    end
  end.

(* 9. sizing command + delimiter, first match over the table *)
Definition prev_is_escape (prevc : option cchar) : bool :=
  match prevc with Some p => is_cat CEscape p | None => false end.

Fixpoint find_point (points : list str) (s : str) : option str :=
  match points with
  | [] => None
  | p :: ps => if str_eqb (firstn (length p) s) p then Some p else find_point ps s
  end.

Definition rule_punctuation (points : list str) (prevc : option cchar) (rest : list cchar) : rres :=
  if prev_is_escape prevc then
    match find_point points (chars_of rest) with
    | Some p =>
      let k := length p in
      match firstn k rest with
      | c0 :: _ => RTok (mkt p (cpos c0) TPunctuationCommandName) (skipn k rest)
      | [] => RNone      (* only for an empty point; Token.Empty == '' *)
      end
    | None => RNone
    end
  else RNone.

(* 10. command name: a letter, then letters or '*' *)
Definition star : N := 42%N.

Definition rule_command_name (prevc : option cchar) (rest : list cchar) : rres :=
  if prev_is_escape prevc then
    match rest with
    | [] => RErr
    | c0 :: rest1 =>
      if is_cat CLetter c0 then
        let (more, rest2) :=
          take_while (fun c => is_cat CLetter c || N.eqb (ch c) star) rest1 in
        RTok (mkt (ch c0 :: chars_of more) (cpos c0) TCommandName) rest2
      else RNone
    end
  else RNone.

(* 11. text: everything up to a stop character; may be empty *)
Definition rule_string (idx : Z) (rest : list cchar) : rres :=
  let (body, rest') :=
    take_while (fun c => negb (mem_cc (ccat c) Tables.string_stop_cats)) rest in
  RTok (mk_tok body idx TText) rest'.

Record rctx := mkctx { cx_idx : Z; cx_prev : option token;
                       cx_prevc_punct : option cchar; cx_prevc_cmd : option cchar;
                       cx_points : list str }.

Definition run_rule (r : rule_id) (cx : rctx) (rest : list cchar) : rres :=
  match r with
  | R_escaped_symbols => rule_escaped_symbols rest
  | R_comment => rule_comment (cx_prev cx) rest
  | R_math_sym_switch => rule_math_sym_switch rest
  | R_math_asym_switch => rule_math_asym_switch rest
  | R_line_break => rule_line_break rest
  | R_ignore => rule_ignore rest
  | R_spacers => rule_spacers (cx_idx cx) rest
  | R_symbols => rule_symbols rest
  | R_punctuation_command_name => rule_punctuation (cx_points cx) (cx_prevc_punct cx) rest
  | R_command_name => rule_command_name (cx_prevc_cmd cx) rest
  | R_string => rule_string (cx_idx cx) rest
  end.

(* for name, f in tokenizers: first rule that returns a token, or that moved
   the cursor (then the round is restarted) *)
Fixpoint run_rules (rules : list rule_id) (cx : rctx) (rest : list cchar) : rres :=
  match rules with
  | [] => RNone
  | r :: rs =>
    match run_rule r cx rest with
    | RNone => run_rules rs cx rest
    | x => x
    end
  end.

(* peek(-1) at buffer index 0 is Python's queue[-1]: the last character
   materialised so far by look-ahead.  Rule 4's hasNext(2) has materialised two
   characters when rule 9 runs; rule 9, once it has seen an escape there,
   materialises max(len(point)) + 1 characters before rule 10 runs. *)
Definition max_point_len (points : list str) : nat :=
  fold_right (fun p m => Nat.max (length p) m) 0 points.

Definition start_prev_punct (cs : list cchar) : option cchar :=
  match cs with
  | _ :: c1 :: _ => Some c1
  | [c0] => Some c0
  | [] => None
  end.

Definition start_prev_cmd (points : list str) (cs : list cchar) : option cchar :=
  if prev_is_escape (start_prev_punct cs)
  then nth_error cs (Nat.min (length cs) (S (max_point_len points)) - 1)
  else start_prev_punct cs.

Inductive tok_end := TEnd | TEndErr | TEndHang | TEndFuel.

Definition last_consumed (rest rest' : list cchar) : option cchar :=
  nth_error rest (length rest - length rest' - 1).

Fixpoint tokenize_loop (fuel : nat) (points : list str) (idx : Z)
         (pp pc : option cchar) (prev : option token) (rest : list cchar)
  : list token * tok_end :=
  match fuel with
  | O => ([], TEndFuel)
  | S f =>
    match rest with
    | [] => ([], TEnd)
    | _ :: _ =>
      match run_rules Tables.rule_order (mkctx idx prev pp pc points) rest with
      | RTok t rest' =>
        let k := Z.of_nat (length rest - length rest') in
        let lc := last_consumed rest rest' in
        let (ts, e) := tokenize_loop f points (idx + k)%Z lc lc (Some t) rest' in
        (t :: ts, e)
      | RSkip rest' =>
        let k := Z.of_nat (length rest - length rest') in
        let lc := last_consumed rest rest' in
        tokenize_loop f points (idx + k)%Z lc lc prev rest'
      | RNone => ([], TEndHang)
      | RErr => ([], TEndErr)
      end
    end
  end.

Definition tokenize_with (points : list str) (cs : list cchar) : list token * tok_end :=
  tokenize_loop (S (length cs)) points 0%Z
                (start_prev_punct cs) (start_prev_cmd points cs) None cs.

Definition tokenize (cs : list cchar) : list token * tok_end :=
  tokenize_with Tables.punctuation_commands cs.

Definition tokens_of_string (s : str) : list token * tok_end := tokenize (categorize s).
