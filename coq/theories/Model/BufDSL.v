(* A small dynamically typed language for the method bodies of class Buffer
   (TexSoup/utils.py) AS WRITTEN, and its total interpreter.

   harness/gen_buffer.py reads the Python `ast` of utils.py on every run and
   writes every method of `Buffer` as a term of this language
   (Model/BufGen.v).  Proofs/BufGenProofs.v shows that interpreting those terms
   gives exactly the hand-written operations of Model/Buffer.v (the model all
   C20 proofs are about).  Trusted: (a) the translator maps each Python
   construct to the constructor named after it, (b) the interpreter below gives
   that construct the meaning it has in Python for the objects involved.  Both
   are syntax-directed; every semantic decision is listed here.

   ------------------------------------------------------------------ objects
   atoms / strings  The abstraction of Model/Buffer.v is kept: what the wrapped
       iterator yields is a sequence of ATOMS (Z); a string or Token is the list
       of the atoms it is made of.  An element of the buffer (`VItem x`) is a
       NON-EMPTY string of the single atom x (a character of a str-backed
       buffer, the text of a token of a token-backed one) that IS a Token;
       `VStr l` is any other string/Token (the joined result of a slice, '',
       an accumulator).  `VRaw x` is what the wrapped iterator yields for the
       atom x, a plain str or a Token: nothing may be done with it (OUnsup)
       except Token(raw, index), which makes it the VItem.
       Token.position and Token.category are NOT part of a value: `e.position`
       evaluates to the opaque `VPos`, which may only be passed on as the second
       argument of Token(...); any other use of it is OUnsup.
   self  one Buffer object = dstate: d_it  what the wrapped iterator still
       holds (self.__iterator), d_q the list self.__queue, d_i the int
       self.__i, and the three function attributes.  `conc` maps a state of
       the hand-written model (items, mat, cursor) to it: queue = firstn mat
       items, iterator = skipn mat items.
   values  None, bool, int, VItem, VStr, VList (a Python list of buffer
       elements: the queue or a slice of it; lists are only ever consumed on
       the spot -- the translator rejects any aliasing of self.__queue), VTup (a
       tuple of ints: the argument of peek((a, b))), VSlice lo hi (a slice
       object with step None and int-or-None bounds), VFn (Token.join, a closed
       lambda of the class source, or one of the caller's `condition`
       functions), VSelf, VPos, VIterable/VIter (the constructor argument and
       iter() of it), VBufObj it q i (ANOTHER Buffer object given as the
       constructor argument -- Buffer(tokenize(..)) wraps the Buffer that the
       to_buffer decorator returns: what its source iterator still holds, its
       queue and its cursor; its function attributes are the defaults).

   ---------------------------------------------------------------- semantics
   a + b     int + int; string + string (Token.__add__/__radd__/__iadd__ and
             str.__add__ all concatenate the texts).  Anything else OUnsup.
   a - b, -a ints only.
   < <= > >= ints only.   == / !=  None with None/int/bool/string, int with
             int, bool with bool, string with string (Token.__eq__ compares
             texts; so does the reflected comparison with a plain str).
             Other mixes OUnsup.
   x is None / x is not None   identity with the None singleton.
   not / and / or   Python value semantics: `a and b` is a if a is falsy else b
             (b not evaluated), `a or b` is a if a is truthy else b.
   bool(x), if, while   truthiness: None False; bool; int != 0; VItem True
             (elements are non-empty strings, as in Model/Buffer.v); string /
             list / tuple non-empty.  Other values OUnsup.
   a if c else b    c first, then only the chosen branch.
   isinstance(x, int)   True for int and bool (bool is a subclass of int; all
             arithmetic on a bool is then OUnsup), False otherwise.
   len(x)    string, list, tuple (a VItem has no modelled length: OUnsup).
   l[k]      list/tuple with int k: Python indexing, negative k counts from the
             end, out of range raises IndexError (Buffer.py_index).
             list with a slice: Buffer.py_slice (bounds clipped as by
             PySlice_AdjustIndices, step 1), never raises.
   self[x]   is type(self).__getitem__(self, x): a call of the translated
             method; self[a:b] passes slice(a, b), an omitted bound is None.
   next(self)  a call of the translated __next__.
   next(self.__iterator)  removes and returns the first element the iterator
             still holds (as a VRaw), StopIteration when there is none.
   iter(x), hasattr(x, '__iter__')   only for the constructor argument.  For a
             VIterable l: an iterator that yields l.  For another Buffer
             (VBufObj it q i, 0 <= i): Buffer.__iter__ returns the object
             itself and Buffer.__next__ then yields (q ++ it)[i:] one by one
             -- the contract of __next__ that C20gen_next proves of the
             translated method (next_raw) -- so iter(b) is an iterator that
             yields skipn i (q ++ it).  iter() of an iterator is that iterator.
   isinstance(x, Buffer)   True for self and for a VBufObj, False for the other
             values except an iterator (which may be a Buffer: OUnsup).
   x.__iterator, x.__i  (x not self; the names are mangled to _Buffer__..., so
             they mean the private attributes of ANOTHER Buffer)   for a
             VBufObj it q i: the iterator holding `it` / the int i; for a
             VIterable (a str, list, generator: no such attribute)
             AttributeError; else OUnsup.
   x.stop    the upper bound of a slice object; AttributeError for None, int,
             bool, tuple and strings.
   x.startswith(p) / x.endswith(p)   on strings: Buffer.is_prefix / is_suffix;
             on None AttributeError (what the code gets when peek returned
             None); else OUnsup.
   x.position  VPos for a string, AttributeError for None, else OUnsup.
   (a, b)    a tuple display whose elements evaluate (left to right) to ints;
             any other element is OUnsup.
   Token(a, b)  a string: a copy of it (VRaw becomes VItem, VItem stays VItem,
             VStr stays VStr); b may be an int, None or VPos and is dropped.
             Else OUnsup.
   self.__f  attribute read; self.__iterator may only occur under next(...).
   self.__f = e, self.__i += e, self.__i -= e   attribute write; the queue must
             receive a list, the cursor an int, the iterator an iter(...).
   self.__queue.append(e)   e must be a VItem (so a queue of raw elements,
             as MixedBuffer's init would build, is outside the fragment).
   f(args)   f must evaluate to a VFn:
             Token.join  on a list: the string of its atoms ('' for the empty
                         list -- the shared Token.Empty);
             a lambda    of the class source (c_lam): its body is evaluated with
                         the arguments as the only locals;
             FCond k     the caller's condition, the family of Model/Buffer.v:
                         k >= 0 is `lambda x: x == <atom k>`, k < 0 is
                         `lambda x: x != <atom -k>`, defined on a VItem and on
                         None (Buffer.pred / pred_none); else OUnsup.
   self.m(args)  positional arguments only; missing trailing arguments take the
             method's default (a constant); wrong arity is OUnsup (TypeError is
             not an exception the result type can express).
   x, y = a, b   both right-hand sides are evaluated, left to right, then
             bound.   x += e  is x = x + e (no in-place mutation: strings/ints).
   assert e[, msg]   AssertionError when e is falsy; msg (translator: a
             constant or constant % attribute) is not evaluated.
   try: B except E: H   an exception E raised in B is handled by H, which
             starts from the locals at ENTRY of the try: the translator accepts
             an assignment to a local inside B only when H does not mention
             that local and always returns (so the difference cannot be
             observed).  Other exceptions propagate.
   while / break / return / if   as in Python (no while-else).
   a def that falls off its end returns None.
   reading an unbound local is OUnsup.

   Exceptions are those of Model/Buffer.v (StopIteration, IndexError,
   AssertionError, AttributeError); they carry the state of self at the raise.
   Every other Python error (TypeError, ...) is OUnsup: never a normal-looking
   value.  Loops run on fuel `loop_fuel` computed from the state at loop entry;
   calls nest at most `call_depth` deep; exhausting either is OFuel.  The
   connecting theorems state `ODone`, so they also prove neither happens. *)
From Coq Require Import List ZArith Bool.
From TexModel Require Import Buffer.
Import ListNotations.
Open Scope Z_scope.

(* ------------------------------------------------------------------ values *)

Inductive fn := FTokenJoin | FLam (k : nat) | FCond (k : Z).

Inductive value :=
| VNone
| VBool (b : bool)
| VInt (z : Z)
| VRaw (x : Z)
| VItem (x : Z)
| VStr (l : list Z)
| VList (l : list Z)
| VTup (l : list Z)
| VSlice (lo hi : option Z)
| VFn (f : fn)
| VSelf
| VPos
| VIterable (l : list Z)
| VIter (l : list Z)
| VBufObj (it q : list Z) (i : Z).

Record dstate := mkD { d_it : list Z; d_q : list Z; d_i : Z;
                       d_join : value; d_init : value; d_empty : value }.

(* ------------------------------------------------------------------ syntax *)

Inductive fld := F_iterator | F_queue | F_i | F_join | F_init | F_empty.

Inductive meth :=
| M_init | M_hasNext | M_startswith | M_endswith | M_forward | M_num_forward_until
| M_forward_until | M_backward | M_peek | M_next | M_getitem | M_iter | M_position.

Inductive cmpop := CLt | CLe | CGt | CGe | CEq | CNe.

Inductive expr :=
| ENone
| EBool (b : bool)
| EInt (z : Z)
| EEmptyStr                          (* '' *)
| EEmptyList                         (* [] *)
| ESelf
| EVar (x : nat)                     (* parameters 0.., then locals in order of first binding *)
| EField (f : fld)                   (* self.__f *)
| ETokenJoin                         (* Token.join *)
| ELam (k : nat)                     (* the k-th lambda of the class source *)
| ENeg (a : expr)
| EAdd (a b : expr)
| ESub (a b : expr)
| ECmp (o : cmpop) (a b : expr)
| EIsNone (a : expr)                 (* a is None;  `a is not None` is ENot (EIsNone a) *)
| ENot (a : expr)
| EAnd (a b : expr)
| EOr (a b : expr)
| EIfExp (c a b : expr)              (* a if c else b *)
| EIsInt (a : expr)                  (* isinstance(a, int) *)
| EBoolOf (a : expr)                 (* bool(a) *)
| ELen (a : expr)
| ENextField (f : fld)               (* next(self.__f) *)
| EIter (a : expr)
| EHasIter (a : expr)                (* hasattr(a, '__iter__') *)
| EIsBuffer (a : expr)               (* isinstance(a, Buffer) *)
| EOtherField (a : expr) (f : fld)   (* a.__f, a not self *)
| EIndex (a i : expr)                (* a[i], a not self *)
| ESliceObj (lo hi : expr)           (* slice(lo, hi) as written lo:hi; omitted = ENone *)
| EStop (a : expr)                   (* a.stop *)
| EPosition (a : expr)               (* a.position, a not self *)
| EStartswith (a p : expr)
| EEndswith (a p : expr)
| EToken (a b : expr)                (* Token(a, b) *)
| ETuple (xs : args)                 (* (a, b, ...) *)
| ECallMeth (m : meth) (xs : args)   (* self.m(xs); self[x]; next(self) *)
| ECallVal (f : expr) (xs : args)    (* f(xs) *)
with args :=
| ANil
| ACons (e : expr) (xs : args).

Fixpoint args_of (l : list expr) : args :=
  match l with
  | [] => ANil
  | e :: l' => ACons e (args_of l')
  end.

Inductive augop := AugAdd | AugSub.

Inductive stmt :=
| SExpr (e : expr)
| SAssign (xs : list nat) (es : args)      (* x = e;  x, y = a, b *)
| SAugVar (x : nat) (o : augop) (e : expr) (* x += e *)
| SSetField (f : fld) (e : expr)           (* self.__f = e *)
| SAugField (f : fld) (o : augop) (e : expr)
| SAppend (f : fld) (e : expr)             (* self.__f.append(e) *)
| SAssert (e : expr)
| SReturn (e : expr)
| SBreak
| SIf (c : expr) (a b : block)
| SWhile (c : expr) (b : block)
| STry (b : block) (e : exn) (h : block)
with block :=
| BNil
| BCons (s : stmt) (b : block).

Fixpoint blk (l : list stmt) : block :=
  match l with
  | [] => BNil
  | s :: l' => BCons s (blk l')
  end.

(* one method: a default (or None) per parameter after self, and the body *)
Record mdef := mkM { m_params : list (option value); m_body : block }.

(* the class as generated: its methods and its (closed) lambdas: arity, body *)
Record cls := mkC { c_meth : meth -> mdef; c_lam : nat -> option (nat * expr) }.

(* ----------------------------------------------------------------- results *)

Inductive rv := RVal (v : value) | RExc (e : exn).

Inductive outcome :=
| ODone (d : dstate) (r : rv)
| OUnsup
| OFuel.

Inductive eres :=
| EV (v : value) (d : dstate)
| EX (e : exn) (d : dstate)
| EUnsup
| EFuel.

Inductive ares :=
| AV (vs : list value) (d : dstate)
| AX (e : exn) (d : dstate)
| AUnsup
| AFuel.

Definition env := list (option value).

Inductive xres :=
| XNormal (en : env) (d : dstate)
| XReturn (v : value) (d : dstate)
| XBreak (en : env) (d : dstate)
| XExc (e : exn) (d : dstate)
| XUnsup
| XFuel.

Inductive callee := CMeth (m : meth) | CFn (f : fn).

Definition callfn := callee -> list value -> dstate -> outcome.

(* ------------------------------------------------------- value operations *)

Definition nonempty {A} (l : list A) : bool :=
  match l with [] => false | _ :: _ => true end.

Definition text_of (v : value) : option (list Z) :=
  match v with
  | VItem x => Some [x]
  | VStr l => Some l
  | _ => None
  end.

Definition truthy (v : value) : option bool :=
  match v with
  | VNone => Some false
  | VBool b => Some b
  | VInt z => Some (negb (z =? 0))
  | VItem _ => Some true
  | VStr l => Some (nonempty l)
  | VList l => Some (nonempty l)
  | VTup l => Some (nonempty l)
  | _ => None
  end.

Definition py_add (a b : value) : option value :=
  match a, b with
  | VInt x, VInt y => Some (VInt (x + y))
  | _, _ =>
    match text_of a, text_of b with
    | Some x, Some y => Some (VStr (x ++ y))
    | _, _ => None
    end
  end.

Definition py_sub (a b : value) : option value :=
  match a, b with
  | VInt x, VInt y => Some (VInt (x - y))
  | _, _ => None
  end.

Definition is_simple (v : value) : bool :=
  match v with
  | VNone | VBool _ | VInt _ | VItem _ | VStr _ => true
  | _ => false
  end.

Definition py_eq (a b : value) : option bool :=
  match a, b with
  | VNone, VNone => Some true
  | VNone, _ => if is_simple b then Some false else None
  | _, VNone => if is_simple a then Some false else None
  | VInt x, VInt y => Some (x =? y)
  | VBool x, VBool y => Some (Bool.eqb x y)
  | _, _ =>
    match text_of a, text_of b with
    | Some x, Some y => Some (list_eqb x y)
    | _, _ => None
    end
  end.

Definition py_cmp (o : cmpop) (a b : value) : option bool :=
  match o with
  | CEq => py_eq a b
  | CNe => option_map negb (py_eq a b)
  | _ =>
    match a, b with
    | VInt x, VInt y =>
      Some (match o with
            | CLt => x <? y | CLe => x <=? y | CGt => y <? x | _ => y <=? x
            end)
    | _, _ => None
    end
  end.

(* the hand-written model's results as values, and back *)
Definition of_out (o : out) : rv :=
  match o with
  | OItem x => RVal (VItem x)
  | ONone => RVal VNone
  | OItems l => RVal (VStr l)
  | OBool b => RVal (VBool b)
  | OInt z => RVal (VInt z)
  | OExc e => RExc e
  end.

Definition to_out (r : rv) : option out :=
  match r with
  | RVal (VItem x) => Some (OItem x)
  | RVal VNone => Some ONone
  | RVal (VStr l) => Some (OItems l)
  | RVal (VBool b) => Some (OBool b)
  | RVal (VInt z) => Some (OInt z)
  | RVal _ => None
  | RExc e => Some (OExc e)
  end.

Definition bound_of (v : value) : option (option Z) :=
  match v with
  | VNone => Some None
  | VInt z => Some (Some z)
  | _ => None
  end.

(* a[i] *)
Definition py_getitem (a i : value) : option rv :=
  match a, i with
  | VList l, VInt k => Some (of_out (py_index l k))
  | VList l, VSlice lo hi => Some (RVal (VList (py_slice l lo hi)))
  | VTup l, VInt k =>
    Some (match py_index l k with
          | OItem x => RVal (VInt x)
          | _ => RExc IndexError
          end)
  | _, _ => None
  end.

(* a tuple display: only tuples of ints are values of this language *)
Fixpoint ints_of (vs : list value) : option (list Z) :=
  match vs with
  | [] => Some []
  | VInt z :: r => option_map (cons z) (ints_of r)
  | _ :: _ => None
  end.

Definition py_len (v : value) : option Z :=
  match v with
  | VStr l => Some (Z.of_nat (length l))
  | VList l => Some (Z.of_nat (length l))
  | VTup l => Some (Z.of_nat (length l))
  | _ => None
  end.

(* a.stop *)
Definition py_stop (v : value) : option rv :=
  match v with
  | VSlice _ (Some h) => Some (RVal (VInt h))
  | VSlice _ None => Some (RVal VNone)
  | VNone | VBool _ | VInt _ | VTup _ | VItem _ | VStr _ => Some (RExc AttributeError)
  | _ => None
  end.

Definition py_strtest (suffix : bool) (a p : value) : option rv :=
  match a with
  | VNone => Some (RExc AttributeError)
  | _ =>
    match text_of a, text_of p with
    | Some l, Some q => Some (RVal (VBool (if suffix then is_suffix q l else is_prefix q l)))
    | _, _ => None
    end
  end.

Definition py_token (a b : value) : option value :=
  match b with
  | VInt _ | VNone | VPos =>
    match a with
    | VRaw x => Some (VItem x)
    | VItem x => Some (VItem x)
    | VStr l => Some (VStr l)
    | _ => None
    end
  | _ => None
  end.

Definition get_field (f : fld) (d : dstate) : option value :=
  match f with
  | F_iterator => None
  | F_queue => Some (VList (d_q d))
  | F_i => Some (VInt (d_i d))
  | F_join => Some (d_join d)
  | F_init => Some (d_init d)
  | F_empty => Some (d_empty d)
  end.

Definition set_field (f : fld) (v : value) (d : dstate) : option dstate :=
  match f, v with
  | F_iterator, VIter l => Some (mkD l (d_q d) (d_i d) (d_join d) (d_init d) (d_empty d))
  | F_queue, VList l => Some (mkD (d_it d) l (d_i d) (d_join d) (d_init d) (d_empty d))
  | F_i, VInt z => Some (mkD (d_it d) (d_q d) z (d_join d) (d_init d) (d_empty d))
  | F_join, _ => Some (mkD (d_it d) (d_q d) (d_i d) v (d_init d) (d_empty d))
  | F_init, _ => Some (mkD (d_it d) (d_q d) (d_i d) (d_join d) v (d_empty d))
  | F_empty, _ => Some (mkD (d_it d) (d_q d) (d_i d) (d_join d) (d_init d) v)
  | _, _ => None
  end.

Definition aug (o : augop) (a b : value) : option value :=
  match o with
  | AugAdd => py_add a b
  | AugSub => py_sub a b
  end.

Definition lookup (en : env) (x : nat) : option value :=
  match nth_error en x with
  | Some (Some v) => Some v
  | _ => None
  end.

Fixpoint set_var (en : env) (x : nat) (v : value) : env :=
  match x, en with
  | O, [] => [Some v]
  | O, _ :: r => Some v :: r
  | S x', [] => None :: set_var [] x' v
  | S x', a :: r => a :: set_var r x' v
  end.

Fixpoint set_vars (en : env) (xs : list nat) (vs : list value) : option env :=
  match xs, vs with
  | [], [] => Some en
  | x :: xs', v :: vs' => set_vars (set_var en x v) xs' vs'
  | _, _ => None
  end.

(* positional arguments against the parameter list; defaults fill the tail *)
Fixpoint bind_params (ps : list (option value)) (vs : list value) : option env :=
  match ps, vs with
  | [], [] => Some []
  | [], _ :: _ => None
  | _ :: ps', v :: vs' => option_map (cons (Some v)) (bind_params ps' vs')
  | Some dv :: ps', [] => option_map (cons (Some dv)) (bind_params ps' [])
  | None :: _, [] => None
  end.

(* ------------------------------------------------------------- expressions *)

Definition lift_rv (o : option rv) (d : dstate) : eres :=
  match o with
  | Some (RVal v) => EV v d
  | Some (RExc e) => EX e d
  | None => EUnsup
  end.

Definition lift_v (o : option value) (d : dstate) : eres :=
  match o with
  | Some v => EV v d
  | None => EUnsup
  end.

Definition of_outcome (o : outcome) : eres :=
  match o with
  | ODone d (RVal v) => EV v d
  | ODone d (RExc e) => EX e d
  | OUnsup => EUnsup
  | OFuel => EFuel
  end.

Section Interp.
Variable callf : callfn.

Fixpoint eval (e : expr) (en : env) (d : dstate) {struct e} : eres :=
  let un (a : expr) (k : value -> dstate -> eres) : eres :=
    match eval a en d with
    | EV v d1 => k v d1
    | x => x
    end in
  let bin (a b : expr) (k : value -> value -> dstate -> eres) : eres :=
    match eval a en d with
    | EV v1 d1 =>
      match eval b en d1 with
      | EV v2 d2 => k v1 v2 d2
      | x => x
      end
    | x => x
    end in
  match e with
  | ENone => EV VNone d
  | EBool b => EV (VBool b) d
  | EInt z => EV (VInt z) d
  | EEmptyStr => EV (VStr []) d
  | EEmptyList => EV (VList []) d
  | ESelf => EV VSelf d
  | EVar x => lift_v (lookup en x) d
  | EField f => lift_v (get_field f d) d
  | ETokenJoin => EV (VFn FTokenJoin) d
  | ELam k => EV (VFn (FLam k)) d
  | ENeg a => un a (fun v d1 => lift_v (py_sub (VInt 0) v) d1)
  | EAdd a b => bin a b (fun v1 v2 d2 => lift_v (py_add v1 v2) d2)
  | ESub a b => bin a b (fun v1 v2 d2 => lift_v (py_sub v1 v2) d2)
  | ECmp o a b => bin a b (fun v1 v2 d2 => lift_v (option_map VBool (py_cmp o v1 v2)) d2)
  | EIsNone a => un a (fun v d1 => EV (VBool (match v with VNone => true | _ => false end)) d1)
  | ENot a => un a (fun v d1 => lift_v (option_map (fun b => VBool (negb b)) (truthy v)) d1)
  | EAnd a b =>
    un a (fun v d1 =>
      match truthy v with
      | Some true => eval b en d1
      | Some false => EV v d1
      | None => EUnsup
      end)
  | EOr a b =>
    un a (fun v d1 =>
      match truthy v with
      | Some true => EV v d1
      | Some false => eval b en d1
      | None => EUnsup
      end)
  | EIfExp c a b =>
    un c (fun v d1 =>
      match truthy v with
      | Some true => eval a en d1
      | Some false => eval b en d1
      | None => EUnsup
      end)
  | EIsInt a =>
    un a (fun v d1 => EV (VBool (match v with VInt _ | VBool _ => true | _ => false end)) d1)
  | EBoolOf a => un a (fun v d1 => lift_v (option_map VBool (truthy v)) d1)
  | ELen a => un a (fun v d1 => lift_v (option_map VInt (py_len v)) d1)
  | ENextField f =>
    match f with
    | F_iterator =>
      match d_it d with
      | x :: r => EV (VRaw x) (mkD r (d_q d) (d_i d) (d_join d) (d_init d) (d_empty d))
      | [] => EX StopIteration d
      end
    | _ => EUnsup
    end
  | EIter a =>
    un a (fun v d1 =>
      match v with
      | VIterable l => EV (VIter l) d1
      | VIter l => EV (VIter l) d1
      | VBufObj it q i =>
        if 0 <=? i then EV (VIter (skipn (Z.to_nat i) (q ++ it))) d1 else EUnsup
      | _ => EUnsup
      end)
  | EHasIter a =>
    un a (fun v d1 =>
      match v with
      | VIterable _ | VBufObj _ _ _ => EV (VBool true) d1
      | _ => EUnsup
      end)
  | EIsBuffer a =>
    un a (fun v d1 =>
      match v with
      | VSelf | VBufObj _ _ _ => EV (VBool true) d1
      | VIter _ => EUnsup
      | _ => EV (VBool false) d1
      end)
  | EOtherField a f =>
    un a (fun v d1 =>
      match v, f with
      | VBufObj it _ _, F_iterator => EV (VIter it) d1
      | VBufObj _ _ i, F_i => EV (VInt i) d1
      | VIterable _, _ => EX AttributeError d1
      | _, _ => EUnsup
      end)
  | EIndex a i => bin a i (fun v1 v2 d2 => lift_rv (py_getitem v1 v2) d2)
  | ESliceObj lo hi =>
    bin lo hi (fun v1 v2 d2 =>
      match bound_of v1, bound_of v2 with
      | Some l, Some h => EV (VSlice l h) d2
      | _, _ => EUnsup
      end)
  | EStop a => un a (fun v d1 => lift_rv (py_stop v) d1)
  | EPosition a =>
    un a (fun v d1 =>
      match v with
      | VItem _ | VStr _ => EV VPos d1
      | VNone => EX AttributeError d1
      | _ => EUnsup
      end)
  | EStartswith a p => bin a p (fun v1 v2 d2 => lift_rv (py_strtest false v1 v2) d2)
  | EEndswith a p => bin a p (fun v1 v2 d2 => lift_rv (py_strtest true v1 v2) d2)
  | EToken a b => bin a b (fun v1 v2 d2 => lift_v (py_token v1 v2) d2)
  | ETuple xs =>
    match eval_args xs en d with
    | AV vs d1 => lift_v (option_map VTup (ints_of vs)) d1
    | AX e d1 => EX e d1
    | AUnsup => EUnsup
    | AFuel => EFuel
    end
  | ECallMeth m xs =>
    match eval_args xs en d with
    | AV vs d1 => of_outcome (callf (CMeth m) vs d1)
    | AX e d1 => EX e d1
    | AUnsup => EUnsup
    | AFuel => EFuel
    end
  | ECallVal f xs =>
    (* the callee expression is evaluated before the arguments *)
    match eval f en d with
    | EV (VFn g) d1 =>
      match eval_args xs en d1 with
      | AV vs d2 => of_outcome (callf (CFn g) vs d2)
      | AX e d2 => EX e d2
      | AUnsup => EUnsup
      | AFuel => EFuel
      end
    | EV _ _ => EUnsup
    | x => x
    end
  end
with eval_args (xs : args) (en : env) (d : dstate) {struct xs} : ares :=
  match xs with
  | ANil => AV [] d
  | ACons e xs' =>
    match eval e en d with
    | EV v d1 =>
      match eval_args xs' en d1 with
      | AV vs d2 => AV (v :: vs) d2
      | x => x
      end
    | EX x d1 => AX x d1
    | EUnsup => AUnsup
    | EFuel => AFuel
    end
  end.

(* -------------------------------------------------------------- statements *)

Fixpoint while_loop (ev : env -> dstate -> eres) (body : env -> dstate -> xres)
         (fuel : nat) (en : env) (d : dstate) : xres :=
  match fuel with
  | O => XFuel
  | S f =>
    match ev en d with
    | EV v d1 =>
      match truthy v with
      | Some true =>
        match body en d1 with
        | XNormal en2 d2 => while_loop ev body f en2 d2
        | XBreak en2 d2 => XNormal en2 d2
        | x => x
        end
      | Some false => XNormal en d1
      | None => XUnsup
      end
    | EX e d1 => XExc e d1
    | EUnsup => XUnsup
    | EFuel => XFuel
    end
  end.

(* enough for every loop of the class on every state (proved, not assumed:
   the theorems state ODone) *)
Definition loop_fuel (d : dstate) : nat :=
  (2 + length (d_q d) + length (d_it d) + Z.to_nat (- d_i d))%nat.

Definition exn_eqb (a b : exn) : bool :=
  match a, b with
  | StopIteration, StopIteration | IndexError, IndexError
  | AssertionError, AssertionError | AttributeError, AttributeError
  | OutOfFuel, OutOfFuel => true
  | _, _ => false
  end.

Fixpoint exec_stmt (s : stmt) (en : env) (d : dstate) {struct s} : xres :=
  match s with
  | SExpr e =>
    match eval e en d with
    | EV _ d1 => XNormal en d1
    | EX x d1 => XExc x d1
    | EUnsup => XUnsup
    | EFuel => XFuel
    end
  | SAssign xs es =>
    match eval_args es en d with
    | AV vs d1 =>
      match set_vars en xs vs with
      | Some en' => XNormal en' d1
      | None => XUnsup
      end
    | AX x d1 => XExc x d1
    | AUnsup => XUnsup
    | AFuel => XFuel
    end
  | SAugVar x o e =>
    match lookup en x with
    | None => XUnsup
    | Some v0 =>
      match eval e en d with
      | EV v d1 =>
        match aug o v0 v with
        | Some v' => XNormal (set_var en x v') d1
        | None => XUnsup
        end
      | EX x' d1 => XExc x' d1
      | EUnsup => XUnsup
      | EFuel => XFuel
      end
    end
  | SSetField f e =>
    match eval e en d with
    | EV v d1 =>
      match set_field f v d1 with
      | Some d2 => XNormal en d2
      | None => XUnsup
      end
    | EX x d1 => XExc x d1
    | EUnsup => XUnsup
    | EFuel => XFuel
    end
  | SAugField f o e =>
    (* self.__f is read, then e is evaluated, then the attribute is written *)
    match get_field f d with
    | None => XUnsup
    | Some v0 =>
      match eval e en d with
      | EV v d1 =>
        match aug o v0 v with
        | Some v' =>
          match set_field f v' d1 with
          | Some d2 => XNormal en d2
          | None => XUnsup
          end
        | None => XUnsup
        end
      | EX x d1 => XExc x d1
      | EUnsup => XUnsup
      | EFuel => XFuel
      end
    end
  | SAppend f e =>
    match f with
    | F_queue =>
      match eval e en d with
      | EV (VItem x) d1 =>
        XNormal en (mkD (d_it d1) (d_q d1 ++ [x]) (d_i d1) (d_join d1) (d_init d1) (d_empty d1))
      | EV _ _ => XUnsup
      | EX x d1 => XExc x d1
      | EUnsup => XUnsup
      | EFuel => XFuel
      end
    | _ => XUnsup
    end
  | SAssert e =>
    match eval e en d with
    | EV v d1 =>
      match truthy v with
      | Some true => XNormal en d1
      | Some false => XExc AssertionError d1
      | None => XUnsup
      end
    | EX x d1 => XExc x d1
    | EUnsup => XUnsup
    | EFuel => XFuel
    end
  | SReturn e =>
    match eval e en d with
    | EV v d1 => XReturn v d1
    | EX x d1 => XExc x d1
    | EUnsup => XUnsup
    | EFuel => XFuel
    end
  | SBreak => XBreak en d
  | SIf c a b =>
    match eval c en d with
    | EV v d1 =>
      match truthy v with
      | Some true => exec_block a en d1
      | Some false => exec_block b en d1
      | None => XUnsup
      end
    | EX x d1 => XExc x d1
    | EUnsup => XUnsup
    | EFuel => XFuel
    end
  | SWhile c b => while_loop (eval c) (exec_block b) (loop_fuel d) en d
  | STry b x h =>
    match exec_block b en d with
    | XExc x' d1 => if exn_eqb x x' then exec_block h en d1 else XExc x' d1
    | r => r
    end
  end
with exec_block (b : block) (en : env) (d : dstate) {struct b} : xres :=
  match b with
  | BNil => XNormal en d
  | BCons s b' =>
    match exec_stmt s en d with
    | XNormal en' d' => exec_block b' en' d'
    | x => x
    end
  end.

End Interp.

(* ------------------------------------------------------------------- calls *)

Definition finish (x : xres) : outcome :=
  match x with
  | XNormal _ d => ODone d (RVal VNone)
  | XReturn v d => ODone d (RVal v)
  | XExc e d => ODone d (RExc e)
  | XBreak _ _ => OUnsup
  | XUnsup => OUnsup
  | XFuel => OFuel
  end.

Definition to_outcome (r : eres) : outcome :=
  match r with
  | EV v d => ODone d (RVal v)
  | EX e d => ODone d (RExc e)
  | EUnsup => OUnsup
  | EFuel => OFuel
  end.

(* the caller's `condition` functions: Model/Buffer.v's family *)
Definition cond_value (k : Z) (v : value) : option bool :=
  match v with
  | VItem x => Some (pred k x)
  | VNone => Some (pred_none k)
  | _ => None
  end.

Definition call_body (c : cls) (callf : callfn) (ce : callee) (vs : list value) (d : dstate)
  : outcome :=
  match ce with
  | CMeth m =>
    match bind_params (m_params (c_meth c m)) vs with
    | Some en => finish (exec_block callf (m_body (c_meth c m)) en d)
    | None => OUnsup
    end
  | CFn FTokenJoin =>
    match vs with
    | [VList l] => ODone d (RVal (VStr l))
    | _ => OUnsup
    end
  | CFn (FLam k) =>
    match c_lam c k with
    | Some (np, body) =>
      if Nat.eqb (length vs) np then to_outcome (eval callf body (map Some vs) d) else OUnsup
    | None => OUnsup
    end
  | CFn (FCond k) =>
    match vs with
    | [v] =>
      match cond_value k v with
      | Some b => ODone d (RVal (VBool b))
      | None => OUnsup
      end
    | _ => OUnsup
    end
  end.

Fixpoint call (n : nat) (c : cls) (ce : callee) (vs : list value) (d : dstate) : outcome :=
  match n with
  | O => OFuel
  | S n' => call_body c (call n' c) ce vs d
  end.

Definition call_depth : nat := 8.

Definition run_meth (c : cls) (m : meth) (vs : list value) (d : dstate) : outcome :=
  call call_depth c (CMeth m) vs d.

(* ------------------------------------- the hand-written model's vocabulary *)

(* a state of Model/Buffer.v as the object it stands for; fj fi fe are the
   attributes __join, __init, __empty *)
Definition conc (fj fi fe : value) (s : state) : dstate :=
  mkD (skipn (mat s) (items s)) (firstn (mat s) (items s)) (cursor s) fj fi fe.

(* the same object as a constructor argument of ANOTHER Buffer: Buffer(b) *)
Definition buf_arg (s : state) : value :=
  VBufObj (skipn (mat s) (items s)) (firstn (mat s) (items s)) (cursor s).

(* an object on which no attribute has been set yet (the translator checks
   that __init__ reads no attribute of self) *)
Definition blank : dstate := mkD [] [] 0 VNone VNone VNone.

(* Model/Buffer.v's operations as calls of the generated methods *)
Definition gen_step (c : cls) (d : dstate) (o : op) : outcome :=
  match o with
  | Next => run_meth c M_next [] d
  | HasNext n => run_meth c M_hasNext [VInt n] d
  | Peek j => run_meth c M_peek [VInt j] d
  | PeekR a b => run_meth c M_peek [VTup [a; b]] d
  | Forward j => run_meth c M_forward [VInt j] d
  | Backward j => run_meth c M_backward [VInt j] d
  | Slice lo hi => run_meth c M_getitem [VSlice lo hi] d
  | Getitem k => run_meth c M_getitem [VInt k] d
  | Startswith p => run_meth c M_startswith [VStr p] d
  | Endswith p => run_meth c M_endswith [VStr p] d
  | ForwardUntil k => run_meth c M_forward_until [VFn (FCond k)] d
  | NumForwardUntil k => run_meth c M_num_forward_until [VFn (FCond k)] d
  | Position => run_meth c M_position [] d
  end.

(* outputs and cursor after every operation, as Buffer.run_ops; None as soon
   as a call leaves the fragment, runs out of fuel or returns something the
   hand-written result type cannot express *)
Fixpoint gen_run (c : cls) (d : dstate) (ops : list op) : option (list (out * Z)) :=
  match ops with
  | [] => Some []
  | o :: r =>
    match gen_step c d o with
    | ODone d' x =>
      match to_out x, gen_run c d' r with
      | Some y, Some rest => Some ((y, d_i d') :: rest)
      | _, _ => None
      end
    | _ => None
    end
  end.

(* Buffer(l) followed by ops *)
Definition gen_session (c : cls) (l : list Z) (ops : list op) : option (list (out * Z)) :=
  match run_meth c M_init [VIterable l] blank with
  | ODone d (RVal VNone) => gen_run c d ops
  | _ => None
  end.
