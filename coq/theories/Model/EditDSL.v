(* A small dynamically typed object language for the bodies of the EDITING methods
   of TexSoup/data.py AS WRITTEN, and its total interpreter.

   harness/gen_edit.py reads the Python `ast` of data.py on every run and writes the
   bodies of
     TexExpr.append / insert / remove / _supports_contents / _assert_supports_contents,
     TexCmd._supports_contents / _assert_supports_contents,
     TexNode.append / insert / remove / delete / replace / replace_with / copy,
     the serialisers  TexEnv.__str__  TexCmd.__str__  TexText.__str__  TexArgs.__str__
       TexNode.__str__  and the properties  TexEnv.begin/end  TexNamedEnv.begin/end,
     the setters TexNode.name / args / string / contents, TexExpr.string / contents,
     the forwarding getters TexNode.name / args
   as terms of this language (Model/EditGen.v, a table class -> member -> body);
   Proofs/EditGenProofs.v proves that interpreting them gives exactly the hand-written
   operations of Model/Edit.v and the serialiser `estr` of Model/Tree.v.

   TRUSTED: the translator maps each Python construct to the constructor named after
   it; the interpreter below gives the constructor the meaning the construct has in
   Python.  Every semantic decision:

   objects   The Python heap is represented as Edit.v represents it: ONE immutable tree
             `root : Tree.expr`; an object that is part of the tree IS its position
             (Edit.path from the root, through argument indices SArg and raw `_contents`
             indices SBody).  `RIn p ep` is the object at path p; `ROut e` is an object
             that is not part of the tree (fresh material), given by value.  This is
             exact when no TexExpr object occurs twice in the tree and material is
             fresh (the stipulation of C05/C14/C15, and of Edit.v).  Plain `str`
             objects MAY be shared, so identity between two non-TexExpr objects is not
             decided (OUnsup).
   staleness A mutation of the raw list (or of the argument list) of the object at hp
             shifts the positions below it.  The state keeps the log `muts` of such
             mutations; a reference remembers the length of the log when it was made
             (`ep`); `deref` answers only if no later entry MBody hp (MArgs hp) is such
             that the path continues from hp with a contents (argument) step --
             conservatively: ANY later change of a list makes every object reached
             through that list stale.  A stale reference is OUnsup, never the object that
             now happens to sit at the old position.
   TexNode   wrappers are mutable records (.expr, .parent) with identity: `VNode k` is
             entry k of the store `nodes`.  .parent is PNone (None), PNode j, or
             PUnknown (reading it is OUnsup).  TexNode(e) allocates (e, PNone) and
             asserts isinstance(e, TexExpr) [source of __init__ pinned by the
             translator]; bool(node) is True [the translator checks that TexNode
             defines neither __bool__ nor __len__].
   classes   The run-time class of a value is read off the tree constructor (ECmd:
             TexCmd, ENamed: TexNamedEnv, EMath: the four math classes, EGroup:
             BraceGroup/BracketGroup, ERoot: TexEnv, EText: TexText, ERaw: Token, EStr:
             str).  `mro` and `isinstance` encode the class hierarchy; the translator
             checks the `class C(Base)` headers against it.  A method call obj.m(...),
             an attribute read obj.a and an attribute store obj.a = v look the member
             (method / property getter / property setter) up along the mro in the
             GENERATED table, so an override added in a subclass is either translated
             and used, or the translation fails; `begin`/`end`/`name` of the delimiter
             classes are class attributes (Tables.v, regenerated).  An attribute that
             no class defines as a property is a field of the tree (name, args,
             _contents, _text, _begin/_end of the root = '' [tex.py pinned]) or of the
             store (expr, parent).  TexExpr.parent is written, never read [checked by
             the translator]: writing it is a no-op.  Storing `name` renames a TexCmd /
             TexNamedEnv (Edit.rename; elsewhere the model has no such field: OUnsup).
             Storing `args` accepts a new TexArgs made of argument objects of this very
             expression, each at most once (Edit.reargs; anything else would share or
             import objects: OUnsup).
   views     obj.contents (TexExpr.contents over TexExpr.all; TexNode.contents) is
             the hand model's Edit.cview, with positions; the Python source of the
             three properties is pinned by the translator.  Text items come out as
             str values (`content._text`).  TexNode.contents allocates a wrapper
             (parent = the node) for every TexExpr item.
   lists     self._contents / self.args evaluate to the LIVE list object (VBody /
             VArgs).  list.extend / insert (index normalised as CPython does:
             Edit.norm_index) / index / `del l[i]` / `in` / len / bool / l[i] /
             iteration with CPython's semantics (l[i] on a TexArgs: TexArgs.__getitem__
             is pinned; C18gen_getitem_int proves it is list indexing for an int);
             list(x), [a, b], + build fresh lists.  `x in l` and l.index(x) test
             `c is x or c == x` for each element c in order (`in` on a TexArgs is its
             own __contains__: OUnsup).  Iterating a live list takes a snapshot; if an
             iteration of a `for` that runs to its end (no return / raise) has changed
             that very list, the loop is OUnsup (CPython iterates by index and re-reads
             the length).  Only a str or a fresh TexExpr may enter a raw list (an
             object already in the tree would occur twice: OUnsup).
   TexText(x) x a str, or a TexText (which is a str): a fresh text whose str() is x
             (Edit.text_of; Edit.v explains why the nesting TexText(TexText(s)) cannot
             be told from TexText(s)) [TexText.__init__ pinned].
   ==        c == x is decided as CPython does from TexExpr.__eq__ (str(other) ==
             str(self)), TexText.__eq__, Token.__eq__ (sources pinned; no other class
             of the hierarchy defines __eq__ / __ne__) and the reflected-operand rule,
             for x a TexCmd/TexEnv object or a TexNode (eq_obj / eq_obj_node below,
             case by case); str() there is the hand serialiser Tree.estr -- C05gen_str
             proves the translated __str__ family equal to it.  Every other
             combination is OUnsup, except str == str and int == int.
   is        wrappers: same store entry; None; objects of the tree: same path, when at
             least one side is a TexExpr object; a tree object and fresh material:
             different; a TexNode and anything else: different; otherwise OUnsup.
   generator expressions and list comprehensions are evaluated eagerly, element by
             element (the target is bound afresh for each), and must not change the
             tree (checked: OUnsup otherwise); so next(g, d) / any(g) / all(g) /
             list.extend(g) / ''.join(g) see the same values as CPython's lazy
             evaluation.   enumerate(x) pairs.   map(str, x) is the comprehension
             [str(e) for e in x] (the translator rewrites it).
   str(x)    a str: itself [Token.__str__ pinned]; an object: the translated __str__
             found along the mro.   '..%s..' % (a, b): str() of each argument in
             order (only %s and %% are accepted by the translator).  s + t, ''.join.
   truth     None, bool, int, str, list (non-empty), TexNode (True); `not`, `and`,
             `or` with Python's value semantics; `if`, `assert`, any/all use it.
   calls     positional arguments, *iterable unpacking, default values, *args
             parameters (a tuple); evaluation order: receiver, arguments left to
             right; in `o.a = e` the value first.  `assert c, msg` raises
             AssertionError (msg not evaluated: the translator accepts only messages
             that cannot fail); `raise E(msg)` likewise for TypeError / ValueError.
             `continue`, `return` inside `for`.
   ints      a + b, a - b, max(a, b), min(a, b), a < b, a <= b, a > b, a >= b on ints
             (anything else: OUnsup).
   not modelled, but translated (so that a body using them is a program whose
             run leaves the fragment -- OUnsup -- instead of a translation failure):
             `x.all` (the shadow list of a TexArgs: the tree has no such field; the
             pinned property TexExpr.all likewise), the list methods append [modelled
             on a raw list] / remove / pop / clear / reverse and every list method on
             a TexArgs object (class TexArgs is translated by gen_args.py, ArgDSL.v),
             `l[i] = v` / `l[a:b] = v` on a list object (SStoreItem).
   source    gen_edit.py normalises the Python AST before translating (annotations,
             module-level literal constants and small helper functions inlined,
             f-strings, list(x.contents), if/else of one assignment, structured
             control flow: see its header) -- each rewrite an identity of Python.
   outcomes  ODone st r: finished inside the fragment, in state st, returning a value
             or raising (the tree in st is the tree at that moment: an exception
             after a mutation leaves the mutated tree, Edit.Partial).  OUnsup:
             left the fragment -- never a normal-looking value.  OFuel: call depth
             exhausted (only __str__ recurses; its depth is the depth of the tree).  *)
From Coq Require Import List NArith ZArith Bool.
From TexModel Require Import Base Tables Chars Tokenizer Tree Reader Edit.
Import ListNotations.
Local Open Scope Z_scope.

(* ------------------------------------------------------------------ values *)
Inductive ref := RIn (p : path) (ep : nat) | ROut (e : Tree.expr).

Inductive value :=
| VNone
| VBool (b : bool)
| VInt (z : Z)
| VStr (s : str)
| VExpr (r : ref)                 (* a TexExpr / Token / str object *)
| VNode (k : nat)                 (* a TexNode wrapper *)
| VList (l : list value)          (* a fresh list or tuple *)
| VBody (r : ref)                 (* the list object r._contents *)
| VArgs (r : ref)                 (* the TexArgs object r.args *)
| VNewArgs (l : list value).      (* a TexArgs object that is not (yet) part of the tree *)

Inductive pstate := PNone | PNode (k : nat) | PUnknown.
Inductive mut := MBody (p : path) | MArgs (p : path).

Record state := mkS { s_root : Tree.expr; s_muts : list mut; s_nodes : list (ref * pstate) }.

Inductive exn := TypeError | ValueError | AssertionError | IndexError.

(* ----------------------------------------------------------------- classes *)
Inductive cls :=
| CTexNode | CTexExpr | CTexEnv | CTexNamedEnv | CTexUnNamedEnv | CMathEnv
| CTexCmd | CTexText | CTexGroup | CBraceGroup | CBracketGroup | CTexArgs
| CStr | CInt | CList | CTuple.

(* run-time classes *)
Inductive rtc :=
| KNode | KCmd | KNamed | KMath (k : mathkind) | KGroup (k : groupkind) | KRoot | KText
| KToken | KStr | KInt | KBool | KNone | KList | KArgs.

Definition mro (k : rtc) : list cls :=
  match k with
  | KNode => [CTexNode]
  | KCmd => [CTexCmd; CTexExpr]
  | KNamed => [CTexNamedEnv; CTexEnv; CTexExpr]
  | KMath _ => [CMathEnv; CTexUnNamedEnv; CTexEnv; CTexExpr]
  | KGroup GBrace => [CBraceGroup; CTexGroup; CTexUnNamedEnv; CTexEnv; CTexExpr]
  | KGroup GBracket => [CBracketGroup; CTexGroup; CTexUnNamedEnv; CTexEnv; CTexExpr]
  | KRoot => [CTexEnv; CTexExpr]
  | KText => [CTexText; CTexExpr; CStr]
  | KToken => [CStr]
  | KStr => [CStr]
  | KInt => [CInt]
  | KBool => [CInt]
  | KNone => []
  | KList => [CList]          (* a VList stands for a list or a tuple: see isinstance *)
  | KArgs => [CTexArgs; CList]
  end.

Definition cls_eqb (a b : cls) : bool :=
  match a, b with
  | CTexNode, CTexNode | CTexExpr, CTexExpr | CTexEnv, CTexEnv | CTexNamedEnv, CTexNamedEnv
  | CTexUnNamedEnv, CTexUnNamedEnv | CMathEnv, CMathEnv | CTexCmd, CTexCmd | CTexText, CTexText
  | CTexGroup, CTexGroup | CBraceGroup, CBraceGroup | CBracketGroup, CBracketGroup
  | CTexArgs, CTexArgs | CStr, CStr | CInt, CInt | CList, CList | CTuple, CTuple => true
  | _, _ => false
  end.

Definition class_of_expr (e : Tree.expr) : rtc :=
  match e with
  | EText _ => KText
  | ERaw _ _ => KToken
  | EStr _ => KStr
  | ECmd _ _ _ _ => KCmd
  | ENamed _ _ _ _ => KNamed
  | EMath k _ _ => KMath k
  | EGroup k _ _ => KGroup k
  | ERoot _ => KRoot
  end.

(* isinstance(x, TexExpr) *)
Definition is_texexpr (e : Tree.expr) : bool :=
  match e with ERaw _ _ | EStr _ => false | _ => true end.

(* ------------------------------------------------------------------ syntax *)
Inductive attr :=
| A_expr | A_parent | A_args | A_raw (* _contents *) | A_contents | A_name | A_string
| A_begin | A_end | A_text (* _text *) | A_begin_raw | A_end_raw (* _begin / _end *)
| A_all (* the shadow list TexArgs.all / the property TexExpr.all: not modelled *).

Inductive mname :=
| M_append | M_insert | M_remove | M_delete | M_replace | M_replace_with | M_copy
| M_supports | M_assert_supports | M_str
| M_get (a : attr) | M_set (a : attr).

Inductive lop := LExtend | LInsert | LIndex | LAppend | LRemove | LPop | LClear | LReverse.
Inductive cmpop := CLt | CLe | CGt | CGe.
Inductive pat := PVar (x : nat) | PPair (i x : nat).
Inductive fpiece := FLit (s : str) | FHole.

Inductive expr :=
| ENone | ETrue | EFalse
| EInt (z : Z)
| EStrLit (s : str)
| EVar (x : nat)                              (* slot 0 is self *)
| EAttr (e : expr) (a : attr)
| EIsInst (e : expr) (cs : list cls)          (* isinstance(e, (c1, ...)) *)
| EIs (a b : expr)
| EEq (a b : expr)
| EIn (a b : expr)
| ENot (a : expr)
| EAnd (a b : expr)
| EOr (a b : expr)
| EIfExp (c a b : expr)
| EAdd (a b : expr)
| ESub (a b : expr)
| ECmp (o : cmpop) (a b : expr)               (* < <= > >= on ints *)
| EMinMax (mx : bool) (a b : expr)            (* max(a, b) / min(a, b) on ints *)
| EListLit (xs : exprs)
| EListOf (e : expr)                          (* list(e) *)
| EEnumerate (e : expr)
| ELen (e : expr)
| EBoolOf (e : expr)                          (* bool(e) *)
| EIndex (e i : expr)
| EGen (p : pat) (it cond elt : expr)         (* (elt for p in it if cond), eager *)
| ENext (g d : expr)
| EAny (g : expr)
| EAll (g : expr)
| ECall (recv : expr) (m : mname) (xs : cargs)
| ELop (l : expr) (o : lop) (xs : exprs)
| ENewNode (e : expr)                         (* TexNode(e) *)
| ENewText (e : expr)                         (* TexText(e) *)
| EStrOf (e : expr)                           (* str(e) *)
| EJoin (sep : str) (e : expr)                (* 'sep'.join(e) *)
| EFormat (f : list fpiece) (xs : exprs)      (* '...' % (xs) *)
with exprs :=
| XNil
| XCons (e : expr) (xs : exprs)
with cargs :=
| CNil
| CPos (e : expr) (xs : cargs)
| CStar (e : expr) (xs : cargs).

Fixpoint exprs_of (l : list expr) : exprs :=
  match l with [] => XNil | e :: l' => XCons e (exprs_of l') end.
Inductive carg := Pos (e : expr) | Star (e : expr).
Fixpoint cargs_of (l : list carg) : cargs :=
  match l with
  | [] => CNil
  | Pos e :: l' => CPos e (cargs_of l')
  | Star e :: l' => CStar e (cargs_of l')
  end.

Inductive stmt :=
| SExpr (e : expr)
| SAssign (x : nat) (e : expr)
| SSetAttr (o : expr) (a : attr) (e : expr)   (* o.a = e *)
| SDelItem (l i : expr)                       (* del l[i] *)
| SStoreItem (l e : expr)                     (* l[..] = e: not modelled *)
| SReturn (e : expr)
| SIf (c : expr) (a b : block)
| SFor (p : pat) (it : expr) (b : block)
| SContinue
| SAssert (c : expr)
| SRaise (x : exn)
| SPass
with block :=
| BNil
| BCons (s : stmt) (b : block).

Fixpoint blk (l : list stmt) : block :=
  match l with [] => BNil | s :: l' => BCons s (blk l') end.

(* parameters after self: None = required, Some v = default; m_star: a trailing *args *)
Record mdef := mkM { m_params : list (option value); m_star : bool; m_body : block }.
Definition table := cls -> mname -> option mdef.

Inductive rv := RVal (v : value) | RExc (e : exn).
Inductive outcome := ODone (st : state) (r : rv) | OUnsup | OFuel.

Inductive eres := EV (v : value) (st : state) | EX (e : exn) (st : state) | EUnsup | EFuel.
Inductive ares := AV (vs : list value) (st : state) | AX (e : exn) (st : state) | AUnsup | AFuel.
Definition env := list (option value).
Inductive xres :=
| XNormal (en : env) (st : state)
| XContinue (en : env) (st : state)
| XReturn (v : value) (st : state)
| XExc (e : exn) (st : state)
| XUnsup
| XFuel.

(* -------------------------------------------------------- the object store *)
Fixpoint below (body : bool) (hp p : path) : bool :=
  match hp, p with
  | [], SBody _ :: _ => body
  | [], SArg _ :: _ => negb body
  | [], [] => false
  | a :: hp', b :: p' => step_eqb a b && below body hp' p'
  | _ :: _, [] => false
  end.
Definition affects (m : mut) (p : path) : bool :=
  match m with MBody hp => below true hp p | MArgs hp => below false hp p end.
Definition fresh (st : state) (p : path) (ep : nat) : bool :=
  forallb (fun m => negb (affects m p)) (skipn ep (s_muts st)).
Definition epoch (st : state) : nat := length (s_muts st).

Definition deref (st : state) (r : ref) : option Tree.expr :=
  match r with
  | RIn p ep => if fresh st p ep then get (s_root st) p else None
  | ROut e => Some e
  end.
(* the current path of a reference into the tree *)
Definition path_of (st : state) (r : ref) : option path :=
  match r with
  | RIn p ep => if fresh st p ep then Some p else None
  | ROut _ => None
  end.

Definition node_at (st : state) (k : nat) : option (ref * pstate) := nth_error (s_nodes st) k.

Definition class_of (st : state) (v : value) : option rtc :=
  match v with
  | VNone => Some KNone
  | VBool _ => Some KBool
  | VInt _ => Some KInt
  | VStr _ => Some KStr
  | VExpr r => option_map class_of_expr (deref st r)
  | VNode k => match node_at st k with Some _ => Some KNode | None => None end
  | VList _ => Some KList
  | VBody _ => Some KList
  | VArgs _ => Some KArgs
  | VNewArgs _ => Some KArgs
  end.

(* isinstance(v, c): a VList is a list or a tuple, so the answer is known only when both
   or neither of list / tuple are asked about *)
Definition isinstance1 (k : rtc) (c : cls) : bool := existsb (cls_eqb c) (mro k).
Definition isinstance (st : state) (v : value) (cs : list cls) : option bool :=
  match class_of st v with
  | None => None
  | Some k =>
    match v with
    | VList _ =>
      let l := existsb (cls_eqb CList) cs in
      let t := existsb (cls_eqb CTuple) cs in
      if Bool.eqb l t then Some l else None
    | _ => Some (existsb (isinstance1 k) cs)
    end
  end.

Fixpoint mro_find (tb : table) (cs : list cls) (m : mname) : option mdef :=
  match cs with
  | [] => None
  | c :: cs' => match tb c m with Some d => Some d | None => mro_find tb cs' m end
  end.
Definition find_meth (tb : table) (st : state) (v : value) (m : mname) : option mdef :=
  match class_of st v with
  | Some k => mro_find tb (mro k) m
  | None => None
  end.

(* --------------------------------------------------------------- iteration *)
Definition idx_vals (mk : nat -> value) (n : nat) : list value := map mk (seq 0 n).

Definition body_vals (st : state) (r : ref) : option (list value) :=
  match path_of st r, deref st r with
  | Some p, Some h =>
    if is_node h
    then Some (idx_vals (fun k => VExpr (RIn (p ++ [SBody k]) (epoch st))) (length (body_of h)))
    else None
  | _, _ => None
  end.
Definition args_vals (st : state) (r : ref) : option (list value) :=
  match path_of st r, deref st r with
  | Some p, Some h =>
    if is_node h
    then Some (idx_vals (fun k => VExpr (RIn (p ++ [SArg k]) (epoch st))) (length (args_of h)))
    else None
  | _, _ => None
  end.

Definition iter_vals (st : state) (v : value) : option (list value) :=
  match v with
  | VList l => Some l
  | VNewArgs l => Some l
  | VBody r => body_vals st r
  | VArgs r => args_vals st r
  | _ => None
  end.

(* `x in v`: list membership; TexArgs overrides __contains__ (not translated) *)
Definition in_vals (st : state) (v : value) : option (list value) :=
  match v with
  | VList l => Some l
  | VBody r => body_vals st r
  | _ => None
  end.

(* the list a `for` iterates has not been changed by the loop body *)
Definition same_list (v : value) (n0 : nat) (st : state) : bool :=
  match v with
  | VBody (RIn p _) =>
    forallb (fun m => match m with MBody q => negb (path_eqb p q) | _ => true end)
            (skipn n0 (s_muts st))
  | VArgs (RIn p _) =>
    forallb (fun m => match m with MArgs q => negb (path_eqb p q) | _ => true end)
            (skipn n0 (s_muts st))
  | _ => true
  end.

(* ------------------------------------------------------- identity, equality *)
Definition is_same (st : state) (a b : value) : option bool :=
  match a, b with
  | VNone, VNone => Some true
  | VNone, _ | _, VNone => Some false
  | VNode i, VNode j => Some (Nat.eqb i j)
  | VNode _, _ | _, VNode _ => Some false
  | VExpr ra, VExpr rb =>
    match deref st ra, deref st rb with
    | Some x, Some y =>
      if is_texexpr x || is_texexpr y then
        match path_of st ra, path_of st rb with
        | Some p, Some q => Some (path_eqb p q)
        | None, None => None              (* two detached objects *)
        | _, _ => Some false              (* a tree object and fresh material *)
        end
      else None
    | _, _ => None
    end
  | VStr _, VExpr r | VExpr r, VStr _ =>
    match deref st r with
    | Some x => if is_node x then Some false else None
    | None => None
    end
  | _, _ => None
  end.

(* c == x for an object c and ANOTHER object x that is a TexCmd / TexEnv:
     c a TexCmd/TexEnv   TexExpr.__eq__(c, x) = (str(x) == str(c))
     c a TexText         TexText.__eq__(c, x): x is neither a TexText nor a str -> False
     c a Token           Token.__eq__(c, x): c.text == x; str.__eq__ answers NotImplemented,
                         so the reflected TexExpr.__eq__(x, c.text) = (str(c.text) == str(x))
     c a str             str.__eq__ -> NotImplemented -> reflected, as for a Token *)
Definition eq_obj (ec ex : Tree.expr) : bool :=
  match class_of_expr ec with
  | KText => false
  | KToken | KStr => str_eqb (estr ec) (estr ex)
  | _ => str_eqb (estr ex) (estr ec)
  end.
(* c == node for a TexNode (which defines no __eq__; TexNode.__str__ is str(node.expr)):
     c a TexCmd/TexEnv   TexExpr.__eq__(c, node) = (str(node) == str(c))
     c a TexText         False, as above
     c a Token / str     NotImplemented both ways -> identity -> False *)
Definition eq_obj_node (ec ex : Tree.expr) : bool :=
  match class_of_expr ec with
  | KText | KToken | KStr => false
  | _ => str_eqb (estr ex) (estr ec)
  end.

(* c == x *)
Definition py_eq (st : state) (c x : value) : option bool :=
  match x with
  | VNode k =>
    match node_at st k with
    | Some (rx, _) =>
      match deref st rx with
      | Some ex =>
        match c with
        | VExpr rc =>
          match deref st rc with
          | Some ec => Some (eq_obj_node ec ex)
          | None => None
          end
        | VStr _ => Some false
        | _ => None
        end
      | None => None
      end
    | None => None
    end
  | VExpr rx =>
    match deref st rx with
    | Some ex =>
      if is_node ex then
        match c with
        | VExpr rc =>
          match deref st rc with
          | Some ec => Some (eq_obj ec ex)
          | None => None
          end
        | VStr s => Some (str_eqb s (estr ex))
        | _ => None
        end
      else None
    | None => None
    end
  | VStr t => match c with VStr s => Some (str_eqb s t) | _ => None end
  | VInt j => match c with VInt i => Some (Z.eqb i j) | _ => None end
  | _ => None
  end.

(* `c is x or c == x` *)
Definition same_or_eq (st : state) (x c : value) : option bool :=
  match is_same st c x with
  | Some true => Some true
  | Some false => py_eq st c x
  | None => None
  end.
(* first index; None = left the fragment; Some None = not found *)
Fixpoint first_index (f : value -> option bool) (l : list value) : option (option nat) :=
  match l with
  | [] => Some None
  | c :: l' =>
    match f c with
    | Some true => Some (Some O)
    | Some false =>
      match first_index f l' with
      | Some (Some k) => Some (Some (S k))
      | r => r
      end
    | None => None
    end
  end.

Definition truthy (st : state) (v : value) : option bool :=
  match v with
  | VNone => Some false
  | VBool b => Some b
  | VInt z => Some (negb (z =? 0))
  | VStr s => Some (match s with [] => false | _ => true end)
  | VList l | VNewArgs l => Some (match l with [] => false | _ => true end)
  | VNode k => match node_at st k with Some _ => Some true | None => None end
  | VBody _ | VArgs _ =>
    match iter_vals st v with
    | Some l => Some (match l with [] => false | _ => true end)
    | None => None
    end
  | VExpr _ => None
  end.

(* Python indexing l[i] *)
Definition py_nth {A} (l : list A) (i : Z) : option A :=
  let n := Z.of_nat (length l) in
  let j := if i <? 0 then i + n else i in
  if (j <? 0) || (n <=? j) then None else nth_error l (Z.to_nat j).
Definition py_pos (len : nat) (i : Z) : option nat :=
  let n := Z.of_nat len in
  let j := if i <? 0 then i + n else i in
  if (j <? 0) || (n <=? j) then None else Some (Z.to_nat j).

(* ----------------------------------------------------------- tree mutation *)
(* what may be stored into a raw list *)
Definition to_item (st : state) (v : value) : option Tree.expr :=
  match v with
  | VStr s => Some (EStr s)
  | VExpr (ROut e) => if is_texexpr e then Some e else None
  | _ => None
  end.
Fixpoint to_items (st : state) (vs : list value) : option (list Tree.expr) :=
  match vs with
  | [] => Some []
  | v :: vs' =>
    match to_item st v, to_items st vs' with
    | Some x, Some xs => Some (x :: xs)
    | _, _ => None
    end
  end.

Definition set_body_st (st : state) (p : path) (h : Tree.expr) (b : list Tree.expr) : option state :=
  match put (s_root st) p (set_body h b) with
  | Some r => Some (mkS r (s_muts st ++ [MBody p]) (s_nodes st))
  | None => None
  end.

(* the holder of a live raw list: its path and the object *)
Definition holder (st : state) (r : ref) : option (path * Tree.expr) :=
  match path_of st r, deref st r with
  | Some p, Some h => if is_node h then Some (p, h) else None
  | _, _ => None
  end.

(* operations on list objects; None = outside the fragment *)
Definition list_op (st : state) (l : value) (o : lop) (vs : list value) : option (state * rv) :=
  match l, o, vs with
  | VBody r, LExtend, [VList new] =>
    match holder st r, to_items st new with
    | Some (p, h), Some xs =>
      option_map (fun st' => (st', RVal VNone)) (set_body_st st p h (body_of h ++ xs))
    | _, _ => None
    end
  | VBody r, LAppend, [x] =>
    match holder st r, to_item st x with
    | Some (p, h), Some it =>
      option_map (fun st' => (st', RVal VNone)) (set_body_st st p h (body_of h ++ [it]))
    | _, _ => None
    end
  | VBody r, LInsert, [VInt i; x] =>
    match holder st r, to_item st x with
    | Some (p, h), Some it =>
      option_map (fun st' => (st', RVal VNone)) (set_body_st st p h (list_insert i it (body_of h)))
    | _, _ => None
    end
  | _, LIndex, [x] =>
    match iter_vals st l with
    | Some cs =>
      match first_index (same_or_eq st x) cs with
      | Some (Some k) => Some (st, RVal (VInt (Z.of_nat k)))
      | Some None => Some (st, RExc ValueError)
      | None => None
      end
    | None => None
    end
  | _, _, _ => None
  end.

Definition del_item (st : state) (l : value) (i : Z) : option (state * rv) :=
  match l with
  | VBody r =>
    match holder st r with
    | Some (p, h) =>
      match py_pos (length (body_of h)) i with
      | Some k => option_map (fun st' => (st', RVal VNone))
                             (set_body_st st p h (splice k 1 [] (body_of h)))
      | None => Some (st, RExc IndexError)
      end
    | None => None
    end
  | _ => None
  end.

(* --------------------------------------------------------------- the views *)
Definition view_item (st : state) (base : path) (it : (path * nat) * Tree.expr) : value :=
  match snd it with
  | EText t => VStr (ttext t)
  | ERaw s _ => VStr s
  | EStr s => VStr s
  | _ => VExpr (RIn (base ++ fst (fst it) ++ [SBody (snd (fst it))]) (epoch st))
  end.
(* TexExpr.contents *)
Definition expr_view (st : state) (r : ref) : option (list value) :=
  match holder st r with
  | Some (p, h) => Some (map (view_item st p) (cview h))
  | None => None
  end.
(* TexNode.contents of wrapper k: a new wrapper for every TexExpr item *)
Fixpoint wrap_items (self : nat) (vs : list value) (ns : list (ref * pstate))
  : list value * list (ref * pstate) :=
  match vs with
  | [] => ([], ns)
  | VExpr r :: vs' =>
    let '(ws, ns') := wrap_items self vs' (ns ++ [(r, PNode self)]) in
    (VNode (length ns) :: ws, ns')
  | v :: vs' =>
    let '(ws, ns') := wrap_items self vs' ns in (v :: ws, ns')
  end.
Definition node_view (st : state) (k : nat) : option (list value * state) :=
  match node_at st k with
  | Some (r, _) =>
    match expr_view st r with
    | Some vs =>
      let '(ws, ns') := wrap_items k vs (s_nodes st) in
      Some (ws, mkS (s_root st) (s_muts st) ns')
    | None => None
    end
  | None => None
  end.

(* ----------------------------------------------------- fields and constants *)
Definition s_roottex : str := [91; 116; 101; 120; 93]%N.        (* '[tex]' *)

(* class attributes of the delimiter classes *)
Definition class_attr (k : rtc) (a : attr) : option value :=
  match k, a with
  | KMath m, A_begin => Some (VStr (math_begin m))
  | KMath m, A_end => Some (VStr (math_end m))
  | KMath m, A_name => Some (VStr (math_name m))
  | KGroup g, A_begin => Some (VStr (group_begin g))
  | KGroup g, A_end => Some (VStr (group_end g))
  | KGroup g, A_name => Some (VStr (group_name g))
  | _, _ => None
  end.

Definition field_get (st : state) (v : value) (a : attr) : option (value * state) :=
  match v, a with
  | VNode k, A_expr =>
    match node_at st k with Some (r, _) => Some (VExpr r, st) | None => None end
  | VNode k, A_parent =>
    match node_at st k with
    | Some (_, PNone) => Some (VNone, st)
    | Some (_, PNode j) => Some (VNode j, st)
    | _ => None
    end
  | VNode k, A_contents =>
    match node_view st k with Some (ws, st') => Some (VList ws, st') | None => None end
  | VExpr r, A_raw =>
    match holder st r with Some _ => Some (VBody r, st) | None => None end
  | VExpr r, A_args =>
    match holder st r with Some _ => Some (VArgs r, st) | None => None end
  | VExpr r, A_contents =>
    match expr_view st r with Some vs => Some (VList vs, st) | None => None end
  | VExpr r, A_name =>
    match deref st r with
    | Some (ECmd n _ _ _) | Some (ENamed n _ _ _) => Some (VStr n, st)
    | Some (ERoot _) => Some (VStr s_roottex, st)
    | _ => None
    end
  | VExpr r, A_text =>
    match deref st r with Some (EText t) => Some (VStr (ttext t), st) | _ => None end
  | VExpr r, A_begin_raw | VExpr r, A_end_raw =>
    match deref st r with Some (ERoot _) => Some (VStr [], st) | _ => None end
  | _, _ => None
  end.

Fixpoint split_last (q : path) : option (path * step) :=
  match q with
  | [] => None
  | s :: q' =>
    match q' with
    | [] => Some ([], s)
    | _ :: _ => match split_last q' with Some (a, b) => Some (s :: a, b) | None => None end
    end
  end.
(* the groups a new TexArgs is made of: arguments of the object at p, each at most once *)
Fixpoint arg_indices (st : state) (p : path) (vs : list value) : option (list nat) :=
  match vs with
  | [] => Some []
  | VExpr r :: vs' =>
    match path_of st r, arg_indices st p vs' with
    | Some q, Some l =>
      match split_last q with
      | Some (q0, SArg j) => if path_eqb q0 p then Some (j :: l) else None
      | _ => None
      end
    | _, _ => None
    end
  | _ => None
  end.

Definition field_set (st : state) (v : value) (a : attr) (x : value) : option state :=
  match v, a with
  | VNode k, A_parent =>
    match node_at st k, x with
    | Some (r, _), VNone =>
      Some (mkS (s_root st) (s_muts st) (subst_nth k (r, PNone) (s_nodes st)))
    | Some (r, _), VNode j =>
      match node_at st j with
      | Some _ => Some (mkS (s_root st) (s_muts st) (subst_nth k (r, PNode j) (s_nodes st)))
      | None => None
      end
    | _, _ => None
    end
  | VExpr r, A_parent =>
    (* TexExpr.parent: never read *)
    match deref st r with Some e => if is_texexpr e then Some st else None | None => None end
  | VExpr r, A_name =>
    match path_of st r, deref st r, x with
    | Some p, Some h, VStr s =>
      match rename h s with
      | Done h' => match put (s_root st) p h' with
                   | Some t => Some (mkS t (s_muts st) (s_nodes st))
                   | None => None
                   end
      | _ => None
      end
    | _, _, _ => None
    end
  | VExpr r, A_args =>
    match path_of st r, deref st r, x with
    | Some p, Some h, VNewArgs vs =>
      match arg_indices st p vs with
      | Some idxs =>
        if has_args h && nodup_nat idxs then
          match select (args_of h) idxs with
          | Some a' =>
            match put (s_root st) p (set_args_of h a') with
            | Some t => Some (mkS t (s_muts st ++ [MArgs p]) (s_nodes st))
            | None => None
            end
          | None => None
          end
        else None
      | None => None
      end
    | _, _, _ => None
    end
  | VExpr r, A_raw =>
    match holder st r, x with
    | Some (p, h), VList vs =>
      match to_items st vs with
      | Some xs => set_body_st st p h xs
      | None => None
      end
    | _, _ => None
    end
  | _, _ => None
  end.

(* TexText(x): x a str, or a TexText (which is a str) *)
Definition new_text (st : state) (v : value) : option value :=
  match v with
  | VStr s => Some (VExpr (ROut (text_of s)))
  | VExpr (ROut (EText t)) => Some (VExpr (ROut (text_of (ttext t))))
  | _ => None
  end.

(* ------------------------------------------------------------- environments *)
Definition lookup (en : env) (x : nat) : option value :=
  match nth_error en x with Some (Some v) => Some v | _ => None end.
Fixpoint set_var (en : env) (x : nat) (v : value) : env :=
  match x, en with
  | O, [] => [Some v]
  | O, _ :: r => Some v :: r
  | S x', [] => None :: set_var [] x' v
  | S x', a :: r => a :: set_var r x' v
  end.
Definition bind_pat (p : pat) (v : value) (en : env) : option env :=
  match p, v with
  | PVar x, _ => Some (set_var en x v)
  | PPair i x, VList [a; b] => Some (set_var (set_var en i a) x b)
  | _, _ => None
  end.

(* parameters: self is slot 0 *)
Fixpoint bind_params (ps : list (option value)) (star : bool) (vs : list value) : option env :=
  match ps, vs with
  | [], [] => Some (if star then [Some (VList [])] else [])
  | [], _ :: _ => if star then Some [Some (VList vs)] else None
  | _ :: ps', v :: vs' => option_map (cons (Some v)) (bind_params ps' star vs')
  | Some dv :: ps', [] => option_map (cons (Some dv)) (bind_params ps' star [])
  | None :: _, [] => None
  end.

Definition lift_v (o : option value) (st : state) : eres :=
  match o with Some v => EV v st | None => EUnsup end.
Definition lift_b (o : option bool) (st : state) : eres :=
  match o with Some b => EV (VBool b) st | None => EUnsup end.
Definition of_outcome (o : outcome) : eres :=
  match o with
  | ODone st (RVal v) => EV v st
  | ODone st (RExc e) => EX e st
  | OUnsup => EUnsup
  | OFuel => EFuel
  end.
Definition of_lop (o : option (state * rv)) : eres :=
  match o with
  | Some (st, RVal v) => EV v st
  | Some (st, RExc e) => EX e st
  | None => EUnsup
  end.

(* eager generator: cond / elt may not change the tree; the target is bound afresh for
   every element (nothing inside a comprehension can assign: no := in the language) *)
Fixpoint gen_loop (p : pat) (fc fe : env -> state -> eres) (l : list value) (en : env)
         (st : state) : eres :=
  match l with
  | [] => EV (VList []) st
  | v :: l' =>
    match bind_pat p v en with
    | None => EUnsup
    | Some en1 =>
      match fc en1 st with
      | EV c st1 =>
        if negb (Nat.eqb (epoch st1) (epoch st)) then EUnsup else
        match truthy st1 c with
        | Some true =>
          match fe en1 st1 with
          | EV x st2 =>
            if negb (Nat.eqb (epoch st2) (epoch st)) then EUnsup else
            match gen_loop p fc fe l' en st2 with
            | EV (VList xs) st3 => EV (VList (x :: xs)) st3
            | EV _ _ => EUnsup
            | r => r
            end
          | r => r
          end
        | Some false => gen_loop p fc fe l' en st1
        | None => EUnsup
        end
      | r => r
      end
    end
  end.

Fixpoint first_true (st : state) (want : bool) (l : list value) : option bool :=
  match l with
  | [] => Some (negb want)
  | v :: l' =>
    match truthy st v with
    | Some b => if Bool.eqb b want then Some want else first_true st want l'
    | None => None
    end
  end.

Fixpoint strs_of (l : list value) : option (list str) :=
  match l with
  | [] => Some []
  | VStr s :: l' => option_map (cons s) (strs_of l')
  | _ => None
  end.
Fixpoint join (sep : str) (l : list str) : str :=
  match l with
  | [] => []
  | [s] => s
  | s :: l' => s ++ sep ++ join sep l'
  end.
Fixpoint format (f : list fpiece) (l : list str) : option str :=
  match f, l with
  | [], [] => Some []
  | [], _ :: _ => None
  | FLit s :: f', _ => option_map (app s) (format f' l)
  | FHole :: f', x :: l' => option_map (app x) (format f' l')
  | FHole :: _, [] => None
  end.

Fixpoint enum_from (i : Z) (l : list value) : list value :=
  match l with [] => [] | v :: l' => VList [VInt i; v] :: enum_from (i + 1) l' end.

Section Interp.
Variable tb : table.
Variable callf : value -> mname -> list value -> state -> outcome.

(* str(v) *)
Definition str_of (v : value) (st : state) : eres :=
  match v with
  | VStr s => EV (VStr s) st
  | VExpr r =>
    match deref st r with
    | Some (ERaw s _) | Some (EStr s) => EV (VStr s) st
    | Some _ => of_outcome (callf v M_str [] st)
    | None => EUnsup
    end
  | VNode _ | VArgs _ => of_outcome (callf v M_str [] st)
  | _ => EUnsup
  end.
Fixpoint strs_all (vs : list value) (st : state) : eres :=
  match vs with
  | [] => EV (VList []) st
  | v :: vs' =>
    match str_of v st with
    | EV s st1 =>
      match strs_all vs' st1 with
      | EV (VList l) st2 => EV (VList (s :: l)) st2
      | EV _ _ => EUnsup
      | r => r
      end
    | r => r
    end
  end.

Definition get_attr (v : value) (a : attr) (st : state) : eres :=
  match class_of st v with
  | None => EUnsup
  | Some k =>
    match class_attr k a with
    | Some c => EV c st
    | None =>
      match mro_find tb (mro k) (M_get a) with
      | Some _ => of_outcome (callf v (M_get a) [] st)
      | None =>
        match field_get st v a with
        | Some (x, st') => EV x st'
        | None => EUnsup
        end
      end
    end
  end.

Fixpoint eval (e : expr) (en : env) (st : state) {struct e} : eres :=
  let un (a : expr) (k : value -> state -> eres) : eres :=
    match eval a en st with EV v st1 => k v st1 | x => x end in
  let bin (a b : expr) (k : value -> value -> state -> eres) : eres :=
    match eval a en st with
    | EV v1 st1 => match eval b en st1 with EV v2 st2 => k v1 v2 st2 | x => x end
    | x => x
    end in
  match e with
  | ENone => EV VNone st
  | ETrue => EV (VBool true) st
  | EFalse => EV (VBool false) st
  | EInt z => EV (VInt z) st
  | EStrLit s => EV (VStr s) st
  | EVar x => lift_v (lookup en x) st
  | EAttr a at_ => un a (fun v st1 => get_attr v at_ st1)
  | EIsInst a cs => un a (fun v st1 => lift_b (isinstance st1 v cs) st1)
  | EIs a b => bin a b (fun v1 v2 st2 => lift_b (is_same st2 v1 v2) st2)
  | EEq a b => bin a b (fun v1 v2 st2 => lift_b (py_eq st2 v1 v2) st2)
  | EIn a b =>
    bin a b (fun v1 v2 st2 =>
      match in_vals st2 v2 with
      | Some cs =>
        match first_index (same_or_eq st2 v1) cs with
        | Some (Some _) => EV (VBool true) st2
        | Some None => EV (VBool false) st2
        | None => EUnsup
        end
      | None => EUnsup
      end)
  | ENot a => un a (fun v st1 => lift_b (option_map negb (truthy st1 v)) st1)
  | EAnd a b =>
    un a (fun v st1 =>
      match truthy st1 v with
      | Some true => eval b en st1
      | Some false => EV v st1
      | None => EUnsup
      end)
  | EOr a b =>
    un a (fun v st1 =>
      match truthy st1 v with
      | Some true => EV v st1
      | Some false => eval b en st1
      | None => EUnsup
      end)
  | EIfExp c a b =>
    un c (fun v st1 =>
      match truthy st1 v with
      | Some true => eval a en st1
      | Some false => eval b en st1
      | None => EUnsup
      end)
  | EAdd a b =>
    bin a b (fun v1 v2 st2 =>
      match v1, v2 with
      | VInt x, VInt y => EV (VInt (x + y)) st2
      | VStr x, VStr y => EV (VStr (x ++ y)) st2
      | VList x, VList y => EV (VList (x ++ y)) st2
      | _, _ => EUnsup
      end)
  | ESub a b =>
    bin a b (fun v1 v2 st2 =>
      match v1, v2 with
      | VInt x, VInt y => EV (VInt (x - y)) st2
      | _, _ => EUnsup
      end)
  | ECmp o a b =>
    bin a b (fun v1 v2 st2 =>
      match v1, v2 with
      | VInt x, VInt y =>
        EV (VBool (match o with
                   | CLt => x <? y | CLe => x <=? y | CGt => y <? x | CGe => y <=? x
                   end)) st2
      | _, _ => EUnsup
      end)
  | EMinMax mx a b =>
    bin a b (fun v1 v2 st2 =>
      match v1, v2 with
      | VInt x, VInt y => EV (VInt (if mx then Z.max x y else Z.min x y)) st2
      | _, _ => EUnsup
      end)
  | EListLit xs =>
    match eval_list xs en st with
    | AV vs st1 => EV (VList vs) st1
    | AX x st1 => EX x st1
    | AUnsup => EUnsup
    | AFuel => EFuel
    end
  | EListOf a => un a (fun v st1 => lift_v (option_map VList (iter_vals st1 v)) st1)
  | EEnumerate a =>
    un a (fun v st1 => lift_v (option_map (fun l => VList (enum_from 0 l)) (iter_vals st1 v)) st1)
  | ELen a =>
    un a (fun v st1 =>
      match v with
      | VStr s => EV (VInt (Z.of_nat (length s))) st1
      | _ => lift_v (option_map (fun l => VInt (Z.of_nat (length l))) (iter_vals st1 v)) st1
      end)
  | EBoolOf a => un a (fun v st1 => lift_b (truthy st1 v) st1)
  | EIndex a i =>
    bin a i (fun v1 v2 st2 =>
      match iter_vals st2 v1, v2 with
      | Some l, VInt z =>
        match py_nth l z with
        | Some x => EV x st2
        | None => EX IndexError st2
        end
      | _, _ => EUnsup
      end)
  | EGen p it cond elt =>
    un it (fun v st1 =>
      match iter_vals st1 v with
      | Some l => gen_loop p (eval cond) (eval elt) l en st1
      | None => EUnsup
      end)
  | ENext g d =>
    bin g d (fun v1 v2 st2 =>
      match v1 with
      | VList (x :: _) => EV x st2
      | VList [] => EV v2 st2
      | _ => EUnsup
      end)
  | EAny g =>
    un g (fun v st1 => match v with VList l => lift_b (first_true st1 true l) st1 | _ => EUnsup end)
  | EAll g =>
    un g (fun v st1 => match v with VList l => lift_b (first_true st1 false l) st1 | _ => EUnsup end)
  | ECall recv m xs =>
    un recv (fun v st1 =>
      match eval_cargs xs en st1 with
      | AV vs st2 => of_outcome (callf v m vs st2)
      | AX x st2 => EX x st2
      | AUnsup => EUnsup
      | AFuel => EFuel
      end)
  | ELop l o xs =>
    un l (fun v st1 =>
      match eval_list xs en st1 with
      | AV vs st2 => of_lop (list_op st2 v o vs)
      | AX x st2 => EX x st2
      | AUnsup => EUnsup
      | AFuel => EFuel
      end)
  | ENewNode a =>
    un a (fun v st1 =>
      match v with
      | VExpr r =>
        match deref st1 r with
        | Some x =>
          if is_texexpr x
          then EV (VNode (length (s_nodes st1)))
                  (mkS (s_root st1) (s_muts st1) (s_nodes st1 ++ [(r, PNone)]))
          else EX AssertionError st1
        | None => EUnsup
        end
      | _ => EUnsup
      end)
  | ENewText a => un a (fun v st1 => lift_v (new_text st1 v) st1)
  | EStrOf a => un a (fun v st1 => str_of v st1)
  | EJoin sep a =>
    un a (fun v st1 =>
      match v with
      | VList l => lift_v (option_map (fun ss => VStr (join sep ss)) (strs_of l)) st1
      | _ => EUnsup
      end)
  | EFormat f xs =>
    match eval_list xs en st with
    | AV vs st1 =>
      match strs_all vs st1 with
      | EV (VList l) st2 =>
        match strs_of l with
        | Some ss => lift_v (option_map VStr (format f ss)) st2
        | None => EUnsup
        end
      | EV _ _ => EUnsup
      | r => r
      end
    | AX x st1 => EX x st1
    | AUnsup => EUnsup
    | AFuel => EFuel
    end
  end
with eval_list (xs : exprs) (en : env) (st : state) {struct xs} : ares :=
  match xs with
  | XNil => AV [] st
  | XCons e xs' =>
    match eval e en st with
    | EV v st1 =>
      match eval_list xs' en st1 with
      | AV vs st2 => AV (v :: vs) st2
      | x => x
      end
    | EX x st1 => AX x st1
    | EUnsup => AUnsup
    | EFuel => AFuel
    end
  end
with eval_cargs (xs : cargs) (en : env) (st : state) {struct xs} : ares :=
  match xs with
  | CNil => AV [] st
  | CPos e xs' =>
    match eval e en st with
    | EV v st1 =>
      match eval_cargs xs' en st1 with
      | AV vs st2 => AV (v :: vs) st2
      | x => x
      end
    | EX x st1 => AX x st1
    | EUnsup => AUnsup
    | EFuel => AFuel
    end
  | CStar e xs' =>
    match eval e en st with
    | EV v st1 =>
      match iter_vals st1 v with
      | Some l =>
        match eval_cargs xs' en st1 with
        | AV vs st2 => AV (l ++ vs) st2
        | x => x
        end
      | None => AUnsup
      end
    | EX x st1 => AX x st1
    | EUnsup => AUnsup
    | EFuel => AFuel
    end
  end.

Fixpoint for_loop (body : env -> state -> xres) (p : pat) (chk : state -> bool) (l : list value)
         (en : env) (st : state) : xres :=
  match l with
  | [] => XNormal en st
  | v :: l' =>
    match bind_pat p v en with
    | None => XUnsup
    | Some en1 =>
      match body en1 st with
      | XNormal en' st' | XContinue en' st' =>
        if chk st' then for_loop body p chk l' en' st' else XUnsup
      | r => r
      end
    end
  end.

Definition set_attr (v : value) (a : attr) (x : value) (st : state) : option (state * rv) :=
  match find_meth tb st v (M_set a) with
  | Some _ =>
    match callf v (M_set a) [x] st with
    | ODone st' (RVal VNone) => Some (st', RVal VNone)
    | ODone st' (RExc e) => Some (st', RExc e)
    | _ => None
    end
  | None => option_map (fun st' => (st', RVal VNone)) (field_set st v a x)
  end.

Fixpoint exec_stmt (s : stmt) (en : env) (st : state) {struct s} : xres :=
  match s with
  | SExpr e =>
    match eval e en st with
    | EV _ st1 => XNormal en st1
    | EX x st1 => XExc x st1
    | EUnsup => XUnsup
    | EFuel => XFuel
    end
  | SAssign x e =>
    match eval e en st with
    | EV v st1 => XNormal (set_var en x v) st1
    | EX x' st1 => XExc x' st1
    | EUnsup => XUnsup
    | EFuel => XFuel
    end
  | SSetAttr o a e =>
    match eval e en st with
    | EV x st1 =>
      match eval o en st1 with
      | EV v st2 =>
        match set_attr v a x st2 with
        | Some (st3, RVal _) => XNormal en st3
        | Some (st3, RExc ex) => XExc ex st3
        | None => XUnsup
        end
      | EX x' st2 => XExc x' st2
      | EUnsup => XUnsup
      | EFuel => XFuel
      end
    | EX x' st1 => XExc x' st1
    | EUnsup => XUnsup
    | EFuel => XFuel
    end
  | SDelItem l i =>
    match eval l en st with
    | EV vl st1 =>
      match eval i en st1 with
      | EV (VInt z) st2 =>
        match del_item st2 vl z with
        | Some (st3, RVal _) => XNormal en st3
        | Some (st3, RExc ex) => XExc ex st3
        | None => XUnsup
        end
      | EV _ _ => XUnsup
      | EX x' st2 => XExc x' st2
      | EUnsup => XUnsup
      | EFuel => XFuel
      end
    | EX x' st1 => XExc x' st1
    | EUnsup => XUnsup
    | EFuel => XFuel
    end
  | SStoreItem _ _ => XUnsup
  | SReturn e =>
    match eval e en st with
    | EV v st1 => XReturn v st1
    | EX x st1 => XExc x st1
    | EUnsup => XUnsup
    | EFuel => XFuel
    end
  | SIf c a b =>
    match eval c en st with
    | EV v st1 =>
      match truthy st1 v with
      | Some true => exec_block a en st1
      | Some false => exec_block b en st1
      | None => XUnsup
      end
    | EX x st1 => XExc x st1
    | EUnsup => XUnsup
    | EFuel => XFuel
    end
  | SFor p it b =>
    match eval it en st with
    | EV v st1 =>
      match iter_vals st1 v with
      | Some l => for_loop (exec_block b) p (same_list v (epoch st1)) l en st1
      | None => XUnsup
      end
    | EX x st1 => XExc x st1
    | EUnsup => XUnsup
    | EFuel => XFuel
    end
  | SContinue => XContinue en st
  | SAssert c =>
    match eval c en st with
    | EV v st1 =>
      match truthy st1 v with
      | Some true => XNormal en st1
      | Some false => XExc AssertionError st1
      | None => XUnsup
      end
    | EX x st1 => XExc x st1
    | EUnsup => XUnsup
    | EFuel => XFuel
    end
  | SRaise x => XExc x st
  | SPass => XNormal en st
  end
with exec_block (b : block) (en : env) (st : state) {struct b} : xres :=
  match b with
  | BNil => XNormal en st
  | BCons s b' =>
    match exec_stmt s en st with
    | XNormal en' st' => exec_block b' en' st'
    | x => x
    end
  end.

End Interp.

Definition finish (x : xres) : outcome :=
  match x with
  | XNormal _ st => ODone st (RVal VNone)
  | XReturn v st => ODone st (RVal v)
  | XExc e st => ODone st (RExc e)
  | XContinue _ _ => OUnsup
  | XUnsup => OUnsup
  | XFuel => OFuel
  end.

(* recv.m(vs) *)
Fixpoint call (n : nat) (tb : table) (recv : value) (m : mname) (vs : list value) (st : state)
  : outcome :=
  match n with
  | O => OFuel
  | S n' =>
    match find_meth tb st recv m with
    | Some d =>
      match bind_params (m_params d) (m_star d) vs with
      | Some en => finish (exec_block tb (call n' tb) (m_body d) (Some recv :: en) st)
      | None => OUnsup
      end
    | None => OUnsup
    end
  end.

(* ------------------------------------- the hand-written model's vocabulary *)
(* what is compared: the outcome class, the returned value, the tree *)
Inductive gres :=
| GDone (t : Tree.expr) (v : value)
| GExc (e : exn) (t : Tree.expr)
| GUnsup
| GFuel
| GBadCase.               (* Edit.EBadCase: the hand model's "outside the model"; never produced *)

Definition view (o : outcome) : gres :=
  match o with
  | ODone st (RVal v) => GDone (s_root st) v
  | ODone st (RExc e) => GExc e (s_root st)
  | OUnsup => GUnsup
  | OFuel => GFuel
  end.

Definition exn_of (e : eerr) : option exn :=
  match e with
  | ETypeError => Some TypeError
  | EValueError => Some ValueError
  | EAssertionError => Some AssertionError
  | EIndexError => Some IndexError
  | EBadCase => None
  end.
(* an Edit.outcome, given the tree before the call and the value a normal return has *)
Definition of_hand {A} (root : Tree.expr) (tree : A -> Tree.expr) (val : A -> value)
           (o : Edit.outcome A) : gres :=
  match o with
  | Done a => GDone (tree a) (val a)
  | Raise e => match exn_of e with Some x => GExc x root | None => GBadCase end
  | Partial e a => match exn_of e with Some x => GExc x (tree a) | None => GBadCase end
  end.
Definition of_tree (root : Tree.expr) (o : Edit.outcome Tree.expr) : gres :=
  of_hand root (fun t => t) (fun _ => VNone) o.

(* a state with no mutation logged *)
Definition init (root : Tree.expr) (ns : list (ref * pstate)) : state := mkS root [] ns.
(* the object at path p of a fresh state *)
Definition at_ (p : path) : value := VExpr (RIn p 0).
