(* The TexExpr hierarchy as one inductive type, and str() of every class. *)
From Coq Require Import List NArith ZArith Bool.
From TexModel Require Import Base Tables Chars Tokenizer.
Import ListNotations.

Inductive expr :=
| EText (t : token)                                            (* TexText wrapping a Token *)
| ERaw (s : str) (pos : Z)                                     (* bare Token (body of a skipped env) *)
| EStr (s : str)                                               (* plain str in a content list *)
| ECmd (name : str) (args : list expr) (body : list expr) (pos : Z)   (* TexCmd; body only for \item *)
| ENamed (name : str) (args : list expr) (body : list expr) (pos : Z) (* TexNamedEnv *)
| EMath (k : mathkind) (body : list expr) (pos : Z)            (* $ $$ \( \[ *)
| EGroup (k : groupkind) (body : list expr) (pos : Z)          (* BraceGroup / BracketGroup *)
| ERoot (body : list expr).                                    (* TexEnv('[tex]') *)

(* induction principle that reaches through the nested lists *)
Section expr_ind'.
  Variable P : expr -> Prop.
  Hypothesis HText : forall t, P (EText t).
  Hypothesis HRaw : forall s p, P (ERaw s p).
  Hypothesis HStr : forall s, P (EStr s).
  Hypothesis HCmd : forall n a b p, Forall P a -> Forall P b -> P (ECmd n a b p).
  Hypothesis HNamed : forall n a b p, Forall P a -> Forall P b -> P (ENamed n a b p).
  Hypothesis HMath : forall k b p, Forall P b -> P (EMath k b p).
  Hypothesis HGroup : forall k b p, Forall P b -> P (EGroup k b p).
  Hypothesis HRoot : forall b, Forall P b -> P (ERoot b).

  Fixpoint expr_ind' (e : expr) : P e :=
    let fix go (l : list expr) : Forall P l :=
        match l with
        | [] => Forall_nil P
        | x :: l' => Forall_cons x (expr_ind' x) (go l')
        end in
    match e with
    | EText t => HText t
    | ERaw s p => HRaw s p
    | EStr s => HStr s
    | ECmd n a b p => HCmd n a b p (go a) (go b)
    | ENamed n a b p => HNamed n a b p (go a) (go b)
    | EMath k b p => HMath k b p (go b)
    | EGroup k b p => HGroup k b p (go b)
    | ERoot b => HRoot b (go b)
    end.
End expr_ind'.

Fixpoint lookup_mk {A} (k : mathkind) (l : list (mathkind * A)) : option A :=
  match l with
  | [] => None
  | (k', v) :: l' => if mathkind_beq k k' then Some v else lookup_mk k l'
  end.
Fixpoint lookup_gk {A} (k : groupkind) (l : list (groupkind * A)) : option A :=
  match l with
  | [] => None
  | (k', v) :: l' => if groupkind_beq k k' then Some v else lookup_gk k l'
  end.

Definition math_begin (k : mathkind) : str :=
  match lookup_mk k Tables.math_classes with Some (_, ((b, _), _)) => b | None => [] end.
Definition math_end (k : mathkind) : str :=
  match lookup_mk k Tables.math_classes with Some (_, ((_, e), _)) => e | None => [] end.
Definition math_name (k : mathkind) : str :=
  match lookup_mk k Tables.math_classes with Some (_, (_, n)) => n | None => [] end.
Definition math_tok_begin (k : mathkind) : option tc :=
  match lookup_mk k Tables.math_classes with Some ((b, _), _) => Some b | None => None end.
Definition math_tok_end (k : mathkind) : option tc :=
  match lookup_mk k Tables.math_classes with Some ((_, e), _) => Some e | None => None end.
Definition group_begin (k : groupkind) : str :=
  match lookup_gk k Tables.group_classes with Some (_, ((b, _), _)) => b | None => [] end.
Definition group_end (k : groupkind) : str :=
  match lookup_gk k Tables.group_classes with Some (_, ((_, e), _)) => e | None => [] end.
Definition group_name (k : groupkind) : str :=
  match lookup_gk k Tables.group_classes with Some (_, (_, n)) => n | None => [] end.
Definition group_tok_begin (k : groupkind) : option tc :=
  match lookup_gk k Tables.group_classes with Some ((b, _), _) => Some b | None => None end.
Definition group_tok_end (k : groupkind) : option tc :=
  match lookup_gk k Tables.group_classes with Some ((_, e), _) => Some e | None => None end.

Definition backslash : N := 92%N.
(* "\begin{" "\end{" "}" *)
Definition s_begin_open : str := [92; 98; 101; 103; 105; 110; 123]%N.
Definition s_end_open : str := [92; 101; 110; 100; 123]%N.
Definition s_close : str := [125]%N.
Definition env_begin (name : str) : str := s_begin_open ++ name ++ s_close.
Definition env_end (name : str) : str := s_end_open ++ name ++ s_close.

Fixpoint estr (e : expr) : str :=
  match e with
  | EText t => ttext t
  | ERaw s _ => s
  | EStr s => s
  | ECmd n a b _ => backslash :: n ++ concat (map estr a) ++ concat (map estr b)
  | ENamed n a b _ => env_begin n ++ concat (map estr a) ++ concat (map estr b) ++ env_end n
  | EMath k b _ => math_begin k ++ concat (map estr b) ++ math_end k
  | EGroup k b _ => group_begin k ++ concat (map estr b) ++ group_end k
  | ERoot b => concat (map estr b)
  end.

Definition estr_list (l : list expr) : str := concat (map estr l).

(* TexExpr.string of an argument: its contents stringified *)
Definition arg_string (a : expr) : str :=
  match a with
  | EGroup _ b _ => estr_list b
  | ECmd _ _ b _ => estr_list b
  | ENamed _ _ b _ => estr_list b
  | EMath _ b _ => estr_list b
  | ERoot b => estr_list b
  | EText t => ttext t
  | ERaw s _ => s
  | EStr s => s
  end.

(* Python str.strip() *)
Definition is_ws (c : N) : bool := mem_N c Tables.py_whitespace.
Fixpoint lstrip (s : str) : str :=
  match s with
  | c :: s' => if is_ws c then lstrip s' else s
  | [] => []
  end.
Definition strip (s : str) : str := rev (lstrip (rev (lstrip s))).
