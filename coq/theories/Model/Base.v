(* Base enumerations shared by the generated tables and the hand-written model.
   The constructor lists mirror TexSoup.utils.CC / TC; gen_tables.py refuses to
   generate when the source enumerations differ. *)
From Coq Require Import List NArith ZArith Bool.
Import ListNotations.

Inductive cc :=
| CEscape | CGroupBegin | CGroupEnd | CMathSwitch | CAlignment | CEndOfLine | CMacro
| CSuperscript | CSubscript | CIgnored | CSpacer | CLetter | COther | CActive
| CComment | CInvalid | CMathGroupBegin | CMathGroupEnd | CBracketBegin | CBracketEnd
| CParenBegin | CParenEnd.

Inductive tc :=
| TEscape | TGroupBegin | TGroupEnd | TComment | TMergedSpacer | TEscapedComment
| TMathSwitch | TDisplayMathSwitch | TMathGroupBegin | TMathGroupEnd
| TDisplayMathGroupBegin | TDisplayMathGroupEnd | TLineBreak | TCommandName | TText
| TBracketBegin | TBracketEnd | TParenBegin | TParenEnd | TPunctuationCommandName
| TSizeCommand | TSpacer.

Inductive rule_id :=
| R_escaped_symbols | R_comment | R_math_sym_switch | R_math_asym_switch | R_line_break
| R_ignore | R_spacers | R_symbols | R_punctuation_command_name | R_command_name | R_string.

Inductive mathkind := MInline | MDisplay | MParen | MBracket.
Inductive groupkind := GBrace | GBracket.

Scheme Equality for cc.
Scheme Equality for tc.
Scheme Equality for mathkind.
Scheme Equality for groupkind.

Lemma cc_eqb_eq a b : cc_beq a b = true <-> a = b.
Proof. split; [apply internal_cc_dec_bl | apply internal_cc_dec_lb]. Qed.
Lemma tc_eqb_eq a b : tc_beq a b = true <-> a = b.
Proof. split; [apply internal_tc_dec_bl | apply internal_tc_dec_lb]. Qed.
Lemma mathkind_eqb_eq a b : mathkind_beq a b = true <-> a = b.
Proof. split; [apply internal_mathkind_dec_bl | apply internal_mathkind_dec_lb]. Qed.
Lemma groupkind_eqb_eq a b : groupkind_beq a b = true <-> a = b.
Proof. split; [apply internal_groupkind_dec_bl | apply internal_groupkind_dec_lb]. Qed.

(* strings are lists of code points *)
Definition str := list N.

Fixpoint str_eqb (a b : str) : bool :=
  match a, b with
  | [], [] => true
  | x :: a', y :: b' => N.eqb x y && str_eqb a' b'
  | _, _ => false
  end.

Lemma str_eqb_eq a b : str_eqb a b = true <-> a = b.
Proof.
  revert b; induction a as [|x a IH]; destruct b as [|y b]; simpl; split; intro H;
    try reflexivity; try discriminate.
  - apply andb_true_iff in H as [H1 H2]. apply N.eqb_eq in H1. apply IH in H2. congruence.
  - inversion H; subst. rewrite N.eqb_refl. simpl. apply IH. reflexivity.
Qed.

Lemma str_eqb_refl a : str_eqb a a = true.
Proof. apply str_eqb_eq. reflexivity. Qed.

Definition mem_cc (c : cc) (l : list cc) : bool := existsb (cc_beq c) l.
Definition mem_tc (c : tc) (l : list tc) : bool := existsb (tc_beq c) l.
Definition mem_N (c : N) (l : list N) : bool := existsb (N.eqb c) l.
Definition mem_str (s : str) (l : list str) : bool := existsb (str_eqb s) l.

Fixpoint starts_with (s p : str) : bool :=
  match p, s with
  | [], _ => true
  | y :: p', x :: s' => N.eqb x y && starts_with s' p'
  | _ :: _, [] => false
  end.

Fixpoint assoc_str {A} (k : str) (l : list (str * A)) : option A :=
  match l with
  | [] => None
  | (k', v) :: l' => if str_eqb k k' then Some v else assoc_str k l'
  end.
