(* RegexDSL: the small statement/expression language into which
   harness/gen_regex.py translates the body of TexNode.search_regex
   (TexSoup/data.py), and its interpreter.  One constructor per Python
   construct; Model/RegexGen.v (generated) is a term of [list stmt];
   Proofs/RegexGenProofs.v proves that running it is Regex.search_regex.

   What the interpreter is given (it does not model them):
     finditer    the regular-expression engine, as in Model/Regex.v: for a
                 string, the (match.start(), match.group()) pairs in the order
                 re.finditer(pattern, ., **kwargs) yields them
     self_text   the items `self.text` yields, as values (val_of_item)

   Python semantics kept:
     * search_regex is a generator: the statements run in order, a `yield`
       appends to the output, an exception ends the run and the matches
       yielded before it are kept;
     * operands and arguments are evaluated left to right, the first
       exception wins;
     * `x.position` on a plain str raises AttributeError at the point where
       it is evaluated; on a Token it is the position field (an int or None);
     * re.finditer(pattern, x) raises TypeError when x is not a str
       (Token is a subclass of str);
     * int + int, int - int are exact (Z);
     * match.group() / match.group(0) is a plain str, match.start() an int,
       match.end() = start + len(group);
     * a for-loop variable and an assigned local stay bound after the loop.
   Anything else (unbound variable, + on something that is not two ints,
   iterating over something that is not a list, yielding something that is
   not a Token, ...) is the outcome [Unsup]: never a normal-looking result. *)
From Coq Require Import List NArith ZArith Bool.
From TexModel Require Import Base Tables Chars Tokenizer Tree Reader Views Regex.
Import ListNotations.

Inductive rexpr :=
| RVar (i : nat)                    (* a local (numbered by first binding) *)
| RSelfText                         (* self.text *)
| RInt (z : Z)                      (* int literal *)
| RFinditer (e : rexpr)             (* re.finditer(pattern, e, **kwargs) *)
| RPosition (e : rexpr)             (* e.position *)
| RGroup (e : rexpr)                (* e.group() / e.group(0) *)
| RStart (e : rexpr)                (* e.start() *)
| REnd (e : rexpr)                  (* e.end() *)
| RAdd (a b : rexpr)                (* a + b *)
| RSub (a b : rexpr)                (* a - b *)
| RToken (a b : rexpr)              (* Token(a, b) *)
| RToken1 (a : rexpr).              (* Token(a): position defaults to None *)

Inductive stmt :=
| SAssign (i : nat) (e : rexpr)               (* x = e *)
| SYield (e : rexpr)                          (* yield e *)
| SFor (i : nat) (e : rexpr) (body : list stmt).   (* for x in e: body *)

Definition program := list stmt.

Inductive value :=
| VStr (s : str)                    (* plain str *)
| VTok (s : str) (p : option Z)     (* Token: text, position (None if not given) *)
| VInt (z : Z)
| VMatch (start : nat) (body : str) (* re.Match *)
| VNone
| VObj                              (* any other object (a TexNode, ...) *)
| VList (l : list value).           (* an iterable, already enumerated *)

(* an item of `self.text` as a value: see Regex.leaf_matches *)
Definition val_of_item (x : expr) : value :=
  match x with
  | ERaw s p => VTok s (Some p)
  | EStr s => VStr s
  | EText t => VTok (ttext t) (Some (-1)%Z)
  | _ => VObj
  end.

Definition vmatch (m : nat * str) : value := VMatch (fst m) (snd m).

Definition env := nat -> option value.
Definition empty_env : env := fun _ => None.
Definition upd (i : nat) (v : value) (en : env) : env :=
  fun j => if Nat.eqb j i then Some v else en j.

Inductive eres := EOk (v : value) | EErr (e : regex_error) | EUnsup.

(* how a block ended *)
Inductive status := Normal (en : env) | Raised (e : regex_error) | SUnsup.
Definition res := (list res_match * status)%type.

Inductive outcome :=
| Done (r : list res_match * option regex_error)
| Unsup.

Definition res_of (r : res) : outcome :=
  match snd r with
  | Normal _ => Done (fst r, None)
  | Raised e => Done (fst r, Some e)
  | SUnsup => Unsup
  end.

(* run [first], then [rest] from the environment it leaves *)
Definition then_ (first : res) (rest : env -> res) : res :=
  match first with
  | (ys, Normal en) => let '(ys', st) := rest en in (ys ++ ys', st)
  | r => r
  end.

Definition run_block (ex : stmt -> env -> res) : list stmt -> env -> res :=
  fix blk (b : list stmt) (en : env) : res :=
    match b with
    | [] => ([], Normal en)
    | s :: b' => then_ (ex s en) (blk b')
    end.

Definition run_loop (bd : env -> res) (i : nat) : list value -> env -> res :=
  fix loop (vs : list value) (en : env) : res :=
    match vs with
    | [] => ([], Normal en)
    | v :: vs' => then_ (bd (upd i v en)) (loop vs')
    end.

Section Interp.
Variable finditer : str -> list (nat * str).
Variable self_text : list value.

(* binary int operation, left operand first *)
Definition int_op (f : Z -> Z -> Z) (ra : eres) (rb : unit -> eres) : eres :=
  match ra with
  | EOk va =>
    match rb tt with
    | EOk vb =>
      match va, vb with
      | VInt x, VInt y => EOk (VInt (f x y))
      | _, _ => EUnsup
      end
    | r => r
    end
  | r => r
  end.

Fixpoint eval (e : rexpr) (en : env) : eres :=
  match e with
  | RVar i => match en i with Some v => EOk v | None => EUnsup end
  | RSelfText => EOk (VList self_text)
  | RInt z => EOk (VInt z)
  | RFinditer a =>
    match eval a en with
    | EOk (VStr s) => EOk (VList (map vmatch (finditer s)))
    | EOk (VTok s _) => EOk (VList (map vmatch (finditer s)))
    | EOk _ => EErr RegexTypeError
    | r => r
    end
  | RPosition a =>
    match eval a en with
    | EOk (VTok _ (Some p)) => EOk (VInt p)
    | EOk (VTok _ None) => EOk VNone
    | EOk (VStr _) => EErr AttributeError
    | EOk _ => EUnsup
    | r => r
    end
  | RGroup a =>
    match eval a en with
    | EOk (VMatch _ b) => EOk (VStr b)
    | EOk _ => EUnsup
    | r => r
    end
  | RStart a =>
    match eval a en with
    | EOk (VMatch st _) => EOk (VInt (Z.of_nat st))
    | EOk _ => EUnsup
    | r => r
    end
  | REnd a =>
    match eval a en with
    | EOk (VMatch st b) => EOk (VInt (Z.of_nat (st + length b)))
    | EOk _ => EUnsup
    | r => r
    end
  | RAdd a b => int_op Z.add (eval a en) (fun _ => eval b en)
  | RSub a b => int_op Z.sub (eval a en) (fun _ => eval b en)
  | RToken a b =>
    match eval a en with
    | EOk va =>
      match eval b en with
      | EOk vb =>
        match va, vb with
        | VStr s, VInt p => EOk (VTok s (Some p))
        | VTok s q, VInt _ => EOk (VTok s q)    (* Token(tok, p) keeps tok's own position: C13token A1 *)
        | VStr s, VNone => EOk (VTok s None)
        | VTok s q, VNone => EOk (VTok s q)
        | _, _ => EUnsup
        end
      | r => r
      end
    | r => r
    end
  | RToken1 a =>
    match eval a en with
    | EOk (VStr s) => EOk (VTok s None)
    | EOk (VTok s q) => EOk (VTok s q)
    | EOk _ => EUnsup
    | r => r
    end
  end.

Fixpoint exec (s : stmt) (en : env) {struct s} : res :=
  match s with
  | SAssign i e =>
    match eval e en with
    | EOk v => ([], Normal (upd i v en))
    | EErr x => ([], Raised x)
    | EUnsup => ([], SUnsup)
    end
  | SYield e =>
    match eval e en with
    | EOk (VTok s p) => ([(s, p)], Normal en)
    | EOk _ => ([], SUnsup)
    | EErr x => ([], Raised x)
    | EUnsup => ([], SUnsup)
    end
  | SFor i e body =>
    match eval e en with
    | EOk (VList vs) => run_loop (run_block exec body) i vs en
    | EOk _ => ([], SUnsup)
    | EErr x => ([], Raised x)
    | EUnsup => ([], SUnsup)
    end
  end.

Definition run_program (p : program) : outcome := res_of (run_block exec p empty_env).

End Interp.

(* root.search_regex(pattern, **kwargs) with the engine [finditer], where
   `self.text` yields the items [txt] *)
Definition run_search_regex (finditer : str -> list (nat * str)) (p : program)
           (txt : list expr) : outcome :=
  run_program finditer (map val_of_item txt) p.
