(* Model of the navigation and search views of TexSoup.data.TexExpr / TexNode:
   all, contents, children, descendants, text, __iter__, __getitem__, parent,
   __match__ (TexExpr and TexEnv), find_all, find, count, __getattr__.

   The functions are defined on ANY [expr], not only on parsed ones.

   A TexNode wrapper is modelled by the wrapped expression together with its
   *path*: the list of indices, each into the `contents` view of the node
   before, that leads to it from the node the walk started at.  TexNode
   wrappers are rebuilt by the code on every access; what identifies a node
   is the wrapped expression object, i.e. its place in the tree, i.e. its
   path.  `node.parent` is the wrapper the node was produced from: the path
   without its last index.  String items of a view (Token / str) are carried
   in the same shape [(path, expr)] with [expr] an [ERaw] (a Token: text and
   position) or an [EStr] (a plain str).  *)
From Coq Require Import List NArith ZArith Bool.
From TexModel Require Import Base Tables Chars Tokenizer Tree Reader.
Import ListNotations.

(* ------------------------------------------------------------------ *)
(* Python helpers                                                      *)

(* str.isspace(): non-empty and every character is whitespace *)
Definition str_isspace (s : str) : bool :=
  match s with
  | [] => false
  | _ :: _ => forallb is_ws s
  end.

(* `if isinstance(content, TexText): content = content._text` : a TexText
   wraps a Token (text, position) *)
Definition unwrap (e : expr) : expr :=
  match e with
  | EText t => ERaw (ttext t) (tpos t)
  | _ => e
  end.

(* `isinstance(content, str) and content.isspace()` *)
Definition is_blank (e : expr) : bool :=
  match e with
  | EText t => str_isspace (ttext t)
  | ERaw s _ => str_isspace s
  | EStr s => str_isspace s
  | _ => false
  end.

(* the loop body of TexExpr.contents (preserve_whitespace is never set by the
   reader) *)
Definition clean (l : list expr) : list expr :=
  filter (fun x => negb (is_blank x)) (map unwrap l).

(* isinstance(x, TexExpr): everything but bare Tokens and plain strs *)
Definition is_texexpr (e : expr) : bool :=
  match e with
  | ERaw _ _ | EStr _ => false
  | _ => true
  end.

(* isinstance(x, (TexEnv, TexCmd)) *)
Definition is_env_or_cmd (e : expr) : bool :=
  match e with
  | ECmd _ _ _ _ | ENamed _ _ _ _ | EMath _ _ _ | EGroup _ _ _ | ERoot _ => true
  | _ => false
  end.

(* isinstance(x, str): TexText, Token or plain str *)
Definition is_strlike (e : expr) : bool :=
  match e with
  | EText _ | ERaw _ _ | EStr _ => true
  | _ => false
  end.

(* isinstance(x, TexEnv) *)
Definition is_env (e : expr) : bool :=
  match e with
  | ENamed _ _ _ _ | EMath _ _ _ | EGroup _ _ _ | ERoot _ => true
  | _ => false
  end.

(* ------------------------------------------------------------------ *)
(* TexExpr.contents and TexExpr.all (mutually recursive in the code:
   `all` yields, for each argument, the argument's `contents`)          *)

Fixpoint expr_contents (e : expr) : list expr :=
  let fix over_args (l : list expr) : list expr :=
      match l with
      | [] => []
      | a :: l' => expr_contents a ++ over_args l'
      end in
  match e with
  | EText t => clean [ERaw (ttext t) (tpos t)]     (* TexText: _contents = [text] *)
  | ERaw _ _ => []                                 (* not a TexExpr: never an argument *)
  | EStr _ => []
  | ECmd _ a b _ => clean (over_args a ++ b)
  | ENamed _ a b _ => clean (over_args a ++ b)
  | EMath _ b _ => clean b
  | EGroup _ b _ => clean b
  | ERoot b => clean b
  end.

Definition expr_all (e : expr) : list expr :=
  match e with
  | EText t => [ERaw (ttext t) (tpos t)]
  | ERaw _ _ => []
  | EStr _ => []
  | ECmd _ a b _ => flat_map expr_contents a ++ b
  | ENamed _ a b _ => flat_map expr_contents a ++ b
  | EMath _ b _ => b
  | EGroup _ b _ => b
  | ERoot b => b
  end.

(* TexExpr.children *)
Definition expr_children (e : expr) : list expr :=
  filter is_env_or_cmd (expr_contents e).

(* nesting depth: the fuel of the node-level recursions *)
Fixpoint edepth (e : expr) : nat :=
  let fix mx (l : list expr) : nat :=
      match l with
      | [] => O
      | x :: l' => Nat.max (edepth x) (mx l')
      end in
  match e with
  | EText _ => O
  | ERaw _ _ => O
  | EStr _ => O
  | ECmd _ a b _ => S (Nat.max (mx a) (mx b))
  | ENamed _ a b _ => S (Nat.max (mx a) (mx b))
  | EMath _ b _ => S (mx b)
  | EGroup _ b _ => S (mx b)
  | ERoot b => S (mx b)
  end.

(* ------------------------------------------------------------------ *)
(* TexNode                                                             *)

Definition path := list nat.
Definition item := (path * expr)%type.

Fixpoint wrap_from (p : path) (i : nat) (l : list expr) : list item :=
  match l with
  | [] => []
  | x :: l' => (p ++ [i], x) :: wrap_from p (S i) l'
  end.

(* TexNode.contents: TexExpr items are wrapped (parent = self), strings are
   yielded as they are *)
Definition contents (n : item) : list item :=
  wrap_from (fst n) O (expr_contents (snd n)).

(* TexNode.children: wrappers of expr.children (a sub-list of expr.contents;
   the index recorded in the path is the one in `contents`) *)
Definition children (n : item) : list item :=
  filter (fun it => is_env_or_cmd (snd it)) (contents n).

(* TexNode.all: asserts that every item of expr.all is a TexExpr *)
Definition node_all (n : item) : option (list expr) :=
  if forallb is_texexpr (expr_all (snd n)) then Some (expr_all (snd n)) else None.

(* node.parent of a wrapper produced by a view *)
Definition parent_path (p : path) : path := removelast p.
(* node.parent.parent...  (k times) *)
Fixpoint ancestor_path (k : nat) (p : path) : path :=
  match k with
  | O => p
  | S k' => ancestor_path k' (parent_path p)
  end.

(* __iter__ / __getitem__ : list(self.contents)[i] with Python indexing;
   None = IndexError *)
Definition node_iter (n : item) : list item := contents n.
Definition node_getitem (n : item) (i : Z) : option item :=
  let l := contents n in
  let len := Z.of_nat (length l) in
  let j := if (i <? 0)%Z then (i + len)%Z else i in
  if (j <? 0)%Z then None else nth_error l (Z.to_nat j).

(* itertools.chain(self.contents, *[c.descendants for c in self.children]) *)
Fixpoint descendants_f (fuel : nat) (n : item) : list item :=
  match fuel with
  | O => []
  | S f => contents n ++ flat_map (descendants_f f) (children n)
  end.
Arguments descendants_f : simpl never.
Definition descendants (n : item) : list item :=
  descendants_f (S (edepth (snd n))) n.

(* TexNode.text *)
Fixpoint text_f (fuel : nat) (n : item) : list item :=
  match fuel with
  | O => []
  | S f => flat_map (fun it => if is_strlike (snd it) then [it] else text_f f it)
                    (contents n)
  end.
Arguments text_f : simpl never.
Definition text (n : item) : list item := text_f (S (edepth (snd n))) n.

(* ------------------------------------------------------------------ *)
(* __match__                                                           *)

Inductive query :=
| QName (s : str)             (* find_all('name') / find_all('\ref{x}') *)
| QList (l : list str).       (* find_all(['a', 'b']) *)

Definition c_lbrace : N := 123%N.
Definition c_lbracket : N := 91%N.
Definition s_text : str := [116; 101; 120; 116]%N.              (* 'text' *)
Definition s_roottex : str := [91; 116; 101; 120; 93]%N.        (* '[tex]' *)

(* the `name` attribute *)
Definition expr_name (e : expr) : str :=
  match e with
  | EText _ => s_text
  | ERaw _ _ => []
  | EStr _ => []
  | ECmd n _ _ _ => n
  | ENamed n _ _ _ => n
  | EMath k _ _ => math_name k
  | EGroup k _ _ => group_name k
  | ERoot _ => s_roottex
  end.

(* begin / end / str(args) of a TexEnv *)
Definition expr_begin (e : expr) : str :=
  match e with
  | ENamed n _ _ _ => env_begin n
  | EMath k _ _ => math_begin k
  | EGroup k _ _ => group_begin k
  | _ => []
  end.
Definition expr_end (e : expr) : str :=
  match e with
  | ENamed n _ _ _ => env_end n
  | EMath k _ _ => math_end k
  | EGroup k _ _ => group_end k
  | _ => []
  end.
Definition expr_args (e : expr) : list expr :=
  match e with
  | ECmd _ a _ _ => a
  | ENamed _ a _ _ => a
  | _ => []
  end.
Definition expr_begin_args (e : expr) : str := expr_begin e ++ estr_list (expr_args e).

(* `'{' in name or '[' in name`: substring test on a str, membership of the
   one-character strings on a list *)
Definition query_has_brace (q : query) : bool :=
  match q with
  | QName s => mem_N c_lbrace s || mem_N c_lbracket s
  | QList l => mem_str [c_lbrace] l || mem_str [c_lbracket] l
  end.

(* TexExpr.__match__ (attrs is empty in find_all) *)
Definition texexpr_match (q : query) (e : expr) : bool :=
  if query_has_brace q then
    match q with
    | QName s => str_eqb (estr e) s            (* str(self) == name *)
    | QList _ => false                         (* a str never equals a list *)
    end
  else
    match q with
    | QList l => mem_str (expr_name e) l
    | QName s => str_eqb (expr_name e) s
    end.

(* TexEnv.__match__ *)
Definition texenv_match (q : query) (e : expr) : bool :=
  match q with
  | QName s =>
    if str_eqb s (expr_name e) || str_eqb s (expr_begin_args e)
       || str_eqb s (expr_begin e) || str_eqb s (expr_end e)
    then true else texexpr_match q e
  | QList _ => texexpr_match q e               (* a list equals none of the four strs *)
  end.

(* hasattr(descendant, '__match__') and descendant.__match__(name, attrs) *)
Definition match_item (q : query) (e : expr) : bool :=
  match e with
  | ERaw _ _ => false
  | EStr _ => false
  | EText _ => texexpr_match q e
  | ECmd _ _ _ _ => texexpr_match q e
  | _ => texenv_match q e
  end.

Definition find_all (q : query) (n : item) : list item :=
  filter (fun it => match_item q (snd it)) (descendants n).

(* find_all(...)[0], IndexError -> None *)
Definition find (q : query) (n : item) : option item :=
  match find_all q n with
  | [] => None
  | x :: _ => Some x
  end.

Definition count (q : query) (n : item) : nat := length (find_all q n).

(* attribute access: __getattr__ is only reached when normal lookup fails,
   i.e. for names that are neither class attributes (dir(TexNode)) nor set by
   __init__ (expr, parent, char_to_line) *)
Definition instance_attrs : list str :=
  [[101; 120; 112; 114]%N; [112; 97; 114; 101; 110; 116]%N;
   [99; 104; 97; 114; 95; 116; 111; 95; 108; 105; 110; 101]%N].
Definition is_real_attr (a : str) : bool :=
  mem_str a Tables.dir_texnode || mem_str a instance_attrs.

Inductive attr_result :=
| AReal                          (* a real attribute: not a search *)
| AFound (r : option item).      (* self.find(attr) or None *)

Definition getattr (a : str) (n : item) : attr_result :=
  if is_real_attr a then AReal else AFound (find (QName a) n).

(* ------------------------------------------------------------------ *)
(* vocabulary of the specifications                                    *)

(* n reaches x by one or more `contents` steps *)
Inductive reach : item -> item -> Prop :=
| reach_one n x : In x (contents n) -> reach n x
| reach_step n c x : In c (contents n) -> reach c x -> reach n x.

(* a query that is a plain identifier: non-empty, and none of { [ } ] \ *)
Definition ident_query (q : str) : bool :=
  match q with
  | [] => false
  | _ :: _ => forallb (fun c => negb (mem_N c [123; 91; 125; 93; 92]%N)) q
  end.

(* the strings TexEnv.__match__ compares a str query with before it falls
   back to TexExpr.__match__ *)
Definition env_openings (e : expr) : list str :=
  [expr_name e; expr_begin_args e; expr_begin e; expr_end e].

(* every string under which a node can be found *)
Definition names_of (e : expr) : list str := estr e :: env_openings e.

(* ------------------------------------------------------------------ *)
(* independent structural enumerations used by the specifications      *)

(* every non-blank content item below e -- bodies of environments, items,
   math regions, groups, and the contents of arguments (an argument itself
   is not listed) -- depth first, left to right, arguments before body *)
Fixpoint walk (e : expr) : list expr :=
  let fix over_args (l : list expr) : list expr :=
      match l with
      | [] => []
      | a :: l' => walk a ++ over_args l'
      end in
  let fix over_body (l : list expr) : list expr :=
      match l with
      | [] => []
      | x :: l' =>
        match x with
        | EText t => if str_isspace (ttext t) then [] else [ERaw (ttext t) (tpos t)]
        | _ => if is_blank x then [] else x :: walk x
        end ++ over_body l'
      end in
  match e with
  | EText t => if str_isspace (ttext t) then [] else [ERaw (ttext t) (tpos t)]
  | ERaw _ _ => []
  | EStr _ => []
  | ECmd _ a b _ => over_args a ++ over_body b
  | ENamed _ a b _ => over_args a ++ over_body b
  | EMath _ b _ => over_body b
  | EGroup _ b _ => over_body b
  | ERoot b => over_body b
  end.

(* the non-blank string leaves strictly inside e, in document order
   (arguments before body, left to right, depth first) *)
Fixpoint leaves (e : expr) : list expr :=
  let fix over_args (l : list expr) : list expr :=
      match l with
      | [] => []
      | a :: l' => leaves a ++ over_args l'
      end in
  let fix over_body (l : list expr) : list expr :=
      match l with
      | [] => []
      | x :: l' =>
        match x with
        | EText t => if str_isspace (ttext t) then [] else [ERaw (ttext t) (tpos t)]
        | ERaw s p => if str_isspace s then [] else [ERaw s p]
        | EStr s => if str_isspace s then [] else [EStr s]
        | _ => leaves x
        end ++ over_body l'
      end in
  match e with
  | EText t => if str_isspace (ttext t) then [] else [ERaw (ttext t) (tpos t)]
  | ERaw _ _ => []
  | EStr _ => []
  | ECmd _ a b _ => over_args a ++ over_body b
  | ENamed _ a b _ => over_args a ++ over_body b
  | EMath _ b _ => over_body b
  | EGroup _ b _ => over_body b
  | ERoot b => over_body b
  end.

(* ------------------------------------------------------------------ *)
(* run_view: the driver entry.
     input : strict? ; nq ; query*nq ; source code points
             query = 0 ; len ; chars            (a name)
                   | 1 ; k ; (len ; chars)*k    (a list of names)
     output: -1 ; error code                                when parse fails
             one record per node, for the root and then every node of
             descendants(root), in that order (see enc_node)            *)

Definition enc_str (s : str) : list Z := Z.of_nat (length s) :: map Z.of_N s.
Definition enc_path (p : path) : list Z := Z.of_nat (length p) :: map Z.of_nat p.

Definition class_code (e : expr) : Z :=
  match e with
  | EText _ => 0
  | ERaw _ _ => 1
  | EStr _ => 2
  | ECmd _ _ _ _ => 3
  | ENamed _ _ _ _ => 4
  | EMath MInline _ _ => 5
  | EMath MDisplay _ _ => 6
  | EMath MParen _ _ => 7
  | EMath MBracket _ _ => 8
  | EGroup GBrace _ _ => 9
  | EGroup GBracket _ _ => 10
  | ERoot _ => 11
  end%Z.

Definition epos (e : expr) : Z :=
  match e with
  | EText t => tpos t
  | ERaw _ p => p
  | EStr _ => 0
  | ECmd _ _ _ p => p
  | ENamed _ _ _ p => p
  | EMath _ _ p => p
  | EGroup _ _ p => p
  | ERoot _ => (-1)
  end%Z.

(* an item of expr.all: class, position, text *)
Definition enc_expr (e : expr) : list Z := class_code e :: epos e :: enc_str (estr e).

(* an item of a node-level view: wrappers additionally show which node they
   are (path) and which node their `parent` is *)
Definition enc_item (it : item) : list Z :=
  if is_texexpr (snd it)
  then class_code (snd it) :: epos (snd it) :: enc_path (fst it)
         ++ enc_path (parent_path (fst it)) ++ enc_str (estr (snd it))
  else enc_expr (snd it).

Definition enc_list {A} (f : A -> list Z) (l : list A) : list Z :=
  Z.of_nat (length l) :: flat_map f l.

Definition enc_opt_item (o : option item) : list Z :=
  match o with
  | None => [0%Z]
  | Some it => 1%Z :: enc_item it
  end.

Definition enc_query (n : item) (q : query) : list Z :=
  ((-1010)%Z :: enc_list (fun it => enc_path (fst it)) (find_all q n))
    ++ enc_opt_item (find q n)
    ++ [Z.of_nat (count q n)]
    ++ match q with
       | QName s =>
         match getattr s n with
         | AReal => [2%Z]
         | AFound o => enc_opt_item o
         end
       | QList _ => [3%Z]
       end.

Definition enc_node (qs : list query) (n : item) : list Z :=
  ((-1002)%Z :: enc_path (fst n))
    ++ [class_code (snd n); epos (snd n)]
    ++ enc_str (expr_name (snd n))
    ++ enc_str (estr (snd n))
    ++ ((-1003)%Z :: enc_list enc_expr (expr_all (snd n)))
    ++ [(-1004)%Z; match node_all n with Some _ => 1 | None => 0 end]%Z
    ++ ((-1005)%Z :: enc_list enc_item (contents n))
    ++ ((-1006)%Z :: enc_list enc_item (children n))
    ++ ((-1007)%Z :: enc_list enc_item (descendants n))
    ++ ((-1008)%Z :: enc_list enc_item (text n))
    ++ ((-1009)%Z :: enc_opt_item (node_getitem n 0) ++ enc_opt_item (node_getitem n (-1))
                  ++ enc_opt_item (node_getitem n 1) ++ enc_opt_item (node_getitem n (-2)))
    ++ flat_map (enc_query n) qs.

Definition err_code (e : err) : Z :=
  match e with
  | EOFError => 1
  | TypeError => 2
  | AssertionError => 3
  | StopIteration => 4
  | KeyError => 5
  | TokenizerError => 6
  | OutOfFuel => 7
  end%Z.

Definition take_str (l : list Z) : str * list Z :=
  match l with
  | [] => ([], [])
  | k :: l' => (map Z.to_N (firstn (Z.to_nat k) l'), skipn (Z.to_nat k) l')
  end.

Fixpoint take_strs (k : nat) (l : list Z) : list str * list Z :=
  match k with
  | O => ([], l)
  | S k' => let '(s, l1) := take_str l in
            let '(ss, l2) := take_strs k' l1 in
            (s :: ss, l2)
  end.

Fixpoint take_queries (k : nat) (l : list Z) : list query * list Z :=
  match k with
  | O => ([], l)
  | S k' =>
    match l with
    | [] => ([], [])
    | kind :: l0 =>
      let '(q, l1) :=
          if (kind =? 0)%Z then let '(s, r) := take_str l0 in (QName s, r)
          else match l0 with
               | [] => (QList [], [])
               | m :: l0' => let '(ss, r) := take_strs (Z.to_nat m) l0' in (QList ss, r)
               end in
      let '(qs, l2) := take_queries k' l1 in
      (q :: qs, l2)
    end
  end.

Definition view_of_tree (qs : list query) (e : expr) : list Z :=
  let root : item := ([], e) in
  flat_map (enc_node qs)
           (root :: filter (fun it => is_texexpr (snd it)) (descendants root)).

Definition run_view (inp : list Z) : list Z :=
  match inp with
  | strict :: nq :: rest =>
    let '(qs, src) := take_queries (Z.to_nat nq) rest in
    match parse (map Z.to_N src) (negb (strict =? 0)%Z) [] with
    | Ok e => view_of_tree qs e
    | Err er => [(-1)%Z; err_code er]
    end
  | _ => [(-2)%Z]
  end.
