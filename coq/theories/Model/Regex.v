(* Model of TexNode.search_regex (TexSoup/data.py):

     for node in self.text:
         for match in re.finditer(pattern, node, **kwargs):
             body = match.group()
             start = match.start()
             yield Token(body, node.position + start)

   The regular-expression engine is NOT modelled.  `re.finditer(pattern, .)`
   is the Section variable [finditer]: for a string it returns the list of
   (match.start(), match.group()) in the order the engine yields them.  Its
   documented contract -- match.group() is the text standing at match.start()
   -- is a HYPOTHESIS of the theorems (Proofs/RegexProofs.v), not an axiom.

   `self.text` is Views.text.  Its items are strings: a Token (text and
   position) is [ERaw s p], a plain str (the content of a bare-token argument)
   is [EStr s].  The paths Views attaches to view items play no part here.

   search_regex is a generator: `node.position` is evaluated inside the inner
   loop only, i.e. once per match.  A plain str has no attribute `position`,
   so the generator raises AttributeError at the first match inside the
   first plain-str leaf that has one -- after having yielded every match of
   the leaves before it -- and a plain-str leaf without a match is passed
   over silently.  The result is therefore the list of matches yielded
   together with the exception, if any, that ended the generator. *)
From Coq Require Import List NArith ZArith Bool.
From TexModel Require Import Base Tables Chars Tokenizer Tree Reader Views.
Import ListNotations.

(* Token(body, position): the position field of a Token is optional in the
   code (default None); search_regex always sets it *)
Definition res_match := (str * option Z)%type.

Inductive regex_error :=
| AttributeError      (* 'str' object has no attribute 'position' *)
| RegexTypeError.     (* re.finditer on something that is not a str *)

Section Regex.
Variable finditer : str -> list (nat * str).

(* the inner loop over one Token at position p *)
Definition token_matches (s : str) (p : Z) : list res_match :=
  map (fun m => (snd m, Some (p + Z.of_nat (fst m))%Z)) (finditer s).

(* the inner loop for one item of `self.text` *)
Definition leaf_matches (x : expr) : list res_match * option regex_error :=
  match x with
  | ERaw s p => (token_matches s p, None)
  | EStr s =>
    match finditer s with
    | [] => ([], None)                              (* loop body never runs *)
    | _ :: _ => ([], Some AttributeError)           (* node.position, first match *)
    end
  (* the two remaining cases are never items of `text` (contents unwraps
     every TexText; text yields str instances only -- proved in
     RegexProofs.text_items_are_strings); they mirror what the code would do:
     a TexText is a str, its own `position` is the default -1 the reader
     leaves it with; anything else makes re.finditer raise TypeError *)
  | EText t => (token_matches (ttext t) (-1)%Z, None)
  | _ => ([], Some RegexTypeError)
  end.

(* the outer loop: the matches yielded before the generator ended, and the
   exception that ended it *)
Fixpoint search_strs (l : list expr) : list res_match * option regex_error :=
  match l with
  | [] => ([], None)
  | x :: l' =>
    match leaf_matches x with
    | (ms, Some e) => (ms, Some e)
    | (ms, None) => let '(ms', r) := search_strs l' in (ms ++ ms', r)
    end
  end.

Definition search_regex (n : item) : list res_match * option regex_error :=
  search_strs (map snd (text n)).

End Regex.

(* ------------------------------------------------------------------ *)
(* a concrete engine for the harness: re.finditer(re.escape(pat), s).
   re.finditer yields the leftmost match, then resumes the scan at its end
   (non-overlapping matches); after an empty match it resumes one character
   further, so the empty pattern matches once at every offset 0..len(s).
   [skip] = characters still covered by the previous match; [i] = offset of
   the head of [s]. *)
Fixpoint find_lit (pat : str) (skip : nat) (i : nat) (s : str) : list (nat * str) :=
  match s with
  | [] =>
    match skip, pat with
    | O, [] => [(i, [])]
    | _, _ => []
    end
  | _ :: s' =>
    match skip with
    | S k => find_lit pat k (S i) s'
    | O => if starts_with s pat
           then (i, pat) :: find_lit pat (pred (length pat)) (S i) s'
           else find_lit pat O (S i) s'
    end
  end.

Definition find_literal (pat : str) (s : str) : list (nat * str) := find_lit pat O O s.

(* ------------------------------------------------------------------ *)
(* run_regex: the driver entry.
     input : strict? ; len_pat ; pat code points ; source code points
     output: -1 ; error code                     when parse fails (Views.err_code)
             -2                                  malformed input
             n ; (len_body ; body... ; has_pos ; pos)*n ; status
               the n matches yielded by root.search_regex(re.escape(pat)), in
               order, then how the generator ended:
               0 exhausted, 1 AttributeError, 2 TypeError *)
Definition enc_match (m : res_match) : list Z :=
  enc_str (fst m) ++ match snd m with
                     | Some q => [1; q]
                     | None => [0; 0]
                     end%Z.

Definition enc_regex_error (o : option regex_error) : Z :=
  match o with
  | None => 0
  | Some AttributeError => 1
  | Some RegexTypeError => 2
  end%Z.

Definition run_regex (inp : list Z) : list Z :=
  match inp with
  | strict :: rest =>
    match rest with
    | [] => [(-2)%Z]
    | _ :: _ =>
      let '(pat, src) := take_str rest in
      match parse (map Z.to_N src) (negb (strict =? 0)%Z) [] with
      | Ok e =>
        let '(ms, r) := search_regex (find_literal pat) ([], e) in
        enc_list enc_match ms ++ [enc_regex_error r]
      | Err er => [(-1)%Z; err_code er]
      end
    end
  | _ => [(-2)%Z]
  end.
