(* A small imperative language for the GLUE of TexSoup -- the functions that
   connect the translated parts -- and its interpreter:

     TexSoup/category.py   categorize(text)
     TexSoup/tokens.py     next_token(text, prev=None), tokenize(text)
     TexSoup/tex.py        read(tex, skip_envs=(), tolerance=0)
     TexSoup/__init__.py   TexSoup(tex_code, skip_envs=(), tolerance=0)

   harness/gen_glue.py reads the Python `ast` of these four files on every run
   and writes each function as a term of type `fundef` (Model/GlueGen.v), one
   constructor per Python construct.  Proofs/GlueGenProofs.v shows that the
   interpretation of those terms -- calling the translated token rules of
   Model/TokGen.v and the translated reader of Model/ReadGen.v where the source
   calls them -- is the hand-written model (Chars.categorize,
   Tokenizer.tokenize, Reader.parse) on every input.  Trusted: (a) the
   translator maps each construct to the constructor named after it, (b) the
   interpreter below gives that construct the meaning it has in Python for the
   objects involved.  Every semantic decision is listed here.

   ------------------------------------------------------------------ values
   VNone VBool VInt VStr     None, bool, int, plain str (list of code points)
   VTok t                    a utils.Token: text, position, category (None, a CC
                             member or a TC member) -- TokDSL.tokv
   VCat k                    a CC member
   VChars l                  a value of the dict CATEGORY_CODES: a str or a tuple
                             of one-character strs; l = its characters
   VRule r / VRuleName r     one registered tokenizer function / its name (the
                             name is never used: opaque)
   VTuple l / VList l        tuple / list
   VSeq buf l e              an iterator that has not been advanced (buf = true: a
                             utils.Buffer at position 0, what @to_buffer()
                             returns; false: a generator object, enumerate,
                             reversed, itertools.chain): it will produce the
                             items l and then stop (e = None) or raise e.
                             Generators are run EAGERLY when they are created;
                             the exception a lazy generator would raise when it
                             is consumed is kept in e and raised by a consumer
                             that exhausts the iterator first (''.join, list(..)
                             inside TexEnv).  What a generator yielded before it
                             raised is not kept (VSeq _ [] (Some e)), and a `for`
                             over / chain of / buffer function applied to an
                             iterator with a pending exception is OUnsup.  Eager
                             = lazy here because a generator only touches its
                             own locals and its own input iterator, which nothing
                             else can reach: a local that holds an iterator
                             becomes UNBOUND when a statement reads it (`used`,
                             below), so an iterator is consumed at most once.
   VRead v / VReadExc e      what the translated reader's read_tex generator will
                             produce: the ReadDSL value of all its yields / the
                             exception it raises when consumed
   VExpr e                   a TexExpr (Model/Tree.v)
   VNode e src               TexNode(e, src=src)

   ------------------------------------------------------- the cursor buffer
   next_token and tokenize work on `text`, a utils.Buffer over the categorised
   characters.  As in TokDSL.v / Tokenizer.v its state is: the characters from
   the cursor on (b_rest), text.position (b_idx) and what text.peek(-1) gives
   the sizing-command rule and the command-name rule (b_pp, b_pc; they differ
   only at index 0, where Python's queue[-1] is the last character
   materialised by look-ahead).  This look-behind bookkeeping is NOT
   translated: `fresh_text` (a Buffer nobody has advanced) and `advance` (after
   a rule consumed k >= 1 characters both are the last consumed character) are
   hand-written here exactly as in Tokenizer.tokenize_with / tokenize_loop, and
   tied to the code by the correspondence runs only.
   text.hasNext(n)   bool(text.peek(n-1)): there are n characters left (a
                     character is a Token of one code point, hence truthy)
   text.position     b_idx
   f(text, prev=p)   f a registered rule: TokDSL.run_full on the translated rule
                     body (env g_rules), with prev = p (None or a Token with a
                     TC category):  RNone -> None, cursor unchanged;  RTok t r
                     -> the token, cursor advanced to r;  RSkip r -> None,
                     cursor advanced;  RErr -> AttributeError;  the rule leaving
                     its fragment / running out of its fuel -> same here.
   A function whose first parameter is used this way (fd_cursor) receives the
   caller's buffer when the caller passes its own `text`, and otherwise
   converts its first argument (an un-advanced iterator of one-character CC
   tokens) with fresh_text.  @to_buffer() on such a function: a Buffer argument
   is used as it is, any other iterable is wrapped -- same items (Buffer's
   default init is Token(item, index), which copies a Token).

   ------------------------------------------------------------------ expressions
   truth value       None False 0 '' () []: false; other bool/int/str/tuple/
                     list, a Token with non-empty text, a CC member (all are
                     non-zero IntEnums), a function: true; rest OUnsup.
   a and b / a or b  Python's: the value of a if that decides, else of b.
   a is None / a is not None     only with the literal None on the right.
   == !=             ints; str/Token among themselves by text; CC members; None
                     against those; everything else OUnsup.
   x in VChars l     x a str/Token of exactly ONE code point (what iterating a
                     str gives): membership.  (`c in 'ab'` is a substring test
                     and `c in ('a','b')` uses ==; for one-character c both are
                     membership.)   x in tuple/list: == left to right.
   x.category in TC  [GCatInTC] true for a Token whose category is a TC member;
                     AttributeError for None; other categories OUnsup (Enum
                     containment of a foreign member depends on the Python
                     version).
   isinstance(x, str)  str and Token: true; None, numbers, tuple, list,
                     iterators: false; rest OUnsup.
   x.isspace()       x a str / Token (a str subclass whose str value is its
                     text): non-empty and every code point in
                     Tables.py_whitespace (dumped from this interpreter's
                     str.isspace); None: AttributeError; rest OUnsup.
   a if c else b     c first; then only the chosen operand.
   itertools.chain( *x )   x a tuple/list/un-advanced iterator of iterables; a
                     str contributes its characters (one-character strs), a
                     tuple/list its elements; result VSeq.
   sep.join(x)       x an iterable of strs/Tokens: concatenation with sep
                     between; a non-str element is a TypeError: OUnsup.
   enumerate(x, k)   x an un-advanced iterator / tuple / list / str; an iterator.
   reversed(x)       x a tuple / list; an iterator.
   tokenizers        the module-level list of (name, function) in registration
                     order: env g_order (TokGen.gen_rule_order).
   CATEGORY_CODES.items()  Tables.category_table (regenerated from the same dict
                     literal by gen_tables.py), in dict order.
   Token(t, p, c)    Token.__new__ (pinned by the translator): t a Token ->
                     text and POSITION of t (p is evaluated and ignored),
                     category c if c is truthy, else t's; t a str -> text t,
                     position p (an int), category c (None or a CC member).
   TexEnv(n, b, e, contents=c)   only the root: n = '[tex]', b = e = '';
                     c is consumed by list(c) (TexExpr.__init__, pinned): a
                     pending exception is raised here; the items must be
                     TexExprs (ReadDSL.contents_of for a VRead).  Value
                     VExpr (ERoot items).
   TexNode(e, src=s) e a TexExpr (else AssertionError: OUnsup), s a str or None.

   ------------------------------------------------------------------ statements
   x = e;  x = f(text, prev=e) (a rule, above);  x[, y] = g(args) (one of the
   five functions or reader.read_tex; keywords and defaults resolved by the
   translator into a positional list; tuple targets unpack a tuple of the same
   length);  return e;  break;  continue;  pass;  assert e (AssertionError);
   yield e;  if / while / for (no else clauses).  Loop variables stay bound
   after the loop.  Reading an unbound local is OUnsup.
   while loops exist only in cursor functions and run with fuel
   (characters left at loop entry) + 2; running out is OFuel (so a loop that
   does not consume is reported, never silently cut).
   read_tex(buf, skip_envs=s, tolerance=t)   ReadDSL.run on the translated
                     reader (env g_reader) with fuel ReadDSL.gen_fuel, buf a
                     fresh Buffer (VSeq true; read_tex calls buf.hasNext) of TC
                     tokens, s a tuple/list of strs, t an int.  read_tex is a
                     generator: its exception is raised by the consumer
                     (VReadExc).
   Calls nest at most `depth` deep (TexSoup -> read -> tokenize -> next_token);
   the translator checks the call graph, so CFuel from depth does not occur.
   Exceptions are values of `exn`; nothing here catches them. *)
From Coq Require Import List NArith ZArith Bool.
From TexModel Require Import Base Tables Chars Tokenizer Tree Reader.
From TexModel Require TokDSL ReadDSL.
Import ListNotations.

(* ------------------------------------------------------------------ syntax *)

Definition var := nat.

Inductive fname :=
| F_next_token | F_tokenize | F_categorize | F_read | F_TexSoup
| F_read_tex.      (* TexSoup.reader.read_tex: interpreted by ReadDSL *)

Inductive gx :=
| GNone | GBool (b : bool) | GInt (z : Z) | GStr (s : str) | GCat (k : cc) | GEmptyTuple
| GVar (x : var)
| GPosition                       (* text.position *)
| GHasNext (n : nat)              (* text.hasNext(n); hasNext() is hasNext(1) *)
| GTokenizers                     (* tokenizers *)
| GCategoryItems                  (* CATEGORY_CODES.items() *)
| GReversed (a : gx)              (* reversed(a) *)
| GEnumerate (a : gx) (start : Z) (* enumerate(a[, start]) *)
| GIsNone (a : gx)                (* a is None *)
| GIsNotNone (a : gx)             (* a is not None *)
| GEq (a b : gx) | GNe (a b : gx)
| GIn (a b : gx)
| GNot (a : gx) | GAnd (a b : gx) | GOr (a b : gx)
| GCatInTC (a : gx)               (* a.category in TC *)
| GIsStr (a : gx)                 (* isinstance(a, str) *)
| GIsSpace (a : gx)               (* a.isspace() *)
| GIfExp (c a b : gx)             (* a if c else b *)
| GChainStar (a : gx)             (* itertools.chain( *a ) *)
| GJoin (sep a : gx)              (* sep.join(a) *)
| GPair (a b : gx)                (* a, b *)
| GNewToken (t p c : gx)          (* Token(t, p, c) *)
| GNewTexEnv (name b e contents : gx)   (* TexEnv(name, begin=b, end=e, contents=contents) *)
| GNewTexNode (e src : gx).       (* TexNode(e, src=src) *)

Inductive gs :=
| SAssign (x : var) (e : gx)
| SCallRule (x : var) (f : gx) (prev : gx)          (* x = f(text, prev=prev) *)
| SCall (xs : list var) (f : fname) (pass_text : bool) (args : list gx)
      (* xs = f([text,] args): pass_text = the first Python argument is the
         caller's own cursor buffer `text` *)
| SReturn (e : gx)
| SBreak | SContinue | SPass
| SAssert (e : gx)
| SYield (e : gx)
| SIf (c : gx) (a b : gblock)
| SWhile (c : gx) (b : gblock)
| SFor (xs : list var) (it : gx) (b : gblock)
with gblock :=
| GNil
| GCons (s : gs) (b : gblock).

Fixpoint blk (l : list gs) : gblock :=
  match l with
  | [] => GNil
  | s :: l' => GCons s (blk l')
  end.

(* ------------------------------------------------------------------ values *)

Inductive exn := XAttributeError | XErr (e : err).

Inductive value :=
| VNone | VBool (b : bool) | VInt (z : Z) | VStr (s : str)
| VTok (t : TokDSL.tokv)
| VCat (k : cc)
| VChars (l : list N)
| VRule (r : rule_id) | VRuleName (r : rule_id)
| VTuple (l : list value) | VList (l : list value)
| VSeq (buf : bool) (l : list value) (e : option exn)
| VRead (v : ReadDSL.value) | VReadExc (e : err)
| VExpr (e : expr)
| VNode (e : expr) (src : option str).

(* fd_params: number of parameters, the cursor buffer (if fd_cursor) not
   counted; fd_defaults: default values of the last parameters; fd_conv_in: the
   @to_buffer() conversion of the first argument of a function that is not a
   cursor function (categorize); fd_gen: the body contains yield *)
Record fundef := mkfd { fd_cursor : bool; fd_conv_in : bool; fd_gen : bool;
                        fd_params : nat; fd_defaults : list value;
                        fd_nlocals : nat; fd_body : gblock }.

Record genv := mkenv { g_rules : rule_id -> TokDSL.program; g_order : list rule_id;
                       g_reader : ReadDSL.program_table; g_funs : fname -> option fundef }.

(* ------------------------------------------------------------ cursor buffer *)

Record bstate := mkb { b_rest : list cchar; b_idx : Z;
                       b_pp : option cchar; b_pc : option cchar }.

(* Buffer(<un-advanced iterator of characters>): Tokenizer.tokenize_with *)
Definition fresh_text (cs : list cchar) : bstate :=
  mkb cs 0%Z (start_prev_punct cs) (start_prev_cmd Tables.punctuation_commands cs).

(* after a rule left the cursor at rest': Tokenizer.tokenize_loop; nothing
   changes when nothing was consumed *)
Definition advance (b : bstate) (rest' : list cchar) : bstate :=
  match (length (b_rest b) - length rest')%nat with
  | O => b
  | S _ as k =>
    let lc := last_consumed (b_rest b) rest' in
    mkb rest' (b_idx b + Z.of_nat k)%Z lc lc
  end.

Definition cchar_val (c : cchar) : value :=
  VTok (TokDSL.mkv [ch c] (cpos c) (TokDSL.KCC (ccat c))).
Definition token_val (t : token) : value :=
  VTok (TokDSL.mkv (ttext t) (tpos t) (TokDSL.KTC (tcat t))).

Definition val_cchar (v : value) : option cchar :=
  match v with
  | VTok (TokDSL.mkv [c] p (TokDSL.KCC k)) => Some (mkc c p k)
  | _ => None
  end.
Definition val_token (v : value) : option token :=
  match v with
  | VTok (TokDSL.mkv s p (TokDSL.KTC k)) => Some (mkt s p k)
  | _ => None
  end.

Fixpoint all_some {A B} (f : A -> option B) (l : list A) : option (list B) :=
  match l with
  | [] => Some []
  | x :: l' =>
    match f x, all_some f l' with
    | Some y, Some ys => Some (y :: ys)
    | _, _ => None
    end
  end.

Inductive rcall := RV (v : value) (b : bstate) | RX (e : exn) | RUnsup | RFuel.

(* prev=...: None or a Token carrying a TC category *)
Definition prev_of (v : value) : option (option token) :=
  match v with
  | VNone => Some None
  | _ => match val_token v with Some t => Some (Some t) | None => None end
  end.

Definition call_rule (env : genv) (r : rule_id) (prev : option token) (b : bstate) : rcall :=
  match TokDSL.run_full (g_rules env r)
          (TokDSL.ctx_of r (mkctx (b_idx b) prev (b_pp b) (b_pc b) Tables.punctuation_commands))
          (b_rest b) with
  | TokDSL.ODone RNone => RV VNone b
  | TokDSL.ODone (RTok t rest') => RV (token_val t) (advance b rest')
  | TokDSL.ODone (RSkip rest') => RV VNone (advance b rest')
  | TokDSL.ODone RErr => RX XAttributeError
  | TokDSL.OUnsup => RUnsup
  | TokDSL.OFuel => RFuel
  end.

(* ------------------------------------------------------------------- frames *)

Record frame := mkfr { fr_loc : list (option value); fr_text : option bstate;
                       fr_out : list value }.     (* fr_out: the yields, in order *)

Definition get_loc (fr : frame) (x : var) : option value :=
  match nth_error (fr_loc fr) x with
  | Some (Some v) => Some v
  | _ => None
  end.

Fixpoint upd {A} (l : list A) (n : nat) (a : A) : list A :=
  match l, n with
  | [], _ => []
  | _ :: l', O => a :: l'
  | x :: l', S n' => x :: upd l' n' a
  end.

Definition set_loc (fr : frame) (x : var) (v : value) : frame :=
  mkfr (upd (fr_loc fr) x (Some v)) (fr_text fr) (fr_out fr).
Definition set_text (fr : frame) (b : bstate) : frame :=
  mkfr (fr_loc fr) (Some b) (fr_out fr).
Definition add_out (fr : frame) (v : value) : frame :=
  mkfr (fr_loc fr) (fr_text fr) (fr_out fr ++ [v]).

(* x = v  /  x, y = v *)
Fixpoint set_locs (fr : frame) (xs : list var) (vs : list value) : option frame :=
  match xs, vs with
  | [], [] => Some fr
  | x :: xs', v :: vs' => set_locs (set_loc fr x v) xs' vs'
  | _, _ => None
  end.

Definition bind_targets (fr : frame) (xs : list var) (v : value) : option frame :=
  match xs with
  | [] => None
  | [x] => Some (set_loc fr x v)
  | _ => match v with
         | VTuple l => set_locs fr xs l
         | _ => None
         end
  end.

(* ------------------------------------------------------------- expressions *)

Inductive eres := EV (v : value) | EX (e : exn) | EU.

Definition nonempty {A} (l : list A) : bool :=
  match l with [] => false | _ :: _ => true end.

Definition truthy (v : value) : option bool :=
  match v with
  | VNone => Some false
  | VBool b => Some b
  | VInt z => Some (negb (Z.eqb z 0))
  | VStr s => Some (nonempty s)
  | VTok t => Some (nonempty (TokDSL.v_text t))
  | VCat k => Some (negb (N.eqb (Tables.cc_value k) 0))
  | VRule _ => Some true
  | VTuple l => Some (nonempty l)
  | VList l => Some (nonempty l)
  | _ => None
  end.

Definition text_of (v : value) : option str :=
  match v with
  | VStr s => Some s
  | VTok t => Some (TokDSL.v_text t)
  | _ => None
  end.

Definition is_simple (v : value) : bool :=
  match v with
  | VInt _ | VStr _ | VTok _ | VCat _ => true
  | _ => false
  end.

Definition py_eq (a b : value) : option bool :=
  match a, b with
  | VNone, VNone => Some true
  | VNone, _ => if is_simple b then Some false else None
  | _, VNone => if is_simple a then Some false else None
  | VInt x, VInt y => Some (Z.eqb x y)
  | VCat x, VCat y => Some (cc_beq x y)
  | _, _ =>
    match text_of a, text_of b with
    | Some s, Some t => Some (str_eqb s t)
    | _, _ => None
    end
  end.

Fixpoint val_in (a : value) (l : list value) : option bool :=
  match l with
  | [] => Some false
  | x :: l' =>
    match py_eq a x with
    | Some true => Some true
    | Some false => val_in a l'
    | None => None
    end
  end.

Definition py_in (a b : value) : option bool :=
  match b with
  | VChars l =>
    match text_of a with
    | Some [c] => Some (mem_N c l)
    | _ => None
    end
  | VTuple l => val_in a l
  | VList l => val_in a l
  | _ => None
  end.

(* the items an un-advanced iterable will give, and how it ends *)
Definition items_of (v : value) : option (list value * option exn) :=
  match v with
  | VTuple l => Some (l, None)
  | VList l => Some (l, None)
  | VSeq _ l e => Some (l, e)
  | VStr s => Some (map (fun c => VStr [c]) s, None)
  | _ => None
  end.

Fixpoint enum_from (k : Z) (l : list value) : list value :=
  match l with
  | [] => []
  | x :: l' => VTuple [VInt k; x] :: enum_from (k + 1)%Z l'
  end.

(* itertools.chain( *parts ): all parts are unpacked first, so a part that is
   not iterable or an iterator with a pending exception is outside the fragment *)
Fixpoint chain_items (parts : list value) : option (list value) :=
  match parts with
  | [] => Some []
  | p :: ps =>
    match items_of p, chain_items ps with
    | Some (l, None), Some r => Some (l ++ r)
    | _, _ => None
    end
  end.

Fixpoint join_strs (sep : str) (l : list str) : str :=
  match l with
  | [] => []
  | [s] => s
  | s :: l' => s ++ sep ++ join_strs sep l'
  end.

Definition new_token (t p c : value) : eres :=
  match t with
  | VTok tk =>
    (* Token(tok, p, c): text and position of tok; category c or tok.category *)
    match c with
    | VNone => EV (VTok tk)
    | VCat k =>
      if N.eqb (Tables.cc_value k) 0 then EV (VTok tk)
      else EV (VTok (TokDSL.mkv (TokDSL.v_text tk) (TokDSL.v_pos tk) (TokDSL.KCC k)))
    | _ => EU
    end
  | VStr s =>
    match p, c with
    | VInt z, VNone => EV (VTok (TokDSL.mkv s z TokDSL.KNone))
    | VInt z, VCat k => EV (VTok (TokDSL.mkv s z (TokDSL.KCC k)))
    | _, _ => EU
    end
  | _ => EU
  end.

Definition str_root : str := [91; 116; 101; 120; 93]%N.     (* '[tex]' *)

Fixpoint exprs_of (l : list value) : option (list expr) :=
  match l with
  | [] => Some []
  | VExpr e :: l' => match exprs_of l' with Some es => Some (e :: es) | None => None end
  | _ :: _ => None
  end.

Definition new_texenv (n b e c : value) : eres :=
  match n, b, e with
  | VStr sn, VStr [], VStr [] =>
    if str_eqb sn str_root then
      match c with
      | VRead v =>
        match ReadDSL.contents_of v with
        | Some body => EV (VExpr (ERoot body))
        | None => EU
        end
      | VReadExc er => EX (XErr er)
      | _ =>
        match items_of c with
        | Some (l, None) =>
          match exprs_of l with Some es => EV (VExpr (ERoot es)) | None => EU end
        | Some (_, Some x) => EX x
        | None => EU
        end
      end
    else EU
  | _, _, _ => EU
  end.

Definition new_texnode (e s : value) : eres :=
  match e, s with
  | VExpr x, VStr src => EV (VNode x (Some src))
  | VExpr x, VNone => EV (VNode x None)
  | _, _ => EU
  end.

Definition is_str (v : value) : option bool :=
  match v with
  | VStr _ | VTok _ => Some true
  | VNone | VBool _ | VInt _ | VTuple _ | VList _ | VSeq _ _ _ => Some false
  | _ => None
  end.

Definition ebind (r : eres) (f : value -> eres) : eres :=
  match r with
  | EV v => f v
  | x => x
  end.

Definition of_bool (o : option bool) : eres :=
  match o with Some b => EV (VBool b) | None => EU end.

Fixpoint eval (env : genv) (fr : frame) (e : gx) {struct e} : eres :=
  match e with
  | GNone => EV VNone
  | GBool b => EV (VBool b)
  | GInt z => EV (VInt z)
  | GStr s => EV (VStr s)
  | GCat k => EV (VCat k)
  | GEmptyTuple => EV (VTuple [])
  | GVar x => match get_loc fr x with Some v => EV v | None => EU end
  | GPosition => match fr_text fr with Some b => EV (VInt (b_idx b)) | None => EU end
  | GHasNext n =>
    match fr_text fr, n with
    | Some b, S k => EV (VBool (match nth_error (b_rest b) k with Some _ => true | None => false end))
    | _, _ => EU
    end
  | GTokenizers => EV (VList (map (fun r => VTuple [VRuleName r; VRule r]) (g_order env)))
  | GCategoryItems =>
    EV (VList (map (fun kv => VTuple [VCat (fst kv); VChars (snd kv)]) Tables.category_table))
  | GReversed a =>
    ebind (eval env fr a) (fun v =>
      match v with
      | VList l => EV (VSeq false (rev l) None)
      | VTuple l => EV (VSeq false (rev l) None)
      | _ => EU
      end)
  | GEnumerate a k =>
    ebind (eval env fr a) (fun v =>
      match items_of v with
      | Some (l, x) => EV (VSeq false (enum_from k l) x)
      | None => EU
      end)
  | GIsNone a =>
    ebind (eval env fr a) (fun v => EV (VBool (match v with VNone => true | _ => false end)))
  | GIsNotNone a =>
    ebind (eval env fr a) (fun v => EV (VBool (match v with VNone => false | _ => true end)))
  | GEq a b =>
    ebind (eval env fr a) (fun x => ebind (eval env fr b) (fun y => of_bool (py_eq x y)))
  | GNe a b =>
    ebind (eval env fr a) (fun x => ebind (eval env fr b) (fun y =>
      of_bool (option_map negb (py_eq x y))))
  | GIn a b =>
    ebind (eval env fr a) (fun x => ebind (eval env fr b) (fun y => of_bool (py_in x y)))
  | GNot a => ebind (eval env fr a) (fun x => of_bool (option_map negb (truthy x)))
  | GAnd a b =>
    ebind (eval env fr a) (fun x =>
      match truthy x with
      | Some true => eval env fr b
      | Some false => EV x
      | None => EU
      end)
  | GOr a b =>
    ebind (eval env fr a) (fun x =>
      match truthy x with
      | Some true => EV x
      | Some false => eval env fr b
      | None => EU
      end)
  | GCatInTC a =>
    ebind (eval env fr a) (fun x =>
      match x with
      | VNone => EX XAttributeError
      | VTok t => match TokDSL.v_cat t with TokDSL.KTC _ => EV (VBool true) | _ => EU end
      | _ => EU
      end)
  | GIsStr a => ebind (eval env fr a) (fun x => of_bool (is_str x))
  | GIsSpace a =>
    ebind (eval env fr a) (fun x =>
      match x with
      | VNone => EX XAttributeError
      | _ => match text_of x with
             | Some s => EV (VBool (nonempty s && forallb (fun c => mem_N c Tables.py_whitespace) s))
             | None => EU
             end
      end)
  | GIfExp c a b =>
    ebind (eval env fr c) (fun x =>
      match truthy x with
      | Some true => eval env fr a
      | Some false => eval env fr b
      | None => EU
      end)
  | GChainStar a =>
    ebind (eval env fr a) (fun x =>
      match items_of x with
      | Some (parts, None) =>
        match x, chain_items parts with
        | VStr _, _ => EU      (* chain( *'abc' ) is fine in Python, but not the code's use *)
        | _, Some l => EV (VSeq false l None)
        | _, None => EU
        end
      | _ => EU
      end)
  | GJoin sep a =>
    ebind (eval env fr sep) (fun s => ebind (eval env fr a) (fun x =>
      match s, items_of x with
      | VStr ss, Some (l, None) =>
        match all_some text_of l with
        | Some strs => EV (VStr (join_strs ss strs))
        | None => EU
        end
      | VStr _, Some (_, Some ex) => EX ex
      | _, _ => EU
      end))
  | GPair a b =>
    ebind (eval env fr a) (fun x => ebind (eval env fr b) (fun y => EV (VTuple [x; y])))
  | GNewToken t p c =>
    ebind (eval env fr t) (fun x => ebind (eval env fr p) (fun y => ebind (eval env fr c) (fun z =>
      new_token x y z)))
  | GNewTexEnv n b e c =>
    ebind (eval env fr n) (fun vn => ebind (eval env fr b) (fun vb =>
      ebind (eval env fr e) (fun ve => ebind (eval env fr c) (fun vc => new_texenv vn vb ve vc))))
  | GNewTexNode e s =>
    ebind (eval env fr e) (fun x => ebind (eval env fr s) (fun y => new_texnode x y))
  end.

Fixpoint eval_list (env : genv) (fr : frame) (l : list gx) : option (list value) + exn :=
  match l with
  | [] => inl (Some [])
  | e :: l' =>
    match eval env fr e with
    | EV v =>
      match eval_list env fr l' with
      | inl (Some vs) => inl (Some (v :: vs))
      | x => x
      end
    | EX x => inr x
    | EU => inl None
    end
  end.

(* An iterator can be consumed once.  Every statement that reads a local whose
   value is an iterator (other than to test `is None` / isinstance) leaves that
   local UNBOUND afterwards, so a second use is OUnsup instead of silently
   seeing the items again. *)
Fixpoint used_vars (e : gx) : list var :=
  match e with
  | GVar x => [x]
  | GIsNone (GVar _) | GIsNotNone (GVar _) | GIsStr (GVar _) => []
  | GReversed a | GEnumerate a _ | GIsNone a | GIsNotNone a | GNot a | GCatInTC a | GIsStr a
  | GChainStar a | GIsSpace a => used_vars a
  | GIfExp c a b => used_vars c ++ used_vars a ++ used_vars b
  | GEq a b | GNe a b | GIn a b | GAnd a b | GOr a b | GJoin a b | GPair a b | GNewTexNode a b =>
    used_vars a ++ used_vars b
  | GNewToken a b c => used_vars a ++ used_vars b ++ used_vars c
  | GNewTexEnv a b c d => used_vars a ++ used_vars b ++ used_vars c ++ used_vars d
  | _ => []
  end.

Definition is_iter (v : value) : bool :=
  match v with
  | VSeq _ _ _ | VRead _ | VReadExc _ => true
  | _ => false
  end.

Definition clear_loc (fr : frame) (x : var) : frame :=
  mkfr (upd (fr_loc fr) x None) (fr_text fr) (fr_out fr).

Fixpoint consume (fr : frame) (xs : list var) : frame :=
  match xs with
  | [] => fr
  | x :: xs' =>
    consume (match get_loc fr x with
             | Some v => if is_iter v then clear_loc fr x else fr
             | None => fr
             end) xs'
  end.

Definition used (fr : frame) (e : gx) : frame := consume fr (used_vars e).

(* -------------------------------------------------------------- statements *)

Inductive xres :=
| XNormal (fr : frame)
| XBreak (fr : frame)
| XContinue (fr : frame)
| XReturn (v : value) (fr : frame)
| XExc (e : exn)
| XUnsup
| XFuel.

(* what a call gives back: the value and, for a cursor function, the buffer *)
Inductive cres :=
| CRet (v : value) (b : option bstate)
| CExc (e : exn)
| CUnsup
| CFuel.

Fixpoint while_loop (ev : frame -> eres) (cons : frame -> frame) (body : frame -> xres)
         (fuel : nat) (fr : frame) : xres :=
  match fuel with
  | O => XFuel
  | S f =>
    match ev fr with
    | EV v =>
      match truthy v with
      | Some true =>
        match body (cons fr) with
        | XNormal fr' => while_loop ev cons body f fr'
        | XContinue fr' => while_loop ev cons body f fr'
        | XBreak fr' => XNormal fr'
        | x => x
        end
      | Some false => XNormal (cons fr)
      | None => XUnsup
      end
    | EX x => XExc x
    | EU => XUnsup
    end
  end.

Fixpoint for_loop (xs : list var) (body : frame -> xres) (items : list value) (fr : frame)
  : xres :=
  match items with
  | [] => XNormal fr
  | v :: items' =>
    match bind_targets fr xs v with
    | None => XUnsup
    | Some fr1 =>
      match body fr1 with
      | XNormal fr' => for_loop xs body items' fr'
      | XContinue fr' => for_loop xs body items' fr'
      | XBreak fr' => XNormal fr'
      | x => x
      end
    end
  end.

Definition loop_fuel (fr : frame) : option nat :=
  match fr_text fr with
  | Some b => Some (S (S (length (b_rest b))))
  | None => None
  end.

Section Exec.
Variable env : genv.
(* a call of one of the functions: name, arguments, the caller's cursor buffer *)
Variable callf : fname -> list value -> option bstate -> cres.

Definition do_call (fr : frame) (xs : list var) (f : fname) (pass_text : bool) (args : list gx)
  : xres :=
  match eval_list env fr args with
  | inr x => XExc x
  | inl None => XUnsup
  | inl (Some vs) =>
    match (if pass_text then match fr_text fr with Some b => Some (Some b) | None => None end
           else Some None) with
    | None => XUnsup
    | Some tb =>
      match callf f vs tb with
      | CRet v b' =>
        let fr0 := consume fr (flat_map used_vars args) in
        let fr1 := match pass_text, b' with
                   | true, Some b1 => Some (set_text fr0 b1)
                   | true, None => None
                   | false, _ => Some fr0
                   end in
        match fr1 with
        | Some fr2 =>
          match bind_targets fr2 xs v with
          | Some fr3 => XNormal fr3
          | None => XUnsup
          end
        | None => XUnsup
        end
      | CExc x => XExc x
      | CUnsup => XUnsup
      | CFuel => XFuel
      end
    end
  end.

Definition do_call_rule (fr : frame) (x : var) (f prev : gx) : xres :=
  match eval env fr f with
  | EV (VRule r) =>
    match eval env fr prev with
    | EV pv =>
      match prev_of pv, fr_text fr with
      | Some p, Some b =>
        match call_rule env r p b with
        | RV v b' => XNormal (set_loc (set_text (used (used fr f) prev) b') x v)
        | RX e => XExc e
        | RUnsup => XUnsup
        | RFuel => XFuel
        end
      | _, _ => XUnsup
      end
    | EX e => XExc e
    | EU => XUnsup
    end
  | EV _ => XUnsup
  | EX e => XExc e
  | EU => XUnsup
  end.

Fixpoint exec_stmt (s : gs) (fr : frame) {struct s} : xres :=
  match s with
  | SAssign x e =>
    match eval env fr e with
    | EV v => XNormal (set_loc (used fr e) x v)
    | EX x => XExc x
    | EU => XUnsup
    end
  | SCallRule x f prev => do_call_rule fr x f prev
  | SCall xs f pt args => do_call fr xs f pt args
  | SReturn e =>
    match eval env fr e with
    | EV v => XReturn v (used fr e)
    | EX x => XExc x
    | EU => XUnsup
    end
  | SBreak => XBreak fr
  | SContinue => XContinue fr
  | SPass => XNormal fr
  | SAssert e =>
    match eval env fr e with
    | EV v =>
      match truthy v with
      | Some true => XNormal (used fr e)
      | Some false => XExc (XErr AssertionError)
      | None => XUnsup
      end
    | EX x => XExc x
    | EU => XUnsup
    end
  | SYield e =>
    match eval env fr e with
    | EV v => XNormal (add_out (used fr e) v)
    | EX x => XExc x
    | EU => XUnsup
    end
  | SIf c a b =>
    match eval env fr c with
    | EV v =>
      match truthy v with
      | Some true => exec_block a (used fr c)
      | Some false => exec_block b (used fr c)
      | None => XUnsup
      end
    | EX x => XExc x
    | EU => XUnsup
    end
  | SWhile c b =>
    match loop_fuel fr with
    | Some n => while_loop (fun fr' => eval env fr' c) (fun fr' => used fr' c) (exec_block b) n fr
    | None => XUnsup
    end
  | SFor xs it b =>
    match eval env fr it with
    | EV v =>
      match items_of v with
      | Some (l, None) => for_loop xs (exec_block b) l (used fr it)
      | _ => XUnsup      (* not iterable, or an iterator that raises part-way *)
      end
    | EX x => XExc x
    | EU => XUnsup
    end
  end
with exec_block (b : gblock) (fr : frame) {struct b} : xres :=
  match b with
  | GNil => XNormal fr
  | GCons s b' =>
    match exec_stmt s fr with
    | XNormal fr' => exec_block b' fr'
    | x => x
    end
  end.

End Exec.

(* ------------------------------------------------------------------- calls *)

(* Buffer(str): Token(c, index) per character, category None *)
Fixpoint str_tokens (p : Z) (s : str) : list value :=
  match s with
  | [] => []
  | c :: s' => VTok (TokDSL.mkv [c] p TokDSL.KNone) :: str_tokens (p + 1)%Z s'
  end.

Definition is_tok (v : value) : bool := match v with VTok _ => true | _ => false end.

(* @to_buffer() on a function that is not a cursor function (categorize): a
   str becomes a Buffer of its characters; an iterator of Tokens keeps its
   items (Buffer's init Token(item, index) copies a Token) *)
Definition conv_in (v : value) : option value :=
  match v with
  | VStr s => Some (VSeq true (str_tokens 0%Z s) None)
  | VSeq _ l e => if forallb is_tok l then Some (VSeq true l e) else None
  | _ => None
  end.

(* missing trailing arguments take their defaults *)
Definition fill_args (fd : fundef) (args : list value) : option (list value) :=
  let n := length args in
  let nd := length (fd_defaults fd) in
  if (fd_params fd <? n)%nat then None
  else if (nd <? fd_params fd - n)%nat then None
  else Some (args ++ skipn (nd - (fd_params fd - n)) (fd_defaults fd)).

Definition finish (fd : fundef) (x : xres) : cres :=
  match x with
  | XNormal fr =>
    if fd_gen fd then CRet (VSeq true (fr_out fr) None) (fr_text fr) else CRet VNone (fr_text fr)
  | XReturn v fr =>
    if fd_gen fd
    then match v with
         | VNone => CRet (VSeq true (fr_out fr) None) (fr_text fr)
         | _ => CUnsup
         end
    else CRet v (fr_text fr)
  | XExc e =>
    (* a generator raises when it is consumed; what it yielded before and
       where it left the buffer are not kept *)
    if fd_gen fd then CRet (VSeq true [] (Some e)) None else CExc e
  | XBreak _ | XContinue _ => CUnsup
  | XUnsup => CUnsup
  | XFuel => CFuel
  end.

Definition invoke (env : genv) (callf : fname -> list value -> option bstate -> cres)
           (fd : fundef) (args : list value) (tb : option bstate) : cres :=
  let start :=
    if fd_cursor fd then
      match tb with
      | Some b => Some (Some b, args)
      | None =>
        match args with
        | a0 :: args' =>
          match items_of a0 with
          | Some (l, None) =>
            match all_some val_cchar l with
            | Some cs => Some (Some (fresh_text cs), args')
            | None => None
            end
          | _ => None
          end
        | [] => None
        end
      end
    else
      match tb with
      | Some _ => None
      | None =>
        if fd_conv_in fd then
          match args with
          | a0 :: args' =>
            match conv_in a0 with
            | Some v => Some (None, v :: args')
            | None => None
            end
          | [] => None
          end
        else Some (None, args)
      end in
  match start with
  | None => CUnsup
  | Some (text, params) =>
    match fill_args fd params with
    | None => CUnsup
    | Some vs =>
      finish fd (exec_block env callf (fd_body fd)
                   (mkfr (map Some vs ++ repeat None (fd_nlocals fd - length vs)) text []))
    end
  end.

(* reader.read_tex(buf, skip_envs, tolerance): the translated reader *)
Definition strs_val (l : list value) : option (list ReadDSL.value) :=
  all_some (fun v => match v with VStr s => Some (ReadDSL.VStr s) | _ => None end) l.

Definition call_read_tex (env : genv) (args : list value) : cres :=
  match args with
  | [VSeq true l None; skip; VInt tol] =>
    match all_some val_token l,
          (match skip with
           | VTuple sl => option_map ReadDSL.VTuple (strs_val sl)
           | VList sl => option_map ReadDSL.VList (strs_val sl)
           | _ => None
           end) with
    | Some toks, Some sk =>
      match ReadDSL.run (g_reader env) (ReadDSL.gen_fuel toks) ReadDSL.F_read_tex
                        [sk; ReadDSL.VInt tol] (ReadDSL.mkbuf toks 0) with
      | ReadDSL.ODone v _ => CRet (VRead v) None
      | ReadDSL.OExc e => CRet (VReadExc e) None      (* a generator: raised when consumed *)
      | ReadDSL.OUnsup => CUnsup
      | ReadDSL.OFuel => CFuel
      end
    | _, _ => CUnsup
    end
  | _ => CUnsup
  end.

Fixpoint call (env : genv) (depth : nat) (f : fname) (args : list value) (tb : option bstate)
  : cres :=
  match depth with
  | O => CFuel
  | S d =>
    match f with
    | F_read_tex => match tb with None => call_read_tex env args | Some _ => CUnsup end
    | _ =>
      match g_funs env f with
      | Some fd => invoke env (call env d) fd args tb
      | None => CUnsup
      end
    end
  end.

(* ------------------------------------------------------------ from the top *)

Inductive gout (A : Type) := GDone (a : A) | GRaise (e : exn) | GUnsup | GFuel.
Arguments GDone {A} a.
Arguments GRaise {A} e.
Arguments GUnsup {A}.
Arguments GFuel {A}.

Definition chars_val (cs : list cchar) : value := VSeq true (map cchar_val cs) None.
Definition tokens_val (ts : list token) : value := VSeq true (map token_val ts) None.

(* list(categorize(s)) *)
Definition categorize_glue (env : genv) (s : str) : gout (list cchar) :=
  match call env 1 F_categorize [VStr s] None with
  | CRet (VSeq _ l None) _ =>
    match all_some val_cchar l with Some cs => GDone cs | None => GUnsup end
  | CRet (VSeq _ _ (Some e)) _ => GRaise e
  | CRet _ _ => GUnsup
  | CExc e => GRaise e
  | CUnsup => GUnsup
  | CFuel => GFuel
  end.

(* next_token(text, prev) on a buffer in state b: the token or None, and the
   state it leaves *)
Definition next_token_glue (env : genv) (b : bstate) (prev : option token)
  : gout (option token * bstate) :=
  match call env 1 F_next_token
             [match prev with Some t => token_val t | None => VNone end] (Some b) with
  | CRet VNone (Some b') => GDone (None, b')
  | CRet v (Some b') => match val_token v with Some t => GDone (Some t, b') | None => GUnsup end
  | CRet _ None => GUnsup
  | CExc e => GRaise e
  | CUnsup => GUnsup
  | CFuel => GFuel
  end.

(* list(tokenize(<un-advanced Buffer of the characters cs>)) *)
Definition tokenize_glue (env : genv) (cs : list cchar) : gout (list token) :=
  match call env 2 F_tokenize [chars_val cs] None with
  | CRet (VSeq _ l None) _ =>
    match all_some val_token l with Some ts => GDone ts | None => GUnsup end
  | CRet (VSeq _ _ (Some e)) _ => GRaise e
  | CRet _ _ => GUnsup
  | CExc e => GRaise e
  | CUnsup => GUnsup
  | CFuel => GFuel
  end.

(* the hand model's result in the same type: a rule dereferencing None is an
   AttributeError, a round without progress loops for ever *)
Definition tok_result (r : list token * tok_end) : gout (list token) :=
  match snd r with
  | TEnd => GDone (fst r)
  | TEndErr => GRaise XAttributeError
  | TEndHang => GFuel
  | TEndFuel => GFuel
  end.

(* the arguments of read / TexSoup as values *)
Definition skip_val (l : list str) : value := VTuple (map VStr l).
Definition tol_val (strict : bool) : value := VInt (if strict then 0 else 1).
Definition chunks_val (l : list str) : value := VList (map VStr l).

Definition top_call (env : genv) (f : fname) (args : list value) : gout value :=
  match call env 4 f args None with
  | CRet v _ => GDone v
  | CExc e => GRaise e
  | CUnsup => GUnsup
  | CFuel => GFuel
  end.

(* Reader.parse in that type: read returns (root, source), TexSoup the node *)
Definition read_result (src : str) (r : res expr) : gout value :=
  match r with
  | Ok e => GDone (VTuple [VExpr e; VStr src])
  | Err er => GRaise (XErr er)
  end.

Definition soup_result (src : str) (r : res expr) : gout value :=
  match r with
  | Ok e => GDone (VNode e (Some src))
  | Err er => GRaise (XErr er)
  end.
