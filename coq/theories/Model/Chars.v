(* Model of TexSoup.category.categorize: the category of a character is that of
   the first table (in dict order) containing it, else Other; its position is
   its index. *)
From Coq Require Import List NArith ZArith Bool.
From TexModel Require Import Base Tables.
Import ListNotations.

Record cchar := mkc { ch : N; cpos : Z; ccat : cc }.

Fixpoint lookup_cat (tbl : list (cc * list N)) (c : N) : option cc :=
  match tbl with
  | [] => None
  | (k, vs) :: tbl' => if mem_N c vs then Some k else lookup_cat tbl' c
  end.

Definition categorize_char (c : N) : cc :=
  match lookup_cat Tables.category_table c with
  | Some k => k
  | None => COther
  end.

Fixpoint categorize_from (p : Z) (s : str) : list cchar :=
  match s with
  | [] => []
  | c :: s' => mkc c p (categorize_char c) :: categorize_from (p + 1)%Z s'
  end.

Definition categorize (s : str) : list cchar := categorize_from 0%Z s.

Definition chars_of (cs : list cchar) : str := map ch cs.
