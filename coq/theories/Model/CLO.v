(* placeholder: model under construction *)
From Coq Require Import List ZArith.
Import ListNotations.
Definition run_clo (inp : list Z) : list Z := [].
