(* Model of TexSoup.utils.CharToLineOffset (utils.py:462-491).

     def __init__(self, src):
         self.line_break_positions = [i for i, c in enumerate(src) if c == '\n']
         self.src_len = len(src)

     def __call__(self, char_pos):
         line_no = bisect.bisect_left(self.line_break_positions, char_pos)
         if line_no == 0:
             char_no = char_pos
         elif line_no == len(self.line_break_positions):
             line_start = self.line_break_positions[-1]
             char_no = min(char_pos - line_start - 1, self.src_len - line_start)
         else:
             char_no = char_pos - self.line_break_positions[line_no - 1] - 1
         return line_no, char_no

   A source is a list of code points (N); offsets, lines and columns are Z
   (char_pos is an arbitrary Python int: negative and too large values are
   accepted by the code and by the model alike).  No proofs here; see
   Proofs/CLOProofs.v. *)
From Coq Require Import List NArith ZArith Bool.
Import ListNotations.
Open Scope Z_scope.

Definition is_lf (c : N) : bool := N.eqb c 10%N.

(* [i for i, c in enumerate(src, start=k) if c == '\n'] *)
Fixpoint line_breaks_from (src : list N) (k : Z) : list Z :=
  match src with
  | [] => []
  | c :: r => if is_lf c then k :: line_breaks_from r (k + 1)
              else line_breaks_from r (k + 1)
  end.

Definition line_breaks (src : list N) : list Z := line_breaks_from src 0.

(* bisect.bisect_left(l, x) on a list sorted in increasing order: the insertion
   point that keeps l sorted and lies left of any element equal to x, i.e. the
   number of elements < x.  (line_break_positions is strictly increasing by
   construction; CLOProofs.line_breaks_sorted.) *)
Fixpoint bisect_left (l : list Z) (x : Z) : nat :=
  match l with
  | [] => O
  | y :: r => if y <? x then S (bisect_left r x) else bisect_left r x
  end.

(* Python l[-1] on a non-empty list / l[k] for 0 <= k < len l; the default 0 is
   never reached from clo (the branches guarantee a valid index). *)
Definition py_last (l : list Z) : Z := last l 0.
Definition py_nth (l : list Z) (k : Z) : Z := nth (Z.to_nat k) l 0.

Definition clo (src : list N) (char_pos : Z) : Z * Z :=
  let lbp := line_breaks src in
  let src_len := Z.of_nat (length src) in
  let line_no := Z.of_nat (bisect_left lbp char_pos) in
  if line_no =? 0 then
    (line_no, char_pos)
  else if line_no =? Z.of_nat (length lbp) then
    let line_start := py_last lbp in
    (line_no, Z.min (char_pos - line_start - 1) (src_len - line_start))
  else
    (line_no, char_pos - py_nth lbp (line_no - 1) - 1).

(* Generic driver entry: [offset; c0; c1; ...] (code points) -> [line; col]. *)
Definition run_clo (inp : list Z) : list Z :=
  match inp with
  | [] => []
  | off :: cs => let (l, c) := clo (map Z.to_N cs) off in [l; c]
  end.
