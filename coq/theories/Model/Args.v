(* Executable model of TexSoup.data.TexArgs (the argument list of a node), of
   TexGroup.parse / BraceGroup / BracketGroup / arg_type, and of the textual
   equality TexExpr.__eq__ that list.remove / list.index / `in` use.

   Python strings are lists of code points (Z).  A group is (kind, body):
   kind = false is BraceGroup, kind = true is BracketGroup; body is the string
   the group was built from (BraceGroup(body)), so str(group) is
   begin + body + end.  An element of the shadow list `.all` is a group or a
   (whitespace) string.  Everything below the line "Reference list machine" is
   the specification side used by property C18, not a model of code.

   Scope notes (also stated in harness/corr_args.py):
   * str.isspace is modelled for every code point (the Unicode White_Space-like
     set CPython uses); the harness checks that set against the running Python.
   * groups are built from one string (as TexGroup.parse builds them); commands
     (TexCmd) as list elements are not modelled.
   * slices have step 1. *)
From Coq Require Import List ZArith Bool.
Import ListNotations.
Local Open Scope Z_scope.

Definition pstr := list Z.

Fixpoint pstr_eqb (a b : pstr) : bool :=
  match a, b with
  | [], [] => true
  | x :: a', y :: b' => Z.eqb x y && pstr_eqb a' b'
  | _, _ => false
  end.

Definition zlen {A} (l : list A) : Z := Z.of_nat (length l).

(* ------------------------------------------------------------------ *)
(* Python built-ins used by the code                                   *)

(* str.isspace(): at least one character and every character is whitespace *)
Definition is_space_char (c : Z) : bool :=
  ((9 <=? c) && (c <=? 13)) || ((28 <=? c) && (c <=? 32)) || (c =? 133) || (c =? 160)
  || (c =? 5760) || ((8192 <=? c) && (c <=? 8202)) || (c =? 8232) || (c =? 8233)
  || (c =? 8239) || (c =? 8287) || (c =? 12288).

Definition is_space (s : pstr) : bool :=
  match s with
  | [] => false
  | _ :: _ => forallb is_space_char s
  end.

Fixpoint starts_with (s p : pstr) : bool :=
  match p, s with
  | [], _ => true
  | y :: p', x :: s' => Z.eqb x y && starts_with s' p'
  | _ :: _, [] => false
  end.

Definition ends_with (s p : pstr) : bool := starts_with (rev s) (rev p).

(* ''.join(parts) *)
Definition py_join (parts : list pstr) : pstr := fold_left (fun acc s => acc ++ s) parts [].

Section PyList.
  Context {A : Type}.

  (* index normalisation of list.insert (CPython ins1) *)
  Definition norm_insert (n i : Z) : Z :=
    let i := if i <? 0 then i + n else i in
    if i <? 0 then 0 else if n <? i then n else i.

  Fixpoint insert_at (k : nat) (x : A) (l : list A) : list A :=
    match k, l with
    | O, _ => x :: l
    | S k', [] => [x]
    | S k', y :: t => y :: insert_at k' x t
    end.

  Definition py_insert (i : Z) (x : A) (l : list A) : list A :=
    insert_at (Z.to_nat (norm_insert (zlen l) i)) x l.

  (* list.index(v) with "element == v" given as a predicate; None = ValueError *)
  Fixpoint py_index (p : A -> bool) (l : list A) : option nat :=
    match l with
    | [] => None
    | x :: t => if p x then Some O else option_map S (py_index p t)
    end.

  (* list.remove(v); None = ValueError *)
  Fixpoint py_remove (p : A -> bool) (l : list A) : option (list A) :=
    match l with
    | [] => None
    | x :: t => if p x then Some t else option_map (cons x) (py_remove p t)
    end.

  Fixpoint pop_at (k : nat) (l : list A) : option (A * list A) :=
    match l, k with
    | [], _ => None
    | x :: t, O => Some (x, t)
    | x :: t, S k' => match pop_at k' t with
                      | Some (y, t') => Some (y, x :: t')
                      | None => None
                      end
    end.

  (* list.pop(i); None = IndexError (empty list or index out of range) *)
  Definition py_pop (i : Z) (l : list A) : option (A * list A) :=
    let n := zlen l in
    if n =? 0 then None
    else let j := if i <? 0 then i + n else i in
         if (j <? 0) || (n <=? j) then None else pop_at (Z.to_nat j) l.

  (* list[i] for an int; None = IndexError *)
  Definition py_getitem (i : Z) (l : list A) : option A :=
    let n := zlen l in
    let j := if i <? 0 then i + n else i in
    if (j <? 0) || (n <=? j) then None else nth_error l (Z.to_nat j).

  (* slice index adjustment for step 1 (PySlice_AdjustIndices) *)
  Definition clamp_index (n v : Z) : Z :=
    let v := if v <? 0 then v + n else v in
    if v <? 0 then 0 else if n <? v then n else v.

  (* list[lo:hi] *)
  Definition py_slice (lo hi : option Z) (l : list A) : list A :=
    let n := zlen l in
    let start := match lo with None => 0 | Some v => clamp_index n v end in
    let stop := match hi with None => n | Some v => clamp_index n v end in
    if start <? stop
    then firstn (Z.to_nat (stop - start)) (skipn (Z.to_nat start) l)
    else [].
End PyList.

(* ------------------------------------------------------------------ *)
(* Groups, items, textual equality                                     *)

Definition group := (bool * pstr)%type.          (* false = brace, true = bracket *)

Definition open_of (k : bool) : Z := if k then 91 else 123.    (* '[' '{' *)
Definition close_of (k : bool) : Z := if k then 93 else 125.   (* ']' '}' *)

(* str(group) = begin + str(group.args) + contents + end, group.args is empty *)
Definition render (g : group) : pstr := open_of (fst g) :: snd g ++ [close_of (fst g)].

Inductive item := IG (g : group) | IW (s : pstr).

Definition render_item (it : item) : pstr :=
  match it with IG g => render g | IW s => s end.

(* TexExpr.__eq__: str(other) == str(self); str == str; str == group falls back
   to the reflected TexExpr.__eq__.  All of them compare the rendered strings. *)
Definition item_eqb (a b : item) : bool := pstr_eqb (render_item a) (render_item b).

(* an argument handed to a TexArgs method: a group object or a Python str *)
Inductive arg := AG (g : group) | AS (s : pstr).

(* TexGroup.parse: for arg in (BracketGroup, BraceGroup):
     if s.startswith(begin) and s.endswith(end): return arg(s[len(begin):-len(end)])
   None = TypeError *)
Definition parse_kind (k : bool) (s : pstr) : option group :=
  if starts_with s [open_of k] && ends_with s [close_of k]
  then Some (k, py_slice (Some 1) (Some (-1)) s)
  else None.

Definition parse_group (s : pstr) : option group :=
  match parse_kind true s with
  | Some g => Some g
  | None => parse_kind false s
  end.

(* TexArgs.__coerce; None = TypeError *)
Definition coerce (a : arg) : option item :=
  match a with
  | AG g => Some (IG g)
  | AS s => if is_space s then Some (IW s)
            else match parse_group s with
                 | Some g => Some (IG g)
                 | None => None
                 end
  end.

(* ------------------------------------------------------------------ *)
(* TexArgs                                                             *)

Definition state := (list group * list item)%type.     (* (list itself, self.all) *)

Inductive out :=
| ONone                       (* returned None *)
| OVal (it : item)            (* returned an element *)
| OArgs (st : state)          (* returned a new TexArgs *)
| OBool (b : bool)
| ETypeError | EValueError | EIndexError.

Inductive op :=
| OpAppend (a : arg)
| OpExtend (l : list arg)
| OpInsert (i : Z) (a : arg)
| OpRemove (a : arg)
| OpPop (i : option Z)        (* None: pop() called without an index (default -1) *)
| OpReverse
| OpClear
| OpGet (i : Z)
| OpSlice (lo hi : option Z)
| OpContains (a : arg).

Definition empty_state : state := ([], []).

(* the second half of TexArgs.insert: where the coerced argument goes in self.all
   (lst1 is the list after super().insert, i the normalised index) *)
Definition shadow_insert (lst1 : list group) (all : list item) (i : Z) (it : item) : state * out :=
  if zlen lst1 <=? 1 then ((lst1, all ++ [it]), ONone)
  else if i =? 0 then ((lst1, py_insert 0 it all), ONone)
  else match py_getitem (i - 1) lst1 with                    (* before = self[i - 1] *)
       | None => ((lst1, all), EIndexError)
       | Some before =>
         match py_index (fun x => item_eqb x (IG before)) all with   (* self.all.index(before) *)
         | None => ((lst1, all), EValueError)
         | Some j => ((lst1, py_insert (Z.of_nat j + 1) it all), ONone)
         end
       end.

Definition m_insert (st : state) (i : Z) (a : arg) : state * out :=
  match coerce a with
  | None => (st, ETypeError)
  | Some it =>
    let '(lst, all) := st in
    let n := zlen lst in
    let i := if i <? 0 then Z.max 0 (n + i) else Z.min i n in
    let lst1 := match it with IG g => py_insert i g lst | IW _ => lst end in
    shadow_insert lst1 all i it
  end.

Definition m_append (st : state) (a : arg) : state * out := m_insert st (zlen (fst st)) a.

(* for arg in args: self.append(arg) -- an exception ends the loop *)
Fixpoint m_extend (st : state) (l : list arg) : state * out :=
  match l with
  | [] => (st, ONone)
  | a :: t => match m_append st a with
              | (st1, ONone) => m_extend st1 t
              | r => r
              end
  end.

Definition m_remove (st : state) (a : arg) : state * out :=
  match coerce a with
  | None => (st, ETypeError)
  | Some it =>
    let '(lst, all) := st in
    match py_remove (fun x => item_eqb x it) all with
    | None => (st, EValueError)
    | Some all1 =>
      match py_remove (fun g => item_eqb (IG g) it) lst with
      | None => ((lst, all1), EValueError)
      | Some lst1 => ((lst1, all1), ONone)
      end
    end
  end.

(* def pop(self, i=-1): a bare pop() is pop(-1) *)
Definition m_pop (st : state) (i : option Z) : state * out :=
  let i := match i with Some i => i | None => -1 end in
  let '(lst, all) := st in
  match py_pop i lst with
  | None => (st, EIndexError)
  | Some (g, lst1) =>
    match py_index (fun x => item_eqb x (IG g)) all with
    | None => ((lst1, all), EValueError)
    | Some j =>
      match py_pop (Z.of_nat j) all with
      | None => ((lst1, all), EIndexError)
      | Some (it, all1) => ((lst1, all1), OVal it)
      end
    end
  end.

(* TexArgs(value): __init__ = empty list, self.all = [], self.extend(value) *)
Definition m_new (l : list arg) : state * out := m_extend empty_state l.

Definition m_contains (st : state) (a : arg) : bool :=
  match a with
  | AS s => existsb (fun g => pstr_eqb s (snd g)) (fst st)     (* item == arg.string *)
  | AG g => existsb (fun x => item_eqb (IG x) (IG g)) (fst st)
  end.

Definition m_step (st : state) (o : op) : state * out :=
  match o with
  | OpAppend a => m_append st a
  | OpExtend l => m_extend st l
  | OpInsert i a => m_insert st i a
  | OpRemove a => m_remove st a
  | OpPop i => m_pop st i
  | OpReverse => ((rev (fst st), rev (snd st)), ONone)
  | OpClear => (empty_state, ONone)
  | OpGet i => match py_getitem i (fst st) with
               | Some g => (st, OVal (IG g))
               | None => (st, EIndexError)
               end
  | OpSlice lo hi =>
      match m_new (map AG (py_slice lo hi (fst st))) with
      | (st', ONone) => (st, OArgs st')
      | (_, e) => (st, e)
      end
  | OpContains a => (st, OBool (m_contains st a))
  end.

(* str(args) = ''.join(map(str, self)); len(args) *)
Definition m_str (st : state) : pstr := py_join (map render (fst st)).
Definition m_len (st : state) : Z := zlen (fst st).
(* what the owning command prints: '\\%s%s' % (name, args) *)
Definition cmd_str (name : pstr) (st : state) : pstr := 92 :: name ++ m_str st.

(* the states and outcomes after every operation *)
Fixpoint m_run (st : state) (ops : list op) : list (state * out) :=
  match ops with
  | [] => []
  | o :: t => let r := m_step st o in r :: m_run (fst r) t
  end.

(* ------------------------------------------------------------------ *)
(* Generic driver interface: decode a case, run, encode observations    *)

Definition take_str (inp : list Z) : option (pstr * list Z) :=
  match inp with
  | n :: rest =>
    if (n <? 0) || (zlen rest <? n) then None
    else Some (firstn (Z.to_nat n) rest, skipn (Z.to_nat n) rest)
  | [] => None
  end.

Definition take_arg (inp : list Z) : option (arg * list Z) :=
  match inp with
  | 0 :: k :: rest =>
    match take_str rest with
    | Some (s, rest') => Some (AG (negb (k =? 0), s), rest')
    | None => None
    end
  | 1 :: rest =>
    match take_str rest with
    | Some (s, rest') => Some (AS s, rest')
    | None => None
    end
  | _ => None
  end.

Fixpoint take_args (n : nat) (inp : list Z) : option (list arg * list Z) :=
  match n with
  | O => Some ([], inp)
  | S n' => match take_arg inp with
            | Some (a, rest) => match take_args n' rest with
                                | Some (l, rest') => Some (a :: l, rest')
                                | None => None
                                end
            | None => None
            end
  end.

Definition take_arglist (inp : list Z) : option (list arg * list Z) :=
  match inp with
  | n :: rest => if n <? 0 then None else take_args (Z.to_nat n) rest
  | [] => None
  end.

Definition take_optz (inp : list Z) : option (option Z * list Z) :=
  match inp with
  | 0 :: rest => Some (None, rest)
  | 1 :: v :: rest => Some (Some v, rest)
  | _ => None
  end.

Definition take_op (inp : list Z) : option (op * list Z) :=
  match inp with
  | 0 :: rest => match take_arg rest with Some (a, r) => Some (OpAppend a, r) | None => None end
  | 1 :: rest => match take_arglist rest with Some (l, r) => Some (OpExtend l, r) | None => None end
  | 2 :: i :: rest => match take_arg rest with Some (a, r) => Some (OpInsert i a, r) | None => None end
  | 3 :: rest => match take_arg rest with Some (a, r) => Some (OpRemove a, r) | None => None end
  | 4 :: i :: rest => Some (OpPop (Some i), rest)
  | 5 :: rest => Some (OpPop None, rest)
  | 6 :: rest => Some (OpReverse, rest)
  | 7 :: rest => Some (OpClear, rest)
  | 8 :: i :: rest => Some (OpGet i, rest)
  | 9 :: rest => match take_optz rest with
                 | Some (lo, r) => match take_optz r with
                                   | Some (hi, r') => Some (OpSlice lo hi, r')
                                   | None => None
                                   end
                 | None => None
                 end
  | 10 :: rest => match take_arg rest with Some (a, r) => Some (OpContains a, r) | None => None end
  | _ => None
  end.

Fixpoint take_ops (n : nat) (inp : list Z) : option (list op) :=
  match n with
  | O => match inp with [] => Some [] | _ => None end
  | S n' => match take_op inp with
            | Some (o, rest) => match take_ops n' rest with
                                | Some l => Some (o :: l)
                                | None => None
                                end
            | None => None
            end
  end.

Definition enc_str (s : pstr) : list Z := zlen s :: s.
Definition enc_item (it : item) : list Z :=
  (match it with IG _ => 0 | IW _ => 1 end) :: enc_str (render_item it).

Definition enc_state (st : state) : list Z :=
  enc_str (m_str st) ++ [m_len st]
  ++ (zlen (fst st) :: flat_map (fun g => enc_str (render g)) (fst st))
  ++ (zlen (snd st) :: flat_map enc_item (snd st)).

Definition enc_out (o : out) : list Z :=
  match o with
  | ONone => [0]
  | OVal it => 1 :: enc_item it
  | OArgs st => 2 :: enc_state st
  | OBool b => [3; if b then 1 else 0]
  | ETypeError => [10]
  | EValueError => [11]
  | EIndexError => [12]
  end.

Definition enc_result (r : state * out) : list Z := enc_out (snd r) ++ enc_state (fst r).

(* input: <arglist of the constructor> <number of ops> <ops>;
   output: record for TexArgs(init) followed by one record per operation;
   [-1] when the input does not decode *)
Definition run_args (inp : list Z) : list Z :=
  match take_arglist inp with
  | Some (init, n :: rest) =>
    if n <? 0 then [-1]
    else match take_ops (Z.to_nat n) rest with
         | Some ops =>
           let r0 := m_new init in
           enc_result r0 ++ flat_map enc_result (m_run (fst r0) ops)
         | None => [-1]
         end
  | _ => [-1]
  end.

(* ================================================================== *)
(* Reference list machine (specification side of C18)                   *)
(* A plain Python list of groups; no shadow list.                       *)

Inductive cls := CGroup (g : group) | CSpace | CBad.

(* '{x}' / '[y]' denote the corresponding group; whitespace is not an argument;
   anything else is rejected *)
Definition spec_classify (a : arg) : cls :=
  match a with
  | AG g => CGroup g
  | AS s =>
    if is_space s then CSpace
    else match s with
         | c :: ((_ :: _) as t) =>
           let d := last t 0 in
           let b := removelast t in
           if (c =? 123) && (d =? 125) then CGroup (false, b)
           else if (c =? 91) && (d =? 93) then CGroup (true, b)
           else CBad
         | _ => CBad
         end
  end.

Definition group_eqb (g h : group) : bool := Bool.eqb (fst g) (fst h) && pstr_eqb (snd g) (snd h).

Fixpoint remove_first (g : group) (l : list group) : option (list group) :=
  match l with
  | [] => None
  | x :: t => if group_eqb x g then Some t
              else match remove_first g t with Some t' => Some (x :: t') | None => None end
  end.

Definition ref_index (n i : Z) : option nat :=
  let j := if i <? 0 then i + n else i in
  if (0 <=? j) && (j <? n) then Some (Z.to_nat j) else None.

Definition ref_insert (l : list group) (i : Z) (a : arg) : list group * out :=
  match spec_classify a with
  | CBad => (l, ETypeError)
  | CSpace => (l, ONone)
  | CGroup g =>
    let n := zlen l in
    let k := Z.to_nat (Z.max 0 (Z.min n (if i <? 0 then i + n else i))) in
    (firstn k l ++ g :: skipn k l, ONone)
  end.

Fixpoint ref_extend (l : list group) (args : list arg) : list group * out :=
  match args with
  | [] => (l, ONone)
  | a :: t => match spec_classify a with
              | CBad => (l, ETypeError)
              | CSpace => ref_extend l t
              | CGroup g => ref_extend (l ++ [g]) t
              end
  end.

Definition ref_step (l : list group) (o : op) : list group * out :=
  match o with
  | OpAppend a => ref_extend l [a]
  | OpExtend args => ref_extend l args
  | OpInsert i a => ref_insert l i a
  | OpRemove a =>
    match spec_classify a with
    | CBad => (l, ETypeError)
    | CSpace => (l, EValueError)
    | CGroup g => match remove_first g l with
                  | Some l' => (l', ONone)
                  | None => (l, EValueError)
                  end
    end
  | OpPop i =>
    match ref_index (zlen l) (match i with Some i => i | None => -1 end) with
    | None => (l, EIndexError)
    | Some k => match nth_error l k with
                | Some g => (firstn k l ++ skipn (S k) l, OVal (IG g))
                | None => (l, EIndexError)
                end
    end
  | OpReverse => (rev l, ONone)
  | OpClear => ([], ONone)
  | OpGet i =>
    match ref_index (zlen l) i with
    | None => (l, EIndexError)
    | Some k => match nth_error l k with
                | Some g => (l, OVal (IG g))
                | None => (l, EIndexError)
                end
    end
  | OpSlice lo hi => (l, OArgs (py_slice lo hi l, []))
  | OpContains (AG g) => (l, OBool (existsb (group_eqb g) l))
  | OpContains (AS s) => (l, OBool (existsb (fun x => pstr_eqb (snd x) s) l))
  end.

Fixpoint ref_run (l : list group) (ops : list op) : list (list group * out) :=
  match ops with
  | [] => []
  | o :: t => let r := ref_step l o in r :: ref_run (fst r) t
  end.

(* what of an outcome the property speaks about: a returned TexArgs is
   observed through its list, not through its shadow list *)
Definition obs_out (o : out) : out :=
  match o with
  | OArgs st => OArgs (fst st, [])
  | o => o
  end.

(* observation of one step: the list, len, str, the outcome *)
Definition obs_model (r : state * out) : list group * Z * pstr * out :=
  (fst (fst r), m_len (fst r), m_str (fst r), obs_out (snd r)).
Definition obs_ref (r : list group * out) : list group * Z * pstr * out :=
  (fst r, zlen (fst r), concat (map render (fst r)), snd r).

Definition is_extend (o : op) : bool :=
  match o with OpExtend _ => true | _ => false end.

(* the non-whitespace elements of the shadow list, in order *)
Fixpoint groups_of (all : list item) : list group :=
  match all with
  | [] => []
  | IG g :: t => g :: groups_of t
  | IW _ :: t => groups_of t
  end.

Definition ws_item (it : item) : Prop :=
  match it with IG _ => True | IW s => is_space s = true end.
