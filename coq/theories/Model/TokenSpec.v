(* Hand-written specification of the operations of class Token
   (TexSoup/utils.py) in the vocabulary the rest of the development uses.

   A token is TokDSL.tokv = mkv text position category, category being None
   (KNone), a CC member (KCC: the characters the categoriser yields) or a TC
   member (KTC: the tokens of the tokenizer).  The hand model's records embed
   into it:  of_token (mkt s p k) = mkv s p (KTC k),  of_cchar (mkc c p k) =
   mkv [c] p (KCC k).

   This file collects, as Gallina functions, WHAT THE OTHER INTERPRETERS ASSUME
   about Token (they build these readings in and only pin the source text of the
   class).  Proofs/TokenGenProofs.v proves each of them of the class as
   translated on every run by harness/gen_token.py (Model/TokenGen.v), and
   proves that the built-in functions of the other interpreters are these
   functions.  The assumptions, and who makes them:

   A1  Token(s, p, c), s a plain str: text s, position p, category c
       (category defaults to None).                [new_of_str]
       TokDSL  SNewToken: Token('', text.position[, category=TC.X])
       ReadDSL XNewToken: Token(text, pos) has category None
       GlueDSL new_token (VStr): Token(char, position, CC.x); str_tokens:
               Buffer's init Token(c, index) on a plain character
   A2  Token(t, p, c), t a Token: text AND POSITION of t (p is ignored);
       category c if c is given (truthy), else t's.  [new_of_tok]
       TokDSL  SWrapForward: Token(text.forward(n), text.position) is a copy
       BufDSL  py_token: Token(tok, index) keeps the text
       GlueDSL new_token (VTok); conv_in: Buffer's init copies a Token
   A3  a += b and a + b: text a.text ++ b.text (b a Token) / a.text ++ b (b a
       plain str); position and category of the LEFT operand. [tok_add, tok_add_str]
       TokDSL  tok_add (SAppendForward, SAppendNext)
       ReadDSL forward_until: Token('', start) += forward(1)... keeps start, None
       BufDSL  py_add: every + of strings/Tokens concatenates the texts
   A4  s + tok, s a plain str, is Token.__radd__: text s ++ tok.text, position
       tok.position - len(s), category of tok.       [tok_radd]
       BufDSL  py_add (text only)
   A5  tok == x compares the TEXT only (never position or category): with a
       Token by its text, with a plain str by the str; tok == None is False;
       's' == tok is tok == 's' (reflected).      [tok_eq, tok_eq_str]
       TokDSL  EEqChar, ERangeEqPoint;  BufDSL py_eq;  ReadDSL py_eq;
       GlueDSL py_eq;  EditDSL eq_obj (Token.__eq__(c, x) is c.text == x)
   A6  bool(tok) is: the text is non-empty.             [tok_bool]
       TokDSL  ETruthy / EHasNext / EResTruthy;  BufDSL truthy;  ReadDSL
       has_next, truthy;  GlueDSL truthy
   A7  Token.join(ts): for a non-empty list/tuple the concatenated texts with
       position and category of the FIRST element; for the empty one the shared
       Token.Empty.                                   [tok_join]
       TokDSL  forward(n) (n >= 1 characters);  ReadDSL join_tokens (peek((a,b)),
       forward, backward);  BufDSL FTokenJoin (text only)
   A8  Token.Empty is Token('', 0): empty text, position 0, category None. [tok_empty]
       ReadDSL join_tokens [];  BufDSL FTokenJoin [] = '';  TokDSL forward(0)
   A9  str(tok) is the text.                           [tok_str]
       ReadDSL XFormat;  EditDSL str(x);  ViewDSL TStrOf (Tree.estr of ERaw)
   A10 tok.a for a name a that neither Token nor str defines goes to
       Token.__getattr__, which asks the wrapped str and so raises
       AttributeError: hasattr(tok, '__match__') is False; tok.text exists.
       ViewDSL THasattr
   A11 tok.strip() is a Token whose text is Tree.strip (tok.text).  [tok_strip]
       ReadDSL new_cmd / new_named_env: TexCmd(name..) stores name.strip()
   A12 the str value the object IS (what inherited str methods see: isspace,
       startswith, !=, len) equals its text.       [payload = text]
       ViewDSL isspace_of;  BufDSL py_strtest;  ReadDSL ONe (str.__ne__)

   Position arithmetic that nobody else builds in but that C13 ("positions are
   true offsets") is about: __getitem__, __iter__, lstrip / rstrip / strip,
   __radd__: tok_getitem, tok_getslice, tok_iter, tok_strip...; `occurs_at`
   states what a true offset is. *)
From Coq Require Import List NArith ZArith Bool.
From TexModel Require Import Base Tables Chars Tokenizer Tree.
From TexModel Require TokDSL.
Import ListNotations.
Local Open Scope Z_scope.

Notation tokv := TokDSL.tokv.
Notation mkv := TokDSL.mkv.
Notation v_text := TokDSL.v_text.
Notation v_pos := TokDSL.v_pos.
Notation v_cat := TokDSL.v_cat.
Notation catv := TokDSL.catv.
Notation KNone := TokDSL.KNone.
Notation KCC := TokDSL.KCC.
Notation KTC := TokDSL.KTC.

Definition of_token (t : token) : tokv := mkv (ttext t) (tpos t) (KTC (tcat t)).
Definition of_cchar (c : cchar) : tokv := mkv [ch c] (cpos c) (KCC (ccat c)).

(* ------------------------------------------------------------ construction *)

(* A1 *)
Definition new_of_str (s : str) (p : Z) (c : catv) : tokv := mkv s p c.

(* `category or text.category`: every CC / TC member is a non-zero int, so a
   given category always wins *)
Definition cat_or (c d : catv) : catv :=
  match c with
  | KNone => d
  | _ => c
  end.

(* A2: the position argument does not occur *)
Definition new_of_tok (t : tokv) (c : catv) : tokv := mkv (v_text t) (v_pos t) (cat_or c (v_cat t)).

(* A8 *)
Definition tok_empty : tokv := mkv [] 0 KNone.

(* ------------------------------------------------------------ concatenation *)

(* A3: + and += *)
Definition tok_add (a b : tokv) : tokv := mkv (v_text a ++ v_text b) (v_pos a) (v_cat a).
Definition tok_add_str (a : tokv) (s : str) : tokv := mkv (v_text a ++ s) (v_pos a) (v_cat a).

(* A4 *)
Definition tok_radd (s : str) (a : tokv) : tokv :=
  mkv (s ++ v_text a) (v_pos a - Z.of_nat (length s)) (v_cat a).

Fixpoint join_texts (glue : str) (l : list str) : str :=
  match l with
  | [] => []
  | [s] => s
  | s :: l' => s ++ glue ++ join_texts glue l'
  end.

(* A7 *)
Definition tok_join (glue : str) (ts : list tokv) : tokv :=
  match ts with
  | [] => tok_empty
  | t :: _ => mkv (join_texts glue (map v_text ts)) (v_pos t) (v_cat t)
  end.

(* ------------------------------------------------------------- observations *)

(* A5 *)
Definition tok_eq (a b : tokv) : bool := str_eqb (v_text a) (v_text b).
Definition tok_eq_str (a : tokv) (s : str) : bool := str_eqb (v_text a) s.

(* A6 *)
Definition tok_bool (a : tokv) : bool := match v_text a with [] => false | _ :: _ => true end.

(* A9 *)
Definition tok_str (a : tokv) : str := v_text a.

(* x occurs in s (as a contiguous substring) *)
Fixpoint occurs (x s : str) : bool :=
  starts_with s x || match s with [] => false | _ :: s' => occurs x s' end.

(* `x in tok`, x a str or the text of a Token *)
Definition tok_contains (a : tokv) (x : str) : bool := occurs x (v_text a).

(* ------------------------------------------------- positions inside a token *)

(* r is what stands at offset v_pos r - v_pos a of a's text: if a's position
   is the true offset of a's text in the source, so is r's *)
Definition occurs_at (a r : tokv) : Prop :=
  0 <= v_pos r - v_pos a /\
  firstn (length (v_text r)) (skipn (Z.to_nat (v_pos r - v_pos a)) (v_text a)) = v_text r.

(* list(tok): one Token per character, at position + index, same category *)
Fixpoint tok_iter_from (a : tokv) (k : Z) (s : str) : list tokv :=
  match s with
  | [] => []
  | c :: s' => mkv [c] (v_pos a + k) (v_cat a) :: tok_iter_from a (k + 1) s'
  end.
Definition tok_iter (a : tokv) : list tokv := tok_iter_from a 0 (v_text a).

(* tok[k]: None = IndexError *)
Definition tok_getitem (a : tokv) (k : Z) : option tokv :=
  let n := Z.of_nat (length (v_text a)) in
  let k' := if k <? 0 then n + k else k in
  if (0 <=? k') && (k' <? n) then
    match nth_error (v_text a) (Z.to_nat k') with
    | Some c => Some (mkv [c] (v_pos a + k') (v_cat a))
    | None => None
    end
  else None.

(* a slice bound counted from the end when negative *)
Definition from_end (n : Z) (z : Z) : Z := if z <? 0 then n + z else z.
Definition clip (n z : Z) : Z := Z.max 0 (Z.min n z).

(* s[lo:hi] *)
Definition str_slice (s : str) (lo hi : option Z) : str :=
  let n := Z.of_nat (length s) in
  let a := match lo with None => 0 | Some z => clip n (from_end n z) end in
  let b := match hi with None => n | Some z => clip n (from_end n z) end in
  firstn (Z.to_nat (b - a)) (skipn (Z.to_nat a) s).

(* tok[lo:hi] AS THE CODE COMPUTES IT: the text is the slice, the position is
   tok.position + lo counted from the end when negative -- NOT clipped to the
   text (see getslice_true_offset / getslice_offset_refuted) *)
Definition tok_getslice (a : tokv) (lo hi : option Z) : tokv :=
  let n := Z.of_nat (length (v_text a)) in
  let st := match lo with None => 0 | Some z => from_end n z end in
  mkv (str_slice (v_text a) lo hi) (v_pos a + st) (v_cat a).

(* str.rstrip() in the vocabulary of Tree.v *)
Definition rstrip (s : str) : str := rev (lstrip (rev s)).

(* number of leading whitespace characters *)
Definition lead_ws (s : str) : Z := Z.of_nat (length s - length (lstrip s)).

(* the offset the code adds, text.find(stripped): the leading whitespace that
   was removed -- except that an empty result is "found" at 0 *)
Definition strip_offset (s r : str) : Z :=
  match r with
  | [] => 0
  | _ :: _ => lead_ws s
  end.

(* A11 (text) and the position *)
Definition tok_strip (a : tokv) : tokv :=
  let r := strip (v_text a) in mkv r (v_pos a + strip_offset (v_text a) r) (v_cat a).
Definition tok_lstrip (a : tokv) : tokv :=
  let r := lstrip (v_text a) in mkv r (v_pos a + strip_offset (v_text a) r) (v_cat a).
Definition tok_rstrip (a : tokv) : tokv := mkv (rstrip (v_text a)) (v_pos a) (v_cat a).
