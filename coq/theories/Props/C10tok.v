(* C10 (tokenizer half)  Everything from an unescaped % to the end of its line is
   one token; a % preceded by an odd number of backslashes is an escaped percent
   sign, not a comment.  Statements only; proofs in Proofs/TokFacts.v.

   Vocabulary (Proofs/TokFacts.v):
     no_eol c        := ccat c <> CEndOfLine
     eol_or_end tail := tail is empty or its first character has category EndOfLine
     is_esc c        := ccat c = CEscape
     pair_toks es    := the tokens [a;b] at cpos a, category EscapedComment, made of
                        the consecutive pairs a,b of es
     esc_pair_toks bsl p j := j tokens [bsl;bsl] EscapedComment at offsets p, p+2, ...
   `run_rules Tables.rule_order cx rest` is one round of next_token at a token
   boundary, cx = (buffer index, previous token, peek(-1) as seen by the two command
   rules, iteration order of PUNCTUATION_COMMANDS): all arbitrary below. *)
From Coq Require Import List NArith ZArith Bool.
From TexModel Require Import Base Tables Chars Tokenizer.
From TexProofs Require Import TokProofs TokFacts.
Import ListNotations.

(* a comment character at a token boundary always starts a Comment token; the
   token is the comment character plus the longest end-of-line-free prefix of what
   follows; the cursor stops at the end-of-line character (or the end of input) *)
Theorem C10_comment_token :
  forall cx c0 r1, ccat c0 = CComment ->
    exists body rest',
      r1 = body ++ rest' /\ Forall no_eol body /\ eol_or_end rest' /\
      run_rules Tables.rule_order cx (c0 :: r1) =
      RTok (mkt (ch c0 :: chars_of body) (cpos c0) TComment) rest'.
Proof. exact comment_token. Qed.
Print Assumptions C10_comment_token.

Theorem C10_comment_token_split :
  forall cx c0 body tail,
    ccat c0 = CComment -> Forall no_eol body -> eol_or_end tail ->
    run_rules Tables.rule_order cx (c0 :: body ++ tail) =
    RTok (mkt (ch c0 :: chars_of body) (cpos c0) TComment) tail.
Proof. exact comment_token_split. Qed.
Print Assumptions C10_comment_token_split.

(* the payload is never looked at: braces, dollars, backslashes, further percent
   signs ... inside it change neither the category nor where the token ends *)
Theorem C10_comment_payload_irrelevant :
  forall cx c0 p1 p2 tail,
    ccat c0 = CComment -> Forall no_eol p1 -> Forall no_eol p2 -> eol_or_end tail ->
    exists t1 t2,
      run_rules Tables.rule_order cx (c0 :: p1 ++ tail) = RTok t1 tail /\
      run_rules Tables.rule_order cx (c0 :: p2 ++ tail) = RTok t2 tail /\
      tcat t1 = TComment /\ tcat t2 = TComment /\
      ttext t1 = ch c0 :: chars_of p1 /\ ttext t2 = ch c0 :: chars_of p2 /\
      tpos t1 = tpos t2.
Proof. exact comment_payload_irrelevant. Qed.
Print Assumptions C10_comment_payload_irrelevant.

(* 2*j escape characters then a comment character, from a token boundary, in any
   context (idx pp pc prev points arbitrary; the rules involved never read them):
   j tokens "\\" and then the Comment token starting at the comment character *)
Theorem C10_escape_parity_even :
  forall j es pct body tail f points idx pp pc prev,
    length es = 2 * j -> Forall is_esc es -> ccat pct = CComment ->
    Forall no_eol body -> eol_or_end tail ->
    tokenize_loop (j + S f) points idx pp pc prev (es ++ pct :: body ++ tail) =
    let tcm := mkt (ch pct :: chars_of body) (cpos pct) TComment in
    let lc := Some (last body pct) in
    let (ts, e) := tokenize_loop f points
        (idx + Z.of_nat (2 * j + S (length body)))%Z lc lc (Some tcm) tail in
    (pair_toks es ++ tcm :: ts, e).
Proof. exact escape_parity_even. Qed.
Print Assumptions C10_escape_parity_even.

(* 2*j+1 escape characters then a comment character: j tokens "\\", then ONE
   EscapedComment token made of the last escape and the comment character; the
   payload is then tokenised as ordinary input (previous token = that "\%") *)
Theorem C10_escape_parity_odd :
  forall j es e0 pct payload f points idx pp pc prev,
    length es = 2 * j -> Forall is_esc es -> ccat e0 = CEscape -> ccat pct = CComment ->
    tokenize_loop (j + S f) points idx pp pc prev (es ++ e0 :: pct :: payload) =
    let tesc := mkt [ch e0; ch pct] (cpos e0) TEscapedComment in
    let (ts, e) := tokenize_loop f points
        (idx + Z.of_nat (2 * j + 2))%Z (Some pct) (Some pct) (Some tesc) payload in
    (pair_toks es ++ tesc :: ts, e).
Proof. exact escape_parity_odd. Qed.
Print Assumptions C10_escape_parity_odd.

Theorem C10_pair_toks_spec :
  forall j es, length es = 2 * j ->
    length (pair_toks es) = j /\
    Forall (fun t => tcat t = TEscapedComment /\ length (ttext t) = 2) (pair_toks es) /\
    concat (map ttext (pair_toks es)) = chars_of es.
Proof. exact pair_toks_spec. Qed.
Print Assumptions C10_pair_toks_spec.

(* the same on strings, for EVERY number k of backslashes at the start of the
   input: k/2 tokens "\\"; then, k even, a Comment token at offset k starting with
   the percent sign; k odd, the EscapedComment token "\%" at offset k-1 *)
Theorem C10_escape_parity_string :
  forall bsl pct k payload,
    categorize_char bsl = CEscape -> categorize_char pct = CComment ->
    exists ts,
      fst (tokens_of_string (repeat bsl k ++ pct :: payload)) =
        esc_pair_toks bsl 0 (Nat.div2 k) ++ ts /\
      if Nat.even k
      then exists body tl r, payload = body ++ tl /\
                             ts = mkt (pct :: body) (Z.of_nat k) TComment :: r
      else exists r, ts = mkt [bsl; pct] (Z.of_nat (k - 1)) TEscapedComment :: r.
Proof. exact escape_parity_string. Qed.
Print Assumptions C10_escape_parity_string.

(* non-vacuity on the real tables: 92 = backslash, 37 = percent, 10 = newline *)
Example C10_example_cats :
  categorize_char 92 = CEscape /\ categorize_char 37 = CComment /\
  categorize_char 10 = CEndOfLine.
Proof. vm_compute. repeat split. Qed.

(* "%a}b\nc" *)
Example C10_example_comment :
  show [37; 97; 125; 98; 10; 99]%N =
  [([37; 97; 125; 98]%N, 0%Z, TComment); ([10; 99]%N, 4%Z, TText)].
Proof. vm_compute. reflexivity. Qed.

(* "\\%x" and "\\\%x" *)
Example C10_example_even :
  show [92; 92; 37; 120]%N =
  [([92; 92]%N, 0%Z, TEscapedComment); ([37; 120]%N, 2%Z, TComment)].
Proof. vm_compute. reflexivity. Qed.

Example C10_example_odd :
  show [92; 92; 92; 37; 120]%N =
  [([92; 92]%N, 0%Z, TEscapedComment); ([92; 37]%N, 2%Z, TEscapedComment);
   ([120]%N, 4%Z, TText)].
Proof. vm_compute. reflexivity. Qed.
