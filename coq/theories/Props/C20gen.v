(* C20gen  The Buffer model is the translated source.

   Model/BufGen.v is regenerated on every run from the Python abstract syntax
   of every method of class Buffer in TexSoup/utils.py (harness/gen_buffer.py,
   fail-closed).  `run_meth gen_cls M args d` interprets the translated body of
   method M on the object d with the semantics of Model/BufDSL.v; `ODone d' r`
   means it finished inside the modelled fragment, within loop fuel and call
   depth, leaving the object d' and returning / raising r.

   Vocabulary (Proofs/BufGenProofs.v, Model/BufDSL.v):
     cc s   := conc (VFn FTokenJoin) (VFn (FLam 1)) (VFn (FLam 0)) s
               the object a hand-written state s = (items, mat, cursor) stands
               for: __queue = firstn mat items, __iterator holds skipn mat
               items, __i = cursor, __join/__init/__empty the defaults that
               the translated __init__ installs (C20gen_init);
     done (s', o) := ODone (cc s') (of_out o)   result o AND new state s' of
               the hand-written operation (of_out: OItem x -> VItem x, ...);
     wf s   := mat s <= length (items s);
     Pre s  := 0 <= cursor s /\ mat s <= length (items s)   (BufferProofs.Pre,
               "what every method needs"; kept by every operation:
               C20gen_Pre_kept; true of Buffer(l): init_state l).
   Statements only; proofs are in Proofs/BufGenProofs.v. *)
From Coq Require Import List ZArith Bool.
From TexModel Require Import Buffer BufDSL BufGen.
From TexProofs Require Import BufferProofs BufGenProofs.
Import ListNotations.
Open Scope Z_scope.

(* ---- construction *)

Theorem C20gen_init : forall l,
  run_meth gen_cls M_init [VIterable l] blank = ODone (cc (init_state l)) (RVal VNone).
Proof. exact run_init. Qed.
Print Assumptions C20gen_init.

(* Buffer(b) where b is itself a Buffer (buf_arg s: the object cc s as a
   constructor argument; Buffer(tokenize(..)) wraps the Buffer returned by the
   to_buffer decorator): the new buffer is the buffer over what b has not
   consumed yet, i.e. the items of b from its cursor on -- whether or not b has
   already pulled them from its source into its look-ahead queue *)
Theorem C20gen_init_of_buffer : forall s, Pre s ->
  run_meth gen_cls M_init [buf_arg s] blank
  = ODone (cc (init_state (skipn (Z.to_nat (cursor s)) (items s)))) (RVal VNone).
Proof. exact run_init_buffer. Qed.
Print Assumptions C20gen_init_of_buffer.

(* ---- one theorem per method, for ALL states and ALL arguments *)

Theorem C20gen_next : forall s, wf s ->
  run_meth gen_cls M_next [] (cc s) = done (next_raw s).
Proof. exact run_next. Qed.
Print Assumptions C20gen_next.

Theorem C20gen_getitem_int : forall s k, Pre s ->
  run_meth gen_cls M_getitem [VInt k] (cc s) = done (getitem_int s k).
Proof. exact run_getitem_int. Qed.
Print Assumptions C20gen_getitem_int.

Theorem C20gen_getitem_slice : forall s lo hi, Pre s ->
  run_meth gen_cls M_getitem [VSlice lo hi] (cc s) = done (getitem_slice s lo hi).
Proof. exact run_getitem_slice. Qed.
Print Assumptions C20gen_getitem_slice.

Theorem C20gen_peek_int : forall s j, Pre s ->
  run_meth gen_cls M_peek [VInt j] (cc s) = done (peek_int s j).
Proof. exact run_peek_int. Qed.
Print Assumptions C20gen_peek_int.

Theorem C20gen_peek_range : forall s a b, Pre s ->
  run_meth gen_cls M_peek [VTup [a; b]] (cc s) = done (peek_range s a b).
Proof. exact run_peek_range. Qed.
Print Assumptions C20gen_peek_range.

Theorem C20gen_hasNext : forall s k, Pre s ->
  run_meth gen_cls M_hasNext [VInt k] (cc s) = done (has_next s k).
Proof. exact run_hasNext. Qed.
Print Assumptions C20gen_hasNext.

Theorem C20gen_forward : forall s j, Pre s ->
  run_meth gen_cls M_forward [VInt j] (cc s) = done (forward s j).
Proof. exact run_forward. Qed.
Print Assumptions C20gen_forward.

Theorem C20gen_backward : forall s j, Pre s ->
  run_meth gen_cls M_backward [VInt j] (cc s) = done (backward s j).
Proof. exact run_backward. Qed.
Print Assumptions C20gen_backward.

Theorem C20gen_startswith : forall s p, Pre s ->
  run_meth gen_cls M_startswith [VStr p] (cc s) = done (starts_with s p).
Proof. exact run_startswith. Qed.
Print Assumptions C20gen_startswith.

Theorem C20gen_endswith : forall s p, Pre s ->
  run_meth gen_cls M_endswith [VStr p] (cc s) = done (ends_with s p).
Proof. exact run_endswith. Qed.
Print Assumptions C20gen_endswith.

(* the caller's condition is Model/Buffer.v's family: FCond k is
   `lambda x: x == <atom k>` for k >= 0 and `lambda x: x != <atom -k>` for k < 0 *)
Theorem C20gen_forward_until : forall s k, Pre s ->
  run_meth gen_cls M_forward_until [VFn (FCond k)] (cc s) = done (forward_until s k).
Proof. exact run_forward_until. Qed.
Print Assumptions C20gen_forward_until.

Theorem C20gen_num_forward_until : forall s k, Pre s ->
  run_meth gen_cls M_num_forward_until [VFn (FCond k)] (cc s) = done (num_forward_until s k).
Proof. exact run_num_forward_until. Qed.
Print Assumptions C20gen_num_forward_until.

Theorem C20gen_position : forall s,
  run_meth gen_cls M_position [] (cc s) = done (s, OInt (cursor s)).
Proof. exact run_position. Qed.
Print Assumptions C20gen_position.

(* __iter__ returns the object itself and changes nothing, on every object *)
Theorem C20gen_iter : forall d, run_meth gen_cls M_iter [] d = ODone d (RVal VSelf).
Proof. exact run_iter. Qed.
Print Assumptions C20gen_iter.

(* ---- default arguments: hasNext() = hasNext(1), forward() = forward(1),
   backward() = backward(1), peek() = peek(0), forward_until(c) = forward_until(c, True) *)

Theorem C20gen_hasNext_default : forall s, Pre s ->
  run_meth gen_cls M_hasNext [] (cc s) = done (has_next s 1).
Proof. exact run_hasNext_default. Qed.
Print Assumptions C20gen_hasNext_default.

Theorem C20gen_forward_default : forall s, Pre s ->
  run_meth gen_cls M_forward [] (cc s) = done (forward s 1).
Proof. exact run_forward_default. Qed.
Print Assumptions C20gen_forward_default.

Theorem C20gen_backward_default : forall s, Pre s ->
  run_meth gen_cls M_backward [] (cc s) = done (backward s 1).
Proof. exact run_backward_default. Qed.
Print Assumptions C20gen_backward_default.

Theorem C20gen_peek_default : forall s, Pre s ->
  run_meth gen_cls M_peek [] (cc s) = done (peek_int s 0).
Proof. exact run_peek_default. Qed.
Print Assumptions C20gen_peek_default.

Theorem C20gen_forward_until_peek_true : forall s k, Pre s ->
  run_meth gen_cls M_forward_until [VFn (FCond k); VBool true] (cc s) = done (forward_until s k).
Proof. exact run_forward_until_peek_true. Qed.
Print Assumptions C20gen_forward_until_peek_true.

(* ---- Pre is an invariant of the class: every operation keeps it *)

Theorem C20gen_Pre_kept : forall s o, Pre s -> Pre (fst (step s o)).
Proof. exact step_Pre. Qed.
Print Assumptions C20gen_Pre_kept.

(* ... and it is needed: with a negative cursor (which no method produces) the
   hand-written forward_until reports OutOfFuel where the generated method --
   and the code, replayed with _Buffer__i = -3 -- returns 'bba' *)
Theorem C20gen_forward_until_unconditional_refuted :
  exists s k, (mat s <= length (items s))%nat /\
    run_meth gen_cls M_forward_until [VFn (FCond k)] (cc s) <> done (forward_until s k).
Proof. exact gen_forward_until_unconditional_refuted. Qed.
Print Assumptions C20gen_forward_until_unconditional_refuted.

(* ---- all thirteen operations of Buffer.step, as calls of the generated methods *)

Theorem C20gen_step : forall s o, Pre s -> gen_step gen_cls (cc s) o = done (step s o).
Proof. exact gen_step_ok. Qed.
Print Assumptions C20gen_step.

(* ---- Buffer(l) followed by ANY operation sequence (guarded or not): the
   generated class returns the outputs and cursors of the hand-written model *)

Theorem C20gen_session : forall l ops,
  gen_session gen_cls l ops = Some (run_ops (init_state l) ops).
Proof. exact gen_session_ok. Qed.
Print Assumptions C20gen_session.

(* ---- hence C20_refines holds of the translated source *)

Theorem C20gen_refines : forall l ops, guards_ok l 0 ops = true ->
  gen_session gen_cls l ops = Some (run_ref l 0 ops).
Proof. exact gen_session_refines. Qed.
Print Assumptions C20gen_refines.
