(* C09  Arguments attach by the one-line-break rule with exact contents.
   Statements only; proofs in Proofs/AttachProofs.v.

   "A command's arguments are exactly the maximal run of bracket groups
   followed by brace groups after its name, where neighbouring elements may be
   separated only by spaces/tabs containing at most one line break; a blank
   line or any other character ends the run and later groups remain in the
   surrounding text.  Each attached group's contents are exactly the
   characters between its delimiters (a closing bracket inside braces, or an
   opening bracket inside braces, does not end or start a group), and a
   bracket that does not follow a command is ordinary text that needs no
   partner."  (Command names outside Tables.signatures.)

   How it is decided.  The reader is one mutual fixpoint on fuel; every
   theorem below speaks about ONE layer at an arbitrary fuel `S f` and names
   the recursive calls (at fuel `f`) on its right-hand side, so no fuel bound
   is assumed anywhere; the theorems proved by induction hold for every fuel.

   VERDICT.  Everything holds except the words "bracket groups followed by
   brace groups": after the brace groups the code makes a second pass that
   attaches further bracket groups and then further brace groups, provided the
   first of them follows WITHOUT any spacer (C09_brackets_before_braces_refuted,
   witness \a{x}[y]; exact shape: C09_brackets_then_braces). *)
From Coq Require Import List NArith ZArith Bool Lia.
From TexModel Require Import Base Tables Chars Tokenizer Tree Reader.
From TexProofs Require Import TokProofs ReaderLen ReaderTotal AttachProofs.
Import ListNotations.
Local Open Scope Z_scope.

(* ------------------------------------------------------------------ 1 --- *)
(* the tokenizer's spacer rule: blanks, at most one line break, blanks; the
   maximal such run; category MergedSpacer *)
Theorem C09_spacer_token_shape :
  forall idx rest t rest',
  rule_spacers idx rest = RTok t rest' ->
  exists s1 e s2,
    rest = (s1 ++ e ++ s2) ++ rest' /\
    ttext t = chars_of (s1 ++ e ++ s2) /\
    s1 ++ e ++ s2 <> [] /\
    Forall (fun c => is_cat CSpacer c = true) s1 /\
    Forall (fun c => is_cat CSpacer c = true) s2 /\
    (e = [] \/ exists c, e = [c] /\ is_cat CEndOfLine c = true) /\
    tcat t = TMergedSpacer /\
    match rest' with
    | c :: _ => is_cat CSpacer c = false /\ mem_cc (ccat c) Tables.spacer_rollback_cats = false
    | [] => True
    end.
Proof. exact spacer_token_shape. Qed.
Print Assumptions C09_spacer_token_shape.

(* a blank line never fits into one spacer token *)
Theorem C09_blank_line_not_one_spacer :
  forall idx t rest' a c1 b c2 d,
  is_cat CEndOfLine c1 = true -> is_cat CEndOfLine c2 = true ->
  rule_spacers idx ((a ++ c1 :: b ++ c2 :: d) ++ rest') <> RTok t rest'.
Proof. exact blank_line_not_one_spacer. Qed.
Print Assumptions C09_blank_line_not_one_spacer.

(* the same for every token stream the tokenizer produces, on code points:
   a MergedSpacer token has at most one character whose category is EndOfLine
   and otherwise only characters of category Spacer *)
Theorem C09_spacer_tokens_one_line_break :
  forall (s : str) toks e,
  tokens_of_string s = (toks, e) ->
  Forall (fun t => tcat t = TMergedSpacer ->
            (length (filter (fun c => cc_beq (categorize_char c) CEndOfLine) (ttext t)) <= 1)%nat /\
            Forall (fun c => categorize_char c = CSpacer \/ categorize_char c = CEndOfLine)
                   (ttext t)) toks.
Proof. exact spacer_tokens_one_line_break. Qed.
Print Assumptions C09_spacer_tokens_one_line_break.

(* read_spacer skips at most one token, and only a MergedSpacer *)
Theorem C09_read_spacer_at_most_one :
  forall toks b src,
  read_spacer toks = (b, src) ->
  (b = false /\ src = toks /\
   match toks with t :: _ => is_tc TMergedSpacer t = false | [] => True end) \/
  (b = true /\ exists t, toks = t :: src /\ is_tc TMergedSpacer t = true).
Proof. exact read_spacer_at_most_one. Qed.
Print Assumptions C09_read_spacer_at_most_one.

(* a blank line (two spacer tokens): nothing more is attached, the token list
   comes back unchanged - the consumed spacer is rolled back *)
Theorem C09_blank_line_detaches_opt :
  forall f args nopt strict m s1 s2 rest,
  is_tc TMergedSpacer s1 = true -> is_tc TMergedSpacer s2 = true ->
  read_arg_optional (S f) args nopt strict m (s1 :: s2 :: rest)
  = Ok ((args, nopt), s1 :: s2 :: rest).
Proof. exact AttachProofs.C09_blank_line_detaches_opt. Qed.
Print Assumptions C09_blank_line_detaches_opt.

Theorem C09_blank_line_detaches_req :
  forall f args nreq strict m s1 s2 rest,
  nreq <= 0 ->
  is_tc TMergedSpacer s1 = true -> is_tc TMergedSpacer s2 = true ->
  read_arg_required (S f) args nreq strict m (s1 :: s2 :: rest)
  = Ok ((args, nreq), s1 :: s2 :: rest).
Proof. exact AttachProofs.C09_blank_line_detaches_req. Qed.
Print Assumptions C09_blank_line_detaches_req.

(* ------------------------------------------------------------------ 2 --- *)
(* head_after_spacer toks = the token after the optional spacer
   (ReaderTotal.head_after_spacer) *)
Theorem C09_other_token_detaches_opt :
  forall f args nopt strict m toks,
  match head_after_spacer toks with
  | Some c => is_tc TBracketBegin c = false
  | None => True
  end ->
  read_arg_optional (S f) args nopt strict m toks = Ok ((args, nopt), toks).
Proof. exact AttachProofs.C09_other_token_detaches_opt. Qed.
Print Assumptions C09_other_token_detaches_opt.

Theorem C09_other_token_detaches_req :
  forall f args nreq strict m toks,
  nreq <= 0 ->
  match head_after_spacer toks with
  | Some c => is_tc TGroupBegin c = false
  | None => True
  end ->
  read_arg_required (S f) args nreq strict m toks = Ok ((args, nreq), toks).
Proof. exact AttachProofs.C09_other_token_detaches_req. Qed.
Print Assumptions C09_other_token_detaches_req.

Theorem C09_signature_of_default :
  forall name, assoc_str name Tables.signatures = None -> signature_of name = (-1, -1).
Proof. exact signature_of_default. Qed.
Print Assumptions C09_signature_of_default.

(* why the property quantifies over names outside the signature table: with
   a positive count any token is taken as an argument *)
Theorem C09_positive_count_takes_token :
  forall f args nreq strict m toks c src2,
  0 < nreq -> toks <> [] -> snd (read_spacer toks) = c :: src2 ->
  is_tc TGroupBegin c = false -> is_tc TEscape c = false ->
  read_arg_required (S f) args nreq strict m toks =
  read_arg_required f (args ++ [EGroup GBrace [EStr (ttext c)] (-1)]) (nreq - 1) strict m src2.
Proof. exact AttachProofs.C09_positive_count_takes_token. Qed.
Print Assumptions C09_positive_count_takes_token.

(* ------------------------------------------------------------------ 3 --- *)
Theorem C09_attach_step_opt :
  forall f args nopt strict m toks c src2 g src3,
  nopt <> 0 -> snd (read_spacer toks) = c :: src2 -> is_tc TBracketBegin c = true ->
  read_arg f c strict m src2 = Ok (g, src3) ->
  read_arg_optional (S f) args nopt strict m toks =
  read_arg_optional f (args ++ [g]) (nopt - 1) strict m src3.
Proof. exact AttachProofs.C09_attach_step_opt. Qed.
Print Assumptions C09_attach_step_opt.

Theorem C09_attach_step_req :
  forall f args nreq strict m toks c src2 g src3,
  nreq <> 0 -> snd (read_spacer toks) = c :: src2 -> is_tc TGroupBegin c = true ->
  read_arg f c strict m src2 = Ok (g, src3) ->
  read_arg_required (S f) args nreq strict m toks =
  read_arg_required f (args ++ [g]) (nreq - 1) strict m src3.
Proof. exact AttachProofs.C09_attach_step_req. Qed.
Print Assumptions C09_attach_step_req.

(* general form (covers a failing group: the error propagates) *)
Theorem C09_attach_step_opt_bind :
  forall f args nopt strict m toks c src2,
  nopt <> 0 -> snd (read_spacer toks) = c :: src2 -> is_tc TBracketBegin c = true ->
  read_arg_optional (S f) args nopt strict m toks =
  bind (read_arg f c strict m src2) (fun '(g, src3) =>
    read_arg_optional f (args ++ [g]) (nopt - 1) strict m src3).
Proof. exact AttachProofs.C09_attach_step_opt_bind. Qed.
Print Assumptions C09_attach_step_opt_bind.

Theorem C09_attach_step_req_bind :
  forall f args nreq strict m toks c src2,
  nreq <> 0 -> toks <> [] -> snd (read_spacer toks) = c :: src2 -> is_tc TGroupBegin c = true ->
  read_arg_required (S f) args nreq strict m toks =
  bind (read_arg f c strict m src2) (fun '(g, src3) =>
    read_arg_required f (args ++ [g]) (nreq - 1) strict m src3).
Proof. exact AttachProofs.C09_attach_step_req_bind. Qed.
Print Assumptions C09_attach_step_req_bind.

(* the command reader hands over to read_args with counts (-1, -1) *)
Theorem C09_command_args :
  forall f strict m name src,
  assoc_str (ttext name) Tables.signatures = None ->
  read_command (S f) (-1) (-1) 0 strict m (name :: src) =
  bind (read_args f (-1) (-1) strict
          (if mem_str (ttext name) Tables.special_commands then MSpecial else m) src)
       (fun '(args, src1) => Ok ((ttext name, args), src1)).
Proof. exact AttachProofs.C09_command_args. Qed.
Print Assumptions C09_command_args.

(* the two passes of read_args *)
Theorem C09_read_args_passes :
  forall f nreq nopt strict m toks,
  (nreq =? 0) && (nopt =? 0) = false ->
  read_args (S f) nreq nopt strict m toks =
  bind (read_arg_optional f [] nopt strict m toks) (fun '(args1, nopt1, src1) =>
  bind (read_arg_required f args1 nreq strict m src1) (fun '(args2, nreq1, src2) =>
  bind (match src2 with
        | t :: _ => if is_tc TBracketBegin t
                    then read_arg_optional f args2 nopt1 strict m src2
                    else Ok (args2, nopt1, src2)
        | [] => Ok (args2, nopt1, src2)
        end) (fun '(args3, _, src3) =>
  bind (match src3 with
        | t :: _ => if is_tc TGroupBegin t
                    then read_arg_required f args3 nreq1 strict m src3
                    else Ok (args3, nreq1, src3)
        | [] => Ok (args3, nreq1, src3)
        end) (fun '(args4, _, src4) => Ok (args4, src4))))).
Proof. exact AttachProofs.C09_read_args_passes. Qed.
Print Assumptions C09_read_args_passes.

(* the resulting order, for every fuel: [..]* {..}* ( [..]+ {..}* )? - only
   groups, of these kinds, in this order; the second round exists only after a
   brace group; afterwards the input does not continue with `{`, nor (unless
   the second round ended with a brace group) with `[`; no argument = no
   token consumed *)
Theorem C09_brackets_then_braces :
  forall f nreq nopt strict m toks args rest,
  nreq < 0 -> nopt < 0 ->
  read_args f nreq nopt strict m toks = Ok (args, rest) ->
  exists b1 c1 b2 c2,
    args = b1 ++ c1 ++ b2 ++ c2 /\
    Forall (is_group_of GBracket) b1 /\ Forall (is_group_of GBrace) c1 /\
    Forall (is_group_of GBracket) b2 /\ Forall (is_group_of GBrace) c2 /\
    (b2 <> [] -> c1 <> []) /\ (c2 <> [] -> b2 <> []) /\
    (args = [] -> rest = toks) /\
    head_is_not TGroupBegin rest /\ (c2 = [] -> head_is_not TBracketBegin rest).
Proof. exact AttachProofs.C09_brackets_then_braces. Qed.
Print Assumptions C09_brackets_then_braces.

(* REFUTED (literal reading "bracket groups followed by brace groups") *)
Theorem C09_brackets_before_braces_refuted :
  exists f strict m toks args rest,
    read_args f (-1) (-1) strict m toks = Ok (args, rest) /\
    ~ (exists bs cs, args = bs ++ cs /\
                     Forall (is_group_of GBracket) bs /\ Forall (is_group_of GBrace) cs).
Proof. exact AttachProofs.C09_brackets_before_braces_refuted. Qed.
Print Assumptions C09_brackets_before_braces_refuted.

(* each loop appends groups of its own kind only, counts them, consumes
   nothing when it attaches nothing, and stops exactly where the token after
   the optional spacer is not its opener (or the count is used up): the run is
   maximal *)
Theorem C09_opt_appends :
  forall f args nopt strict m toks args' n' rest,
  read_arg_optional f args nopt strict m toks = Ok ((args', n'), rest) ->
  exists gs, args' = args ++ gs /\ Forall (is_group_of GBracket) gs /\
             n' = nopt - Z.of_nat (length gs) /\
             (gs = [] -> rest = toks) /\
             (n' = 0 \/ stops_at TBracketBegin rest).
Proof. intro f. exact (opt_appends f). Qed.
Print Assumptions C09_opt_appends.

Theorem C09_req_appends :
  forall f args nreq strict m toks args' n' rest,
  nreq < 0 ->
  read_arg_required f args nreq strict m toks = Ok ((args', n'), rest) ->
  exists gs, args' = args ++ gs /\ Forall (is_group_of GBrace) gs /\
             n' = nreq - Z.of_nat (length gs) /\
             (gs = [] -> rest = toks) /\
             stops_at TGroupBegin rest.
Proof. intro f. exact (req_appends f). Qed.
Print Assumptions C09_req_appends.

(* ------------------------------------------------------------------ 4 --- *)
Theorem C09_is_group_end_brace :
  forall t, is_group_end GBrace t = true <-> tcat t = TGroupEnd.
Proof. exact is_group_end_brace. Qed.
Print Assumptions C09_is_group_end_brace.

Theorem C09_is_group_end_bracket :
  forall t, is_group_end GBracket t = true <-> tcat t = TBracketEnd.
Proof. exact is_group_end_bracket. Qed.
Print Assumptions C09_is_group_end_bracket.

Theorem C09_group_closes_on_own_delimiter :
  forall f k pos strict m acc t src,
  is_group_end k t = true ->
  read_arg_loop (S f) k pos strict m acc (t :: src) = Ok (EGroup k acc pos, src).
Proof. exact AttachProofs.C09_group_closes_on_own_delimiter. Qed.
Print Assumptions C09_group_closes_on_own_delimiter.

Theorem C09_group_continues :
  forall f k pos strict m acc t src,
  is_group_end k t = false ->
  read_arg_loop (S f) k pos strict m acc (t :: src) =
  bind (read_expr f [] strict m (t :: src)) (fun '(e, src1) =>
    read_arg_loop f k pos strict m (acc ++ [e]) src1).
Proof. exact AttachProofs.C09_group_continues. Qed.
Print Assumptions C09_group_continues.

Theorem C09_group_at_eof :
  forall f k pos strict m acc,
  read_arg_loop (S f) k pos strict m acc [] =
  if strict then Err TypeError else Ok (EGroup k acc pos, []).
Proof. exact AttachProofs.C09_group_at_eof. Qed.
Print Assumptions C09_group_at_eof.

(* `]` or `[` inside braces: one text element, the brace group goes on *)
Theorem C09_bracket_inside_braces :
  forall f pos strict m acc t src,
  tcat t = TBracketEnd \/ tcat t = TBracketBegin ->
  read_arg_loop (S (S f)) GBrace pos strict m acc (t :: src) =
  read_arg_loop (S f) GBrace pos strict m (acc ++ [EText t]) src.
Proof. exact AttachProofs.C09_bracket_inside_braces. Qed.
Print Assumptions C09_bracket_inside_braces.

(* `}` or `[` inside brackets: one text element, the bracket group goes on
   (a `{` inside brackets opens a nested brace group: read_expr on GroupBegin) *)
Theorem C09_brace_end_inside_brackets :
  forall f pos strict m acc t src,
  tcat t = TGroupEnd \/ tcat t = TBracketBegin ->
  read_arg_loop (S (S f)) GBracket pos strict m acc (t :: src) =
  read_arg_loop (S f) GBracket pos strict m (acc ++ [EText t]) src.
Proof. exact AttachProofs.C09_brace_end_inside_brackets. Qed.
Print Assumptions C09_brace_end_inside_brackets.

(* every fuel: a group that was read ended AT a closer of its own kind (or,
   tolerantly, at the end of the input); it is an EGroup of that kind *)
Theorem C09_group_ends_at_closer :
  forall f k pos strict m acc toks e rest,
  read_arg_loop f k pos strict m acc toks = Ok (e, rest) ->
  (exists body, e = EGroup k (acc ++ body) pos) /\
  ((exists pre t_end, toks = pre ++ t_end :: rest /\ is_group_end k t_end = true) \/
   (strict = false /\ rest = [])).
Proof.
  intros f k pos strict m acc toks e rest H. split.
  - exact (arg_loop_shape f k pos strict m acc toks e rest H).
  - exact (group_ends_at_closer f k pos strict m acc toks e rest H).
Qed.
Print Assumptions C09_group_ends_at_closer.

Theorem C09_unclosed_group_fails :
  forall f k pos m acc toks r,
  (forall t, In t toks -> is_group_end k t = false) ->
  read_arg_loop f k pos true m acc toks <> Ok r.
Proof. exact AttachProofs.C09_unclosed_group_fails. Qed.
Print Assumptions C09_unclosed_group_fails.

(* exact contents, flat case: body tokens that are text leaves (leaf_cat: not
   Escape, not GroupBegin, not a math opener) and not this group's closer -
   brackets of the other kind included - are the contents, one text element
   each, and the group prints as  open ++ their texts ++ close *)
Theorem C09_flat_arg_exact :
  forall f c k strict m t_end rest body,
  group_kind_of_begin (tcat c) = Some k ->
  is_group_end k t_end = true ->
  Forall (fun t => leaf_cat (tcat t) = true /\ is_group_end k t = false) body ->
  read_arg (S (S (length body + f))) c strict m (body ++ t_end :: rest)
  = Ok (EGroup k (map EText body) (tpos c), rest) /\
  estr (EGroup k (map EText body) (tpos c)) = group_begin k ++ texts body ++ group_end k.
Proof. exact AttachProofs.C09_flat_arg_exact. Qed.
Print Assumptions C09_flat_arg_exact.

Theorem C09_group_delims :
  group_begin GBracket = [91]%N /\ group_end GBracket = [93]%N /\
  group_begin GBrace = [123]%N /\ group_end GBrace = [125]%N.
Proof. exact group_delims. Qed.
Print Assumptions C09_group_delims.

(* ------------------------------------------------------------------ 5 --- *)
Theorem C09_leaf_cat_table :
  forall c,
  leaf_cat c =
  negb (tc_beq c TEscape || tc_beq c TGroupBegin ||
        existsb (fun x => tc_beq c (fst (fst (snd x)))) Tables.math_classes).
Proof. exact leaf_cat_table. Qed.
Print Assumptions C09_leaf_cat_table.

Theorem C09_read_expr_leaf :
  forall f skip strict m t rest,
  leaf_cat (tcat t) = true ->
  read_expr (S f) skip strict m (t :: rest) = Ok (EText t, rest).
Proof. exact read_expr_leaf. Qed.
Print Assumptions C09_read_expr_leaf.

(* a bracket that does not follow a command: one text node, one token, every
   mode, every tolerance, no partner looked for *)
Theorem C09_free_bracket_is_text :
  forall f skip strict m t rest,
  tcat t = TBracketBegin \/ tcat t = TBracketEnd ->
  read_expr (S f) skip strict m (t :: rest) = Ok (EText t, rest).
Proof. exact AttachProofs.C09_free_bracket_is_text. Qed.
Print Assumptions C09_free_bracket_is_text.

Theorem C09_free_closer_is_text :
  forall f skip strict m t rest,
  In (tcat t) [TGroupEnd; TParenBegin; TParenEnd; TMathGroupEnd; TDisplayMathGroupEnd] ->
  read_expr (S f) skip strict m (t :: rest) = Ok (EText t, rest).
Proof. exact AttachProofs.C09_free_closer_is_text. Qed.
Print Assumptions C09_free_closer_is_text.

(* and conversely a text node only ever comes from one leaf token *)
Theorem C09_text_only_from_leaf :
  forall f skip strict m toks t rest,
  read_expr f skip strict m toks = Ok (EText t, rest) ->
  toks = t :: rest /\ leaf_cat (tcat t) = true.
Proof. exact read_expr_text_only_leaf. Qed.
Print Assumptions C09_text_only_from_leaf.

(* ------------------------------------------------------------ examples --- *)
(* real token lists: toks_of s = fst (tokens_of_string s) *)

Example C09_ex_spacer_rule :                                     (* " \n\t{" *)
  exists t r, rule_spacers 0 (categorize [32; 10; 9; 123]%N) = RTok t r /\
              ttext t = [32; 10; 9]%N.
Proof. eexists. eexists. split; vm_compute; reflexivity. Qed.

Example C09_ex_blank_line_tokens :                               (* " \n \n{" *)
  map ttext (toks_of [32; 10; 32; 10; 123]%N) = [[32; 10; 32]; [10]; [123]]%N /\
  map tcat (toks_of [32; 10; 32; 10; 123]%N) = [TMergedSpacer; TMergedSpacer; TGroupBegin].
Proof. split; vm_compute; reflexivity. Qed.

Example C09_ex_eol_hyp : is_cat CEndOfLine (mkc 10 0 CEndOfLine) = true.
Proof. reflexivity. Qed.

(* \a[x]\n\n{y} : after `]` come two spacers; the loops return unchanged *)
Example C09_ex_blank_hyps :
  map tcat (firstn 3 (skipn 5 (toks_of ex_blank))) = [TMergedSpacer; TMergedSpacer; TGroupBegin].
Proof. vm_compute. reflexivity. Qed.
Example C09_ex_read_spacer :
  read_spacer (skipn 5 (toks_of ex_blank)) = (true, skipn 6 (toks_of ex_blank)).
Proof. vm_compute. reflexivity. Qed.
Example C09_ex_blank_opt :
  read_arg_optional 1 [] (-2) true MNonMath (skipn 5 (toks_of ex_blank))
  = Ok (([], -2), skipn 5 (toks_of ex_blank)).
Proof. vm_compute. reflexivity. Qed.
Example C09_ex_blank_req :
  read_arg_required 1 [] (-1) true MNonMath (skipn 5 (toks_of ex_blank))
  = Ok (([], -1), skipn 5 (toks_of ex_blank)).
Proof. vm_compute. reflexivity. Qed.
Example C09_ex_blank_parse :                   (* [x] attached; \n \n {y} stay *)
  first_cmd_args (parse ex_blank true []) = Some [[91; 120; 93]%N] /\
  root_strs (parse ex_blank true []) =
    Some [[92; 97; 91; 120; 93]; [10]; [10]; [123; 121; 125]]%N.
Proof. split; vm_compute; reflexivity. Qed.

(* \a x[y] : a text token follows the name *)
Example C09_ex_other_hyp :
  option_map tcat (head_after_spacer (skipn 2 (toks_of ex_other))) = Some TText /\
  assoc_str [97]%N Tables.signatures = None.
Proof. split; vm_compute; reflexivity. Qed.
Example C09_ex_other_parse :
  first_cmd_args (parse ex_other true []) = Some [] /\
  root_strs (parse ex_other true []) = Some [[92; 97]; [32; 120]; [91]; [121]; [93]]%N.
Proof. split; vm_compute; reflexivity. Qed.

(* \textbf[ : signature (1, 0), the bracket is taken as the argument *)
Example C09_ex_positive_count :
  first_cmd_args (parse ex_fixed true []) = Some [[123; 91; 125]%N].
Proof. vm_compute. reflexivity. Qed.

(* \a [x]\n{y} : hypotheses of the attach steps, and the result *)
Example C09_ex_attach_hyps :
  exists c src2 g src3,
    snd (read_spacer (skipn 2 (toks_of ex_spaced))) = c :: src2 /\
    is_tc TBracketBegin c = true /\
    read_arg 4 c true MNonMath src2 = Ok (g, src3) /\ estr g = [91; 120; 93]%N /\
    exists c' src2' g' src3',
      snd (read_spacer src3) = c' :: src2' /\ is_tc TGroupBegin c' = true /\
      read_arg 4 c' true MNonMath src2' = Ok (g', src3') /\ estr g' = [123; 121; 125]%N.
Proof.
  do 4 eexists. split; [vm_compute; reflexivity|]. split; [vm_compute; reflexivity|].
  split; [vm_compute; reflexivity|]. split; [vm_compute; reflexivity|].
  do 4 eexists. split; [vm_compute; reflexivity|]. split; [vm_compute; reflexivity|].
  split; vm_compute; reflexivity.
Qed.
Example C09_ex_attach_parse :
  first_cmd_args (parse ex_spaced true []) = Some [[91; 120; 93]; [123; 121; 125]]%N.
Proof. vm_compute. reflexivity. Qed.

(* \a[x]{y}[z]{w} : all four parts of C09_brackets_then_braces non-empty *)
Example C09_ex_four :
  first_cmd_args (parse ex_four true []) =
    Some [[91; 120; 93]; [123; 121; 125]; [91; 122; 93]; [123; 119; 125]]%N.
Proof. vm_compute. reflexivity. Qed.
(* \a{x}[y] : the refutation witness;  \a{x} [y] : the second pass allows no spacer *)
Example C09_ex_second_pass :
  first_cmd_args (parse ex_second_pass true []) = Some [[123; 120; 125]; [91; 121; 93]]%N /\
  first_cmd_args (parse ex_second_spacer true []) = Some [[123; 120; 125]]%N /\
  root_strs (parse ex_second_spacer true []) =
    Some [[92; 97; 123; 120; 125]; [32]; [91]; [121]; [93]]%N.
Proof. repeat split; vm_compute; reflexivity. Qed.

(* \a{x]y}  \a[x}y]  \a[{]}] *)
Example C09_ex_group_hyps :
  Forall (fun t => leaf_cat (tcat t) = true /\ is_group_end GBrace t = false)
         (firstn 3 (skipn 3 (toks_of ex_brace_bracket))) /\
  map tcat (skipn 2 (toks_of ex_brace_bracket)) = [TGroupBegin; TText; TBracketEnd; TText; TGroupEnd].
Proof. split; vm_compute; repeat constructor. Qed.
Example C09_ex_groups :
  first_cmd_args (parse ex_brace_bracket true []) = Some [[123; 120; 93; 121; 125]%N] /\
  first_cmd_args (parse ex_bracket_brace true []) = Some [[91; 120; 125; 121; 93]%N] /\
  first_cmd_args (parse ex_nested true []) = Some [[91; 123; 93; 125; 93]%N].
Proof. repeat split; vm_compute; reflexivity. Qed.
Example C09_ex_group_contents :     (* the three elements x ] y of the brace group *)
  match parse ex_brace_bracket true [] with
  | Ok (ERoot [ECmd _ [EGroup GBrace b _] _ _]) => map estr b = [[120]; [93]; [121]]%N
  | _ => False
  end.
Proof. vm_compute. reflexivity. Qed.
Example C09_ex_unclosed_group :                                          (* \a{x *)
  parse [92; 97; 123; 120]%N true [] = Err TypeError /\
  first_cmd_args (parse [92; 97; 123; 120]%N false []) = Some [[123; 120; 125]%N].
Proof. split; vm_compute; reflexivity. Qed.

(* a [b *)
Example C09_ex_free_bracket :
  map tcat (toks_of ex_free) = [TText; TBracketBegin; TText] /\
  root_strs (parse ex_free true []) = Some [[97; 32]; [91]; [98]]%N /\
  root_strs (parse [97; 93; 125; 41]%N true []) = Some [[97]; [93]; [125]; [41]]%N.   (* a]}) *)
Proof. repeat split; vm_compute; reflexivity. Qed.

(* "line break" means ONE character of category EndOfLine (code points 10, 13:
   line_break_chars_value): a Windows line end CR LF is two of them, i.e. it
   tokenizes to two spacer tokens and DETACHES like a blank line:
   \a[x]\r\n{y} has the single argument [x], whereas \a[x]\n{y} has two *)
Example C09_ex_crlf_detaches :
  map tcat (firstn 2 (skipn 5 (toks_of [92; 97; 91; 120; 93; 13; 10; 123; 121; 125]%N)))
    = [TMergedSpacer; TMergedSpacer] /\
  first_cmd_args (parse [92; 97; 91; 120; 93; 13; 10; 123; 121; 125]%N true [])
    = Some [[91; 120; 93]%N] /\
  first_cmd_args (parse [92; 97; 91; 120; 93; 10; 123; 121; 125]%N true [])
    = Some [[91; 120; 93]; [123; 121; 125]]%N.
Proof. repeat split; vm_compute; reflexivity. Qed.
