(* C07  Tolerant mode is a conservative extension that only inserts closers.
   Statements only; proofs in Proofs/ReaderSim.v (clause 1) and
   Proofs/ReaderCons.v (clause 3, when present).

   Clause 2 ("a document that lost one closer is rejected strictly and
   accepted tolerantly") needs the completeness direction (parse o print) and
   is decided by correspondence + oracle only; see DESIGN.md. *)
From Coq Require Import List NArith ZArith Bool.
From TexModel Require Import Base Tables Chars Tokenizer Tree Reader.
From TexProofs Require Import TokProofs ReaderLen ReaderSim ReaderCons ConsTop ConsBridge.
Import ListNotations.

(* clause 1: whenever strict parsing succeeds, tolerant parsing returns the
   identical tree (hence the identical text) - every string, any skip list *)
Theorem C07_conservative :
  forall (s : str) (user_skip : list str) (t : expr),
    parse s true user_skip = Ok t -> parse s false user_skip = Ok t.
Proof. exact parse_conservative. Qed.
Print Assumptions C07_conservative.

(* the same for every reader function, at every fuel *)
Theorem C07_conservative_expr :
  forall f skip m toks r,
    read_expr f skip true m toks = Ok r -> read_expr f skip false m toks = Ok r.
Proof. intro f. exact (proj1 (sim_all_holds f)). Qed.
Print Assumptions C07_conservative_expr.

(* clause 3: whenever tolerant parsing succeeds its output is the token texts
   of the input, in order, with nothing changed except inserted closers
   `}` `]` `\end{name}` (and argument spacers dropped as in strict mode):
   `Rel true` of ReaderCons.v.  Hypotheses as in Props/C08.v. *)
Theorem C07_only_closers :
  forall (s : str) (user : list str) (t : expr) (toks : list token),
    tokens_of_string s = (toks, TEnd) -> parse s false user = Ok t ->
    Hyp (all_skip user) toks -> nobare t = true ->
    Rel true toks (estr t).
Proof. intros s user t toks. exact (parse_conserves_hyp s false user t toks). Qed.
Print Assumptions C07_only_closers.

(* string level, hypotheses decidable: the output is the kept tokens of the input
   (argument spacers dropped) with closer strings `}` `]` `\end{name}` inserted
   between them (`Ins`, Proofs/ConsBridge.v) - nothing else changes *)
Theorem C07_only_closers_string :
  forall (s : str) (user : list str) (t : expr),
    parse s false user = Ok t ->
    hypb (all_skip user) (fst (tokens_of_string s)) = true -> nobare t = true ->
    exists kept, Kept (fst (tokens_of_string s)) kept /\ Ins kept (estr t).
Proof. exact parse_tolerant_inserts. Qed.
Print Assumptions C07_only_closers_string.

(* non-vacuity: a document strict parsing accepts; and one only tolerant parsing accepts *)
Example C07_ex_both :
  let s := [92; 97; 123; 120; 125; 32; 36; 121; 36]%N in       (* \a{x} $y$ *)
  exists t, parse s true [] = Ok t /\ parse s false [] = Ok t.
Proof. eexists. split; vm_compute; reflexivity. Qed.
Example C07_ex_repair :
  let s := [92; 97; 123; 120]%N in                               (* \a{x *)
  parse s true [] = Err TypeError /\
  exists t, parse s false [] = Ok t /\ estr t = [92; 97; 123; 120; 125]%N.
Proof. split; [vm_compute; reflexivity|]. eexists. split; vm_compute; reflexivity. Qed.
