(* C13clogen  The line/column model is the translated source.

   Model/CloGen.v is regenerated on every run from the Python abstract syntax
   of CharToLineOffset.__init__ and __call__ (TexSoup/utils.py) by
   harness/gen_clo.py (fail-closed).  `run_def m args o` interprets a
   translated method on the object o with the semantics of Model/CloDSL.v;
   `run_clo_gen c src pos` is CharToLineOffset(src)(pos); `ODone o r` means it
   finished inside the modelled fragment (in particular: no IndexError, and the
   list given to bisect.bisect_left is sorted) leaving the object o and
   returning r.  clo_obj src := the object whose line_break_positions is
   CLO.line_breaks src and whose src_len is the length of src.
   Statements only; proofs are in Proofs/CloGenProofs.v. *)
From Coq Require Import List NArith ZArith Bool.
From TexModel Require Import CLO CloDSL CloGen.
From TexProofs Require Import CLOProofs CloGenProofs.
Import ListNotations.
Open Scope Z_scope.

Theorem C13clogen_init : forall src,
  run_def gen_clo_init [VSrc src] blank = ODone (clo_obj src) None.
Proof. exact gen_clo_init_ok. Qed.
Print Assumptions C13clogen_init.

(* for EVERY source and EVERY int offset (negative and too large ones too) *)
Theorem C13clogen_call : forall src pos,
  run_def gen_clo_call [VInt pos] (clo_obj src)
  = ODone (clo_obj src) (Some (VPair (fst (clo src pos)) (snd (clo src pos)))).
Proof. exact gen_clo_call_ok. Qed.
Print Assumptions C13clogen_call.

Theorem C13clogen_clo : forall src pos,
  run_clo_gen gen_clo_cls src pos
  = ODone (clo_obj src) (Some (VPair (fst (clo src pos)) (snd (clo src pos)))).
Proof. exact run_clo_gen_ok. Qed.
Print Assumptions C13clogen_clo.

(* hence C13's line/column clause (CLOProofs.clo_spec: number of line feeds
   before the offset, distance to the last of them) holds of the translated
   source at every in-range offset *)
Theorem C13clogen_line_column : forall src i, 0 <= i < Z.of_nat (length src) ->
  run_clo_gen gen_clo_cls src i
  = ODone (clo_obj src) (Some (VPair (fst (clo_spec src i)) (snd (clo_spec src i)))).
Proof. exact run_clo_gen_spec. Qed.
Print Assumptions C13clogen_line_column.
