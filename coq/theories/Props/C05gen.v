(* C05gen  The model of the structural edits is the translated source.

   Model/EditGen.v is regenerated on every run from the Python abstract syntax of the
   editing methods of TexSoup/data.py (harness/gen_edit.py, fail-closed):
     TexExpr.append / insert / remove / _supports_contents / _assert_supports_contents,
     TexCmd._supports_contents / _assert_supports_contents,
     TexNode.append / insert / remove / delete / replace / replace_with / copy,
     __str__ of TexCmd / TexEnv / TexText / TexArgs / TexNode, the properties begin / end.
   Model/EditDSL.v gives the generated bodies their meaning (object identity = position in
   the tree, stale references, live lists, `is` vs `==`, exceptions as outcomes ...).

   Vocabulary.
     init root ns     the state before the call: tree root, nothing mutated yet, wrappers ns
     at_ p            the object of the tree at path p
     VNode k          the TexNode wrapper number k of the store
     target_store tp pp ms = (RIn tp 0, PNode 1) :: (RIn pp 0, PUnknown) :: ms
                      wrapper 0: the node (its expression is the object at tp, its .parent is
                      wrapper 1), wrapper 1: the parent node (expression at pp)
     node_store np ms = (RIn np 0, PUnknown) :: ms      wrapper 0: a node on its own
     vals / new       the positional arguments ( *nodes ) as Python values, and what they are in
                      the hand model (mat_items: a str s is EStr s; a fresh TexExpr, bare or
                      wrapped in a TexNode, is itself)
     run recv m args st = view (call 8 gen_e_tbl recv m args st)
                      interpret the translated body of recv.m( *args ); what is compared is
                      the outcome class, the returned value and the tree:
                      GDone t v | GExc e t | GUnsup (left the fragment) | GFuel
     of_tree root o   the same view of an outcome of the hand model Model/Edit.v
                      (Done t -> GDone t None; Raise e -> GExc e root; Partial e t -> GExc e t;
                       EBadCase -> GBadCase, which `run` never produces)
   Every statement is for ALL trees, positions and arguments, under the stated guards; the
   guards are the conditions under which Edit.v itself claims to describe the code:
     is_node P                         the receiver is a TexCmd / TexEnv object
     is_texexpr x                      the target is a TexExpr (TexNode's constructor asserts it)
     forallb is_node (args_of P)       arguments are TexGroup / TexCmd objects (TexArgs accepts
                                       nothing else)
     is_node x  (fall-backs only)      Edit.eq_expr_item is `==` for a TexCmd/TexEnv x
     mats_fresh                        every wrapper of the material wraps a fresh TexExpr, has
                                       no parent, and occurs once
   Statements only; proofs are in Proofs/EditGenProofs.v. *)
From Coq Require Import List NArith ZArith Bool.
From TexModel Require Import Base Tables Chars Tokenizer Tree Reader Edit EditDSL EditGen.
From TexProofs Require Import EditProofs EditGenProofs.
Import ListNotations.
Local Open Scope Z_scope.

(* ------------------------------------------------------------ expression level *)
(* TexCmd._supports_contents / TexExpr._supports_contents, for every state st in which r is a
   usable reference to the object h at path p (live st r p h) *)
Theorem C05gen_supports_contents : forall n st r p h,
  live st r p h -> is_node h = true ->
  call (S n) gen_e_tbl (VExpr r) M_supports [] st = ODone st (RVal (VBool (supports h))).
Proof. exact gen_supports_ok. Qed.
Print Assumptions C05gen_supports_contents.

(* _assert_supports_contents: None, or TypeError *)
Theorem C05gen_assert_supports_contents : forall n st r p h,
  live st r p h -> is_node h = true ->
  call (S (S n)) gen_e_tbl (VExpr r) M_assert_supports [] st
  = if supports h then ODone st (RVal VNone) else ODone st (RExc TypeError).
Proof. exact gen_assert_supports_ok. Qed.
Print Assumptions C05gen_assert_supports_contents.

(* TexExpr.append( *exprs ) *)
Theorem C05gen_expr_append : forall root ns p h vals new,
  get root p = Some h -> is_node h = true -> mat_items (init root ns) vals = Some new ->
  run (at_ p) M_append vals (init root ns)
  = of_tree root (obind (expr_append h new) (fun h' => put_o root p h')).
Proof. exact run_expr_append. Qed.
Print Assumptions C05gen_expr_append.

(* TexExpr.insert(i, *exprs ), any integer i *)
Theorem C05gen_expr_insert : forall root ns p h i vals new,
  get root p = Some h -> is_node h = true -> mat_items (init root ns) vals = Some new ->
  run (at_ p) M_insert (VInt i :: vals) (init root ns)
  = of_tree root (obind (expr_insert h i new) (fun h' => put_o root p h')).
Proof. exact run_expr_insert. Qed.
Print Assumptions C05gen_expr_insert.

(* TexExpr.remove(x), x the object at (thp, ti): the index is returned, the object itself is
   preferred over the first element with equal text *)
Theorem C05gen_expr_remove : forall root ns p h thp ti x,
  get root p = Some h -> is_node h = true -> get root (thp ++ [SBody ti]) = Some x ->
  is_texexpr x = true -> (p = thp \/ is_node x = true) ->
  run (at_ p) M_remove [at_ (thp ++ [SBody ti])] (init root ns)
  = of_hand root (fun kh => match put root p (snd kh) with Some t => t | None => root end)
            (fun kh => VInt (Z.of_nat (fst kh))) (expr_remove eq_expr_item p h thp ti x).
Proof. exact run_expr_remove. Qed.
Print Assumptions C05gen_expr_remove.

(* ------------------------------------------------------------------ node level *)
(* node.delete(): all three stages (holder by identity; an argument whose contents view holds
   an equal node; parent.remove) *)
Theorem C05gen_delete : forall root ms pp thp ti P x,
  get root pp = Some P -> get root (thp ++ [SBody ti]) = Some x ->
  is_node P = true -> forallb is_node (args_of P) = true -> is_texexpr x = true ->
  (existsb (holds_object thp) (holders pp P) = true \/ is_node x = true) ->
  run (VNode 0) M_delete [] (init root (target_store (thp ++ [SBody ti]) pp ms))
  = of_tree root (delete_via root pp thp ti).
Proof. exact run_delete. Qed.
Print Assumptions C05gen_delete.

(* parent.remove(node) *)
Theorem C05gen_remove : forall root ms pp thp ti P x,
  get root pp = Some P -> get root (thp ++ [SBody ti]) = Some x ->
  is_node P = true -> is_texexpr x = true -> (pp = thp \/ is_node x = true) ->
  run (VNode 1) M_remove [VNode 0] (init root (target_store (thp ++ [SBody ti]) pp ms))
  = of_tree root (remove_via root pp thp ti).
Proof. exact run_remove. Qed.
Print Assumptions C05gen_remove.

(* parent.replace(child, *mats ): all three stages, and the partial outcome (removed, then
   insert refused) *)
Theorem C05gen_replace : forall root ms pp thp ti P x vals new,
  get root pp = Some P -> get root (thp ++ [SBody ti]) = Some x ->
  is_node P = true -> forallb is_node (args_of P) = true -> is_texexpr x = true ->
  (existsb (holds_object thp) (holders pp P) = true \/ is_node x = true) ->
  mat_items (init root (target_store (thp ++ [SBody ti]) pp ms)) vals = Some new ->
  run (VNode 1) M_replace (VNode 0 :: vals) (init root (target_store (thp ++ [SBody ti]) pp ms))
  = of_tree root (replace_via root pp thp ti new).
Proof. exact run_replace. Qed.
Print Assumptions C05gen_replace.

(* node.replace_with( *mats ) *)
Theorem C05gen_replace_with : forall root ms pp thp ti P x vals new,
  get root pp = Some P -> get root (thp ++ [SBody ti]) = Some x ->
  is_node P = true -> forallb is_node (args_of P) = true -> is_texexpr x = true ->
  (existsb (holds_object thp) (holders pp P) = true \/ is_node x = true) ->
  mat_items (init root (target_store (thp ++ [SBody ti]) pp ms)) vals = Some new ->
  run (VNode 0) M_replace_with vals (init root (target_store (thp ++ [SBody ti]) pp ms))
  = of_tree root (replace_via root pp thp ti new).
Proof. exact run_replace_with. Qed.
Print Assumptions C05gen_replace_with.

(* node.insert(i, *mats ), any integer i *)
Theorem C05gen_insert : forall root ms np h i vals new,
  get root np = Some h -> is_node h = true ->
  mats_fresh (init root (node_store np ms)) vals ->
  mat_items (init root (node_store np ms)) vals = Some new ->
  run (VNode 0) M_insert (VInt i :: vals) (init root (node_store np ms))
  = of_tree root (insert root np i new).
Proof. exact run_insert. Qed.
Print Assumptions C05gen_insert.

(* node.append( *mats ) *)
Theorem C05gen_append : forall root ms np h vals new,
  get root np = Some h -> is_node h = true ->
  mat_items (init root (node_store np ms)) vals = Some new ->
  run (VNode 0) M_append vals (init root (node_store np ms))
  = of_tree root (append root np new).
Proof. exact run_append. Qed.
Print Assumptions C05gen_append.

(* node.copy(): a NEW wrapper (the next store entry) of the SAME expression object, without
   parent; nothing else changes  (Edit.copy e = e) *)
Theorem C05gen_copy : forall root ms np x,
  get root np = Some x -> is_texexpr x = true ->
  call run_depth gen_e_tbl (VNode 0) M_copy [] (init root (node_store np ms))
  = ODone (mkS root [] (node_store np ms ++ [(RIn np 0, PNone)]))
          (RVal (VNode (length (node_store np ms)))).
Proof. exact run_copy. Qed.
Print Assumptions C05gen_copy.

(* ----------------------------------------------------------------- serialisation *)
(* str(x) for every TexExpr object x of every tree, at every sufficient call depth n
   (sdepth x: twice the nesting through arguments, once through contents), is Tree.estr x:
   TexCmd.__str__, TexEnv.__str__ (root, named, math, groups), TexNamedEnv.begin / end,
   TexEnv.begin / end, TexText.__str__, TexArgs.__str__ *)
Theorem C05gen_str : forall e n st r p,
  live st r p e -> is_texexpr e = true -> (sdepth e <= n)%nat ->
  call n gen_e_tbl (VExpr r) M_str [] st = ODone st (RVal (VStr (estr e))).
Proof. exact gen_str_ok. Qed.
Print Assumptions C05gen_str.

Theorem C05gen_str_root : forall t, is_texexpr t = true -> run_str t = GDone t (VStr (estr t)).
Proof. exact run_str_ok. Qed.
Print Assumptions C05gen_str_root.

(* TexNode.__str__ *)
Theorem C05gen_str_node : forall n st ks r par p e,
  node_at st ks = Some (r, par) -> live st r p e -> is_texexpr e = true -> (sdepth e <= n)%nat ->
  call (S n) gen_e_tbl (VNode ks) M_str [] st = ODone st (RVal (VStr (estr e))).
Proof. exact gen_node_str_ok. Qed.
Print Assumptions C05gen_str_node.

(* ----------------------------------- the C05 theorems, of the translated source *)
(* C05_delete: the hypotheses of Props/C05.v, the parent being the navigation parent, plus
   the two class invariants *)
Theorem C05gen_delete_local : forall root ms hp i h x P,
  get root hp = Some h -> nth_error (body_of h) i = Some x -> arg_depth_ok hp = true ->
  get root (nav_parent hp) = Some P -> forallb is_node (args_of P) = true -> is_texexpr x = true ->
  exists root',
    run (VNode 0) M_delete [] (init root (target_store (hp ++ [SBody i]) (nav_parent hp) ms))
    = GDone root' VNone /\
    splice_at root hp i 1 [] = Some root' /\
    estr root  = span_pre root hp ++ estr_list (firstn i (body_of h)) ++ estr x
                   ++ estr_list (skipn (S i) (body_of h)) ++ span_post root hp /\
    estr root' = span_pre root hp ++ estr_list (firstn i (body_of h))
                   ++ estr_list (skipn (S i) (body_of h)) ++ span_post root hp.
Proof. exact gen_C05_delete. Qed.
Print Assumptions C05gen_delete_local.

Theorem C05gen_remove_local : forall root ms hp i h x,
  get root hp = Some h -> nth_error (body_of h) i = Some x -> ends_in_arg hp = false ->
  is_texexpr x = true ->
  exists root',
    run (VNode 1) M_remove [VNode 0] (init root (target_store (hp ++ [SBody i]) hp ms))
    = GDone root' VNone /\
    splice_at root hp i 1 [] = Some root' /\
    estr root' = span_pre root hp ++ estr_list (firstn i (body_of h))
                   ++ estr_list (skipn (S i) (body_of h)) ++ span_post root hp.
Proof. exact gen_C05_remove. Qed.
Print Assumptions C05gen_remove_local.

Theorem C05gen_replace_with_local : forall root ms hp i h x P vals new,
  get root hp = Some h -> nth_error (body_of h) i = Some x ->
  supports (set_body h (splice i 1 [] (body_of h))) = true -> arg_depth_ok hp = true ->
  get root (nav_parent hp) = Some P -> forallb is_node (args_of P) = true -> is_texexpr x = true ->
  mat_items (init root (target_store (hp ++ [SBody i]) (nav_parent hp) ms)) vals = Some new ->
  exists root',
    run (VNode 0) M_replace_with vals (init root (target_store (hp ++ [SBody i]) (nav_parent hp) ms))
    = GDone root' VNone /\
    splice_at root hp i 1 new = Some root' /\
    estr root' = span_pre root hp ++ estr_list (firstn i (body_of h)) ++ estr_list new
                   ++ estr_list (skipn (S i) (body_of h)) ++ span_post root hp.
Proof. exact gen_C05_replace_with. Qed.
Print Assumptions C05gen_replace_with_local.

Theorem C05gen_replace_local : forall root ms pp hp i P h x vals new,
  get root pp = Some P -> (hp = pp \/ exists j, hp = pp ++ [SArg j]) ->
  get root hp = Some h -> nth_error (body_of h) i = Some x ->
  supports (set_body h (splice i 1 [] (body_of h))) = true ->
  forallb is_node (args_of P) = true -> is_texexpr x = true ->
  mat_items (init root (target_store (hp ++ [SBody i]) pp ms)) vals = Some new ->
  exists root',
    run (VNode 1) M_replace (VNode 0 :: vals) (init root (target_store (hp ++ [SBody i]) pp ms))
    = GDone root' VNone /\
    splice_at root hp i 1 new = Some root' /\
    estr root' = span_pre root hp ++ estr_list (firstn i (body_of h)) ++ estr_list new
                   ++ estr_list (skipn (S i) (body_of h)) ++ span_post root hp.
Proof. exact gen_C05_replace. Qed.
Print Assumptions C05gen_replace_local.

Theorem C05gen_insert_local : forall root ms np i h vals new,
  get root np = Some h -> is_node h = true -> supports h = true -> (i <= length (body_of h))%nat ->
  mats_fresh (init root (node_store np ms)) vals ->
  mat_items (init root (node_store np ms)) vals = Some new ->
  exists root',
    run (VNode 0) M_insert (VInt (Z.of_nat i) :: vals) (init root (node_store np ms)) = GDone root' VNone /\
    splice_at root np i 0 new = Some root' /\
    estr root' = span_pre root np ++ estr_list (firstn i (body_of h)) ++ estr_list new
                   ++ estr_list (skipn i (body_of h)) ++ span_post root np.
Proof. exact gen_C05_insert. Qed.
Print Assumptions C05gen_insert_local.

Theorem C05gen_append_local : forall root ms np h vals new,
  get root np = Some h -> is_node h = true -> supports h = true ->
  mat_items (init root (node_store np ms)) vals = Some new ->
  exists root',
    run (VNode 0) M_append vals (init root (node_store np ms)) = GDone root' VNone /\
    splice_at root np (length (body_of h)) 0 new = Some root' /\
    estr root' = span_pre root np ++ estr_list (body_of h) ++ estr_list new ++ span_post root np.
Proof. exact gen_C05_append. Qed.
Print Assumptions C05gen_append_local.

(* ----------------------------------------------------------- examples, refuted *)
(* the hypotheses of C05gen_delete(_local) on the parse of  \a{\b}\c  (the \b inside the
   argument group), and the value computed by the interpreter *)
Theorem C05gen_delete_example :
  let root := parsed doc_arg in
  let hp := [SBody 0; SArg 0]%nat in
  (exists h x P, get root hp = Some h /\ nth_error (body_of h) 0 = Some x /\ arg_depth_ok hp = true /\
                 get root (nav_parent hp) = Some P /\ forallb is_node (args_of P) = true /\
                 is_texexpr x = true) /\
  run (VNode 0) M_delete [] (init root (target_store (hp ++ [SBody 0%nat]) (nav_parent hp) []))
  = of_tree root (delete root hp 0) /\
  gstr (run (VNode 0) M_delete [] (init root (target_store (hp ++ [SBody 0%nat]) (nav_parent hp) [])))
  = Some (None, [92; 97; 123; 125; 92; 99]%N).
Proof. exact ex_delete_in_argument. Qed.
Print Assumptions C05gen_delete_example.

(* the textual fall-back: env.remove(node) for the \b in the ARGUMENT of
   \begin{e}{\b}\b\end{e}  removes the twin in the body (replayed on the implementation) *)
Theorem C05gen_remove_fallback_example :
  let root := parsed doc_envtwin in
  let pp := [SBody 0]%nat in let thp := [SBody 0; SArg 0]%nat in
  (exists P x, get root pp = Some P /\ get root (thp ++ [SBody 0%nat]) = Some x /\ is_node P = true /\
               is_node x = true /\ pp <> thp) /\
  run (VNode 1) M_remove [VNode 0] (init root (target_store (thp ++ [SBody 0%nat]) pp []))
  = of_tree root (remove_via root pp thp 0) /\
  gstr (run (VNode 1) M_remove [VNode 0] (init root (target_store (thp ++ [SBody 0%nat]) pp [])))
  = Some (None, [92; 98; 101; 103; 105; 110; 123; 101; 125; 123; 92; 98; 125; 92; 101; 110; 100; 123; 101; 125]%N).
Proof. exact ex_remove_textual_fallback. Qed.
Print Assumptions C05gen_remove_fallback_example.

(* material: a str and a wrapper of a fresh command *)
Theorem C05gen_insert_example :
  let root := parsed doc_arg in
  let ms := [(ROut ex_new_cmd, PNone)] in
  let vals := [VStr s_S; VNode 1] in
  mats_fresh (init root (node_store [] ms)) vals /\
  mat_items (init root (node_store [] ms)) vals = Some [EStr s_S; ex_new_cmd] /\
  run (VNode 0) M_insert (VInt 1 :: vals) (init root (node_store [] ms))
  = of_tree root (insert root [] 1 [EStr s_S; ex_new_cmd]) /\
  gstr (run (VNode 0) M_insert (VInt 1 :: vals) (init root (node_store [] ms)))
  = Some (None, [92; 97; 123; 92; 98; 125; 83; 92; 110; 92; 99]%N).
Proof. exact ex_insert_material. Qed.
Print Assumptions C05gen_insert_example.

(* the partial outcome of replace, computed by the interpreter (replayed: TypeError, \foo) *)
Theorem C05gen_replace_partial_example :
  let root := ERoot [ECmd [102; 111; 111]%N [] [ECmd [99]%N [] [] 1] 0] in
  replace_with root [SBody 0%nat] 0 [EStr s_S] = Partial ETypeError (ERoot [ECmd [102; 111; 111]%N [] [] 0]) /\
  run (VNode 0) M_replace_with [VStr s_S] (init root (target_store [SBody 0; SBody 0]%nat [SBody 0]%nat []))
  = GExc TypeError (ERoot [ECmd [102; 111; 111]%N [] [] 0]).
Proof. exact ex_replace_partial. Qed.
Print Assumptions C05gen_replace_partial_example.

Theorem C05gen_str_example :
  run_str (parsed doc_env) = GDone (parsed doc_env) (VStr doc_env) /\
  run_str (parsed doc_args) = GDone (parsed doc_args) (VStr doc_args) /\
  run_str (parsed doc_item) = GDone (parsed doc_item) (VStr doc_item).
Proof. exact ex_str. Qed.
Print Assumptions C05gen_str_example.

(* `mats_fresh` cannot be dropped from C05gen_insert: the same wrapper passed twice.  The
   code raises AssertionError (`assert not node.parent`) before inserting anything; the hand
   model, which sees only the list of expressions, inserts both.  Replayed:
   d = TexSoup(r'\n').n.copy(); soup.insert(1, d, d) -> AssertionError, soup unchanged:
   the translated source is right, the hand model is used outside its guard. *)
Theorem C05gen_insert_same_wrapper_twice_refuted :
  exists root ms np i vals new,
    mat_items (init root (node_store np ms)) vals = Some new /\
    run (VNode 0) M_insert (VInt i :: vals) (init root (node_store np ms)) = GExc AssertionError root /\
    (exists t, insert root np i new = Done t /\ t <> root).
Proof. exact insert_same_wrapper_twice_refuted. Qed.
Print Assumptions C05gen_insert_same_wrapper_twice_refuted.

(* `forallb is_node (args_of P)` cannot be dropped from C05gen_delete (a tree that TexArgs
   cannot hold: a text in an argument list) *)
Theorem C05gen_delete_text_argument_refuted :
  exists root pp thp ti,
    (exists t, delete_via root pp thp ti = Done t) /\
    run (VNode 0) M_delete [] (init root (target_store (thp ++ [SBody ti]) pp [])) = GUnsup.
Proof. exact delete_text_argument_refuted. Qed.
Print Assumptions C05gen_delete_text_argument_refuted.
