(* C13regexgen  C13, clause 3, for the TRANSLATED search_regex.

   Model/RegexGen.v is regenerated on every run from the Python abstract
   syntax of TexNode.search_regex (TexSoup/data.py) by harness/gen_regex.py
   (fail-closed: for-loops, assignments of locals, `yield`, Token(..), +, -,
   `.position`, `self.text`, re.finditer(pattern, ., **kwargs), match.group()
   / .start() / .end(); anything else stops the translation).  The result,
   [gen_search_regex], is a program of the language of Model/RegexDSL.v; its
   interpreter [run_search_regex finditer prog txt] runs the generator with
   Python's semantics (statements in order, left-to-right evaluation, `yield`
   appends, an exception ends the run keeping what was yielded: AttributeError
   where `.position` of a plain str is evaluated, TypeError for re.finditer on
   a non-str) and answers [Done (matches, how it ended)], or [Unsup] when the
   program leaves the modelled fragment (unbound local, + on non-ints, ...).

   What is translated: the whole body of search_regex -- the two loops, the
   locals, the Token constructed and the arithmetic on the position.
   What is assumed (= what the hand model Model/Regex.v assumes):
     * the regular-expression engine: `re.finditer(pattern, s, **kwargs)` is
       the universally quantified [finditer : str -> list (nat * str)] (the
       (match.start(), match.group()) pairs in the order they are yielded);
       match.group(0) = match.group(), match.end() = start + len(group);
     * the value of `self.text`: the translated view `text` of Model/Views.v
       (proved equal to the translated source of TexNode.text / contents in
       Props/C04gen.v and Props/C03gen.v); an item ERaw s p is a Token with
       text s at position p, EStr s a plain str (RegexDSL.val_of_item);
     * the reading of `Token(body, pos)` as the pair (body, Some pos): a str
       subclass whose text is body and whose position field is pos, justified
       by the translated Token class (Props/C13token.v).
   Statements only; proofs in Proofs/RegexGenProofs.v (by induction over the
   leaf list and the match list, stepping through the generated body).

   Results
     C13regexgen_search_regex   the translated program computes exactly the
                                hand model Regex.search_regex, for every
                                engine and every node (never Unsup)
     C13regexgen_leafwise       C13_search_regex_leafwise, of the translation
     C13regexgen_offsets        C13_search_regex_offsets (the clause), of the
                                translation
     C13regexgen_no_error       C13_search_regex_no_error, of the translation *)
From Coq Require Import List NArith ZArith Bool.
From TexModel Require Import Base Tables Chars Tokenizer Tree Reader Views Regex RegexDSL RegexGen.
From TexProofs Require Import TokProofs ReaderLen ReaderCons ConsTop ConsBridge NodeProofs
     ViewsProofs RegexProofs RegexGenProofs.
Import ListNotations.

Theorem C13regexgen_search_regex :
  forall (finditer : str -> list (nat * str)) (n : item),
    run_search_regex finditer gen_search_regex (map snd (text n))
    = Done (search_regex finditer n).
Proof. exact gen_search_regex_ok. Qed.
Print Assumptions C13regexgen_search_regex.

Theorem C13regexgen_leafwise :
  forall (finditer : str -> list (nat * str)) (n : item),
    (exists pre s post, leaves (snd n) = pre ++ EStr s :: post /\ finditer s <> [] /\
       (forall s', In (EStr s') pre -> finditer s' = []) /\
       run_search_regex finditer gen_search_regex (map snd (text n))
       = Done (flat_map (leaf_hits finditer) pre, Some AttributeError)) \/
    ((forall s, In (EStr s) (leaves (snd n)) -> finditer s = []) /\
     run_search_regex finditer gen_search_regex (map snd (text n))
     = Done (flat_map (leaf_hits finditer) (leaves (snd n)), None)).
Proof. exact gen_search_regex_leafwise. Qed.
Print Assumptions C13regexgen_leafwise.

(* the clause: source without NUL/DEL, any mode, any skip list; the translated
   generator finishes inside the fragment and every match it yielded stands
   in the SOURCE at the offset it carries *)
Theorem C13regexgen_offsets :
  forall (finditer : str -> list (nat * str)),
    (forall leaf start body, In (start, body) (finditer leaf) ->
                             firstn (length body) (skipn start leaf) = body) ->
    forall (s : str) (strict : bool) (user : list str) (t : expr),
      parse s strict user = Ok t ->
      Forall (fun c => ign c = false) (categorize s) ->
      exists ms r,
        run_search_regex finditer gen_search_regex (map snd (text ([], t))) = Done (ms, r) /\
        forall body q, In (body, Some q) ms ->
          (0 <= q)%Z /\ slice s q (length body) = body.
Proof. exact gen_search_regex_offsets. Qed.
Print Assumptions C13regexgen_offsets.

Theorem C13regexgen_no_error :
  forall (finditer : str -> list (nat * str)) (n : item),
    nobare (snd n) = true ->
    run_search_regex finditer gen_search_regex (map snd (text n))
    = Done (flat_map (leaf_hits finditer) (leaves (snd n)), None).
Proof. exact gen_search_regex_no_error. Qed.
Print Assumptions C13regexgen_no_error.

(* non-vacuity:  ab \begin{verbatim} ab $x$ab\end{verbatim} abab aba  (the
   example of C13regex.v): the translated program run with the literal engine
   reports "ab" at 0, 20, 26, 43, 45, 48 and ends normally *)
Example C13regexgen_example :
  let s := [97; 98; 32; 92; 98; 101; 103; 105; 110; 123; 118; 101; 114; 98; 97; 116; 105; 109;
            125; 32; 97; 98; 32; 36; 120; 36; 97; 98; 92; 101; 110; 100; 123; 118; 101; 114;
            98; 97; 116; 105; 109; 125; 32; 97; 98; 97; 98; 32; 97; 98; 97]%N in
  exists t, parse s true [] = Ok t /\
    forallb (fun c => negb (ign c)) (categorize s) = true /\
    run_search_regex (find_literal [97; 98]%N) gen_search_regex (map snd (text ([], t))) =
      Done (map (fun q => ([97; 98]%N, Some q)) [0; 20; 26; 43; 45; 48]%Z, None).
Proof.
  eexists. do 2 (split; [vm_compute; reflexivity|]). vm_compute. reflexivity.
Qed.

(* ... `a \textbf b`, pattern "b": the run ends with AttributeError (the
   exception outcome is reachable and is not Unsup) *)
Example C13regexgen_example_error :
  exists (s : str) t,
    parse s true [] = Ok t /\
    run_search_regex (find_literal [98]%N) gen_search_regex (map snd (text ([], t)))
    = Done ([], Some AttributeError).
Proof.
  exists [97; 32; 92; 116; 101; 120; 116; 98; 102; 32; 98]%N. eexists.
  split; vm_compute; reflexivity.
Qed.

(* ... and Unsup is a real outcome of the interpreter: a program that reads
   an unbound local does not produce a normal-looking result *)
Example C13regexgen_unsup_example :
  run_search_regex (find_literal [98]%N) [SYield (RVar 0%nat)] [] = Unsup.
Proof. reflexivity. Qed.
