(* C03  Search returns exactly the matching nodes.
   Every statement is about an arbitrary node n = (path, expression) of an
   arbitrary tree as search root (Views.v). *)
From Coq Require Import List NArith ZArith Bool Permutation.
From TexModel Require Import Base Tables Chars Tokenizer Tree Reader Views.
From TexProofs Require Import ViewsProofs.
Import ListNotations.

(* the descendants are exactly the non-blank content items found by the
   structural walk through environment bodies, item bodies, math regions,
   brace/bracket groups and the contents of arguments (an argument itself is
   not an item; a bare-token argument \def\foo contributes what is inside it:
   nothing) -- none missing, none spurious, each position once *)
Theorem descendants_complete : forall n : item,
  Permutation (map snd (descendants n)) (walk (snd n))
  /\ NoDup (map fst (descendants n)).
Proof. exact ViewsProofs.descendants_complete_once. Qed.
Print Assumptions descendants_complete.

(* STATEMENT AS GIVEN (query without '{' and '[' => find_all = the nodes named
   q) IS FALSE of the faithful model: *)
Theorem find_all_spec_refuted :
  exists (src q : str) (e : expr),
    parse src true [] = Ok e /\ query_has_brace (QName q) = false /\
    find_all (QName q) ([], e)
    <> filter (fun it => is_env_or_cmd (snd it) && str_eqb (expr_name (snd it)) q)
              (descendants ([], e)).
Proof. exact ViewsProofs.find_all_spec_refuted. Qed.
Print Assumptions find_all_spec_refuted.

(* strongest true form: for an identifier query (non-empty, none of { [ } ] \)
   find_all is exactly the sub-list of descendants made of the command /
   environment nodes whose name is q *)
Theorem find_all_spec_partial : forall (q : str) (n : item),
  ident_query q = true ->
  find_all (QName q) n
  = filter (fun it => is_env_or_cmd (snd it) && str_eqb (expr_name (snd it)) q) (descendants n).
Proof. exact ViewsProofs.find_all_spec_partial. Qed.
Print Assumptions find_all_spec_partial.

(* whatever the query: results are descendant nodes, each once *)
Theorem find_all_sound : forall (q : query) (n x : item),
  In x (find_all q n) -> In x (descendants n) /\ is_env_or_cmd (snd x) = true.
Proof. exact ViewsProofs.find_all_sublist. Qed.
Print Assumptions find_all_sound.

Theorem find_all_each_once : forall (q : query) (n : item),
  NoDup (map fst (find_all q n)).
Proof. exact ViewsProofs.find_all_nodup. Qed.
Print Assumptions find_all_each_once.

(* a node is not found under its own name when the name contains '[' or '{' *)
Theorem name_with_bracket_not_found :
  exists (src : str) (e : expr) (d : item),
    parse src true [] = Ok e /\ In d (descendants ([], e)) /\
    is_env_or_cmd (snd d) = true /\ find_all (QName (expr_name (snd d))) ([], e) = [].
Proof. exact ViewsProofs.name_with_bracket_not_found. Qed.
Print Assumptions name_with_bracket_not_found.

Theorem find_is_head : forall (q : query) (n : item),
  find q n = hd_error (find_all q n).
Proof. exact ViewsProofs.find_is_head. Qed.
Print Assumptions find_is_head.

Theorem count_is_length : forall (q : query) (n : item),
  count q n = length (find_all q n).
Proof. exact ViewsProofs.count_is_length. Qed.
Print Assumptions count_is_length.

(* attribute access equals find for every name that is not a real attribute:
   not in dir(TexNode) and not one of expr / parent / char_to_line *)
Theorem getattr_is_find : forall (a : str) (n : item),
  is_real_attr a = false -> getattr a n = AFound (find (QName a) n).
Proof. exact ViewsProofs.getattr_is_find. Qed.
Print Assumptions getattr_is_find.

(* with "not in dir(TexNode)" alone the statement is false (soup.expr) *)
Theorem getattr_is_find_refuted :
  exists (a : str) (n : item),
    mem_str a Tables.dir_texnode = false /\ getattr a n <> AFound (find (QName a) n).
Proof. exact ViewsProofs.getattr_is_find_refuted. Qed.
Print Assumptions getattr_is_find_refuted.

(* a list of names: exactly the nodes whose name is in the list, provided the
   list does not hold the one-character strings '{' / '[' ... *)
Theorem list_query_exact : forall (l : list str) (n : item),
  query_has_brace (QList l) = false ->
  find_all (QList l) n
  = filter (fun it => is_env_or_cmd (snd it) && mem_str (expr_name (snd it)) l) (descendants n).
Proof. exact ViewsProofs.list_query_exact. Qed.
Print Assumptions list_query_exact.

(* ... hence the union of the single-name searches, for identifier names *)
Theorem list_query_is_union_partial : forall (l : list str) (n : item),
  forallb ident_query l = true ->
  forall x, In x (find_all (QList l) n)
            <-> exists q, In q l /\ In x (find_all (QName q) n).
Proof. exact ViewsProofs.list_query_is_union. Qed.
Print Assumptions list_query_is_union_partial.

(* for arbitrary names the union statement is false *)
Theorem list_query_is_union_refuted :
  exists (src : str) (l : list str) (q : str) (e : expr),
    parse src true [] = Ok e /\ In q l /\
    find_all (QName q) ([], e) <> [] /\ find_all (QList l) ([], e) = [].
Proof. exact ViewsProofs.list_query_is_union_refuted. Qed.
Print Assumptions list_query_is_union_refuted.

Theorem list_query_brace_quirk : forall (l : list str) (n : item),
  query_has_brace (QList l) = true -> find_all (QList l) n = [].
Proof. exact ViewsProofs.list_query_brace_quirk. Qed.
Print Assumptions list_query_brace_quirk.

(* an absent name -- no descendant has it as text, name, opening
   (begin ++ args), begin or end -- matches nothing *)
Theorem absent_name_empty : forall (q : str) (n : item),
  forallb (fun d => negb (mem_str q (names_of (snd d)))) (descendants n) = true ->
  find_all (QName q) n = [] /\ find (QName q) n = None /\ count (QName q) n = 0.
Proof. exact ViewsProofs.absent_name_empty. Qed.
Print Assumptions absent_name_empty.

Theorem absent_list_empty : forall (l : list str) (n : item),
  forallb (fun d => negb (mem_str (expr_name (snd d)) l)) (descendants n) = true ->
  find_all (QList l) n = [].
Proof. exact ViewsProofs.absent_list_empty. Qed.
Print Assumptions absent_list_empty.

(* a full-expression query (a '{' or '[' in it) matches exactly the nodes whose
   text equals it and the environments (named, math, groups, root) one of
   whose name / opening (begin ++ args) / begin / end equals it *)
Theorem full_expr_query_spec : forall (q : str) (n : item),
  query_has_brace (QName q) = true ->
  find_all (QName q) n
  = filter (fun it => is_env_or_cmd (snd it)
                      && (str_eqb (estr (snd it)) q
                          || (is_env (snd it) && mem_str q (env_openings (snd it)))))
           (descendants n).
Proof. exact ViewsProofs.full_expr_query_spec. Qed.
Print Assumptions full_expr_query_spec.
