(* C19gen  The tokenizer rules of the model are the translated source.

   Model/TokGen.v is regenerated on every run from the Python abstract syntax
   of the eleven @token rules of TexSoup/tokens.py (harness/gen_tokrules.py,
   fail-closed).  `run_full p cx rest` interprets such a program with the
   semantics of Model/TokDSL.v; `ODone r` means it finished inside the modelled
   fragment, within the loop fuel, with rule result r.  `run_rule R cx rest` is
   the hand-written rule every other proof is about.
   Statements only; proofs are in Proofs/TokGenProofs.v. *)
From Coq Require Import List NArith ZArith Bool.
From TexModel Require Import Base Tables Chars Tokenizer TokDSL TokGen.
From TexProofs Require Import TokProofs TokGenProofs.
Import ListNotations.

(* the registration order of the decorators is the order the model uses *)
Theorem C19gen_rule_order : gen_rule_order = Tables.rule_order.
Proof. exact gen_rule_order_ok. Qed.
Print Assumptions C19gen_rule_order.

(* ---- the eight rules that agree on every input *)

Theorem C19gen_escaped_symbols :
  forall cx rest,
    run_full gen_escaped_symbols (ctx_of R_escaped_symbols cx) rest
    = ODone (run_rule R_escaped_symbols cx rest).
Proof. exact gen_escaped_symbols_ok. Qed.
Print Assumptions C19gen_escaped_symbols.

Theorem C19gen_math_sym_switch :
  forall cx rest,
    run_full gen_math_sym_switch (ctx_of R_math_sym_switch cx) rest
    = ODone (run_rule R_math_sym_switch cx rest).
Proof. exact gen_math_sym_switch_ok. Qed.
Print Assumptions C19gen_math_sym_switch.

Theorem C19gen_math_asym_switch :
  forall cx rest,
    run_full gen_math_asym_switch (ctx_of R_math_asym_switch cx) rest
    = ODone (run_rule R_math_asym_switch cx rest).
Proof. exact gen_math_asym_switch_ok. Qed.
Print Assumptions C19gen_math_asym_switch.

Theorem C19gen_line_break :
  forall cx rest,
    run_full gen_line_break (ctx_of R_line_break cx) rest
    = ODone (run_rule R_line_break cx rest).
Proof. exact gen_line_break_ok. Qed.
Print Assumptions C19gen_line_break.

Theorem C19gen_ignore :
  forall cx rest,
    run_full gen_ignore (ctx_of R_ignore cx) rest = ODone (run_rule R_ignore cx rest).
Proof. exact gen_ignore_ok. Qed.
Print Assumptions C19gen_ignore.

Theorem C19gen_symbols :
  forall cx rest,
    run_full gen_symbols (ctx_of R_symbols cx) rest = ODone (run_rule R_symbols cx rest).
Proof. exact gen_symbols_ok. Qed.
Print Assumptions C19gen_symbols.

Theorem C19gen_command_name :
  forall cx rest,
    run_full gen_command_name (ctx_of R_command_name cx) rest
    = ODone (run_rule R_command_name cx rest).
Proof. exact gen_command_name_ok. Qed.
Print Assumptions C19gen_command_name.

(* ---- the three rules that start from Token('', text.position): they agree
   when the first remaining character carries the buffer index, i.e.
   head_pos idx rest := match rest with [] => True | c :: _ => cpos c = idx end *)

Theorem C19gen_comment :
  forall cx rest, head_pos (cx_idx cx) rest ->
    run_full gen_comment (ctx_of R_comment cx) rest = ODone (run_rule R_comment cx rest).
Proof. exact gen_comment_ok. Qed.
Print Assumptions C19gen_comment.

Theorem C19gen_spacers :
  forall cx rest, head_pos (cx_idx cx) rest ->
    run_full gen_spacers (ctx_of R_spacers cx) rest = ODone (run_rule R_spacers cx rest).
Proof. exact gen_spacers_ok. Qed.
Print Assumptions C19gen_spacers.

Theorem C19gen_string :
  forall cx rest, head_pos (cx_idx cx) rest ->
    run_full gen_string (ctx_of R_string cx) rest = ODone (run_rule R_string cx rest).
Proof. exact gen_string_ok. Qed.
Print Assumptions C19gen_string.

(* ... and not otherwise: the source records the buffer index, the hand-written
   rules the index carried by the first character *)
Theorem C19gen_comment_unconditional_refuted :
  exists cx rest,
    run_full gen_comment (ctx_of R_comment cx) rest <> ODone (run_rule R_comment cx rest).
Proof. exact gen_comment_unconditional_refuted. Qed.
Print Assumptions C19gen_comment_unconditional_refuted.

Theorem C19gen_spacers_unconditional_refuted :
  exists cx rest,
    run_full gen_spacers (ctx_of R_spacers cx) rest <> ODone (run_rule R_spacers cx rest).
Proof. exact gen_spacers_unconditional_refuted. Qed.
Print Assumptions C19gen_spacers_unconditional_refuted.

Theorem C19gen_string_unconditional_refuted :
  exists cx rest,
    run_full gen_string (ctx_of R_string cx) rest <> ODone (run_rule R_string cx rest).
Proof. exact gen_string_unconditional_refuted. Qed.
Print Assumptions C19gen_string_unconditional_refuted.

(* ---- the sizing-command rule agrees when the table has no empty entry,
   no_empty_point points := Forall (fun p => p <> []) points,
   which holds of the table read from the source *)

Theorem C19gen_punctuation_command_name :
  forall cx rest, no_empty_point (cx_points cx) ->
    run_full gen_punctuation_command_name (ctx_of R_punctuation_command_name cx) rest
    = ODone (run_rule R_punctuation_command_name cx rest).
Proof. exact gen_punctuation_command_name_ok. Qed.
Print Assumptions C19gen_punctuation_command_name.

Theorem C19gen_table_no_empty_point : no_empty_point Tables.punctuation_commands.
Proof. exact table_no_empty_point. Qed.
Print Assumptions C19gen_table_no_empty_point.

Theorem C19gen_punctuation_unconditional_refuted :
  exists cx rest,
    run_full gen_punctuation_command_name (ctx_of R_punctuation_command_name cx) rest
    <> ODone (run_rule R_punctuation_command_name cx rest).
Proof. exact gen_punctuation_unconditional_refuted. Qed.
Print Assumptions C19gen_punctuation_unconditional_refuted.

(* ---- all rules at once, in the result type of the hand-written rules *)

Theorem C19gen_rules :
  forall r cx rest, head_pos (cx_idx cx) rest -> no_empty_point (cx_points cx) ->
    run_stmts (gen_program r) (ctx_of r cx) rest = run_rule r cx rest.
Proof. exact gen_rule_stmts_ok. Qed.
Print Assumptions C19gen_rules.

(* ---- hence the model's tokenizer is the driver of Tokenizer.v run on the
   translated rule bodies in the translated order, on every input string *)

Theorem C19gen_tokenize :
  forall s : str,
    tokenize_g gen_program gen_rule_order (categorize s) = tokenize (categorize s).
Proof. exact tokenize_g_ok. Qed.
Print Assumptions C19gen_tokenize.
