(* C13token  The class Token is the translated source, and it has the behaviour
   every other interpreter of this development builds in.

   Model/TokenGen.v is regenerated on every run from the Python abstract syntax
   of class Token and of `Token.Empty = ...` (TexSoup/utils.py) by
   harness/gen_token.py (fail-closed).  With C := gen_token_cls and the
   semantics of Model/TokenDSL.v:
     run_new C vs        Token(vs)
     run_meth C m r vs   type(r).m(r, vs): the translated def m, bound to the Token
                         r (or, for the classmethod join, to the class VCls)
     run_empty C         Token.Empty
     run_add / run_eq / run_in / run_truthy / run_str / run_iter / run_getattr
                         the operators + == in, truth value, str(), iter(), x.a as
                         the interpreter dispatches them to the translated defs
   Results: RV v (a value) / RX e (TypeError, IndexError, AttributeError): the
   call finished inside the modelled fragment and call depth; RU / RF otherwise.
     tokval s p c        the Token object built from the plain str s: payload s,
                         text s, position p, category c (p, c ANY values)
     tv t                a token of the development's vocabulary (TokDSL.tokv =
                         mkv text pos cat; int position; category None/CC/TC) as a
                         Token object: tokval (v_text t) (VInt (v_pos t)) (catval ..)
     optv                None / an int as a slice bound
     read_val / glue_cat a tokv as a ReadDSL value / a category as a GlueDSL value
   The specification functions (new_of_str, new_of_tok, tok_add, tok_radd,
   tok_join, tok_eq, tok_bool, tok_strip, tok_getitem, occurs_at, ...) are in
   Model/TokenSpec.v together with the list A1..A12 of what the other
   interpreters assume.  Statements only; proofs in Proofs/TokenGenProofs.v. *)
From Coq Require Import String.
From Coq Require Import List NArith ZArith Bool.
From TexModel Require Import Base Tables Chars Tokenizer Tree Reader TokenDSL TokenGen TokenSpec.
From TexModel Require TokDSL ReadDSL GlueDSL.
From TexProofs Require Import TokenGenProofs.
Import ListNotations.
Local Open Scope Z_scope.

Notation C := gen_token_cls.

(* =============================== Part 1: every translated def, all arguments *)

(* ---- __new__ and Token.Empty *)

(* A1  Token(s, p, c), s a plain str: exactly text s, position p, category c *)
Theorem C13token_new_str : forall s p c, run_new C [VStr s; p; c] = RV (tokval s p c).
Proof. exact gen_new_str. Qed.
Print Assumptions C13token_new_str.

Theorem C13token_new_defaults : forall s p,
  run_new C [VStr s; p] = RV (tokval s p VNone) /\
  run_new C [VStr s] = RV (tokval s VNone VNone) /\
  run_new C [] = RV (tokval [] VNone VNone).
Proof. exact gen_new_defaults. Qed.
Print Assumptions C13token_new_defaults.

(* A2  Token(t, p', c') for a Token t keeps t's text AND POSITION (p' is ignored)
   and t's category unless one is given *)
Theorem C13token_new_tok_nocat : forall s p c p',
  run_new C [tokval s p c; p'; VNone] = RV (tokval s p c) /\
  run_new C [tokval s p c; p'] = RV (tokval s p c) /\
  run_new C [tokval s p c] = RV (tokval s p c).
Proof. exact gen_new_tok_nocat. Qed.
Print Assumptions C13token_new_tok_nocat.

Theorem C13token_new_tok_cat : forall s p c p' e,
  run_new C [tokval s p c; p'; VEnum e] = RV (tokval s p (VEnum e)).
Proof. exact gen_new_tok_cat. Qed.
Print Assumptions C13token_new_tok_cat.

Theorem C13token_new_tok : forall t p' c, run_new C [tv t; p'; catval c] = RV (tv (new_of_tok t c)).
Proof. exact gen_new_tok. Qed.
Print Assumptions C13token_new_tok.

Theorem C13token_new_of_str : forall s p c,
  run_new C [VStr s; VInt p; catval c] = RV (tv (new_of_str s p c)).
Proof. exact gen_new_of_str. Qed.
Print Assumptions C13token_new_of_str.

(* A8 *)
Theorem C13token_empty : run_empty C = RV (tv tok_empty).
Proof. exact gen_empty_ok. Qed.
Print Assumptions C13token_empty.

(* ---- __add__ __iadd__ __radd__ *)

(* A3  position and category of the LEFT operand, whatever they are *)
Theorem C13token_add_tok : forall s1 p1 c1 s2 p2 c2,
  run_meth C M_add (tokval s1 p1 c1) [tokval s2 p2 c2] = RV (tokval (s1 ++ s2) p1 c1).
Proof. exact gen_add_tok. Qed.
Print Assumptions C13token_add_tok.

Theorem C13token_add_str : forall s1 p1 c1 s2,
  run_meth C M_add (tokval s1 p1 c1) [VStr s2] = RV (tokval (s1 ++ s2) p1 c1).
Proof. exact gen_add_str. Qed.
Print Assumptions C13token_add_str.

Theorem C13token_add_nonstr : forall s1 p1 c1 z,
  run_meth C M_add (tokval s1 p1 c1) [VNone] = RX TypeError /\
  run_meth C M_add (tokval s1 p1 c1) [VInt z] = RX TypeError.
Proof. exact gen_add_nonstr. Qed.
Print Assumptions C13token_add_nonstr.

Theorem C13token_iadd_tok : forall s1 p1 c1 s2 p2 c2,
  run_meth C M_iadd (tokval s1 p1 c1) [tokval s2 p2 c2] = RV (tokval (s1 ++ s2) p1 c1).
Proof. exact gen_iadd_tok. Qed.
Print Assumptions C13token_iadd_tok.

Theorem C13token_iadd_str : forall s1 p1 c1 s2,
  run_meth C M_iadd (tokval s1 p1 c1) [VStr s2] = RV (tokval (s1 ++ s2) p1 c1).
Proof. exact gen_iadd_str. Qed.
Print Assumptions C13token_iadd_str.

Theorem C13token_iadd_nonstr : forall s1 p1 c1 z,
  run_meth C M_iadd (tokval s1 p1 c1) [VNone] = RX TypeError /\
  run_meth C M_iadd (tokval s1 p1 c1) [VInt z] = RX TypeError.
Proof. exact gen_iadd_nonstr. Qed.
Print Assumptions C13token_iadd_nonstr.

Theorem C13token_add : forall a b,
  run_meth C M_add (tv a) [tv b] = RV (tv (tok_add a b)) /\
  run_meth C M_iadd (tv a) [tv b] = RV (tv (tok_add a b)).
Proof. exact gen_add_ok. Qed.
Print Assumptions C13token_add.

Theorem C13token_add_plain : forall a s,
  run_meth C M_add (tv a) [VStr s] = RV (tv (tok_add_str a s)) /\
  run_meth C M_iadd (tv a) [VStr s] = RV (tv (tok_add_str a s)).
Proof. exact gen_add_str_ok. Qed.
Print Assumptions C13token_add_plain.

(* A4  s + tok: position tok.position - len(s) *)
Theorem C13token_radd_str : forall s0 s p c,
  run_meth C M_radd (tokval s (VInt p) c) [VStr s0]
  = RV (tokval (s0 ++ s) (VInt (p - Z.of_nat (length s0))) c).
Proof. exact gen_radd_str. Qed.
Print Assumptions C13token_radd_str.

Theorem C13token_radd : forall s0 a, run_meth C M_radd (tv a) [VStr s0] = RV (tv (tok_radd s0 a)).
Proof. exact gen_radd_ok. Qed.
Print Assumptions C13token_radd.

Theorem C13token_radd_errors : forall s c s0 p z,
  run_meth C M_radd (tokval s VNone c) [VStr s0] = RX TypeError /\
  run_meth C M_radd (tokval s p c) [VNone] = RX TypeError /\
  run_meth C M_radd (tokval s p c) [VInt z] = RX TypeError.
Proof. exact gen_radd_errors. Qed.
Print Assumptions C13token_radd_errors.

Theorem C13token_operator_add : forall a b s,
  run_add C (tv a) (tv b) = RV (tv (tok_add a b)) /\
  run_add C (tv a) (VStr s) = RV (tv (tok_add_str a s)) /\
  run_add C (VStr s) (tv a) = RV (tv (tok_radd s a)).
Proof. exact run_add_ok. Qed.
Print Assumptions C13token_operator_add.

(* ---- __eq__ __bool__ __hash__ __repr__ __str__ __getattr__ *)

(* A5  the TEXT only: positions and categories are arbitrary *)
Theorem C13token_eq_tok : forall s1 p1 c1 s2 p2 c2,
  run_meth C M_eq (tokval s1 p1 c1) [tokval s2 p2 c2] = RV (VBool (str_eqb s1 s2)).
Proof. exact gen_eq_tok. Qed.
Print Assumptions C13token_eq_tok.

Theorem C13token_eq_str : forall s1 p1 c1 s2,
  run_meth C M_eq (tokval s1 p1 c1) [VStr s2] = RV (VBool (str_eqb s1 s2)).
Proof. exact gen_eq_str. Qed.
Print Assumptions C13token_eq_str.

Theorem C13token_eq_other : forall s1 p1 c1 z e b,
  run_meth C M_eq (tokval s1 p1 c1) [VNone] = RV (VBool false) /\
  run_meth C M_eq (tokval s1 p1 c1) [VInt z] = RV (VBool false) /\
  run_meth C M_eq (tokval s1 p1 c1) [VEnum e] = RV (VBool false) /\
  run_meth C M_eq (tokval s1 p1 c1) [VBool b] = RV (VBool false).
Proof. exact gen_eq_other. Qed.
Print Assumptions C13token_eq_other.

(* Token.__eq__(tok, x) is tok.text == x for EVERY x that is not a Token *)
Theorem C13token_eq_delegates : forall s p c x,
  isinst KToken x = Some false ->
  run_meth C M_eq (tokval s p c) [x] = run_eq C (VStr s) x.
Proof. exact gen_eq_delegates. Qed.
Print Assumptions C13token_eq_delegates.

Theorem C13token_eq : forall a b s,
  run_meth C M_eq (tv a) [tv b] = RV (VBool (tok_eq a b)) /\
  run_meth C M_eq (tv a) [VStr s] = RV (VBool (tok_eq_str a s)).
Proof. exact gen_eq_ok. Qed.
Print Assumptions C13token_eq.

Theorem C13token_operator_eq : forall a b s,
  run_eq C (tv a) (tv b) = RV (VBool (tok_eq a b)) /\
  run_eq C (tv a) (VStr s) = RV (VBool (tok_eq_str a s)) /\
  run_eq C (VStr s) (tv a) = RV (VBool (tok_eq_str a s)) /\
  run_eq C (tv a) VNone = RV (VBool false) /\
  run_eq C VNone (tv a) = RV (VBool false).
Proof. exact run_eq_ok. Qed.
Print Assumptions C13token_operator_eq.

(* A6 *)
Theorem C13token_bool_tok : forall s p c,
  run_meth C M_bool (tokval s p c) [] = RV (VBool (nonempty s)).
Proof. exact gen_bool_tok. Qed.
Print Assumptions C13token_bool_tok.

Theorem C13token_bool : forall a,
  run_meth C M_bool (tv a) [] = RV (VBool (tok_bool a)) /\
  run_truthy C (tv a) = RV (VBool (tok_bool a)).
Proof. exact gen_bool_ok. Qed.
Print Assumptions C13token_bool.

Theorem C13token_hash : forall s p c, run_meth C M_hash (tokval s p c) [] = RV (VHash s).
Proof. exact gen_hash_tok. Qed.
Print Assumptions C13token_hash.

Theorem C13token_repr : forall s p c, run_meth C M_repr (tokval s p c) [] = RV (VRepr s).
Proof. exact gen_repr_tok. Qed.
Print Assumptions C13token_repr.

(* A9 *)
Theorem C13token_str : forall s p c,
  run_meth C M_str (tokval s p c) [] = RV (VStr s) /\ run_str C (tokval s p c) = RV (VStr s).
Proof. exact gen_str_tok. Qed.
Print Assumptions C13token_str.

(* A10  __getattr__ asks the wrapped str *)
Theorem C13token_getattr : forall s p c a,
  run_meth C M_getattr (tokval s p c) [VStr a]
  = match str_has a with
    | Some true => RV (VBound s a)
    | Some false => RX AttributeError
    | None => RU
    end.
Proof. exact gen_getattr_tok. Qed.
Print Assumptions C13token_getattr.

Theorem C13token_attr_lookup : forall s p c,
  run_getattr C (tokval s p c) (py "__match__") = RX AttributeError /\
  run_getattr C (tokval s p c) (py "text") = RV (VStr s) /\
  run_getattr C (tokval s p c) (py "position") = RV p /\
  run_getattr C (tokval s p c) (py "category") = RV c.
Proof. exact gen_attr_lookup. Qed.
Print Assumptions C13token_attr_lookup.

(* ---- __contains__ *)

Theorem C13token_contains_tok : forall s p c x px cx y,
  run_meth C M_contains (tokval s p c) [VStr x] = RV (VBool (is_sub x s)) /\
  run_meth C M_contains (tokval s p c) [tokval y px cx] = RV (VBool (is_sub y s)) /\
  run_meth C M_contains (tokval s p c) [VNone] = RX TypeError.
Proof. exact gen_contains_tok. Qed.
Print Assumptions C13token_contains_tok.

Theorem C13token_contains : forall a x b,
  run_meth C M_contains (tv a) [VStr x] = RV (VBool (tok_contains a x)) /\
  run_meth C M_contains (tv a) [tv b] = RV (VBool (tok_contains a (v_text b))) /\
  run_in C (VStr x) (tv a) = RV (VBool (tok_contains a x)) /\
  run_in C (tv b) (tv a) = RV (VBool (tok_contains a (v_text b))).
Proof. exact gen_contains_ok. Qed.
Print Assumptions C13token_contains.

(* ---- join *)

(* A7  any list or tuple of tokens, any glue str *)
Theorem C13token_join : forall g ts,
  run_meth C M_join VCls [VList (map tv ts); VStr g] = RV (tv (tok_join g ts)) /\
  run_meth C M_join VCls [VTuple (map tv ts); VStr g] = RV (tv (tok_join g ts)).
Proof. exact gen_join_ok. Qed.
Print Assumptions C13token_join.

Theorem C13token_join_default : forall ts,
  run_meth C M_join VCls [VList (map tv ts)] = RV (tv (tok_join [] ts)).
Proof. exact gen_join_default. Qed.
Print Assumptions C13token_join_default.

Theorem C13token_join_nil : forall g,
  run_meth C M_join VCls [VList []; VStr g] = RV (tv tok_empty) /\
  run_meth C M_join VCls [VTuple []; VStr g] = RV (tv tok_empty) /\
  run_meth C M_join VCls [VList []] = RV (tv tok_empty).
Proof. exact gen_join_nil. Qed.
Print Assumptions C13token_join_nil.

Theorem C13token_join_iterator : forall l e, run_meth C M_join VCls [VIter l e] = RX TypeError.
Proof. exact gen_join_iterator. Qed.
Print Assumptions C13token_join_iterator.

(* ---- __iter__ and its generator *)

Theorem C13token_priv_iter : forall a,
  run_meth C M_priv_iter (tv a) [] = RV (VIter (map tv (tok_iter a)) None).
Proof. exact gen_priv_iter_ok. Qed.
Print Assumptions C13token_priv_iter.

Theorem C13token_iter : forall a,
  run_meth C M_iter (tv a) [] = RV (VIter (map tv (tok_iter a)) None) /\
  run_iter C (tv a) = RV (VIter (map tv (tok_iter a)) None).
Proof. exact gen_iter_ok. Qed.
Print Assumptions C13token_iter.

Theorem C13token_iter_no_position : forall c s cat,
  run_meth C M_iter (tokval (c :: s) VNone cat) [] = RV (VIter [] (Some TypeError)).
Proof. exact gen_iter_no_position. Qed.
Print Assumptions C13token_iter_no_position.

(* ---- __getitem__ *)

Theorem C13token_getitem_int : forall a k,
  run_meth C M_getitem (tv a) [VInt k]
  = match tok_getitem a k with
    | Some r => RV (tv r)
    | None => RX IndexError
    end.
Proof. exact gen_getitem_int. Qed.
Print Assumptions C13token_getitem_int.

Theorem C13token_getitem_slice : forall a lo hi,
  run_meth C M_getitem (tv a) [VSlice (optv lo) (optv hi) VNone] = RV (tv (tok_getslice a lo hi)).
Proof. exact gen_getitem_slice. Qed.
Print Assumptions C13token_getitem_slice.

Theorem C13token_getitem_other : forall a s,
  run_meth C M_getitem (tv a) [VNone] = RX AttributeError /\
  run_meth C M_getitem (tv a) [VStr s] = RX AttributeError.
Proof. exact gen_getitem_other. Qed.
Print Assumptions C13token_getitem_other.

(* ---- strip lstrip rstrip *)

(* A11 (text) and the position *)
Theorem C13token_strip : forall a,
  run_meth C M_strip (tv a) [] = RV (tv (tok_strip a)) /\
  run_meth C M_strip (tv a) [VNone] = RV (tv (tok_strip a)).
Proof. exact gen_strip_ok. Qed.
Print Assumptions C13token_strip.

Theorem C13token_lstrip : forall a,
  run_meth C M_lstrip (tv a) [] = RV (tv (tok_lstrip a)) /\
  run_meth C M_lstrip (tv a) [VNone] = RV (tv (tok_lstrip a)).
Proof. exact gen_lstrip_ok. Qed.
Print Assumptions C13token_lstrip.

Theorem C13token_rstrip : forall a,
  run_meth C M_rstrip (tv a) [] = RV (tv (tok_rstrip a)) /\
  run_meth C M_rstrip (tv a) [VNone] = RV (tv (tok_rstrip a)).
Proof. exact gen_rstrip_ok. Qed.
Print Assumptions C13token_rstrip.

Theorem C13token_strip_chars : forall sd s p c cs,
  let r := strip_side sd (fun x => mem_N x cs) s in
  run_meth C (strip_meth sd) (tokval s (VInt p) c) [VStr cs] = RV (tokval r (VInt (p + py_find s r)) c).
Proof. exact gen_strip_chars. Qed.
Print Assumptions C13token_strip_chars.

Theorem C13token_strip_bad_args : forall sd s p c z x y,
  run_meth C (strip_meth sd) (tokval s p c) [VInt z] = RX TypeError /\
  run_meth C (strip_meth sd) (tokval s p c) [VStr x; VStr y] = RX TypeError.
Proof. exact gen_strip_bad_args. Qed.
Print Assumptions C13token_strip_bad_args.

(* A12  the str value the constructed object IS equals its text attribute (so
   the methods Token inherits from str -- isspace, startswith, !=, len, being an
   element of ''.join -- see the text) *)
Theorem C13token_payload_is_text : forall vs pay t p c,
  (exists s p0 c0, vs = [VStr s; p0; c0]) \/
  (exists s p0 c0 p' c', vs = [tokval s p0 c0; p'; c'] /\ (c' = VNone \/ exists e, c' = VEnum e)) ->
  run_new C vs = RV (VTok pay t p c) -> t = Some (VStr pay).
Proof. exact gen_new_payload_is_text. Qed.
Print Assumptions C13token_payload_is_text.

(* ===== Part 2: the specification functions ARE the other interpreters' built-ins *)

(* TokDSL: a += b (SAppendForward / SAppendNext) *)
Theorem C13token_tokdsl_iadd : forall a b, TokDSL.tok_add a b = tok_add a b.
Proof. exact tokdsl_tok_add. Qed.
Print Assumptions C13token_tokdsl_iadd.

(* TokDSL: text.forward(n), n >= 1 characters, is Token.join of them *)
Theorem C13token_tokdsl_forward : forall c a,
  tok_join [] (map of_cchar (c :: a)) = mkv (chars_of (c :: a)) (cpos c) (KCC (ccat c)).
Proof. exact tokdsl_forward. Qed.
Print Assumptions C13token_tokdsl_forward.

(* TokDSL: SNewToken, SWrapForward *)
Theorem C13token_tokdsl_new : forall p k t,
  new_of_str [] p (match k with Some x => KTC x | None => KNone end)
  = mkv [] p (match k with Some x => KTC x | None => KNone end) /\
  new_of_tok t KNone = t.
Proof. exact tokdsl_new. Qed.
Print Assumptions C13token_tokdsl_new.

(* ReadDSL: peek((a, b)) / forward / backward *)
Theorem C13token_readdsl_join : forall ts,
  read_val (tok_join [] (map of_token ts)) = Some (ReadDSL.join_tokens ts).
Proof. exact readdsl_join_tokens. Qed.
Print Assumptions C13token_readdsl_join.

(* ReadDSL: Token(text, pos) *)
Theorem C13token_readdsl_new : forall s p,
  read_val (new_of_str s p KNone) = Some (ReadDSL.VTok s p None).
Proof. exact readdsl_new. Qed.
Print Assumptions C13token_readdsl_new.

(* ReadDSL: forward_until: Token('', start) += forward(1) += ... *)
Theorem C13token_readdsl_forward_until : forall start ts,
  read_val (fold_left tok_add (map of_token ts) (new_of_str [] start KNone))
  = Some (ReadDSL.VTok (texts ts) start None).
Proof. exact readdsl_forward_until. Qed.
Print Assumptions C13token_readdsl_forward_until.

(* ReadDSL: truth value, ==, the text *)
Theorem C13token_readdsl_truthy_eq : forall a b va vb s,
  read_val a = Some va -> read_val b = Some vb ->
  ReadDSL.truthy va = Some (tok_bool a) /\
  ReadDSL.py_eq va vb = Some (tok_eq a b) /\
  ReadDSL.py_eq va (ReadDSL.VStr s) = Some (tok_eq_str a s) /\
  ReadDSL.py_eq (ReadDSL.VStr s) va = Some (str_eqb s (v_text a)) /\
  ReadDSL.py_eq va ReadDSL.VNone = Some false /\
  ReadDSL.text_of va = Some (tok_str a).
Proof. exact readdsl_truthy_eq. Qed.
Print Assumptions C13token_readdsl_truthy_eq.

(* GlueDSL: Token(t, p, c) *)
Theorem C13token_gluedsl_new : forall t p c gc s z,
  glue_cat c = Some gc ->
  GlueDSL.new_token (GlueDSL.VTok t) p gc = GlueDSL.EV (GlueDSL.VTok (new_of_tok t c)) /\
  GlueDSL.new_token (GlueDSL.VStr s) (GlueDSL.VInt z) gc = GlueDSL.EV (GlueDSL.VTok (new_of_str s z c)).
Proof. exact gluedsl_new_token. Qed.
Print Assumptions C13token_gluedsl_new.

(* GlueDSL: truth value and == *)
Theorem C13token_gluedsl_truthy_eq : forall a b s,
  GlueDSL.truthy (GlueDSL.VTok a) = Some (tok_bool a) /\
  GlueDSL.py_eq (GlueDSL.VTok a) (GlueDSL.VTok b) = Some (tok_eq a b) /\
  GlueDSL.py_eq (GlueDSL.VTok a) (GlueDSL.VStr s) = Some (tok_eq_str a s) /\
  GlueDSL.py_eq (GlueDSL.VStr s) (GlueDSL.VTok a) = Some (str_eqb s (v_text a)) /\
  GlueDSL.py_eq (GlueDSL.VTok a) GlueDSL.VNone = Some false /\
  GlueDSL.py_eq GlueDSL.VNone (GlueDSL.VTok a) = Some false.
Proof. exact gluedsl_truthy_eq. Qed.
Print Assumptions C13token_gluedsl_truthy_eq.

(* GlueDSL: Buffer(str) makes Token(c, index) of every character *)
Theorem C13token_gluedsl_str_tokens : forall s p k,
  GlueDSL.str_tokens (p + k) s = map GlueDSL.VTok (tok_iter_from (mkv [] p KNone) k s).
Proof. exact gluedsl_str_tokens. Qed.
Print Assumptions C13token_gluedsl_str_tokens.

(* BufDSL: only the texts: every + concatenates, Token(tok, i) keeps the text *)
Theorem C13token_bufdsl_texts : forall a b s ts p' c,
  v_text (tok_add a b) = v_text a ++ v_text b /\
  v_text (tok_add_str a s) = v_text a ++ s /\
  v_text (tok_radd s a) = s ++ v_text a /\
  v_text (new_of_tok a c) = v_text a /\
  v_text (new_of_str s p' c) = s /\
  v_text (tok_join [] ts) = concat (map v_text ts).
Proof. exact bufdsl_texts. Qed.
Print Assumptions C13token_bufdsl_texts.

(* =================== Part 3: positions inside a token are true offsets (C13) *)

(* occurs_at a r: r's text stands in a's text at offset v_pos r - v_pos a >= 0 *)
Theorem C13token_getitem_true_offset : forall a k r, tok_getitem a k = Some r -> occurs_at a r.
Proof. exact getitem_true_offset. Qed.
Print Assumptions C13token_getitem_true_offset.

Theorem C13token_iter_true_offset : forall a, Forall (occurs_at a) (tok_iter a).
Proof. exact iter_true_offset. Qed.
Print Assumptions C13token_iter_true_offset.

Theorem C13token_strip_true_offset : forall a,
  occurs_at a (tok_strip a) /\ occurs_at a (tok_lstrip a) /\ occurs_at a (tok_rstrip a).
Proof. exact strip_true_offset. Qed.
Print Assumptions C13token_strip_true_offset.

Theorem C13token_radd_true_offset : forall s a, occurs_at (tok_radd s a) a.
Proof. exact radd_true_offset. Qed.
Print Assumptions C13token_radd_true_offset.

(* a slice whose start lies inside the text (or is omitted) *)
Theorem C13token_getslice_true_offset : forall a lo hi,
  (match lo with
   | None => True
   | Some z => - Z.of_nat (length (v_text a)) <= z <= Z.of_nat (length (v_text a))
   end) ->
  occurs_at a (tok_getslice a lo hi).
Proof. exact getslice_true_offset. Qed.
Print Assumptions C13token_getslice_true_offset.

(* without the guard it is FALSE: a slice start before the beginning of the text
   is not clipped.  Witness Token('asdf', 2)[-10:]: text 'asdf', position -4.
   Replayed on the real code.  No interpreter of the development slices tokens. *)
Theorem C13token_getslice_offset_refuted :
  exists a lo hi, ~ occurs_at a (tok_getslice a lo hi) /\
    run_meth C M_getitem (tv a) [VSlice (optv lo) (optv hi) VNone]
    = RV (tokval [97; 115; 100; 102]%N (VInt (-4)) VNone).
Proof. exact getslice_offset_refuted. Qed.
Print Assumptions C13token_getslice_offset_refuted.
