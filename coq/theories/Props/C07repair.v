(* C07, clause 2, at TOKEN level: "a document without math, verbatim or list
   regions that has lost one closing brace, one closing bracket of an argument
   or one \end{name}: strict parsing reports an error and tolerant parsing
   succeeds".  Statements only; proofs in Proofs/RepairProofs.v.

   All theorems quantify over ARBITRARY token lists (not only tokenizer
   outputs, not only grammar documents) under decidable side conditions:

     plain SK toks  =  nomath toks        no token whose category opens $ $$ \( \[
                    && noitem toks        no Escape token followed by a token `item`
                    && begins_ok SK toks  every Escape+`begin` is followed, after an
                                          optional MergedSpacer, by `{` or `[`; and
                                          (SK non-empty) by `{` Text `}` with an
                                          unpadded name that is not in SK
     esc_ok toks    no Escape token directly followed by a GroupBegin/GroupEnd
                    token (a command name is never a brace token; false only for
                    inputs like  \ NUL {  - see braces_matched_without_tidy_refuted)
     tidy SK toks   =  esc_ok toks && begins_ok SK toks

   SK is the skip list `Tables.skip_env_names ++ user`.  math ENVIRONMENTS
   (\begin{equation}) are allowed by `plain`; only the switch tokens are not.

   depth_after toks d : the stack-free brace counter (GroupBegin +1, GroupEnd -1
   when positive, a free `}` at depth 0 ignored); brace_matched toks means
   depth_after toks 0 = 0; no_free_close toks 0 = true means no `}` is met at
   depth 0.

   escan toks d : the environment counter (the token after an Escape token is a
   command name; a name `begin` +1, a name `end` -1 when positive, a free \end
   at depth 0 ignored; every other token neutral); env_matched toks means
   escan toks 0 = 0; no_free_end toks = true means no \end is met at depth 0.
     envtidy SK toks = nospecial toks   no Escape followed by newcommand /
                                        renewcommand / providecommand
                    && sig_ok toks      a name of the fixed-signature table with
                                        required arguments (def textbf section label)
                                        only as \name{ with ONE required argument
                                        (so no bare-token argument is ever taken)
                    && begins_ok SK toks

   What is NOT proved: for a lost `]` the strict half is proved only for a
   command that follows a prefix of text-leaf tokens at the top level and has
   no later `]` (a `[` that does not follow a command is plain text, so there is
   no bracket counter; a later free `]` legitimately compensates the loss:
   lost_closer_compensated_refuted).  The lost closing brace of a \begin{name}
   group itself is outside `plain`.  The exact error class (TypeError for a
   brace, EOFError for an \end) is computed in the examples, not proved in
   general: the theorems give "EOFError or TypeError". *)
From Coq Require Import List NArith ZArith Bool.
From TexModel Require Import Base Tables Chars Tokenizer Tree Reader.
From TexProofs Require Import ReaderLen ReaderTotal ReaderCons AttachProofs RepairProofs.
Import ListNotations.

(* ---- Stage 1: tolerant parsing is total outside math / list / verbatim *)
Theorem C07_tolerant_total :
  forall (toks : list token) (user : list str),
    plain (Tables.skip_env_names ++ user) toks = true ->
    exists t, parse_tokens toks false user = Ok t.
Proof. exact tolerant_total. Qed.
Print Assumptions C07_tolerant_total.

Theorem C07_tolerant_total_string :
  forall (s : str) (user : list str),
    plain (Tables.skip_env_names ++ user) (toks_of s) = true ->
    exists t, parse s false user = Ok t.
Proof. exact tolerant_total_string. Qed.
Print Assumptions C07_tolerant_total_string.

(* strict parsing of such a list: a tree, or one of the two "unclosed" errors *)
Theorem C07_plain_strict_cases :
  forall (toks : list token) (user : list str),
    plain (Tables.skip_env_names ++ user) toks = true ->
    (exists t, parse_tokens toks true user = Ok t) \/
    parse_tokens toks true user = Err EOFError \/ parse_tokens toks true user = Err TypeError.
Proof. exact plain_strict_cases. Qed.
Print Assumptions C07_plain_strict_cases.

(* ---- Stage 2: a strict success matched every `{` token *)
Theorem C07_strict_success_braces_matched :
  forall (toks : list token) (user : list str) (t : expr),
    tidy (Tables.skip_env_names ++ user) toks = true ->
    parse_tokens toks true user = Ok t -> depth_after toks 0 = 0%nat.
Proof. exact strict_success_braces_matched. Qed.
Print Assumptions C07_strict_success_braces_matched.

(* read backwards: an unmatched `{` anywhere - strict parsing reports an error *)
Theorem C07_unmatched_brace_strict_fails :
  forall (toks : list token) (user : list str),
    tidy (Tables.skip_env_names ++ user) toks = true -> depth_after toks 0 <> 0%nat ->
    parse_tokens toks true user = Err EOFError \/
    parse_tokens toks true user = Err TypeError \/
    parse_tokens toks true user = Err AssertionError.
Proof. exact unmatched_brace_strict_fails. Qed.
Print Assumptions C07_unmatched_brace_strict_fails.

(* clause 2 for a lost closing brace: a ++ c :: b is brace-matched without
   free `}`, c is a GroupEnd token; the damaged list a ++ b is rejected
   strictly and accepted tolerantly *)
Theorem C07_lost_brace_strict_fails :
  forall (a : list token) (c : token) (b : list token) (user : list str),
    is_tc TGroupEnd c = true ->
    depth_after (a ++ c :: b) 0 = 0%nat -> no_free_close (a ++ c :: b) 0 = true ->
    tidy (Tables.skip_env_names ++ user) (a ++ b) = true ->
    parse_tokens (a ++ b) true user = Err EOFError \/
    parse_tokens (a ++ b) true user = Err TypeError \/
    parse_tokens (a ++ b) true user = Err AssertionError.
Proof. exact lost_brace_strict_fails. Qed.
Print Assumptions C07_lost_brace_strict_fails.

Theorem C07_lost_brace_repaired :
  forall (a : list token) (c : token) (b : list token) (user : list str),
    is_tc TGroupEnd c = true ->
    depth_after (a ++ c :: b) 0 = 0%nat -> no_free_close (a ++ c :: b) 0 = true ->
    plain (Tables.skip_env_names ++ user) (a ++ b) = true -> esc_ok (a ++ b) = true ->
    (parse_tokens (a ++ b) true user = Err EOFError \/
     parse_tokens (a ++ b) true user = Err TypeError) /\
    exists t, parse_tokens (a ++ b) false user = Ok t.
Proof. exact lost_brace_repaired. Qed.
Print Assumptions C07_lost_brace_repaired.

Theorem C07_lost_brace_repaired_string :
  forall (s' : str) (a : list token) (c : token) (b : list token) (user : list str),
    toks_of s' = a ++ b -> is_tc TGroupEnd c = true ->
    depth_after (a ++ c :: b) 0 = 0%nat -> no_free_close (a ++ c :: b) 0 = true ->
    plain (Tables.skip_env_names ++ user) (toks_of s') = true -> esc_ok (toks_of s') = true ->
    (parse s' true user = Err EOFError \/ parse s' true user = Err TypeError) /\
    exists t, parse s' false user = Ok t.
Proof. exact lost_brace_repaired_string. Qed.
Print Assumptions C07_lost_brace_repaired_string.

(* the hypothesis "no free `}`" is necessary: \a{x} y} minus its first `}` is
   \a{x y}, accepted strictly *)
Theorem C07_lost_brace_without_no_free_close_refuted :
  exists a c b user,
    is_tc TGroupEnd c = true /\ depth_after (a ++ c :: b) 0 = 0%nat /\
    tidy (Tables.skip_env_names ++ user) (a ++ b) = true /\
    plain (Tables.skip_env_names ++ user) (a ++ b) = true /\
    (exists t, parse_tokens (a ++ c :: b) true user = Ok t) /\
    (exists t, parse_tokens (a ++ b) true user = Ok t).
Proof. exact lost_brace_without_no_free_close_refuted. Qed.
Print Assumptions C07_lost_brace_without_no_free_close_refuted.

(* `tidy` is necessary in Stage 2: a brace token as command name, a
   verbatim-like body *)
Theorem C07_braces_matched_without_tidy_refuted :
  (exists toks t, esc_ok toks = false /\ begins_ok SK0 toks = true /\
                  parse_tokens toks true [] = Ok t /\ depth_after toks 0 = 1%nat) /\
  (exists toks t, esc_ok toks = true /\ begins_ok SK0 toks = false /\
                  parse_tokens toks true [] = Ok t /\ depth_after toks 0 = 1%nat).
Proof. exact braces_matched_without_tidy_refuted. Qed.
Print Assumptions C07_braces_matched_without_tidy_refuted.

(* Stage 2 without esc_ok, for ALL token lists on which no \begin opens a skip
   environment.  bscan = the brace counter that skips the token after an
   Escape token (the command name) whatever its category - as the reader does;
   on esc_ok lists it equals depth_after *)
Theorem C07_strict_success_braces_matched_general :
  forall (toks : list token) (user : list str) (t : expr),
    begins_ok (Tables.skip_env_names ++ user) toks = true ->
    parse_tokens toks true user = Ok t -> bscan toks 0 = 0%nat.
Proof. exact strict_success_braces_matched_general. Qed.
Print Assumptions C07_strict_success_braces_matched_general.

Theorem C07_unmatched_brace_strict_fails_general :
  forall (toks : list token) (user : list str),
    begins_ok (Tables.skip_env_names ++ user) toks = true -> bscan toks 0 <> 0%nat ->
    parse_tokens toks true user = Err EOFError \/
    parse_tokens toks true user = Err TypeError \/
    parse_tokens toks true user = Err AssertionError.
Proof. exact unmatched_brace_strict_fails_general. Qed.
Print Assumptions C07_unmatched_brace_strict_fails_general.

Theorem C07_bscan_depth_after :
  forall toks, esc_ok toks = true -> forall d, bscan toks d = depth_after toks d.
Proof. exact bscan_depth_after. Qed.
Print Assumptions C07_bscan_depth_after.

(* ---- Stage 3: a lost \end{name}, a lost `]` *)

(* a strict environment body ends AT an Escape+`end` pair, at every fuel and
   for every token list *)
Theorem C07_env_ends_at_end :
  forall f name args pos skip m acc toks e rest,
    read_env_loop f name args pos skip true m acc toks = Ok (e, rest) ->
    exists pre t n post,
      toks = pre ++ t :: n :: post /\ is_tc TEscape t = true /\ ttext n = s_end.
Proof. exact env_ends_at_end. Qed.
Print Assumptions C07_env_ends_at_end.

Theorem C07_unclosed_env_fails :
  forall f name args pos skip m acc toks r,
    has_end toks = false -> read_env_loop f name args pos skip true m acc toks <> Ok r.
Proof. exact unclosed_env_fails. Qed.
Print Assumptions C07_unclosed_env_fails.

(* text, then `\begin` + name group, and no Escape+`end` pair after it *)
Theorem C07_lost_end_repaired :
  forall (pre : list token) (c n : token) (body : list token) (user : list str),
    Forall leaf_tok pre ->
    is_tc TEscape c = true -> str_eqb (ttext n) s_begin = true -> has_end body = false ->
    plain (Tables.skip_env_names ++ user) (pre ++ c :: n :: body) = true ->
    (parse_tokens (pre ++ c :: n :: body) true user = Err EOFError \/
     parse_tokens (pre ++ c :: n :: body) true user = Err TypeError) /\
    exists t, parse_tokens (pre ++ c :: n :: body) false user = Ok t.
Proof. exact lost_end_repaired. Qed.
Print Assumptions C07_lost_end_repaired.

(* a `[` attached as optional argument and no `]` after it (from
   C09_unclosed_group_fails) *)
Theorem C07_unclosed_bracket_arg_fails :
  forall f args nopt m toks c src2 r,
    (nopt <> 0)%Z -> after_spacer toks = c :: src2 -> is_tc TBracketBegin c = true ->
    (forall t, In t src2 -> is_tc TBracketEnd t = false) ->
    read_arg_optional f args nopt true m toks <> Ok r.
Proof. exact unclosed_bracket_arg_fails. Qed.
Print Assumptions C07_unclosed_bracket_arg_fails.

(* text, then a command taking optional arguments, `[`, and no `]` after it *)
Theorem C07_lost_bracket_repaired :
  forall (pre : list token) (c n : token) (rest : list token) (o : token)
         (src2 : list token) (user : list str),
    Forall leaf_tok pre ->
    is_tc TEscape c = true -> snd (signature_of (ttext n)) <> 0%Z ->
    after_spacer rest = o :: src2 -> is_tc TBracketBegin o = true ->
    (forall t, In t src2 -> is_tc TBracketEnd t = false) ->
    plain (Tables.skip_env_names ++ user) (pre ++ c :: n :: rest) = true ->
    (parse_tokens (pre ++ c :: n :: rest) true user = Err EOFError \/
     parse_tokens (pre ++ c :: n :: rest) true user = Err TypeError) /\
    exists t, parse_tokens (pre ++ c :: n :: rest) false user = Ok t.
Proof. exact lost_bracket_repaired. Qed.
Print Assumptions C07_lost_bracket_repaired.

(* the recorded subtlety: a lost `]` / \end{name} that a LATER free one
   compensates - strict parsing succeeds with another reading
   (\a[x] y] -> \a[x y],  \begin{e} x \end{e} y \end{e} -> \begin{e} x  y \end{e}) *)
Theorem C07_lost_closer_compensated_refuted :
  (exists toks i t t', is_tc TBracketEnd (nth i toks dflt) = true /\
     parse_tokens toks true [] = Ok t /\ parse_tokens (del i toks) true [] = Ok t') /\
  (exists toks t t', has_end (skipn 7 toks) = true /\
     parse_tokens toks true [] = Ok t /\
     parse_tokens (firstn 6 toks ++ skipn 11 toks) true [] = Ok t').
Proof. exact lost_closer_compensated_refuted. Qed.
Print Assumptions C07_lost_closer_compensated_refuted.

(* ---- Stage 3+: a strict success matched every \begin (counting) *)
Theorem C07_strict_success_envs_matched :
  forall (toks : list token) (user : list str) (t : expr),
    envtidy (Tables.skip_env_names ++ user) toks = true ->
    parse_tokens toks true user = Ok t -> escan toks 0 = 0%nat.
Proof. exact strict_success_envs_matched. Qed.
Print Assumptions C07_strict_success_envs_matched.

Theorem C07_unmatched_env_strict_fails :
  forall (toks : list token) (user : list str),
    envtidy (Tables.skip_env_names ++ user) toks = true -> escan toks 0 <> 0%nat ->
    parse_tokens toks true user = Err EOFError \/
    parse_tokens toks true user = Err TypeError \/
    parse_tokens toks true user = Err AssertionError.
Proof. exact unmatched_env_strict_fails. Qed.
Print Assumptions C07_unmatched_env_strict_fails.

(* clause 2 for a lost \end{name}: a ++ [e; n] ++ g ++ b is environment-matched
   without free \end, e is an Escape token in command position (pend false a =
   false), n has text `end`, g (the name group) holds no Escape token; the
   damaged list a ++ b is rejected strictly and accepted tolerantly - wherever
   the environment is nested and whatever follows *)
Theorem C07_lost_end_repaired_count :
  forall (a : list token) (e n : token) (g b : list token) (user : list str),
    pend false a = false -> is_tc TEscape e = true -> is_e n = true -> no_escape g = true ->
    escan (a ++ e :: n :: g ++ b) 0 = 0%nat -> no_free_end (a ++ e :: n :: g ++ b) = true ->
    plain (Tables.skip_env_names ++ user) (a ++ b) = true ->
    nospecial (a ++ b) = true -> sig_ok (a ++ b) = true ->
    (parse_tokens (a ++ b) true user = Err EOFError \/
     parse_tokens (a ++ b) true user = Err TypeError) /\
    exists t, parse_tokens (a ++ b) false user = Ok t.
Proof. exact lost_end_repaired_count. Qed.
Print Assumptions C07_lost_end_repaired_count.

(* `envtidy` is necessary: \textbf\begin{e} x  and  \newcommand{\begin{x}}  are
   accepted strictly with an unmatched \begin *)
Theorem C07_envs_matched_without_envtidy_refuted :
  (exists toks t, sig_ok toks = false /\ nospecial toks = true /\ begins_ok SK0 toks = true /\
                  parse_tokens toks true [] = Ok t /\ escan toks 0 = 1%nat) /\
  (exists toks t, sig_ok toks = true /\ nospecial toks = false /\ begins_ok SK0 toks = true /\
                  parse_tokens toks true [] = Ok t /\ escan toks 0 = 1%nat).
Proof. exact envs_matched_without_envtidy_refuted. Qed.
Print Assumptions C07_envs_matched_without_envtidy_refuted.

(* ---- non-vacuity (all replayed on the real code, impl.canon_parse) *)

(* \a{x \b{y} z} w  minus its first `}`: hypotheses computed, TypeError
   strictly, \a{x \b{y z} w} tolerantly *)
Example C07_ex_lost_brace :
  let toks := toks_of doc_nest in
  let a := firstn 8 toks in let c := nth 8 toks dflt in let b := skipn 9 toks in
  toks = a ++ c :: b /\ texts (a ++ b) = doc_nest_a /\
  is_tc TGroupEnd c = true /\ depth_after (a ++ c :: b) 0 = 0%nat /\
  no_free_close (a ++ c :: b) 0 = true /\ plain SK0 (a ++ b) = true /\ esc_ok (a ++ b) = true /\
  parse_tokens (a ++ b) true [] = Err TypeError /\
  shown (parse_tokens (a ++ b) false []) = inl doc_nest_a_fixed.
Proof. exact lost_brace_ex_first. Qed.

(* ... and minus its second `}` *)
Example C07_ex_lost_brace_2 :
  let toks := toks_of doc_nest in
  let a := firstn 10 toks in let c := nth 10 toks dflt in let b := skipn 11 toks in
  toks = a ++ c :: b /\ texts (a ++ b) = doc_nest_b /\
  is_tc TGroupEnd c = true /\ depth_after (a ++ c :: b) 0 = 0%nat /\
  no_free_close (a ++ c :: b) 0 = true /\ plain SK0 (a ++ b) = true /\ esc_ok (a ++ b) = true /\
  parse_tokens (a ++ b) true [] = Err TypeError /\
  shown (parse_tokens (a ++ b) false []) = inl doc_nest_b_fixed.
Proof. exact lost_brace_ex_second. Qed.

(* the damaged STRINGS (tokenizer outputs) *)
Example C07_ex_lost_brace_strings :
  parse_tokens (toks_of doc_nest_a) true [] = Err TypeError /\
  shown (parse_tokens (toks_of doc_nest_a) false []) = inl doc_nest_a_fixed /\
  parse_tokens (toks_of doc_nest_b) true [] = Err TypeError /\
  shown (parse_tokens (toks_of doc_nest_b) false []) = inl doc_nest_b_fixed.
Proof. exact lost_brace_ex_strings. Qed.

(* p \begin{e}[o]{r} t \end{e}  minus \end{e}: EOFError strictly, the
   original document tolerantly *)
Example C07_ex_lost_end :
  let toks := toks_of doc_env_lost in
  let pre := firstn 1 toks in let c := nth 1 toks dflt in let n := nth 2 toks dflt in
  let body := skipn 3 toks in
  toks = pre ++ c :: n :: body /\ toks = firstn 13 (toks_of doc_env) /\
  Forall leaf_tok pre /\ is_tc TEscape c = true /\ str_eqb (ttext n) s_begin = true /\
  has_end body = false /\ plain SK0 (pre ++ c :: n :: body) = true /\
  parse_tokens toks true [] = Err EOFError /\
  shown (parse_tokens toks false []) = inl doc_env.
Proof. exact lost_end_ex. Qed.

(* x \a[o]{r} y  minus `]`: TypeError strictly, x \a[o{r} y] tolerantly *)
Example C07_ex_lost_bracket :
  let toks := toks_of doc_opt_lost in
  let pre := firstn 1 toks in let c := nth 1 toks dflt in let n := nth 2 toks dflt in
  let rest := skipn 3 toks in let o := nth 3 toks dflt in let src2 := skipn 4 toks in
  toks = pre ++ c :: n :: rest /\ texts toks = texts (del 5 (toks_of doc_opt)) /\
  Forall leaf_tok pre /\ is_tc TEscape c = true /\ snd (signature_of (ttext n)) <> 0%Z /\
  after_spacer rest = o :: src2 /\ is_tc TBracketBegin o = true /\
  (forall t, In t src2 -> is_tc TBracketEnd t = false) /\
  plain SK0 (pre ++ c :: n :: rest) = true /\
  parse_tokens toks true [] = Err TypeError /\
  shown (parse_tokens toks false []) = inl doc_opt_fixed.
Proof. exact lost_bracket_ex. Qed.

(* every conjunct of `plain` is needed for Stage 1 *)
Example C07_ex_tolerant_needs_side_conditions :
  (nomath (toks_of doc_math) = false /\ parse_tokens (toks_of doc_math) false [] = Err EOFError) /\
  (begins_ok SK0 (toks_of doc_begin_bare) = false /\
   parse_tokens (toks_of doc_begin_bare) false [] = Err AssertionError) /\
  (begins_ok SK0 (toks_of doc_verb_open) = false /\
   parse_tokens (toks_of doc_verb_open) false [] = Err EOFError) /\
  (noitem (toks_of doc_item_math) = false /\
   parse_tokens (toks_of doc_item_math) false [] = Err AssertionError) /\
  (noitem (toks_of doc_item_strict) = false /\
   parse_tokens (toks_of doc_item_strict) false [] = Err TypeError).
Proof. exact tolerant_total_needs_side_conditions. Qed.

(* \begin{d} u \begin{e} x \end{e} v \end{d}  minus the inner \end{e}: the
   following \end{d} does not compensate; EOFError strictly,
   \begin{d} u \begin{e} x  v \end{e}\end{d} tolerantly *)
Example C07_ex_lost_end_nested :
  let toks := toks_of doc_nested_env in
  let a := firstn 12 toks in let e := nth 12 toks dflt in let n := nth 13 toks dflt in
  let g := firstn 3 (skipn 14 toks) in let b := skipn 17 toks in
  toks = a ++ e :: n :: g ++ b /\ texts (a ++ b) = doc_nested_env_lost /\
  pend false a = false /\ is_tc TEscape e = true /\ is_e n = true /\ no_escape g = true /\
  env_matched (a ++ e :: n :: g ++ b) /\ no_free_end (a ++ e :: n :: g ++ b) = true /\
  plain SK0 (a ++ b) = true /\ nospecial (a ++ b) = true /\ sig_ok (a ++ b) = true /\
  has_end b = true /\
  parse_tokens (a ++ b) true [] = Err EOFError /\
  shown (parse_tokens (a ++ b) false []) = inl doc_nested_env_fixed.
Proof. exact lost_end_count_ex. Qed.
