(* C18gen  The TexArgs model is the translated source.

   Model/ArgGen.v is regenerated on every run from the Python abstract syntax
   of twelve methods of class TexArgs in TexSoup/data.py (harness/gen_args.py,
   fail-closed): __init__, __coerce, append, extend, insert, remove, pop,
   reverse, clear, __getitem__, __contains__ (C18gen_contains: it returns
   Args.m_contains), __str__ (C18gen_str: it returns Args.m_str), and the
   classmethod TexGroup.parse that __coerce calls (C18gen_parse).  NOT
   translated: __repr__ (repr of a group needs Python's string-literal escaping,
   outside the language of Model/ArgDSL.v; Args.v has no model of it either).
   Read, not translated, in __contains__ / __str__ (see the header of ArgDSL.v):
   group.string is the string the group was built from, str(group) is
   Args.render, == between groups / strs is the textual Args.item_eqb -- the
   same readings Args.v and the list primitives remove / index already use.
   `run_meth gen_a_cls M args st` interprets the translated body of M on the
   object st = (the list itself, self.all) -- Args.state, unchanged -- with the
   semantics of Model/ArgDSL.v; `ODone st' r` means it finished inside the
   modelled fragment within the call depth, leaving st' and returning/raising
   r;  done (st', o) := ODone st' (of_out o).  value_of_arg maps a group /
   Python str argument to the corresponding value.
   Statements only; proofs are in Proofs/ArgGenProofs.v.  Every statement is
   for ALL states (no invariant) and ALL arguments. *)
From Coq Require Import List ZArith Bool.
From TexModel Require Import Args ArgDSL ArgGen.
From TexProofs Require Import ArgsProofs ArgGenProofs.
Import ListNotations.
Local Open Scope Z_scope.

Theorem C18gen_init : forall l,
  run_meth gen_a_cls M_init [VArgs l] empty_state = done (m_new l).
Proof. exact run_init. Qed.
Print Assumptions C18gen_init.

Theorem C18gen_init_default : run_meth gen_a_cls M_init [] empty_state = done (m_new []).
Proof. exact run_init_default. Qed.
Print Assumptions C18gen_init_default.

(* TexGroup.parse(s) on a str, as translated: Args.parse_group
   (parse_rv s := the group as a value, or TypeError) *)
Theorem C18gen_parse : forall st s,
  run_meth gen_a_cls M_parse [VStr s] st = ODone st (parse_rv s).
Proof. exact run_parse. Qed.
Print Assumptions C18gen_parse.

(* coerce_rv a := the coerced item of Args.coerce as a value, or TypeError *)
Theorem C18gen_coerce : forall st a,
  run_meth gen_a_cls M_coerce [value_of_arg a] st = ODone st (coerce_rv a).
Proof. exact run_coerce. Qed.
Print Assumptions C18gen_coerce.

Theorem C18gen_insert : forall st i a,
  run_meth gen_a_cls M_insert [VInt i; value_of_arg a] st = done (m_insert st i a).
Proof. exact run_insert. Qed.
Print Assumptions C18gen_insert.

Theorem C18gen_append : forall st a,
  run_meth gen_a_cls M_append [value_of_arg a] st = done (m_append st a).
Proof. exact run_append. Qed.
Print Assumptions C18gen_append.

Theorem C18gen_extend : forall st l,
  run_meth gen_a_cls M_extend [VArgs l] st = done (m_extend st l).
Proof. exact run_extend. Qed.
Print Assumptions C18gen_extend.

Theorem C18gen_remove : forall st a,
  run_meth gen_a_cls M_remove [value_of_arg a] st = done (m_remove st a).
Proof. exact run_remove. Qed.
Print Assumptions C18gen_remove.

Theorem C18gen_pop : forall st i,
  run_meth gen_a_cls M_pop [VInt i] st = done (m_pop st (Some i)).
Proof. exact run_pop. Qed.
Print Assumptions C18gen_pop.

Theorem C18gen_pop_default : forall st,
  run_meth gen_a_cls M_pop [] st = done (m_pop st None).
Proof. exact run_pop_default. Qed.
Print Assumptions C18gen_pop_default.

Theorem C18gen_reverse : forall st,
  run_meth gen_a_cls M_reverse [] st = done (m_step st OpReverse).
Proof. exact run_reverse. Qed.
Print Assumptions C18gen_reverse.

Theorem C18gen_clear : forall st,
  run_meth gen_a_cls M_clear [] st = done (m_step st OpClear).
Proof. exact run_clear. Qed.
Print Assumptions C18gen_clear.

Theorem C18gen_getitem_int : forall st i,
  run_meth gen_a_cls M_getitem [VInt i] st = done (m_step st (OpGet i)).
Proof. exact run_getitem_int. Qed.
Print Assumptions C18gen_getitem_int.

Theorem C18gen_getitem_slice : forall st lo hi,
  run_meth gen_a_cls M_getitem [VSlice lo hi] st = done (m_step st (OpSlice lo hi)).
Proof. exact run_getitem_slice. Qed.
Print Assumptions C18gen_getitem_slice.

(* def __contains__(self, item), item a group or a str: the state is unchanged and the
   result is m_contains st a =
     match a with
     | AS s => existsb (fun g => pstr_eqb s (snd g)) (fst st)         any([item == arg.string ...])
     | AG g => existsb (fun x => item_eqb (IG x) (IG g)) (fst st)     super().__contains__(item)
     end *)
Theorem C18gen_contains : forall st a,
  run_meth gen_a_cls M_contains [value_of_arg a] st = ODone st (RVal (VBool (m_contains st a))).
Proof. exact run_contains. Qed.
Print Assumptions C18gen_contains.

(* def __str__(self): m_str st = py_join (map render (fst st)) *)
Theorem C18gen_str : forall st,
  run_meth gen_a_cls M_str [] st = ODone st (RVal (VStr (m_str st))).
Proof. exact run_str. Qed.
Print Assumptions C18gen_str.

(* every operation of Args.m_step except membership
   (translated o := match o with OpContains _ => false | _ => true end) *)
Theorem C18gen_step : forall st o, translated o = true ->
  gen_step gen_a_cls st o = Some (done (m_step st o)).
Proof. exact gen_step_ok. Qed.
Print Assumptions C18gen_step.

(* TexArgs(init) -- when the constructor does not itself raise -- followed by
   ANY sequence of translated operations *)
Theorem C18gen_session : forall init ops,
  snd (m_new init) = ONone -> forallb translated ops = true ->
  gen_session gen_a_cls init ops = Some (m_run (fst (m_new init)) ops).
Proof. exact gen_session_ok. Qed.
Print Assumptions C18gen_session.

(* hence C18_refines_args holds of the translated source *)
Theorem C18gen_refines : forall init ops,
  snd (m_new init) = ONone -> forallb translated ops = true ->
  option_map (map obs_model) (gen_session gen_a_cls init ops)
  = Some (map obs_ref (ref_run (fst (ref_extend [] init)) ops)).
Proof. exact gen_session_refines. Qed.
Print Assumptions C18gen_refines.

(* the same three with membership: EVERY operation of Args.m_step / any sequence *)
Theorem C18gen_step_all : forall st o,
  gen_step gen_a_cls st o = Some (done (m_step st o)).
Proof. exact gen_step_all_ok. Qed.
Print Assumptions C18gen_step_all.

Theorem C18gen_session_all : forall init ops,
  snd (m_new init) = ONone ->
  gen_session gen_a_cls init ops = Some (m_run (fst (m_new init)) ops).
Proof. exact gen_session_all_ok. Qed.
Print Assumptions C18gen_session_all.

Theorem C18gen_refines_all : forall init ops,
  snd (m_new init) = ONone ->
  option_map (map obs_model) (gen_session gen_a_cls init ops)
  = Some (map obs_ref (ref_run (fst (ref_extend [] init)) ops)).
Proof. exact gen_session_refines_all. Qed.
Print Assumptions C18gen_refines_all.
