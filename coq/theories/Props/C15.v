(* C15  Any history of edits keeps the tree equal to a reference model.
   Reference model (TexModel.Edit): `ref`, a rose tree of strings -- a node is some strings,
   argument subtrees, body subtrees, some strings; `ref_str` concatenates; `ref_step`
   splices lists / replaces strings by position.  It does not mention expr or estr.
   `abs : expr -> ref` forgets classes, tokens and source positions. *)
From Coq Require Import List NArith ZArith Bool.
From TexModel Require Import Base Tables Chars Tokenizer Tree Reader Edit.
From TexProofs Require Import EditProofs.
Import ListNotations.

Theorem abs_faithful : forall e, ref_str (abs e) = estr e.
Proof. exact EditProofs.ref_str_abs. Qed.
Print Assumptions abs_faithful.

(* one edit *)
Theorem C15_step_refines : forall t o t',
  op_ok t o = true -> apply_op t o = Done t' -> ref_step (abs t) (op_abs o) = abs t'.
Proof. exact EditProofs.apply_op_refines. Qed.
Print Assumptions C15_step_refines.

(* any history of well-targeted edits (delete, remove, replace_with, insert, append,
   rename, string of a command / of an environment, argument-list selection); new material
   = arbitrary fresh expressions and strings.  Well-targeted (op_ok): the target exists;
   insert / append aim at something that accepts contents (an environment, a group, an
   \item, or a command that already holds contents).  _partial: for replace_with it also
   demands that the holder accepts contents once the child is out -- see
   C15_replace_only_child_of_renamed_item_refuted for the one case where it does not. *)
Theorem C15_refines_partial : forall ops t t',
  ops_ok t ops -> run_ops t ops = Done t' ->
  estr t' = ref_str (fold_left ref_step (map op_abs ops) (abs t)).
Proof. exact EditProofs.C15_refines. Qed.
Print Assumptions C15_refines_partial.

(* well-targeted histories do not raise *)
Theorem C15_well_targeted_runs : forall ops t, ops_ok t ops -> exists t', run_ops t ops = Done t'.
Proof. exact EditProofs.ops_ok_run. Qed.
Print Assumptions C15_well_targeted_runs.

Theorem C15_history_example :
  ops_okb (parsed doc_twins) example_history = true /\
  (exists t', run_ops (parsed doc_twins) example_history = Done t' /\
              estr t' = [83; 92; 102; 111; 111; 32; 109; 105; 100; 32; 32; 101; 110; 100; 83]%N).
Proof. exact EditProofs.history_example. Qed.
Print Assumptions C15_history_example.
Theorem ops_okb_sound : forall ops t, ops_okb t ops = true -> ops_ok t ops.
Proof. exact EditProofs.ops_okb_sound. Qed.
Print Assumptions ops_okb_sound.

(* nodes that were not targeted are never altered, duplicated or lost *)
Theorem untargeted_unchanged : forall root p h i k new root',
  get root p = Some h -> is_node h = true -> (i <= length (body_of h))%nat ->
  splice_at root p i k new = Some root' ->
  (forall q, diverges p q = true -> get root' q = get root q) /\
  (forall j rest, (j < i)%nat ->
     get root' (p ++ SBody j :: rest) = get root (p ++ SBody j :: rest)) /\
  (forall j rest, (i + k <= j)%nat ->
     get root' (p ++ SBody (j - k + length new) :: rest) = get root (p ++ SBody j :: rest)) /\
  (forall j rest, get root' (p ++ SArg j :: rest) = get root (p ++ SArg j :: rest)).
Proof. exact EditProofs.untargeted_unchanged. Qed.
Print Assumptions untargeted_unchanged.

(* repaired in /repo a1e735f (TexCmd._supports_contents: name == 'item' or non-empty
   contents): a renamed \item keeps accepting edits of the contents it holds.  Formerly
   C15_rename_item_refuted. *)
Theorem C15_rename_item_then_delete :
  let t := parsed doc_item in
  let o1 := ORename [SBody 0; SBody 0] s_foo in
  let o2 := ODelete [SBody 0; SBody 0] 1 in
  ops_okb t [o1; o2] = true /\
  exists t1 t2 x,
    apply_op t o1 = Done t1 /\
    get t1 [SBody 0; SBody 0; SBody 1] = Some x /\ is_node x = true /\
    apply_op t1 o2 = Done t2 /\
    estr t2 = s_item_renamed_deleted /\
    ref_str (ref_step (abs t1) (op_abs o2)) = estr t2.
Proof. exact EditProofs.C15_rename_item_then_delete. Qed.
Print Assumptions C15_rename_item_then_delete.

(* still false of "any sequence of edits": replacing the ONLY content of a renamed \item.
   replace = holder.insert(holder.remove(x), ...): the removal empties the command, which
   then no longer supports contents, insert raises TypeError -- after the child is gone
   (Partial: exception with a changed tree).  The reference model replaces. *)
Theorem C15_replace_only_child_of_renamed_item_refuted :
  exists (t t1 t2 : expr) (x : expr),
    apply_op t (ORename [SBody 0; SBody 0] s_foo) = Done t1 /\
    op_ok t (ORename [SBody 0; SBody 0] s_foo) = true /\
    get t1 [SBody 0; SBody 0; SBody 0] = Some x /\ is_node x = true /\
    apply_op t1 (OReplaceWith [SBody 0; SBody 0] 0 [EStr s_S]) = Partial ETypeError t2 /\
    estr t2 = s_item1_lost /\
    ref_str (ref_step (abs t1) (op_abs (OReplaceWith [SBody 0; SBody 0] 0 [EStr s_S])))
      = s_item1_wanted.
Proof. exact EditProofs.C15_replace_only_child_of_renamed_item_refuted. Qed.
Print Assumptions C15_replace_only_child_of_renamed_item_refuted.

Theorem untargeted_example :
  let root := parsed doc_twins in
  exists h root', get root [SBody 0; SArg 0] = Some h /\ is_node h = true /\
    (0 <= length (body_of h))%nat /\
    splice_at root [SBody 0; SArg 0] 0 1 [] = Some root' /\
    diverges [SBody 0; SArg 0] [SBody 2] = true /\
    get root' [SBody 2] = get root [SBody 2] /\ estr root' <> estr root.
Proof. exact EditProofs.untargeted_example. Qed.
Print Assumptions untargeted_example.
