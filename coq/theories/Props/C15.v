(* C15  Any history of edits keeps the tree equal to a reference model.
   Reference model (TexModel.Edit): `ref`, a rose tree of strings -- a node is some strings,
   argument subtrees, body subtrees, some strings; `ref_str` concatenates; `ref_step`
   splices lists / replaces strings by position.  It does not mention expr or estr.
   `abs : expr -> ref` forgets classes, tokens and source positions. *)
From Coq Require Import List NArith ZArith Bool.
From TexModel Require Import Base Tables Chars Tokenizer Tree Reader Edit.
From TexProofs Require Import EditProofs.
Import ListNotations.

Theorem abs_faithful : forall e, ref_str (abs e) = estr e.
Proof. exact EditProofs.ref_str_abs. Qed.
Print Assumptions abs_faithful.

(* one edit *)
Theorem C15_step_refines : forall t o t',
  op_ok t o = true -> apply_op t o = Done t' -> ref_step (abs t) (op_abs o) = abs t'.
Proof. exact EditProofs.apply_op_refines. Qed.
Print Assumptions C15_step_refines.

(* any history of well-targeted edits (delete, remove, replace_with, insert, append,
   rename, string of a command / of an environment, argument-list selection); new material
   = arbitrary fresh expressions and strings.  _partial: well-targeted includes that the
   holder accepts contents (see C15_rename_item_refuted). *)
Theorem C15_refines_partial : forall ops t t',
  ops_ok t ops -> run_ops t ops = Done t' ->
  estr t' = ref_str (fold_left ref_step (map op_abs ops) (abs t)).
Proof. exact EditProofs.C15_refines. Qed.
Print Assumptions C15_refines_partial.

(* well-targeted histories do not raise *)
Theorem C15_well_targeted_runs : forall ops t, ops_ok t ops -> exists t', run_ops t ops = Done t'.
Proof. exact EditProofs.ops_ok_run. Qed.
Print Assumptions C15_well_targeted_runs.

Theorem C15_history_example :
  ops_okb (parsed doc_twins) example_history = true /\
  (exists t', run_ops (parsed doc_twins) example_history = Done t' /\
              estr t' = [83; 92; 102; 111; 111; 32; 109; 105; 100; 32; 32; 101; 110; 100; 83]%N).
Proof. exact EditProofs.history_example. Qed.
Print Assumptions C15_history_example.
Theorem ops_okb_sound : forall ops t, ops_okb t ops = true -> ops_ok t ops.
Proof. exact EditProofs.ops_okb_sound. Qed.
Print Assumptions ops_okb_sound.

(* nodes that were not targeted are never altered, duplicated or lost *)
Theorem untargeted_unchanged : forall root p h i k new root',
  get root p = Some h -> is_node h = true -> (i <= length (body_of h))%nat ->
  splice_at root p i k new = Some root' ->
  (forall q, diverges p q = true -> get root' q = get root q) /\
  (forall j rest, (j < i)%nat ->
     get root' (p ++ SBody j :: rest) = get root (p ++ SBody j :: rest)) /\
  (forall j rest, (i + k <= j)%nat ->
     get root' (p ++ SBody (j - k + length new) :: rest) = get root (p ++ SBody j :: rest)) /\
  (forall j rest, get root' (p ++ SArg j :: rest) = get root (p ++ SArg j :: rest)).
Proof. exact EditProofs.untargeted_unchanged. Qed.
Print Assumptions untargeted_unchanged.

(* "any sequence of edits (... rename ...)": after renaming an \item its contents are still
   part of the tree and of str(), but the command now "has no children": deleting one of
   them raises TypeError, where the reference model deletes it *)
Theorem C15_rename_item_refuted :
  exists (t t1 : expr) (hp : path) (i : nat) (x : expr),
    apply_op t (ORename [SBody 0; SBody 0] s_foo) = Done t1 /\
    op_ok t (ORename [SBody 0; SBody 0] s_foo) = true /\
    op_ok t (ODelete hp i) = true /\
    get t1 (hp ++ [SBody i]) = Some x /\ is_node x = true /\
    apply_op t1 (ODelete hp i) = Raise ETypeError /\
    ref_str (ref_step (abs t1) (op_abs (ODelete hp i))) <> estr t1.
Proof. exact EditProofs.C15_rename_item_refuted. Qed.
Print Assumptions C15_rename_item_refuted.

Theorem untargeted_example :
  let root := parsed doc_twins in
  exists h root', get root [SBody 0; SArg 0] = Some h /\ is_node h = true /\
    (0 <= length (body_of h))%nat /\
    splice_at root [SBody 0; SArg 0] 0 1 [] = Some root' /\
    diverges [SBody 0; SArg 0] [SBody 2] = true /\
    get root' [SBody 2] = get root [SBody 2] /\ estr root' <> estr root.
Proof. exact EditProofs.untargeted_example. Qed.
Print Assumptions untargeted_example.
