(* C01  Parse -> serialise round trip is lossless on well-formed documents.
   Statements only; proofs in Proofs/ReaderCons.v, Proofs/ConsTop.v.

   Proved: whenever a document parses in strict mode, satisfies the hygiene
   conditions `Hyp` (see Props/C08.v), has no bare-token arguments, contains no
   NUL/DEL and no whitespace between a command/argument and the following
   argument group ("each argument group immediately follows"), serialising the
   tree yields the source exactly.
   NOT proved here (decided by correspondence + oracle only): that every
   document of the grammar parses (needs the completeness direction), and the
   per-node slice clause. *)
From Coq Require Import List NArith ZArith Bool.
From TexModel Require Import Base Tables Chars Tokenizer Tree Reader.
From TexProofs Require Import TokProofs ReaderLen ReaderCons ConsTop ConsBridge.
Import ListNotations.

Theorem C01_roundtrip_partial :
  forall (s : str) (user : list str) (t : expr) (toks : list token),
    tokens_of_string s = (toks, TEnd) -> parse s true user = Ok t ->
    Hyp (all_skip user) toks -> nobare t = true -> no_arg_spacer toks = true ->
    Forall (fun c => ign c = false) (categorize s) ->
    estr t = s.
Proof. exact parse_roundtrip_hyp. Qed.
Print Assumptions C01_roundtrip_partial.

(* the same with every hypothesis decidable on the input (`hypb` is the boolean
   conjunction of `clean_names` and the five-token check; the structural-token
   condition of `Hyp` is PROVED for every tokenizer output) *)
Theorem C01_roundtrip :
  forall (s : str) (user : list str) (t : expr),
    parse s true user = Ok t ->
    hypb (all_skip user) (fst (tokens_of_string s)) = true ->
    nobare t = true ->
    no_arg_spacer (fst (tokens_of_string s)) = true ->
    Forall (fun c => ign c = false) (categorize s) ->
    estr t = s.
Proof. exact parse_roundtrip. Qed.
Print Assumptions C01_roundtrip.

(* non-vacuity on a 310-character document with commands, [..]{..} arguments,
   environments with arguments, lists, all four math kinds, comments, escaped
   symbols, verbatim and \newcommand: hypotheses by vm_compute, conclusion by
   applying the theorem (Proofs/ConsBridge.v) *)
Example C01_roundtrip_doc1 : estr tree_doc1 = doc1.
Proof. exact doc1_roundtrip. Qed.

(* token level, every fuel: an expression re-serialises to exactly the tokens
   it consumed when no argument spacer was dropped *)
Theorem C01_tokens_roundtrip :
  forall toks user t,
    Hyp (all_skip user) toks -> parse_tokens toks true user = Ok t ->
    nobare t = true -> no_arg_spacer toks = true -> estr t = texts toks.
Proof. exact parse_tokens_roundtrip. Qed.
Print Assumptions C01_tokens_roundtrip.

(* non-vacuity: a document with a command, arguments, an environment, math, a
   comment and an escaped symbol round-trips:
   \a[x]{y} $z$ \begin{e}w\end{e}%c\n\% *)
Example C01_example :
  let s := [92;97;91;120;93;123;121;125;32;36;122;36;32;92;98;101;103;105;110;123;101;125;119;
            92;101;110;100;123;101;125;37;99;10;92;37]%N in
  exists t, parse s true [] = Ok t /\ nobare t = true /\
            clean_names (fst (tokens_of_string s)) = true /\
            no_arg_spacer (fst (tokens_of_string s)) = true /\ estr t = s.
Proof. eexists. repeat split; vm_compute; reflexivity. Qed.
