(* C15, second sentence: "After every step, search results, descendants, parent
   links and the text view computed on the edited tree are mutually consistent
   - inserted material included".

   The consistency theorems of C03/C04 (Proofs/ViewsProofs.v) are proved for
   EVERY value of the tree type - including trees that contain plain strings
   (`EStr`) and copied nodes, which is what edits insert - so they hold in
   particular for the tree reached by any history of edits (Model/Edit.v),
   well targeted or not.  This file states that instantiation. *)
From Coq Require Import List NArith ZArith Bool Permutation.
From TexModel Require Import Base Tables Chars Tokenizer Tree Reader Views Edit.
From TexProofs Require Import ViewsProofs EditProofs.
Import ListNotations.

Theorem C15_views_consistent_after_any_history :
  forall (t : expr) (ops : list op) (t' : expr),
    run_ops t ops = Done t' ->
    forall n : item, snd n = t' \/ In n (descendants ([], t')) ->
      (* descendants = transitive closure of contents, each position once *)
      (forall x, In x (descendants n) <-> reach n x) /\
      NoDup (map fst (descendants n)) /\
      (* descendants are a permutation of the structural walk *)
      Permutation (map snd (descendants n)) (walk (snd n)) /\
      (* text = string leaves in document order *)
      map snd (text n) = leaves (snd n) /\
      (* search = filter of descendants; find = head; count = length *)
      (forall q, find q n = hd_error (find_all q n)) /\
      (forall q, count q n = length (find_all q n)).
Proof.
  intros t ops t' _ n _.
  split; [intro x; apply ViewsProofs.descendants_is_closure|].
  split; [apply ViewsProofs.descendants_nodup|].
  split; [apply ViewsProofs.descendants_complete|].
  split; [apply (proj1 (ViewsProofs.text_is_leaves_in_order n))|].
  split; intro q; [apply ViewsProofs.find_is_head | apply ViewsProofs.count_is_length].
Qed.
Print Assumptions C15_views_consistent_after_any_history.
