(* C14  Renaming, re-stringing and re-argumenting change exactly that part.
   `ctx_pre root np` / `ctx_post root np` are the text of str(root) before / after the
   node at path np; `span_pre` / `span_post` the text before / after a raw content list. *)
From Coq Require Import List NArith ZArith Bool.
From TexModel Require Import Base Tables Chars Tokenizer Tree Reader Edit.
From TexProofs Require Import EditProofs.
Import ListNotations.

Theorem rename_cmd_local : forall root np n a b p s,
  get root np = Some (ECmd n a b p) ->
  exists root', set_name root np s = Done root' /\
    estr root  = ctx_pre root np ++ (backslash :: n ++ estr_list a ++ estr_list b) ++ ctx_post root np /\
    estr root' = ctx_pre root np ++ (backslash :: s ++ estr_list a ++ estr_list b) ++ ctx_post root np.
Proof. exact EditProofs.rename_cmd_local. Qed.
Print Assumptions rename_cmd_local.

(* both \begin{..} and \end{..} change, nothing else *)
Theorem rename_env_local : forall root np n a b p s,
  get root np = Some (ENamed n a b p) ->
  exists root', set_name root np s = Done root' /\
    estr root  = ctx_pre root np ++ (env_begin n ++ estr_list a ++ estr_list b ++ env_end n)
                   ++ ctx_post root np /\
    estr root' = ctx_pre root np ++ (env_begin s ++ estr_list a ++ estr_list b ++ env_end s)
                   ++ ctx_post root np.
Proof. exact EditProofs.rename_env_local. Qed.
Print Assumptions rename_env_local.

(* node.string = s on a command with exactly one argument: the contents of that argument
   become s *)
Theorem set_string_local : forall root np n a0 b p s,
  get root np = Some (ECmd n [a0] b p) -> is_node a0 = true ->
  exists root', set_string root np s = Done root' /\
    estr root  = span_pre root (np ++ [SArg 0]) ++ estr_list (body_of a0)
                   ++ span_post root (np ++ [SArg 0]) /\
    estr root' = span_pre root (np ++ [SArg 0]) ++ s ++ span_post root (np ++ [SArg 0]).
Proof. exact EditProofs.set_string_cmd_local. Qed.
Print Assumptions set_string_local.

(* node.string = s on an environment whose `contents` view is one text: its raw contents
   become s *)
Theorem set_string_env_local : forall root np h q x s,
  get root np = Some h -> is_env h = true -> cview h = [(q, x)] -> is_node x = false ->
  exists root', set_string root np s = Done root' /\
    estr root  = span_pre root np ++ estr_list (body_of h) ++ span_post root np /\
    estr root' = span_pre root np ++ s ++ span_post root np.
Proof. exact EditProofs.set_string_env_local. Qed.
Print Assumptions set_string_env_local.

(* the same for an environment WITHOUT arguments, in terms of its raw contents only: all
   but one of them are whitespace-only texts and that one is a text *)
Theorem set_string_env_noargs_local : forall root np h x s,
  get root np = Some h -> is_env h = true -> args_of h = [] ->
  filter (fun c => negb (is_ws_item c)) (body_of h) = [x] -> is_node x = false ->
  exists root', set_string root np s = Done root' /\
    estr root  = span_pre root np ++ estr_list (body_of h) ++ span_post root np /\
    estr root' = span_pre root np ++ s ++ span_post root np.
Proof. exact EditProofs.set_string_env_noargs_local. Qed.
Print Assumptions set_string_env_noargs_local.
Theorem set_string_env_noargs_example :
  let root := parsed doc_env in
  exists h x, get root [SBody 0] = Some h /\ is_env h = true /\ args_of h = [] /\
              filter (fun c => negb (is_ws_item c)) (body_of h) = [x] /\ is_node x = false.
Proof. exact EditProofs.set_string_env_noargs_example. Qed.
Print Assumptions set_string_env_noargs_example.

(* node.args = a permutation / prefix / slice (index selection idxs) of the argument list *)
Theorem set_args_local : forall root np h idxs a',
  get root np = Some h -> has_args h = true -> nodup_nat idxs = true ->
  select (args_of h) idxs = Some a' ->
  exists root', set_args root np idxs = Done root' /\
    estr root  = ctx_pre root np
                   ++ (head_of h ++ estr_list (args_of h) ++ estr_list (body_of h) ++ close_of h)
                   ++ ctx_post root np /\
    estr root' = ctx_pre root np
                   ++ (head_of h ++ estr_list a' ++ estr_list (body_of h) ++ close_of h)
                   ++ ctx_post root np.
Proof. exact EditProofs.set_args_local. Qed.
Print Assumptions set_args_local.

(* examples of the hypotheses, on  \begin{e} ab \end{e}\g{h}  and  \c[o]{p}{q} *)
Theorem C14_rename_example :
  let root := parsed doc_env in
  (exists n a b p, get root [SBody 0] = Some (ENamed n a b p)) /\
  (exists n a b p, get root [SBody 1] = Some (ECmd n a b p)) /\
  done_str (set_name root [SBody 0] s_ren) = Some s_renamed_env.
Proof. exact EditProofs.rename_example. Qed.
Print Assumptions C14_rename_example.

Theorem C14_set_string_example :
  let root := parsed doc_env in
  (exists n a0 b p, get root [SBody 1] = Some (ECmd n [a0] b p) /\ is_node a0 = true) /\
  done_str (set_string root [SBody 1] s_new) = Some s_cmd_string /\
  (exists h q x, get root [SBody 0] = Some h /\ is_env h = true /\ cview h = [(q, x)] /\
                 is_node x = false).
Proof. exact EditProofs.set_string_example. Qed.
Print Assumptions C14_set_string_example.

Theorem C14_set_args_example :
  let root := parsed doc_args in
  (exists h a', get root [SBody 0] = Some h /\ has_args h = true /\
                nodup_nat [2; 0]%nat = true /\ select (args_of h) [2; 0]%nat = Some a') /\
  done_str (set_args root [SBody 0] [2; 0]%nat) = Some s_args_sel.
Proof. exact EditProofs.set_args_example. Qed.
Print Assumptions C14_set_args_example.

(* "assigning the string of a text-only environment changes exactly that part" fails when
   the only text of the environment sits in its argument:  \begin{e}{x}\end{e}.string = 'S'
   gives \begin{e}{x}S\end{e}  (the text that .string read is still there), and afterwards
   .string raises AssertionError *)
Theorem C14_set_string_env_argument_text_refuted :
  exists (t t1 : expr) (np : path),
    (exists h q x, get t np = Some h /\ is_env h = true /\ cview h = [(q, x)] /\
                   is_node x = false /\ body_of h = []) /\
    set_string t np s_S = Done t1 /\ estr t1 = s_envarg_S /\
    set_string t1 np s_S = Raise EAssertionError.
Proof. exact EditProofs.C14_set_string_env_argument_text_refuted. Qed.
Print Assumptions C14_set_string_env_argument_text_refuted.
