(* C06  Parsing is total: it terminates with a tree or a diagnostic error.
   Statements only; proofs in Proofs/TokProofs.v, ReaderLen.v, ReaderTotal.v, ParseTotal.v.

   What the model cannot exhibit (see DESIGN.md): running time and the
   interpreter's recursion limit.  `parse` runs the reader with fuel
   4*|tokens|+8; the theorem shows that this linear amount always suffices
   (the result is never OutOfFuel), i.e. every recursive call and every loop
   iteration of the reader consumes input. *)
From Coq Require Import List NArith ZArith Bool.
From TexModel Require Import Base Tables Chars Tokenizer Tree Reader.
From TexProofs Require Import TokProofs ReaderLen ReaderTotal ParseTotal.
Import ListNotations.

(* every string, both tolerance modes, any user skip list: a tree or one of
   the three diagnostic errors - never OutOfFuel (non-termination within
   linear fuel), StopIteration/RuntimeError, KeyError or a tokenizer failure
   (AttributeError / a round without progress) *)
Theorem C06_total :
  forall (s : str) (strict : bool) (user_skip : list str),
    (exists t, parse s strict user_skip = Ok t) \/
    parse s strict user_skip = Err EOFError \/
    parse s strict user_skip = Err TypeError \/
    parse s strict user_skip = Err AssertionError.
Proof. exact parse_result_cases. Qed.
Print Assumptions C06_total.

(* the tokenizer never fails and never stalls *)
Theorem C06_tokenizer_total :
  forall s : str, exists toks, tokens_of_string s = (toks, TEnd).
Proof. intro s. destruct (tokenize_partition s) as (toks & E & _). eauto. Qed.
Print Assumptions C06_tokenizer_total.

(* the termination measure: an expression consumes at least one token, and
   3*|toks|+1 units of fuel are enough for it, whatever the nesting *)
Theorem C06_expr_consumes :
  forall f skip strict m toks e rest,
    read_expr f skip strict m toks = Ok (e, rest) -> (length rest < length toks)%nat.
Proof. intro f. exact (proj1 (len_all_holds f)). Qed.
Print Assumptions C06_expr_consumes.

Theorem C06_linear_fuel :
  forall f skip strict m toks,
    toks <> [] -> (3 * length toks + 1 <= f)%nat -> diag (read_expr f skip strict m toks).
Proof. intro f. exact (proj1 (tot_all_holds f)). Qed.
Print Assumptions C06_linear_fuel.

(* non-vacuity / sanity: each outcome occurs *)
Example C06_ex_tree : exists t, parse [92; 97; 123; 120; 125]%N true [] = Ok t.     (* \a{x} *)
Proof. eexists. vm_compute. reflexivity. Qed.
Example C06_ex_eof : parse [36; 120]%N true [] = Err EOFError.                        (* $x *)
Proof. vm_compute. reflexivity. Qed.
Example C06_ex_type : parse [123; 120]%N true [] = Err TypeError.                     (* {x *)
Proof. vm_compute. reflexivity. Qed.
Example C06_ex_assert : parse [92; 98; 101; 103; 105; 110; 32; 120]%N true [] = Err AssertionError. (* \begin x *)
Proof. vm_compute. reflexivity. Qed.
